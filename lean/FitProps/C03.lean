import FitProps.DecoderApiLemmas
import FitProps.DecoderApiEntryLemmas
import FitModel.DecoderApiListener
import FitProps.C08
import FitProps.C13
import FitProps.C14
import FitProps.C16
import FitProps.LinksApi
import FitProps.DecoderApiOverrunLemmas
import FitProps.DecoderApiDefaultLemmas
/-!
# C03 — Decoding arbitrary bytes never panics, hangs or fakes success

The theorems are about `Fit.DecApi` (FitModel/DecoderApi.lean), the state-machine model of the decoder's public API
that the driver runs against the real code (families `decapi`, `dechist`). They hold for **every** byte string, every
option combination, every factory table and every sequence of API calls.

PROPERTY THEOREMS (audited by ./check): C03_no_panic, C03_no_hang, C03_sticky, C03_error_sticks, C03_sticky_run,
C03_no_fake_success, C03_last_record_starts_inside, C03_no_fake_success_msgs, C03_no_fake_success_clean, C03_no_panic_ops_any_reader, C03_default_config_total, C03_ctx_cancel, C03_ctx_no_fake_success, C03_raw_total, C03_readbuffer_total, C03_listener_total, C03_consts
-/
namespace Fit.C03
open Fit.DecApi

/-- **No panic.** Whatever bytes the readers deliver, whatever the options and the factory, and whatever entry points
are called in whatever order: no call ends in a Go panic — every index, slice, division and `UnmarshalValue` of the
model is guarded by what the code checked before (header size 12/14, `n·3 ≤ 765`, valid base types in live
definitions, `Size < baseType.Size()` fallback, array mode for undersized fields). -/
theorem C03_no_panic (o : Opts) (bytes : List Nat) (ops : List Op) (hb : IsBytes bytes) (hf : FacOK o.fac)
    (hops : ∀ op ∈ ops, OpOK op) : ∀ r ∈ run (Api.fresh o bytes) ops, r.1 ≠ .panic :=
  fun r hr => (run_good ops _ (Api.fresh_inv o bytes hb hf) hops r hr).1

/-- **No hang.** Every function of the model is structurally recursive (Lean's termination checker), and the fuel the
record loops are started with (remaining stream length + 1) is never exhausted: every iteration of `decodeMessages`,
of `PeekFileId`'s loop, of `discardMessages` and of `CheckIntegrity` consumes at least one byte; component expansion
nests at most 255 deep because every component's destination has a larger field number (`FacOK` — the contract a
`decoder.Factory` has to meet: with cyclic components the real code recurses without end). -/
theorem C03_no_hang (o : Opts) (bytes : List Nat) (ops : List Op) (hb : IsBytes bytes) (hf : FacOK o.fac)
    (hops : ∀ op ∈ ops, OpOK op) : ∀ r ∈ run (Api.fresh o bytes) ops, r.1 ≠ .hang :=
  fun r hr => (run_good ops _ (Api.fresh_inv o bytes hb hf) hops r hr).2

/-- Non-vacuity: byte strings, a reset, and a factory with nested components as in the profile
(compressed_speed_distance → speed, distance; speed → enhanced_speed), ranked by the field number of the destination chain. -/
example : IsBytes [14, 32, 154, 82] ∧ OpOK (.reset {} [1, 2, 255]) ∧ OpOK .decode ∧
    FacOK [⟨20, 8, ⟨true, 13, false, true, false, [⟨6, false, 12⟩, ⟨5, true, 12⟩]⟩⟩, ⟨20, 6, ⟨true, 132, false, false, false, [⟨73, false, 16⟩]⟩⟩] := by
  refine ⟨by simp [IsBytes], ⟨by simp [IsBytes], ⟨fun _ _ => 0, fun _ _ => (by decide : (0 : Nat) < 256), by intro e he; cases he⟩⟩, trivial, ?_⟩
  refine ⟨fun _ n => if n = 8 then 2 else if n = 6 then 1 else 0, ?_, ?_⟩
  · intro m n; simp only; split <;> (try split) <;> decide
  · intro e he c hc
    simp only [List.mem_cons, List.mem_nil_iff, or_false] at he
    rcases he with rfl | rfl
    · simp only [List.mem_cons, List.mem_nil_iff, or_false] at hc
      rcases hc with rfl | rfl <;> decide
    · simp only [List.mem_cons, List.mem_nil_iff, or_false] at hc
      subst hc; decide

/-- **Sticky error.** Once `d.err` is set, every entry point other than `Reset` returns that error (`Next`: false,
`CheckIntegrity`: 0 sequences and the error), calls no listener and leaves the decoder's state as it is. -/
theorem C03_sticky (a : Api) (e : Err) (h : a.d.q.err = some e) (op : Op) (hop : ∀ o b, op ≠ .reset o b) :
    (step a op).2 = (stickyOut e op, []) ∧ (step a op).1 = a :=
  step_sticky a e h op hop

/-- **An error sticks.** When `Decode`, `DecodeWithContext`, `PeekFileHeader`, `PeekFileId` or `Discard` returns an error,
that error is the decoder's `d.err` afterwards (so `C03_sticky` applies to everything that follows). The verdict of
`CheckIntegrity` is a statement about the stream, not a decoder error: by its contract it resets the decoder. -/
theorem C03_error_sticks (a : Api) (op : Op) (ha : ApiInv a) (hop : OpOK op) (e : Err)
    (h : (step a op).2.1 = .err e) : (step a op).1.d.q.err = some e :=
  (step_good a op ha hop).2.2.2 e h

def noReset : Op → Bool
  | .reset _ _ => false
  | _ => true

/-- **…and keeps being returned.** After a call returned an error, every later call up to the next `Reset` returns
that same error, whatever is called and however often. -/
theorem C03_sticky_run (a : Api) (e : Err) (h : a.d.q.err = some e) :
    ∀ ops : List Op, ops.all noReset = true → run a ops = ops.map (fun op => (stickyOut e op, []))
  | [], _ => rfl
  | op :: ops, hops => by
    simp only [List.all_cons, Bool.and_eq_true] at hops
    have hs := C03_sticky a e h op (by intro o b hh; subst hh; simp [noReset] at hops)
    unfold run
    have h1 : (step a op).2 = (stickyOut e op, []) := hs.1
    have h2 : (step a op).1.d.q.err = some e := by rw [hs.2]; exact h
    rcases hst : step a op with ⟨a', out, evs⟩
    rw [hst] at h1 h2
    simp only at h1 h2 ⊢
    rw [List.map_cons, C03_sticky_run a' e h2 ops hops.2]
    cases h1; rfl

/-- **No fake success.** If `Decode` on a new decoder returns a FIT, then the stream starts with a well-formed header
(12 or 14 bytes, ".FIT", non-zero data size; with checksums on, a 14-byte header with a non-zero CRC field carries the
CRC-16 of its first 12 bytes), followed by records that were all parsed and cover at least the declared data size,
followed by two CRC bytes — returned as `fit.CRC` and, with checksums on, equal to the CRC-16 of exactly those record
bytes — and the decoder stands right behind them. Nothing partial is ever returned: any error on the way yields no FIT. -/
theorem C03_no_fake_success (o : Opts) (bytes : List Nat) (hb : IsBytes bytes) (hf : FacOK o.fac) (hlen : bytes.length < 4294967296)
    (s' : St) (f : Fit) (evs : List Event) (h : stepDecode (St.fresh o bytes) = (s', .fit f, evs)) :
    ∃ hdr recs c0 c1, bytes = hdr ++ recs ++ [c0, c1] ++ s'.rest ∧ HdrOK o.chk 0 hdr f.hdr ∧
      f.hdr.dataSize ≤ recs.length ∧ f.crc = c0 + 256 * c1 ∧ (o.chk = true → Fit.Crc.write 0 recs = f.crc) :=
  (decode_fresh_accepted o bytes hb hf hlen s' f evs h).split

/-- **No fake success, the bound on the overrun.** The record bytes `recs` of `C03_no_fake_success` may be longer than the
declared data size — the code lets the LAST record run past it (KF-C07-4 is about what that does to the next sequence). This
theorem bounds it: `recs = recs₀ ++ last` where `last` is exactly ONE record — what a single `decodeMessage` consumed, from the
decoder state `sl` reached by reading `recs₀` — and that record STARTS strictly inside the declared data size:
`|recs₀| < dataSize ≤ |recs₀| + |last|`. So the overrun `|recs| − dataSize` is less than the length of one record (at most
1 + 255·255 + 255·255 bytes for a data record with 255 fields and 255 developer fields of 255 bytes; 1537 for a definition),
at least one record was read, and the two CRC bytes follow that record immediately. -/
theorem C03_last_record_starts_inside (o : Opts) (bytes : List Nat) (hb : IsBytes bytes) (hf : FacOK o.fac) (hlen : bytes.length < 4294967296)
    (s' : St) (f : Fit) (evs : List Event) (h : stepDecode (St.fresh o bytes) = (s', .fit f, evs)) :
    ∃ hdr recs₀ last c0 c1 sl sf ev, bytes = hdr ++ recs₀ ++ last ++ [c0, c1] ++ s'.rest ∧ HdrOK o.chk 0 hdr f.hdr ∧
      recs₀.length < f.hdr.dataSize ∧ f.hdr.dataSize ≤ recs₀.length + last.length ∧
      sl.rest = last ++ sf.rest ∧ sf.rest = [c0, c1] ++ s'.rest ∧ decodeMessage sl = .ok (sf, ev) :=
  decode_fresh_last o bytes hb hf hlen s' f evs h

/-- **No fake success, the messages.** `C03_no_fake_success` constrains the framing (header, a byte string `recs` covering
the declared data size, CRC); this theorem says what the RETURNED MESSAGES are. If `Decode` on a new decoder returns a FIT,
then the reader-client model (D) (`DecProg.decodeLoop`, one sequence: header, `for d.cur < dataSize { decodeMessage }`,
CRC — its message events carry, for every record it reads, the header byte, the definition in force and exactly the bytes
`ReadN` delivered for each field and developer field) ends its run on the same bytes WITHOUT error, and the returned FIT —
header, every message with every decoded VALUE, developer fields, expanded components, CRC — together with the listener
calls made (reserved byte of definitions zeroed: (D) does not observe it) is `apiOf` of (D)'s events: the decoder's own
value-level functions applied to the bytes those record events carry and to nothing else of the stream. So no message of a
returned FIT comes from anywhere but a record that was read in full inside the loop over the declared data size, in
order, and none of those records is missing. Hypotheses beyond `C03_no_fake_success`: the factory is in the common domain
of the two models (`facBtOK`: valid base types; `facFdOK`: the three fields of field_description as in the profile —
`Link_stdFactory_ok`: met by the regenerated standard factory). How far the last record may run past the declared data size:
`C03_last_record_starts_inside`. -/
theorem C03_no_fake_success_msgs (o : Opts) (bytes : List Nat) (hb : IsBytes bytes) (hf : FacOK o.fac) (hlen : bytes.length < 4294967296)
    (hbt : Fit.Link.facBtOK o.fac = true) (hfd : Fit.Link.facFdOK o.fac = true)
    (s' : St) (f : Fit) (evs : List Event) (h : stepDecode (St.fresh o bytes) = (s', .fit f, evs)) :
    (Fit.ReadBuffer.runExact (Fit.DecProg.decodeLoop o.chk 1 true []) bytes).status = none ∧
    Fit.Link.apiOf o (Fit.ReadBuffer.runExact (Fit.DecProg.decodeLoop o.chk 1 true []) bytes) = [(.fit f, evs.map Fit.Link.normEvent)] ∧
    ∃ hdr recs c0 c1, bytes = hdr ++ recs ++ [c0, c1] ++ s'.rest ∧ HdrOK o.chk 0 hdr f.hdr ∧
      f.hdr.dataSize ≤ recs.length ∧ f.crc = c0 + 256 * c1 ∧ (o.chk = true → Fit.Crc.write 0 recs = f.crc) := by
  have hl := Fit.Links.Link_decode_is_apiOf o bytes hb hlen hf hbt hfd s' f evs h
  refine ⟨?_, hl, C03_no_fake_success o bytes hb hf hlen s' f evs h⟩
  -- a run of (D) that ended with an error would put an error entry last in `apiOf`
  cases hs : (Fit.ReadBuffer.runExact (Fit.DecProg.decodeLoop o.chk 1 true []) bytes).status with
  | none => rfl
  | some e =>
    exfalso
    unfold Fit.Link.apiOf at hl
    rw [hs] at hl
    simp only at hl
    have := congrArg List.getLast? hl
    simp at this

/-- non-vacuity: the one-record file `P` under the empty factory meets the hypotheses; its FIT has one message -/
example : Fit.Link.facBtOK ([] : Factory) = true ∧
    (Fit.Link.apiOf {} (Fit.ReadBuffer.runExact (Fit.DecProg.decodeLoop true 1 true [])
      [14, 32, 154, 82, 11, 0, 0, 0, 46, 70, 73, 84, 30, 8, 64, 0, 0, 0, 0, 1, 0, 1, 0, 0, 4, 84, 47])).map
      (fun p => match p.1 with | .fit f => f.msgs.length | _ => 99) = [1] := by decide +kernel

/-- the same from every state at a sequence boundary (per-sequence state and look-ups as new — C07 shows that every
boundary a history reaches is such a state) -/
theorem C03_no_fake_success_clean (s : St) (hq : s.q = {}) (hl : s.look = {}) (hb : IsBytes s.rest) (hf : FacOK s.o.fac)
    (hlen : s.rest.length < 4294967296) (s' : St) (f : Fit) (evs : List Event) (h : stepDecode s = (s', .fit f, evs)) :
    ∃ hdr recs c0 c1, s.rest = hdr ++ recs ++ [c0, c1] ++ s'.rest ∧ HdrOK s.o.chk 0 hdr f.hdr ∧
      f.hdr.dataSize ≤ recs.length ∧ f.crc = c0 + 256 * c1 ∧ (s.o.chk = true → Fit.Crc.write 0 recs = f.crc) := by
  rw [eq_fresh_of_clean s hq hl] at h
  exact C03_no_fake_success s.o s.rest hb hf hlen s' f evs h

def isFitOut : Out → Bool
  | .fit _ => true
  | _ => false

/-- **A context cancelled while `DecodeWithContext` runs** (by a listener, by another goroutine — `k` = the number of
records the call decodes before a check of the context first sees it, any `k`): the call either is `Decode` itself
— same state afterwards, same result, same listener calls: the cancellation came too late to be seen — or it returns
the context's error, which is then the decoder's sticky `d.err` (so by `C03_sticky_run` every later call returns it
until `Reset`: no later `Decode` can present the rest of the stream, or an empty FIT, as a success). -/
theorem C03_ctx_cancel (k : Nat) (s : St) (hi : Inv s) :
    stepDecodeCtxAt k s = stepDecode s ∨
      ((stepDecodeCtxAt k s).2.1 = .err .ctx ∧ (stepDecodeCtxAt k s).1.q.err = some .ctx) := by
  have hg := stepDecodeCtxAt_good k s hi
  unfold stepDecodeCtxAt stepDecode at *
  cases he : s.q.err with
  | some e => left; rfl
  | none =>
    rw [he] at hg
    simp only at hg ⊢
    unfold decodeBodyAt decodeBody at *
    cases hr : headerOnce s with
    | ok s1 =>
      rw [hr] at hg
      simp only at hg ⊢
      rcases decodeMessagesCtx_cases (fuelOf s1) k s1 with hc | hc
      · left; rw [hc]; rfl
      · right
        have : (decodeTail (decodeMessagesCtx (fuelOf s1) k s1)).2.1 = .err .ctx := by
          rcases hd : decodeMessagesCtx (fuelOf s1) k s1 with ⟨s2, evs2, r⟩
          rw [hd] at hc
          simp only at hc
          subst hc
          rfl
        exact ⟨this, hg.2.2.2 _ this⟩
    | err e => left; rfl
    | panic => left; rfl
    | hang => left; rfl

/-- **No fake success of `DecodeWithContext`**, whenever its context is cancelled: a FIT it returns on a new decoder
is the FIT `Decode` returns, with everything `C03_no_fake_success` says about it. -/
theorem C03_ctx_no_fake_success (k : Nat) (o : Opts) (bytes : List Nat) (hb : IsBytes bytes) (hf : FacOK o.fac)
    (hlen : bytes.length < 4294967296) (s' : St) (f : Fit) (evs : List Event)
    (h : stepDecodeCtxAt k (St.fresh o bytes) = (s', .fit f, evs)) :
    stepDecode (St.fresh o bytes) = (s', .fit f, evs) ∧
    ∃ hdr recs c0 c1, bytes = hdr ++ recs ++ [c0, c1] ++ s'.rest ∧ HdrOK o.chk 0 hdr f.hdr ∧
      f.hdr.dataSize ≤ recs.length ∧ f.crc = c0 + 256 * c1 ∧ (o.chk = true → Fit.Crc.write 0 recs = f.crc) :=
  ⟨stepDecodeCtxAt_fit k _ s' f evs h,
   C03_no_fake_success o bytes hb hf hlen s' f evs (stepDecodeCtxAt_fit k _ s' f evs h)⟩

/-- Non-vacuity, and the scenario of the cancellation that arrives with the LAST message (`P` is one definition and one
data record; the listener of the data record cancels the context; the check after the loop sees it): the call fails with the context error, and the
`Decode` that follows returns that error — not a FIT with no messages. A cancellation that would come after a third
record is never seen: the call is `Decode`. -/
example : let P := [14, 32, 154, 82, 11, 0, 0, 0, 46, 70, 73, 84, 30, 8, 64, 0, 0, 0, 0, 1, 0, 1, 0, 0, 4, 84, 47]
    (run (Api.fresh {} P) [.decodeCtxAt 2, .decode]).map (·.1) = [.err .ctx, .err .ctx] ∧
    isFitOut (stepDecodeCtxAt 3 (St.fresh {} P)).2.1 = true ∧
    stepDecodeCtxAt 3 (St.fresh {} P) = stepDecode (St.fresh {} P) := by decide +kernel

/-- Non-vacuity: a one-record sequence is accepted (`P` of C07), its corrupted copy is not, and a decoder that met a
truncated header is dead and stays so. -/
def isFit : Out → Bool
  | .fit _ => true
  | _ => false

example : isFit (stepDecode (St.fresh {} [14, 32, 154, 82, 11, 0, 0, 0, 46, 70, 73, 84, 30, 8, 64, 0, 0, 0, 0, 1, 0, 1, 0, 0, 4, 84, 47])).2.1 = true ∧
    (stepDecode (St.fresh {} [14, 32, 154, 82, 11, 0, 0, 0, 46, 70, 73, 84, 30, 8, 64, 0, 0, 0, 0, 1, 0, 1, 0, 0, 4, 84, 48])).2.1 = .err .crc := by
  decide +kernel

example : let a := (step (Api.fresh {} [14, 32]) .decode).1
    a.d.q.err = some .eof ∧ (run a [.decode, .next, .peekFileId, .checkIntegrity]).map (·.1) =
      [.err .eof, .bool false, .err .eof, .integrity 0 (some .eof)] := by decide

/-! ## the other entry points the statement names: raw decoding, the read buffer under any reader, the typed-file listener

Corollaries of the theorems of C16 (raw decoder model, `FitModel/Raw.lean`), C08 (read buffer and the decoder as a client
of it, `FitModel/ReadBuffer.lean` / `DecProg.lean`), C13 (typed conversion, `FitModel/Typed.lean`) and C14 (listener
transition system, `FitModel/Listener.lean`), whose models are tied to the code by those properties' families and, for
the no-panic / no-hang claim on hostile input, by the family `decentry` of this check. -/

/-- **Raw decoding is total.** For every byte stream, every behaviour of the callback (`failAt`: it never fails, or it
fails at its j-th call) and every bound `fuel` on the number of sequences: `RawDecoder.Decode` ends with a result or an
error and never in its one panic branch (`BytesArray[1:lenMesg]` beyond the fixed array: a record length computed from
255 + 255 sizes of at most 255 always fits) — over the exact-n reader and over ANY reader (`io.ReadFull` on a reader that
fragments the stream anyhow and fails anywhere); and the bound is not what stops it: with more fuel than bytes the
outcome does not depend on the fuel (every sequence consumes at least one byte). Termination itself is Lean's: the model
is a finite tree of read requests (`Prog`) interpreted by structural recursion. -/
theorem C03_raw_total (failAt : Option Nat) (fuel : Nat) (bs : Fit.ReadBuffer.Bytes) (hb : Fit.ReadBuffer.IsBytes bs) :
    (Fit.C16.rawOut failAt fuel bs).status ≠ some .panic ∧
    (∀ s : Fit.ReadBuffer.Sched, Fit.ReadBuffer.bytesOf s = bs →
      (Fit.ReadBuffer.runFull (Fit.Raw.decode failAt fuel {}) s).status ≠ some .panic) ∧
    (bs.length < fuel → Fit.C16.rawOut failAt fuel bs = Fit.C16.rawOut failAt (bs.length + 1) bs) :=
  ⟨Fit.Raw.nopanic_exact _ (Fit.Raw.nopanic_decode failAt fuel {}) bs hb,
   fun s hs => Fit.Raw.nopanic_full _ (Fit.Raw.nopanic_decode failAt fuel {}) s (hs ▸ hb),
   fun hf => Fit.Raw.decode_simN failAt bs.length fuel (bs.length + 1) {} hf (Nat.lt_succ_self _) bs (Nat.le_refl _)⟩

/-- non-vacuity: a stream that ends before the declared data size is reached, with a callback failing at its third call and without -/
example : (Fit.C16.rawOut (some 2) 9 [14, 32, 0, 0, 16, 0, 0, 0, 46, 70, 73, 84, 0, 0, 0x42, 0, 0, 20, 0, 2, 3, 1, 2, 4, 0, 2, 0xC5, 9]).status = some .callback ∧
    (Fit.C16.rawOut none 9 [14, 32, 0, 0, 16, 0, 0, 0, 46, 70, 73, 84, 0, 0, 0x42, 0, 0, 20, 0, 2, 3, 1, 2, 4, 0, 2, 0xC5, 9]).status = some (.io .eof) := by
  decide +kernel

/-- **The read buffer is total under the decoder.** (1) `ReadN`, on a buffer in whatever state `Reset` found it, over ANY
reader (any fragmentation, failures anywhere) and any buffer size, never panics for requests of at most `reservedbuf`
bytes; (2) every request the decoder issues — file header, record headers, definitions with up to 255 + 255 field
definitions, field and developer field values, CRC — is at most `reservedbuf` bytes; (3) hence the whole
`for dec.Next() { dec.Decode() }` loop over the read buffer never panics, whatever the reader does. -/
theorem C03_readbuffer_total :
    (∀ (b : Fit.ReadBuffer.RB) (s : Fit.ReadBuffer.Sched) (size : Int) (ns : List Nat), (∀ n ∈ ns, n ≤ Fit.Gen.Reader.reservedbuf) →
      ∀ r ∈ ((b.reset s size).readMany ns).1, r ≠ .panic) ∧
    (∀ (chk : Bool) (fuel : Nat) (first : Bool) (evs : List Fit.DecProg.Ev),
      Fit.ReadBuffer.Good Fit.DecProg.Out.merge Fit.Gen.Reader.reservedbuf (Fit.DecProg.decodeLoop chk fuel first evs)) ∧
    (∀ (chk : Bool) (fuel : Nat) (b : Fit.ReadBuffer.RB) (s : Fit.ReadBuffer.Sched) (size : Int),
      Fit.ReadBuffer.IsBytes (Fit.ReadBuffer.bytesOf s) →
      Fit.ReadBuffer.runRB (Fit.DecProg.decodeLoop chk fuel true []) (b.reset s size) ≠ .panic) := by
  refine ⟨?_, Fit.C08.C08_request_bound, ?_⟩
  · intro b s size ns hns r hr
    obtain ⟨i, hi, rfl⟩ := List.mem_iff_getElem.mp hr
    exact (Fit.C08.C08_readN_sound b s size ns hns i _ (List.getElem?_eq_getElem hi)).1
  · intro chk fuel b s size hb
    exact Fit.DecProg.runRB_no_panic _ (Fit.C08.C08_request_bound chk fuel true []) (Fit.DecProg.keeps_decodeLoop chk fuel true [])
      _ _ (Fit.ReadBuffer.reset_inv b s size) hb

/-- **The decoder's DEFAULT configuration** (`decoder.New(r)`: standard factory, component expansion on) as
`FitModel/DecoderApiDefault.lean` models it — the decoder-API model with the regenerated standard factory and expansion off,
every decoded message then expanded by C05's model of `expandComponents` over the real component / sub-field graph: for every
byte stream, option set and history of calls, no call ends in a panic or a hang. (Every result is, call by call, (C)'s result
with the FIT's messages expanded; the expansion itself is a total function — `Fit.Expand.decodeTail`, whose recursion over
the real graph is bounded by `C05_profile_depth`; its bit store, accumulator and scale / offset arithmetic are C05's and
C12's subject.) -/
theorem C03_default_config_total (o : Opts) (bytes : List Nat) (ops : List Op) (hb : IsBytes bytes)
    (hops : ∀ o' b, Op.reset o' b ∈ ops → IsBytes b) :
    ∀ y ∈ Default.run o bytes ops, ∀ evs, y ≠ some (.other .panic, evs) ∧ y ≠ some (.other .hang, evs) := by
  intro y hy evs
  unfold Default.run at hy
  simp only at hy
  rw [List.zip_map_right] at hy
  have hy' : y ∈ Default.walk o {} (((ops.map (Default.innerOp o)).zip
      (run (Api.fresh (Default.inner o) bytes) (ops.map (Default.innerOp o)))).map fun t => (t.1, some t.2)) := hy
  obtain ⟨t, ht, msgs, evs', rfl⟩ := Default.walk_out o _ _ y hy'
  have hmem : t.2 ∈ run (Api.fresh (Default.inner o) bytes) (ops.map (Default.innerOp o)) := (List.of_mem_zip ht).2
  have hops' : ∀ op ∈ ops.map (Default.innerOp o), OpOK op := by
    intro op hop
    obtain ⟨op0, h0, rfl⟩ := List.mem_map.mp hop
    cases op0 with
    | reset o' b => exact ⟨hops o' b h0, Default.facOK_std⟩
    | _ => trivial
  have h1 := C03_no_panic (Default.inner o) bytes _ hb Default.facOK_std hops' t.2 hmem
  have h2 := C03_no_hang (Default.inner o) bytes _ hb Default.facOK_std hops' t.2 hmem
  constructor
  · intro h
    cases hout : t.2.1 <;> simp [hout, Default.xoutOf] at h
    exact h1 hout
  · intro h
    cases hout : t.2.1 <;> simp [hout, Default.xoutOf] at h
    exact h2 hout

/-- **Every entry point over ANY reader.** The decoder object driven through any list of calls — `Decode`,
`DecodeWithContext` (context live / cancelled before / cancelled during the call), `PeekFileHeader`, `PeekFileId`, `Discard`,
`Next`, `CheckIntegrity` — as a client of the read buffer (`FitModel/DecHist.lean`), over a reader that fragments the stream
anyhow and fails anywhere, with any buffer size, from any state a previous `Reset` left the buffer in: no call makes `ReadN`
panic (every request is at most `reservedbuf` bytes, and the first failed request is the last request: the error is
sticky). Termination: the program is a finite tree of requests interpreted by structural recursion. -/
theorem C03_no_panic_ops_any_reader (chk : Bool) (fuelCi : Nat) (ops : List Fit.DecHist.Op) (b : Fit.ReadBuffer.RB)
    (s : Fit.ReadBuffer.Sched) (size : Int) (hb : Fit.ReadBuffer.IsBytes (Fit.ReadBuffer.bytesOf s)) :
    Fit.ReadBuffer.runRB (Fit.DecHist.history chk fuelCi ops) (b.reset s size) ≠ .panic :=
  (Fit.DecHist.s_history chk fuelCi ops).no_panic _ _ (Fit.ReadBuffer.reset_inv b s size) hb

/-- non-vacuity: a reader that delivers 20 bytes of a file and then fails with its own error 7, calls PeekFileId, Discard,
Decode: the peek returns the failure, the others return it again -/
example : (match Fit.ReadBuffer.runRB (Fit.DecHist.history true 3 [.peekFileId, .discard, .decode])
      (Fit.ReadBuffer.RB.fresh [⟨Fit.C08.kfBytes.take 20, none⟩, ⟨[], some (.custom 7)⟩] 0) with
    | .done o => o.res | .panic => []) =
    [.err (.dec (.io (.custom 7))), .err (.dec (.io (.custom 7))), .err (.dec (.io (.custom 7)))] := by decide +kernel

/-- **Feeding a decoded stream to the typed-file listener is total.** For every byte stream, option set, factory table
and history of API calls, let `msgs` be the messages the decoder hands to its message listeners (as `proto.Message`s:
`Msg.toMessage`). Then (1) every field of every one of them carries a `FieldBase` — the hypothesis of the typed layer,
met because the decoder takes every field from `Factory.CreateField` (see `FitModel/DecoderApiListener.lean`);
(2) so no typed conversion `mesgdef.NewXxx(&mesg)` — what every file type's `Add` calls — panics on any of them, for each
of the 119 regenerated message tables, whatever field numbers, value types, duplicates and sizes the stream made the
decoder produce (C13); (3) and `filedef.Listener` fed with them — followed by whatever further calls (`File`, `Close`,
`Reset`, more messages), for every channel-buffer size N ≥ 0 and every interleaving of the decoder's goroutine with the
listener's worker — never deadlocks: while the decoder still has a call to finish, some thread can move (C14); (4) and cannot run
forever: no infinite sequence of steps exists (`Listener.no_infinite_run`: the calls left, then the rank of the two program
counters plus three times the queue length, decrease lexicographically with every step) — so every run ends, and
(5) where it ends the decoder's goroutine has finished all its calls: `OnMesg` / `File` / `Close` returned. -/
theorem C03_listener_total (o : Opts) (bytes : List Nat) (ops : List Op) :
    let msgs := (listened (run (Api.fresh o bytes) ops)).map Msg.toMessage
    (∀ m ∈ msgs, ∀ f ∈ m.fields, f.base ≠ none) ∧
    (∀ m ∈ msgs, ∀ T ∈ Fit.Gen.Mesgdef.tables, Fit.Typed.ofMesg T m ≠ .panic) ∧
    (∀ (σ : Type) (proc : σ → Fit.Msg.Message → σ) (init : σ) (N : Nat) (calls : List (Fit.Listener.Cmd Fit.Msg.Message))
       (s : Fit.Listener.St Fit.Msg.Message σ),
       Fit.Listener.Reachable proc init N (msgs.map .onMesg ++ calls) s → Fit.Listener.isFin s.p = false →
       ∃ s', Fit.Listener.Step proc init s s') ∧
    (∀ (σ : Type) (proc : σ → Fit.Msg.Message → σ) (init : σ) (f : Nat → Fit.Listener.St Fit.Msg.Message σ),
       ¬ ∀ i, Fit.Listener.Step proc init (f i) (f (i + 1))) ∧
    (∀ (σ : Type) (proc : σ → Fit.Msg.Message → σ) (init : σ) (N : Nat) (calls : List (Fit.Listener.Cmd Fit.Msg.Message))
       (s : Fit.Listener.St Fit.Msg.Message σ),
       Fit.Listener.Reachable proc init N (msgs.map .onMesg ++ calls) s → (∀ s', ¬ Fit.Listener.Step proc init s s') →
       Fit.Listener.isFin s.p = true) := by
  intro msgs
  have h1 : ∀ m ∈ msgs, ∀ f ∈ m.fields, f.base ≠ none := by
    intro m hm f hf
    obtain ⟨m0, _, rfl⟩ := List.mem_map.mp hm
    obtain ⟨f0, _, rfl⟩ := List.mem_map.mp hf
    simp [DField.toField]
  exact ⟨h1, fun m hm T hT => Fit.C13.C13_no_panic T (Fit.C13.C13_tables_wf T hT) m (h1 m hm),
    fun σ proc init N calls s hr hfin => Fit.C14.C14_listener_deadlock_free proc init hr hfin,
    fun σ proc init f => Fit.Listener.no_infinite_run proc init f,
    fun σ proc init N calls s hr hstuck => by
      cases hfin : Fit.Listener.isFin s.p with
      | true => rfl
      | false =>
        obtain ⟨s', hs'⟩ := Fit.C14.C14_listener_deadlock_free proc init hr hfin
        exact absurd hs' (hstuck s')⟩

/-- non-vacuity: the one-record file `P` decoded with a message listener hands out one message (a file_id with an unknown
field of number 0 — the line's factory is empty) -/
example : ((listened (run (Api.fresh { ml := true } [14, 32, 154, 82, 11, 0, 0, 0, 46, 70, 73, 84, 30, 8, 64, 0, 0, 0, 0, 1, 0, 1, 0, 0, 4, 84, 47])
    [.decode])).map Msg.toMessage).length = 1 := by decide +kernel

/-- the constants the guards rely on, as regenerated from the working tree: the largest request (255 field definitions
of 3 bytes) fits the reserved section of the read buffer, the local-number mask indexes the 16 definition slots, the
`vals` arrays of the FileId / FieldDescription builders have the bounds the model guards with -/
theorem C03_consts : 255 * 3 ≤ Fit.Gen.DecApi.reservedbuf ∧ Fit.Gen.DecApi.localMesgNumMask < 16 ∧
    Fit.Gen.DecApi.fileIdBound = 8 ∧ Fit.Gen.DecApi.fieldDescBound = 15 ∧ Fit.Gen.DecApi.profileBool = 17 ∧
    Fit.Gen.DecApi.dataTypeFIT.length = 4 := by decide

end Fit.C03
