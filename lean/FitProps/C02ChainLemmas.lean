import FitProps.BridgeLemmas
import FitProps.CrcLemmas
import FitModel.FitFormat
/-!
Helper lemmas for C02: the OFFSET BOOKKEEPING of a chain. What `FitFormat.parseStream` returns for `encodeChain o fits`,
sequence by sequence: where each view starts, what its header and stored file CRC are, and which bytes of the WHOLE
stream its `slice`s are (`SeqFacts`). No CRC reasoning here — `C02_wellformed_mixed` (FitProps/C02.lean) turns these
facts into `headerCrcOk` / `fileCrcOk` with C18 and `crc_append_self`.
-/
namespace Fit.C02
open Fit.Wire

/-- what a successful `parseSeq` says about the view it returns -/
theorem parseSeq_inv {off : Nat} {bs : List Nat} {v : FitFormat.SeqView} {rest : List Nat}
    (h : FitFormat.parseSeq off bs = some (v, rest)) :
    FitFormat.parseHeader bs = some v.header ∧ v.start = off ∧
    ∃ c0 c1, (bs.drop v.header.size).drop v.header.dataSize = c0 :: c1 :: rest ∧ v.crc = FitFormat.le16 c0 c1 := by
  unfold FitFormat.parseSeq at h
  split at h
  · cases h
  · rename_i hd hh
    dsimp only at h
    split at h
    · cases h
    · split at h
      · cases h
      · split at h
        · rename_i c0 c1 rest' hdrop
          simp only [Option.some.injEq, Prod.mk.injEq] at h
          obtain ⟨rfl, rfl⟩ := h
          exact ⟨hh, rfl, c0, c1, hdrop, rfl⟩
        · cases h

/-- the bytes of the whole stream `bs` that a sequence view `v` of the FIT value `f` stands for -/
structure SeqFacts (o : Opts) (bs : Bytes) (f : Hdr × List WMsg) (v : FitFormat.SeqView) : Prop where
  size : v.header.size = f.1.size
  dataSize : v.header.dataSize = (encodeMsgs o (freshEnc o) f.2).length
  hcrc : v.header.crc = if f.1.size = 14 then some (Fit.Crc.write 0 (b12 f.1 (encodeMsgs o (freshEnc o) f.2).length)) else none
  crc : v.crc = Fit.Crc.write 0 (encodeMsgs o (freshEnc o) f.2)
  /-- the first twelve bytes of the sequence -/
  hdr12 : FitFormat.slice bs v.start 12 = b12 f.1 (encodeMsgs o (freshEnc o) f.2).length
  /-- every byte of the sequence before its file CRC -/
  whole : FitFormat.slice bs v.start (v.header.size + v.header.dataSize) =
    hdrBytes f.1 (encodeMsgs o (freshEnc o) f.2).length ++ encodeMsgs o (freshEnc o) f.2
  /-- the records -/
  recs : FitFormat.slice bs (v.start + v.header.size) v.header.dataSize = encodeMsgs o (freshEnc o) f.2

theorem slice_at (pre x : Bytes) (n : Nat) : FitFormat.slice (pre ++ x) pre.length n = x.take n := by
  simp [FitFormat.slice]

theorem hdrBytes_len (h : Hdr) (ds : Nat) (hs : h.size = 12 ∨ h.size = 14) : (hdrBytes h ds).length = h.size := by
  rcases hs with hs | hs <;> simp [hdrBytes, hs, Wire.le16, Wire.le32]

theorem hdrBytes_b12 (h : Hdr) (ds : Nat) : ∃ t, hdrBytes h ds = b12 h ds ++ t ∧ (b12 h ds).length = 12 := by
  unfold hdrBytes b12
  split
  · exact ⟨_, rfl, by simp [Wire.le16, Wire.le32]⟩
  · exact ⟨[], by simp, by simp [Wire.le16, Wire.le32]⟩

/-- ONE SEQUENCE of a chain: the view `parseSeq` returns at offset `|pre|`, described against the whole stream -/
theorem parseSeq_facts (o : Opts) (ho : OptsOK o) (f : Hdr × List WMsg) (hf : FitOK o f.1 f.2) (pre tail : Bytes) :
    ∃ v, FitFormat.parseSeq pre.length (encodeFit o f.1 f.2 ++ tail) = some (v, tail) ∧
      v.len = (encodeFit o f.1 f.2).length ∧ v.start = pre.length ∧
      SeqFacts o (pre ++ (encodeFit o f.1 f.2 ++ tail)) f v := by
  obtain ⟨v, hv, hlen, hstart, hsize, hds⟩ := Bridge.parseSeq_encodeFit o ho f.1 f.2 hf pre.length tail
  obtain ⟨hhdr, _, c0, c1, hdrop, hcrc⟩ := parseSeq_inv hv
  refine ⟨v, hv, hlen, hstart, ?_⟩
  have hsmall := hf.small
  have hmod : (encodeMsgs o (freshEnc o) f.2).length % 4294967296 = (encodeMsgs o (freshEnc o) f.2).length := Nat.mod_eq_of_lt hsmall
  generalize hR : encodeMsgs o (freshEnc o) f.2 = R at *
  have hE : encodeFit o f.1 f.2 ++ tail = hdrBytes f.1 R.length ++ (R ++ (Wire.le16 (Fit.Crc.write 0 R) ++ tail)) := by
    simp only [encodeFit, hR, hmod, List.append_assoc]
  have hlenH := hdrBytes_len f.1 R.length hf.size
  -- the header
  have hph := Bridge.parseHeader_hdrBytes f.1 R.length (R ++ (Wire.le16 (Fit.Crc.write 0 R) ++ tail)) hf.size hf.profile hsmall
  rw [hE, hph] at hhdr
  have hheader : v.header = ⟨f.1.size, f.1.protoVer, f.1.profileVer, R.length,
      if f.1.size = 14 then some (Fit.Crc.write 0 (b12 f.1 R.length)) else none⟩ := (Option.some.inj hhdr).symm
  -- the stored CRC
  have hc : v.crc = Fit.Crc.write 0 R := by
    rw [hE, hsize, hds] at hdrop
    have h1 : (hdrBytes f.1 R.length ++ (R ++ (Wire.le16 (Fit.Crc.write 0 R) ++ tail))).drop f.1.size =
        R ++ (Wire.le16 (Fit.Crc.write 0 R) ++ tail) := by
      rw [← hlenH]; exact List.drop_left
    rw [h1, List.drop_left] at hdrop
    simp only [Wire.le16, List.cons_append, List.nil_append, List.cons.injEq] at hdrop
    obtain ⟨rfl, rfl, _⟩ := hdrop
    have hlt : Fit.Crc.write 0 R < 2 ^ 16 := Fit.Crc.write_lt 0 (by decide) R
    rw [hcrc]; simp only [FitFormat.le16]; omega
  subst hR
  obtain ⟨t, ht, ht12⟩ := hdrBytes_b12 f.1 (encodeMsgs o (freshEnc o) f.2).length
  refine ⟨hsize, hds, by rw [hheader], hc, ?_, ?_, ?_⟩
  · rw [hstart, slice_at, hE, ht, List.append_assoc, ← ht12, List.take_left]
  · rw [hstart, slice_at, hE, hsize, hds, ← List.append_assoc]
    have : f.1.size + (encodeMsgs o (freshEnc o) f.2).length = (hdrBytes f.1 (encodeMsgs o (freshEnc o) f.2).length ++ (encodeMsgs o (freshEnc o) f.2)).length := by rw [List.length_append, hlenH]
    rw [this, List.take_left]
  · rw [hstart, hsize, hds]
    have h2 : pre.length + f.1.size = (pre ++ hdrBytes f.1 (encodeMsgs o (freshEnc o) f.2).length).length := by rw [List.length_append, hlenH]
    rw [hE, ← List.append_assoc, h2, slice_at, List.take_left]

theorem encodeChain_cons' (o : Opts) (f : Hdr × List WMsg) (fits : List (Hdr × List WMsg)) :
    encodeChain o (f :: fits) = encodeFit o f.1 f.2 ++ encodeChain o fits := by
  simp [encodeChain]

/-- CHAINS: `parseSeqs` at offset `|pre|` returns one view per FIT value, each described against the whole stream
`pre ++ encodeChain o fits` -/
theorem parseSeqs_facts (o : Opts) (ho : OptsOK o) : ∀ (fits : List (Hdr × List WMsg)), (∀ f ∈ fits, FitOK o f.1 f.2) →
    ∀ (pre : Bytes) (fuel : Nat), fits.length ≤ fuel →
    ∃ seqs, FitFormat.parseSeqs fuel pre.length (encodeChain o fits) = some seqs ∧ seqs.length = fits.length ∧
      ∀ p ∈ fits.zip seqs, SeqFacts o (pre ++ encodeChain o fits) p.1 p.2
  | [], _, pre, fuel, _ => ⟨[], by cases fuel <;> simp [encodeChain, FitFormat.parseSeqs], rfl, by simp⟩
  | f :: fits, hall, pre, fuel, hfuel => by
    obtain ⟨f2, rfl⟩ : ∃ f2, fuel = f2 + 1 := ⟨fuel - 1, by simp at hfuel; omega⟩
    obtain ⟨v, hv, hvl, _, hfacts⟩ := parseSeq_facts o ho f (hall f (by simp)) pre (encodeChain o fits)
    obtain ⟨seqs, hs, hl, hall'⟩ := parseSeqs_facts o ho fits (fun x hx => hall x (by simp [hx])) (pre ++ encodeFit o f.1 f.2) f2
      (by simp at hfuel; omega)
    have e := encodeChain_cons' o f fits
    have hoff : pre.length + v.len = (pre ++ encodeFit o f.1 f.2).length := by rw [List.length_append, hvl]
    obtain ⟨a, t, hat⟩ : ∃ a t, encodeFit o f.1 f.2 ++ encodeChain o fits = a :: t := by
      have := Bridge.encodeFit_length_pos o f.1 f.2
      cases hE : encodeFit o f.1 f.2 with
      | nil => simp [hE] at this
      | cons a t => exact ⟨a, t ++ encodeChain o fits, by simp⟩
    refine ⟨v :: seqs, ?_, by simp [hl], ?_⟩
    · rw [e, hat, FitFormat.parseSeqs, ← hat, hv]
      simp only [hoff, hs]
    · intro p hp
      rw [List.zip_cons_cons, List.mem_cons] at hp
      rw [e]
      rcases hp with rfl | hp
      · exact hfacts
      · have := hall' p hp
        rwa [List.append_assoc] at this

end Fit.C02
