import FitProps.EndToEndValueLemmas
import FitProps.DecoderApiHistLemmas
/-!
Field layer of the end-to-end composition (C01): `Fit.DecApi.decodeField` / `decodeDevField` split into "read `size`
bytes" and a pure interpretation of those bytes (`interpField`, `interpDev`), and what that interpretation makes of the
bytes the encoder wrote for a validated field: `Fit.E2E.fieldBack reread` / `devBack reread`.
-/
set_option linter.unusedSimpArgs false
namespace Fit.E2E
open Fit.Gen Fit.Gen.DecApi Fit.Value Fit.Utf8 Fit.DecApi Fit.Crc

/-! ### `readN`, `readValue`, `decodeField` as equations -/

/-- the state after `readN k` succeeded -/
def adv (s : St) (k : Nat) : St :=
  { s with rest := s.rest.drop k,
           q := { s.q with cur := (s.q.cur + k) % 4294967296,
                           crc16 := if s.o.chk then write s.q.crc16 (s.rest.take k) else s.q.crc16 } }

theorem readN_ok (k : Nat) (s : St) (hk : k ≤ reservedbuf) (hl : k ≤ s.rest.length) :
    readN k s = .ok (s.rest.take k, adv s k) := by
  rw [readN_eq k s hk, if_pos hl]; rfl

/-- `readValue` without the reading -/
def valueOfBytes (b : List Nat) (arch bt : Nat) (isBool isArray ovr : Bool) : Res Value :=
  match unmarshal b arch bt isBool (if ovr ∧ bt = btString then decide (strcount b > 1) else isArray) with
  | .ok v => .ok v
  | .err => .err .other
  | .panic => .panic

theorem readValue_ok (size arch bt : Nat) (isBool isArray ovr : Bool) (s : St)
    (hk : size ≤ reservedbuf) (hl : size ≤ s.rest.length) :
    readValue size arch bt isBool isArray ovr s =
      (valueOfBytes (s.rest.take size) arch bt isBool isArray ovr).bind (fun v => .ok (v, adv s size)) := by
  unfold readValue
  rw [readN_ok size s hk hl]
  simp only [valueOfBytes, bind, Res.bind]
  cases unmarshal (s.rest.take size) arch bt isBool
      (if ovr = true ∧ bt = btString then decide (strcount (s.rest.take size) > 1) else isArray) <;> rfl

/-- `decodeField` without the reading and the state -/
def interpField (fac : Factory) (mesgNum arch : Nat) (fd : FieldDef) (b : List Nat) : Res (Option DField) :=
  let info := fac.create mesgNum fd.num
  (fieldShape info fd).bind fun sh =>
    if fd.size = 0 then .ok none else
    let rs := readShape fd.size sh.1 sh.2.1 sh.2.2.1
    (valueOfBytes b arch rs.1 rs.2.1 rs.2.2 sh.2.2.2).bind fun v =>
      let v := if rs.1 ≠ sh.1 then undersizedValue sh.2.2.1 (sliceUint8Of v) arch sh.1 else v
      .ok (some ⟨fd.num, sh.1, info.known, sh.2.1, sh.2.2.1, v, false⟩)

/-- the state after a field was decoded -/
def afterField (d : MesgDef) (fd : FieldDef) (s : St) : Option DField → St
  | none => s
  | some f => noteAcc (s.o.fac.create d.mesgNum fd.num).accumulate d.mesgNum fd.num f.value (noteTs fd.num f.value (adv s fd.size))

theorem decodeField_eq (d : MesgDef) (fd : FieldDef) (s : St) (hk : fd.size < 256) (hl : fd.size ≤ s.rest.length) :
    decodeField d fd s =
      (interpField s.o.fac d.mesgNum d.arch fd (s.rest.take fd.size)).bind (fun r => .ok (r, afterField d fd s r)) := by
  have hkb : fd.size ≤ reservedbuf := by have : reservedbuf = 765 := rfl; omega
  unfold decodeField interpField
  simp only [bind, Res.bind, pure]
  cases hsh : fieldShape (s.o.fac.create d.mesgNum fd.num) fd with
  | err e => rfl
  | panic => rfl
  | hang => rfl
  | ok sh =>
    obtain ⟨bt, isB, arr, ovr⟩ := sh
    simp only
    by_cases hz : fd.size = 0
    · simp [hz, afterField]
    · simp only [hz, if_false]
      rw [readValue_ok _ _ _ _ _ _ s hkb hl]
      simp only [Res.bind]
      cases valueOfBytes (s.rest.take fd.size) d.arch (readShape fd.size bt isB arr).1 (readShape fd.size bt isB arr).2.1
          (readShape fd.size bt isB arr).2.2 ovr <;> rfl

/-! ### sizes of aligned values -/

theorem size_aligned (v : Value) (bt : Nat) (hal : align v bt = true) (hnz : size v ≠ 0) :
    btSize bt ≤ size v ∧ btValid bt = true ∧
      (bt ≠ btString → size v = (elems v).length * btSize bt ∧ isStr v = false) ∧
      (bt = btString → isStr v = true) := by
  obtain ⟨h0, h1, h2, h3, h4, h5, h6, h7, h8, h9, h10, h11, h12⟩ := protoSize_table
  obtain ⟨t0, t1, t2, t3, t4, t5, t6, t7, t8, t9, t10, t11, t12, t13, t14, t15, t16⟩ := btSize_table
  have hv : ∀ t, 0 < btSize t → btValid t = true := fun t h => by simp [btValid, h]
  cases v <;> simp only [align, beq_iff_eq, Bool.or_eq_true] at hal
  case invalid => cases hal
  case string s =>
    subst hal
    simp only [size, h12, Nat.mul_one] at hnz ⊢
    have := strSize_pos s
    refine ⟨by rw [t16]; omega, hv _ (by rw [t16]; omega), fun h => absurd rfl h, fun _ => rfl⟩
  case sliceString vs =>
    subst hal
    simp only [size, h12, Nat.mul_one] at hnz ⊢
    refine ⟨by rw [t16]; split <;> omega, hv _ (by rw [t16]; omega), fun h => absurd rfl h, fun _ => rfl⟩
  all_goals
    simp only [size, typeOf, h0, h1, h2, h3, h4, h5, h6, h7, h8, h9, h10, h11, elems, List.length_cons, List.length_nil,
      List.length_map] at hnz ⊢
  all_goals
    first
    | obtain rfl := hal
    | obtain rfl | rfl := hal
    | obtain ((rfl | rfl) | rfl) | rfl := hal
  all_goals
    refine ⟨?_, hv _ ?_, fun _ => ⟨?_, rfl⟩, fun h => ?_⟩ <;>
    (try simp only [t0, t1, t2, t3, t4, t5, t6, t7, t8, t9, t10, t11, t12, t13, t14, t15, t16, btString, btEnum, btSint8,
      btByte, btUint8, btUint8z, btSint16, btUint16, btUint16z, btSint32, btUint32, btUint32z, btSint64, btUint64, btUint64z,
      btFloat32, btFloat64, Nat.reduceEqDiff] at *) <;> (try omega)

/-! ### `strcount` counts the non-empty terminated pieces -/

theorem strcountGo_spec (bs : List Nat) : ∀ (cur : List Nat) (i last size : Nat), last ≤ i → cur.length = i - last →
    strcountGo bs i last size % 256 = (size + ((splitNul cur bs).filter (fun s => !s.isEmpty)).length) % 256 := by
  induction bs with
  | nil => intro cur i last size _ _; simp [strcountGo, splitNul]
  | cons b bs ih =>
    intro cur i last size hle hlen
    by_cases hb : b = 0
    · subst hb
      simp only [strcountGo, ↓reduceIte, splitNul]
      rw [ih [] (i + 1) (i + 1) _ (Nat.le_refl _) (by simp)]
      by_cases hli : last = i
      · have hc : cur = [] := List.eq_nil_of_length_eq_zero (by omega)
        subst hc
        simp [hli]
      · have hc : cur ≠ [] := by intro h; subst h; simp at hlen; omega
        have hce : cur.isEmpty = false := by simpa [List.isEmpty_iff] using hc
        simp only [ne_eq, hli, not_false_eq_true, ↓reduceIte, List.filter_cons, hce, Bool.not_false, List.length_cons]
        omega
    · simp only [strcountGo, hb, ↓reduceIte, splitNul]
      exact ih (cur ++ [b]) (i + 1) last size (by omega) (by simp; omega)

theorem strcount_spec (bs : List Nat) (h : bs.length < 256) :
    strcount bs = ((splitNul [] bs).filter (fun s => !s.isEmpty)).length := by
  have h1 := strcountGo_spec bs [] 0 0 0 (Nat.le_refl _) rfl
  simp only [Nat.zero_add] at h1
  have hle : ∀ (bs cur : List Nat), ((splitNul cur bs).filter (fun s => !s.isEmpty)).length ≤ bs.length := by
    intro bs
    induction bs with
    | nil => intro cur; simp [splitNul]
    | cons b bs ih =>
      intro cur
      by_cases hb : b = 0
      · subst hb
        simp only [splitNul, ↓reduceIte, List.length_cons]
        have := ih []
        have h2 : (List.filter (fun s => !s.isEmpty) (cur :: splitNul [] bs)).length ≤
            (List.filter (fun s => !s.isEmpty) (splitNul [] bs)).length + 1 := by
          simp only [List.filter_cons]; split <;> simp
        omega
      · simp only [splitNul, hb, ↓reduceIte, List.length_cons]
        have := ih (cur ++ [b]); omega
  have hlt := hle bs []
  have hs : strcount bs < 256 ∨ True := Or.inr trivial
  -- strcountGo's result is below 256 when it starts below 256
  have hb : ∀ (bs : List Nat) (i last size : Nat), size < 256 → strcountGo bs i last size < 256 := by
    intro bs
    induction bs with
    | nil => intro _ _ size h; simpa [strcountGo] using h
    | cons b bs ih =>
      intro i last size h
      simp only [strcountGo]
      split
      · apply ih; split
        · exact Nat.mod_lt _ (by decide)
        · exact h
      · exact ih _ _ _ h
  have := hb bs 0 0 0 (by decide)
  unfold strcount
  rw [Nat.mod_eq_of_lt this, Nat.mod_eq_of_lt (by omega)] at h1
  exact h1

/-- bytes of a string value and its pieces -/
theorem splitNul_strData (v : Value) (hs : isStr v = true) :
    (splitNul [] (strData v)).filter (fun s => !s.isEmpty) = pieces (strList v) := by
  cases v <;> simp only [isStr, Bool.false_eq_true] at hs
  case string s => simp [strData, marshal, strList, pieces]
  case sliceString vs =>
    simp only [strData, marshal, Option.getD_some, strList]
    split
    · rename_i h
      have : vs = [] := by simpa [List.isEmpty_iff] using h
      subst this
      simp [splitNul, pieces]
    · rw [splitNul_flatMap_strBytes]; rfl

theorem marshal_string_arch (v : Value) (a : Nat) (hs : isStr v = true) : marshal v a = some (strData v) := by
  cases v <;> simp only [isStr, Bool.false_eq_true] at hs <;> simp [strData, marshal]

end Fit.E2E

namespace Fit.E2E
open Fit.Gen Fit.Gen.DecApi Fit.Value Fit.Utf8 Fit.DecApi Fit.Crc Fit.Msg

/-! ### what the decoder makes of a written field -/

theorem marshal_length (v : Value) (a : Nat) (bs : List Nat) (h : marshal v a = some bs) : bs.length = size v := by
  obtain ⟨h0, h1, h2, h3, h4, h5, h6, h7, h8, h9, h10, h11, h12⟩ := protoSize_table
  cases v <;> simp only [marshal, Option.some.injEq, reduceCtorEq] at h <;> subst h <;>
    simp only [size, typeOf, h0, h1, h2, h3, h4, h5, h6, h7, h8, h9, h10, h11, h12, flatMap_enc_length,
      strBytes_length, List.length_map, List.length_cons, List.length_nil, enc_length, Nat.mul_one, Nat.one_mul]
  case sliceString vs =>
    split
    · rename_i hvs
      have : vs = [] := by simpa [List.isEmpty_iff] using hvs
      simp [this]
    · rename_i hvs
      have hne : vs ≠ [] := by simpa [List.isEmpty_iff] using hvs
      rw [flatMap_strBytes_length]
      have := mt (sum_strSize_eq_zero vs).mp hne
      simp [this]

theorem fieldShape_unknown (info : FieldInfo) (fd : FieldDef) (hk : info.known = false) (hv : btValid fd.bt = true) :
    fieldShape info fd = .ok (fd.bt, decide (fd.bt &&& baseTypeNumMask = profileBool),
      decide (fd.size > btSize fd.bt ∧ fd.size % btSize fd.bt = 0), decide (fd.bt = btString)) := by
  have hpos' : 0 < btSize fd.bt := by simpa [btValid] using hv
  have hpos : btSize fd.bt ≠ 0 := by omega
  unfold fieldShape
  simp only [hk, Bool.false_eq_true, ↓reduceIte, bind, Res.bind, pure]
  by_cases h : fd.size > btSize fd.bt
  · simp [h, modP, hpos, Res.bind]
  · simp [h, Res.bind]

theorem fieldShape_known (info : FieldInfo) (fd : FieldDef) (hk : info.known = true) :
    fieldShape info fd = .ok (info.bt, info.isBool, info.array, false) := by
  unfold fieldShape; simp [hk, pure]

/-- the array flag the decoder ends up reading a value with: the `strcount` override for strings of unknown fields -/
theorem strcount_strData (v : Value) (hs : isStr v = true) (hsz : size v ≤ 255) :
    decide (strcount (strData v) > 1) = decide ((pieces (strList v)).length > 1) := by
  have hl : (strData v).length = size v := marshal_length v 0 _ (marshal_string_arch v 0 hs)
  rw [strcount_spec _ (by omega), splitNul_strData v hs]

/-- the projection of a decoded field to what the property compares -/
def projF (d : DField) : NField := ⟨d.num, d.bt, d.value⟩

/-- the decoded field (with the attributes of its `FieldBase` the decoder sets) a validated field comes back as -/
def dfieldBack (fac : Factory) (m : Nat) (f : Field) : Option DField :=
  match f.base with
  | none => none
  | some b =>
    if size f.value = 0 then none else
    let info := fac.create m b.num
    let r := readAs fac m b f.value
    some ⟨b.num, r.1, info.known, r.2.1,
      if info.known then info.array else decide (size f.value > btSize b.baseType ∧ size f.value % btSize b.baseType = 0),
      reread r.1 r.2.1 r.2.2 f.value, false⟩

theorem dfieldBack_proj (fac : Factory) (m : Nat) (f : Field) :
    (dfieldBack fac m f).map projF = fieldBack reread true fac m f := by
  unfold dfieldBack fieldBack
  cases f.base with
  | none => rfl
  | some b =>
    simp only
    by_cases hz : size f.value = 0
    · simp [hz]
    · simp [hz, projF]

/-- **a validated field through the wire**: the bytes the encoder writes for a kept field (well-formed value aligned
with the base type of its `FieldBase`, at most 255 bytes), read under the definition the encoder derives from it,
are interpreted by the decoder as `dfieldBack` (= `fieldBack reread` on what the property compares) says — under every
byte order, for every factory the field was built from. -/
theorem interpField_marshal (fac : Factory) (m arch : Nat) (f : Field) (b : FieldBase) (bs : List Nat)
    (hb : f.base = some b) (hwf : wf f.value = true) (hal : align f.value b.baseType = true)
    (hsz : size f.value ≤ 255) (hag : agreeField fac m f = true) (hm : marshal f.value arch = some bs) :
    interpField fac m arch ⟨b.num, size f.value % 256, b.baseType⟩ bs = .ok (dfieldBack fac m f) := by
  have hsize : size f.value % 256 = size f.value := Nat.mod_eq_of_lt (by omega)
  have hlen : bs.length = size f.value := marshal_length _ _ _ hm
  simp only [agreeField, hb] at hag
  by_cases hz : size f.value = 0
  · -- nothing written: the decoder skips the field
    have hd : dfieldBack fac m f = none := by simp [dfieldBack, hb, hz]
    rw [hd]
    unfold interpField
    simp only [hsize, hz]
    cases hk : (fac.create m b.num).known
    · -- an invalid base type is still a shape (the size test comes first only for known fields)
      unfold fieldShape
      simp only [hk, Bool.false_eq_true, ↓reduceIte, bind, Res.bind, pure, Nat.not_lt_zero, gt_iff_lt]
      rfl
    · rw [fieldShape_known _ _ hk]; rfl
  · obtain ⟨hge, hvalid, hnum, hstr⟩ := size_aligned f.value b.baseType hal hz
    have hne : bs ≠ [] := by intro h; rw [h] at hlen; simp at hlen; omega
    cases hk : (fac.create m b.num).known
    · -- a field the factory does not know
      have hsh := fieldShape_unknown (fac.create m b.num) ⟨b.num, size f.value % 256, b.baseType⟩ hk hvalid
      simp only [hsize] at hsh
      have harr : (if (decide (b.baseType = btString) = true ∧ b.baseType = btString) then decide (strcount bs > 1)
          else decide (size f.value > btSize b.baseType ∧ size f.value % btSize b.baseType = 0)) = inferArray b.baseType f.value := by
        unfold inferArray
        by_cases hs : b.baseType = btString
        · have hbs : bs = strData f.value := by
            have := marshal_string_arch f.value arch (hstr hs); rw [this] at hm; exact (Option.some.inj hm).symm
          simp only [hs, decide_true, and_self, ↓reduceIte, hbs]
          exact strcount_strData _ (hstr hs) hsz
        · simp [hs]
      have hd : dfieldBack fac m f = some ⟨b.num, b.baseType, false, decide (b.baseType &&& baseTypeNumMask = profileBool),
          decide (size f.value > btSize b.baseType ∧ size f.value % btSize b.baseType = 0),
          reread b.baseType (decide (b.baseType &&& baseTypeNumMask = profileBool)) (inferArray b.baseType f.value) f.value, false⟩ := by
        simp [dfieldBack, hb, hz, readAs, hk]
      rw [hd]
      unfold interpField
      simp only [hsize, hsh, Res.bind, hz, ↓reduceIte, readShape, Nat.not_lt.mpr hge, valueOfBytes, hk]
      rw [harr, unmarshal_reread f.value arch b.baseType bs _ _ hwf hal hm (Or.inr hne)]
      simp
    · -- a field the factory knows: base type and flags are the factory's (= the FieldBase's)
      simp only [hk, Bool.true_eq, Bool.not_true, Bool.false_or, Bool.and_eq_true, beq_iff_eq, Bool.true_and] at hag
      obtain ⟨_, ⟨hbt, hbool⟩, harray⟩ := hag
      have hsh := fieldShape_known (fac.create m b.num) ⟨b.num, size f.value % 256, b.baseType⟩ hk
      simp only [hsize] at hsh
      have hd : dfieldBack fac m f = some ⟨b.num, (fac.create m b.num).bt, true, (fac.create m b.num).isBool, (fac.create m b.num).array,
          reread (fac.create m b.num).bt (fac.create m b.num).isBool (fac.create m b.num).array f.value, false⟩ := by
        simp [dfieldBack, hb, hz, readAs, hk]
      rw [hd]
      unfold interpField
      simp only [hsize, hsh, Res.bind, hz, ↓reduceIte, readShape, hbt, Nat.not_lt.mpr hge, valueOfBytes, hk]
      have : (if (false = true ∧ b.baseType = btString) then decide (strcount bs > 1) else (fac.create m b.num).array) =
          (fac.create m b.num).array := by simp
      rw [this, unmarshal_reread f.value arch b.baseType bs _ _ hwf hal hm (Or.inr hne)]
      simp

end Fit.E2E

namespace Fit.E2E
open Fit.Gen Fit.Gen.DecApi Fit.Value Fit.Utf8 Fit.DecApi Fit.Crc Fit.Msg

/-! ### developer fields -/

/-- `decodeDevField` without the reading -/
def interpDev (arch : Nat) (dd : DevDef) (fdsc : Desc) (b : List Nat) : Res (Option DDev) :=
  if !validBaseType fdsc.bt then .err .baseType else
  let bsz := btSize fdsc.bt
  ((if dd.size > bsz then (modP dd.size bsz).bind (fun r => .ok (decide (r = 0))) else .ok false : Res Bool)).bind fun arr =>
    if dd.size = 0 then .ok none else
    let rs := readShape dd.size fdsc.bt (decide (fdsc.bt &&& baseTypeNumMask = profileBool)) arr
    (valueOfBytes b arch rs.1 rs.2.1 rs.2.2 (decide (fdsc.bt = btString))).bind fun v =>
      let v := if rs.1 ≠ fdsc.bt then convertBytesToValue (sliceUint8Of v) arch fdsc.bt else v
      .ok (some ⟨dd.num, dd.idx, v⟩)

def afterDev (dd : DevDef) (s : St) : Option DDev → St
  | none => s
  | some _ => adv s dd.size

theorem decodeDevField_eq (d : MesgDef) (dd : DevDef) (fdsc : Desc) (s : St) (hk : dd.size < 256) (hl : dd.size ≤ s.rest.length) :
    decodeDevField d dd fdsc s =
      (interpDev d.arch dd fdsc (s.rest.take dd.size)).bind (fun r => .ok (r, afterDev dd s r)) := by
  have hkb : dd.size ≤ reservedbuf := by have : reservedbuf = 765 := rfl; omega
  unfold decodeDevField interpDev
  cases hv : validBaseType fdsc.bt
  · rfl
  · simp only [Bool.not_true, Bool.false_eq_true, ↓reduceIte, bind, Res.bind, pure]
    cases harr : (if dd.size > btSize fdsc.bt then (modP dd.size (btSize fdsc.bt)).bind (fun r => Res.ok (decide (r = 0))) else Res.ok false : Res Bool) with
    | err e => simp only [Res.bind] at harr ⊢; rw [harr]
    | panic => simp only [Res.bind] at harr ⊢; rw [harr]
    | hang => simp only [Res.bind] at harr ⊢; rw [harr]
    | ok arr =>
      simp only [Res.bind] at harr ⊢
      rw [harr]
      simp only
      by_cases hz : dd.size = 0
      · simp [hz, afterDev]
      · simp only [hz, if_false]
        rw [readValue_ok _ _ _ _ _ _ s hkb hl]
        simp only [Res.bind]
        cases valueOfBytes (s.rest.take dd.size) d.arch
            (readShape dd.size fdsc.bt (decide (fdsc.bt &&& baseTypeNumMask = profileBool)) arr).1
            (readShape dd.size fdsc.bt (decide (fdsc.bt &&& baseTypeNumMask = profileBool)) arr).2.1
            (readShape dd.size fdsc.bt (decide (fdsc.bt &&& baseTypeNumMask = profileBool)) arr).2.2 (decide (fdsc.bt = btString)) <;> rfl

def projD (d : DDev) : NDev := ⟨d.num, d.idx, d.value⟩

/-- an aligned value has a valid base type -/
theorem align_valid (v : Value) (bt : Nat) (hal : align v bt = true) : btValid bt = true := by
  cases v <;> simp only [align, beq_iff_eq, Bool.or_eq_true] at hal
  case invalid => cases hal
  all_goals
    first
    | obtain rfl := hal
    | obtain rfl | rfl := hal
    | obtain ((rfl | rfl) | rfl) | rfl := hal
  all_goals decide

/-- **a validated developer field through the wire**, read under a field description of base type `bt` -/
theorem interpDev_marshal (arch : Nat) (d : DevField) (fdsc : Desc) (bs : List Nat)
    (hwf : wf d.value = true) (hal : align d.value fdsc.bt = true)
    (hsz : size d.value ≤ 255) (hm : marshal d.value arch = some bs) :
    interpDev arch ⟨d.num, size d.value % 256, d.devIdx⟩ fdsc bs = .ok (if size d.value = 0 then none else
        some ⟨d.num, d.devIdx, reread fdsc.bt (decide (fdsc.bt &&& baseTypeNumMask = profileBool)) (inferArray fdsc.bt d.value) d.value⟩) := by
  have hsize : size d.value % 256 = size d.value := Nat.mod_eq_of_lt (by omega)
  have hlen : bs.length = size d.value := marshal_length _ _ _ hm
  have hvalid : btValid fdsc.bt = true := align_valid _ _ hal
  have hpos : btSize fdsc.bt ≠ 0 := by
    have : 0 < btSize fdsc.bt := by simpa [btValid] using hvalid
    omega
  have harrT : (if size d.value > btSize fdsc.bt then (modP (size d.value) (btSize fdsc.bt)).bind (fun r => Res.ok (decide (r = 0))) else Res.ok false : Res Bool)
      = .ok (decide (size d.value > btSize fdsc.bt ∧ size d.value % btSize fdsc.bt = 0)) := by
    by_cases h : size d.value > btSize fdsc.bt
    · simp [h, modP, hpos, Res.bind]
    · simp [h]
  by_cases hz : size d.value = 0
  · rw [if_pos hz]
    unfold interpDev
    simp only [validBaseType, hvalid, Bool.not_true, Bool.false_eq_true, ↓reduceIte, hsize]
    rw [harrT]
    simp only [Res.bind, hz, ↓reduceIte]
  · obtain ⟨hge, _, hnum, hstr⟩ := size_aligned d.value fdsc.bt hal hz
    have hne : bs ≠ [] := by intro h; rw [h] at hlen; simp at hlen; omega
    have harr : (if (decide (fdsc.bt = btString) = true ∧ fdsc.bt = btString) then decide (strcount bs > 1)
        else decide (size d.value > btSize fdsc.bt ∧ size d.value % btSize fdsc.bt = 0)) = inferArray fdsc.bt d.value := by
      unfold inferArray
      by_cases hs : fdsc.bt = btString
      · have hbs : bs = strData d.value := by
          have := marshal_string_arch d.value arch (hstr hs); rw [this] at hm; exact (Option.some.inj hm).symm
        simp only [hs, decide_true, and_self, ↓reduceIte, hbs]
        exact strcount_strData _ (hstr hs) hsz
      · simp [hs]
    rw [if_neg hz]
    unfold interpDev
    simp only [validBaseType, hvalid, Bool.not_true, Bool.false_eq_true, ↓reduceIte, hsize]
    rw [harrT]
    simp only [Res.bind, hz, ↓reduceIte, readShape, Nat.not_lt.mpr hge, valueOfBytes]
    rw [harr, unmarshal_reread d.value arch fdsc.bt bs _ _ hwf hal hm (Or.inr hne)]
    simp

end Fit.E2E
