import FitModel.DecoderApiSpec
/-!
PROOF DEVICE, not the specification of C07. `Fit.DecApi.SameOp.specRun` is the *operation-dependent* bookkeeping the
simulation proof (`DecoderApiHistLemmas.sim_run`) is carried out against: here the next sequence starts where a new
decoder **performing the same operation** stopped (so `Decode`, which lets the last record run past the header's data
size, and `Discard`, which skips exactly the data size, may disagree about the start of the next sequence), and after a
`Discard` that follows a `PeekFileId` whose last record overran the data size nothing is demanded (`blind`).
The specification of C07 is `Fit.DecApi.specRun` (FitModel/DecoderApiSpec.lean), which fixes the extent of a sequence by
the protocol alone; `FitProps/DecoderApiIndepLemmas.lean` proves that on histories without an overrunning predecessor
(`NoOverrun`) everything `Fit.DecApi.specRun` demands is demanded by this bookkeeping too.
-/
namespace Fit.DecApi.SameOp
open Fit.DecApi

/-- where the decoder stands relative to the current sequence, as far as the property is concerned -/
inductive Phase
  /-- nothing of the current sequence has been consumed -/
  | start
  /-- the file header of the current sequence was read (by `PeekFileHeader` or `Next`) -/
  | header
  /-- `PeekFileId` succeeded: `delivered` listener calls were made for the current sequence; `lost` = the last record the
  peek decoded overran the data window the header declares (a malformed sequence; what `Discard` leaves is then not
  comparable with a fresh decoder's) -/
  | fileId (delivered : Nat) (lost : Bool)
  /-- a peek (or the header read of `Next`) failed on the current sequence: the error is sticky (C03) for everything
  but the demanded result of `Decode`, which stays what a fresh decoder returns for the sequence -/
  | peekFailed (e : Err) (delivered : Nat)
  /-- a `Decode` / `Discard` failed or the context was cancelled: every call returns that error until `Reset` -/
  | dead (e : Err)
  /-- the position was lost (`Discard` after a peek that overran the data window): nothing is demanded until `Reset` -/
  | blind
  deriving DecidableEq, Repr, Inhabited

structure Spec where
  o : Opts
  /-- the stream from the first byte of the current sequence -/
  cur : List Nat
  whole : List Nat
  /-- no byte was consumed since `New` / `Reset` / `CheckIntegrity` (`d.n == 0`: `Next` answers true without reading) -/
  atStart : Bool := true
  ph : Phase := .start
  deriving Repr, Inhabited

def Spec.fresh (o : Opts) (bytes : List Nat) : Spec := { o := o, cur := bytes, whole := bytes }

/-- what a decoder created on the current sequence's bytes does -/
def Spec.st (p : Spec) : St := St.fresh p.o p.cur

/-- the sequence was consumed: the next one starts where the fresh decoder stopped -/
def Spec.advance (p : Spec) (rest : List Nat) : Spec := { p with cur := rest, atStart := false, ph := .start }

/-- `Decode` with `k` listener calls already made for the sequence: the demanded result is the fresh decoder's -/
def specDecode (p : Spec) (k : Nat) (sticky : Option Err) : Spec × Option (Out × List Event) :=
  let (s', out, evs) := stepDecode p.st
  let p' := match sticky, out with
    | some e, _ => { p with ph := .dead e }
    | none, .fit _ => p.advance s'.rest
    | none, .err e => { p with ph := .dead e }
    | none, _ => p
  (p', some (out, evs.drop k))

/-- `DecodeWithContext` whose context is first seen cancelled after `k` records **of the sequence** (`d` listener
calls were already made for it by a peek): the demanded result is that of the same call on a new decoder -/
def specDecodeAt (p : Spec) (d k : Nat) : Spec × Option (Out × List Event) :=
  let (s', out, evs) := stepDecodeCtxAt k p.st
  let p' := match out with
    | .fit _ => p.advance s'.rest
    | .err e => { p with ph := .dead e }
    | _ => p
  (p', some (out, evs.drop d))

/-- the number of records a successful `PeekFileId` of a new decoder on the current sequence decodes -/
def Spec.peeked (p : Spec) : Nat :=
  match headerOnce p.st with
  | .ok s1 => peekCount (fuelOf s1) s1
  | _ => 0

def specPeekHeader (p : Spec) : Spec × Out :=
  let (_, out, _) := stepPeekHeader p.st
  (match out with
    | .err e => { p with ph := .peekFailed e 0 }
    | _ => { p with ph := .header, atStart := false }, out)

def specPeekFileId (p : Spec) : Spec × Option (Out × List Event) :=
  let (s', out, evs) := stepPeekFileId p.st
  (match out with
    | .err e => { p with ph := .peekFailed e evs.length }
    | _ => { p with ph := .fileId evs.length (decide (s'.q.cur > s'.q.hdr.dataSize)), atStart := false },
   some (out, evs))

def specDiscard (p : Spec) : Spec × Option (Out × List Event) :=
  let (s', out, _) := stepDiscard p.st
  (match out with
    | .done => p.advance s'.rest
    | .err e => { p with ph := .dead e }
    | _ => p, some (out, []))

def specStep (p : Spec) (op : Op) : Spec × Option (Out × List Event) :=
  match op, p.ph with
  | .reset o b, _ => (Spec.fresh o b, some (.done, []))
  | _, .blind => (p, none)
  -- Decode
  | .decode, .dead e | .decodeCtx _, .dead e => (p, some (.err e, []))
  | .decode, .start | .decode, .header | .decodeCtx false, .start | .decodeCtx false, .header => specDecode p 0 none
  | .decode, .fileId k _ | .decodeCtx false, .fileId k _ => specDecode p k none
  | .decode, .peekFailed e k | .decodeCtx false, .peekFailed e k => specDecode p k (some e)
  | .decodeCtx true, .peekFailed e _ => ({ p with ph := .dead e }, some (.err e, []))
  | .decodeCtx true, _ => ({ p with ph := .dead .ctx }, some (.err .ctx, []))
  -- DecodeWithContext, context cancelled while the call runs: a cancellation after `k` more records following a peek
  -- of `j` records is a cancellation after `j + k` records of the sequence
  | .decodeCtxAt _, .dead e => (p, some (.err e, []))
  | .decodeCtxAt k, .start | .decodeCtxAt k, .header => specDecodeAt p 0 k
  | .decodeCtxAt k, .fileId d _ => specDecodeAt p d (p.peeked + k)
  | .decodeCtxAt _, .peekFailed e _ => ({ p with ph := .dead e }, some (.err e, []))
  -- peeks
  | .peekHeader, .dead e | .peekHeader, .peekFailed e _ | .peekFileId, .dead e | .peekFileId, .peekFailed e _ =>
    (p, some (.err e, []))
  | .peekHeader, .start => let (p', out) := specPeekHeader p; (p', some (out, []))
  | .peekHeader, _ => (p, some ((stepPeekHeader p.st).2.1, []))
  | .peekFileId, .fileId _ _ => (p, some ((stepPeekFileId p.st).2.1, []))
  | .peekFileId, _ => specPeekFileId p
  -- Discard
  | .discard, .dead e => (p, some (.err e, []))
  | .discard, .peekFailed e _ => ({ p with ph := .dead e }, some (.err e, []))
  | .discard, .fileId _ true => ({ p with ph := .blind }, none)
  | .discard, _ => specDiscard p
  -- Next
  | .next, .dead _ | .next, .peekFailed _ _ => (p, some (.bool false, []))
  | .next, .start =>
    if p.atStart then (p, some (.bool true, [])) else
    let (p', out) := specPeekHeader p
    (p', some (.bool (match out with | .err _ => false | _ => true), []))
  | .next, _ => (p, some (.bool true, []))
  -- CheckIntegrity (+ re-seek): its own verdict is C04's subject; afterwards the decoder stands at the start of the stream
  | .checkIntegrity, .dead _ | .checkIntegrity, .peekFailed _ _ => (p, none)
  | .checkIntegrity, _ => ({ p with cur := p.whole, atStart := true, ph := .start }, none)

def specRun : Spec → List Op → List (Option (Out × List Event))
  | _, [] => []
  | p, op :: ops =>
    let (p', r) := specStep p op
    r :: specRun p' ops

end Fit.DecApi.SameOp
