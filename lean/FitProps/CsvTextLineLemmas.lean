import FitProps.CsvTextAtomLemmas
/-! One line of the CSV: the text the writer produces for a message scans back (`encoding/csv`) to the line's cells, the
value cells as text pieces, the padding as empty triples. -/
set_option linter.unusedSimpArgs false
set_option linter.unusedVariables false
namespace Fit.Csv
open Fit.Value Fit.Msg Fit.Gen Fit.Gen.Csv

/-! ### `|` -/

theorem splitBar_ne_nil : ∀ t : Txt, splitBar t ≠ []
  | [] => by simp [splitBar]
  | b :: bs => by
    unfold splitBar
    cases h : splitBar bs with
    | nil => simp
    | cons p ps => by_cases hb : (b == 124) = true <;> simp [hb]

theorem splitBar_append_bar : ∀ (t J : Txt), (∀ b ∈ t, b ≠ 124) → splitBar (t ++ 124 :: J) = t :: splitBar J
  | [], J, _ => by
    cases h : splitBar J with
    | nil => exact absurd h (splitBar_ne_nil J)
    | cons p ps => simp [splitBar, h]
  | c :: t, J, h => by
    have hc : (c == 124) = false := by simpa using h c (List.mem_cons_self ..)
    have ih := splitBar_append_bar t J (fun b hb => h b (List.mem_cons_of_mem _ hb))
    simp only [List.cons_append, splitBar, ih, hc, Bool.false_eq_true, ↓reduceIte]

theorem splitBar_nobar : ∀ t : Txt, (∀ b ∈ t, b ≠ 124) → splitBar t = [t]
  | [], _ => rfl
  | c :: t, h => by
    have hc : (c == 124) = false := by simpa using h c (List.mem_cons_self ..)
    simp only [splitBar, splitBar_nobar t (fun b hb => h b (List.mem_cons_of_mem _ hb)), hc, Bool.false_eq_true, ↓reduceIte]

/-- splitting the `|`-joined pieces gives the pieces back, as long as no piece holds a `|` -/
theorem splitBar_joinBar : ∀ ts : List Txt, ts ≠ [] → (∀ t ∈ ts, ∀ b ∈ t, b ≠ 124) → splitBar (joinBar ts) = ts
  | [], h, _ => absurd rfl h
  | [t], _, h => by simpa [joinBar] using splitBar_nobar t (h t (List.mem_cons_self ..))
  | t :: u :: rest, _, h => by
    have ih := splitBar_joinBar (u :: rest) (by simp) (fun x hx => h x (List.mem_cons_of_mem _ hx))
    have e : joinBar (t :: u :: rest) = t ++ 124 :: joinBar (u :: rest) := by simp [joinBar]
    rw [e, splitBar_append_bar t _ (h t (List.mem_cons_self ..)), ih]

theorem mem_joinBar : ∀ (ts : List Txt) (b : Nat), b ∈ joinBar ts → b = 124 ∨ ∃ t ∈ ts, b ∈ t
  | [], b, h => by simp [joinBar] at h
  | [t], b, h => Or.inr ⟨t, List.mem_cons_self .., by simpa [joinBar] using h⟩
  | t :: u :: rest, b, h => by
    have e : joinBar (t :: u :: rest) = t ++ 124 :: joinBar (u :: rest) := by simp [joinBar]
    rw [e] at h
    rcases List.mem_append.mp h with h1 | h1
    · exact Or.inr ⟨t, List.mem_cons_self .., h1⟩
    · rcases List.mem_cons.mp h1 with h2 | h2
      · exact Or.inl h2
      · rcases mem_joinBar (u :: rest) b h2 with h3 | ⟨x, hx, hb⟩
        · exact Or.inl h3
        · exact Or.inr ⟨x, List.mem_cons_of_mem _ hx, hb⟩

/-! ### well-formed cells -/

/-- a value cell as the writer produces it: at least one piece, no piece whose text holds a quote or a `|` -/
def CellWF (tp : TextParam) (c : Cell) : Prop := c.val ≠ [] ∧ ∀ a ∈ c.val, ∀ b ∈ atomText tp a, b ≠ 34 ∧ b ≠ 124

/-- the cell as it comes out of the scanned line: the pieces of the value cell as text -/
def rawCellOf (tp : TextParam) (c : Cell) : Cell := ⟨c.name, (splitBar (valueText tp c.val)).map .raw, c.units⟩

theorem rawCellOf_eq (tp : TextParam) (c : Cell) (h : CellWF tp c) : rawCellOf tp c = mapCell (rawOf tp) c := by
  unfold rawCellOf mapCell valueText
  have hs : splitBar (joinBar (c.val.map (atomText tp))) = c.val.map (atomText tp) := by
    apply splitBar_joinBar
    · simpa using h.1
    · intro t ht b hb
      obtain ⟨a, ha, rfl⟩ := List.mem_map.mp ht
      exact (h.2 a ha b hb).2
  rw [hs]
  simp [List.map_map, Function.comp_def, rawOf]

theorem valueText_noQuote (tp : TextParam) (c : Cell) (h : CellWF tp c) : ∀ b ∈ valueText tp c.val, b ≠ 34 := by
  intro b hb
  rcases mem_joinBar _ b hb with h1 | ⟨t, ht, hbt⟩
  · omega
  · obtain ⟨a, ha, rfl⟩ := List.mem_map.mp ht
    exact (h.2 a ha b hbt).1

/-! ### the cells of a line, written and scanned -/

/-- the (cell, text as written) pairs of a (name, value, units) triple -/
def cellPairs (tp : TextParam) (c : Cell) : List (Txt × Txt) :=
  [(c.name, writeCellT c.name), (valueText tp c.val, valueCellT (valueText tp c.val)), (c.units, writeCellT c.units)]

theorem cellPairs_snd (tp : TextParam) (cells : List Cell) :
    (cells.flatMap (cellPairs tp)).map (·.2) = cells.flatMap (cellTexts tp) := by
  induction cells with
  | nil => rfl
  | cons c cs ih => simp [List.flatMap_cons, cellPairs, cellTexts, ih]

theorem cellPairs_enc (tp : TextParam) (cells : List Cell) (h : ∀ c ∈ cells, CellWF tp c) :
    ∀ p ∈ cells.flatMap (cellPairs tp), Enc p.1 p.2 := by
  intro p hp
  obtain ⟨c, hc, hpc⟩ := List.mem_flatMap.mp hp
  simp only [cellPairs, List.mem_cons, List.not_mem_nil, or_false] at hpc
  rcases hpc with rfl | rfl | rfl
  · exact enc_writeCellT _
  · exact enc_valueCellT _ (valueText_noQuote tp c (h c hc))
  · exact enc_writeCellT _

theorem length_cellPairs (tp : TextParam) : ∀ cells : List Cell, (cells.flatMap (cellPairs tp)).length = 3 * cells.length
  | [] => rfl
  | c :: cs => by
    simp only [List.flatMap_cons, List.length_append, length_cellPairs tp cs, cellPairs, List.length_cons, List.length_nil]
    omega

/-- the empty triples the padding commas stand for -/
def padCell : Cell := ⟨[], [.raw []], []⟩

theorem triples_pads : ∀ j : Nat, triples (List.replicate (3 * j) []) = List.replicate j padCell
  | 0 => rfl
  | j + 1 => by
    have e : 3 * (j + 1) = (3 * j) + 1 + 1 + 1 := by omega
    rw [e]
    simp only [List.replicate_succ, triples, triples_pads j]
    rfl

theorem triples_cells (tp : TextParam) (tail : List Txt) : ∀ cells : List Cell,
    triples ((cells.flatMap (cellPairs tp)).map (·.1) ++ tail) = cells.map (rawCellOf tp) ++ triples tail
  | [] => rfl
  | c :: cs => by
    simp only [List.flatMap_cons, cellPairs, List.map_append, List.map_cons, List.map_nil, List.cons_append, List.nil_append, triples,
      triples_cells tp tail cs, rawCellOf]

theorem plain_of_all {s : Txt} (h : s.all (fun b => b != 44 && b != 34) = true) : plainCell s := by
  intro b hb
  have := List.all_eq_true.mp h b hb
  simpa using this

theorem natDigits_plain (n : Nat) : plainCell (natDigits n) := by
  intro b hb
  have := List.all_eq_true.mp (natDigits_spec n).2.1 b hb
  simp only [isDigit, Bool.and_eq_true, decide_eq_true_eq] at this
  omega

theorem dataTxt_plain : plainCell dataTxt := plain_of_all (by decide +kernel)

/-- a data line whose message name holds neither separator nor quote and whose cells are well formed -/
def LineWF (tp : TextParam) : Line → Prop
  | .data name cells => plainCell name ∧ ∀ c ∈ cells, CellWF tp c
  | .definition _ => False

/-- **the text of a line, padded with `m` commas, scans back to its cells**: `Data`, the local message number, the
message name, the triples — names and units unquoted, the value cells' pieces as text — and `m` empty cells -/
theorem csvRecord_line (tp : TextParam) (ln : Nat) (name : Txt) (cells : List Cell) (hwf : LineWF tp (.data name cells)) (m : Nat) :
    csvRecord (lineText tp ln (.data name cells) ++ List.replicate m 44) =
      .record ([dataTxt, natDigits ln, name] ++ (cells.flatMap (cellPairs tp)).map (·.1) ++ List.replicate m []) ∧
    commasOutside false (lineText tp ln (.data name cells)) = 2 + 3 * cells.length := by
  obtain ⟨hname, hcells⟩ := hwf
  let ps : List (Txt × Txt) := [(dataTxt, dataTxt), (natDigits ln, natDigits ln), (name, name)] ++ cells.flatMap (cellPairs tp)
  have hps : ∀ p ∈ ps, Enc p.1 p.2 := by
    intro p hp
    rcases List.mem_append.mp hp with h1 | h1
    · simp only [List.mem_cons, List.not_mem_nil, or_false] at h1
      rcases h1 with rfl | rfl | rfl
      · exact Or.inl ⟨rfl, dataTxt_plain⟩
      · exact Or.inl ⟨rfl, natDigits_plain ln⟩
      · exact Or.inl ⟨rfl, hname⟩
    · exact cellPairs_enc tp cells hcells p h1
  have htext : lineText tp ln (.data name cells) = joinComma (ps.map (·.2)) := by
    simp only [lineText, ps, List.map_append, List.map_cons, List.map_nil, cellPairs_snd]
  have hlen : ps.length = 3 + 3 * cells.length := by
    simp only [ps, List.length_append, List.length_cons, List.length_nil, length_cellPairs]
  refine ⟨?_, ?_⟩
  · let ps' := ps ++ List.replicate m (([] : Txt), ([] : Txt))
    have hps' : ∀ p ∈ ps', Enc p.1 p.2 := by
      intro p hp
      rcases List.mem_append.mp hp with h1 | h1
      · exact hps p h1
      · have := List.eq_of_mem_replicate h1
        subst this
        exact Or.inl ⟨rfl, fun b hb => by cases hb⟩
    have e1 : ps'.map (·.2) = ps.map (·.2) ++ List.replicate m [] := by simp [ps']
    have e2 : ps'.map (·.1) = [dataTxt, natDigits ln, name] ++ (cells.flatMap (cellPairs tp)).map (·.1) ++ List.replicate m [] := by
      simp [ps', ps]
    have := csvRecord_join ps' (by simp [ps', ps]) hps'
    rw [e1, joinComma_pad _ (by simp [ps]) m, e2, ← htext] at this
    exact this
  · rw [htext, commas_join ps (by simp [ps]) hps, hlen]
    omega

end Fit.Csv
