import FitModel.WriterShort
/-!
Helper lemmas about `FitModel/WriterShort.lean`: ON CONTRACT-ABIDING SCHEDULES (`Sched.ofFaults F`: every short count comes
with an error) THE LOOP MODEL EQUALS THE UNROLLED MODEL of `FitModel/Writer.lean`, function by function — in particular
`(*bufio.Writer).Write` as a loop does exactly "fill + flush, then buffer or write the rest directly" in at most three rounds.
-/
namespace Fit.Writer
open Fit.Wire Fit.Crc

theorem Dest.writeR_ofFaults (F : Faults) (d : Dest) (p : Bytes) : d.writeR (Sched.ofFaults F) p = d.write F p := by
  unfold Dest.writeR Dest.write Sched.ofFaults
  dsimp only
  cases F d.log.length <;> rfl

theorem Dest.writeAtR_ofFaults (F : Faults) (d : Dest) (p : Bytes) (off : Nat) :
    d.writeAtR (Sched.ofFaults F) p off = d.writeAt F p off := by
  unfold Dest.writeAtR Dest.writeAt Sched.ofFaults
  dsimp only
  cases F d.log.length <;> rfl

theorem Dest.seekCurR_ofFaults (F : Faults) (d : Dest) (delta : Int) : d.seekCurR (Sched.ofFaults F) delta = d.seekCur F delta := by
  unfold Dest.seekCurR Dest.seekCur Sched.ofFaults
  dsimp only
  cases F d.log.length <;> rfl

/-- a contract-abiding write that reports success took every byte -/
theorem Dest.write_ok_all (F : Faults) (d : Dest) (p : Bytes) (h : (d.write F p).2.2 = true) : (d.write F p).2.1 = p.length := by
  unfold Dest.write at h ⊢
  cases hF : F d.log.length with
  | none => rfl
  | some j => rw [hF] at h; cases h

theorem W.bflushR_ofFaults (F : Faults) (w : W) : w.bflushR (Sched.ofFaults F) = w.bflush F := by
  unfold W.bflushR W.bflush
  rw [Dest.writeR_ofFaults]
  by_cases h1 : w.berr = true
  · rw [if_pos h1, if_pos h1]
  · rw [if_neg h1, if_neg h1]
    by_cases h2 : w.buf.isEmpty = true
    · rw [if_pos h2, if_pos h2]
    · rw [if_neg h2, if_neg h2]
      by_cases h3 : (w.d.write F w.buf).2.2 = true
      · have := Dest.write_ok_all F w.d w.buf h3
        simp only [h3, this, Bool.true_and, beq_self_eq_true, if_true]
      · simp only [h3, Bool.false_and, Bool.false_eq_true, if_false]

/-- a flush that fails leaves the sticky error set; one that succeeds leaves none and an empty buffer -/
theorem W.bflush_post (F : Faults) (w : W) :
    ((w.bflush F).2 = false → (w.bflush F).1.berr = true) ∧
    ((w.bflush F).2 = true → (w.bflush F).1.berr = false ∧ (w.bflush F).1.buf = []) ∧ (w.bflush F).1.size = w.size := by
  unfold W.bflush
  by_cases h1 : w.berr = true
  · rw [if_pos h1]; exact ⟨fun _ => h1, fun h => by simp at h, rfl⟩
  · rw [if_neg h1]
    by_cases h2 : w.buf.isEmpty = true
    · rw [if_pos h2]; exact ⟨fun h => by simp at h, fun _ => ⟨by simpa using h1, by simpa using h2⟩, rfl⟩
    · rw [if_neg h2]
      by_cases h3 : (w.d.write F w.buf).2.2 = true
      · rw [if_pos h3]; exact ⟨fun h => by simp at h, fun _ => ⟨by simpa using h1, rfl⟩, rfl⟩
      · rw [if_neg h3]; exact ⟨fun _ => rfl, fun h => by simp at h, rfl⟩

/-- the last round of the loop after a direct write `r` of all that was left (`buf` empty) -/
theorem W.bwriteLoop_after_direct (F : Faults) (fuel : Nat) (w : W) (p : Bytes) (nn : Nat) (hb : w.buf = []) :
    W.bwriteLoop (Sched.ofFaults F) (fuel + 1) { w with d := (w.d.write F p).1, berr := !(w.d.write F p).2.2 }
      (p.drop (w.d.write F p).2.1) (nn + (w.d.write F p).2.1) =
    (({ w with d := (w.d.write F p).1, berr := !(w.d.write F p).2.2 } : W), nn + (w.d.write F p).2.1, (w.d.write F p).2.2) := by
  unfold W.bwriteLoop
  by_cases h3 : (w.d.write F p).2.2 = true
  · have hall := Dest.write_ok_all F w.d p h3
    simp only [h3, hall, List.drop_length, List.length_nil, Bool.not_true, Bool.not_false, Bool.and_true, hb,
      List.append_nil, Nat.add_zero]
    rw [if_neg (by simp), if_neg (by simp)]
  · have h3' : (w.d.write F p).2.2 = false := by simpa using h3
    simp only [h3', Bool.not_false, Bool.not_true, Bool.and_false, Bool.false_eq_true, if_false, if_true]

/-- THE LOOP IS THE UNROLLED MODEL when the destination honours the contract -/
theorem W.bwriteLoop_ofFaults (F : Faults) (w : W) (p : Bytes) (fuel : Nat) (hs : w.size ≠ 0) :
    W.bwriteLoop (Sched.ofFaults F) (fuel + 3) w p 0 = w.write F p := by
  unfold W.write
  rw [if_neg hs, W.bwriteLoop]
  by_cases h1 : w.berr = true
  · rw [if_neg (show ¬ (decide (p.length > w.size - w.buf.length) && !w.berr) = true by simp [h1]), if_pos h1, if_pos h1]
  · have h1' : w.berr = false := by simpa using h1
    by_cases h2 : p.length ≤ w.size - w.buf.length
    · rw [if_neg (show ¬ (decide (p.length > w.size - w.buf.length) && !w.berr) = true by simp [h1']; omega), if_neg h1, if_neg h1,
        if_pos h2, Nat.zero_add]
    · rw [if_pos (show (decide (p.length > w.size - w.buf.length) && !w.berr) = true by simp [h1']; omega), if_neg h1, if_neg h2]
      by_cases h3 : w.buf.isEmpty = true
      · rw [if_pos h3, if_pos h3]
        have hb : w.buf = [] := by simpa using h3
        dsimp only
        rw [Dest.writeR_ofFaults]
        have := W.bwriteLoop_after_direct F (fuel + 1) w p 0 hb
        rw [Nat.zero_add] at this
        rw [Nat.zero_add]
        exact this
      · rw [if_neg h3, if_neg h3]
        dsimp only
        rw [W.bflushR_ofFaults, Nat.zero_add]
        obtain ⟨pf, pt, psz⟩ := W.bflush_post F { w with buf := w.buf ++ p.take (w.size - w.buf.length) }
        generalize W.bflush F { w with buf := w.buf ++ p.take (w.size - w.buf.length) } = f at pf pt psz ⊢
        simp only at psz
        unfold W.writeRest
        rw [W.bwriteLoop]
        by_cases hok : f.2 = true
        · obtain ⟨hbe, hbuf⟩ := pt hok
          have hdl : (p.drop (w.size - w.buf.length)).length = p.length - (w.size - w.buf.length) := List.length_drop
          rw [if_neg (show ¬ (!f.2) = true by simp [hok])]
          by_cases hfit : (p.drop (w.size - w.buf.length)).length ≤ w.size
          · rw [if_neg (show ¬ (decide ((p.drop (w.size - w.buf.length)).length > f.1.size - f.1.buf.length) && !f.1.berr) = true by
                simp only [hbe, hbuf, psz, List.length_nil, Nat.sub_zero, Bool.not_false, Bool.and_true, decide_eq_true_eq]; omega),
              if_neg (by simp [hbe]), if_pos hfit]
            have : w.size - w.buf.length + (p.drop (w.size - w.buf.length)).length = p.length := by omega
            rw [this, hbuf, List.nil_append]
          · rw [if_pos (show (decide ((p.drop (w.size - w.buf.length)).length > f.1.size - f.1.buf.length) && !f.1.berr) = true by
                simp only [hbe, hbuf, psz, List.length_nil, Nat.sub_zero, Bool.not_false, Bool.and_true, decide_eq_true_eq]; omega),
              if_neg hfit, if_pos (by simp [hbuf])]
            dsimp only
            rw [Dest.writeR_ofFaults]
            exact W.bwriteLoop_after_direct F fuel f.1 _ _ hbuf
        · have hok' : f.2 = false := by simpa using hok
          have hbe := pf hok'
          rw [if_pos (show (!f.2) = true by simp [hok']),
            if_neg (show ¬ (decide ((p.drop (w.size - w.buf.length)).length > f.1.size - f.1.buf.length) && !f.1.berr) = true by simp [hbe]),
            if_pos hbe]

theorem W.writeR_ofFaults (F : Faults) (w : W) (p : Bytes) : w.writeR (Sched.ofFaults F) p = w.write F p := by
  unfold W.writeR
  by_cases hs : w.size = 0
  · rw [if_pos hs, Dest.writeR_ofFaults]; unfold W.write; rw [if_pos hs]
  · rw [if_neg hs]
    have : p.length + (Sched.ofFaults F).extra + 3 = (p.length + (Sched.ofFaults F).extra) + 3 := rfl
    rw [this]; exact W.bwriteLoop_ofFaults F w p _ hs

theorem W.flushR_ofFaults (F : Faults) (w : W) : w.flushR (Sched.ofFaults F) = w.flush F := by
  unfold W.flushR W.flush; rw [W.bflushR_ofFaults]

theorem W.seekCurR_ofFaults (F : Faults) (w : W) (delta : Int) : w.seekCurR (Sched.ofFaults F) delta = w.seekCur F delta := by
  unfold W.seekCurR W.seekCur; simp only [W.flushR_ofFaults, Dest.seekCurR_ofFaults]

theorem W.writeAtR_ofFaults (F : Faults) (w : W) (p : Bytes) (off : Nat) : w.writeAtR (Sched.ofFaults F) p off = w.writeAt F p off := by
  unfold W.writeAtR W.writeAt; simp only [W.flushR_ofFaults, Dest.writeAtR_ofFaults]

theorem encodeFileHeaderR_ofFaults (F : Faults) (e : Enc) (h : Hdr) (ds : Nat) :
    encodeFileHeaderR (Sched.ofFaults F) e h ds = encodeFileHeader F e h ds := by
  unfold encodeFileHeaderR encodeFileHeader; simp only [W.writeR_ofFaults]

theorem writeRecordR_ofFaults (F : Faults) (e : Enc) (b : Bytes) : writeRecordR (Sched.ofFaults F) e b = writeRecord F e b := by
  unfold writeRecordR writeRecord; simp only [W.writeR_ofFaults]

theorem encodeMessageR_ofFaults (F : Faults) (o : Opts) (e : Enc) (m : WMsg) :
    encodeMessageR (Sched.ofFaults F) o e m = encodeMessage F o e m := by
  unfold encodeMessageR encodeMessage; simp only [writeRecordR_ofFaults]; rfl

theorem encodeMessagesR_ofFaults (F : Faults) (o : Opts) : ∀ (ms : List WMsg) (e : Enc),
    encodeMessagesR (Sched.ofFaults F) o e ms = encodeMessages F o e ms
  | [], _ => rfl
  | m :: ms, e => by
    unfold encodeMessagesR encodeMessages
    simp only [encodeMessageR_ofFaults, encodeMessagesR_ofFaults F o ms]

theorem encodeCRCR_ofFaults (F : Faults) (e : Enc) : encodeCRCR (Sched.ofFaults F) e = encodeCRC F e := by
  unfold encodeCRCR encodeCRC; simp only [W.writeR_ofFaults]

theorem W.rewriteSeekR_ofFaults (F : Faults) (w : W) (b : Bytes) (size : Int) :
    w.rewriteSeekR (Sched.ofFaults F) b size = w.rewriteSeek F b size := by
  unfold W.rewriteSeekR W.rewriteSeek; simp only [W.seekCurR_ofFaults, W.writeR_ofFaults]

theorem updateFileHeaderR_ofFaults (F : Faults) (e : Enc) (h : Hdr) (hdrDs : Nat) :
    updateFileHeaderR (Sched.ofFaults F) e h hdrDs = updateFileHeader F e h hdrDs := by
  unfold updateFileHeaderR updateFileHeader; simp only [W.rewriteSeekR_ofFaults, W.writeAtR_ofFaults]

theorem encodeBodyR_ofFaults (F : Faults) (o : Opts) (e : Enc) (h : Hdr) (ds : Nat) (ms : List WMsg) :
    encodeBodyR (Sched.ofFaults F) o e h ds ms = encodeBody F o e h ds ms := by
  unfold encodeBodyR encodeBody; simp only [encodeFileHeaderR_ofFaults, encodeMessagesR_ofFaults, encodeCRCR_ofFaults]

theorem encodeDirectR_ofFaults (F : Faults) (o : Opts) (e : Enc) (h : Hdr) (ds0 : Nat) (ms : List WMsg) :
    encodeDirectR (Sched.ofFaults F) o e h ds0 ms = encodeDirect F o e h ds0 ms := by
  unfold encodeDirectR encodeDirect; simp only [encodeBodyR_ofFaults, updateFileHeaderR_ofFaults]

theorem encodeEarlyR_ofFaults (F : Faults) (o : Opts) (e : Enc) (h : Hdr) (ms : List WMsg) :
    encodeEarlyR (Sched.ofFaults F) o e h ms = encodeEarly F o e h ms := by
  unfold encodeEarlyR encodeEarly; simp only [encodeBodyR_ofFaults]

theorem encodeR_ofFaults (F : Faults) (o : Opts) (e : Enc) (f : FitIn) : encodeR (Sched.ofFaults F) o e f = encode F o e f := by
  unfold encodeR encode; simp only [encodeDirectR_ofFaults, encodeEarlyR_ofFaults, W.flushR_ofFaults]

theorem encodeChainR_ofFaults (F : Faults) (o : Opts) : ∀ (fs : List FitIn) (e : Enc),
    encodeChainR (Sched.ofFaults F) o e fs = encodeChainW F o e fs
  | [], _ => rfl
  | f :: fs, e => by
    unfold encodeChainR encodeChainW
    simp only [encodeR_ofFaults, encodeChainR_ofFaults F o fs]

theorem encodeVR_ofFaults {σ : Type} (V : MsgValidator σ) (F : Faults) (o : Opts) (e : Enc) (f : FitIn) :
    encodeVR V (Sched.ofFaults F) o e f = encodeV V F o e f := by
  unfold encodeVR encodeV; simp only [encodeR_ofFaults]; rfl

theorem ensureHeaderR_ofFaults (F : Faults) (h : Hdr) (s : Stream) : s.ensureHeaderR (Sched.ofFaults F) h = s.ensureHeader F h := by
  unfold Stream.ensureHeaderR Stream.ensureHeader; simp only [encodeFileHeaderR_ofFaults]

theorem sequenceCompletedR_ofFaults (F : Faults) (c : StreamCfg) (o : Opts) (h : Hdr) (s : Stream) :
    s.sequenceCompletedR (Sched.ofFaults F) c o h = s.sequenceCompleted F c o h := by
  unfold Stream.sequenceCompletedR Stream.sequenceCompleted
  simp only [encodeCRCR_ofFaults, updateFileHeaderR_ofFaults, W.flushR_ofFaults]

theorem writeMessageVR_ofFaults {σ : Type} (V : MsgValidator σ) (F : Faults) (o : Opts) (h : Hdr) (s : Stream) (vs : σ) (m : WMsg) :
    s.writeMessageVR V (Sched.ofFaults F) o h vs m = s.writeMessageV V F o h vs m := by
  unfold Stream.writeMessageVR Stream.writeMessageV
  simp only [ensureHeaderR_ofFaults, encodeMessageR_ofFaults]
  rfl

theorem sequenceCompletedVR_ofFaults {σ : Type} (V : MsgValidator σ) (F : Faults) (c : StreamCfg) (o : Opts) (h : Hdr) (s : Stream) (vs : σ) :
    s.sequenceCompletedVR V (Sched.ofFaults F) c o h vs = s.sequenceCompletedV V F c o h vs := by
  unfold Stream.sequenceCompletedVR Stream.sequenceCompletedV
  simp only [encodeCRCR_ofFaults, updateFileHeaderR_ofFaults, sequenceCompletedR_ofFaults]

/-! ### a write buffer makes short writes harmless: success of `Write` / `Flush` means every byte is where it belongs,
under ANY schedule (short counts without error included) -/

theorem overwrite_end' (c p : Bytes) : overwrite c c.length p = c ++ p := by
  simp [overwrite]

theorem Dest.writeR_atEnd (R : Sched) (d : Dest) (p : Bytes) (h : d.pos = d.content.length) :
    (d.writeR R p).1.pos = (d.writeR R p).1.content.length ∧
    (d.writeR R p).1.content = d.content ++ p.take (d.writeR R p).2.1 := by
  unfold Dest.writeR
  cases R.resp d.log.length <;> simp [h, overwrite_end']

/-- `Flush` never loses or reorders what was accepted: destination content followed by the buffer stays the same,
whatever the destination answers; success means the buffer is empty -/
theorem W.bflushR_acc (R : Sched) (w : W) (h : w.d.pos = w.d.content.length) :
    (w.bflushR R).1.d.pos = (w.bflushR R).1.d.content.length ∧
    (w.bflushR R).1.d.content ++ (w.bflushR R).1.buf = w.d.content ++ w.buf ∧
    (w.bflushR R).1.size = w.size ∧
    ((w.bflushR R).2 = true → (w.bflushR R).1.buf = []) := by
  unfold W.bflushR
  by_cases h1 : w.berr = true
  · rw [if_pos h1]; exact ⟨h, rfl, rfl, fun hh => by simp at hh⟩
  · rw [if_neg h1]
    by_cases h2 : w.buf.isEmpty = true
    · rw [if_pos h2]; exact ⟨h, rfl, rfl, fun _ => by simpa using h2⟩
    · rw [if_neg h2]
      obtain ⟨a1, a2⟩ := Dest.writeR_atEnd R w.d w.buf h
      by_cases h3 : ((w.d.writeR R w.buf).2.2 && (w.d.writeR R w.buf).2.1 == w.buf.length) = true
      · rw [if_pos h3]
        simp only [Bool.and_eq_true, beq_iff_eq] at h3
        refine ⟨a1, ?_, rfl, fun _ => rfl⟩
        simp only [a2, h3.2, List.take_length, List.append_nil]
      · rw [if_neg h3]
        refine ⟨a1, ?_, rfl, fun hh => by simp at hh⟩
        simp only [a2, List.append_assoc, List.take_append_drop]

theorem W.bwriteLoop_acc (R : Sched) : ∀ (fuel : Nat) (w : W) (p : Bytes) (nn : Nat), w.d.pos = w.d.content.length →
    (W.bwriteLoop R fuel w p nn).2.2 = true →
    (W.bwriteLoop R fuel w p nn).1.d.pos = (W.bwriteLoop R fuel w p nn).1.d.content.length ∧
    (W.bwriteLoop R fuel w p nn).1.d.content ++ (W.bwriteLoop R fuel w p nn).1.buf = w.d.content ++ w.buf ++ p ∧
    (W.bwriteLoop R fuel w p nn).1.size = w.size
  | 0, w, p, nn, _, hok => by simp [W.bwriteLoop] at hok
  | fuel + 1, w, p, nn, h, hok => by
    rw [W.bwriteLoop] at hok ⊢
    by_cases c1 : (decide (p.length > w.size - w.buf.length) && !w.berr) = true
    · rw [if_pos c1] at hok ⊢
      by_cases c2 : w.buf.isEmpty = true
      · rw [if_pos c2] at hok ⊢
        have hb : w.buf = [] := by simpa using c2
        obtain ⟨a1, a2⟩ := Dest.writeR_atEnd R w.d p h
        obtain ⟨i1, i2, i3⟩ := W.bwriteLoop_acc R fuel _ _ _ (show ({ w with d := (w.d.writeR R p).1, berr := !(w.d.writeR R p).2.2 } : W).d.pos = _ from a1) hok
        refine ⟨i1, ?_, i3⟩
        rw [i2]
        simp only [a2, hb, List.append_nil, List.append_assoc, List.take_append_drop]
      · rw [if_neg c2] at hok ⊢
        obtain ⟨b1, b2, b3, _⟩ := W.bflushR_acc R { w with buf := w.buf ++ p.take (w.size - w.buf.length) } h
        obtain ⟨i1, i2, i3⟩ := W.bwriteLoop_acc R fuel _ _ _ b1 hok
        refine ⟨i1, ?_, i3.trans b3⟩
        rw [i2, b2]
        simp only [List.append_assoc, List.take_append_drop]
    · rw [if_neg c1] at hok ⊢
      by_cases c3 : w.berr = true
      · rw [if_pos c3] at hok; simp at hok
      · rw [if_neg c3]
        exact ⟨h, by simp [List.append_assoc], rfl⟩

/-- BUFFERED WRITERS ARE SAFE AGAINST SHORT WRITES: through a write buffer (size > 0), whatever the destination answers
— errors, short counts WITHOUT error — a `Write` that reports success has put all of `p`, in order, behind what was
accepted before (destination content followed by the buffered bytes) -/
theorem W.writeR_acc (R : Sched) (w : W) (p : Bytes) (hs : w.size ≠ 0) (h : w.d.pos = w.d.content.length)
    (hok : (w.writeR R p).2.2 = true) :
    (w.writeR R p).1.d.pos = (w.writeR R p).1.d.content.length ∧
    (w.writeR R p).1.d.content ++ (w.writeR R p).1.buf = w.d.content ++ w.buf ++ p ∧ (w.writeR R p).1.size = w.size := by
  unfold W.writeR at hok ⊢
  rw [if_neg hs] at hok ⊢
  exact W.bwriteLoop_acc R _ w p 0 h hok

/-- a series of `Write` calls followed by `Flush`, stopping at the first error (as `C09.writesFlush`) -/
def writesFlushR (R : Sched) : W → List Bytes → W × Bool
  | w, [] => w.flushR R
  | w, p :: ps =>
    if (w.writeR R p).2.2 then writesFlushR R (w.writeR R p).1 ps else ((w.writeR R p).1, false)

theorem writesFlushR_acc (R : Sched) : ∀ (ps : List Bytes) (w : W), w.size ≠ 0 → w.d.pos = w.d.content.length →
    (writesFlushR R w ps).2 = true →
    (writesFlushR R w ps).1.d.content = w.d.content ++ w.buf ++ ps.flatten ∧ (writesFlushR R w ps).1.buf = []
  | [], w, hs, h, hok => by
    unfold writesFlushR W.flushR at hok ⊢
    rw [if_neg hs] at hok ⊢
    obtain ⟨_, b2, _, b4⟩ := W.bflushR_acc R w h
    have hb := b4 hok
    rw [hb, List.append_nil] at b2
    exact ⟨by simpa using b2, hb⟩
  | p :: ps, w, hs, h, hok => by
    unfold writesFlushR at hok ⊢
    by_cases c : (w.writeR R p).2.2 = true
    · rw [if_pos c] at hok ⊢
      obtain ⟨a1, a2, a3⟩ := W.writeR_acc R w p hs h c
      obtain ⟨i1, i2⟩ := writesFlushR_acc R ps (w.writeR R p).1 (by rw [a3]; exact hs) a1 hok
      refine ⟨?_, i2⟩
      rw [i1, a2]; simp [List.append_assoc]
    · rw [if_neg c] at hok; simp at hok

end Fit.Writer
