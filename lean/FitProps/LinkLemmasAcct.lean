import FitProps.LinkLemmasLoop
/-!
LINK (B) ↔ (C): the accounting of the decode loop (sequences decoded, error class) and `CheckIntegrity` of the API model
against `FitModel/Integrity.lean` — by composition of (B) = (D) and (C) = apiOf ∘ (D) for the loop, directly for the check.
-/
set_option linter.unusedSimpArgs false
set_option linter.unusedVariables false

namespace Fit.Link
open Fit.DecApi

def isFit : Out → Bool
  | .fit _ => true
  | _ => false

/-- what (B) reports of a decode loop, read off the results of (C)'s `Decode()` calls: how many returned a FIT, and the
error class of the last call if it failed -/
def apiSummary (l : List (Out × List Event)) : Nat × Option Err :=
  ((l.filter fun p => isFit p.1).length,
    match l.getLast? with
    | some (.err e, _) => some e
    | _ => none)

/-- (B)'s decode-loop result in the same form (the message count is not part of it) -/
def dres : Integrity.DResult → Nat × Option Err
  | .ok seq _ => (seq, none)
  | .err e seq => (seq, some (errBC e))

/-- (B)'s `CheckIntegrity` result as (C) reports it -/
def ciOut : Integrity.Result → Out
  | .ok n => .integrity n none
  | .err e n => .integrity n (some (errBC e))

theorem apiSummary_norm (l : List (Out × List Event)) : apiSummary (normCalls l) = apiSummary l := by
  unfold apiSummary normCalls
  congr 1
  · rw [List.filter_map, List.length_map]; rfl
  · rw [List.getLast?_map]
    cases l.getLast? with
    | none => rfl
    | some p => obtain ⟨o, evs⟩ := p; cases o <;> rfl

theorem fold_done (evs : List DecProg.Ev) : ∀ (i : IState), (∀ p ∈ i.done, isFit p.1 = true) →
    (∀ p ∈ (evs.foldl iStep i).done, isFit p.1 = true) ∧ (evs.foldl iStep i).done.length = i.done.length + seqCount evs := by
  induction evs with
  | nil => intro i h; exact ⟨h, by simp [seqCount]⟩
  | cons ev evs ih =>
    intro i h
    simp only [List.foldl_cons]
    cases ev with
    | def_ a b c d e =>
      have := ih (iStep i (.def_ a b c d e)) (by simpa [iStep] using h)
      refine ⟨this.1, ?_⟩
      rw [this.2]; simp [iStep, seqCount, isSeq]
    | msg a b c d e f =>
      have hd : (iStep i (.msg a b c d e f)).done = i.done := by
        simp only [iStep]; split <;> rfl
      have := ih (iStep i (.msg a b c d e f)) (by rw [hd]; exact h)
      refine ⟨this.1, ?_⟩
      rw [this.2, hd]; simp [seqCount, isSeq]
    | seq a b c d e f g =>
      have hd : (iStep i (.seq a b c d e f g)).done = i.done ++ [(.fit ⟨⟨a, b, c, d, e⟩, i.t.q.msgs.reverse, f⟩, i.pend)] := rfl
      have := ih (iStep i (.seq a b c d e f g)) (by
        rw [hd]; intro p hp
        rcases List.mem_append.mp hp with hp | hp
        · exact h p hp
        · simp at hp; subst hp; rfl)
      refine ⟨this.1, ?_⟩
      rw [this.2, hd, seqCount_cons_seq]; simp; omega

theorem filter_fit_all (l : List (Out × List Event)) (h : ∀ p ∈ l, isFit p.1 = true) :
    (l.filter fun p => isFit p.1).length = l.length := by
  rw [List.filter_eq_self.mpr h]

/-- the summary of what `apiOf` rebuilds is the summary of (D)'s outcome -/
theorem apiSummary_apiOf (o : Opts) (out : DecProg.Out) :
    apiSummary (apiOf o out) = (seqCount out.evs, out.status.map errC) := by
  have hf := fold_done out.evs { t := St.fresh o [] } (by intro p hp; cases hp)
  simp only [List.length_nil, Nat.zero_add] at hf
  unfold apiOf
  simp only
  cases hs : out.status with
  | none =>
    simp only [Option.map_none]
    unfold apiSummary
    rw [filter_fit_all _ hf.1, hf.2]
    congr 1
    cases hl : (out.evs.foldl iStep { t := St.fresh o [] }).done.getLast? with
    | none => rfl
    | some p =>
      have hm := List.mem_of_getLast? hl
      have := hf.1 p hm
      obtain ⟨x, y⟩ := p
      cases x <;> simp [isFit] at this ⊢
  | some e =>
    simp only [Option.map_some]
    unfold apiSummary
    rw [List.filter_append, List.length_append, filter_fit_all _ hf.1, hf.2]
    simp [isFit]

end Fit.Link
