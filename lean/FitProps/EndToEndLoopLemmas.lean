import FitProps.EndToEndBridgeLemmas
/-!
The record loops of the two decoder models (C01 end to end): `bridge_records` — where `Wire.decodeRecordsF` parses
a byte string into items, `Fit.DecApi.decodeMessages` on the same bytes ends normally, at the same position, with the
messages the items interpret to (`GoodItems`).
-/
set_option linter.unusedSimpArgs false
namespace Fit.E2E
open Fit.Gen Fit.Gen.DecApi Fit.Value Fit.DecApi Fit.Crc
open Fit.Wire (takeDevs_split wire_record_cases)

/-- what one record does to the decoder-API state, as far as the framing goes -/
structure StepOut (s s2 : St) (bs rest1 : List Nat) : Prop where
  o : s2.o = s.o
  rest : s2.rest = rest1
  hdr : s2.q.hdr = s.q.hdr
  hdrDone : s2.q.hdrDone = s.q.hdrDone
  err : s2.q.err = s.q.err
  consumed : ∃ c, bs = c ++ rest1 ∧ c ≠ [] ∧ s2.q.cur = (s.q.cur + c.length) % 4294967296 ∧
    s2.q.crc16 = (if s.o.chk then write s.q.crc16 c else s.q.crc16)

theorem hdr_def_bit (hd : Nat) :
    ((hd &&& 0xC0 == 0x40) = true) ↔ hd &&& (mesgCompressedHeaderMask ||| mesgDefinitionMask) = mesgDefinitionMask := by
  have : (mesgCompressedHeaderMask ||| mesgDefinitionMask) = 0xC0 := by decide
  rw [this]; simp [mesgDefinitionMask]

theorem decodeMessage_cons (hd : Nat) (bs0 : List Nat) (s : St) (h : s.rest = hd :: bs0) :
    decodeMessage s =
      (if hd &&& (mesgCompressedHeaderMask ||| mesgDefinitionMask) = mesgDefinitionMask
        then decodeDefinition hd (readSt s 1 (s.q.ts, s.q.lastOff)) else decodeData hd (readSt s 1 (s.q.ts, s.q.lastOff))) := by
  unfold decodeMessage
  simp only [bind, Res.bind]
  rw [readN_readSt 1 s (by decide) (by rw [h]; simp)]
  simp [h, idx, Res.bind]

theorem mesgNum_eq (arch m0 m1 : Nat) :
    (if arch = littleEndian then le16 [m0, m1] else be16 [m0, m1]) = (if arch = 0 then m0 + 256 * m1 else m1 + 256 * m0) := by
  simp only [littleEndian, le16, be16, List.getD_cons_zero, List.getD_cons_succ]
  split <;> omega

theorem step_def (tsKnown : Nat → Bool) (ds : Wire.DecState) (s : St) (hd res arch m0 m1 n : Nat) (bs1 : List Nat)
    (fds : List Wire.FieldDef) (bs2 : List Nat) (dds : List Wire.DevDef) (rest1 : List Nat)
    (hsim : SimW ds s) (hrest : s.rest = hd :: res :: arch :: m0 :: m1 :: n :: bs1) (hb : IsBytes s.rest) (ho : PlainOpts s.o)
    (hdef : (hd &&& 0xC0 == 0x40) = true)
    (hp : Wire.parseFieldDefs n bs1 = .ok (fds, bs2)) (hval : ∀ f ∈ fds, Wire.validBaseType f.bt = true)
    (hdv : if (hd &&& 0x20 == 0x20) = true then ∃ k bs3, bs2 = k :: bs3 ∧ Wire.parseDevDefs k bs3 = .ok (dds, rest1)
          else dds = [] ∧ bs2 = rest1) :
    ∃ s2, decodeMessage s = .ok (s2, none) ∧
      SimW { ds with defs := (hd &&& 0xF, ⟨hd, arch, if arch = 0 then m0 + 256 * m1 else m1 + 256 * m0, fds, dds⟩) :: ds.defs } s2 ∧
      StepOut s s2 s.rest rest1 ∧ s2.q.msgs = s.q.msgs ∧ s2.look.descs = s.look.descs := by
  have hb1 : IsBytes bs1 := fun x hx => hb x (by rw [hrest]; simp [hx])
  have hn : n < 256 := hb n (by rw [hrest]; simp)
  obtain ⟨fb, hfb1, hfb2, hfb3⟩ := parseFieldDefs_bridge n bs1 fds bs2 hp hb1 hval
  have hfsz := parseFieldDefs_sizes n bs1 fds bs2 hp hb1
  have hb2 : IsBytes bs2 := fun x hx => hb1 x (by rw [hfb1]; simp [hx])
  -- the developer part
  have hdevP : ∃ devPart devs, bs2 = devPart ++ rest1 ∧ devs = dds.map cvD ∧ (∀ f ∈ dds, f.size < 256) ∧
      (if hd &&& devDataMask = devDataMask
        then ∃ k db, devPart = k :: db ∧ db.length = k * 3 ∧ k < 256 ∧ devs = parseDevDefs db
        else devPart = [] ∧ devs = []) := by
    by_cases hdd : (hd &&& 0x20 == 0x20) = true
    · rw [if_pos hdd] at hdv
      obtain ⟨k, bs3, hk1, hk2⟩ := hdv
      obtain ⟨db, hd1, hd2, hd3⟩ := parseDevDefs_bridge k bs3 dds rest1 hk2
      have hdd' : hd &&& devDataMask = devDataMask := by simpa [devDataMask] using hdd
      have hk : k < 256 := hb2 k (by rw [hk1]; simp)
      refine ⟨k :: db, dds.map cvD, by rw [hk1, hd1]; simp, rfl,
        parseDevDefs_sizes k bs3 dds rest1 hk2 (fun x hx => hb2 x (by rw [hk1]; simp [hx])), ?_⟩
      rw [if_pos hdd']
      exact ⟨k, db, rfl, hd2, hk, hd3.symm⟩
    · rw [if_neg hdd] at hdv
      obtain ⟨rfl, rfl⟩ := hdv
      have hdd' : ¬ hd &&& devDataMask = devDataMask := by simpa [devDataMask] using hdd
      refine ⟨[], [], by simp, rfl, ?_, ?_⟩
      · intro f hf; cases hf
      · rw [if_neg hdd']; exact ⟨rfl, rfl⟩
  obtain ⟨devPart, devs, hdp1, hdp2, hdsz, hdp3⟩ := hdevP
  have hs1 : (readSt s 1 (s.q.ts, s.q.lastOff)).rest = [res, arch, m0, m1, n] ++ (fb ++ (devPart ++ rest1)) := by
    simp only [readSt]; rw [hrest, hfb1, hdp1]; simp
  have hdec := decodeDefinition_ok hd (readSt s 1 (s.q.ts, s.q.lastOff)) res arch m0 m1 n fb devPart rest1
    (fds.map cvF) devs hs1 hfb2 hn hfb3 hdp3 (by rw [readSt_o]; exact ho.dl)
  rw [decodeMessage_cons hd _ s hrest, if_pos ((hdr_def_bit hd).mp hdef), hdec]
  refine ⟨_, rfl, ?_, ?_, ?_, ?_⟩
  · -- simulation
    refine ⟨?_, ?_, ?_, hsim.lo32, ?_⟩
    · simp only [defResult, readSt]
      refine DefsRel.cons ⟨by simp [localMesgNumMask], ?_⟩ hsim.defs
      exact ⟨rfl, rfl, mesgNum_eq arch m0 m1, rfl, hdp2⟩
    · simp only [defResult, readSt]; exact hsim.ts
    · simp only [defResult, readSt]; exact hsim.lo
    · intro p hp'
      rcases List.mem_cons.mp hp' with rfl | hp'
      · exact ⟨hfsz, hdsz⟩
      · exact hsim.sizes p hp'
  · refine ⟨rfl, ?_, rfl, rfl, rfl, ?_⟩
    · simp only [defResult, readSt, List.drop_drop]
      rw [hrest, hfb1, hdp1]
      have : 1 + (5 + n * 3 + devPart.length) = (hd :: res :: arch :: m0 :: m1 :: n :: (fb ++ devPart)).length := by
        simp [hfb2]; omega
      rw [this]
      have e : hd :: res :: arch :: m0 :: m1 :: n :: (fb ++ (devPart ++ rest1)) =
          (hd :: res :: arch :: m0 :: m1 :: n :: (fb ++ devPart)) ++ rest1 := by simp
      rw [e, List.drop_left]
    · refine ⟨hd :: res :: arch :: m0 :: m1 :: n :: (fb ++ devPart), by rw [hrest, hfb1, hdp1]; simp, by simp, ?_, ?_⟩
      · simp only [defResult, readSt, List.length_cons, List.length_append, hfb2]; omega
      · simp only [defResult, readSt]
        split
        · rw [write_append]
          congr 1
          rw [hrest, hfb1, hdp1]
          have : 5 + n * 3 + devPart.length = (res :: arch :: m0 :: m1 :: n :: (fb ++ devPart)).length := by
            simp [hfb2]; omega
          rw [this]
          have e : res :: arch :: m0 :: m1 :: n :: (fb ++ (devPart ++ rest1)) =
              (res :: arch :: m0 :: m1 :: n :: (fb ++ devPart)) ++ rest1 := by simp
          simp only [List.drop_succ_cons, List.drop_zero, List.take_succ_cons, List.take_zero, List.singleton_append]
          rw [e, List.take_left' rfl]
        · rfl
  · rfl
  · rfl

theorem beq_true_iff_eq (a b : Nat) : ((a == b) = true) ↔ a = b := by simp

theorem flatMap_cvFs (fs : List (Wire.FieldDef × List Nat)) : (cvFs fs).flatMap (·.2) = fs.flatMap (·.2) := by
  simp [cvFs, List.flatMap_map]
theorem flatMap_cvDs (fs : List (Wire.DevDef × List Nat)) : (cvDs fs).flatMap (·.2) = fs.flatMap (·.2) := by
  simp [cvDs, List.flatMap_map]

/-- the state and timestamp field a (compressed-timestamp) header yields, in terms of the framing decoder's state -/
theorem preOf_sim (ds : Wire.DecState) (s1 : St) (hd : Nat) (d : MesgDef)
    (hts : s1.q.ts = ds.timestamp) (hlo : s1.q.lastOff = ds.lastOff) (hl32 : ds.lastOff < 32) :
    ((preOf hd d s1).1.q.ts = (if (hd &&& 0x80 == 0x80) = true then (Wire.decompressHdr ds hd).1 else ds).timestamp) ∧
    ((preOf hd d s1).1.q.lastOff = (if (hd &&& 0x80 == 0x80) = true then (Wire.decompressHdr ds hd).1 else ds).lastOff) ∧
    ((if (hd &&& 0x80 == 0x80) = true then (Wire.decompressHdr ds hd).1 else ds).lastOff < 32) ∧
    ((if (hd &&& 0x80 == 0x80) = true then (Wire.decompressHdr ds hd).1 else ds).defs = ds.defs) ∧
    ((preOf hd d s1).2 = (match (if (hd &&& 0x80 == 0x80) = true then some (Wire.decompressHdr ds hd).2 else none) with
      | some t => [tsDField s1.o.fac d.mesgNum t] | none => [])) := by
  have hoff : hd &&& 0x1F < 32 := by have := @Nat.and_le_right hd 0x1F; omega
  by_cases hc : (hd &&& 0x80 == 0x80) = true
  · have hc' : hd &&& mesgCompressedHeaderMask = mesgCompressedHeaderMask := by simpa [mesgCompressedHeaderMask] using hc
    have ht : (s1.q.ts + (((hd &&& compressedTimeMask) + 256 - s1.q.lastOff) % 256 &&& compressedTimeMask)) % 4294967296 =
        (ds.timestamp + ((hd &&& 0x1F) + 32 - ds.lastOff) % 32) % 4294967296 := by
      rw [hts, hlo]
      have := ts_offset (hd &&& 0x1F) hoff ds.lastOff hl32
      simp only [compressedTimeMask] at this ⊢
      rw [this]
    have hpre : preOf hd d s1 = compressedTs hd d s1 := by simp only [preOf, hc', ↓reduceIte]
    rw [hpre]
    simp only [hc, ↓reduceIte]
    refine ⟨?_, ?_, ?_, ?_, ?_⟩
    · simp only [compressedTs, Wire.decompressHdr]; exact ht
    · simp only [compressedTs, Wire.decompressHdr]; rfl
    · simp only [Wire.decompressHdr]; exact hoff
    · simp only [Wire.decompressHdr]
    · simp only [compressedTs, Wire.decompressHdr, tsDField, ht]
      try (split <;> rfl)
  · have hc' : ¬ hd &&& mesgCompressedHeaderMask = mesgCompressedHeaderMask := by simpa [mesgCompressedHeaderMask] using hc
    have hpre : preOf hd d s1 = (s1, []) := by simp only [preOf, hc', ↓reduceIte]
    rw [hpre]
    simp only [hc, Bool.false_eq_true, ↓reduceIte]
    refine ⟨hts, hlo, hl32, ?_, ?_⟩ <;> first | rfl | trivial

theorem step_data (tsKnown : Nat → Bool) (ds : Wire.DecState) (s : St) (hd : Nat) (bs0 : List Nat) (wd : Wire.MesgDef)
    (fs : List (Wire.FieldDef × List Nat)) (bs1 : List Nat) (dvs : List (Wire.DevDef × List Nat)) (rest1 : List Nat)
    (rs : List (Option DField)) (rds : List (Option DDev))
    (hsim : SimW ds s) (hrest : s.rest = hd :: bs0) (ho : PlainOpts s.o)
    (hk : ∀ m, tsKnown m = (s.o.fac.create m fieldNumTimestamp).known)
    (hdef : (hd &&& 0xC0 == 0x40) = false)
    (hl : ds.lookup ((if (hd &&& 0x80 == 0x80) = true then (hd &&& 0x60) >>> 5 else hd) &&& 0xF) = some wd)
    (ht : Wire.takeFields wd.fields bs0 = .ok (fs, bs1)) (htd : Wire.takeDevsF wd.devs bs1 = .ok (dvs, rest1))
    (hI : InterpAll s.o.fac wd.mesgNum wd.arch (cvFs fs) rs)
    (hT : TsAgreeAll (s.o.fac.create wd.mesgNum fieldNumTimestamp).known wd.arch fs rs)
    (hD : InterpDevs (descsAfter s.look.descs wd.mesgNum (fieldsOfRec s.o.fac
      ⟨hd, wd.mesgNum, wd.arch, if (hd &&& 0x80 == 0x80) = true then some (Wire.decompressHdr ds hd).2 else none, fs, dvs⟩ rs))
      wd.arch (cvDs dvs) rds) :
    ∃ s2, decodeMessage s = .ok (s2, none) ∧
      SimW (Wire.trackTs (tsKnown wd.mesgNum) wd.arch (if (hd &&& 0x80 == 0x80) = true then (Wire.decompressHdr ds hd).1 else ds) fs) s2 ∧
      StepOut s s2 s.rest rest1 ∧
      s2.q.msgs = ⟨hd, wd.mesgNum, fieldsOfRec s.o.fac
        ⟨hd, wd.mesgNum, wd.arch, if (hd &&& 0x80 == 0x80) = true then some (Wire.decompressHdr ds hd).2 else none, fs, dvs⟩ rs,
        rds.filterMap id⟩ :: s.q.msgs ∧
      s2.look.descs = descsAfter s.look.descs wd.mesgNum (fieldsOfRec s.o.fac
        ⟨hd, wd.mesgNum, wd.arch, if (hd &&& 0x80 == 0x80) = true then some (Wire.decompressHdr ds hd).2 else none, fs, dvs⟩ rs) := by
  -- the live definition on the decoder-API side
  rcases hsim.lookup ((if (hd &&& 0x80 == 0x80) = true then (hd &&& 0x60) >>> 5 else hd) &&& 0xF) with ⟨hn, _⟩ | ⟨w, d, hw, hdl, hrel⟩
  · rw [hl] at hn; cases hn
  rw [hl] at hw
  obtain rfl := Option.some.inj hw
  obtain ⟨_, harch, hnum, hfl, hdvl⟩ := hrel
  obtain ⟨f1, f2, f3⟩ := takeFields_split _ _ _ _ ht
  obtain ⟨g1, g2, g3⟩ := takeDevs_split _ _ _ _ htd
  have hwd : wd ∈ ds.defs.map (·.2) := by
    simp only [Wire.DecState.lookup] at hl
    cases hf : ds.defs.find? (·.1 == ((if (hd &&& 0x80 == 0x80) = true then (hd &&& 0x60) >>> 5 else hd) &&& 0xF)) with
    | none => rw [hf] at hl; cases hl
    | some p =>
      rw [hf] at hl
      simp only [Option.map_some, Option.some.injEq] at hl
      exact List.mem_map.mpr ⟨p, List.mem_of_find?_eq_some hf, hl⟩
  obtain ⟨p, hp, hp2⟩ := List.mem_map.mp hwd
  have hsz := hsim.sizes p hp
  rw [hp2] at hsz
  obtain ⟨s1, hs1⟩ : ∃ s1, s1 = readSt s 1 (s.q.ts, s.q.lastOff) := ⟨_, rfl⟩
  have hs1o : s1.o = s.o := by rw [hs1]; rfl
  have hs1look : s1.look = s.look := by rw [hs1]; rfl
  have hs1ts : s1.q.ts = s.q.ts := by rw [hs1]; rfl
  have hs1lo : s1.q.lastOff = s.q.lastOff := by rw [hs1]; rfl
  have hs1rest : s1.rest = (cvFs fs).flatMap (·.2) ++ ((cvDs dvs).flatMap (·.2) ++ rest1) := by
    rw [flatMap_cvFs, flatMap_cvDs, ← g2, ← f2]
    simp only [hs1, readSt]; rw [hrest]; simp
  have hlook1 : s1.look.lookup ((if hd &&& mesgCompressedHeaderMask = mesgCompressedHeaderMask
        then (hd &&& compressedLocalMesgNumMask) >>> compressedBitShift else hd) &&& localMesgNumMask) = some d := by
    have : ((if hd &&& mesgCompressedHeaderMask = mesgCompressedHeaderMask
        then (hd &&& compressedLocalMesgNumMask) >>> compressedBitShift else hd) &&& localMesgNumMask) =
        ((if (hd &&& 0x80 == 0x80) = true then (hd &&& 0x60) >>> 5 else hd) &&& 0xF) := by
      simp only [mesgCompressedHeaderMask, compressedLocalMesgNumMask, compressedBitShift, localMesgNumMask, beq_iff_eq]
      rfl
    rw [this, hs1look]; exact hdl
  have hfs : ∀ q ∈ cvFs fs, q.2.length = q.1.size ∧ q.1.size < 256 := by
    intro q hq
    obtain ⟨q0, hq0, rfl⟩ := List.mem_map.mp hq
    refine ⟨f3 q0 hq0, ?_⟩
    have : q0.1 ∈ wd.fields := by rw [← f1]; exact List.mem_map.mpr ⟨q0, hq0, rfl⟩
    exact hsz.1 _ this
  have hds : ∀ q ∈ cvDs dvs, q.2.length = q.1.size ∧ q.1.size < 256 := by
    intro q hq
    obtain ⟨q0, hq0, rfl⟩ := List.mem_map.mp hq
    refine ⟨g3 q0 hq0, ?_⟩
    have : q0.1 ∈ wd.devs := by rw [← g1]; exact List.mem_map.mpr ⟨q0, hq0, rfl⟩
    exact hsz.2 _ this
  have hpre := preOf_sim ds s1 hd d (by rw [hs1ts]; exact hsim.ts) (by rw [hs1lo]; exact hsim.lo) hsim.lo32
  obtain ⟨pts, plo, plo32, pdefs, ppre⟩ := hpre
  have hfields : (preOf hd d s1).2 ++ rs.filterMap id = fieldsOfRec s.o.fac
      ⟨hd, wd.mesgNum, wd.arch, if (hd &&& 0x80 == 0x80) = true then some (Wire.decompressHdr ds hd).2 else none, fs, dvs⟩ rs := by
    rw [ppre, hnum, hs1o]; rfl
  have hdec := decodeData_ok hd d s1 (cvFs fs) (cvDs dvs) rest1 rs rds hlook1
    (by rw [hfl, ← f1]; simp [cvFs]) (by rw [hdvl, ← g1]; simp [cvDs]) hs1rest hfs hds
    (by rw [hs1o]; exact ho.exp) (by rw [hs1o]; exact ho.bo) (by rw [hs1o]; exact ho.ml)
    (by rw [hs1]; exact readSt_cur_lt _ _ _) (by rw [hs1o, hnum, harch]; exact hI)
    (by rw [midOf_descs, hfields, hnum, harch, hs1look]; exact hD)
  have hspec := dataResult_spec hd d s1 (cvFs fs) (cvDs dvs) rs rds (by rw [hs1o]; exact ho.bo)
  have hndef : ¬ hd &&& (mesgCompressedHeaderMask ||| mesgDefinitionMask) = mesgDefinitionMask := by
    intro h; have := (hdr_def_bit hd).mpr h; rw [hdef] at this; cases this
  subst hs1
  rw [decodeMessage_cons hd bs0 s hrest, if_neg hndef, hdec]
  have htf := tsFold_track (s.o.fac.create wd.mesgNum fieldNumTimestamp).known wd.arch fs rs
    (if (hd &&& 0x80 == 0x80) = true then (Wire.decompressHdr ds hd).1 else ds) hT plo32
  have hsum : totalF (cvFs fs) + totalD (cvDs dvs) = (fs.flatMap (·.2) ++ dvs.flatMap (·.2)).length := by
    rw [totalF_eq _ (fun q hq => (hfs q hq).1), totalD_eq _ (fun q hq => (hds q hq).1), flatMap_cvFs, flatMap_cvDs]; simp
  refine ⟨_, rfl, ?_, ?_, ?_, ?_⟩
  · refine ⟨?_, ?_, ?_, ?_, ?_⟩
    · rw [trackTs_defs, pdefs, hspec.defs]; exact hsim.defs
    · have := hspec.ts
      rw [pts, plo, htf.1, ← hk] at this
      exact (Prod.mk.inj this).1
    · have := hspec.ts
      rw [pts, plo, htf.1, ← hk] at this
      exact (Prod.mk.inj this).2
    · rw [hk]; exact htf.2
    · rw [trackTs_defs, pdefs]; exact hsim.sizes
  · refine ⟨hspec.o, ?_, hspec.hdr, hspec.hdrDone, hspec.err, ?_⟩
    · rw [hspec.rest, hsum, hs1rest, flatMap_cvFs, flatMap_cvDs, ← List.append_assoc, List.drop_left]
    · refine ⟨hd :: (fs.flatMap (·.2) ++ dvs.flatMap (·.2)), ?_, by simp, ?_, ?_⟩
      · rw [hrest, f2, g2]; simp
      · rw [hspec.cur, hsum]; simp only [readSt, List.length_cons]; omega
      · rw [hspec.crc16, hsum, hs1rest, flatMap_cvFs, flatMap_cvDs, ← List.append_assoc, List.take_left' rfl]
        simp only [readSt]
        split
        · rw [write_append, hrest]; simp
        · rfl
  · rw [hspec.msgs]
    simp only [msgOf, hfields, hnum]
    rfl
  · rw [hspec.descs, hfields, hnum]; rfl

/-! ### the record loops -/

/-- **The two decoder models agree on record streams.** Where the framing decoder (`Wire.decodeRecordsF`, with budget
`remaining` = what is left of the data size) parses `bs` into `items` and stops at `rest`, the decoder-API model in a
state that simulates it — same live definitions, same active timestamp — decodes the same records, ends normally, stops
at the same position with its running CRC over exactly the consumed bytes, and has appended the messages the items
interpret to. -/
theorem bridge_records (tsKnown : Nat → Bool) : ∀ (fuel : Nat) (ds : Wire.DecState) (remaining : Nat) (bs : List Nat)
    (items : List Wire.Item) (rest : List Nat) (s : St) (msgs : List Msg),
    Wire.decodeRecordsF tsKnown fuel ds remaining bs = (items, .ok rest) →
    SimW ds s → s.rest = bs → IsBytes bs → remaining = s.q.hdr.dataSize - s.q.cur → s.q.cur + bs.length < 4294967296 →
    PlainOpts s.o → (∀ m, tsKnown m = (s.o.fac.create m fieldNumTimestamp).known) →
    GoodItems s.o.fac s.look.descs items msgs →
    ∃ s', decodeMessages fuel s = (s', [], .ok ()) ∧ s'.rest = rest ∧ s'.q.msgs = msgs.reverse ++ s.q.msgs ∧ s'.o = s.o ∧
      s'.q.hdr = s.q.hdr ∧ s'.q.hdrDone = s.q.hdrDone ∧ s'.q.err = s.q.err ∧
      ∃ c, bs = c ++ rest ∧ s'.q.cur = s.q.cur + c.length ∧
        s'.q.crc16 = (if s.o.chk then write s.q.crc16 c else s.q.crc16) := by
  intro fuel
  induction fuel with
  | zero =>
    intro ds remaining bs items rest s msgs h _ hr _ hrem hsmall _ _ hg
    simp only [Wire.decodeRecordsF] at h
    split at h
    · rename_i h0
      simp only [Prod.mk.injEq, Except.ok.injEq] at h
      obtain ⟨rfl, rfl⟩ := h
      simp only [GoodItems] at hg
      subst hg
      have hnc : ¬ s.q.cur < s.q.hdr.dataSize := by omega
      exact ⟨s, by simp [decodeMessages, hnc], hr, by simp, rfl, rfl, rfl, rfl, [], by simp, by simp, by simp [write]⟩
    · simp at h
  | succ fuel ih =>
    intro ds remaining bs items rest s msgs h hsim hr hb hrem hsmall ho hk hg
    simp only [Wire.decodeRecordsF] at h
    split at h
    · rename_i h0
      simp only [Prod.mk.injEq, Except.ok.injEq] at h
      obtain ⟨rfl, rfl⟩ := h
      simp only [GoodItems] at hg
      subst hg
      have hnc : ¬ s.q.cur < s.q.hdr.dataSize := by omega
      exact ⟨s, by simp [decodeMessages, hnc], hr, by simp, rfl, rfl, rfl, rfl, [], by simp, by simp, by simp [write]⟩
    · rename_i h0
      have hlt : s.q.cur < s.q.hdr.dataSize := by omega
      cases hrec : Wire.decodeRecordF tsKnown ds bs with
      | error e => rw [hrec] at h; simp at h
      | ok pr =>
        obtain ⟨it, ds', rest1⟩ := pr
        rw [hrec] at h
        simp only at h
        cases hrr : Wire.decodeRecordsF tsKnown fuel ds' (remaining - (bs.length - rest1.length)) rest1 with
        | mk its r =>
          rw [hrr] at h
          simp only [Prod.mk.injEq] at h
          obtain ⟨rfl, rfl⟩ := h
          -- one record on the decoder-API side
          have hstep : ∃ s2 pre msgs', decodeMessage s = .ok (s2, none) ∧ SimW ds' s2 ∧ StepOut s s2 s.rest rest1 ∧
              s2.q.msgs = pre ++ s.q.msgs ∧ msgs = pre ++ msgs' ∧ pre.reverse = pre ∧
              GoodItems s.o.fac s2.look.descs its msgs' := by
            rcases wire_record_cases tsKnown ds bs it ds' rest1 hrec with
              ⟨hd, res, arch, m0, m1, n, bs1, fds, bs2, dds, hbs, hdef, hp, hval, hdv, rfl, rfl⟩ |
              ⟨hd, bs0, wd, fs, bs1, dvs, hbs, hdef, hl, ht, htd, rfl, rfl⟩
            · obtain ⟨s2, e1, e2, e3, e4, e5⟩ := step_def tsKnown ds s hd res arch m0 m1 n bs1 fds bs2 dds rest1 hsim
                (by rw [hr]; exact hbs) (by rw [hr]; exact hb) ho hdef hp hval hdv
              simp only [GoodItems] at hg
              exact ⟨s2, [], msgs, e1, e2, e3, by simpa using e4, by simp, rfl, by rw [e5]; exact hg⟩
            · simp only [GoodItems] at hg
              obtain ⟨rs, rds, msgs', g1, g2, g3, g4, g5⟩ := hg
              obtain ⟨s2, e1, e2, e3, e4, e5⟩ := step_data tsKnown ds s hd bs0 wd fs bs1 dvs rest1 rs rds hsim
                (by rw [hr]; exact hbs) ho hk hdef hl ht htd g1 g2 g3
              exact ⟨s2, [_], msgs', e1, e2, e3, e4, g4, rfl, by rw [e5]; exact g5⟩
          obtain ⟨s2, pre, msgs', e1, e2, e3, e4, e5, e5', e6⟩ := hstep
          obtain ⟨c, hc1, hc2, hc3, hc4⟩ := e3.consumed
          rw [hr] at hc1
          have hclen : bs.length = c.length + rest1.length := by rw [hc1]; simp
          have hcur2 : s2.q.cur = s.q.cur + c.length := by rw [hc3]; exact Nat.mod_eq_of_lt (by omega)
          have hih := ih ds' (remaining - (bs.length - rest1.length)) rest1 its rest s2 msgs' hrr e2 e3.rest
            (fun x hx => hb x (by rw [hc1]; simp [hx]))
            (by rw [e3.hdr, hcur2, hrem]; omega) (by rw [hcur2]; omega) (by rw [e3.o]; exact ho)
            (by rw [e3.o]; exact hk) (by rw [e3.o]; exact e6)
          obtain ⟨s', d1, d2, d3, d4, d5, d6, d7, c', d8, d9, d10⟩ := hih
          refine ⟨s', ?_, d2, ?_, by rw [d4, e3.o], by rw [d5, e3.hdr], by rw [d6, e3.hdrDone], by rw [d7, e3.err],
            c ++ c', by rw [hc1, d8]; simp, by rw [d9, hcur2]; simp; omega, ?_⟩
          · simp only [decodeMessages, hlt, ↓reduceIte, e1, d1, Option.toList, List.nil_append]
          · rw [d3, e4, e5, List.reverse_append, e5']; simp
          · rw [d10, e3.o, hc4]
            split
            · rw [write_append]
            · rfl

end Fit.E2E
