import FitProps.EndToEndBackValueLemmas
import FitProps.EndToEndFieldLemmas
/-!
Field layer of the RE-ENCODING direction of C01: what `Fit.DecApi.decodeField` / `decodeDevField` return for ARBITRARY bytes
(`interpField_good`, `interpDev_good`): the decoded field carries the factory's attributes, its value is well-formed, lies
outside the finding classes of the forward direction under the flags the decoder will read it with when it is written again
(`Fit.E2E.readAs` / `devReadAs`), and — outside the class `kfPiecesF`/`kfPiecesD` — is its own
wire-normal form. Includes the fallback for undersized fields (`convertBytesToValue`: bounds of the assembled number and of
the uint→float conversions).
-/
set_option linter.unusedSimpArgs false
set_option linter.unusedVariables false
namespace Fit.E2E
open Fit.Gen Fit.Gen.DecApi Fit.Value Fit.Utf8 Fit.DecApi

/-! ### `convertBytesToValue`: the number assembled from fewer bytes than the base type has -/

theorem shl_lt (a m E : Nat) (h : a < 2 ^ E) : a <<< m < 2 ^ (m + E) := by
  rw [Nat.shiftLeft_eq, Nat.pow_add, Nat.mul_comm]
  exact Nat.mul_lt_mul_of_pos_left h (Nat.two_pow_pos m)

theorem natToFloat_lt (m bias E P x : Nat) (hx : x < 2 ^ P) (hE : P + 1 + bias ≤ 2 ^ E) :
    natToFloat m bias x < 2 ^ (m + E) := by
  unfold natToFloat
  split
  · exact Nat.two_pow_pos _
  · rename_i hx0
    have hp : Nat.log2 x < P := (Nat.log2_lt hx0).mpr hx
    have hlt : x < 2 ^ (Nat.log2 x + 1) := Nat.lt_log2_self
    have hm : (2 : Nat) ^ m < 2 ^ (m + E) := by
      apply Nat.pow_lt_pow_right (by decide)
      have : 0 < E := by
        rcases Nat.eq_zero_or_pos E with h | h
        · subst h; simp at hE; omega
        · exact h
      omega
    generalize Nat.log2 x = p at hp hlt
    simp only
    split
    · rename_i hpm
      apply Nat.or_lt_two_pow (shl_lt _ _ _ (by omega))
      have h1 : x <<< (m - p) < 2 ^ (m + 1) := by
        rw [Nat.shiftLeft_eq]
        have : x * 2 ^ (m - p) < 2 ^ (p + 1) * 2 ^ (m - p) := Nat.mul_lt_mul_of_pos_right hlt (Nat.two_pow_pos _)
        rw [← Nat.pow_add] at this
        have e : p + 1 + (m - p) = m + 1 := by omega
        rw [e] at this; exact this
      have h2 : (1 : Nat) <<< m = 2 ^ m := by simp [Nat.shiftLeft_eq]
      rw [h2]
      have : (2 : Nat) ^ (m + 1) = 2 * 2 ^ m := by rw [Nat.pow_succ]; omega
      omega
    · rename_i hpm
      have hq : x >>> (p - m) < 2 ^ (m + 1) := by
        rw [Nat.shiftRight_eq_div_pow]
        apply Nat.div_lt_of_lt_mul
        rw [← Nat.pow_add]
        have e : p - m + (m + 1) = p + 1 := by omega
        rw [e]; exact hlt
      have h1 : (1 : Nat) <<< m = 2 ^ m := by simp [Nat.shiftLeft_eq]
      have h2 : (1 : Nat) <<< (m + 1) = 2 ^ (m + 1) := by simp [Nat.shiftLeft_eq]
      have h3 : (2 : Nat) ^ (m + 1) = 2 * 2 ^ m := by rw [Nat.pow_succ]; omega
      simp only [h1, h2]
      split <;> split
      · exact shl_lt _ _ _ (by omega)
      · apply Nat.or_lt_two_pow (shl_lt _ _ _ (by omega)); omega
      · exact shl_lt _ _ _ (by omega)
      · apply Nat.or_lt_two_pow (shl_lt _ _ _ (by omega)); omega

theorem natToF32_lt (x : Nat) (hx : x < 2 ^ 24) : natToF32 x < 2 ^ 32 :=
  natToFloat_lt 23 127 9 24 x hx (by decide)

theorem natToF64_lt (x : Nat) (hx : x < 2 ^ 56) : natToF64 x < 2 ^ 64 :=
  natToFloat_lt 52 1023 12 56 x hx (by decide)

theorem foldOr_lt (n : Nat) (hn : n ≤ 8) : ∀ (l : List (Nat × Nat)), (∀ p ∈ l, p.1 < 256 ∧ p.2 < n) → ∀ acc, acc < 2 ^ (8 * n) →
    l.foldl (fun acc (p : Nat × Nat) => acc ||| ((p.1 <<< (p.2 * 8)) % 2 ^ 64)) acc < 2 ^ (8 * n) := by
  intro l
  induction l with
  | nil => intro _ acc h; exact h
  | cons p ps ih =>
    intro hl acc hacc
    simp only [List.foldl_cons]
    apply ih (fun q hq => hl q (List.mem_cons_of_mem _ hq))
    apply Nat.or_lt_two_pow hacc
    obtain ⟨h1, h2⟩ := hl p (by simp)
    apply Nat.lt_of_le_of_lt (Nat.mod_le _ _)
    rw [Nat.shiftLeft_eq]
    have : p.1 * 2 ^ (p.2 * 8) < 2 ^ 8 * 2 ^ (p.2 * 8) := Nat.mul_lt_mul_of_pos_right h1 (Nat.two_pow_pos _)
    rw [← Nat.pow_add] at this
    exact Nat.lt_of_lt_of_le this (Nat.pow_le_pow_right (by decide) (by omega))

theorem asmU64_lt (arch : Nat) (b : List Nat) (hb : Bytes b) (hn : b.length ≤ 8) : asmU64 arch b < 2 ^ (8 * b.length) := by
  have key : ∀ (bs : List Nat), Bytes bs → bs.length = b.length →
      bs.zipIdx.foldl (fun acc (p : Nat × Nat) => acc ||| ((p.1 <<< (p.2 * 8)) % 2 ^ 64)) 0 < 2 ^ (8 * b.length) := by
    intro bs hbs hl
    apply foldOr_lt b.length hn _ _ 0 (Nat.two_pow_pos _)
    rintro ⟨x, i⟩ hp
    obtain ⟨h1, h2⟩ := List.mem_zipIdx' hp
    exact ⟨by rw [h2]; exact hbs _ (List.getElem_mem _), by omega⟩
  unfold asmU64
  simp only
  split
  · exact key b hb rfl
  · exact key b.reverse (fun x hx => hb x (List.mem_reverse.mp hx)) (by simp)


attribute [local simp] btEnum btSint8 btByte btUint8 btUint8z btSint16 btUint16 btUint16z btSint32 btUint32 btUint32z
  btSint64 btUint64 btUint64z btFloat32 btFloat64 btString

/-- the fallback value for an undersized field is ONE number of the field's base type -/
theorem convert_shape (b : List Nat) (arch bt : Nat) (ib : Bool) (hb : Bytes b) (hn : NumBt bt) (h0 : 0 < b.length)
    (hl : b.length < btSize bt) : ∃ x, convertBytesToValue b arch bt = scalarOf bt ib x ∧ x < 256 ^ btSize bt := by
  obtain ⟨t0, t1, t2, t3, t4, t5, t6, t7, t8, t9, t10, t11, t12, t13, t14, t15, t16⟩ := btSize_lits
  have hmod : ∀ k, asmU64 arch b % 2 ^ k < 2 ^ k := fun k => Nat.mod_lt _ (Nat.two_pow_pos k)
  rcases numBt_cases bt hn with h' | h' | h' | h' | h' | h' | h' | h' | h' | h' | h' | h' | h' | h' | h' | h' <;> subst h' <;>
    simp only [t0, t1, t2, t3, t4, t5, t6, t7, t8, t9, t10, t11, t12, t13, t14, t15, t16, btEnum, btSint8, btByte, btUint8, btUint8z,
      btSint16, btUint16, btUint16z, btSint32, btUint32, btUint32z, btSint64, btUint64, btUint64z, btFloat32, btFloat64] at hl <;>
    first
      | omega
      | (have ha := asmU64_lt arch b hb (by omega)
         have hp : (2 : Nat) ^ (8 * b.length) ≤ 2 ^ 56 := Nat.pow_le_pow_right (by decide) (by omega)
         have hp3 : b.length ≤ 3 → (2 : Nat) ^ (8 * b.length) ≤ 2 ^ 24 := fun h => Nat.pow_le_pow_right (by decide) (by omega)
         cases ib <;>
         simp [convertBytesToValue, scalarOf, t0, t1, t2, t3, t4, t5, t6, t7, t8, t9, t10, t11, t12, t13, t14, t15, t16] <;>
         first
           | exact hmod _
           | (have := hmod 16; omega)
           | (have := hmod 32; omega)
           | (have := natToF32_lt (asmU64 arch b) (Nat.lt_of_lt_of_le ha (hp3 (by omega))); omega)
           | (have := natToF64_lt (asmU64 arch b) (Nat.lt_of_lt_of_le ha hp); omega)
           | omega)

/-- a number of a base type two or more bytes wide, appended to no array (`valueAppend(proto.Value{}, v)`), is the array
of that one number -/
theorem valueAppend_scalarOf (bt : Nat) (ib : Bool) (x : Nat) (hn : NumBt bt) (h2 : 2 ≤ btSize bt) :
    valueAppend .invalid (scalarOf bt ib x) = sliceOf bt ib [x] := by
  obtain ⟨t0, t1, t2, t3, t4, t5, t6, t7, t8, t9, t10, t11, t12, t13, t14, t15, t16⟩ := btSize_lits
  rcases numBt_cases bt hn with h' | h' | h' | h' | h' | h' | h' | h' | h' | h' | h' | h' | h' | h' | h' | h' <;> subst h' <;>
    simp only [t0, t1, t2, t3, t4, t5, t6, t7, t8, t9, t10, t11, t12, t13, t14, t15, t16, btEnum, btSint8, btByte, btUint8, btUint8z,
      btSint16, btUint16, btUint16z, btSint32, btUint32, btUint32z, btSint64, btUint64, btUint64z, btFloat32, btFloat64] at h2 <;>
    first
      | omega
      | simp [scalarOf, sliceOf, valueAppend]

/-- the fallback value for an undersized field: ONE number of the field's base type, and for an array field (`wrap`) the
array of that one number -/
theorem undersized_shape (wrap : Bool) (b : List Nat) (arch bt : Nat) (ib : Bool) (hb : Bytes b) (hn : NumBt bt) (h0 : 0 < b.length)
    (hl : b.length < btSize bt) :
    ∃ x, undersizedValue wrap b arch bt = (if wrap = true then sliceOf bt ib [x] else scalarOf bt ib x) ∧ x < 256 ^ btSize bt := by
  obtain ⟨x, hx, hlt⟩ := convert_shape b arch bt ib hb hn h0 hl
  refine ⟨x, ?_, hlt⟩
  unfold undersizedValue
  simp only [hx]
  cases wrap with
  | false => simp
  | true => simp only [if_true]; exact valueAppend_scalarOf bt ib x hn (by omega)

/-! ### what a read of at least one element returns -/

/-- the value `UnmarshalValue` returns for `n` bytes (at least one element's worth) read under `(bt, isBool, arr)` -/
def ReadOK (n bt : Nat) (ib arr : Bool) (v : Value) : Prop :=
  (NumBt bt ∧ ((arr = true ∧ ∃ xs, v = sliceOf bt ib xs ∧ allLt (256 ^ btSize bt) xs = true ∧ xs ≠ [] ∧ xs.length = n / btSize bt) ∨
               (arr = false ∧ ∃ x, v = scalarOf bt ib x ∧ x < 256 ^ btSize bt))) ∨
  (bt = btString ∧ ((arr = true ∧ ∃ vs, v = .sliceString vs ∧ ∀ s ∈ vs, Good s ∧ s ≠ []) ∨
                    (arr = false ∧ ∃ s, v = .string s ∧ Good s)))

theorem ReadOK.fine {n bt : Nat} {ib arr : Bool} {v : Value} (h : ReadOK n bt ib arr v) : Fine bt ib arr v := by
  rcases h with ⟨hn, ⟨rfl, xs, rfl, hx, hne, _⟩ | ⟨rfl, x, rfl, hx⟩⟩ | ⟨rfl, ⟨rfl, vs, rfl, hg⟩ | ⟨rfl, s, rfl, hg⟩⟩
  · exact fine_sliceOf bt hn ib xs hx hne
  · exact fine_scalarOf bt hn ib x hx
  · exact fine_strings vs hg ib
  · exact fine_string s hg ib

/-- a successful read of `b` (at least one element long) under a base type -/
theorem unmarshal_readOK (b : List Nat) (arch bt : Nat) (ib arr : Bool) (v : Value) (hb : Bytes b)
    (hl : btSize bt ≤ b.length) (h0 : 0 < b.length) (h : unmarshal b arch bt ib arr = .ok v) : ReadOK b.length bt ib arr v := by
  have hv : btValid bt = true := by
    rcases unmarshal_cases b arch bt ib arr with ⟨_, h'⟩ | ⟨h', _⟩ | ⟨h', _⟩
    · rw [h'] at h; cases h
    · exact h'
    · exact h'
  by_cases hs : bt = btString
  · subst hs
    right
    obtain ⟨h1, h2⟩ := unmarshal_str_shape b arch ib arr v hb h
    refine ⟨rfl, ?_⟩
    cases arr with
    | true => obtain ⟨vs, hv, _, hg⟩ := h1 rfl; exact Or.inl ⟨rfl, vs, hv, hg⟩
    | false => exact Or.inr ⟨rfl, h2 rfl⟩
  · left
    have hn : NumBt bt := ⟨hv, hs⟩
    obtain ⟨h1, h2⟩ := unmarshal_num_shape b arch bt ib arr v hb hn h
    refine ⟨hn, ?_⟩
    cases arr with
    | true =>
      obtain ⟨xs, hx, hlen, hlt⟩ := h1 rfl
      refine Or.inl ⟨rfl, xs, hx, hlt, ?_, hlen⟩
      intro hnil
      rw [hnil] at hlen
      have hw := btSize_pos bt hv
      have : 0 < b.length / btSize bt := Nat.div_pos hl hw
      simp at hlen; omega
    | false => exact Or.inr ⟨rfl, h2 rfl⟩

theorem Res.bind_ok {α β} {r : Res α} {f : α → Res β} {y : β} (h : r.bind f = .ok y) : ∃ a, r = .ok a ∧ f a = .ok y := by
  cases r with
  | ok a => exact ⟨a, rfl, h⟩
  | err e => cases h
  | panic => cases h
  | hang => cases h

theorem valueOfBytes_ok {b : List Nat} {arch bt : Nat} {ib arr ovr : Bool} {v : Value}
    (h : valueOfBytes b arch bt ib arr ovr = .ok v) :
    unmarshal b arch bt ib (if ovr = true ∧ bt = btString then decide (strcount b > 1) else arr) = .ok v := by
  unfold valueOfBytes at h
  split at h
  · rename_i v' hv; cases h; exact hv
  · cases h
  · cases h

/-- the value a definition of non-zero size yields: the read, converted when the field is undersized (`wrap`: the converted
number is returned as an array of one element — `decodeFields` for an array field; `decodeDeveloperFields` never) -/
def readValueOf (wrap : Bool) (b : List Nat) (arch size bt : Nat) (ib arrF ovr : Bool) : Res Value :=
  (valueOfBytes b arch (readShape size bt ib arrF).1 (readShape size bt ib arrF).2.1 (readShape size bt ib arrF).2.2 ovr).bind fun v0 =>
    .ok (if (readShape size bt ib arrF).1 ≠ bt then undersizedValue wrap (sliceUint8Of v0) arch bt else v0)

theorem undersizedValue_false (b : List Nat) (arch bt : Nat) : undersizedValue false b arch bt = convertBytesToValue b arch bt := by
  simp [undersizedValue]

/-- the core of `decodeFields` / `decodeDeveloperFields` for one definition of non-zero size: either the field is
undersized and the value is ONE number of the base type (as an array of one element when `wrap`), or the value is a read of at least one element under the array
flag the decoder ends up with (`strcount` override for strings without profile entry) -/
theorem read_core (wrap : Bool) (b : List Nat) (arch size bt : Nat) (ib arrF ovr : Bool) (v : Value) (hb : Bytes b) (hlen : b.length = size)
    (hsz : size ≠ 0) (h : readValueOf wrap b arch size bt ib arrF ovr = .ok v) :
    (size < btSize bt ∧ NumBt bt ∧ ∃ x, v = (if wrap = true then sliceOf bt ib [x] else scalarOf bt ib x) ∧ x < 256 ^ btSize bt) ∨
    (btSize bt ≤ size ∧ ReadOK size bt ib (if ovr = true ∧ bt = btString then decide (strcount b > 1) else arrF) v) := by
  unfold readValueOf at h
  by_cases hu : size < btSize bt
  · left
    have hrs : readShape size bt ib arrF = (btUint8, false, true) := by simp [readShape, hu]
    have hbs : btSize bt ≠ 1 := by omega
    have hv : btValid bt = true := by simp [btValid]; omega
    have hs : bt ≠ btString := by
      intro h; subst h
      exact hbs (by decide +kernel)
    have hn : NumBt bt := ⟨hv, hs⟩
    have hne : btUint8 ≠ bt := by
      intro h; subst h
      exact hbs (by decide +kernel)
    rw [hrs] at h
    obtain ⟨v0, hval, h⟩ := Res.bind_ok h
    have hun := valueOfBytes_ok hval
    have hv0 : v0 = .sliceUint8 b := by
      have : ¬ (ovr = true ∧ btUint8 = btString) := by rintro ⟨_, h⟩; cases h
      rw [if_neg this] at hun
      simp [unmarshal] at hun
      exact hun.symm
    refine ⟨hu, hn, ?_⟩
    simp only [Res.ok.injEq] at h
    rw [if_pos hne, hv0] at h
    rw [← h]
    exact undersized_shape wrap b arch bt ib hb hn (by omega) (by omega)
  · right
    have hrs : readShape size bt ib arrF = (bt, ib, arrF) := by simp [readShape, hu]
    rw [hrs] at h
    obtain ⟨v0, hval, h⟩ := Res.bind_ok h
    have hun := valueOfBytes_ok hval
    simp only [Res.ok.injEq, ne_eq, not_true_eq_false, if_false] at h
    subst h
    refine ⟨by omega, ?_⟩
    have := unmarshal_readOK b arch bt ib _ v0 hb (by omega) (by omega) hun
    rw [hlen] at this
    exact this

/-! ### a decoded field -/

open Fit.Msg in
/-- the `FieldBase` a decoded field is handed back to the encoder with (`Fit.E2E.ofDecoded`) -/
def baseOf (d : DField) : FieldBase :=
  { num := d.num, baseType := d.bt, array := d.array, nameKnown := d.known, profileBool := d.isBool }

/-- base type, profile-bool flag and array flag under which the decoder will read the field when it is written again -/
def rd (fac : Factory) (m : Nat) (d : DField) : Nat × Bool × Bool := readAs fac m (baseOf d) d.value

/-- what the re-encoding direction needs of a decoded field -/
structure FieldGood (fac : Factory) (m : Nat) (d : DField) : Prop where
  num : d.num < 256
  nexp : d.expanded = false
  known : d.known = (fac.create m d.num).known
  flags : (fac.create m d.num).known = true →
    d.bt = (fac.create m d.num).bt ∧ d.isBool = (fac.create m d.num).isBool ∧ d.array = (fac.create m d.num).array
  wf : wf d.value = true
  nz : kfZeroV d.value = false
  nf : kfFFFDV d.value = false
  na : kfArrV (rd fac m d).1 (rd fac m d).2.1 (rd fac m d).2.2 d.value = false
  nv : kfPiecesF d = false →
    normalValue (rd fac m d).1 (rd fac m d).2.1 (rd fac m d).2.2 d.value = d.value
  /-- a field the factory reads as a plain one-byte number holds a `uint8` -/
  key : (fac.create m d.num).known = true → btSize (fac.create m d.num).bt = 1 → (fac.create m d.num).array = false →
    (fac.create m d.num).isBool = false → (fac.create m d.num).bt ≠ btSint8 → (fac.create m d.num).bt ≠ btString →
    ∃ x, d.value = .uint8 x
  /-- a field the factory knows as an array holds an array (also when its definition gives it fewer bytes than one element:
  the repair of KF-C01-undersized) -/
  shape : d.known = true → d.array = true → isSlice d.value = true

theorem sliceOf_isSlice (bt : Nat) (ib : Bool) (xs : List Nat) (hn : NumBt bt) : isSlice (sliceOf bt ib xs) = true := by
  rcases numBt_cases bt hn with h' | h' | h' | h' | h' | h' | h' | h' | h' | h' | h' | h' | h' | h' | h' | h' <;> subst h' <;>
    cases ib <;> simp [sliceOf, isSlice]

theorem scalarOf_not_slice (bt : Nat) (ib : Bool) (x : Nat) (hn : NumBt bt) : isSlice (scalarOf bt ib x) = false := by
  rcases numBt_cases bt hn with h' | h' | h' | h' | h' | h' | h' | h' | h' | h' | h' | h' | h' | h' | h' | h' <;> subst h' <;>
    cases ib <;> simp [scalarOf, mkBool_eq, isSlice]

theorem scalarOf_u8' (bt x : Nat) (hn : NumBt bt) (h1 : btSize bt = 1) (h2 : bt ≠ btSint8) : scalarOf bt false x = .uint8 x := by
  obtain ⟨t0, t1, t2, t3, t4, t5, t6, t7, t8, t9, t10, t11, t12, t13, t14, t15, t16⟩ := btSize_lits
  rcases numBt_cases bt hn with h' | h' | h' | h' | h' | h' | h' | h' | h' | h' | h' | h' | h' | h' | h' | h' <;> subst h' <;>
    simp [scalarOf] <;> simp_all

/-- a field the factory knows -/
theorem good_known (fac : Factory) (m num size : Nat) (bt : Nat) (ib arr : Bool) (v : Value) (hnum : num < 256) (hsz : size ≠ 0)
    (hk : (fac.create m num).known = true) (hbt : (fac.create m num).bt = bt) (hib : (fac.create m num).isBool = ib)
    (harr : (fac.create m num).array = arr)
    (hc : (size < btSize bt ∧ NumBt bt ∧ ∃ x, v = (if arr = true then sliceOf bt ib [x] else scalarOf bt ib x) ∧ x < 256 ^ btSize bt) ∨
      (btSize bt ≤ size ∧ ReadOK size bt ib arr v)) :
    FieldGood fac m ⟨num, bt, true, ib, arr, v, false⟩ := by
  have hrd : rd fac m ⟨num, bt, true, ib, arr, v, false⟩ = (bt, ib, arr) := by
    simp [rd, readAs, baseOf, hk, hbt, hib, harr]
  rcases hc with ⟨hu, hn, x, hx, hlt⟩ | ⟨_, hro⟩
  · -- undersized: one number — in an array field the array of that one number (what a whole element decodes as)
    have hfs : Fine bt ib arr v := by
      subst hx
      cases arr with
      | true => exact fine_sliceOf bt hn ib [x] (by simp [allLt, hlt]) (by simp)
      | false => exact fine_scalarOf bt hn ib x hlt
    refine ⟨hnum, rfl, hk.symm, fun _ => ⟨hbt.symm, hib.symm, harr.symm⟩, hfs.wf, hfs.nz, hfs.nf, ?_, ?_, ?_, ?_⟩
    · rw [hrd]; exact hfs.na
    · intro _; rw [hrd]; exact hfs.nv
    · intro _ h1 _ _ _ _
      have h1' : btSize (fac.create m num).bt = 1 := h1
      rw [hbt] at h1'
      omega
    · intro _ ha
      have ha' : arr = true := ha
      subst ha'
      show isSlice v = true
      rw [hx]; exact sliceOf_isSlice bt ib [x] hn
  · have hf := hro.fine
    refine ⟨hnum, rfl, hk.symm, fun _ => ⟨hbt.symm, hib.symm, harr.symm⟩, hf.wf, hf.nz, hf.nf, ?_, ?_, ?_, ?_⟩
    rotate_right
    · intro _ ha
      have ha' : arr = true := ha
      show isSlice v = true
      rcases hro with ⟨hn, ⟨_, xs, hv, _⟩ | ⟨har, _⟩⟩ | ⟨_, ⟨_, vs, hv, _⟩ | ⟨har, _⟩⟩
      · rw [hv]; exact sliceOf_isSlice bt ib xs hn
      · rw [ha'] at har; cases har
      · rw [hv]; rfl
      · rw [ha'] at har; cases har
    · rw [hrd]; exact hf.na
    · intro _; rw [hrd]; exact hf.nv
    · intro _ h1 ha hb' h2 h3
      rw [hbt] at h1 h2 h3
      rw [harr] at ha
      rw [hib] at hb'
      rcases hro with ⟨hn, ⟨har, _⟩ | ⟨_, x, hx, _⟩⟩ | ⟨hs, _⟩
      · rw [ha] at har; cases har
      · refine ⟨x, ?_⟩
        show v = Value.uint8 x
        rw [hx, hb']; exact scalarOf_u8' _ x hn h1 h2
      · exact absurd hs h3

/-- a field without profile entry: base type of the definition, array flag from the size (numbers) or from the count of
terminated non-empty segments (strings; `arrS`) -/
theorem good_unknown (fac : Factory) (m num size bt : Nat) (arrS : Bool) (v : Value) (hnum : num < 256)
    (hk : (fac.create m num).known = false) (hbt : btValid bt = true)
    (hc : (size < btSize bt ∧ NumBt bt ∧ ∃ x, v = scalarOf bt false x ∧ x < 256 ^ btSize bt) ∨
      (btSize bt ≤ size ∧ ReadOK size bt false
        (if bt = btString then arrS else decide (size > btSize bt ∧ size % btSize bt = 0)) v)) :
    FieldGood fac m ⟨num, bt, false, false, decide (size > btSize bt ∧ size % btSize bt = 0), v, false⟩ := by
  have hpb : decide (bt &&& baseTypeNumMask = profileBool) = false := numBt_notBool bt hbt
  have hrd : rd fac m ⟨num, bt, false, false, decide (size > btSize bt ∧ size % btSize bt = 0), v, false⟩ = (bt, false, inferArray bt v) := by
    simp [rd, readAs, baseOf, hk, hpb]
  have hkn : ∀ P : Prop, (fac.create m num).known = true → P := fun P hc => by rw [hk] at hc; cases hc
  -- what is needed once the array flag of the read and the re-inferred one are compared
  have fin : ∀ (arr : Bool), Fine bt false arr v → inferArray bt v = arr →
      FieldGood fac m ⟨num, bt, false, false, decide (size > btSize bt ∧ size % btSize bt = 0), v, false⟩ := by
    intro arr hf hia
    refine ⟨hnum, rfl, hk.symm, hkn _, hf.wf, hf.nz, hf.nf, ?_, ?_, hkn _, fun h => by cases h⟩
    · rw [hrd]; show kfArrV bt false (inferArray bt v) v = false; rw [hia]; exact hf.na
    · intro _; rw [hrd]; show normalValue bt false (inferArray bt v) v = v; rw [hia]; exact hf.nv
  rcases hc with ⟨hu, hn, x, hx, hlt⟩ | ⟨hge, hro⟩
  · subst hx
    exact fin false (fine_scalarOf bt hn false x hlt) (inferArray_scalarOf bt hn false x)
  · by_cases hs : bt = btString
    · subst hs
      simp only [if_true] at hro
      rcases hro with ⟨hn, _⟩ | ⟨_, ⟨harr, vs, hv, hg⟩ | ⟨harr, s0, hv, hg⟩⟩
      · exact absurd rfl hn.2
      · subst hv
        have hia := inferArray_strings vs hg
        by_cases h2 : 2 ≤ vs.length
        · exact fin true (fine_strings vs hg false) (by rw [hia]; simp [h2])
        · -- fewer than two strings survive: read back in scalar mode (class `kfPiecesF`)
          have hb := strings_basic vs hg false false (Or.inr (by omega))
          refine ⟨hnum, rfl, hk.symm, hkn _, hb.1, hb.2.1, hb.2.2.2, ?_, ?_, hkn _, fun h => by cases h⟩
          · rw [hrd]; show kfArrV btString false (inferArray btString (.sliceString vs)) (.sliceString vs) = false
            rw [hia]; simp only [h2, decide_false]; exact hb.2.2.1
          · intro hp
            exfalso
            simp [kfPiecesF, shortStrs] at hp
            omega
      · subst hv
        exact fin false (fine_string s0 hg false) (inferArray_string s0 hg)
    · have hn : NumBt bt := ⟨hbt, hs⟩
      have hw := btSize_pos bt hbt
      simp only [hs, if_false] at hro
      rcases hro with ⟨_, ⟨harr, xs, hv, hlt, hne, hlen⟩ | ⟨harr, x, hv, hlt⟩⟩ | ⟨hs', _⟩
      · subst hv
        refine fin true (fine_sliceOf bt hn false xs hlt hne) ?_
        rw [inferArray_sliceOf bt hn]
        simp only [decide_eq_true_eq] at harr ⊢
        rw [hlen]
        apply (Nat.le_div_iff_mul_le hw).mpr
        have := Nat.div_add_mod size (btSize bt)
        rw [harr.2] at this
        rcases Nat.lt_or_ge (size / btSize bt) 2 with h | h
        · have : btSize bt * (size / btSize bt) ≤ btSize bt * 1 := Nat.mul_le_mul_left _ (by omega)
          omega
        · have : btSize bt * 2 ≤ btSize bt * (size / btSize bt) := Nat.mul_le_mul_left _ h
          omega
      · subst hv
        exact fin false (fine_scalarOf bt hn false x hlt) (inferArray_scalarOf bt hn false x)
      · exact absurd hs' hs

theorem interpField_some (fac : Factory) (m arch : Nat) (fd : FieldDef) (b : List Nat) (d : DField)
    (h : interpField fac m arch fd b = .ok (some d)) :
    ∃ bt ib arrF ovr v, fieldShape (fac.create m fd.num) fd = .ok (bt, ib, arrF, ovr) ∧ fd.size ≠ 0 ∧
      readValueOf arrF b arch fd.size bt ib arrF ovr = .ok v ∧ d = ⟨fd.num, bt, (fac.create m fd.num).known, ib, arrF, v, false⟩ := by
  unfold interpField at h
  simp only at h
  obtain ⟨⟨bt, ib, arrF, ovr⟩, hsh, h⟩ := Res.bind_ok h
  have hsz : fd.size ≠ 0 := by
    intro h0; rw [if_pos h0] at h; cases h
  rw [if_neg hsz] at h
  obtain ⟨v0, hval, h⟩ := Res.bind_ok h
  simp only [Res.ok.injEq, Option.some.injEq] at h
  refine ⟨bt, ib, arrF, ovr, _, hsh, hsz, ?_, h.symm⟩
  unfold readValueOf
  simp only at hval
  rw [hval]
  rfl

/-- **every field `decodeFields` returns is good**, whatever the bytes: the field definition `fd` (number a byte, valid
base type) read from `b` -/
theorem interpField_good (fac : Factory) (m arch : Nat) (fd : FieldDef) (b : List Nat) (d : DField)
    (hb : Bytes b) (hlen : b.length = fd.size) (hnum : fd.num < 256) (hbt : btValid fd.bt = true)
    (h : interpField fac m arch fd b = .ok (some d)) : FieldGood fac m d := by
  obtain ⟨bt, ib, arrF, ovr, v, hsh, hsz, hrv, rfl⟩ := interpField_some fac m arch fd b d h
  have hcore := read_core arrF b arch fd.size bt ib arrF ovr v hb hlen hsz hrv
  cases hk : (fac.create m fd.num).known with
  | true =>
    rw [fieldShape_known _ fd hk] at hsh
    simp only [Res.ok.injEq, Prod.mk.injEq] at hsh
    obtain ⟨h1, h2, h3, h4⟩ := hsh
    subst h4
    simp only [Bool.false_eq_true, false_and, if_false] at hcore
    exact good_known fac m fd.num fd.size bt ib arrF v hnum hsz hk h1 h2 h3 hcore
  | false =>
    rw [fieldShape_unknown _ fd hk hbt] at hsh
    simp only [Res.ok.injEq, Prod.mk.injEq] at hsh
    obtain ⟨h1, h2, h3, h4⟩ := hsh
    subst h1
    have hpb : decide (fd.bt &&& baseTypeNumMask = profileBool) = false := numBt_notBool fd.bt hbt
    rw [hpb] at h2
    subst h2 h3 h4
    refine good_unknown fac m fd.num fd.size fd.bt (decide (strcount b > 1)) v hnum hk hbt ?_
    rcases hcore with ⟨hu, hn, x, hx, hlt⟩ | ⟨hge, hro⟩
    · -- the array flag of a field without profile entry is false when the size is below one element
      have hna : ¬ (fd.size > btSize fd.bt ∧ fd.size % btSize fd.bt = 0) := by omega
      simp only [hna, decide_false, Bool.false_eq_true, if_false] at hx
      exact Or.inl ⟨hu, hn, x, hx, hlt⟩
    · refine Or.inr ⟨hge, ?_⟩
      by_cases hs : fd.bt = btString
      · simpa [hs] using hro
      · have hs' : ¬ fd.bt = 7 := hs
        simpa [hs'] using hro

/-! ### a decoded developer field -/

/-- what the re-encoding direction needs of a decoded developer field: whatever field description the VALIDATOR resolves
for it, if the value aligns with that description's base type (which acceptance guarantees) it is fine under the flags the
decoder will read it with -/
structure DevGood (d : DDev) : Prop where
  num : d.num < 256
  idx : d.idx < 256
  wf : wf d.value = true
  nz : kfZeroV d.value = false
  nf : kfFFFDV d.value = false
  na : ∀ bt', align d.value bt' = true →
    kfArrV (devReadAs bt' d.value).1 (devReadAs bt' d.value).2.1 (devReadAs bt' d.value).2.2 d.value = false
  nv : ∀ bt', align d.value bt' = true → kfPiecesD d = false →
    normalValue (devReadAs bt' d.value).1 (devReadAs bt' d.value).2.1 (devReadAs bt' d.value).2.2 d.value = d.value

theorem devReadAs_num (bt' : Nat) (v : Value) (hn : NumBt bt') : devReadAs bt' v = (bt', false, inferArray bt' v) := by
  simp only [devReadAs, numBt_notBool bt' hn.1]

theorem devReadAs_str (v : Value) : devReadAs btString v = (btString, false, inferArray btString v) := by
  simp only [devReadAs]; congr 1

theorem dev_good (num idx size bt0 : Nat) (arrS : Bool) (v : Value) (hnum : num < 256) (hidx : idx < 256)
    (hbt : btValid bt0 = true)
    (hc : (size < btSize bt0 ∧ NumBt bt0 ∧ ∃ x, v = scalarOf bt0 false x ∧ x < 256 ^ btSize bt0) ∨
      (btSize bt0 ≤ size ∧ ReadOK size bt0 false
        (if bt0 = btString then arrS else decide (size > btSize bt0 ∧ size % btSize bt0 = 0)) v)) :
    DevGood ⟨num, idx, v⟩ := by
  -- one number
  have scal : ∀ x, NumBt bt0 → x < 256 ^ btSize bt0 → v = scalarOf bt0 false x → DevGood ⟨num, idx, v⟩ := by
    intro x hn hlt hv
    subst hv
    have hf := fine_scalarOf bt0 hn false x hlt
    refine ⟨hnum, hidx, hf.wf, hf.nz, hf.nf, ?_, ?_⟩
    · intro bt' hal
      obtain ⟨hn', hsz, he⟩ := scalarOf_align bt0 hn x bt' hal
      show kfArrV (devReadAs bt' (scalarOf bt0 false x)).1 _ _ (scalarOf bt0 false x) = false
      rw [devReadAs_num bt' _ hn', ← he, inferArray_scalarOf bt' hn']
      exact (fine_scalarOf bt' hn' false x (by rw [hsz]; exact hlt)).na
    · intro bt' hal _
      obtain ⟨hn', hsz, he⟩ := scalarOf_align bt0 hn x bt' hal
      show normalValue (devReadAs bt' (scalarOf bt0 false x)).1 _ _ (scalarOf bt0 false x) = _
      rw [devReadAs_num bt' _ hn', ← he, inferArray_scalarOf bt' hn']
      exact (fine_scalarOf bt' hn' false x (by rw [hsz]; exact hlt)).nv
  rcases hc with ⟨_, hn, x, hx, hlt⟩ | ⟨hge, hro⟩
  · exact scal x hn hlt hx
  · by_cases hs : bt0 = btString
    · subst hs
      simp only [if_true] at hro
      rcases hro with ⟨hn, _⟩ | ⟨_, ⟨harr, vs, hv, hg⟩ | ⟨harr, s0, hv, hg⟩⟩
      · exact absurd rfl hn.2
      · subst hv
        have hia := inferArray_strings vs hg
        have hb := strings_basic vs hg false (decide (2 ≤ vs.length)) (by
          by_cases h2 : 2 ≤ vs.length
          · exact Or.inl (by simp [h2])
          · exact Or.inr (by omega))
        refine ⟨hnum, hidx, hb.1, hb.2.1, hb.2.2.2, ?_, ?_⟩
        · intro bt' hal
          have : bt' = btString := by simpa [align] using hal
          subst this
          show kfArrV (devReadAs btString (.sliceString vs)).1 _ _ (.sliceString vs) = false
          rw [devReadAs_str, hia]; exact hb.2.2.1
        · intro bt' hal hp
          have : bt' = btString := by simpa [align] using hal
          subst this
          have h2 : 2 ≤ vs.length := by
            simp [kfPiecesD, shortStrs] at hp
            exact hp
          show normalValue (devReadAs btString (.sliceString vs)).1 _ _ (.sliceString vs) = _
          rw [devReadAs_str, hia]
          simp only [h2, decide_true]
          exact (fine_strings vs hg false).nv
      · subst hv
        have hf := fine_string s0 hg false
        have hia := inferArray_string s0 hg
        refine ⟨hnum, hidx, hf.wf, hf.nz, hf.nf, ?_, ?_⟩
        · intro bt' hal
          have : bt' = btString := by simpa [align] using hal
          subst this
          show kfArrV (devReadAs btString (.string s0)).1 _ _ (.string s0) = false
          rw [devReadAs_str, hia]; exact hf.na
        · intro bt' hal _
          have : bt' = btString := by simpa [align] using hal
          subst this
          show normalValue (devReadAs btString (.string s0)).1 _ _ (.string s0) = _
          rw [devReadAs_str, hia]; exact hf.nv
    · have hn : NumBt bt0 := ⟨hbt, hs⟩
      have hw := btSize_pos bt0 hbt
      simp only [hs, if_false] at hro
      rcases hro with ⟨_, ⟨harr, xs, hv, hlt, hne, hlen⟩ | ⟨harr, x, hv, hlt⟩⟩ | ⟨hs', _⟩
      · subst hv
        have h2 : 2 ≤ xs.length := by
          simp only [decide_eq_true_eq] at harr
          rw [hlen]
          apply (Nat.le_div_iff_mul_le hw).mpr
          have := Nat.div_add_mod size (btSize bt0)
          rw [harr.2] at this
          rcases Nat.lt_or_ge (size / btSize bt0) 2 with h | h
          · have : btSize bt0 * (size / btSize bt0) ≤ btSize bt0 * 1 := Nat.mul_le_mul_left _ (by omega)
            omega
          · have : btSize bt0 * 2 ≤ btSize bt0 * (size / btSize bt0) := Nat.mul_le_mul_left _ h
            omega
        have hf := fine_sliceOf bt0 hn false xs hlt hne
        refine ⟨hnum, hidx, hf.wf, hf.nz, hf.nf, ?_, ?_⟩
        · intro bt' hal
          obtain ⟨hn', hsz, he⟩ := sliceOf_align bt0 hn xs bt' hal
          show kfArrV (devReadAs bt' (sliceOf bt0 false xs)).1 _ _ (sliceOf bt0 false xs) = false
          rw [devReadAs_num bt' _ hn', ← he, inferArray_sliceOf bt' hn']
          simp only [h2, decide_true]
          exact (fine_sliceOf bt' hn' false xs (by rw [hsz]; exact hlt) hne).na
        · intro bt' hal _
          obtain ⟨hn', hsz, he⟩ := sliceOf_align bt0 hn xs bt' hal
          show normalValue (devReadAs bt' (sliceOf bt0 false xs)).1 _ _ (sliceOf bt0 false xs) = _
          rw [devReadAs_num bt' _ hn', ← he, inferArray_sliceOf bt' hn']
          simp only [h2, decide_true]
          exact (fine_sliceOf bt' hn' false xs (by rw [hsz]; exact hlt) hne).nv
      · exact scal x hn hlt hv
      · exact absurd hs' hs

/-- **every developer field `decodeDeveloperFields` returns is good**, whatever the bytes and whatever field description
it was read under -/
theorem interpDev_good (arch : Nat) (dd : DevDef) (fdsc : Desc) (b : List Nat) (d : DDev)
    (hb : Bytes b) (hlen : b.length = dd.size) (hnum : dd.num < 256) (hidx : dd.idx < 256)
    (h : interpDev arch dd fdsc b = .ok (some d)) : DevGood d := by
  unfold interpDev at h
  have hv : btValid fdsc.bt = true := by
    cases hvv : validBaseType fdsc.bt with
    | true => exact hvv
    | false => simp [hvv] at h
  have hvb : validBaseType fdsc.bt = true := hv
  simp only [hvb, Bool.not_true, Bool.false_eq_true, if_false] at h
  obtain ⟨arr, harr, h⟩ := Res.bind_ok h
  have hsz : dd.size ≠ 0 := by
    intro h0; rw [if_pos h0] at h; cases h
  rw [if_neg hsz] at h
  obtain ⟨v0, hval, h⟩ := Res.bind_ok h
  simp only [Res.ok.injEq, Option.some.injEq] at h
  have hw := btSize_pos fdsc.bt hv
  have harr' : arr = decide (dd.size > btSize fdsc.bt ∧ dd.size % btSize fdsc.bt = 0) := by
    by_cases hgt : dd.size > btSize fdsc.bt
    · simp only [hgt, if_true, modP, show ¬ btSize fdsc.bt = 0 from by omega, if_false, Res.bind, Res.ok.injEq] at harr
      rw [← harr]; simp [hgt]
    · simp only [hgt, if_false, Res.ok.injEq] at harr
      rw [← harr]; simp [hgt]
  have hpb : decide (fdsc.bt &&& baseTypeNumMask = profileBool) = false := numBt_notBool fdsc.bt hv
  rw [hpb] at hval h
  have hrv : readValueOf false b arch dd.size fdsc.bt false arr (decide (fdsc.bt = btString)) = .ok
      (if (readShape dd.size fdsc.bt false arr).1 ≠ fdsc.bt then convertBytesToValue (sliceUint8Of v0) arch fdsc.bt else v0) := by
    unfold readValueOf
    rw [hval]; simp only [undersizedValue_false]; rfl
  have hcore := read_core false b arch dd.size fdsc.bt false arr _ _ hb hlen hsz hrv
  simp only [Bool.false_eq_true, if_false] at hcore
  rw [← h]
  refine dev_good dd.num dd.idx dd.size fdsc.bt (decide (strcount b > 1)) _ hnum hidx hv ?_
  rcases hcore with hu | ⟨hge, hro⟩
  · exact Or.inl hu
  · refine Or.inr ⟨hge, ?_⟩
    rw [← harr']
    by_cases hs : fdsc.bt = btString
    · simpa [hs] using hro
    · have hs' : ¬ fdsc.bt = 7 := hs
      simpa [hs'] using hro

end Fit.E2E
