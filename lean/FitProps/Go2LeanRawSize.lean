import FitModel.Raw
import FitModel.Generated.Go_rawsize
import FitProps.Go2LeanLemmas
/-!
Agreement of the length bookkeeping of `(*RawDecoder).Decode` GENERATED from the current source of decoder/raw.go
(`FitModel/Generated/Go_rawsize.lean`: the statement runs around the `io.ReadFull` / callback calls, the conditions, the
data-size loop condition, the bounds of every slice expression of `d.BytesArray`) with the model `Fit.Raw.msgs` /
`Fit.Raw.decode` (FitModel/Raw.lean) the theorems of C16 are about.

`d.BytesArray` is the list of its cells; the model's segments `hb ++ b5 ++ fb ++ nb ++ db` are what the successive
`io.ReadFull` calls stored into its prefix.
-/
set_option linter.unusedSimpArgs false
namespace Fit.Go2Lean
open Fit.Raw Fit.Gen.Reader Go.rawsize

/-- the size loops `for i := 0; i < k*3; i += 3 { lenMesg += uint32(BytesArray[first+i+1]) }` of raw.go, as the translator
renders them (`first` = 6 for the fields, `devFieldFirstIndex` for the developer fields) -/
theorem raw_sizeLoop (pre fb rest : List Nat) (hfb : ∀ x ∈ fb, x < 256) (hpre : pre.length + fb.length < 65536) :
    ∀ (k a s : Nat), fb.length = 3 * (a + k) → s + 255 * k < 2^32 →
    forIn ((List.range' a k).map (fun j => 0 + j * 3)) s
      (fun i r => (pre ++ fb ++ rest)[(((pre.length + i) % 2^16) + 1) % 2^16]?.bind fun x =>
        some (ForInStep.yield ((r + x) % 2^32)))
    = some (s + sizeSum (fb.drop (3 * a))) := by
  intro k
  induction k with
  | zero =>
    intro a s h _
    have : fb.drop (3 * a) = [] := List.drop_eq_nil_of_le (by omega)
    simp [this, sizeSum]
  | succ k ih =>
    intro a s h hs
    have h0 : 3 * a + 2 < fb.length := by omega
    have hd : fb.drop (3 * a) = fb[3 * a] :: fb[3 * a + 1] :: fb[3 * a + 2] :: fb.drop (3 * (a + 1)) := by
      rw [show 3 * (a + 1) = 3 * a + 1 + 1 + 1 by omega]
      rw [← List.getElem_cons_drop (h := by omega), ← List.getElem_cons_drop (h := by omega), ← List.getElem_cons_drop (h := by omega)]
    have hx : fb[3 * a + 1] < 256 := hfb _ (List.getElem_mem _)
    have hi : (((pre.length + (0 + a * 3)) % 2^16) + 1) % 2^16 = pre.length + (3 * a + 1) := by omega
    have hget : (pre ++ fb ++ rest)[pre.length + (3 * a + 1)]? = some fb[3 * a + 1] := by
      rw [List.append_assoc, List.getElem?_append_right (by omega)]
      rw [show pre.length + (3 * a + 1) - pre.length = 3 * a + 1 by omega, List.getElem?_append_left (by omega)]
      exact List.getElem?_eq_getElem (by omega)
    rw [List.range'_succ, List.map_cons, List.forIn_cons]
    simp only [Go.idx, hi, hget, Option.bind_eq_bind, Option.bind_some, Option.pure_def]
    rw [show (s + fb[3 * a + 1]) % 2^32 = s + fb[3 * a + 1] by omega]
    rw [ih (a + 1) (s + fb[3 * a + 1]) (by omega) (by omega), hd]
    simp only [sizeSum]
    congr 1; omega

theorem stepN_zero_mul3 (n : Nat) : Go.stepN 0 (n * 3) 3 = (List.range' 0 n).map (fun j => 0 + j * 3) := by
  unfold Go.stepN
  rw [show (n * 3 - 0 + 3 - 1) / 3 = n by omega, List.range_eq_range']

/-- DEFINITION TIME, fields: after the `nFields*3` bytes of field definitions `fb` were read to `BytesArray[6:]`, the block
`lenMesgDef += nFields*3; lenMesg := 1; for … { lenMesg += size }` leaves `lenMesgDef = 6 + nFields*3` (the model's segment
length so far) and `lenMesg = 1 + sizeSum fb` (the model's table entry: header byte + the field sizes) -/
theorem raw_fieldSizes (pre fb rest : List Nat) (nFields : Nat) (hpre : pre.length = 6) (hfb : fb.length = nFields * 3)
    (hn : nFields < 256) (hb : ∀ x ∈ fb, x < 256) :
    Decode_fieldSizes (pre ++ fb ++ rest) 6 nFields = some ⟨6 + nFields * 3, 1 + sizeSum fb⟩ := by
  have h1 : (nFields * 3) % 2^16 = nFields * 3 := by omega
  have h2 : (6 + nFields * 3) % 2^16 = 6 + nFields * 3 := by omega
  have hl := raw_sizeLoop pre fb rest hb (by omega) nFields 0 1 (by omega) (by omega)
  simp only [hpre, Nat.mul_zero, List.drop_zero] at hl
  simp only [Decode_fieldSizes, h1, h2, stepN_zero_mul3, Go.idx, Option.bind_eq_bind, Option.pure_def, bind_pure_comp,
    Option.map_eq_map, Option.bind_some, hl]

/-- DEFINITION TIME, developer fields: the count byte `nb` at `BytesArray[lenMesgDef]` is `nDevFields`, the segment grows by one
byte, the developer field definitions start right after it -/
theorem raw_devCount (pre rest : List Nat) (nb : Nat) (hpre : pre.length < 65535) :
    Decode_devCount (pre ++ nb :: rest) pre.length = some ⟨pre.length + 1, nb, pre.length + 1⟩ := by
  have : (pre.length + 1) % 2^16 = pre.length + 1 := by omega
  simp [Decode_devCount, Go.idx, this]

/-- DEFINITION TIME, developer fields: after the `nDevFields*3` bytes `db` were read to `BytesArray[devFieldFirstIndex:]` the
block adds `nDevFields*3` to the segment length and the developer field sizes to the message length: with `raw_fieldSizes`
and `raw_devCount` the stored length is the model's `1 + sizeSum fb + sizeSum db`, the segment the model's
`6 + nFields*3 + 1 + nDev*3` bytes -/
theorem raw_devFieldSizes (pre db rest : List Nat) (nDev lenMesg : Nat) (hpre : pre.length ≤ 6 + 255 * 3 + 1) (hdb : db.length = nDev * 3)
    (hn : nDev < 256) (hb : ∀ x ∈ db, x < 256) (hl : lenMesg ≤ 1 + 255 * 255) :
    Decode_devFieldSizes (pre ++ db ++ rest) pre.length lenMesg pre.length nDev = some ⟨lenMesg + sizeSum db, pre.length + nDev * 3⟩ := by
  have h1 : (nDev * 3) % 2^16 = nDev * 3 := by omega
  have h2 : (pre.length + nDev * 3) % 2^16 = pre.length + nDev * 3 := by omega
  have hl := raw_sizeLoop pre db rest hb (by omega) nDev 0 lenMesg (by omega) (by omega)
  simp only [Nat.mul_zero, List.drop_zero] at hl
  simp only [Decode_devFieldSizes, h1, h2, stepN_zero_mul3, Go.idx, Option.bind_eq_bind, Option.pure_def, bind_pure_comp,
    Option.map_eq_map, Option.bind_some, hl]

theorem nat_beq_decide (a b : Nat) : (a == b) = decide (a = b) := by
  by_cases h : a = b <;> simp [h]

/-- the decisions of `Decode` on the header bytes are the model's: file header size 12 or 14; definition record (bit 6 set, bit 7
clear); developer data flag; "no definition" ⇔ stored length 0; the byte handed to `proto.LocalMesgNum` is the record header -/
theorem raw_conds :
    (∀ size : Nat, Decode_badHeaderSize size = decide (size ≠ 12 ∧ size ≠ 14)) ∧
    (∀ h < 256, ∀ rest : List Nat,
      Decode_headerSize (h :: rest) = some ⟨h⟩ ∧
      Decode_isDefinition (h :: rest) = some (decide (h &&& (mesgCompressedHeaderMask ||| mesgDefinitionMask) = mesgDefinitionMask)) ∧
      Decode_hasDevData (h :: rest) = some (decide (h &&& devDataMask = devDataMask)) ∧
      Decode_lookupHeader (h :: rest) = some h) ∧
    (∀ l : Nat, Decode_defMissing l = decide (l = 0)) := by
  refine ⟨?_, ?_, ?_⟩
  · intro size; simp [Decode_badHeaderSize, bne, nat_beq_decide]
  · intro h _ rest
    simp [Decode_headerSize, Decode_isDefinition, Decode_hasDevData, Decode_lookupHeader, Go.idxI,
      mesgCompressedHeaderMask, mesgDefinitionMask, devDataMask, nat_beq_decide]
    try (refine ⟨?_, ?_⟩ <;> congr)
  · intro l; simp [Decode_defMissing, nat_beq_decide]

/-- `nFields := uint16(d.BytesArray[5])` is the model's `(b5.drop 4).headD 0` (`b5` = the five bytes after the record header) -/
theorem raw_nFields (h : Nat) (b5 rest : List Nat) (hb : b5.length = 5) :
    Decode_nFields (h :: (b5 ++ rest)) = some ⟨(b5.drop 4).headD 0⟩ := by
  match b5, hb with
  | [a, b, c, d, e], _ => simp [Decode_nFields, Go.idxI]

/-- THE DATA-SIZE LOOP: `for uint32(n-pos) < fileHeaderDataSize` compares the bytes read since the file header, reduced to 32
bits, with the header's data size; below 4 GiB it is the model's `used < dataSize` -/
theorem raw_moreData (pos used dataSize : Nat) (h : pos + used < 2^62) :
    Decode_moreData dataSize ((pos + used : Nat) : Int) (pos : Int) = decide (used % 2^32 < dataSize) ∧
    (used < 2^32 → Decode_moreData dataSize ((pos + used : Nat) : Int) (pos : Int) = decide (used < dataSize)) := by
  have h1 : Go.wrapI 64 (((pos + used : Nat) : Int) - (pos : Int)) = (used : Int) := by unfold Go.wrapI; omega
  have h2 : Int.toNat ((used : Int) % 2^32) = used % 2^32 := by omega
  refine ⟨by simp only [Decode_moreData, h1, h2], fun hu => ?_⟩
  simp only [Decode_moreData, h1, h2, Nat.mod_eq_of_lt hu]

/-- the table `lenMesgs` (an array of 16 lengths) represents the model's association list: cell `i` holds `lens.get i` -/
def RawLensRep (arr : List Nat) (lens : Lens) : Prop := arr.length = 16 ∧ ∀ i < 16, arr[i]? = some (lens.get i)

/-- a new sequence starts with the empty table (`lenMesgs := [16]uint32{}` = the model's `[]`) -/
theorem raw_lensInit : RawLensRep Decode_lensInit.lenMesgs [] := by
  refine ⟨by simp [Decode_lensInit, id_run, id_pure, id_bind], ?_⟩
  decide

/-- storing: `localMesgNum := header & LocalMesgNumMask; lenMesgs[localMesgNum] = lenMesg` is the model's
`(h &&& localMesgNumMask, lenMesg) :: lens` -/
theorem raw_store (arr : List Nat) (lens : Lens) (h v : Nat) (rest : List Nat) (hr : RawLensRep arr lens) :
    ∃ out, Decode_store (h :: rest) v arr = some out ∧ out.localMesgNum = h &&& localMesgNumMask ∧
      RawLensRep out.lenMesgs ((h &&& localMesgNumMask, v) :: lens) := by
  have hk : h &&& 15 < 16 := Nat.lt_of_le_of_lt Nat.and_le_right (by decide)
  have e : 15 &&& h = h &&& 15 := Nat.and_comm _ _
  refine ⟨⟨arr.set (h &&& 15) v, h &&& 15⟩, ?_, rfl, ?_, ?_⟩
  · simp [Decode_store, Go.idxI, Go.setIdx, hr.1, hk, e]
  · simp [hr.1]
  · intro i hi
    simp only [localMesgNumMask, Lens.get, List.find?_cons]
    by_cases hik : h &&& 15 = i
    · subst hik; simp [List.getElem?_set, hr.1, hk]
    · have : ((h &&& 15) == i) = false := by simp [hik]
      rw [List.getElem?_set_ne hik, hr.2 i hi]
      simp [this, Lens.get]

/-- looking up: `lenMesg := lenMesgs[localMesgNum]` is the model's `lens.get` for every local message number -/
theorem raw_lookup (arr : List Nat) (lens : Lens) (i : Nat) (hi : i < 16) (hr : RawLensRep arr lens) :
    Decode_lookup arr i = some ⟨lens.get i⟩ := by
  simp [Decode_lookup, Go.idx, hr.2 i hi]

/-- HOW MANY BYTES EACH `io.ReadFull` ASKS FOR, AND WHICH BYTES THE CALLBACK SEES (the bounds of the fifteen slice expressions
of `d.BytesArray`, in source order) — the request sizes and segment lengths of the model `Fit.Raw.decode` / `Fit.Raw.msgs`:
1 byte (header size); `size - 1` more; the data type at `[8:12]` (= `(b.drop 7).take 4` of the bytes after the first) and the
data size at `[4:8]` (= `b.drop 3`); the header segment `[:size]`; 1 byte (record header); 5 more (`[1:6]`); `nFields*3` at
`[lenMesgDef:]`; 1 (developer field count); `nDev*3`; the definition segment `[:lenMesgDef]`; the payload `[1:lenMesg]`
(`hi - lo = lenMesg - 1` bytes) and the data segment `[:lenMesg]`; 2 bytes of CRC and the CRC segment -/
theorem raw_reads (size lenMesgDef nFields first nDev lenMesg : Nat) (hd : lenMesgDef ≤ 6 + 255 * 3 + 1) (hf : first ≤ 6 + 255 * 3 + 1)
    (hn : nFields < 256) (hv : nDev < 256) :
    Decode_s1_hi = 1 ∧ Decode_s2_lo = 1 ∧ Decode_s2_hi size = size ∧
    Decode_s3_lo = 7 + 1 ∧ Decode_s3_hi = 7 + 1 + 4 ∧ Decode_s4_lo = 3 + 1 ∧ Decode_s4_hi = 3 + 1 + 4 ∧
    Decode_s5_hi size = size ∧ Decode_s6_hi = 1 ∧ Decode_s7_lo = 1 ∧ Decode_s7_hi = 1 + 5 ∧
    Decode_s8_lo lenMesgDef = lenMesgDef ∧ Decode_s8_hi lenMesgDef nFields = lenMesgDef + nFields * 3 ∧
    Decode_s9_lo lenMesgDef = lenMesgDef ∧ Decode_s9_hi lenMesgDef = lenMesgDef + 1 ∧
    Decode_s10_lo first = first ∧ Decode_s10_hi first nDev = first + nDev * 3 ∧
    Decode_s11_hi lenMesgDef = lenMesgDef ∧
    Decode_s12_lo = 1 ∧ Decode_s12_hi lenMesg = lenMesg ∧
    Decode_s13_hi lenMesg = lenMesg ∧
    Decode_s14_hi = 2 ∧ Decode_s15_hi = 2 := by
  have h1 : (nFields * 3) % 2^16 = nFields * 3 := by omega
  have h2 : (nDev * 3) % 2^16 = nDev * 3 := by omega
  simp only [Decode_s1_hi, Decode_s2_lo, Decode_s2_hi, Decode_s3_lo, Decode_s3_hi, Decode_s4_lo, Decode_s4_hi, Decode_s5_hi,
    Decode_s6_hi, Decode_s7_lo, Decode_s7_hi, Decode_s8_lo, Decode_s8_hi, Decode_s9_lo, Decode_s9_hi, Decode_s10_lo, Decode_s10_hi,
    Decode_s11_hi, Decode_s12_lo, Decode_s12_hi, Decode_s13_hi, Decode_s14_hi, Decode_s15_hi, h1, h2]
  repeat' constructor
  all_goals omega

/-- the byte count: after each of the nine `io.ReadFull` calls `n += int64(nr)` adds what was read (the model's `used` and the
`n` that `Decode` returns); `seq++` after the CRC segment (the model's `seqs + 1`) -/
theorem raw_count (n nr : Nat) (h : n + nr < 2^62) :
    (Decode_count1 n nr).n = ((n + nr : Nat) : Int) ∧ (Decode_count2 n nr).n = ((n + nr : Nat) : Int) ∧
    (Decode_count3 n nr).n = ((n + nr : Nat) : Int) ∧ (Decode_count4 n nr).n = ((n + nr : Nat) : Int) ∧
    (Decode_count5 n nr).n = ((n + nr : Nat) : Int) ∧ (Decode_count6 n nr).n = ((n + nr : Nat) : Int) ∧
    (Decode_count7 n nr).n = ((n + nr : Nat) : Int) ∧ (Decode_count8 n nr).n = ((n + nr : Nat) : Int) ∧
    (Decode_count9 n nr).n = ((n + nr : Nat) : Int) ∧ (Decode_nextSeq n).seq = ((n + 1 : Nat) : Int) := by
  have h1 : Go.wrapI 64 ((n : Int) + (nr : Int)) = ((n + nr : Nat) : Int) := by unfold Go.wrapI; omega
  have h2 : Go.wrapI 64 ((n : Int) + 1) = ((n + 1 : Nat) : Int) := by unfold Go.wrapI; omega
  simp only [Decode_count1, Decode_count2, Decode_count3, Decode_count4, Decode_count5, Decode_count6, Decode_count7,
    Decode_count8, Decode_count9, Decode_nextSeq, id_run, id_pure, id_bind, h1, h2, and_self]

end Fit.Go2Lean
