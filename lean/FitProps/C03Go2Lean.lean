import FitProps.Go2LeanBasetype
import FitProps.Go2LeanDecoderSize
/-!
# C03 — tie of the base-type facts to the source by translation

The model of C03 reads the declared size / validity of a base type through `Fit.Value.btSize` / `btValid`. These are
what `BaseType.Size()` / `Valid()`, translated from the CURRENT source of profile/basetype/basetype.go on every run
(`FitModel/Generated/Go_basetype.lean`), compute — for every byte, without panic.

PROPERTY THEOREMS (audited by ./check): C03_go2lean_size, C03_go2lean_valid, C03_go2lean_unknownShape, C03_go2lean_devShape,
C03_go2lean_devField_shape, C03_go2lean_readN_cur, C03_go2lean_more, C03_go2lean_sizeZero, C03_go2lean_devSizeZero,
C03_go2lean_header_badSize

The size arithmetic of decoder/decoder.go (unit `decodersize`, `FitModel/Generated/Go_decodersize.lean`: statement blocks and
conditions selected by function + assigned variable) is the decoder model's: see the `C03_go2lean_*` theorems below.
-/
namespace Fit.C03
open Fit.Value Fit.Go2Lean Fit.DecApi Fit.Gen Fit.Gen.DecApi

theorem C03_go2lean_size : ∀ t < 256, Go.basetype.BaseType.Size t = some (btSize t) := bt_size
theorem C03_go2lean_valid : ∀ t < 256, Go.basetype.BaseType.Valid t = some (btValid t) := bt_valid

/-- a field the profile does not know: base type and profile type from the definition, array iff the size is a proper multiple
of the base type's size, strings decide by counting terminators — the translated block is `fieldShape` (its `none` = the
model's panic, `% 0` for a base type of size 0), whatever the overwritten variables held -/
theorem C03_go2lean_unknownShape (info : FieldInfo) (fd : FieldDef) (hk : info.known = false) (hbt : fd.bt < 256)
    (a : Bool) (b c : Nat) (d : Bool) :
    fieldShape info fd = (match Go.decodersize.decodeFields_unknownShape a b c fd.bt fd.size d with
      | none => .panic
      | some o => .ok (o.field_BaseType, decide (o.field_Type = profileBool), o.field_Array, o.overrideStringArray)) :=
  ds_unknownShape info fd hk hbt a b c d

/-- a developer field: the same inference from the base type of its field description -/
theorem C03_go2lean_devShape (info : FieldInfo) (hk : info.known = false) (dd : DevDef) (fdsc : Desc) (hbt : fdsc.bt < 256) :
    fieldShape info ⟨dd.num, dd.size, fdsc.bt⟩ = (match Go.decodersize.decodeDeveloperFields_shape dd.size fdsc.bt with
      | none => .panic
      | some o => .ok (o.baseType, decide (o.profileType = profileBool), o.isArray, decide (fdsc.bt = btString))) :=
  ds_devShape info hk dd fdsc hbt

/-- … and that is what the model's `decodeDevField` does with it -/
theorem C03_go2lean_devField_shape (d : MesgDef) (dd : DevDef) (fdsc : Desc) (s : St) (info : FieldInfo) (hk : info.known = false) :
    decodeDevField d dd fdsc s =
      (if !validBaseType fdsc.bt then .err .baseType else do
        let (bt, isBoolF, arr, ovr) ← fieldShape info ⟨dd.num, dd.size, fdsc.bt⟩
        if dd.size = 0 then pure (none, s) else
        let rs := readShape dd.size bt isBoolF arr
        let (v, s) ← readValue dd.size d.arch rs.1 rs.2.1 rs.2.2 ovr s
        let v := if rs.1 ≠ bt then convertBytesToValue (sliceUint8Of v) d.arch bt else v
        pure (some ⟨dd.num, dd.idx, v⟩, s)) := ds_devField_shape d dd fdsc s info hk

/-- `readN`: `d.cur` (uint32) advances by the number of bytes read, as in the model -/
theorem C03_go2lean_readN_cur (k : Nat) (hk : k < 2 ^ 31) (s : St) (b : List Nat) (s' : St) (dn : Int)
    (h : readN k s = .ok (b, s')) : s'.q.cur = (Go.decodersize.readN_counters s.q.cur dn (k : Int)).d_cur :=
  ds_readN_cur k hk s b s' dn h

/-- the test of the message loop, `d.cur < d.fileHeader.DataSize`, is the model's -/
theorem C03_go2lean_more (fuel : Nat) (s : St) :
    (Go.decodersize.decodeMessages_more s.q.cur s.q.hdr.dataSize = false → decodeMessages (fuel + 1) s = (s, [], .ok ())) ∧
    (Go.decodersize.decodeMessages_more s.q.cur s.q.hdr.dataSize = true → decodeMessages 0 s = (s, [], .hang)) := ds_more fuel s

theorem C03_go2lean_sizeZero (d : MesgDef) (fd : FieldDef) (s : St) (sh : Nat × Bool × Bool × Bool)
    (hs : fieldShape (s.o.fac.create d.mesgNum fd.num) fd = .ok sh)
    (hz : Go.decodersize.decodeFields_sizeZero fd.size = true) : decodeField d fd s = .ok (none, s) := ds_sizeZero d fd s sh hs hz

theorem C03_go2lean_devSizeZero (d : MesgDef) (dd : DevDef) (fdsc : Desc) (s : St) (hv : validBaseType fdsc.bt = true)
    (hbt : btSize fdsc.bt ≠ 0)
    (hz : Go.decodersize.decodeDeveloperFields_sizeZero dd.size = true) : decodeDevField d dd fdsc s = .ok (none, s) :=
  ds_devSizeZero d dd fdsc s hv hbt hz

theorem C03_go2lean_header_badSize (s s1 : St) (size : Nat) (h : rawRead 1 s = .ok ([size], s1))
    (hb : Go.decodersize.decodeFileHeader_badSize size = true) : decodeFileHeader s = .err .notFit :=
  ds_header_badSize s s1 size h hb

/-- non-vacuity: an unknown uint16 field of 6 bytes is an array of the definition's base type; of 5 bytes it is not -/
example : (Go.decodersize.decodeFields_unknownShape false 0 0 0x84 6 false).map (fun o => (o.field_Array, o.field_BaseType, o.field_Type)) = some (true, 0x84, 4) ∧
    (Go.decodersize.decodeFields_unknownShape false 0 0 0x84 5 false).map (·.field_Array) = some false ∧
    (Go.decodersize.decodeFields_unknownShape false 0 0 0x33 5 false).isNone := by decide

end Fit.C03
