import FitProps.Go2LeanBasetype
/-!
# C03 — tie of the base-type facts to the source by translation

The model of C03 reads the declared size / validity of a base type through `Fit.Value.btSize` / `btValid`. These are
what `BaseType.Size()` / `Valid()`, translated from the CURRENT source of profile/basetype/basetype.go on every run
(`FitModel/Generated/Go_basetype.lean`), compute — for every byte, without panic.

PROPERTY THEOREMS (audited by ./check): C03_go2lean_size, C03_go2lean_valid
-/
namespace Fit.C03
open Fit.Value Fit.Go2Lean

theorem C03_go2lean_size : ∀ t < 256, Go.basetype.BaseType.Size t = some (btSize t) := bt_size
theorem C03_go2lean_valid : ∀ t < 256, Go.basetype.BaseType.Valid t = some (btValid t) := bt_valid

end Fit.C03
