import FitModel.Writer
import FitProps.WireLemmas
/-!
Helper lemmas about the writer model (`FitModel/Writer.lean`), part 1: the write buffer.

`Appended F w p w' ok` is the contract of everything that appends through the writer while the destination is
positioned at its end — under ANY fault schedule `F`: what the writer has accepted (`acc` = destination content
followed by the buffered bytes) is a prefix of the old `acc ++ p`, the destination only grew, it is all of `p` when
the call reported success, success keeps the log free of failed operations, and a healthy destination gives success.
-/
namespace Fit.Writer
open Fit.Wire Fit.Crc

theorem hdrBytesFrom_zero (h : Hdr) (ds : Nat) : hdrBytesFrom 0 h ds = hdrBytes h ds := rfl

theorem encodeMsg_parts (o : Opts) (s : EncState) (m : WMsg) :
    encodeMsg o s m = ((encodeMsgParts o s m).1,
      (match (encodeMsgParts o s m).2.1 with | some db => db | none => []) ++ (encodeMsgParts o s m).2.2) := by
  unfold encodeMsg encodeMsgParts
  generalize (if o.compress = true then compressTs o.arch s.tsRef s.tsLast m else (s.tsRef, s.tsLast, none)) = p
  obtain ⟨tsRef', tsLast', off⟩ := p
  cases off with
  | none =>
    simp only
    generalize s.lru.put (defBytes o.arch m) = q
    obtain ⟨l, i, isNew⟩ := q
    cases isNew <;> rfl
  | some t =>
    simp only
    generalize s.lru.put (defBytes o.arch { num := m.num, fields := removeFirst tsFieldNum m.fields, devs := m.devs }) = q
    obtain ⟨l, i, isNew⟩ := q
    cases isNew <;> rfl

theorem overwrite_end (c p : Bytes) : overwrite c c.length p = c ++ p := by
  simp [overwrite]

/-- everything the writer has accepted: what reached the destination followed by what is still buffered -/
def W.acc (w : W) : Bytes := w.d.content ++ w.buf

structure W.Clean (w : W) : Prop where
  log : ∀ op ∈ w.d.log, op.ok = true
  berr : w.berr = false

structure W.Good (w : W) : Prop where
  atEnd : w.d.pos = w.d.content.length
  unbuf : w.size = 0 → w.buf = []

theorem Dest.write_atEnd (F : Faults) (d : Dest) (p : Bytes) (h : d.pos = d.content.length) :
    (d.write F p).1.pos = (d.write F p).1.content.length ∧
    (d.write F p).1.content = d.content ++ p.take (d.write F p).2.1 ∧
    ((d.write F p).2.2 = true → (d.write F p).2.1 = p.length) ∧
    (d.write F p).1.log = .write p (d.write F p).2.1 (d.write F p).2.2 :: d.log ∧
    ((d.write F p).2.2 = true ↔ F d.log.length = none) := by
  unfold Dest.write
  cases hF : F d.log.length with
  | none => simp [h, overwrite_end]
  | some j => simp [h, overwrite_end]

structure Appended (F : Faults) (w : W) (p : Bytes) (w' : W) (ok : Bool) : Prop where
  good : w'.Good
  kind : w'.kind = w.kind
  size : w'.size = w.size
  grow : w.d.content <+: w'.d.content
  pref : w'.acc <+: w.acc ++ p
  full : ok = true → w'.acc = w.acc ++ p
  clean : w.Clean → ok = true → w'.Clean
  live : F = noFault → w.Clean → ok = true

theorem Appended.refl (F : Faults) (w : W) (hg : w.Good) : Appended F w [] w true :=
  ⟨hg, rfl, rfl, List.prefix_refl _, by simp, by simp, fun h _ => h, fun _ _ => rfl⟩

theorem Appended.trans {F : Faults} {w w1 w2 : W} {p q : Bytes} {ok : Bool}
    (h1 : Appended F w p w1 true) (h2 : Appended F w1 q w2 ok) : Appended F w (p ++ q) w2 ok := by
  refine ⟨h2.good, h2.kind.trans h1.kind, h2.size.trans h1.size, h1.grow.trans h2.grow, ?_, ?_, ?_, ?_⟩
  · have := h2.pref; rw [h1.full rfl] at this; simpa [List.append_assoc] using this
  · intro hok; rw [h2.full hok, h1.full rfl, List.append_assoc]
  · intro hc hok; exact h2.clean (h1.clean hc rfl) hok
  · intro hF hc; exact h2.live hF (h1.clean hc rfl)

theorem Appended.fail_mono {F : Faults} {w w1 : W} {p : Bytes} (q : Bytes)
    (h1 : Appended F w p w1 false) : Appended F w (p ++ q) w1 false := by
  refine ⟨h1.good, h1.kind, h1.size, h1.grow, ?_, ?_, ?_, ?_⟩
  · exact h1.pref.trans (by rw [← List.append_assoc]; exact List.prefix_append _ _)
  · intro h; cases h
  · intro _ h; cases h
  · intro hF hc; exact h1.live hF hc

/-- a write that goes straight to the destination while nothing is buffered -/
theorem Appended.direct (F : Faults) (w : W) (p : Bytes) (hg : w.Good) (hb : w.buf = []) (e : Bool)
    (he : w.Clean → (w.d.write F p).2.2 = true → e = false) :
    Appended F w p { w with d := (w.d.write F p).1, berr := e } (w.d.write F p).2.2 := by
  obtain ⟨h1, h2, h3, h4, h5⟩ := Dest.write_atEnd F w.d p hg.atEnd
  refine ⟨⟨h1, fun hs => ?_⟩, rfl, rfl, ?_, ?_, ?_, ?_, ?_⟩
  · exact hg.unbuf hs
  · simp only [h2]; exact List.prefix_append _ _
  · simp only [W.acc, h2, hb, List.append_nil]
    exact (List.prefix_append_right_inj _).mpr (List.take_prefix _ _)
  · intro hok
    simp only [W.acc, h2, hb, List.append_nil, h3 hok, List.take_length]
  · intro hc hok
    refine ⟨?_, ?_⟩
    · intro op hop
      simp only [h4, List.mem_cons] at hop
      rcases hop with rfl | hop
      · simpa [DOp.ok] using hok
      · exact hc.log op hop
    · simpa using he hc hok
  · intro hF hc
    rw [h5, hF]; rfl

/-- bytes that only go into the buffer -/
theorem Appended.buffered (F : Faults) (w : W) (q : Bytes) (hg : w.Good) (hs : w.size ≠ 0) :
    Appended F w q { w with buf := w.buf ++ q } true :=
  ⟨⟨hg.atEnd, fun h => absurd h hs⟩, rfl, rfl, List.prefix_refl _, by simp [W.acc], by simp [W.acc],
    fun hc _ => ⟨hc.log, hc.berr⟩, fun _ _ => rfl⟩

theorem bflush_appended (F : Faults) (w : W) (hg : w.Good) :
    Appended F w [] (w.bflush F).1 (w.bflush F).2 ∧ ((w.bflush F).2 = true → (w.bflush F).1.buf = []) := by
  unfold W.bflush
  by_cases hbe : w.berr = true
  · rw [if_pos hbe]
    refine ⟨⟨hg, rfl, rfl, List.prefix_refl _, by simp, by simp, by simp, ?_⟩, by simp⟩
    intro _ hc; rw [hc.berr] at hbe; cases hbe
  · rw [if_neg hbe]
    by_cases hemp : w.buf.isEmpty = true
    · rw [if_pos hemp]
      exact ⟨Appended.refl F w hg, fun _ => by simpa using hemp⟩
    · rw [if_neg hemp]
      obtain ⟨h1, h2, h3, h4, h5⟩ := Dest.write_atEnd F w.d w.buf hg.atEnd
      have hsz : w.size ≠ 0 := fun h => by simp [hg.unbuf h] at hemp
      by_cases hok : (w.d.write F w.buf).2.2 = true
      · rw [if_pos hok]
        refine ⟨⟨⟨h1, fun h => absurd h hsz⟩, rfl, rfl, ?_, ?_, ?_, ?_, fun _ _ => rfl⟩, fun _ => rfl⟩
        · simp only [h2]; exact List.prefix_append _ _
        · simp [W.acc, h2, h3 hok]
        · simp [W.acc, h2, h3 hok]
        · intro hc _
          refine ⟨?_, hc.berr⟩
          intro op hop
          simp only [h4, List.mem_cons] at hop
          rcases hop with rfl | hop
          · simpa [DOp.ok] using hok
          · exact hc.log op hop
      · rw [if_neg hok]
        refine ⟨⟨⟨h1, fun h => absurd h hsz⟩, rfl, rfl, ?_, ?_, by simp, by simp, ?_⟩, by simp⟩
        · simp only [h2]; exact List.prefix_append _ _
        · simp [W.acc, h2, List.append_assoc]
        · intro hF hc
          exact absurd (h5.mpr (by rw [hF]; rfl)) hok

theorem writeRest_appended (F : Faults) (w : W) (p : Bytes) (n : Nat) (hs : w.size ≠ 0) (f : W × Bool)
    (h01 : Appended F w (p.take n) f.1 f.2) (hbuf : f.2 = true → f.1.buf = []) :
    Appended F w p (W.writeRest F w.size n p.length (p.drop n) f).1 (W.writeRest F w.size n p.length (p.drop n) f).2.2 := by
  obtain ⟨w2, fok⟩ := f
  unfold W.writeRest
  cases fok with
  | true =>
    simp only at h01
    rw [if_neg (by simp)]
    have hb2 : w2.buf = [] := by simpa using hbuf
    by_cases hfit2 : (p.drop n).length ≤ w.size
    · rw [if_pos hfit2]
      have hsz1 : w2.size ≠ 0 := by rw [h01.size]; exact hs
      have := h01.trans (Appended.buffered F w2 (p.drop n) h01.good hsz1)
      rw [List.take_append_drop, hb2, List.nil_append] at this
      exact this
    · rw [if_neg hfit2]
      have hd := Appended.direct F w2 (p.drop n) h01.good hb2 (!(w2.d.write F (p.drop n)).2.2) (fun _ h => by simp [h])
      have := h01.trans hd
      rw [List.take_append_drop] at this
      exact this
  | false =>
    simp only at h01
    rw [if_pos (by simp)]
    have := h01.fail_mono (p.drop n)
    rw [List.take_append_drop] at this
    exact this

theorem write_appended (F : Faults) (w : W) (p : Bytes) (hg : w.Good) :
    Appended F w p (w.write F p).1 (w.write F p).2.2 := by
  unfold W.write
  by_cases hs : w.size = 0
  · rw [if_pos hs]
    exact Appended.direct F w p hg (hg.unbuf hs) w.berr (fun hc _ => hc.berr)
  · rw [if_neg hs]
    by_cases hbe : w.berr = true
    · rw [if_pos hbe]
      refine ⟨hg, rfl, rfl, List.prefix_refl _, List.prefix_append _ _, by simp, by simp, ?_⟩
      intro _ hc; rw [hc.berr] at hbe; cases hbe
    · rw [if_neg hbe]
      by_cases hfit : p.length ≤ w.size - w.buf.length
      · rw [if_pos hfit]
        exact Appended.buffered F w p hg hs
      · rw [if_neg hfit]
        by_cases hemp : w.buf.isEmpty = true
        · rw [if_pos hemp]
          have hb : w.buf = [] := by simpa using hemp
          exact Appended.direct F w p hg hb _ (fun _ h => by simp [h])
        · rw [if_neg hemp]
          have hfill := Appended.buffered F w (p.take (w.size - w.buf.length)) hg hs
          obtain ⟨hfl, hflbuf⟩ := bflush_appended F _ hfill.good
          apply writeRest_appended F w p _ hs _ _ hflbuf
          cases hfok : (W.bflush F { w with buf := w.buf ++ p.take (w.size - w.buf.length) }).2 with
          | true =>
            rw [hfok] at hfl
            have := hfill.trans hfl; simpa using this
          | false =>
            rw [hfok] at hfl
            refine ⟨hfl.good, hfl.kind.trans hfill.kind, hfl.size.trans hfill.size, hfill.grow.trans hfl.grow, ?_, by simp, by simp, ?_⟩
            · have := hfl.pref; rw [hfill.full rfl] at this; simpa using this
            · intro hF hc; exact hfl.live hF (hfill.clean hc rfl)

theorem flush_appended (F : Faults) (w : W) (hg : w.Good) :
    Appended F w [] (w.flush F).1 (w.flush F).2 ∧ ((w.flush F).2 = true → (w.flush F).1.buf = []) := by
  unfold W.flush
  by_cases hs : w.size = 0
  · rw [if_pos hs]; exact ⟨Appended.refl F w hg, fun _ => hg.unbuf hs⟩
  · rw [if_neg hs]; exact bflush_appended F w hg

theorem writeRest_n (F : Faults) (size n : Nat) (p : Bytes) (f : W × Bool) (hn : n ≤ p.length)
    (hend : f.1.d.pos = f.1.d.content.length)
    (hok : (W.writeRest F size n p.length (p.drop n) f).2.2 = true) :
    (W.writeRest F size n p.length (p.drop n) f).2.1 = p.length := by
  obtain ⟨w2, fok⟩ := f
  unfold W.writeRest at hok ⊢
  cases fok with
  | false => simp at hok
  | true =>
    rw [if_neg (by simp)] at hok ⊢
    by_cases hfit2 : (p.drop n).length ≤ size
    · rw [if_pos hfit2]
    · rw [if_neg hfit2] at hok ⊢
      have := (Dest.write_atEnd F w2.d (p.drop n) hend).2.2.1 hok
      simp only at this ⊢
      rw [this, List.length_drop]; omega

/-- a successful `Write` accepted every byte -/
theorem write_n (F : Faults) (w : W) (p : Bytes) (hg : w.Good) (hok : (w.write F p).2.2 = true) :
    (w.write F p).2.1 = p.length := by
  unfold W.write at hok ⊢
  by_cases hs : w.size = 0
  · rw [if_pos hs] at hok ⊢
    exact (Dest.write_atEnd F w.d p hg.atEnd).2.2.1 hok
  · rw [if_neg hs] at hok ⊢
    by_cases hbe : w.berr = true
    · rw [if_pos hbe] at hok; cases hok
    · rw [if_neg hbe] at hok ⊢
      by_cases hfit : p.length ≤ w.size - w.buf.length
      · rw [if_pos hfit]
      · rw [if_neg hfit] at hok ⊢
        by_cases hemp : w.buf.isEmpty = true
        · rw [if_pos hemp] at hok ⊢
          exact (Dest.write_atEnd F w.d p hg.atEnd).2.2.1 hok
        · rw [if_neg hemp] at hok ⊢
          have hfill := Appended.buffered F w (p.take (w.size - w.buf.length)) hg hs
          obtain ⟨hfl, _⟩ := bflush_appended F _ hfill.good
          exact writeRest_n F _ _ p _ (by omega) hfl.good.atEnd hok

/-! ### the dry run of the early-check strategy -/

theorem revert_exact : ∀ fs : List WField, (∃ f ∈ fs, (f.num == tsFieldNum) = true) →
    ∃ ts, fs[tsIndex fs]? = some ts ∧ revertTs (tsIndex fs) ts (removeFirst tsFieldNum fs) = fs
  | [], h => by obtain ⟨f, hf, _⟩ := h; cases hf
  | f :: fs, h => by
    by_cases hf : (f.num == tsFieldNum) = true
    · refine ⟨f, ?_, ?_⟩
      · simp [tsIndex, hf]
      · simp [tsIndex, hf, removeFirst, revertTs]
    · have hex : ∃ g ∈ fs, (g.num == tsFieldNum) = true := by
        obtain ⟨g, hg, hgn⟩ := h
        rcases List.mem_cons.mp hg with rfl | hg'
        · exact absurd hgn hf
        · exact ⟨g, hg', hgn⟩
      have hne : fs.isEmpty = false := by
        obtain ⟨g, hg, _⟩ := hex
        cases fs with
        | nil => cases hg
        | cons _ _ => rfl
      obtain ⟨ts, h1, h2⟩ := revert_exact fs hex
      refine ⟨ts, ?_, ?_⟩
      · simp only [tsIndex, hf, hne, Bool.false_eq_true, if_false, List.getElem?_cons_succ]; exact h1
      · simp only [tsIndex, hf, hne, Bool.false_eq_true, if_false, removeFirst, revertTs, List.take_succ_cons,
          List.drop_succ_cons, List.cons_append]
        rw [← revertTs] ; rw [h2]

theorem compressed_has_ts (arch tsRef tsLast : Nat) (m : WMsg) (h : (compressTs arch tsRef tsLast m).2.2.isSome = true) :
    ∃ f ∈ m.fields, (f.num == tsFieldNum) = true := by
  unfold compressTs at h
  cases hfind : m.fields.find? (·.num == tsFieldNum) with
  | none =>
    have : encTsOf arch m = u32Invalid := by simp [encTsOf, hfind]
    simp [this] at h
  | some f => exact ⟨f, List.mem_of_find?_eq_some hfind, by have := List.find?_some hfind; simpa using this⟩

/-- one message of the dry run: it moves the encoder state and counts exactly the bytes the real pass writes,
and it leaves the message as it found it -/
theorem dryMessage_eq (o : Opts) (s : EncState) (m : WMsg) :
    dryMessage o s m = ((encodeMsg o s m).1, (encodeMsg o s m).2.length, m) := by
  rw [encodeMsg_parts]
  unfold dryMessage
  refine Prod.ext rfl (Prod.ext ?_ ?_)
  · simp only
    cases (encodeMsgParts o s m).2.1 <;> simp
  · simp only
    by_cases hc : (o.compress && (compressTs o.arch s.tsRef s.tsLast m).2.2.isSome) = true
    · rw [if_pos hc]
      simp only [Bool.and_eq_true] at hc
      obtain ⟨ts, h1, h2⟩ := revert_exact m.fields (compressed_has_ts _ _ _ m hc.2)
      rw [h1]; simp only [h2]
    · rw [if_neg hc]

/-- DRY RUN = REAL RUN: `calculateDataSize` stores into the header exactly the number of bytes (mod 2^32) that
`encodeMessages` will write from the same encoder state, and hands the messages to the second pass unchanged -/
theorem dryPass_eq (o : Opts) : ∀ (s : EncState) (ds : Nat) (ms : List WMsg), ds < 4294967296 →
    dryPass o s ds ms = ((ds + (encodeMsgs o s ms).length) % 4294967296, ms)
  | s, ds, [], h => by simp [dryPass, encodeMsgs]; omega
  | s, ds, m :: ms, h => by
    unfold dryPass
    rw [dryMessage_eq, encodeMsgs_cons]
    simp only
    rw [dryPass_eq o _ _ ms (Nat.mod_lt _ (by decide))]
    simp only [List.length_append]
    congr 1
    omega

end Fit.Writer
