import FitProps.Utf8Lemmas
/-! What `proto.utf8String` returns is NUL-free valid UTF-8 without U+FFFD, for ANY input bytes — hence a fixed point of
marshalling and reading back (C06: `unmarshal_reencode` for the string base type). -/
namespace Fit.Utf8

/-- NUL-free valid UTF-8 without a well-formed U+FFFD, for every sufficient fuel of the two scanners -/
def Good (c : List Nat) : Prop :=
  Bytes c ∧ (∀ x ∈ c, x ≠ 0) ∧ (∀ f1, c.length ≤ f1 → validAux f1 c = true) ∧ (∀ f2, c.length ≤ f2 → hasFFFDAux f2 c = false)

theorem good_nil : Good [] := by
  refine ⟨fun b h => (by cases h), fun b h => (by cases h), fun f1 _ => ?_, fun f2 _ => ?_⟩
  · cases f1 <;> simp [validAux]
  · cases f2 <;> simp [hasFFFDAux]

theorem utf8StringAux_good : ∀ (f : Nat) (b : List Nat), Bytes b → Good (utf8StringAux f b) := by
  intro f
  induction f with
  | zero => intro b _; simp only [utf8StringAux]; exact good_nil
  | succ f ih =>
    intro b hb
    rw [utf8StringAux]
    by_cases he : b.isEmpty = true
    · simp only [he, if_true]; exact good_nil
    · simp only [he, Bool.false_eq_true, if_false]
      have hne : b ≠ [] := by intro h; subst h; simp at he
      by_cases h0 : ((decodeRune b).1 == 0) = true
      · simp only [h0, if_true]; exact good_nil
      · simp only [h0, Bool.false_eq_true, if_false]
        have hrec := ih (b.drop (decodeRune b).2) (hb.drop _)
        by_cases hr : ((decodeRune b).1 != runeError) = true
        · simp only [hr, if_true]
          have hd0 : (decodeRune b).1 ≠ 0 := by simpa using h0
          have hdr : (decodeRune b).1 ≠ 0xFFFD := by simpa [runeError_val] using hr
          obtain ⟨hk1, hk2, happ, _, hnz, hloc⟩ := decode_spec b hb hne (fun hc => hdr hc.1)
          have hhead : b.head? ≠ some 0 := by
            intro hh
            cases b with
            | nil => exact hne rfl
            | cons x t =>
              simp only [List.head?_cons, Option.some.injEq] at hh
              subst hh
              rw [decodeRune_zero] at hd0
              exact hd0 rfl
          obtain ⟨_, hnzb⟩ := hnz hhead
          have hlen : (b.take (decodeRune b).2).length = (decodeRune b).2 := by
            rw [List.length_take]; omega
          obtain ⟨rb, rz, rv, rf⟩ := hrec
          rw [happ]
          refine ⟨?_, ?_, ?_, ?_⟩
          · intro x hx
            rcases List.mem_append.mp hx with h | h
            · exact hb x (List.mem_of_mem_take h)
            · exact rb x h
          · intro x hx
            rcases List.mem_append.mp hx with h | h
            · exact hnzb x h
            · exact rz x h
          · intro f1 hf1
            simp only [List.length_append, hlen] at hf1
            cases f1 with
            | zero => omega
            | succ f1 =>
              have hemp : (b.take (decodeRune b).2 ++ utf8StringAux f (b.drop (decodeRune b).2)).isEmpty = false := by
                cases hq : b.take (decodeRune b).2 with
                | nil => rw [hq] at hlen; simp at hlen; omega
                | cons _ _ => rfl
              have hinv : invalidAt (b.take (decodeRune b).2 ++ utf8StringAux f (b.drop (decodeRune b).2)) = false := by
                simp only [invalidAt, hloc, runeError_val, Bool.and_eq_false_iff, beq_eq_false_iff_ne, ne_eq]
                exact Or.inl hdr
              rw [validAux]
              simp only [hemp, Bool.false_eq_true, if_false, hinv, hloc]
              rw [List.drop_append_of_le_length (by omega), List.drop_of_length_le (by omega), List.nil_append]
              exact rv f1 (by omega)
          · intro f2 hf2
            simp only [List.length_append, hlen] at hf2
            cases f2 with
            | zero => omega
            | succ f2 =>
              have hemp : (b.take (decodeRune b).2 ++ utf8StringAux f (b.drop (decodeRune b).2)).isEmpty = false := by
                cases hq : b.take (decodeRune b).2 with
                | nil => rw [hq] at hlen; simp at hlen; omega
                | cons _ _ => rfl
              rw [hasFFFDAux]
              have hr' : ((decodeRune b).1 == runeError) = false := by simpa using hr
              simp only [hemp, Bool.false_eq_true, if_false, hloc, h0, hr', Bool.false_and]
              rw [List.drop_append_of_le_length (by omega), List.drop_of_length_le (by omega), List.nil_append]
              exact rf f2 (by omega)
        · simp only [hr, Bool.false_eq_true, if_false, List.nil_append]
          exact hrec

theorem utf8String_good (b : List Nat) (hb : Bytes b) : Good (utf8String b) := utf8StringAux_good _ b hb

/-- reading back what `utf8String` returned, followed by a terminator (and anything), gives it again -/
theorem utf8String_idem (b : List Nat) (hb : Bytes b) (t : List Nat) :
    utf8String (utf8String b ++ 0 :: t) = utf8String b := by
  obtain ⟨gb, gz, gv, gf⟩ := utf8String_good b hb
  unfold utf8String at gb gz gv gf ⊢
  exact utf8StringAux_clean _ _ (0 :: t) _ _ _ (Nat.le_refl _) (Nat.le_refl _) (Nat.le_refl _) (Nat.le_refl _)
    gb gz (Or.inr rfl) (gv _ (Nat.le_refl _)) (gf _ (Nat.le_refl _))

end Fit.Utf8
