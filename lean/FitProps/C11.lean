import FitProps.WriterIntegrityLemmas
import FitModel.Integrity
import FitModel.Generated.WireConsts
import FitProps.C09
import FitProps.WriterCrashLemmas
import FitProps.WriterShortLemmas
import FitProps.WriterPanicLemmas
import FitProps.WriterCtxLemmas
import FitProps.WriterCtxCrashLemmas
import FitProps.WriterCtxReachLemmas
/-!
# C11 — Destination failures surface as errors; incomplete output is never a valid file

Fault model: `Writer.Faults` — the k-th operation on the destination (Write, WriteAt, Seek — also the ones the buffered
writer issues when it flushes) fails after taking at most j bytes, for ANY set of (k, j). A crash "the first k operations
and j bytes of the next write took effect" is the final state of the run under the schedule "operation k takes j bytes and
fails": the encoder stops issuing operations at the first failure. That link is PROVED for the model
(`C11_fault_is_crash_prefix`, `_stream`, `C11_call_fault_is_crash_prefix`: from any encoder state, every kind, buffer size,
chain, batch and stream; lemmas in FitProps/WriterCrashLemmas.lean) and still re-checked per fault point: every sweep of
family enc-faults replays the healthy run's operation sequence up to (k, j) (`Dest.run (crashOps k j ops)`, the very
definitions of the theorem) and compares it with the faulted run — on the real encoder and on the model.

PROPERTY THEOREMS (audited by ./check): C11_write_error_surfaces, C11_error_surfaces_batch, C11_success_means_no_fault,
C11_error_surfaces_stream, C11_call_error_surfaces (from any state, any validator, call by call), C11_consts (obligation on
the regenerated profile version), C11_prefix_never_valid, C11_prefix_never_valid_stream, C11_stale_header_witness (the
finding F13 / KF-C11-1, repaired in /repo f65e050; the theorems speak about both variants through `StreamCfg`),
C11_fault_is_crash_prefix, C11_fault_is_crash_prefix_stream, C11_call_fault_is_crash_prefix,
C11_validated_call_fault_is_crash_prefix, C11_crash_prefix_never_valid,
and — destinations that return a short count WITHOUT error, outside the property's assumption — C11_short_write_model_refines,
C11_short_write_buffered_safe, C11_short_write_witness (all at the end of the file).
NO PANIC: `FitModel/WriterPanic.lean` guards every Go operation of encoder.go / stream.go / writebuffer.go / lru.go that can
panic (outcome `Run.panic`); C11_no_panic proves that no guard ever fails, C11_panic_model_refines that the outcomes that
are left are exactly the model's, C11_panic_guards_witness that the guards are not vacuous. The driver evaluates the guarded
model on every operation and answers `panic` when it panics; the harness answers `panic` when the real code does.
-/
namespace Fit.C11
open Fit.Wire Fit.Writer

/-- some operation on the destination failed -/
def Faulted (d : Dest) : Prop := ∃ op ∈ d.log, op.ok = false

theorem not_clean_of_faulted {w : W} (h : Faulted w.d) : ¬ w.Clean := by
  intro hc
  obtain ⟨op, hop, hf⟩ := h
  rw [hc.log op hop] at hf; cases hf

/-- WRITE LEVEL: whatever the buffer size and whatever the fault schedule — if, after `e.w.Write(p)`, some operation
of the destination has failed (in this call or, with the buffered writer's sticky error, in an earlier one), then this
`Write` call does not report success. -/
theorem C11_write_error_surfaces (F : Faults) (w : W) (p : Bytes) (hg : w.Good) (hb : w.berr = false)
    (hf : Faulted (w.write F p).1.d) : (w.write F p).2.2 = false ∨ Faulted w.d := by
  by_cases hold : Faulted w.d
  · exact Or.inr hold
  · left
    have hall : ∀ op ∈ w.d.log, op.ok = true := by
      intro op hop
      cases h : op.ok with
      | true => rfl
      | false => exact absurd ⟨op, hop, h⟩ hold
    cases hok : (w.write F p).2.2 with
    | false => rfl
    | true => exact absurd ((write_appended F w p hg).clean ⟨hall, hb⟩ hok) (not_clean_of_faulted hf)

theorem clean_of_not_faulted {w : W} (h : ¬ Faulted w.d) (hb : w.berr = false) : w.Clean := by
  refine ⟨?_, hb⟩
  intro op hop
  cases hk : op.ok with
  | true => rfl
  | false => exact absurd ⟨op, hop, hk⟩ h

/-- ERRORS SURFACE, batch: whatever the writer kind, the buffer size, the chain and the fault schedule — if any operation
of the destination failed (a write, a write-at or a seek; having taken none, some or all of its bytes; at any point:
header, records, CRC, the buffered writer's flushes, the header rewrite, the final flush), then the `Encode` call
during which it happened returned an error: the chaining loop does not report success. -/
theorem C11_error_surfaces_batch (F : Faults) (o : Opts) (kind : Kind) (size : Nat) (d₀ : Dest) (n₀ : Nat) (fs : List FitIn)
    (hend : d₀.pos = d₀.content.length) (hlog : ¬ Faulted d₀) (hown : kind = .at → n₀ = d₀.content.length)
    (hf : Faulted (encodeChainW F o (Fit.C09.encOn o kind size d₀ n₀) fs).1.w.d) :
    (encodeChainW F o (Fit.C09.encOn o kind size d₀ n₀) fs).2.2 = false := by
  obtain ⟨_, _, _, _, h5, _⟩ := chain_spec F o fs _ (Fit.C09.encOn_ready o kind size d₀ n₀ hend hown)
  cases hok : (encodeChainW F o (Fit.C09.encOn o kind size d₀ n₀) fs).2.2 with
  | false => rfl
  | true => exact absurd (h5 (clean_of_not_faulted hlog rfl) hok) (not_clean_of_faulted hf)

/-- … and it is not vacuous the other way round: with no fault every call succeeds (C09_same_bytes_batch), and a
successful run has seen no failed operation. -/
theorem C11_success_means_no_fault (F : Faults) (o : Opts) (kind : Kind) (size : Nat) (d₀ : Dest) (n₀ : Nat) (fs : List FitIn)
    (hend : d₀.pos = d₀.content.length) (hlog : ¬ Faulted d₀) (hown : kind = .at → n₀ = d₀.content.length)
    (hok : (encodeChainW F o (Fit.C09.encOn o kind size d₀ n₀) fs).2.2 = true) :
    ¬ Faulted (encodeChainW F o (Fit.C09.encOn o kind size d₀ n₀) fs).1.w.d ∧
    (encodeChainW F o (Fit.C09.encOn o kind size d₀ n₀) fs).1.w.d.content = d₀.content ++ encodeChain o (fitsOf fs) := by
  obtain ⟨_, _, _, h4, _, _⟩ := chain_spec F o fs _ (Fit.C09.encOn_ready o kind size d₀ n₀ hend hown)
  refine ⟨fun hf => ?_, (h4 hok).2.2⟩
  have := C11_error_surfaces_batch F o kind size d₀ n₀ fs hend hlog hown hf
  rw [hok] at this; cases this

/-- ERRORS SURFACE, stream: the same for `WriteMessage` … `SequenceCompleted` series through the stream encoder (as pinned
and as repaired): any failed destination operation makes the run end with an error — the failing call is the one in
progress, see `C11_call_error_surfaces` — and is never reported as success. -/
theorem C11_error_surfaces_stream (F : Faults) (c : StreamCfg) (o : Opts) (h : Fit.Wire.Hdr) (kind : Kind) (size : Nat) (d₀ : Dest)
    (n₀ hdrDs : Nat) (mss : List (List WMsg)) (hne : ∀ ms ∈ mss, ms ≠ []) (hdir : kind.direct = true)
    (hend : d₀.pos = d₀.content.length) (hlog : ¬ Faulted d₀) (hown : kind = .at → n₀ = d₀.content.length)
    (hf : Faulted (Stream.chain F c o h (Fit.C09.streamOn o kind size d₀ n₀ hdrDs) mss).1.e.w.d) :
    (Stream.chain F c o h (Fit.C09.streamOn o kind size d₀ n₀ hdrDs) mss).2.2 = false := by
  obtain ⟨e1, e2⟩ := Fit.C09.C09_stream_equals_batch F c o h kind size d₀ n₀ hdrDs mss hne hdir hend hown
  rw [e1] at hf
  rw [e2]
  exact C11_error_surfaces_batch F o kind size d₀ n₀ _ hend hlog hown hf

/-- ERRORS SURFACE, call by call, from ANY state of the encoder (also after earlier failed calls were ignored), for any
message validator: an `Encode`, a `WriteMessage` or a `SequenceCompleted` that reports success has seen no failed
operation of the destination — every failure, wherever it lands (inside the buffered writer's flush, the header rewrite,
the final flush), fails the call in progress. -/
theorem C11_call_error_surfaces {σ : Type} (V : MsgValidator σ) (F : Faults) (c : StreamCfg) (o : Opts) (h : Fit.Wire.Hdr) :
    (∀ (e : Enc) (f : FitIn), ¬ Faulted e.w.d → e.w.berr = false → (encodeV V F o e f).2 = .ok → ¬ Faulted (encodeV V F o e f).1.w.d) ∧
    (∀ (s : Stream) (vs : σ) (m : WMsg), ¬ Faulted s.e.w.d → s.e.w.berr = false → (s.writeMessageV V F o h vs m).2.2 = .ok →
      ¬ Faulted (s.writeMessageV V F o h vs m).1.e.w.d) ∧
    (∀ (s : Stream) (vs : σ), ¬ Faulted s.e.w.d → s.e.w.berr = false → (s.sequenceCompletedV V F c o h vs).2.2 = .ok →
      ¬ Faulted (s.sequenceCompletedV V F c o h vs).1.e.w.d) := by
  refine ⟨?_, ?_, ?_⟩
  · intro e f h1 h2 hok hf
    exact not_clean_of_faulted hf (encodeV_clean V F o e f (clean_of_not_faulted h1 h2) hok)
  · intro s vs m h1 h2 hok hf
    exact not_clean_of_faulted hf (writeMessageV_clean V F o h s vs m (clean_of_not_faulted h1 h2) hok)
  · intro s vs h1 h2 hok hf
    exact not_clean_of_faulted hf (sequenceCompletedV_clean V F c o h s vs (clean_of_not_faulted h1 h2) hok)

/-- OBLIGATION ON THE REGENERATED CONSTANTS: for the SDK's profile version (`profile.Version`, regenerated from the working
tree) and the protocol versions the encoder puts into a default header (1.0, or 2.0 by option), the high byte of the
placeholder header's CRC is not 0 — so no partially rewritten header carries a CRC field of 0, which would switch
the decoder's header check off. -/
theorem C11_consts :
    HK 16 Fit.Gen.Wire.profileVersion 0 / 256 % 256 ≠ 0 ∧ HK 32 Fit.Gen.Wire.profileVersion 0 / 256 % 256 ≠ 0 ∧
    Fit.Gen.Wire.profileVersion < 65536 := by
  decide +kernel

/-- INCOMPLETE OUTPUT IS NEVER A VALID FILE, batch. FIT values with default (zero) headers (`ZeroHdr`: 14-byte header, caller's
data size 0, records below 16 MiB, placeholder CRC's high byte non-zero — `C11_consts`), any writer kind, any buffer
size, a destination that is empty or holds an accepted stream, and ANY fault schedule `F` — in particular the
schedule "operation k takes j bytes and fails", whose final content is the crash state "the first k operations, and j
bytes of the next write, took effect" (see the header of this file): if the
integrity check accepts the destination content as a complete stream, then the content is `d₀` followed by the first
`m` COMPLETE sequences, for some `m` — a boundary between completed sequences, never anything in between. -/
theorem C11_prefix_never_valid (F : Faults) (o : Opts) (kind : Kind) (size : Nat) (d₀ : Dest) (n₀ : Nat) (fs : List FitIn)
    (hend : d₀.pos = d₀.content.length) (hown : kind = .at → n₀ = d₀.content.length)
    (hbase : d₀.content = [] ∨ Acc d₀.content) (hz : ∀ f ∈ fs, ZeroHdr o f)
    (hacc : Acc (encodeChainW F o (Fit.C09.encOn o kind size d₀ n₀) fs).1.w.d.content) :
    ∃ m, m ≤ fs.length ∧
      (encodeChainW F o (Fit.C09.encOn o kind size d₀ n₀) fs).1.w.d.content = d₀.content ++ encodeChain o (fitsOf (fs.take m)) := by
  obtain ⟨_, _, h3, _, _, _⟩ := chain_spec F o fs _ (Fit.C09.encOn_ready o kind size d₀ n₀ hend hown)
  exact chainReach_acc o kind d₀.content fs _ hz hbase h3 hacc

/-- a destination that DIES during its operation number `k`, having taken `j` bytes of it: everything before succeeded,
nothing after it has any effect (writes take 0 bytes, seeks fail) — whatever the encoder still tries. Its final content
is, by the destination model alone, the crash state "the first `k` operations and `j` bytes of the next took effect". -/
def deadAt (k j : Nat) : Faults := fun i => if i < k then none else if i = k then some j else some 0

/-- CRASH STATES: for every crash point (k, j) — any operation, any number of bytes of it — the content the dead
destination is left with is accepted by the integrity check only at a boundary between completed sequences. -/
theorem C11_crash_never_valid (k j : Nat) (o : Opts) (kind : Kind) (size : Nat) (d₀ : Dest) (n₀ : Nat) (fs : List FitIn)
    (hend : d₀.pos = d₀.content.length) (hown : kind = .at → n₀ = d₀.content.length)
    (hbase : d₀.content = [] ∨ Acc d₀.content) (hz : ∀ f ∈ fs, ZeroHdr o f)
    (hacc : Acc (encodeChainW (deadAt k j) o (Fit.C09.encOn o kind size d₀ n₀) fs).1.w.d.content) :
    ∃ m, m ≤ fs.length ∧
      (encodeChainW (deadAt k j) o (Fit.C09.encOn o kind size d₀ n₀) fs).1.w.d.content =
        d₀.content ++ encodeChain o (fitsOf (fs.take m)) :=
  C11_prefix_never_valid (deadAt k j) o kind size d₀ n₀ fs hend hown hbase hz hacc

/-- INCOMPLETE OUTPUT IS NEVER A VALID FILE, stream: the same for sequences written message by message through the stream
encoder — for the repaired code (`clearsHeader`), and for the code as it was pinned as long as only ONE sequence is
written (the second sequence's stale header is finding KF-C11-1, `C11_stale_header_witness`). -/
theorem C11_prefix_never_valid_stream (F : Faults) (c : StreamCfg) (o : Opts) (h : Fit.Wire.Hdr) (kind : Kind) (size : Nat)
    (d₀ : Dest) (n₀ : Nat) (mss : List (List WMsg)) (hc : c.clearsHeader = true ∨ mss.length ≤ 1)
    (hdir : kind.direct = true) (hend : d₀.pos = d₀.content.length) (hown : kind = .at → n₀ = d₀.content.length)
    (hbase : d₀.content = [] ∨ Acc d₀.content) (hz : ∀ ms ∈ mss, ZeroHdr o ⟨h, 0, ms⟩)
    (hacc : Acc (Stream.chain F c o h (Fit.C09.streamOn o kind size d₀ n₀ 0) mss).1.e.w.d.content) :
    ∃ m, m ≤ mss.length ∧
      (Stream.chain F c o h (Fit.C09.streamOn o kind size d₀ n₀ 0) mss).1.e.w.d.content =
        d₀.content ++ encodeChain o ((mss.take m).map fun ms => (h, ms)) := by
  have hne : ∀ ms ∈ mss, ms ≠ [] := fun ms hm => (hz ms hm).nonempty
  obtain ⟨e1, _⟩ := Fit.C09.C09_stream_equals_batch F c o h kind size d₀ n₀ 0 mss hne hdir hend hown
  rw [e1] at hacc ⊢
  obtain ⟨m, hm, hc'⟩ := C11_prefix_never_valid F o kind size d₀ n₀ (streamFits c o h 0 mss) hend hown hbase
    (streamFits_zero c o h mss 0 rfl hc hz) hacc
  have hl : (streamFits c o h 0 mss).length = mss.length := by
    have := congrArg List.length (fitsOf_streamFits c o h 0 mss)
    simpa [fitsOf] using this
  refine ⟨m, by omega, ?_⟩
  rw [hc']
  congr 2
  have : fitsOf ((streamFits c o h 0 mss).take m) = (fitsOf (streamFits c o h 0 mss)).take m := by
    simp [fitsOf, List.map_take]
  rw [this, fitsOf_streamFits, List.map_take]

/-- the hypotheses are met by a default header and ordinary messages (non-vacuity) -/
example : ZeroHdr ⟨0, false, 1⟩ ⟨⟨14, 16, Fit.Gen.Wire.profileVersion⟩, 0, [⟨20, [⟨151, 2, 3, [0x16]⟩], []⟩]⟩ :=
  { size := rfl, ds0 := rfl, pv := by decide, nonempty := by decide, small := by decide +kernel,
    hk := by
      dsimp only
      exact C11_consts.1 }

/-! ### finding KF-C11-1 (DESIGN §4 F13): the stream encoder's kept header -/

namespace Witness
def m1 : WMsg := ⟨20, [⟨151, 2, 3, [0x16]⟩], []⟩
def m2 : WMsg := ⟨20, [⟨151, 2, 3, [0xc0]⟩], []⟩
def o : Opts := ⟨0, false, 1⟩
def h : Fit.Wire.Hdr := ⟨14, 16, 21158⟩
/-- the destination stops (here: fails) at its operation number 9: the CRC write of the second sequence -/
def F : Faults := fun k => if k = 9 then some 0 else none
/-- two sequences through one stream encoder on an unbuffered write-at destination: [m1] and [m1, m2] -/
def run (c : StreamCfg) := Stream.chain F c o h (Stream.new o .at 0 ⟨[], 0, []⟩) [[m1], [m1, m2]]
end Witness

/-- **Witness of KF-C11-1.** With the code as pinned (`clearsHeader = false`: `SequenceCompleted` leaves the data size of
the completed sequence in the header value the stream encoder keeps), the second sequence's header is first written
with data size 11 and a valid header CRC. When the destination fails before the second sequence's CRC is written —
one sequence completed, the second one not — the destination content passes `CheckIntegrity` as TWO complete
sequences, and it is not the chain of the completed sequences (nor of both). With the header cleared the same
content is rejected after the first sequence. -/
theorem C11_stale_header_witness :
    Fit.Integrity.checkIntegrity (Witness.run ⟨false⟩).1.e.w.d.content = .ok 2 ∧
    (Witness.run ⟨false⟩).2 = (1, false) ∧
    (Witness.run ⟨false⟩).1.e.w.d.content ≠ encodeChain Witness.o [(Witness.h, [Witness.m1])] ∧
    (Witness.run ⟨false⟩).1.e.w.d.content ≠ encodeChain Witness.o [(Witness.h, [Witness.m1]), (Witness.h, [Witness.m1, Witness.m2])] ∧
    Fit.Integrity.checkIntegrity (Witness.run ⟨true⟩).1.e.w.d.content = .err .notFit 1 := by
  decide +kernel

/-! ### the single-fault run IS the crash state of the healthy run (proved; also re-checked per sweep by the driver) -/

/-- FAULT SCHEDULE ⇒ CRASH PREFIX, batch. From ANY state `e` of the encoder — every destination kind (plain writer,
`WriteSeeker`, `WriterAt`, both), every write-buffer size (0 = no bufio layer), anything buffered, any sticky error, any
options, any destination content/position (no assumption on it at all) — and for every chain `fs` of FIT values: let
`ops` be the operations the destination sees in the healthy run (the healthy destination IS the replay of `ops`:
content, position and log). Under the schedule "operation `k` takes `j` bytes and fails" (`k` counted as the
destination counts, from its log) the destination ends up as the replay of `crashOps … ops` — the first operations in
full, operation `k` cut to `j` bytes and logged as failed (a `Seek` just fails; a failed `WriteAt` keeps its `j`
bytes at its offset), and NOTHING after it — and the chaining loop reports an error. When the healthy run never
reaches operation `k` the two runs are identical. -/
theorem C11_fault_is_crash_prefix (k j : Nat) (o : Opts) (e : Enc) (fs : List FitIn) (hk : e.w.d.log.length ≤ k) :
    ∃ ops : List DOp,
      (encodeChainW noFault o e fs).1.w.d = e.w.d.run ops ∧
      (encodeChainW (single k j) o e fs).1.w.d = e.w.d.run (crashOps (k - e.w.d.log.length) j ops) ∧
      (k - e.w.d.log.length < ops.length → (encodeChainW (single k j) o e fs).2.2 = false) ∧
      (ops.length ≤ k - e.w.d.log.length → encodeChainW (single k j) o e fs = encodeChainW noFault o e fs) :=
  crash_of_sim (dst := fun r : Enc × Nat × Bool => r.1.w.d) (ok := fun r => r.2.2) e.w.d hk
    (encodeChainW_sim k j o fs e hk) (encodeChainW_ext _ o fs e) (encodeChainW_ext _ o fs e)

/-- FAULT SCHEDULE ⇒ CRASH PREFIX, stream: the same for series of `WriteMessage` … `SequenceCompleted` from ANY state of
the stream encoder (as pinned and as repaired), empty sequences included. -/
theorem C11_fault_is_crash_prefix_stream (k j : Nat) (c : StreamCfg) (o : Opts) (h : Fit.Wire.Hdr) (s : Stream)
    (mss : List (List WMsg)) (hk : s.e.w.d.log.length ≤ k) :
    ∃ ops : List DOp,
      (Stream.chain noFault c o h s mss).1.e.w.d = s.e.w.d.run ops ∧
      (Stream.chain (single k j) c o h s mss).1.e.w.d = s.e.w.d.run (crashOps (k - s.e.w.d.log.length) j ops) ∧
      (k - s.e.w.d.log.length < ops.length → (Stream.chain (single k j) c o h s mss).2.2 = false) ∧
      (ops.length ≤ k - s.e.w.d.log.length → Stream.chain (single k j) c o h s mss = Stream.chain noFault c o h s mss) :=
  crash_of_sim (dst := fun r : Stream × Nat × Bool => r.1.e.w.d) (ok := fun r => r.2.2) s.e.w.d hk
    (stream_chain_sim k j c o h mss s hk) (stream_chain_ext _ c o h mss s) (stream_chain_ext _ c o h mss s)

/-- … and call by call: one `Encode`, one `WriteMessage`, one `SequenceCompleted`, from any state. -/
theorem C11_call_fault_is_crash_prefix (k j : Nat) (c : StreamCfg) (o : Opts) (h : Fit.Wire.Hdr) :
    (∀ (e : Enc) (f : FitIn), e.w.d.log.length ≤ k → ∃ ops : List DOp,
      (encode noFault o e f).1.w.d = e.w.d.run ops ∧
      (encode (single k j) o e f).1.w.d = e.w.d.run (crashOps (k - e.w.d.log.length) j ops) ∧
      (k - e.w.d.log.length < ops.length → (encode (single k j) o e f).2 = false) ∧
      (ops.length ≤ k - e.w.d.log.length → encode (single k j) o e f = encode noFault o e f)) ∧
    (∀ (s : Stream) (m : WMsg), s.e.w.d.log.length ≤ k → ∃ ops : List DOp,
      (s.writeMessage noFault o h m).1.e.w.d = s.e.w.d.run ops ∧
      (s.writeMessage (single k j) o h m).1.e.w.d = s.e.w.d.run (crashOps (k - s.e.w.d.log.length) j ops) ∧
      (k - s.e.w.d.log.length < ops.length → (s.writeMessage (single k j) o h m).2 = false) ∧
      (ops.length ≤ k - s.e.w.d.log.length → s.writeMessage (single k j) o h m = s.writeMessage noFault o h m)) ∧
    (∀ (s : Stream), s.e.w.d.log.length ≤ k → ∃ ops : List DOp,
      (s.sequenceCompleted noFault c o h).1.e.w.d = s.e.w.d.run ops ∧
      (s.sequenceCompleted (single k j) c o h).1.e.w.d = s.e.w.d.run (crashOps (k - s.e.w.d.log.length) j ops) ∧
      (k - s.e.w.d.log.length < ops.length → (s.sequenceCompleted (single k j) c o h).2 = false) ∧
      (ops.length ≤ k - s.e.w.d.log.length → s.sequenceCompleted (single k j) c o h = s.sequenceCompleted noFault c o h)) := by
  refine ⟨fun e f hk => ?_, fun s m hk => ?_, fun s hk => ?_⟩
  · exact crash_of_sim (dst := fun r : Enc × Bool => r.1.w.d) (ok := fun r => r.2) e.w.d hk
      (encode_sim k j o e f hk) (encode_ext _ o e f) (encode_ext _ o e f)
  · exact crash_of_sim (dst := fun r : Stream × Bool => r.1.e.w.d) (ok := fun r => r.2) s.e.w.d hk
      (writeMessage_sim k j o h s m hk) (writeMessage_ext _ o h s m) (writeMessage_ext _ o h s m)
  · exact crash_of_sim (dst := fun r : Stream × Bool => r.1.e.w.d) (ok := fun r => r.2) s.e.w.d hk
      (sequenceCompleted_sim k j c o h s hk) (sequenceCompleted_ext _ c o h s) (sequenceCompleted_ext _ c o h s)

/-- … and for the entry points AS THE API HAS THEM, validators in front (any message validator; these are the functions
the driver runs against the real `Encode` / `WriteMessage` / `SequenceCompleted`): `CrashPrefix k j d₀ dF dH okF same` says
there is an operation sequence `ops` with `dH = d₀.run ops` (healthy run), `dF = d₀.run (crashOps … ops)` (faulted run), the
faulted call does not report `ok` when `ops` reaches operation `k`, and `same` when it does not. -/
theorem C11_validated_call_fault_is_crash_prefix {σ : Type} (V : MsgValidator σ) (k j : Nat) (c : StreamCfg) (o : Opts)
    (h : Fit.Wire.Hdr) :
    (∀ (e : Enc) (f : FitIn), e.w.d.log.length ≤ k →
      CrashPrefix k j e.w.d (encodeV V (single k j) o e f).1.w.d (encodeV V noFault o e f).1.w.d
        (decide ((encodeV V (single k j) o e f).2 = .ok)) (encodeV V (single k j) o e f = encodeV V noFault o e f)) ∧
    (∀ (s : Stream) (vs : σ) (m : WMsg), s.e.w.d.log.length ≤ k →
      CrashPrefix k j s.e.w.d (s.writeMessageV V (single k j) o h vs m).1.e.w.d (s.writeMessageV V noFault o h vs m).1.e.w.d
        (decide ((s.writeMessageV V (single k j) o h vs m).2.2 = .ok))
        (s.writeMessageV V (single k j) o h vs m = s.writeMessageV V noFault o h vs m)) ∧
    (∀ (s : Stream) (vs : σ), s.e.w.d.log.length ≤ k →
      CrashPrefix k j s.e.w.d (s.sequenceCompletedV V (single k j) c o h vs).1.e.w.d (s.sequenceCompletedV V noFault c o h vs).1.e.w.d
        (decide ((s.sequenceCompletedV V (single k j) c o h vs).2.2 = .ok))
        ((s.sequenceCompletedV V (single k j) c o h vs).1 = (s.sequenceCompletedV V noFault c o h vs).1 ∧
         (s.sequenceCompletedV V (single k j) c o h vs).2.2 = (s.sequenceCompletedV V noFault c o h vs).2.2)) := by
  refine ⟨fun e f hk => encodeV_crash V k j o e f hk, fun s vs m hk => ?_, fun s vs hk => ?_⟩
  · exact crash_of_sim (dst := fun r : Stream × σ × Res => r.1.e.w.d) (ok := fun r => decide (r.2.2 = .ok)) s.e.w.d hk
      (writeMessageV_sim V k j o h s vs m hk) (writeMessageV_ext V _ o h s vs m) (writeMessageV_ext V _ o h s vs m)
  · obtain ⟨ops, a1, a2, a3, a4⟩ := crash_of_sim (dst := fun r : Stream × Bool => r.1.e.w.d) (ok := fun r => r.2) s.e.w.d hk
      (sequenceCompleted_sim k j c o h s hk) (sequenceCompleted_ext _ c o h s) (sequenceCompleted_ext _ c o h s)
    obtain ⟨f1, f2⟩ := sequenceCompletedV_eq V (single k j) c o h s vs
    obtain ⟨g1, g2⟩ := sequenceCompletedV_eq V noFault c o h s vs
    refine ⟨ops, by rw [g1]; exact a1, by rw [f1]; exact a2, fun hlt => ?_, fun hle => ?_⟩
    · have := a3 hlt
      rw [f2, this]; rfl
    · rw [f1, g1, f2, g2, a4 hle]; exact ⟨rfl, rfl⟩

/-- CRASH STATES OF THE HEALTHY RUN ARE NEVER VALID FILES (the two halves together): for default headers, any kind and
buffer size, on a destination that is empty or holds an accepted stream and has seen no operation yet: take the operation
sequence `ops` of the HEALTHY run; the destination obtained by replaying its first `k` operations in full and `j` bytes
of operation `k` is accepted by the integrity check only if its content is `d₀` followed by the first `m` complete
sequences — and such a crash state is what the faulted run leaves, with an error returned. -/
theorem C11_crash_prefix_never_valid (k j : Nat) (o : Opts) (kind : Kind) (size : Nat) (d₀ : Dest) (n₀ : Nat) (fs : List FitIn)
    (hlog : d₀.log = []) (hend : d₀.pos = d₀.content.length) (hown : kind = .at → n₀ = d₀.content.length)
    (hbase : d₀.content = [] ∨ Acc d₀.content) (hz : ∀ f ∈ fs, ZeroHdr o f) :
    ∃ ops : List DOp,
      (encodeChainW noFault o (Fit.C09.encOn o kind size d₀ n₀) fs).1.w.d = d₀.run ops ∧
      (encodeChainW (single k j) o (Fit.C09.encOn o kind size d₀ n₀) fs).1.w.d = d₀.run (crashOps k j ops) ∧
      (k < ops.length → (encodeChainW (single k j) o (Fit.C09.encOn o kind size d₀ n₀) fs).2.2 = false) ∧
      (Acc (d₀.run (crashOps k j ops)).content →
        ∃ m, m ≤ fs.length ∧ (d₀.run (crashOps k j ops)).content = d₀.content ++ encodeChain o (fitsOf (fs.take m))) := by
  have hk : (Fit.C09.encOn o kind size d₀ n₀).w.d.log.length ≤ k := by
    show d₀.log.length ≤ k
    rw [hlog]; exact Nat.zero_le _
  obtain ⟨ops, h1, h2, h3, _⟩ := C11_fault_is_crash_prefix k j o (Fit.C09.encOn o kind size d₀ n₀) fs hk
  have hd : (Fit.C09.encOn o kind size d₀ n₀).w.d = d₀ := rfl
  have h0 : k - d₀.log.length = k := by rw [hlog]; rfl
  rw [hd] at h1 h2 h3
  rw [h0] at h2 h3
  refine ⟨ops, h1, h2, h3, fun hacc => ?_⟩
  rw [← h2] at hacc ⊢
  exact C11_prefix_never_valid (single k j) o kind size d₀ n₀ fs hend hown hbase hz hacc

/-- the theorem is not vacuous: a WriterAt destination behind a 4-byte write buffer, one message; the healthy run issues
4 operations (header and definition written through, data record + CRC flushed together, `WriteAt` of the header); under
"operation 3 takes 2 bytes and fails" the destination log is the first three operations and the `WriteAt` cut to 2 bytes
and failed, the content is the replay (27 bytes), and `Encode` reports the error -/
example :
    (encodeChainW noFault Witness.o (Enc.new Witness.o .at 4 ⟨[], 0, []⟩) [⟨Witness.h, 0, [Witness.m1]⟩]).1.w.d.log.length = 4 ∧
    (encodeChainW (single 3 2) Witness.o (Enc.new Witness.o .at 4 ⟨[], 0, []⟩) [⟨Witness.h, 0, [Witness.m1]⟩]).1.w.d.log.reverse =
      crashOps 3 2 (encodeChainW noFault Witness.o (Enc.new Witness.o .at 4 ⟨[], 0, []⟩) [⟨Witness.h, 0, [Witness.m1]⟩]).1.w.d.log.reverse ∧
    (encodeChainW (single 3 2) Witness.o (Enc.new Witness.o .at 4 ⟨[], 0, []⟩) [⟨Witness.h, 0, [Witness.m1]⟩]).2.2 = false ∧
    (encodeChainW (single 3 2) Witness.o (Enc.new Witness.o .at 4 ⟨[], 0, []⟩) [⟨Witness.h, 0, [Witness.m1]⟩]).1.w.d.content.length = 27 := by
  decide +kernel

/-- … and a failing `Seek`: an unbuffered WriteSeeker, the seek back of the header rewrite (operation 4) fails — the log is
the four writes and the failed seek, nothing after it, error returned -/
example :
    (encodeChainW noFault Witness.o (Enc.new Witness.o .seek 0 ⟨[], 0, []⟩) [⟨Witness.h, 0, [Witness.m1]⟩]).1.w.d.log.length = 7 ∧
    (encodeChainW (single 4 0) Witness.o (Enc.new Witness.o .seek 0 ⟨[], 0, []⟩) [⟨Witness.h, 0, [Witness.m1]⟩]).1.w.d.log.reverse =
      crashOps 4 0 (encodeChainW noFault Witness.o (Enc.new Witness.o .seek 0 ⟨[], 0, []⟩) [⟨Witness.h, 0, [Witness.m1]⟩]).1.w.d.log.reverse ∧
    (encodeChainW (single 4 0) Witness.o (Enc.new Witness.o .seek 0 ⟨[], 0, []⟩) [⟨Witness.h, 0, [Witness.m1]⟩]).1.w.d.log.head? =
      some (.seek (-27) false) ∧
    (encodeChainW (single 4 0) Witness.o (Enc.new Witness.o .seek 0 ⟨[], 0, []⟩) [⟨Witness.h, 0, [Witness.m1]⟩]).2.2 = false := by
  decide +kernel

/-! ### destinations that break `io.Writer`'s contract: a short count WITHOUT error (`FitModel/WriterShort.lean`)

All theorems above assume the contract (`n < len(p)` comes with an error: `Writer.Faults`). What the code does when a
destination answers `(n < len(p), nil)` is modelled separately (`Sched`, `…R` functions: `bufio.Writer.Write` as the loop it
is) and tied by the `s`-entries of family enc-faults. -/

/-- THE EXTENDED MODEL IS THE MODEL on contract-abiding schedules — in particular the unrolled `bufio.Writer.Write` of
`FitModel/Writer.lean` IS the loop of bufio.go (≤ 3 rounds) —: every theorem of this file speaks about the extended
model too as long as short counts come with an error. -/
theorem C11_short_write_model_refines (F : Faults) (c : StreamCfg) (o : Opts) (h : Fit.Wire.Hdr) :
    (∀ (w : W) (p : Bytes), w.writeR (Sched.ofFaults F) p = w.write F p) ∧
    (∀ (e : Enc) (fs : List FitIn), encodeChainR (Sched.ofFaults F) o e fs = encodeChainW F o e fs) ∧
    (∀ {σ : Type} (V : MsgValidator σ) (e : Enc) (f : FitIn), encodeVR V (Sched.ofFaults F) o e f = encodeV V F o e f) ∧
    (∀ {σ : Type} (V : MsgValidator σ) (s : Stream) (vs : σ) (m : WMsg),
      s.writeMessageVR V (Sched.ofFaults F) o h vs m = s.writeMessageV V F o h vs m) ∧
    (∀ {σ : Type} (V : MsgValidator σ) (s : Stream) (vs : σ),
      s.sequenceCompletedVR V (Sched.ofFaults F) c o h vs = s.sequenceCompletedV V F c o h vs) :=
  ⟨W.writeR_ofFaults F, fun e fs => encodeChainR_ofFaults F o fs e, fun V e f => encodeVR_ofFaults V F o e f,
    fun V s vs m => writeMessageVR_ofFaults V F o h s vs m, fun V s vs => sequenceCompletedVR_ofFaults V F c o h s vs⟩

/-- BEHIND A WRITE BUFFER SHORT WRITES ARE HARMLESS: for every buffer size > 0 and EVERY schedule of answers — errors and
short counts without error, anywhere — a series of `Write` calls followed by `Flush` that all report success has left
exactly the written bytes, in order, behind what was there (`bufio.Writer.Write` writes the remainder of a short direct
write again; `Flush` turns a short count into `io.ErrShortWrite`). So with the encoder's default 4096-byte buffer a
contract-breaking destination either gets every byte or makes a call fail. -/
theorem C11_short_write_buffered_safe (R : Sched) (w : W) (ps : List Bytes) (hs : w.size ≠ 0)
    (hend : w.d.pos = w.d.content.length) (hok : (writesFlushR R w ps).2 = true) :
    (writesFlushR R w ps).1.d.content = w.d.content ++ w.buf ++ ps.flatten ∧ (writesFlushR R w ps).1.buf = [] :=
  writesFlushR_acc R ps w hs hend hok

namespace Witness
/-- operation `k` takes `j` bytes and returns NO error; everything else is healthy -/
def shortAt (k j : Nat) : Sched := { resp := fun i => if i = k then .short j else .ok, extra := 1 }
def runShort (kind : Kind) (bs k j : Nat) := encodeChainR (shortAt k j) o (Enc.new o kind bs ⟨[], 0, []⟩) [⟨h, 0, [m1]⟩]
def whole : Bytes := encodeChain o [(h, [m1])]
end Witness

/-- … AND WITHOUT A BUFFER THEY ARE NOT NOTICED (`WithWriteBufferSize(0)`; the assumption "the destination honours
io.Writer's contract" is necessary there). Kernel-evaluated runs of one sequence (27 bytes):
(1) unbuffered plain writer, the definition record's `Write` takes 4 of 9 bytes and returns nil: `Encode` reports success,
    5 bytes are missing from the destination, the integrity check rejects it;
(2) the same answer behind a 4-byte buffer (header write, 5 of 14 bytes): bufio writes the other 9 bytes again — success,
    the destination holds the complete sequence; also when 0 bytes were taken;
(3) a 4096-byte buffer, the final flush takes 20 of 27 bytes and returns nil: `io.ErrShortWrite` — `Encode` fails;
(4) unbuffered write-at / seeker destination, the header rewrite (`WriteAt`, or `Write` after the seek back) takes 5 of
    14 bytes: success is reported (`_, err = w.WriteAt(…)` ignores the count; the seek forward uses it), the header is
    half rewritten and the integrity check rejects it. -/
theorem C11_short_write_witness :
    ((Witness.runShort .plain 0 1 4).2 = (1, true) ∧ (Witness.runShort .plain 0 1 4).1.w.d.content.length = 22 ∧
      Fit.Integrity.checkIntegrity (Witness.runShort .plain 0 1 4).1.w.d.content = .err .eof 0) ∧
    ((Witness.runShort .plain 4 0 5).2 = (1, true) ∧ (Witness.runShort .plain 4 0 5).1.w.d.content = Witness.whole ∧
      (Witness.runShort .plain 4 0 0).2 = (1, true) ∧ (Witness.runShort .plain 4 0 0).1.w.d.content = Witness.whole) ∧
    ((Witness.runShort .plain 4096 0 20).2 = (0, false) ∧ (Witness.runShort .plain 4096 0 20).1.w.d.content = Witness.whole.take 20) ∧
    ((Witness.runShort .at 0 4 5).2 = (1, true) ∧ (Witness.runShort .seek 0 5 5).2 = (1, true) ∧
      (Witness.runShort .at 0 4 5).1.w.d.content = (Witness.runShort .seek 0 5 5).1.w.d.content ∧
      (Witness.runShort .at 0 4 5).1.w.d.content ≠ Witness.whole ∧
      Fit.Integrity.checkIntegrity (Witness.runShort .at 0 4 5).1.w.d.content = .err .crc 0) := by
  decide +kernel

/-! ### no panic (`FitModel/WriterPanic.lean`: every Go operation that can panic is a guarded operation) -/

/-- NO PANIC OCCURS. For every message validator, EVERY answer schedule of the destination (`Sched`: each operation succeeds,
fails after taking at most `j` bytes, or — outside `io.Writer`'s contract — takes at most `j` bytes without an error), every
option combination (`0 < lruCap` is `localMessageType + 1`; `cc`: the code as pinned and as repaired, see `CtxCfg`), every destination kind and state, every write-buffer size:
(1) ANY series of `Encode` / `EncodeWithContext` calls (any FIT values — also ones validation rejects —, any cancellation
    point of each context, the caller going on after errors and after cancelled calls) on an encoder made by `New`, also one
    made with a NIL writer, returns from every call: no run of the guarded model reaches `.panic`;
(2) the same for ANY series of `WriteMessage` / `SequenceCompleted` calls on a stream encoder made by `NewStream` (in any
    order: completion without messages, messages after a failed completion, …);
(3) call by call: from every encoder state that satisfies `Enc.Safe` (bufio's `n ≤ len(buf)`, the LRU's index ranges,
    `lastFileHeaderPos ≤ n` — true after `New`/`Reset`), each API call returns and leaves such a state again.
`HdrNorm`: the header size is 12 or 14, as `encodeFileHeader` normalises it before slicing (`Wire.mkHdr`, `mkHdr_norm`). -/
theorem C11_no_panic {σ : Type} (V : MsgValidator σ) (cc : CtxCfg) (R : Sched) (o : Opts) (ho : 0 < o.lruCap) :
    (∀ (nilw : Bool) (kind : Kind) (size : Nat) (d : Dest) (calls : List EncCall), (∀ c ∈ calls, HdrNorm c.fit.hdr) →
      (runEncCalls V cc nilw R o ⟨Enc.new o kind size d, false⟩ calls).isPanic = false) ∧
    (∀ (sc : StreamCfg) (h : Fit.Wire.Hdr) (kind : Kind) (size : Nat) (d : Dest) (calls : List StreamCall), HdrNorm h →
      (runStreamCalls V R sc o h (Stream.new o kind size d) V.init calls).isPanic = false) ∧
    (∀ (nilw : Bool) (c : Ctx) (x : EncC) (f : FitIn), HdrNorm f.hdr → x.e.Safe →
      ∃ r, encodeVG V cc nilw R o c x f = .ret r ∧ r.1.e.Safe) ∧
    (∀ (h : Fit.Wire.Hdr) (s : Stream) (vs : σ) (m : WMsg), HdrNorm h → s.e.Safe →
      ∃ r, s.writeMessageVG V R o h vs m = .ret r ∧ r.1.e.Safe) ∧
    (∀ (sc : StreamCfg) (h : Fit.Wire.Hdr) (s : Stream) (vs : σ), HdrNorm h → s.e.Safe →
      ∃ r, s.sequenceCompletedVG V R sc o h vs = .ret r ∧ r.1.e.Safe) := by
  refine ⟨fun nilw kind size d calls hn => ?_, fun sc h kind size d calls hn => ?_, fun nilw c x f hn hs => ?_,
    fun h s vs m hn hs => ?_, fun sc h s vs hn hs => ?_⟩
  · obtain ⟨r, hr, _⟩ := runEncCalls_spec V cc nilw R o ho calls ⟨Enc.new o kind size d, false⟩ hn (Enc.Safe.new o kind size d ho)
    rw [hr]; rfl
  · obtain ⟨r, hr, _⟩ := runStreamCalls_spec V R sc o h hn ho calls (Stream.new o kind size d) V.init (Enc.Safe.new o kind size d ho)
    rw [hr]; rfl
  · obtain ⟨r, hr, hs', _⟩ := encodeVG_spec V cc nilw R o c x f hn ho hs
    exact ⟨r, hr, hs'⟩
  · exact ⟨_, (writeMessageVG_spec V R o h s vs m hn hs).1, (writeMessageVG_spec V R o h s vs m hn hs).2⟩
  · exact ⟨_, (sequenceCompletedVG_spec V R sc o h s vs hn ho hs).1, (sequenceCompletedVG_spec V R sc o h s vs hn ho hs).2⟩

/-- the hypotheses are met by what the API produces: every header `encodeFileHeader` has normalised (`Wire.mkHdr`, the function the
driver builds its headers with) and every option set `WithHeaderOption` can make (`localMessageType + 1`) -/
example (size pv prof dflt : Nat) : HdrNorm (mkHdr size pv prof dflt) := mkHdr_norm size pv prof dflt
example : HdrNorm Witness.h ∧ 0 < Witness.o.lruCap ∧ (Enc.new Witness.o .seek 4 ⟨[], 0, []⟩).Safe :=
  ⟨Or.inr rfl, by decide, Enc.Safe.new _ _ _ _ (by decide)⟩

/-- THE GUARDED MODEL IS THE MODEL: where no guard fails — everywhere, by `C11_no_panic` — a guarded call returns exactly what
the model of `FitModel/WriterShort.lean` says (which on contract-abiding schedules is the model of `FitModel/Writer.lean`:
`C11_short_write_model_refines`); so every theorem of C09 / C11 about `encodeV`, `writeMessageV`, `sequenceCompletedV` speaks about
the `.ret` outcomes of the guarded model. (`EncodeWithContext` with a context that is never cancelled: `c = none`.) -/
theorem C11_panic_model_refines {σ : Type} (V : MsgValidator σ) (cc : CtxCfg) (R : Sched) (sc : StreamCfg) (o : Opts) (ho : 0 < o.lruCap)
    (h : Fit.Wire.Hdr) (hn : HdrNorm h) :
    (∀ (e : Enc) (f : FitIn), HdrNorm f.hdr → e.Safe →
      encodeVG V cc false R o none ⟨e, false⟩ f = .ret (⟨(encodeVR V R o e f).1, false⟩, (encodeVR V R o e f).2)) ∧
    (∀ (s : Stream) (vs : σ) (m : WMsg), s.e.Safe → s.writeMessageVG V R o h vs m = .ret (s.writeMessageVR V R o h vs m)) ∧
    (∀ (s : Stream) (vs : σ), s.e.Safe → s.sequenceCompletedVG V R sc o h vs = .ret (s.sequenceCompletedVR V R sc o h vs)) := by
  refine ⟨fun e f hf hs => ?_, fun s vs m hs => (writeMessageVG_spec V R o h s vs m hn hs).1,
    fun s vs hs => (sequenceCompletedVG_spec V R sc o h s vs hn ho hs).1⟩
  obtain ⟨r, hr, _, h3⟩ := encodeVG_spec V cc false R o none ⟨e, false⟩ f hf ho hs
  rw [hr, h3 rfl rfl rfl]

/-- … AND WITH CANCELLATION POINTS: on every contract-abiding schedule, for every context (cancelled at any poll or never) and every
encoder state inside the invariant — also one left on `io.Discard` — the guarded `Encode` / `EncodeWithContext` returns exactly
what `encodeCtxV` (the function the driver runs for `m=c`) says. -/
theorem C11_panic_model_refines_ctx {σ : Type} (V : MsgValidator σ) (cc : CtxCfg) (F : Faults) (o : Opts) (ho : 0 < o.lruCap)
    (c : Ctx) (x : EncC) (f : FitIn) (hn : HdrNorm f.hdr) (hs : x.e.Safe) :
    encodeVG V cc false (Sched.ofFaults F) o c x f = .ret (encodeCtxV V cc F o c x f) :=
  encodeVG_ctx V cc F o c x f hn ho hs

namespace Witness
/-- an encoder whose LRU has no slot (`localMessageType + 1 = 0` cannot be configured) -/
def encNoSlot : Enc := { w := { kind := .at, size := 0, d := ⟨[], 0, []⟩ }, es := { lru := Lru.empty 0, tsRef := 0, tsLast := 0 } }
/-- an encoder whose last header position lies beyond the bytes it has written -/
def encBadPos : Enc := { (Enc.new o .at 0 ⟨[], 0, []⟩) with lastHdrPos := 5, n := 3, dataSize := 9 }
/-- a bufio layer holding more bytes than its buffer has -/
def wOverfull : W := { kind := .plain, size := 2, buf := [1, 2, 3], d := ⟨[], 0, []⟩ }
def healthy : Sched := Sched.ofFaults noFault
end Witness

/-- THE GUARDS ARE NOT VACUOUS: states outside the invariant — an LRU without a slot (`l.bucket[0]` of an empty bucket), a
header size that was not normalised (`b[:13]` of 12 marshalled bytes), a `Write` reached on a nil writer, a header
position beyond the bytes written (negative `size` / offset), a buffered writer with `n > len(buf)` — make the guarded
operation answer `.panic`; and a healthy run of the witness sequence does not. -/
theorem C11_panic_guards_witness :
    (encodeMessageG false Witness.healthy Witness.o Witness.encNoSlot Witness.m1).isPanic = true ∧
    (encodeFileHeaderG false Witness.healthy (Enc.new Witness.o .at 0 ⟨[], 0, []⟩) ⟨13, 16, 21158⟩ 0).isPanic = true ∧
    (encodeCRCG true Witness.healthy (Enc.new Witness.o .at 0 ⟨[], 0, []⟩)).isPanic = true ∧
    (updateFileHeaderG Witness.healthy Witness.encBadPos Witness.h 0).isPanic = true ∧
    (Witness.wOverfull.writeG false Witness.healthy [7]).isPanic = true ∧
    (runEncCalls passThrough pinnedCtxCfg false Witness.healthy Witness.o ⟨Enc.new Witness.o .seek 4 ⟨[], 0, []⟩, false⟩
      [⟨none, ⟨Witness.h, 0, [Witness.m1]⟩⟩, ⟨some 0, ⟨Witness.h, 0, [Witness.m1, Witness.m2]⟩⟩]).isPanic = false := by
  decide +kernel

/-! ### `EncodeWithContext`: a cancelled context -/

/-- A CANCELLATION THAT IS OBSERVED SURFACES. `EncodeWithContext` polls the context once per message — in the dry run of the
early-check strategy and in the real pass (`ctxPolls`: `n` polls for a random-access destination, `2·n` for a plain
writer). For every validator, fault schedule, option set and encoder state (not left on `io.Discard`), a context that is
cancelled before poll number `k` of the call (`k` < the polls the call makes for the messages validation lets through):
(1) the call NEVER reports success: it returns `ctx.Err()` (`.ec`), the destination's error when an operation failed first,
    or the validation error;
(2) WHAT IS WRITTEN before the cancellation is observed: `encodeMessagesWithContext` has done exactly `encodeMessages` of the
    first `k` messages — no CRC, no header update, no flush follow (the file header went out before it): the destination has
    seen only a prefix of the operations of the uncancelled call;
(3) observed in the dry run (plain writer, `k` < number of messages): no destination operation at all and the writer state
    untouched — the encoder was left on `io.Discard` by the code as it was pinned (finding KF-C09-ctx-discard, `C09_ctx_discard_witness`;
    repaired in /repo 4876fc8: `restoresWriter`). -/
theorem C11_ctx_cancel_surfaces {σ : Type} (V : MsgValidator σ) (cc : CtxCfg) (F : Faults) (o : Opts) :
    (∀ (k : Nat) (e : Enc) (f : FitIn),
      (∀ ms', validateAll V V.init f.msgs = some ms' → k < ctxPolls e.w.kind ms'.length) →
      (encodeCtxV V cc F o (some k) ⟨e, false⟩ f).2 ≠ .ok) ∧
    (∀ (ms : List WMsg) (k : Nat) (e : Enc), k < ms.length →
      (encodeMessagesCtx F o (some k) e ms).1 = (encodeMessages F o e (ms.take k)).1 ∧
      (encodeMessagesCtx F o (some k) e ms).2.2 = (if (encodeMessages F o e (ms.take k)).2 then .ec else .err)) ∧
    (∀ (k : Nat) (e : Enc) (f : FitIn), e.w.kind.direct = false → k < f.msgs.length →
      encodeCtx cc F o (some k) ⟨e, false⟩ f = (⟨e.reset o, !cc.restoresWriter⟩, .ec)) := by
  refine ⟨fun k e f hk => ?_, encodeMessagesCtx_cancel F o, fun k e f hd hlt => encodeCtx_cancel_dry cc F o k e f hd hlt⟩
  unfold encodeCtxV
  split
  · simp
  · split
    · simp
    · cases hv : validateAll V V.init f.msgs with
      | none => simp
      | some ms' =>
        simp only
        rcases encodeCtx_cancel cc F o k e { f with msgs := ms' } (hk ms' hv) with h | h <;> rw [h] <;> simp

/-- A CANCELLED CALL LEAVES A CRASH STATE OF THE UNCANCELLED ONE, at an operation boundary. For every validator, EVERY fault
schedule, option set, cancellation point `c` and encoder state (any destination kind, buffer size, content, position):
under the same schedule the operations the destination has seen from `EncodeWithContext(ctx, fit)` are a PREFIX `ops1` of the
operations `ops1 ++ ops2` it sees from `Encode(fit)`, each of them in full (same bytes, same count taken, same outcome) — the
cancelled call's destination (content, position, log) is the replay of `ops1`, i.e. the state "the process stopped after
operation `|ops1|`" of the uncancelled call. With `C11_fault_is_crash_prefix` every (cancellation, fault) combination is thus a
crash state of the healthy, uncancelled `Encode`. -/
theorem C11_ctx_cancel_is_crash_prefix {σ : Type} (V : MsgValidator σ) (cc : CtxCfg) (F : Faults) (o : Opts) (c : Ctx) (e : Enc)
    (f : FitIn) :
    ∃ ops1 ops2 : List DOp,
      (encodeCtxV V cc F o c ⟨e, false⟩ f).1.e.w.d = e.w.d.run ops1 ∧
      (encodeV V F o e f).1.w.d = e.w.d.run (ops1 ++ ops2) :=
  encodeCtxV_prefix V cc F o c e f

/-- A CANCELLED CALL NEVER LEAVES A VALID COMPLETE FILE. A FIT value with a default (zero) header (`ZeroHdr`), any destination kind
and buffer size, a destination that is empty or holds an accepted stream, ANY fault schedule and ANY cancellation point:
(1) whatever `EncodeWithContext` leaves on the destination is accepted by the integrity check only if it is `d₀` alone or `d₀`
    followed by the COMPLETE sequence — never anything in between (the cancelled call has written a prefix of the first pass:
    placeholder header, records; it never rewrites the header);
(2) a call that returned `ctx.Err()` has not left the complete sequence (at least the file CRC is missing);
hence (3): after a call that returned `ctx.Err()` the integrity check accepts the destination only if NOTHING of the call's
output is visible in it. -/
theorem C11_ctx_cancel_never_valid (cc : CtxCfg) (F : Faults) (o : Opts) (c : Ctx) (kind : Kind) (size : Nat) (d₀ : Dest) (n₀ : Nat)
    (f : FitIn) (hend : d₀.pos = d₀.content.length) (hown : kind = .at → n₀ = d₀.content.length)
    (hbase : d₀.content = [] ∨ Acc d₀.content) (hz : ZeroHdr o f) :
    (Acc (encodeCtx cc F o c ⟨Fit.C09.encOn o kind size d₀ n₀, false⟩ f).1.e.w.d.content →
      (encodeCtx cc F o c ⟨Fit.C09.encOn o kind size d₀ n₀, false⟩ f).1.e.w.d.content = d₀.content ∨
      (encodeCtx cc F o c ⟨Fit.C09.encOn o kind size d₀ n₀, false⟩ f).1.e.w.d.content = d₀.content ++ encodeFit o f.hdr f.msgs) ∧
    ((encodeCtx cc F o c ⟨Fit.C09.encOn o kind size d₀ n₀, false⟩ f).2 = .ec →
      (encodeCtx cc F o c ⟨Fit.C09.encOn o kind size d₀ n₀, false⟩ f).1.e.w.d.content ≠ d₀.content ++ encodeFit o f.hdr f.msgs) ∧
    ((encodeCtx cc F o c ⟨Fit.C09.encOn o kind size d₀ n₀, false⟩ f).2 = .ec →
      Acc (encodeCtx cc F o c ⟨Fit.C09.encOn o kind size d₀ n₀, false⟩ f).1.e.w.d.content →
      (encodeCtx cc F o c ⟨Fit.C09.encOn o kind size d₀ n₀, false⟩ f).1.e.w.d.content = d₀.content) := by
  have hr := Fit.C09.encOn_ready o kind size d₀ n₀ hend hown
  have h1 : Acc (encodeCtx cc F o c ⟨Fit.C09.encOn o kind size d₀ n₀, false⟩ f).1.e.w.d.content →
      (encodeCtx cc F o c ⟨Fit.C09.encOn o kind size d₀ n₀, false⟩ f).1.e.w.d.content = d₀.content ∨
      (encodeCtx cc F o c ⟨Fit.C09.encOn o kind size d₀ n₀, false⟩ f).1.e.w.d.content = d₀.content ++ encodeFit o f.hdr f.msgs :=
    fun hacc => reach_acc o kind f d₀.content _ hz hbase (encodeCtx_reach cc F o c (Fit.C09.encOn o kind size d₀ n₀) f hr) hacc
  have h2 : (encodeCtx cc F o c ⟨Fit.C09.encOn o kind size d₀ n₀, false⟩ f).2 = .ec →
      (encodeCtx cc F o c ⟨Fit.C09.encOn o kind size d₀ n₀, false⟩ f).1.e.w.d.content ≠ d₀.content ++ encodeFit o f.hdr f.msgs := by
    intro hec heq
    have hl := encodeCtx_ec_short cc F o c (Fit.C09.encOn o kind size d₀ n₀) f hr hec
    rw [heq, List.length_append] at hl
    have : (Fit.C09.encOn o kind size d₀ n₀).w.d.content.length = d₀.content.length := rfl
    omega
  refine ⟨h1, h2, fun hec hacc => ?_⟩
  rcases h1 hacc with h | h
  · exact h
  · exact absurd h (h2 hec)

/-- not vacuous: an unbuffered WriteSeeker, two messages, the context cancelled before the second poll — the call returns
`ctx.Err()`, the destination has seen the header write and the two writes of the first message (3 of the 8 operations of the
uncancelled call, in full) and holds 25 bytes that the integrity check rejects -/
example :
    (encodeCtxV passThrough pinnedCtxCfg noFault Witness.o (some 1) ⟨Enc.new Witness.o .seek 0 ⟨[], 0, []⟩, false⟩
      ⟨Witness.h, 0, [Witness.m1, Witness.m2]⟩).2 = .ec ∧
    (encodeCtxV passThrough pinnedCtxCfg noFault Witness.o (some 1) ⟨Enc.new Witness.o .seek 0 ⟨[], 0, []⟩, false⟩
      ⟨Witness.h, 0, [Witness.m1, Witness.m2]⟩).1.e.w.d.log.reverse =
      (encodeV passThrough noFault Witness.o (Enc.new Witness.o .seek 0 ⟨[], 0, []⟩) ⟨Witness.h, 0, [Witness.m1, Witness.m2]⟩).1.w.d.log.reverse.take 3 ∧
    (encodeV passThrough noFault Witness.o (Enc.new Witness.o .seek 0 ⟨[], 0, []⟩) ⟨Witness.h, 0, [Witness.m1, Witness.m2]⟩).1.w.d.log.length = 8 ∧
    Fit.Integrity.checkIntegrity (encodeCtxV passThrough pinnedCtxCfg noFault Witness.o (some 1) ⟨Enc.new Witness.o .seek 0 ⟨[], 0, []⟩, false⟩
      ⟨Witness.h, 0, [Witness.m1, Witness.m2]⟩).1.e.w.d.content = .err .notFit 0 := by
  decide +kernel

end Fit.C11
