import FitProps.WriterLemmas
import FitModel.Integrity
/-!
# C11 — Destination failures surface as errors; incomplete output is never a valid file

Fault model: `Writer.Faults` — the k-th operation on the destination fails after taking at most j bytes, for ANY set of (k, j).
PROPERTY THEOREMS (audited by ./check): see `checklib/props/C11.py`.
The model's encoder has no panic outcome (its result type is writer state × success); a panic of the implementation
under a fault is a disagreement of the `enc-faults` family.
-/
namespace Fit.C11
open Fit.Wire Fit.Writer

/-- some operation on the destination failed -/
def Faulted (d : Dest) : Prop := ∃ op ∈ d.log, op.ok = false

theorem not_clean_of_faulted {w : W} (h : Faulted w.d) : ¬ w.Clean := by
  intro hc
  obtain ⟨op, hop, hf⟩ := h
  rw [hc.log op hop] at hf; cases hf

/-- WRITE LEVEL: whatever the buffer size and whatever the fault schedule — if, after `e.w.Write(p)`, some operation
of the destination has failed (in this call or, with the buffered writer's sticky error, in an earlier one), then this
`Write` call does not report success. -/
theorem C11_write_error_surfaces (F : Faults) (w : W) (p : Bytes) (hg : w.Good) (hb : w.berr = false)
    (hf : Faulted (w.write F p).1.d) : (w.write F p).2.2 = false ∨ Faulted w.d := by
  by_cases hold : Faulted w.d
  · exact Or.inr hold
  · left
    have hall : ∀ op ∈ w.d.log, op.ok = true := by
      intro op hop
      cases h : op.ok with
      | true => rfl
      | false => exact absurd ⟨op, hop, h⟩ hold
    cases hok : (w.write F p).2.2 with
    | false => rfl
    | true => exact absurd ((write_appended F w p hg).clean ⟨hall, hb⟩ hok) (not_clean_of_faulted hf)

/-! ### finding KF-C11-1 (DESIGN §4 F13): the stream encoder's kept header -/

namespace Witness
def m1 : WMsg := ⟨20, [⟨151, 2, 3, [0x16]⟩], []⟩
def m2 : WMsg := ⟨20, [⟨151, 2, 3, [0xc0]⟩], []⟩
def o : Opts := ⟨0, false, 1⟩
def h : Fit.Wire.Hdr := ⟨14, 16, 21158⟩
/-- the destination stops (here: fails) at its operation number 9: the CRC write of the second sequence -/
def F : Faults := fun k => if k = 9 then some 0 else none
/-- two sequences through one stream encoder on an unbuffered write-at destination: [m1] and [m1, m2] -/
def run (c : StreamCfg) := Stream.chain F c o h (Stream.new o .at 0 ⟨[], 0, []⟩) [[m1], [m1, m2]]
end Witness

/-- **Witness of KF-C11-1.** With the code as pinned (`clearsHeader = false`: `SequenceCompleted` leaves the data size of
the completed sequence in the header value the stream encoder keeps), the second sequence's header is first written
with data size 11 and a valid header CRC. When the destination fails before the second sequence's CRC is written —
one sequence completed, the second one not — the destination content passes `CheckIntegrity` as TWO complete
sequences, and it is not the chain of the completed sequences (nor of both). With the header cleared the same
content is rejected after the first sequence. -/
theorem C11_stale_header_witness :
    Fit.Integrity.checkIntegrity (Witness.run ⟨false⟩).1.e.w.d.content = .ok 2 ∧
    (Witness.run ⟨false⟩).2 = (1, false) ∧
    (Witness.run ⟨false⟩).1.e.w.d.content ≠ encodeChain Witness.o [(Witness.h, [Witness.m1])] ∧
    (Witness.run ⟨false⟩).1.e.w.d.content ≠ encodeChain Witness.o [(Witness.h, [Witness.m1]), (Witness.h, [Witness.m1, Witness.m2])] ∧
    Fit.Integrity.checkIntegrity (Witness.run ⟨true⟩).1.e.w.d.content = .err .notFit 1 := by
  decide +kernel

end Fit.C11
