import FitProps.IntegrityLemmas
/-!
`CheckIntegrity` against the reference AS BUILT (`IntegritySpec.referenceAsBuilt`: the integrity rules with the
code's checksum rule — the running CRC restarts after the header), in lockstep, for EVERY byte string: 12- and 14-byte
headers, header CRC field zero or not. No hypothesis about which headers are met (contrast `check_ref_lockstep`).
-/
namespace Fit.Integrity
open Fit.Crc Fit.Gen.Integ

/-- the decoder's header step on any stream that starts with 12 and carries the tag, evaluated -/
theorem header12_eval (chk : Bool) (pv p0 p1 d0 d1 d2 d3 : Nat) (x : List Nat) :
    decodeFileHeader chk (12 :: pv :: p0 :: p1 :: d0 :: d1 :: d2 :: d3 :: 0x2E :: 0x46 :: 0x49 :: 0x54 :: x) =
      if d0 + 256 * d1 + 65536 * d2 + 16777216 * d3 = 0 then .error .notFit
      else .ok (⟨12, d0 + 256 * d1 + 65536 * d2 + 16777216 * d3, 0⟩, x) := by
  unfold decodeFileHeader
  simp only [hasN, List.take, List.drop, le32, le16, dataTypeFIT_eq]
  simp

/-- one turn of both loops once the header has been accepted by both: the records, the CRC comparison (the code's:
over the records only), the continuation -/
theorem asbuilt_tail (fuel seq : Nat) (bs t' : List Nat) (hd : Hdr) (h : FitFormat.Header)
    (hp : FitFormat.parseHeader bs = some h)
    (hdec : decodeFileHeader true bs = .ok (hd, t'))
    (hD : hd.dataSize = h.dataSize) (hz : h.dataSize ≠ 0)
    (hcrcok : IntegritySpec.headerCrcBad bs h.crc = false)
    (hdrop : bs.drop h.size = t') (hne : bs ≠ [])
    (ht'b : Bytes t')
    (ih : ∀ seq', h.dataSize + 2 ≤ t'.length →
      verdict (checkLoop fuel seq' (t'.drop (h.dataSize + 2))) =
        IntegritySpec.refLoopAsBuilt fuel seq' (t'.drop (h.dataSize + 2))) :
    verdict (checkLoop (fuel + 1) seq bs) = IntegritySpec.refLoopAsBuilt (fuel + 1) seq bs := by
  rw [checkLoop_step _ _ _ _ _ hdec, hD]
  have hempty : bs.isEmpty = false := by cases bs with
    | nil => exact absurd rfl hne
    | cons _ _ => rfl
  have hdropn : bs.drop (h.size + h.dataSize) = t'.drop h.dataSize := by
    rw [← hdrop, List.drop_drop]
  have hsv : IntegritySpec.seqValidAsBuilt bs =
      match t'.drop h.dataSize with
      | c0 :: c1 :: _ => if FitFormat.le16 c0 c1 = crcSpec 0 (t'.take h.dataSize) then some (h.size + h.dataSize + 2) else none
      | _ => none := by
    unfold IntegritySpec.seqValidAsBuilt
    simp only [hp, hz, if_false, hcrcok, Bool.false_eq_true, hdropn, hdrop]
    rfl
  have hr : IntegritySpec.refLoopAsBuilt (fuel + 1) seq bs =
      match IntegritySpec.seqValidAsBuilt bs with
      | none => .bad seq
      | some n => IntegritySpec.refLoopAsBuilt fuel (seq + 1) (bs.drop n) := by
    conv => lhs; unfold IntegritySpec.refLoopAsBuilt
    simp only [hempty, Bool.false_eq_true, if_false]
    rfl
  rw [hr, hsv]
  by_cases hlen : t'.length < h.dataSize + 2
  · rw [if_pos hlen]
    have hl : (t'.drop h.dataSize).length < 2 := by simp; omega
    match hd' : t'.drop h.dataSize with
    | [] => rfl
    | [_] => rfl
    | _ :: _ :: _ => rw [hd'] at hl; simp at hl; omega
  · rw [if_neg hlen]
    obtain ⟨c0, c1, t'', hd'⟩ : ∃ c0 c1 t'', t'.drop h.dataSize = c0 :: c1 :: t'' := by
      have hl : 2 ≤ (t'.drop h.dataSize).length := by simp; omega
      match hd' : t'.drop h.dataSize, hl with
      | c0 :: c1 :: t'', _ => exact ⟨c0, c1, t'', rfl⟩
    have hd2 : t'.drop (h.dataSize + 2) = t'' := by rw [← List.drop_drop, hd']; rfl
    have hw : write 0 (t'.take h.dataSize) = crcSpec 0 (t'.take h.dataSize) :=
      write_eq_spec _ (ht'b.take _) 0 (by decide)
    rw [hd']
    simp only [le16, hw]
    by_cases hc : FitFormat.le16 c0 c1 = crcSpec 0 (t'.take h.dataSize)
    · have hc' : c0 + 256 * c1 = crcSpec 0 (t'.take h.dataSize) := hc
      rw [if_neg (by simp [hc']), if_pos hc]
      simp only
      have hdropn2 : bs.drop (h.size + h.dataSize + 2) = t'.drop (h.dataSize + 2) := by
        rw [← hdrop, List.drop_drop, Nat.add_assoc]
      rw [hdropn2]
      exact ih (seq + 1) (by omega)
    · have hc' : ¬ c0 + 256 * c1 = crcSpec 0 (t'.take h.dataSize) := hc
      rw [if_pos (fun e => hc' e.symm), if_neg hc]
      rfl

/-- LOCKSTEP with the reference as built: for every byte string, verdict and count of the `CheckIntegrity` loop are
those of the walk under the code's checksum rule -/
theorem check_asbuilt_lockstep (fuel seq : Nat) (bs : List Nat) (hb : Bytes bs) (hf : bs.length < fuel) :
    verdict (checkLoop fuel seq bs) = IntegritySpec.refLoopAsBuilt fuel seq bs := by
  induction fuel generalizing seq bs with
  | zero => omega
  | succ fuel ih =>
    cases bs with
    | nil =>
      by_cases hs : seq = 0 <;> simp [checkLoop, decodeFileHeader, IntegritySpec.refLoopAsBuilt, verdict, hs]
    | cons a t =>
      cases hp : FitFormat.parseHeader (a :: t) with
      | none =>
        have hr : IntegritySpec.refLoopAsBuilt (fuel + 1) seq (a :: t) = .bad seq := by
          simp [IntegritySpec.refLoopAsBuilt, IntegritySpec.seqValidAsBuilt, hp]
        rw [hr]
        cases hh : decodeFileHeader true (a :: t) with
        | ok p => exact absurd hp (parseHeader_of_decode (h := p.1) (rest := p.2) hh)
        | error e => unfold checkLoop; simp [hh, verdict]
      | some h =>
        obtain ⟨pv, p0, p1, d0, d1, d2, d3, t1, hbs, hD, hcase⟩ := parseHeader_some hp
        -- both loops reject a zero data size
        have hbadz : h.dataSize = 0 → ∀ e, decodeFileHeader true (a :: t) = .error e →
            verdict (checkLoop (fuel + 1) seq (a :: t)) = IntegritySpec.refLoopAsBuilt (fuel + 1) seq (a :: t) := by
          intro hz e he
          have hr : IntegritySpec.refLoopAsBuilt (fuel + 1) seq (a :: t) = .bad seq := by
            simp [IntegritySpec.refLoopAsBuilt, IntegritySpec.seqValidAsBuilt, hp, hz]
          rw [hr]; unfold checkLoop; simp [he, verdict]
        rcases hcase with ⟨h12, hnone⟩ | ⟨h14, k0, k1, t', ht1, hk⟩
        · -- 12-byte header: no header CRC
          rw [h12] at hbs
          have hev := header12_eval true pv p0 p1 d0 d1 d2 d3 t1
          rw [← hbs, ← hD] at hev
          by_cases hz : h.dataSize = 0
          · rw [if_pos hz] at hev; exact hbadz hz _ hev
          · rw [if_neg hz] at hev
            have ht1b : Bytes t1 := by intro x hx; apply hb x; rw [hbs]; simp [hx]
            have hdrop : (a :: t).drop h.size = t1 := by rw [h12, hbs]; rfl
            refine asbuilt_tail fuel seq (a :: t) t1 _ h hp hev rfl hz (by rw [hnone]; rfl) hdrop (by simp) ht1b ?_
            intro seq' hlen
            have hlt : (t1.drop (h.dataSize + 2)).length < fuel := by
              have : (a :: t).length = t1.length + 12 := by rw [hbs]; simp
              simp only [List.length_drop]; omega
            exact ih seq' _ (ht1b.drop _) hlt
        · -- 14-byte header: the CRC field is checked when it is not zero
          subst ht1
          rw [h14] at hbs
          have hH12 : Bytes [14, pv, p0, p1, d0, d1, d2, d3, 0x2E, 0x46, 0x49, 0x54] := by
            intro x hx; apply hb x; rw [hbs]
            simp only [List.mem_cons] at hx ⊢
            rcases hx with h | h | h | h | h | h | h | h | h | h | h | h | h
            all_goals first | (simp [h]; done) | (simp at h)
          have ht'b : Bytes t' := by intro x hx; apply hb x; rw [hbs]; simp [hx]
          have hev := header14_eval pv p0 p1 d0 d1 d2 d3 k0 k1 t' hH12
          rw [← hbs, ← hD] at hev
          have htake12 : (a :: t).take 12 = [14, pv, p0, p1, d0, d1, d2, d3, 0x2E, 0x46, 0x49, 0x54] := by rw [hbs]; rfl
          have hdrop : (a :: t).drop h.size = t' := by rw [h14, hbs]; rfl
          have hcont : ∀ seq', h.dataSize + 2 ≤ t'.length →
              verdict (checkLoop fuel seq' (t'.drop (h.dataSize + 2))) =
                IntegritySpec.refLoopAsBuilt fuel seq' (t'.drop (h.dataSize + 2)) := by
            intro seq' hlen
            have hlt : (t'.drop (h.dataSize + 2)).length < fuel := by
              have : (a :: t).length = t'.length + 14 := by rw [hbs]; simp
              simp only [List.length_drop]; omega
            exact ih seq' _ (ht'b.drop _) hlt
          by_cases hz : h.dataSize = 0
          · rw [if_pos hz] at hev; exact hbadz hz _ hev
          · rw [if_neg hz] at hev
            by_cases hk0 : k0 + 256 * k1 = 0
            · -- CRC field 0: not checked, by the rules and by the code
              rw [if_pos hk0] at hev
              refine asbuilt_tail fuel seq (a :: t) t' _ h hp hev rfl hz ?_ hdrop (by simp) ht'b hcont
              rw [hk, hk0]; rfl
            · rw [if_neg hk0] at hev
              by_cases hbad : crcSpec 0 [14, pv, p0, p1, d0, d1, d2, d3, 0x2E, 0x46, 0x49, 0x54] ≠ k0 + 256 * k1
              · -- header CRC wrong: both reject
                rw [if_pos hbad] at hev
                have hr : IntegritySpec.refLoopAsBuilt (fuel + 1) seq (a :: t) = .bad seq := by
                  have : k0 + 256 * k1 ≠ crcSpec 0 [14, pv, p0, p1, d0, d1, d2, d3, 0x2E, 0x46, 0x49, 0x54] := fun e => hbad e.symm
                  have hcb : IntegritySpec.headerCrcBad (a :: t) h.crc = true := by
                    rw [hk]
                    simp only [IntegritySpec.headerCrcBad, htake12, Bool.and_eq_true, decide_eq_true_eq]
                    exact ⟨hk0, this⟩
                  simp [IntegritySpec.refLoopAsBuilt, IntegritySpec.seqValidAsBuilt, hp, hz, hcb]
                rw [hr]; unfold checkLoop; simp [hev, verdict]
              · rw [if_neg hbad] at hev
                have hgood : k0 + 256 * k1 = crcSpec 0 [14, pv, p0, p1, d0, d1, d2, d3, 0x2E, 0x46, 0x49, 0x54] :=
                  (Decidable.not_not.mp hbad).symm
                refine asbuilt_tail fuel seq (a :: t) t' _ h hp hev rfl hz ?_ hdrop (by simp) ht'b hcont
                rw [hk]
                simp [IntegritySpec.headerCrcBad, htake12, hgood]

/-- the two references agree wherever the walk meets no legacy header (from the two lockstep proofs) -/
theorem reference_eq_asBuilt_of_no_legacy (bs : List Nat) (hb : Bytes bs) (hleg : IntegritySpec.legacyMet bs = false) :
    IntegritySpec.reference bs = IntegritySpec.referenceAsBuilt bs := by
  have h1 := check_ref_lockstep (bs.length + 1) 0 bs hb (by omega) hleg
  have h2 := check_asbuilt_lockstep (bs.length + 1) 0 bs hb (by omega)
  unfold IntegritySpec.reference IntegritySpec.referenceAsBuilt
  rw [← h1, ← h2]

end Fit.Integrity
