import FitProps.C17DefsUntyped
/-! Kernel evaluations for `FitProps/C17.lean` (the statements and what they mean are documented there). One theorem per
module: these are the slowest kernel steps of C17, lake checks the modules in parallel. -/
namespace Fit.C17.Lemmas
open Fit.ProfileSpec Fit.Gen Fit.C17

theorem mesgnum_ok :
    sortedPairs Untyped.mesgnum = sortedPairs (expectedMesgnum (Xlsx.types.map (TypeRow.fix f14))) ∧
    nodupNat (Untyped.mesgnum.map (fun p => normIdent p.1)) = true := by
  decide +kernel

end Fit.C17.Lemmas
