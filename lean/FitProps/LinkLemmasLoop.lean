import FitProps.LinkLemmasDef
/-!
LINK (C) ↔ (D), part 6: the `for dec.Next() { dec.Decode() }` loop — `apiLoop` on the API model (C) against `apiOf` of
(D)'s run on the exact-n reader.
-/
set_option linter.unusedSimpArgs false
set_option linter.unusedVariables false

namespace Fit.Link
open Fit.DecApi Fit.Gen Fit.Gen.DecApi Fit.Crc Fit.Value

theorem eofBlind_apiOf (o : Opts) : EofBlind (apiOf o) := by
  intro st st' e e' h
  simp only [apiOf, DecProg.fail, h, errC]

theorem apiOf_fail {o : Opts} {s : St} {st : DecProg.St} {done : List (Out × List Event)} {pend : List Event}
    (h : Follows o s st done pend) (e : DecProg.Err) :
    apiOf o (DecProg.fail st e) = done ++ [(.err (errC e), pend.map normEvent)] := by
  obtain ⟨t, hf, _⟩ := h
  simp only [apiOf, DecProg.fail, hf]

/-- the sequence's first state after its header: what `decodeFileHeaderOnce` leaves on a decoder at a sequence boundary -/
def afterHeader (o : Opts) (bs : List Nat) (h : Integrity.Hdr) (rest : List Nat) : St :=
  { o := o, rest := rest, q := { hdr := hdrC h bs, hdrDone := true } }

theorem headerOnce_fresh (o : Opts) (bs : List Nat) :
    headerOnce (St.fresh o bs) = match Integrity.decodeFileHeader o.chk bs with
      | .ok (h, rest) => .ok (afterHeader o bs h rest)
      | .error e => .err (errBC e) := by
  unfold headerOnce
  simp only [St.fresh, Bool.false_eq_true, if_false]
  rw [decodeFileHeader_eq _ rfl]
  simp only
  cases Integrity.decodeFileHeader o.chk bs with
  | error e => rfl
  | ok p => rfl

theorem step_next (a : Api) : DecApi.step a .next =
    (a.advance (stepNext (a.n == 0) a.d).1, (stepNext (a.n == 0) a.d).2.1, (stepNext (a.n == 0) a.d).2.2) := rfl

theorem step_decode (a : Api) : DecApi.step a .decode =
    (a.advance (stepDecode a.d).1, (stepDecode a.d).2.1, (stepDecode a.d).2.2) := rfl

theorem stepNext_fresh (o : Opts) (bs : List Nat) (nz : Bool) :
    stepNext nz (St.fresh o bs) = if nz = true then (St.fresh o bs, .bool true, []) else
      match headerOnce (St.fresh o bs) with
      | .ok s1 => (s1, .bool true, [])
      | .err e => ({ St.fresh o bs with q := { (St.fresh o bs).q with hdrDone := true, err := some e } }, .bool false, [])
      | .panic => (St.fresh o bs, .panic, [])
      | .hang => (St.fresh o bs, .hang, []) := by
  unfold stepNext
  simp only [St.fresh]
  cases nz <;> rfl

theorem stepDecode_noerr (s : St) (h : s.q.err = none) : stepDecode s = decodeBody s := by
  unfold stepDecode; rw [h]

/-- (C)'s loop, one iteration from a sequence boundary, when the header does not decode -/
theorem apiLoop_hdr_err (o : Opts) (a : Api) (bs : List Nat) (first : Bool) (fuel : Nat) (e : Integrity.Err)
    (ha : a.d = St.fresh o bs) (hn : (a.n == 0) = first) (he : Integrity.decodeFileHeader o.chk bs = .error e) :
    apiLoop (fuel + 1) a = if first = true then [(.err (errBC e), [])] else [] := by
  have hh := headerOnce_fresh o bs
  rw [he] at hh
  simp only at hh
  unfold apiLoop
  rw [step_next, hn, ha, stepNext_fresh]
  cases first with
  | true =>
    simp only [if_true]
    rw [step_decode]
    have h1 : (a.advance (St.fresh o bs)).d = St.fresh o bs := rfl
    rw [h1, stepDecode_noerr _ rfl]
    unfold decodeBody
    rw [hh]
    rfl
  | false =>
    simp only [Bool.false_eq_true, if_false, hh]

/-- (C)'s loop, one iteration from a sequence boundary, when the header decodes: the record loop and the tail of `Decode`
from the state after the header -/
theorem apiLoop_hdr_ok (o : Opts) (a : Api) (bs : List Nat) (first : Bool) (fuel : Nat) (h : Integrity.Hdr) (rest : List Nat)
    (ha : a.d = St.fresh o bs) (hn : (a.n == 0) = first) (he : Integrity.decodeFileHeader o.chk bs = .ok (h, rest)) :
    ∃ a2 : Api, a2.d = (decodeTail (decodeMessages (fuelOf (afterHeader o bs h rest)) (afterHeader o bs h rest))).1 ∧
      a.n ≤ a2.n ∧
      (first = true → a2.n = bs.length - (decodeTail (decodeMessages (fuelOf (afterHeader o bs h rest)) (afterHeader o bs h rest))).1.rest.length) ∧
      apiLoop (fuel + 1) a =
        (match (decodeTail (decodeMessages (fuelOf (afterHeader o bs h rest)) (afterHeader o bs h rest))).2.1 with
          | .fit f => (.fit f, (decodeTail (decodeMessages (fuelOf (afterHeader o bs h rest)) (afterHeader o bs h rest))).2.2) :: apiLoop fuel a2
          | out => [(out, (decodeTail (decodeMessages (fuelOf (afterHeader o bs h rest)) (afterHeader o bs h rest))).2.2)]) := by
  have hh := headerOnce_fresh o bs
  rw [he] at hh
  simp only at hh
  generalize hs1 : afterHeader o bs h rest = s1 at hh ⊢
  have hdone : headerOnce s1 = .ok s1 := by rw [← hs1]; exact headerOnce_done _ rfl rfl
  conv => enter [1, a2, 2, 2, 2, 1]; unfold apiLoop
  rw [step_next, hn, ha, stepNext_fresh]
  cases first with
  | true =>
    simp only [if_true]
    rw [step_decode]
    have h1 : (a.advance (St.fresh o bs)).d = St.fresh o bs := rfl
    rw [h1, stepDecode_noerr _ rfl, decodeBody_eq _ s1 hh]
    have ha0 : a.advance (St.fresh o bs) = a := by rw [← ha]; exact Api.advance_same a
    rw [ha0]
    have hn0 : a.n = 0 := by simpa using hn
    refine ⟨a.advance (decodeTail (decodeMessages (fuelOf s1) s1)).1, rfl, by simp [Api.advance], ?_, ?_⟩
    · intro _; simp [Api.advance, hn0, ha, St.fresh]
    · generalize decodeTail (decodeMessages (fuelOf s1) s1) = X
      rcases X with ⟨x1, x2, x3⟩
      cases x2 <;> rfl
  | false =>
    simp only [Bool.false_eq_true, if_false, hh]
    rw [step_decode]
    have h1 : (a.advance s1).d = s1 := rfl
    have herr : s1.q.err = none := by rw [← hs1]; rfl
    rw [h1, stepDecode_noerr _ herr, decodeBody_eq _ s1 hdone]
    refine ⟨(a.advance s1).advance (decodeTail (decodeMessages (fuelOf s1) s1)).1, rfl, by simp [Api.advance]; omega, ?_, ?_⟩
    · intro hc; cases hc
    · generalize decodeTail (decodeMessages (fuelOf s1) s1) = X
      rcases X with ⟨x1, x2, x3⟩
      cases x2 <;> rfl

end Fit.Link
