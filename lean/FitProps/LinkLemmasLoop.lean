import FitProps.LinkLemmasDef
/-!
LINK (C) ↔ (D), part 6: the `for dec.Next() { dec.Decode() }` loop — `apiLoop` on the API model (C) against `apiOf` of
(D)'s run on the exact-n reader.
-/
set_option linter.unusedSimpArgs false
set_option linter.unusedVariables false

namespace Fit.Link
open Fit.DecApi Fit.Gen Fit.Gen.DecApi Fit.Crc Fit.Value

theorem eofBlind_apiOf (o : Opts) : EofBlind (apiOf o) := by
  intro st st' e e' h
  simp only [apiOf, DecProg.fail, h, errC]

theorem apiOf_fail {o : Opts} {s : St} {st : DecProg.St} {done : List (Out × List Event)} {pend : List Event}
    (h : Follows o s st done pend) (e : DecProg.Err) :
    apiOf o (DecProg.fail st e) = done ++ [(.err (errC e), pend.map normEvent)] := by
  obtain ⟨t, hf, _⟩ := h
  simp only [apiOf, DecProg.fail, hf]

/-- the sequence's first state after its header: what `decodeFileHeaderOnce` leaves on a decoder at a sequence boundary -/
def afterHeader (o : Opts) (bs : List Nat) (h : Integrity.Hdr) (rest : List Nat) : St :=
  { o := o, rest := rest, q := { hdr := hdrC h bs, hdrDone := true } }

theorem headerOnce_fresh (o : Opts) (bs : List Nat) :
    headerOnce (St.fresh o bs) = match Integrity.decodeFileHeader o.chk bs with
      | .ok (h, rest) => .ok (afterHeader o bs h rest)
      | .error e => .err (errBC e) := by
  unfold headerOnce
  simp only [St.fresh, Bool.false_eq_true, if_false]
  rw [decodeFileHeader_eq _ rfl]
  simp only
  cases Integrity.decodeFileHeader o.chk bs with
  | error e => rfl
  | ok p => rfl

theorem step_next (a : Api) : DecApi.step a .next =
    (a.advance (stepNext (a.n == 0) a.d).1, (stepNext (a.n == 0) a.d).2.1, (stepNext (a.n == 0) a.d).2.2) := rfl

theorem step_decode (a : Api) : DecApi.step a .decode =
    (a.advance (stepDecode a.d).1, (stepDecode a.d).2.1, (stepDecode a.d).2.2) := rfl

theorem stepNext_fresh (o : Opts) (bs : List Nat) (nz : Bool) :
    stepNext nz (St.fresh o bs) = if nz = true then (St.fresh o bs, .bool true, []) else
      match headerOnce (St.fresh o bs) with
      | .ok s1 => (s1, .bool true, [])
      | .err e => ({ St.fresh o bs with q := { (St.fresh o bs).q with hdrDone := true, err := some e } }, .bool false, [])
      | .panic => (St.fresh o bs, .panic, [])
      | .hang => (St.fresh o bs, .hang, []) := by
  unfold stepNext
  simp only [St.fresh]
  cases nz <;> rfl

theorem stepDecode_noerr (s : St) (h : s.q.err = none) : stepDecode s = decodeBody s := by
  unfold stepDecode; rw [h]

/-- (C)'s loop, one iteration from a sequence boundary, when the header does not decode -/
theorem apiLoop_hdr_err (o : Opts) (a : Api) (bs : List Nat) (first : Bool) (fuel : Nat) (e : Integrity.Err)
    (ha : a.d = St.fresh o bs) (hn : (a.n == 0) = first) (he : Integrity.decodeFileHeader o.chk bs = .error e) :
    apiLoop (fuel + 1) a = if first = true then [(.err (errBC e), [])] else [] := by
  have hh := headerOnce_fresh o bs
  rw [he] at hh
  simp only at hh
  unfold apiLoop
  rw [step_next, hn, ha, stepNext_fresh]
  cases first with
  | true =>
    simp only [if_true]
    rw [step_decode]
    have h1 : (a.advance (St.fresh o bs)).d = St.fresh o bs := rfl
    rw [h1, stepDecode_noerr _ rfl]
    unfold decodeBody
    rw [hh]
    rfl
  | false =>
    simp only [Bool.false_eq_true, if_false, hh]

/-- (C)'s loop, one iteration from a sequence boundary, when the header decodes: the record loop and the tail of `Decode`
from the state after the header -/
theorem apiLoop_hdr_ok (o : Opts) (a : Api) (bs : List Nat) (first : Bool) (fuel : Nat) (h : Integrity.Hdr) (rest : List Nat)
    (ha : a.d = St.fresh o bs) (hn : (a.n == 0) = first) (he : Integrity.decodeFileHeader o.chk bs = .ok (h, rest)) :
    ∃ a2 : Api, a2.d = (decodeTail (decodeMessages (fuelOf (afterHeader o bs h rest)) (afterHeader o bs h rest))).1 ∧
      a.n ≤ a2.n ∧
      (first = true → a2.n = bs.length - (decodeTail (decodeMessages (fuelOf (afterHeader o bs h rest)) (afterHeader o bs h rest))).1.rest.length) ∧
      apiLoop (fuel + 1) a =
        (match (decodeTail (decodeMessages (fuelOf (afterHeader o bs h rest)) (afterHeader o bs h rest))).2.1 with
          | .fit f => (.fit f, (decodeTail (decodeMessages (fuelOf (afterHeader o bs h rest)) (afterHeader o bs h rest))).2.2) :: apiLoop fuel a2
          | out => [(out, (decodeTail (decodeMessages (fuelOf (afterHeader o bs h rest)) (afterHeader o bs h rest))).2.2)]) := by
  have hh := headerOnce_fresh o bs
  rw [he] at hh
  simp only at hh
  generalize hs1 : afterHeader o bs h rest = s1 at hh ⊢
  have hdone : headerOnce s1 = .ok s1 := by rw [← hs1]; exact headerOnce_done _ rfl rfl
  conv => enter [1, a2, 2, 2, 2, 1]; unfold apiLoop
  rw [step_next, hn, ha, stepNext_fresh]
  cases first with
  | true =>
    simp only [if_true]
    rw [step_decode]
    have h1 : (a.advance (St.fresh o bs)).d = St.fresh o bs := rfl
    rw [h1, stepDecode_noerr _ rfl, decodeBody_eq _ s1 hh]
    have ha0 : a.advance (St.fresh o bs) = a := by rw [← ha]; exact Api.advance_same a
    rw [ha0]
    have hn0 : a.n = 0 := by simpa using hn
    refine ⟨a.advance (decodeTail (decodeMessages (fuelOf s1) s1)).1, rfl, by simp [Api.advance], ?_, ?_⟩
    · intro _; simp [Api.advance, hn0, ha, St.fresh]
    · generalize decodeTail (decodeMessages (fuelOf s1) s1) = X
      rcases X with ⟨x1, x2, x3⟩
      cases x2 <;> rfl
  | false =>
    simp only [Bool.false_eq_true, if_false, hh]
    rw [step_decode]
    have h1 : (a.advance s1).d = s1 := rfl
    have herr : s1.q.err = none := by rw [← hs1]; rfl
    rw [h1, stepDecode_noerr _ herr, decodeBody_eq _ s1 hdone]
    refine ⟨(a.advance s1).advance (decodeTail (decodeMessages (fuelOf s1) s1)).1, rfl, by simp [Api.advance]; omega, ?_, ?_⟩
    · intro hc; cases hc
    · generalize decodeTail (decodeMessages (fuelOf s1) s1) = X
      rcases X with ⟨x1, x2, x3⟩
      cases x2 <;> rfl

theorem normCalls_cons (p : Out × List Event) (l : List (Out × List Event)) :
    normCalls (p :: l) = (p.1, p.2.map normEvent) :: normCalls l := rfl

theorem fold_snoc_seq (i0 : IState) (evs : List DecProg.Ev) (t : St) (done : List (Out × List Event)) (pend : List Event)
    (h : evs.reverse.foldl iStep i0 = { t := t, done := done, pend := pend, bad := false })
    (size pv prof ds hcrc fcrc n : Nat) :
    (DecProg.Ev.seq size pv prof ds hcrc fcrc n :: evs).reverse.foldl iStep i0 =
      { t := { t with q := {}, look := {} }, done := done ++ [(.fit ⟨⟨size, pv, prof, ds, hcrc⟩, t.q.msgs.reverse, fcrc⟩, pend)],
        pend := [], bad := false } := by
  rw [fold_cons, h]; rfl

open Fit.ReadBuffer in
/-- **THE LOOP.** From a sequence boundary: (C)'s `Next`/`Decode` loop returns what `apiOf` rebuilds from (D)'s run on the
exact-n reader over the same bytes. -/
theorem loop_link (o : Opts) (hfac : FacOK o.fac) (hbt : facBtOK o.fac = true) (hfd : facFdOK o.fac = true) :
    ∀ (fuel : Nat) (a : Api) (bs : List Nat) (first : Bool) (evs : List DecProg.Ev) (done : List (Out × List Event)) (tt : St),
    a.d = St.fresh o bs → (a.n == 0) = first → DecApi.IsBytes bs → bs.length < 4294967296 →
    evs.reverse.foldl iStep { t := St.fresh o [] } = { t := tt, done := done, pend := [], bad := false } →
    tt.o = o → tt.q = {} → tt.look = {} →
    apiOf o (runExact (DecProg.decodeLoop o.chk fuel first evs) bs) = done ++ normCalls (apiLoop fuel a) := by
  intro fuel
  induction fuel with
  | zero =>
    intro a bs first evs done tt _ _ _ _ hfold _ _ _
    simp [DecProg.decodeLoop, runExact, apiOf, hfold, apiLoop, normCalls]
  | succ fuel ih =>
    intro a bs first evs done tt ha hn hb hlen hfold hto htq htl
    unfold DecProg.decodeLoop
    apply fileHeader_wp (Φ := fun out => apiOf o out = done ++ normCalls (apiLoop (fuel + 1) a))
    · -- the stream is empty
      intro hbs
      subst hbs
      rw [apiLoop_hdr_err o a [] first fuel .eof ha hn rfl]
      cases first <;> simp [runExact, apiOf, hfold, normCalls, DecProg.Err.endsIteration, errC, errBC]
    · -- the header does not decode
      intro e' r hne he hends
      rw [apiLoop_hdr_err o a bs first fuel (errB e') ha hn he]
      cases first <;> simp [runExact, apiOf, hfold, normCalls, hends, errC_eq]
    · -- the header decodes
      intro h rest he
      obtain ⟨a2, ha2d, ha2n, ha2f, hloop⟩ := apiLoop_hdr_ok o a bs first fuel h rest ha hn he
      rw [hloop]
      have hok := Integrity.decodeFileHeader_ok he
      have hrl : rest.length ≤ bs.length := by rw [hok.2.2.2.1, List.length_drop]; omega
      have hbr : DecApi.IsBytes rest := by rw [hok.2.2.2.1]; exact IsBytes.drop' hb _
      generalize hs1 : afterHeader o bs h rest = s1 at ha2d ha2f ⊢
      have hs1o : s1.o = o := by rw [← hs1]; rfl
      have hs1r : s1.rest = rest := by rw [← hs1]; rfl
      have hi1 : Inv s1 := by
        rw [← hs1]
        exact ⟨hbr, DefsOK.empty, (by decide : (0 : Nat) < 4294967296), hfac⟩
      have hcd1 : CD o.chk s1 { evs := evs } := by
        rw [← hs1]
        exact ⟨rfl, rfl, rfl, by simp [afterHeader]; omega, hbr⟩
      have hT1 : Tables s1 { evs := evs } := by rw [← hs1]; exact ⟨rfl, rfl⟩
      have hF1 : Follows o s1 { evs := evs } done [] := by
        refine ⟨tt, hfold, ?_⟩
        rw [← hs1]
        exact ⟨hto, ⟨by rw [htl]; rfl, by rw [htl]; rfl, by rw [htl]; rfl⟩, by rw [htq]; rfl, by rw [htq]; rfl, by rw [htq]; rfl,
          by rw [htq]; rfl, by rw [htq]; rfl⟩
      have hsat := decodeMessages_sat (fuelOf s1) s1 hi1 (by simp [fuelOf])
      rw [← hs1r]
      apply messages_link (apiOf o) (eofBlind_apiOf o) o o.chk h.dataSize _ _ done (fuelOf s1) h.dataSize s1 _ [] hcd1 hT1 hF1 hi1
        (by rw [hs1o]; exact hbt) (by rw [hs1o]; exact hfd) (by rw [← hs1]; rfl) (by simp) (by simp [fuelOf])
      rcases hdm : decodeMessages (fuelOf s1) s1 with ⟨s2, evs2, r⟩
      rw [hdm] at hsat
      obtain ⟨_, hi2, hr2, _⟩ := hsat
      simp only at hi2 hr2
      have hs2o : s2.o = o := by rw [hr2.o, hs1o]
      cases r with
      | panic => trivial
      | hang => trivial
      | err e =>
        simp only [List.nil_append]
        intro st' hF' hee
        rw [apiOf_fail hF', hee]
        simp [decodeTail, DecApi.fail, normCalls]
      | ok u =>
        cases u
        simp only [List.nil_append]
        intro st' hcd' hT' hF'
        unfold DecProg.fileCrc
        simp only [decodeTail]
        rw [decodeCRC_eq]
        have hlen2 := hr2.len
        match hrest2 : s2.rest with
        | [] =>
          rw [runExact_read_short _ _ _ (by simp)]
          simp only [runExact]
          rw [apiOf_fail hF']
          simp [DecApi.fail, normCalls, errC]
        | [_] =>
          rw [runExact_read_short _ _ _ (by simp)]
          simp only [runExact]
          rw [apiOf_fail hF']
          simp [DecApi.fail, normCalls, errC]
        | lo :: hi :: r3 =>
          rw [runExact_read_ok _ _ _ (by simp)]
          dsimp only
          generalize hc2 : DecProg.le16 (List.take 2 (lo :: hi :: r3)) = c
          have hc2' : c = lo + 256 * hi := by rw [← hc2]; rfl
          subst hc2'
          have hd2 : List.drop 2 (lo :: hi :: r3) = r3 := rfl
          rw [hd2, hcd'.crc, ← hcd'.chk]
          by_cases hc : s2.o.chk = true ∧ s2.q.crc16 ≠ lo + 256 * hi
          · rw [if_pos hc, if_pos hc]
            simp only [runExact]
            rw [apiOf_fail hF']
            simp [DecApi.fail, normCalls, errC]
          · rw [if_neg hc, if_neg hc]
            simp only
            rw [hcd'.chk]
            obtain ⟨t', hf', hsh'⟩ := hF'
            -- (C)'s decoder after the sequence: a new decoder on the rest of the stream
            have ha2 : a2.d = St.fresh o r3 := by
              rw [ha2d, hdm]
              simp only [decodeTail]
              rw [decodeCRC_eq, hrest2]
              simp only
              rw [if_neg hc]
              simp only [release, resetSeq, St.fresh, hs2o]
            have ha2n' : (a2.n == 0) = false := by
              have hx : (decodeTail (decodeMessages (fuelOf s1) s1)).1.rest = r3 := by rw [← ha2d, ha2]; rfl
              cases first with
              | true =>
                have := ha2f rfl
                rw [hx] at this
                have h3 : r3.length + 2 = s2.rest.length := by rw [hrest2]; simp
                rw [hs1r] at hlen2
                simp; omega
              | false =>
                have : a.n ≠ 0 := by simpa using hn
                simp; omega
            have hb3 : DecApi.IsBytes r3 := by
              have := hi2.1
              rw [hrest2] at this
              exact fun x hx => this x (by simp [hx])
            have hl3 : r3.length < 4294967296 := by
              have h3 : r3.length + 2 = s2.rest.length := by rw [hrest2]; simp
              rw [hs1r] at hlen2; omega
            have hih := ih a2 r3 false _ _ _ ha2 ha2n' hb3 hl3
              (fold_snoc_seq _ _ _ _ _ hf' h.size ((List.take (h.size - 1) (List.drop 1 bs)).headD 0)
                (DecProg.le16 (List.drop 1 (List.take (h.size - 1) (List.drop 1 bs)))) h.dataSize h.crc (lo + 256 * hi) st'.msgs)
              (by simp only; rw [hsh'.o, hs2o]) rfl rfl
            rw [hih, normCalls_cons, List.append_assoc]
            have hhdr : s2.q.hdr = ⟨h.size, ((List.take (h.size - 1) (List.drop 1 bs)).headD 0),
                (DecProg.le16 (List.drop 1 (List.take (h.size - 1) (List.drop 1 bs)))), h.dataSize, h.crc⟩ := by
              rw [hr2.hdr, ← hs1]; rfl
            simp only [hhdr, hsh'.msgs, List.singleton_append]

end Fit.Link
