import FitProps.DecoderApiLemmas
/-! Lemmas behind C07 (history independence): the record loops do not depend on their fuel, the loop of `Decode`
continues the loop of `PeekFileId` (`loop_split`), a header that decodes with checksums on decodes alike with checksums
off (`decodeFileHeader_noChk`), and `discardMessages` ends exactly at the end of the data window wherever inside the
window it starts (`discardMessages_spec`). -/
namespace Fit.DecApi
open Fit.Crc Fit.Value Fit.Gen Fit.Gen.DecApi


/-- with enough fuel the record loop does not depend on the fuel -/
theorem decodeMessages_fuel : ∀ (f : Nat) (s : St), Inv s → fuelOf s ≤ f →
    decodeMessages f s = decodeMessages (fuelOf s) s
  | 0, s, _, hf => by simp [fuelOf] at hf
  | f + 1, s, hi, hf => by
    have hfo : fuelOf s = s.rest.length + 1 := rfl
    rw [hfo]
    unfold decodeMessages
    split
    · have hm := decodeMessage_sat s hi
      cases hr : decodeMessage s with
      | ok p =>
        obtain ⟨s', ev⟩ := p
        rw [hr] at hm
        obtain ⟨m1, hlt⟩ := hm
        simp only at m1 hlt ⊢
        have h1 := decodeMessages_fuel f s' m1.1 (by simp only [fuelOf] at hf ⊢; omega)
        have h2 := decodeMessages_fuel s.rest.length s' m1.1 (by simp only [fuelOf]; omega)
        rw [h1, h2]
      | err e => rfl
      | panic => rfl
      | hang => rfl
    · rfl

theorem peekLoop_fuel : ∀ (f : Nat) (s : St), Inv s → fuelOf s ≤ f →
    peekLoop f s = peekLoop (fuelOf s) s
  | 0, s, _, hf => by simp [fuelOf] at hf
  | f + 1, s, hi, hf => by
    have hfo : fuelOf s = s.rest.length + 1 := rfl
    rw [hfo]
    unfold peekLoop
    split
    · have hm := decodeMessage_sat s hi
      cases hr : decodeMessage s with
      | ok p =>
        obtain ⟨s', ev⟩ := p
        rw [hr] at hm
        obtain ⟨m1, hlt⟩ := hm
        simp only at m1 hlt ⊢
        have h1 := peekLoop_fuel f s' m1.1 (by simp only [fuelOf] at hf ⊢; omega)
        have h2 := peekLoop_fuel s.rest.length s' m1.1 (by simp only [fuelOf]; omega)
        rw [h1, h2]
      | err e => rfl
      | panic => rfl
      | hang => rfl
    · rfl

theorem peekPast_fuel : ∀ (f : Nat) (s : St), Inv s → fuelOf s ≤ f →
    peekPast f s = peekPast (fuelOf s) s
  | 0, s, _, hf => by simp [fuelOf] at hf
  | f + 1, s, hi, hf => by
    have hfo : fuelOf s = s.rest.length + 1 := rfl
    rw [hfo]
    unfold peekPast
    split
    · have hm := decodeMessage_sat s hi
      cases hr : decodeMessage s with
      | ok p =>
        obtain ⟨s', ev⟩ := p
        rw [hr] at hm
        obtain ⟨m1, hlt⟩ := hm
        simp only at m1 hlt ⊢
        have h1 := peekPast_fuel f s' m1.1 (by simp only [fuelOf] at hf ⊢; omega)
        have h2 := peekPast_fuel s.rest.length s' m1.1 (by simp only [fuelOf]; omega)
        rw [h1, h2]
      | err e => rfl
      | panic => rfl
      | hang => rfl
    · rfl


/-- the record loop of `Decode` continued after the loop of `PeekFileId` (which never started a record outside the data
window): the peek's listener calls first, then what the rest of the loop does; if the peek failed, the loop fails alike -/
def contAfterPeek (p : LoopOut) : LoopOut :=
  match p.2.2 with
  | .ok () => let q := decodeMessages (fuelOf p.1) p.1; (q.1, p.2.1 ++ q.2.1, q.2.2)
  | _ => p

theorem loop_split (n : Nat) : ∀ (s : St), s.rest.length = n → Inv s → peekPast (fuelOf s) s = false →
    decodeMessages (fuelOf s) s = contAfterPeek (peekLoop (fuelOf s) s) := by
  induction n using Nat.strongRecOn with
  | _ n IH =>
    intro s hn hi hp
    have hfo : fuelOf s = s.rest.length + 1 := rfl
    rw [hfo] at hp ⊢
    unfold peekLoop
    unfold peekPast at hp
    split
    · rename_i hnone
      simp only [hnone, if_true, Bool.or_eq_false_iff, decide_eq_false_iff_not] at hp
      obtain ⟨hcur, hp'⟩ := hp
      have hcur' : s.q.cur < s.q.hdr.dataSize := by omega
      unfold decodeMessages
      simp only [hcur', if_true]
      have hm := decodeMessage_sat s hi
      cases hr : decodeMessage s with
      | ok p =>
        obtain ⟨s', ev⟩ := p
        rw [hr] at hm hp'
        obtain ⟨m1, hlt⟩ := hm
        simp only at m1 hlt hp' ⊢
        have hf' : fuelOf s' ≤ s.rest.length := by simp only [fuelOf]; omega
        rw [decodeMessages_fuel _ s' m1.1 hf', peekLoop_fuel _ s' m1.1 hf']
        rw [peekPast_fuel _ s' m1.1 hf'] at hp'
        have ih := IH s'.rest.length (by omega) s' rfl m1.1 hp'
        rw [ih]
        rcases hpk : peekLoop (fuelOf s') s' with ⟨s2, evs1, r⟩
        cases r with
        | ok u => simp [contAfterPeek]
        | err e => simp [contAfterPeek]
        | panic => simp [contAfterPeek]
        | hang => simp [contAfterPeek]
      | err e => simp [loopFail, contAfterPeek]
      | panic => simp [loopFail, contAfterPeek]
      | hang => simp [loopFail, contAfterPeek]
    · simp [contAfterPeek, hfo]


/-- the same decoder with checksums off (what `Discard` works with) -/
def noChk (s : St) : St := { s with o := { s.o with chk := false } }

theorem rawRead_noChk (k : Nat) (s : St) :
    rawRead k (noChk s) = (match rawRead k s with | .ok (b, s') => .ok (b, noChk s') | .err e => .err e | .panic => .panic | .hang => .hang) := by
  unfold rawRead noChk
  split
  · rfl
  · split <;> rfl

theorem decodeFileHeader_noChk (s s' : St) (h : decodeFileHeader s = .ok s') :
    decodeFileHeader (noChk s) = .ok (noChk s') := by
  unfold decodeFileHeader at h ⊢
  rw [rawRead_noChk]
  cases h1 : rawRead 1 s with
  | err e => rw [h1] at h; cases h
  | panic => rw [h1] at h; cases h
  | hang => rw [h1] at h; cases h
  | ok p =>
    obtain ⟨b, s1⟩ := p
    rw [h1] at h
    simp only [Bind.bind, Res.bind] at h ⊢
    cases h2 : idx b 0 with
    | err e => rw [h2] at h; cases h
    | panic => rw [h2] at h; cases h
    | hang => rw [h2] at h; cases h
    | ok size =>
      rw [h2] at h
      simp only at h ⊢
      split at h
      · cases h
      rename_i hsz
      simp only [hsz, if_false]
      rw [rawRead_noChk]
      cases h3 : rawRead (size - 1) s1 with
      | err e => rw [h3] at h; cases h
      | panic => rw [h3] at h; cases h
      | hang => rw [h3] at h; cases h
      | ok p2 =>
        obtain ⟨b2, s2⟩ := p2
        rw [h3] at h
        simp only at h ⊢
        have hnc : (noChk s2).o.chk = false := rfl
        have hrest : (noChk s2).rest = s2.rest := rfl
        have hq : (noChk s2).q = s2.q := rfl
        have hlook : (noChk s2).look = s2.look := rfl
        have hcrc1 : (noChk s1).q.crc16 = s1.q.crc16 := rfl
        -- the pure part of the header parse does not look at the options; with checksums off the first branch is taken
        have fin : ∀ (h : Hdr), (Pure.pure { s2 with q := { s2.q with hdr := h, crc16 := 0 } } : Res St) = Res.ok s' →
            (Pure.pure { noChk s2 with q := { (noChk s2).q with hdr := h, crc16 := 0 } } : Res St) = Res.ok (noChk s') := by
          intro h hh; cases hh; rfl
        repeat' (split at h <;> try (cases h; done))
        all_goals
          have hf := fin _ h
          clear h fin
          simp_all


theorem readN_eq (k : Nat) (s : St) (hk : k ≤ reservedbuf) :
    readN k s = if k ≤ s.rest.length then
        .ok (s.rest.take k, { s with rest := s.rest.drop k, q := { s.q with cur := (s.q.cur + k) % 4294967296, crc16 := (if s.o.chk then write s.q.crc16 (s.rest.take k) else s.q.crc16) } })
      else .err .eof := by
  unfold readN rawRead
  have : ¬ k > reservedbuf := by omega
  simp only [this, if_false]
  by_cases h : k ≤ s.rest.length
  · have h' := (hasN_iff s.rest k).mpr h
    simp only [h', h, if_true]
    rfl
  · have h' : Fit.Integrity.hasN s.rest k = false := by
      cases hh : Fit.Integrity.hasN s.rest k
      · rfl
      · exact absurd ((hasN_iff s.rest k).mp hh) h
    simp only [h', h, if_false]
    rfl

/-- where `discardMessages` ends: exactly at the end of the data window, or at the end of the stream -/
theorem discardMessages_spec : ∀ (f : Nat) (s : St), s.rest.length < f → s.q.cur ≤ s.q.hdr.dataSize →
    s.q.hdr.dataSize < 4294967296 →
    (s.q.hdr.dataSize - s.q.cur ≤ s.rest.length →
      ∃ s', discardMessages f s = .ok s' ∧ s'.rest = s.rest.drop (s.q.hdr.dataSize - s.q.cur) ∧ s'.o = s.o ∧ s'.look = s.look) ∧
    (s.rest.length < s.q.hdr.dataSize - s.q.cur → discardMessages f s = .err .eof)
  | 0, s, hf, _, _ => by omega
  | f + 1, s, hf, hc, hd => by
    unfold discardMessages
    by_cases hlt : s.q.cur < s.q.hdr.dataSize
    · simp only [hlt, if_true]
      have hsz : min (s.q.hdr.dataSize - s.q.cur) reservedbuf ≤ reservedbuf := Nat.min_le_right _ _
      have hpos : 0 < min (s.q.hdr.dataSize - s.q.cur) reservedbuf := by simp only [reservedbuf]; omega
      rw [readN_eq _ s hsz]
      by_cases hen : min (s.q.hdr.dataSize - s.q.cur) reservedbuf ≤ s.rest.length
      · simp only [hen, if_true]
        show (_ ∧ _)
        simp only [Bind.bind, Res.bind]
        generalize hk : min (s.q.hdr.dataSize - s.q.cur) reservedbuf = k at *
        have hkle : k ≤ s.q.hdr.dataSize - s.q.cur := hk ▸ Nat.min_le_left _ _
        have hmod : (s.q.cur + k) % 4294967296 = s.q.cur + k := Nat.mod_eq_of_lt (by omega)
        have ih := discardMessages_spec f
          { s with rest := s.rest.drop k, q := { s.q with cur := (s.q.cur + k) % 4294967296, crc16 := (if s.o.chk then write s.q.crc16 (s.rest.take k) else s.q.crc16) } }
          (by simp only [List.length_drop]; omega) (by simp only [hmod]; omega) hd
        simp only [hmod, List.length_drop, List.drop_drop] at ih ⊢
        constructor
        · intro hle
          obtain ⟨s', h1, h2, h3, h4⟩ := ih.1 (by omega)
          refine ⟨s', h1, ?_, h3, h4⟩
          rw [h2]; congr 1; omega
        · intro hgt
          exact ih.2 (by omega)
      · simp only [hen, if_false]
        constructor
        · intro hle
          have : min (s.q.hdr.dataSize - s.q.cur) reservedbuf ≤ s.q.hdr.dataSize - s.q.cur := Nat.min_le_left _ _
          omega
        · intro _; rfl
    · simp only [hlt, if_false]
      have : s.q.hdr.dataSize - s.q.cur = 0 := by omega
      constructor
      · intro _; exact ⟨s, rfl, by rw [this]; rfl, rfl, rfl⟩
      · intro h; omega


theorem headerOnce_done (s : St) (hd : s.q.hdrDone = true) (he : s.q.err = none) : headerOnce s = .ok s := by
  unfold headerOnce; simp [hd, he]

/-- what a successful `decodeFileHeaderOnce` leaves -/
theorem headerOnce_ok (s s1 : St) (hi : Inv s) (he : s.q.err = none) (h : headerOnce s = .ok s1) :
    Inv s1 ∧ s1.o = s.o ∧ s1.look = s.look ∧ s1.q.hdrDone = true ∧ s1.q.err = none ∧ s1.rest.length ≤ s.rest.length ∧
      headerOnce s1 = .ok s1 := by
  have hh := headerOnce_sat s hi he
  rw [h] at hh
  obtain ⟨a, b, c, d, e, f⟩ := hh
  exact ⟨a, b, c, d, e, f, headerOnce_done s1 d e⟩

theorem decodeBody_after_header (s s1 : St) (hi : Inv s) (he : s.q.err = none) (h : headerOnce s = .ok s1) :
    decodeBody s1 = decodeBody s := by
  have h1 := (headerOnce_ok s s1 hi he h).2.2.2.2.2.2
  unfold decodeBody
  rw [h, h1]

theorem stepDecode_after_header (s s1 : St) (hi : Inv s) (he : s.q.err = none) (h : headerOnce s = .ok s1) :
    stepDecode s1 = stepDecode s := by
  have h1 := (headerOnce_ok s s1 hi he h).2.2.2.2.1
  unfold stepDecode
  rw [h1, he]
  exact decodeBody_after_header s s1 hi he h

theorem stepPeekFileId_after_header (s s1 : St) (hi : Inv s) (he : s.q.err = none) (h : headerOnce s = .ok s1) :
    stepPeekFileId s1 = stepPeekFileId s := by
  have h1 := headerOnce_ok s s1 hi he h
  unfold stepPeekFileId
  rw [h1.2.2.2.2.1, he]
  simp only
  rw [h, h1.2.2.2.2.2.2]

theorem stepPeekHeader_after_header (s s1 : St) (hi : Inv s) (he : s.q.err = none) (h : headerOnce s = .ok s1) :
    stepPeekHeader s1 = (s1, .header s1.q.hdr, []) ∧ stepPeekHeader s = (s1, .header s1.q.hdr, []) := by
  have h1 := headerOnce_ok s s1 hi he h
  unfold stepPeekHeader
  rw [h1.2.2.2.2.1, he]
  simp only
  rw [h, h1.2.2.2.2.2.2]
  exact ⟨rfl, rfl⟩

/-- `peekLoop` on a state that already holds a file id stops at once -/
theorem peekLoop_done (f : Nat) (s : St) (h : s.q.fileId.isNone = false) : peekLoop (f + 1) s = (s, [], .ok ()) := by
  unfold peekLoop; simp [h]

theorem noChk_o (s : St) : (noChk s).o = { s.o with chk := false } := rfl

theorem headerOnce_noChk (s s1 : St) (h : headerOnce s = .ok s1) : headerOnce (noChk s) = .ok (noChk s1) := by
  unfold headerOnce at h ⊢
  have e1 : (noChk s).q = s.q := rfl
  rw [e1]
  split
  · rename_i hd
    simp only [hd, if_true] at h
    split at h
    · cases h
    · cases h; rfl
  · rename_i hd
    simp only [hd] at h
    cases hr : decodeFileHeader s with
    | ok s' =>
      rw [hr] at h
      simp only [Bool.false_eq_true, if_false, Res.ok.injEq] at h
      subst h
      rw [decodeFileHeader_noChk s s' hr]
      rfl
    | err e => rw [hr] at h; cases h
    | panic => rw [hr] at h; cases h
    | hang => rw [hr] at h; cases h


theorem Reads.o {s s' : St} (h : Reads s s') : s'.o = s.o := by obtain ⟨_, _, _, _, h, _⟩ := h; exact h
theorem Reads.hdr {s s' : St} (h : Reads s s') : s'.q.hdr = s.q.hdr := by obtain ⟨_, _, _, _, _, h, _⟩ := h; exact h
theorem Reads.hdrDone {s s' : St} (h : Reads s s') : s'.q.hdrDone = s.q.hdrDone := by obtain ⟨_, _, _, _, _, _, h, _⟩ := h; exact h
theorem Reads.err {s s' : St} (h : Reads s s') : s'.q.err = s.q.err := by obtain ⟨_, _, _, _, _, _, _, h⟩ := h; exact h

/-- a successful `Decode` leaves the decoder as new on the rest of the stream, which is shorter -/
theorem stepDecode_fit (s s' : St) (f : Fit) (evs : List Event) (hi : Inv s) (he : s.q.err = none)
    (h : stepDecode s = (s', .fit f, evs)) : s' = St.fresh s.o s'.rest ∧ s'.rest.length < s.rest.length ∧ Inv s' := by
  have hg := stepDecode_good s hi
  rw [h] at hg
  refine ⟨?_, ?_, hg.2.2.1⟩
  all_goals
    unfold stepDecode at h
    rw [he] at h
    simp only at h
    unfold decodeBody at h
    cases hr : headerOnce s with
    | err e => rw [hr] at h; simp [failHeader, fail] at h
    | panic => rw [hr] at h; simp [failHeader, fail] at h
    | hang => rw [hr] at h; simp [failHeader, fail] at h
    | ok s1 =>
      rw [hr] at h
      simp only at h
      have h1 := headerOnce_ok s s1 hi he hr
      have hm := decodeMessages_sat (fuelOf s1) s1 h1.1 (by simp [fuelOf])
      rcases hd : decodeMessages (fuelOf s1) s1 with ⟨s2, evs2, r⟩
      rw [hd] at hm h
      obtain ⟨_, i2, r2, _⟩ := hm
      simp only at i2 r2 h
      cases r with
      | err e => simp [fail] at h
      | panic => simp [fail] at h
      | hang => simp [fail] at h
      | ok u =>
        simp only at h
        have hc := decodeCRC_sat s2 i2
        cases hcr : decodeCRC s2 with
        | err e => rw [hcr] at h; simp [fail] at h
        | panic => rw [hcr] at hc; exact hc.elim
        | hang => rw [hcr] at hc; exact hc.elim
        | ok s3 =>
          rw [hcr] at hc h
          obtain ⟨c0, c1, g1, g2, _⟩ := hc
          simp only [Prod.mk.injEq] at h
          obtain ⟨hs', _, _⟩ := h
          subst hs'
          first
            | (show release (resetSeq s3) = St.fresh s.o s3.rest
               have : s3.o = s.o := by rw [g2]; show s2.o = s.o; rw [r2.o, h1.2.1]
               simp only [release, resetSeq, St.fresh, this])
            | (show s3.rest.length < s.rest.length
               have l1 := h1.2.2.2.2.2.1
               have l2 := r2.len
               rw [g1] at l2
               simp only [List.length_append, List.length_cons, List.length_nil] at l2
               omega)


theorem Opts.restore_chk (o : Opts) : { ({ o with chk := false } : Opts) with chk := o.chk } = o := by cases o; rfl

/-- the tail of `Discard` once the header is decoded (checksums off): messages, the two CRC bytes, `reset()`; checksum option restored -/
def discardTail (chk : Bool) (s1 : St) : StepOut :=
  let restore (t : St) : St := { t with o := { t.o with chk := chk } }
  match discardMessages (fuelOf s1) s1 with
  | .ok s2 =>
    match readN 2 s2 with
    | .ok (_, s3) => (restore (resetSeq s3), .done, [])
    | r => let (s', o) := fail s2 r; (restore s', o, [])
  | r => let (s', o) := fail s1 r; (restore s', o, [])

theorem stepDiscard_eq (s s1 : St) (he : s.q.err = none) (h : headerOnce (noChk s) = .ok s1) :
    stepDiscard s = discardTail s.o.chk s1 := by
  unfold stepDiscard discardTail
  rw [he]
  simp only
  show (match headerOnce (noChk s) with | .ok s1 => _ | r => _) = _
  rw [h]
  rfl

/-- where the tail of `Discard` ends: behind the data window and the two CRC bytes, the decoder as new — or at the end of the stream -/
theorem discardTail_spec (chk : Bool) (s1 : St) (hc : s1.q.cur ≤ s1.q.hdr.dataSize) (hd : s1.q.hdr.dataSize < 4294967296) :
    let k := s1.q.hdr.dataSize - s1.q.cur
    (k + 2 ≤ s1.rest.length →
      discardTail chk s1 = ({ o := { s1.o with chk := chk }, rest := s1.rest.drop (k + 2), q := {}, look := {} }, .done, [])) ∧
    (s1.rest.length < k + 2 → (discardTail chk s1).2.1 = .err .eof ∧ (discardTail chk s1).1.q.err = some .eof) := by
  intro k
  have hs := discardMessages_spec (fuelOf s1) s1 (by simp [fuelOf]) hc hd
  unfold discardTail
  constructor
  · intro hlen
    obtain ⟨s2, h1, h2, h3, _⟩ := hs.1 (by omega)
    rw [h1]
    simp only
    rw [readN_eq 2 s2 (by decide)]
    have h2' : 2 ≤ s2.rest.length := by rw [h2, List.length_drop]; omega
    rw [if_pos h2']
    simp only [resetSeq, h3, h2, List.drop_drop]
    rfl
  · intro hlen
    by_cases hk : k ≤ s1.rest.length
    · obtain ⟨s2, h1, h2, _, _⟩ := hs.1 hk
      rw [h1]
      simp only
      rw [readN_eq 2 s2 (by decide)]
      have h2' : ¬ 2 ≤ s2.rest.length := by rw [h2, List.length_drop]; omega
      rw [if_neg h2']
      exact ⟨rfl, rfl⟩
    · rw [hs.2 (by omega)]
      exact ⟨rfl, rfl⟩


/-- the tail of `Decode` after the record loop: CRC, `reset()`, release -/
def decodeTail (l : LoopOut) : StepOut :=
  match l with
  | (s2, evs, .ok ()) =>
    match decodeCRC s2 with
    | .ok s3 => (release (resetSeq s3), .fit ⟨s3.q.hdr, s3.q.msgs.reverse, s3.q.crc⟩, evs)
    | r => let (s', o) := fail s2 r; (release s', o, evs)
  | (s2, evs, r) => let (s', o) := fail s2 r; (release s', o, evs)

theorem decodeBody_eq (s s1 : St) (h : headerOnce s = .ok s1) :
    decodeBody s = decodeTail (decodeMessages (fuelOf s1) s1) := by
  unfold decodeBody decodeTail
  rw [h]
  rfl

/-- the tail only passes the listener calls through -/
theorem decodeTail_events (s2 : St) (evs pre : List Event) (r : Res Unit) :
    decodeTail (s2, pre ++ evs, r) = ((decodeTail (s2, evs, r)).1, (decodeTail (s2, evs, r)).2.1, pre ++ (decodeTail (s2, evs, r)).2.2) := by
  unfold decodeTail
  cases r with
  | ok u => simp only; cases decodeCRC s2 <;> rfl
  | err e => rfl
  | panic => rfl
  | hang => rfl

/-- **`PeekFileId` is transparent for `Decode`** (when the peek stayed inside the data window): the decoder state,
the result and the listener calls of peek + decode together are those of a decode alone -/
theorem decode_after_peek (s s1 s2 : St) (evs1 : List Event) (hi : Inv s) (he : s.q.err = none)
    (hh : headerOnce s = .ok s1) (hp : peekLoop (fuelOf s1) s1 = (s2, evs1, .ok ())) (hnp : peekPast (fuelOf s1) s1 = false) :
    stepDecode s = ((stepDecode s2).1, (stepDecode s2).2.1, evs1 ++ (stepDecode s2).2.2) := by
  have h1 := headerOnce_ok s s1 hi he hh
  have hpl := peekLoop_sat (fuelOf s1) s1 h1.1 (by simp [fuelOf])
  rw [hp] at hpl
  obtain ⟨_, i2, r2, _⟩ := hpl
  simp only at i2 r2
  have e2 : s2.q.err = none := by rw [r2.err]; exact h1.2.2.2.2.1
  have d2 : s2.q.hdrDone = true := by rw [r2.hdrDone]; exact h1.2.2.2.1
  have hs := loop_split s1.rest.length s1 rfl h1.1 hnp
  rw [hp] at hs
  unfold stepDecode
  rw [he, e2]
  simp only
  rw [decodeBody_eq s s1 hh, decodeBody_eq s2 s2 (headerOnce_done s2 d2 e2), hs]
  simp only [contAfterPeek]
  rcases decodeMessages (fuelOf s2) s2 with ⟨sf, evs2, r⟩
  exact decodeTail_events sf evs2 evs1 r

/-- a `PeekFileId` that fails inside the data window fails where `Decode` fails, with the same error and listener calls -/
theorem decode_when_peek_fails (s s1 s2 : St) (evs1 : List Event) (e : Err) (hi : Inv s) (he : s.q.err = none)
    (hh : headerOnce s = .ok s1) (hp : peekLoop (fuelOf s1) s1 = (s2, evs1, .err e)) (hnp : peekPast (fuelOf s1) s1 = false) :
    (stepDecode s).2 = (.err e, evs1) := by
  have h1 := headerOnce_ok s s1 hi he hh
  have hs := loop_split s1.rest.length s1 rfl h1.1 hnp
  rw [hp] at hs
  unfold stepDecode
  rw [he]
  simp only
  rw [decodeBody_eq s s1 hh, hs]
  rfl

theorem decode_when_header_fails (s : St) (e : Err) (he : s.q.err = none) (hh : headerOnce s = .err e) :
    (stepDecode s).2 = (.err e, []) := by
  unfold stepDecode decodeBody
  rw [he]
  simp only
  rw [hh]
  rfl
end Fit.DecApi
