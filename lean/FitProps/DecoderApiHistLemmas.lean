import FitProps.DecoderApiLemmas
import FitProps.DecoderApiSameOpSpec
/-! Lemmas behind C07 (history independence): the record loops do not depend on their fuel, the loop of `Decode`
continues the loop of `PeekFileId` (`loop_split`), a header that decodes with checksums on decodes alike with checksums
off (`decodeFileHeader_noChk`), and `discardMessages` ends exactly at the end of the data window wherever inside the
window it starts (`discardMessages_spec`). -/
namespace Fit.DecApi
open Fit.Crc Fit.Value Fit.Gen Fit.Gen.DecApi


/-- with enough fuel the record loop does not depend on the fuel -/
theorem decodeMessages_fuel : ∀ (f : Nat) (s : St), Inv s → fuelOf s ≤ f →
    decodeMessages f s = decodeMessages (fuelOf s) s
  | 0, s, _, hf => by simp [fuelOf] at hf
  | f + 1, s, hi, hf => by
    have hfo : fuelOf s = s.rest.length + 1 := rfl
    rw [hfo]
    unfold decodeMessages
    split
    · have hm := decodeMessage_sat s hi
      cases hr : decodeMessage s with
      | ok p =>
        obtain ⟨s', ev⟩ := p
        rw [hr] at hm
        obtain ⟨m1, hlt⟩ := hm
        simp only at m1 hlt ⊢
        have h1 := decodeMessages_fuel f s' m1.1 (by simp only [fuelOf] at hf ⊢; omega)
        have h2 := decodeMessages_fuel s.rest.length s' m1.1 (by simp only [fuelOf]; omega)
        rw [h1, h2]
      | err e => rfl
      | panic => rfl
      | hang => rfl
    · rfl

theorem peekLoop_fuel : ∀ (f : Nat) (s : St), Inv s → fuelOf s ≤ f →
    peekLoop f s = peekLoop (fuelOf s) s
  | 0, s, _, hf => by simp [fuelOf] at hf
  | f + 1, s, hi, hf => by
    have hfo : fuelOf s = s.rest.length + 1 := rfl
    rw [hfo]
    unfold peekLoop
    split
    · have hm := decodeMessage_sat s hi
      cases hr : decodeMessage s with
      | ok p =>
        obtain ⟨s', ev⟩ := p
        rw [hr] at hm
        obtain ⟨m1, hlt⟩ := hm
        simp only at m1 hlt ⊢
        have h1 := peekLoop_fuel f s' m1.1 (by simp only [fuelOf] at hf ⊢; omega)
        have h2 := peekLoop_fuel s.rest.length s' m1.1 (by simp only [fuelOf]; omega)
        rw [h1, h2]
      | err e => rfl
      | panic => rfl
      | hang => rfl
    · rfl


/-- the record loop of `Decode` continued after the loop of `PeekFileId` (which stops at the first file_id message or at the
end of the data window): the peek's listener calls first, then what the rest of the loop does; if the peek failed, the
loop fails alike -/
def contAfterPeek (p : LoopOut) : LoopOut :=
  match p.2.2 with
  | .ok () => let q := decodeMessages (fuelOf p.1) p.1; (q.1, p.2.1 ++ q.2.1, q.2.2)
  | _ => p

theorem loop_split (n : Nat) : ∀ (s : St), s.rest.length = n → Inv s →
    decodeMessages (fuelOf s) s = contAfterPeek (peekLoop (fuelOf s) s) := by
  induction n using Nat.strongRecOn with
  | _ n IH =>
    intro s hn hi
    have hfo : fuelOf s = s.rest.length + 1 := rfl
    rw [hfo]
    unfold peekLoop
    split
    · rename_i hc
      have hcur' : s.q.cur < s.q.hdr.dataSize := hc.2
      unfold decodeMessages
      simp only [hcur', if_true]
      have hm := decodeMessage_sat s hi
      cases hr : decodeMessage s with
      | ok p =>
        obtain ⟨s', ev⟩ := p
        rw [hr] at hm
        obtain ⟨m1, hlt⟩ := hm
        simp only at m1 hlt ⊢
        have hf' : fuelOf s' ≤ s.rest.length := by simp only [fuelOf]; omega
        rw [decodeMessages_fuel _ s' m1.1 hf', peekLoop_fuel _ s' m1.1 hf']
        have ih := IH s'.rest.length (by omega) s' rfl m1.1
        rw [ih]
        rcases hpk : peekLoop (fuelOf s') s' with ⟨s2, evs1, r⟩
        cases r with
        | ok u => simp [contAfterPeek]
        | err e => simp [contAfterPeek]
        | panic => simp [contAfterPeek]
        | hang => simp [contAfterPeek]
      | err e => simp [loopFail, contAfterPeek]
      | panic => simp [loopFail, contAfterPeek]
      | hang => simp [loopFail, contAfterPeek]
    · simp [contAfterPeek, hfo]

theorem decodeMessagesCtx_fuel : ∀ (f k : Nat) (s : St), Inv s → fuelOf s ≤ f →
    decodeMessagesCtx f k s = decodeMessagesCtx (fuelOf s) k s
  | f, 0, s, _, _ => by
    have hfo : fuelOf s = s.rest.length + 1 := rfl
    rw [hfo]
    unfold decodeMessagesCtx; rfl
  | 0, k + 1, s, _, hf => by simp [fuelOf] at hf
  | f + 1, k + 1, s, hi, hf => by
    have hfo : fuelOf s = s.rest.length + 1 := rfl
    rw [hfo]
    unfold decodeMessagesCtx
    split
    · have hm := decodeMessage_sat s hi
      cases hr : decodeMessage s with
      | ok p =>
        obtain ⟨s', ev⟩ := p
        rw [hr] at hm
        obtain ⟨m1, hlt⟩ := hm
        simp only at m1 hlt ⊢
        have h1 := decodeMessagesCtx_fuel f k s' m1.1 (by simp only [fuelOf] at hf ⊢; omega)
        have h2 := decodeMessagesCtx_fuel s.rest.length k s' m1.1 (by simp only [fuelOf]; omega)
        rw [h1, h2]
      | err e => rfl
      | panic => rfl
      | hang => rfl
    · rfl

theorem peekCount_fuel : ∀ (f : Nat) (s : St), Inv s → fuelOf s ≤ f →
    peekCount f s = peekCount (fuelOf s) s
  | 0, s, _, hf => by simp [fuelOf] at hf
  | f + 1, s, hi, hf => by
    have hfo : fuelOf s = s.rest.length + 1 := rfl
    rw [hfo]
    unfold peekCount
    split
    · have hm := decodeMessage_sat s hi
      cases hr : decodeMessage s with
      | ok p =>
        obtain ⟨s', ev⟩ := p
        rw [hr] at hm
        obtain ⟨m1, hlt⟩ := hm
        simp only at m1 hlt ⊢
        have h1 := peekCount_fuel f s' m1.1 (by simp only [fuelOf] at hf ⊢; omega)
        have h2 := peekCount_fuel s.rest.length s' m1.1 (by simp only [fuelOf]; omega)
        rw [h1, h2]
      | err e => rfl
      | panic => rfl
      | hang => rfl
    · rfl

/-- the record loop of `DecodeWithContext` (context first seen cancelled after `k` more records) continued after a
successful loop of `PeekFileId` -/
def contAfterPeekCtx (k : Nat) (p : LoopOut) : LoopOut :=
  let q := decodeMessagesCtx (fuelOf p.1) k p.1
  (q.1, p.2.1 ++ q.2.1, q.2.2)

/-- a cancellation seen after `k` more records following a successful peek of `j` records is a cancellation seen after
`j + k` records of the sequence -/
theorem loop_split_ctx (k : Nat) (n : Nat) : ∀ (s : St), s.rest.length = n → Inv s →
    (peekLoop (fuelOf s) s).2.2 = .ok () →
    decodeMessagesCtx (fuelOf s) (peekCount (fuelOf s) s + k) s = contAfterPeekCtx k (peekLoop (fuelOf s) s) := by
  induction n using Nat.strongRecOn with
  | _ n IH =>
    intro s hn hi hok
    have hfo : fuelOf s = s.rest.length + 1 := rfl
    rw [hfo] at hok ⊢
    unfold peekLoop at hok ⊢
    unfold peekCount
    split
    · rename_i hc
      simp only [hc, and_self, if_true] at hok
      have hcur' : s.q.cur < s.q.hdr.dataSize := hc.2
      have hm := decodeMessage_sat s hi
      cases hr : decodeMessage s with
      | ok p =>
        obtain ⟨s', ev⟩ := p
        rw [hr] at hm hok
        obtain ⟨m1, hlt⟩ := hm
        simp only at m1 hlt hok ⊢
        have hf' : fuelOf s' ≤ s.rest.length := by simp only [fuelOf]; omega
        rw [peekLoop_fuel _ s' m1.1 hf'] at hok ⊢
        rw [peekCount_fuel _ s' m1.1 hf']
        have ih := IH s'.rest.length (by omega) s' rfl m1.1 hok
        have hk : peekCount (fuelOf s') s' + 1 + k = (peekCount (fuelOf s') s' + k) + 1 := by omega
        rw [hk]
        unfold decodeMessagesCtx
        simp only [hcur', if_true, hr]
        rw [decodeMessagesCtx_fuel _ _ s' m1.1 hf', ih]
        rcases hpk : peekLoop (fuelOf s') s' with ⟨s2, evs1, r⟩
        simp [contAfterPeekCtx]
      | err e => rw [hr] at hok; simp [loopFail] at hok
      | panic => rw [hr] at hok; simp [loopFail] at hok
      | hang => rw [hr] at hok; simp [loopFail] at hok
    · simp [contAfterPeekCtx, hfo]

/-- the same decoder with checksums off (what `Discard` works with) -/
def noChk (s : St) : St := { s with o := { s.o with chk := false } }

theorem rawRead_noChk (k : Nat) (s : St) :
    rawRead k (noChk s) = (match rawRead k s with | .ok (b, s') => .ok (b, noChk s') | .err e => .err e | .panic => .panic | .hang => .hang) := by
  unfold rawRead noChk
  split
  · rfl
  · split <;> rfl

theorem decodeFileHeader_noChk (s s' : St) (h : decodeFileHeader s = .ok s') :
    decodeFileHeader (noChk s) = .ok (noChk s') := by
  unfold decodeFileHeader at h ⊢
  rw [rawRead_noChk]
  cases h1 : rawRead 1 s with
  | err e => rw [h1] at h; cases h
  | panic => rw [h1] at h; cases h
  | hang => rw [h1] at h; cases h
  | ok p =>
    obtain ⟨b, s1⟩ := p
    rw [h1] at h
    simp only [Bind.bind, Res.bind] at h ⊢
    cases h2 : idx b 0 with
    | err e => rw [h2] at h; cases h
    | panic => rw [h2] at h; cases h
    | hang => rw [h2] at h; cases h
    | ok size =>
      rw [h2] at h
      simp only at h ⊢
      split at h
      · cases h
      rename_i hsz
      simp only [hsz, if_false]
      rw [rawRead_noChk]
      cases h3 : rawRead (size - 1) s1 with
      | err e => rw [h3] at h; cases h
      | panic => rw [h3] at h; cases h
      | hang => rw [h3] at h; cases h
      | ok p2 =>
        obtain ⟨b2, s2⟩ := p2
        rw [h3] at h
        simp only at h ⊢
        have hnc : (noChk s2).o.chk = false := rfl
        have hrest : (noChk s2).rest = s2.rest := rfl
        have hq : (noChk s2).q = s2.q := rfl
        have hlook : (noChk s2).look = s2.look := rfl
        have hcrc1 : (noChk s1).q.crc16 = s1.q.crc16 := rfl
        -- the pure part of the header parse does not look at the options; with checksums off the first branch is taken
        have fin : ∀ (h : Hdr), (Pure.pure { s2 with q := { s2.q with hdr := h, crc16 := 0 } } : Res St) = Res.ok s' →
            (Pure.pure { noChk s2 with q := { (noChk s2).q with hdr := h, crc16 := 0 } } : Res St) = Res.ok (noChk s') := by
          intro h hh; cases hh; rfl
        repeat' (split at h <;> try (cases h; done))
        all_goals
          have hf := fin _ h
          clear h fin
          simp_all


theorem readN_eq (k : Nat) (s : St) (hk : k ≤ reservedbuf) :
    readN k s = if k ≤ s.rest.length then
        .ok (s.rest.take k, { s with rest := s.rest.drop k, q := { s.q with cur := (s.q.cur + k) % 4294967296, crc16 := (if s.o.chk then write s.q.crc16 (s.rest.take k) else s.q.crc16) } })
      else .err .eof := by
  unfold readN rawRead
  have : ¬ k > reservedbuf := by omega
  simp only [this, if_false]
  by_cases h : k ≤ s.rest.length
  · have h' := (hasN_iff s.rest k).mpr h
    simp only [h', h, if_true]
    rfl
  · have h' : Fit.Integrity.hasN s.rest k = false := by
      cases hh : Fit.Integrity.hasN s.rest k
      · rfl
      · exact absurd ((hasN_iff s.rest k).mp hh) h
    simp only [h', h, if_false]
    rfl

/-- where `discardMessages` ends: exactly at the end of the data window, or at the end of the stream -/
theorem discardMessages_spec : ∀ (f : Nat) (s : St), s.rest.length < f → s.q.cur ≤ s.q.hdr.dataSize →
    s.q.hdr.dataSize < 4294967296 →
    (s.q.hdr.dataSize - s.q.cur ≤ s.rest.length →
      ∃ s', discardMessages f s = .ok s' ∧ s'.rest = s.rest.drop (s.q.hdr.dataSize - s.q.cur) ∧ s'.o = s.o ∧ s'.look = s.look) ∧
    (s.rest.length < s.q.hdr.dataSize - s.q.cur → discardMessages f s = .err .eof)
  | 0, s, hf, _, _ => by omega
  | f + 1, s, hf, hc, hd => by
    unfold discardMessages
    by_cases hlt : s.q.cur < s.q.hdr.dataSize
    · simp only [hlt, if_true]
      have hsz : min (s.q.hdr.dataSize - s.q.cur) reservedbuf ≤ reservedbuf := Nat.min_le_right _ _
      have hpos : 0 < min (s.q.hdr.dataSize - s.q.cur) reservedbuf := by simp only [reservedbuf]; omega
      rw [readN_eq _ s hsz]
      by_cases hen : min (s.q.hdr.dataSize - s.q.cur) reservedbuf ≤ s.rest.length
      · simp only [hen, if_true]
        show (_ ∧ _)
        simp only [Bind.bind, Res.bind]
        generalize hk : min (s.q.hdr.dataSize - s.q.cur) reservedbuf = k at *
        have hkle : k ≤ s.q.hdr.dataSize - s.q.cur := hk ▸ Nat.min_le_left _ _
        have hmod : (s.q.cur + k) % 4294967296 = s.q.cur + k := Nat.mod_eq_of_lt (by omega)
        have ih := discardMessages_spec f
          { s with rest := s.rest.drop k, q := { s.q with cur := (s.q.cur + k) % 4294967296, crc16 := (if s.o.chk then write s.q.crc16 (s.rest.take k) else s.q.crc16) } }
          (by simp only [List.length_drop]; omega) (by simp only [hmod]; omega) hd
        simp only [hmod, List.length_drop, List.drop_drop] at ih ⊢
        constructor
        · intro hle
          obtain ⟨s', h1, h2, h3, h4⟩ := ih.1 (by omega)
          refine ⟨s', h1, ?_, h3, h4⟩
          rw [h2]; congr 1; omega
        · intro hgt
          exact ih.2 (by omega)
      · simp only [hen, if_false]
        constructor
        · intro hle
          have : min (s.q.hdr.dataSize - s.q.cur) reservedbuf ≤ s.q.hdr.dataSize - s.q.cur := Nat.min_le_left _ _
          omega
        · intro _; rfl
    · simp only [hlt, if_false]
      have : s.q.hdr.dataSize - s.q.cur = 0 := by omega
      constructor
      · intro _; exact ⟨s, rfl, by rw [this]; rfl, rfl, rfl⟩
      · intro h; omega


theorem headerOnce_done (s : St) (hd : s.q.hdrDone = true) (he : s.q.err = none) : headerOnce s = .ok s := by
  unfold headerOnce; simp [hd, he]

/-- what a successful `decodeFileHeaderOnce` leaves -/
theorem headerOnce_ok (s s1 : St) (hi : Inv s) (he : s.q.err = none) (h : headerOnce s = .ok s1) :
    Inv s1 ∧ s1.o = s.o ∧ s1.look = s.look ∧ s1.q.hdrDone = true ∧ s1.q.err = none ∧ s1.rest.length ≤ s.rest.length ∧
      headerOnce s1 = .ok s1 := by
  have hh := headerOnce_sat s hi he
  rw [h] at hh
  obtain ⟨a, b, c, d, e, f⟩ := hh
  exact ⟨a, b, c, d, e, f, headerOnce_done s1 d e⟩

theorem decodeBody_after_header (s s1 : St) (hi : Inv s) (he : s.q.err = none) (h : headerOnce s = .ok s1) :
    decodeBody s1 = decodeBody s := by
  have h1 := (headerOnce_ok s s1 hi he h).2.2.2.2.2.2
  unfold decodeBody
  rw [h, h1]

theorem stepDecode_after_header (s s1 : St) (hi : Inv s) (he : s.q.err = none) (h : headerOnce s = .ok s1) :
    stepDecode s1 = stepDecode s := by
  have h1 := (headerOnce_ok s s1 hi he h).2.2.2.2.1
  unfold stepDecode
  rw [h1, he]
  exact decodeBody_after_header s s1 hi he h

theorem stepPeekFileId_after_header (s s1 : St) (hi : Inv s) (he : s.q.err = none) (h : headerOnce s = .ok s1) :
    stepPeekFileId s1 = stepPeekFileId s := by
  have h1 := headerOnce_ok s s1 hi he h
  unfold stepPeekFileId
  rw [h1.2.2.2.2.1, he]
  simp only
  rw [h, h1.2.2.2.2.2.2]

theorem stepPeekHeader_after_header (s s1 : St) (hi : Inv s) (he : s.q.err = none) (h : headerOnce s = .ok s1) :
    stepPeekHeader s1 = (s1, .header s1.q.hdr, []) ∧ stepPeekHeader s = (s1, .header s1.q.hdr, []) := by
  have h1 := headerOnce_ok s s1 hi he h
  unfold stepPeekHeader
  rw [h1.2.2.2.2.1, he]
  simp only
  rw [h, h1.2.2.2.2.2.2]
  exact ⟨rfl, rfl⟩

/-- `peekLoop` on a state that already holds a file id stops at once -/
theorem peekLoop_done (f : Nat) (s : St) (h : ¬ (s.q.fileId.isNone ∧ s.q.cur < s.q.hdr.dataSize)) :
    peekLoop (f + 1) s = (s, [], .ok ()) := by
  unfold peekLoop; simp only [h, if_false]

theorem noChk_o (s : St) : (noChk s).o = { s.o with chk := false } := rfl

theorem headerOnce_noChk (s s1 : St) (h : headerOnce s = .ok s1) : headerOnce (noChk s) = .ok (noChk s1) := by
  unfold headerOnce at h ⊢
  have e1 : (noChk s).q = s.q := rfl
  rw [e1]
  split
  · rename_i hd
    simp only [hd, if_true] at h
    split at h
    · cases h
    · cases h; rfl
  · rename_i hd
    simp only [hd] at h
    cases hr : decodeFileHeader s with
    | ok s' =>
      rw [hr] at h
      simp only [Bool.false_eq_true, if_false, Res.ok.injEq] at h
      subst h
      rw [decodeFileHeader_noChk s s' hr]
      rfl
    | err e => rw [hr] at h; cases h
    | panic => rw [hr] at h; cases h
    | hang => rw [hr] at h; cases h


theorem Reads.o {s s' : St} (h : Reads s s') : s'.o = s.o := by obtain ⟨_, _, _, _, h, _⟩ := h; exact h
theorem Reads.hdr {s s' : St} (h : Reads s s') : s'.q.hdr = s.q.hdr := by obtain ⟨_, _, _, _, _, h, _⟩ := h; exact h
theorem Reads.hdrDone {s s' : St} (h : Reads s s') : s'.q.hdrDone = s.q.hdrDone := by obtain ⟨_, _, _, _, _, _, h, _⟩ := h; exact h
theorem Reads.err {s s' : St} (h : Reads s s') : s'.q.err = s.q.err := by obtain ⟨_, _, _, _, _, _, _, h⟩ := h; exact h

/-- a successful `Decode` leaves the decoder as new on the rest of the stream, which is shorter -/
theorem stepDecode_fit (s s' : St) (f : Fit) (evs : List Event) (hi : Inv s) (he : s.q.err = none)
    (h : stepDecode s = (s', .fit f, evs)) : s' = St.fresh s.o s'.rest ∧ s'.rest.length < s.rest.length ∧ Inv s' := by
  have hg := stepDecode_good s hi
  rw [h] at hg
  refine ⟨?_, ?_, hg.2.2.1⟩
  all_goals
    unfold stepDecode at h
    rw [he] at h
    simp only at h
    unfold decodeBody at h
    cases hr : headerOnce s with
    | err e => rw [hr] at h; simp [failHeader, fail] at h
    | panic => rw [hr] at h; simp [failHeader, fail] at h
    | hang => rw [hr] at h; simp [failHeader, fail] at h
    | ok s1 =>
      rw [hr] at h
      simp only at h
      have h1 := headerOnce_ok s s1 hi he hr
      have hm := decodeMessages_sat (fuelOf s1) s1 h1.1 (by simp [fuelOf])
      rcases hd : decodeMessages (fuelOf s1) s1 with ⟨s2, evs2, r⟩
      rw [hd] at hm h
      obtain ⟨_, i2, r2, _⟩ := hm
      simp only at i2 r2 h
      cases r with
      | err e => simp [fail] at h
      | panic => simp [fail] at h
      | hang => simp [fail] at h
      | ok u =>
        simp only at h
        have hc := decodeCRC_sat s2 i2
        cases hcr : decodeCRC s2 with
        | err e => rw [hcr] at h; simp [fail] at h
        | panic => rw [hcr] at hc; exact hc.elim
        | hang => rw [hcr] at hc; exact hc.elim
        | ok s3 =>
          rw [hcr] at hc h
          obtain ⟨c0, c1, g1, g2, _⟩ := hc
          simp only [Prod.mk.injEq] at h
          obtain ⟨hs', _, _⟩ := h
          subst hs'
          first
            | (show release (resetSeq s3) = St.fresh s.o s3.rest
               have : s3.o = s.o := by rw [g2]; show s2.o = s.o; rw [r2.o, h1.2.1]
               simp only [release, resetSeq, St.fresh, this])
            | (show s3.rest.length < s.rest.length
               have l1 := h1.2.2.2.2.2.1
               have l2 := r2.len
               rw [g1] at l2
               simp only [List.length_append, List.length_cons, List.length_nil] at l2
               omega)


theorem Opts.restore_chk (o : Opts) : { ({ o with chk := false } : Opts) with chk := o.chk } = o := by cases o; rfl

/-- the tail of `Discard` once the header is decoded (checksums off): messages, the two CRC bytes, `reset()`; checksum option restored -/
def discardTail (chk : Bool) (s1 : St) : StepOut :=
  let restore (t : St) : St := { t with o := { t.o with chk := chk } }
  match discardMessages (fuelOf s1) s1 with
  | .ok s2 =>
    match readN 2 s2 with
    | .ok (_, s3) => (restore (resetSeq s3), .done, [])
    | r => let (s', o) := fail s2 r; (restore s', o, [])
  | r => let (s', o) := fail s1 r; (restore s', o, [])

theorem stepDiscard_eq (s s1 : St) (he : s.q.err = none) (h : headerOnce (noChk s) = .ok s1) :
    stepDiscard s = discardTail s.o.chk s1 := by
  unfold stepDiscard discardTail
  rw [he]
  simp only
  show (match headerOnce (noChk s) with | .ok s1 => _ | r => _) = _
  rw [h]
  rfl

/-- where the tail of `Discard` ends: behind the data window and the two CRC bytes, the decoder as new — or at the end of the stream -/
theorem discardTail_spec (chk : Bool) (s1 : St) (hc : s1.q.cur ≤ s1.q.hdr.dataSize) (hd : s1.q.hdr.dataSize < 4294967296) :
    let k := s1.q.hdr.dataSize - s1.q.cur
    (k + 2 ≤ s1.rest.length →
      discardTail chk s1 = ({ o := { s1.o with chk := chk }, rest := s1.rest.drop (k + 2), q := {}, look := {} }, .done, [])) ∧
    (s1.rest.length < k + 2 → (discardTail chk s1).2.1 = .err .eof ∧ (discardTail chk s1).1.q.err = some .eof) := by
  intro k
  have hs := discardMessages_spec (fuelOf s1) s1 (by simp [fuelOf]) hc hd
  unfold discardTail
  constructor
  · intro hlen
    obtain ⟨s2, h1, h2, h3, _⟩ := hs.1 (by omega)
    rw [h1]
    simp only
    rw [readN_eq 2 s2 (by decide)]
    have h2' : 2 ≤ s2.rest.length := by rw [h2, List.length_drop]; omega
    rw [if_pos h2']
    simp only [resetSeq, h3, h2, List.drop_drop]
    rfl
  · intro hlen
    by_cases hk : k ≤ s1.rest.length
    · obtain ⟨s2, h1, h2, _, _⟩ := hs.1 hk
      rw [h1]
      simp only
      rw [readN_eq 2 s2 (by decide)]
      have h2' : ¬ 2 ≤ s2.rest.length := by rw [h2, List.length_drop]; omega
      rw [if_neg h2']
      exact ⟨rfl, rfl⟩
    · rw [hs.2 (by omega)]
      exact ⟨rfl, rfl⟩


theorem decodeBody_eq (s s1 : St) (h : headerOnce s = .ok s1) :
    decodeBody s = decodeTail (decodeMessages (fuelOf s1) s1) := by
  unfold decodeBody decodeTail
  rw [h]

/-- the tail only passes the listener calls through -/
theorem decodeTail_events (s2 : St) (evs pre : List Event) (r : Res Unit) :
    decodeTail (s2, pre ++ evs, r) = ((decodeTail (s2, evs, r)).1, (decodeTail (s2, evs, r)).2.1, pre ++ (decodeTail (s2, evs, r)).2.2) := by
  unfold decodeTail
  cases r with
  | ok u => simp only; cases decodeCRC s2 <;> rfl
  | err e => rfl
  | panic => rfl
  | hang => rfl

/-- **`PeekFileId` is transparent for `Decode`**: the decoder state,
the result and the listener calls of peek + decode together are those of a decode alone -/
theorem decode_after_peek (s s1 s2 : St) (evs1 : List Event) (hi : Inv s) (he : s.q.err = none)
    (hh : headerOnce s = .ok s1) (hp : peekLoop (fuelOf s1) s1 = (s2, evs1, .ok ())) :
    stepDecode s = ((stepDecode s2).1, (stepDecode s2).2.1, evs1 ++ (stepDecode s2).2.2) := by
  have h1 := headerOnce_ok s s1 hi he hh
  have hpl := peekLoop_sat (fuelOf s1) s1 h1.1 (by simp [fuelOf])
  rw [hp] at hpl
  obtain ⟨_, i2, r2, _⟩ := hpl
  simp only at i2 r2
  have e2 : s2.q.err = none := by rw [r2.err]; exact h1.2.2.2.2.1
  have d2 : s2.q.hdrDone = true := by rw [r2.hdrDone]; exact h1.2.2.2.1
  have hs := loop_split s1.rest.length s1 rfl h1.1
  rw [hp] at hs
  unfold stepDecode
  rw [he, e2]
  simp only
  rw [decodeBody_eq s s1 hh, decodeBody_eq s2 s2 (headerOnce_done s2 d2 e2), hs]
  simp only [contAfterPeek]
  rcases decodeMessages (fuelOf s2) s2 with ⟨sf, evs2, r⟩
  exact decodeTail_events sf evs2 evs1 r

/-- a `PeekFileId` that fails fails where `Decode` fails, with the same error and listener calls -/
theorem decode_when_peek_fails (s s1 s2 : St) (evs1 : List Event) (e : Err) (hi : Inv s) (he : s.q.err = none)
    (hh : headerOnce s = .ok s1) (hp : peekLoop (fuelOf s1) s1 = (s2, evs1, .err e)) :
    (stepDecode s).2 = (.err e, evs1) := by
  have h1 := headerOnce_ok s s1 hi he hh
  have hs := loop_split s1.rest.length s1 rfl h1.1
  rw [hp] at hs
  unfold stepDecode
  rw [he]
  simp only
  rw [decodeBody_eq s s1 hh, hs]
  rfl

theorem decode_when_header_fails (s : St) (e : Err) (he : s.q.err = none) (hh : headerOnce s = .err e) :
    (stepDecode s).2 = (.err e, []) := by
  unfold stepDecode decodeBody
  rw [he]
  simp only
  rw [hh]
  rfl


theorem stepDecodeCtxAt_after_header (k : Nat) (s s1 : St) (hi : Inv s) (he : s.q.err = none) (h : headerOnce s = .ok s1) :
    stepDecodeCtxAt k s1 = stepDecodeCtxAt k s := by
  have h1 := headerOnce_ok s s1 hi he h
  unfold stepDecodeCtxAt
  rw [h1.2.2.2.2.1, he]
  simp only
  unfold decodeBodyAt
  rw [h, h1.2.2.2.2.2.2]

/-- **`PeekFileId` is transparent for `DecodeWithContext`**, cancellation included: a context first seen cancelled `k`
records after a successful peek of `j` records gives what a context first seen cancelled after `j + k` records gives
without the peek -/
theorem decodeAt_after_peek (k : Nat) (s s1 s2 : St) (evs1 : List Event) (hi : Inv s) (he : s.q.err = none)
    (hh : headerOnce s = .ok s1) (hp : peekLoop (fuelOf s1) s1 = (s2, evs1, .ok ())) :
    stepDecodeCtxAt (peekCount (fuelOf s1) s1 + k) s =
      ((stepDecodeCtxAt k s2).1, (stepDecodeCtxAt k s2).2.1, evs1 ++ (stepDecodeCtxAt k s2).2.2) := by
  have h1 := headerOnce_ok s s1 hi he hh
  have hpl := peekLoop_sat (fuelOf s1) s1 h1.1 (by simp [fuelOf])
  rw [hp] at hpl
  obtain ⟨_, i2, r2, _⟩ := hpl
  simp only at i2 r2
  have e2 : s2.q.err = none := by rw [r2.err]; exact h1.2.2.2.2.1
  have d2 : s2.q.hdrDone = true := by rw [r2.hdrDone]; exact h1.2.2.2.1
  have hs := loop_split_ctx k s1.rest.length s1 rfl h1.1 (by rw [hp])
  rw [hp] at hs
  unfold stepDecodeCtxAt
  rw [he, e2]
  simp only
  unfold decodeBodyAt
  rw [hh, headerOnce_done s2 d2 e2]
  simp only
  rw [hs]
  simp only [contAfterPeekCtx]
  rcases decodeMessagesCtx (fuelOf s2) k s2 with ⟨sf, evs2, r⟩
  exact decodeTail_events sf evs2 evs1 r

/-- byte strings shorter than 4 GiB (`Decoder.cur` is a uint32) -/
def Small (l : List Nat) : Prop := IsBytes l ∧ l.length < 4294967296

def OpSmall : Op → Prop
  | .reset o b => Small b ∧ FacOK o.fac
  | _ => True

theorem Small.inv_fresh {o : Opts} {l : List Nat} (h : Small l) (hf : FacOK o.fac) : Inv (St.fresh o l) :=
  ⟨h.1, DefsOK.empty, (by decide : (0 : Nat) < 4294967296), hf⟩

/-! ### simulation against the operation-dependent bookkeeping `SameOp.specRun` (a proof device: see
FitProps/DecoderApiSameOpSpec.lean; the specification of C07 is `Fit.DecApi.specRun`, related to it in
FitProps/DecoderApiIndepLemmas.lean) -/
namespace SameOp

/-- the simulation relation between the decoder object and the specification's bookkeeping -/
def Sim (a : Api) (p : Spec) : Prop :=
  a.whole = p.whole ∧ (Small p.whole ∧ FacOK p.o.fac) ∧ Small p.cur ∧
  match p.ph with
  | .start => a.d = p.st ∧ ((a.n == 0) = p.atStart)
  | .header => headerOnce p.st = .ok a.d ∧ a.n ≠ 0
  | .fileId k lost => ∃ s1 evs1, headerOnce p.st = .ok s1 ∧ peekLoop (fuelOf s1) s1 = (a.d, evs1, .ok ()) ∧
      evs1.length = k ∧ lost = decide (a.d.q.cur > a.d.q.hdr.dataSize) ∧ a.n ≠ 0
  | .peekFailed e k => a.d.q.err = some e ∧ (stepDecode p.st).2.1 = .err e ∧ (stepDecode p.st).2.2.drop k = []
  | .dead e => a.d.q.err = some e
  | .blind => True

/-- the outcome of a step agrees with what the specification demands (if it demands anything) -/
def Meets (r : Api × Out × List Event) (d : Option (Out × List Event)) : Prop :=
  ∀ x, d = some x → (r.2.1, r.2.2) = x

theorem sim_reset (a : Api) (p : Spec) (o : Opts) (b : List Nat) (hb : Small b ∧ FacOK o.fac) :
    Sim (step a (.reset o b)).1 (specStep p (.reset o b)).1 ∧ Meets (step a (.reset o b)) (specStep p (.reset o b)).2 := by
  have hs : specStep p (.reset o b) = (Spec.fresh o b, some (.done, [])) := by
    unfold specStep; cases p.ph <;> rfl
  rw [hs]
  refine ⟨⟨rfl, hb, hb.1, ?_⟩, ?_⟩
  · show (_ ∧ _)
    exact ⟨rfl, rfl⟩
  · intro x hx; cases hx; rfl

/-- a dead decoder answers as the specification's `dead` / `peekFailed` phases demand -/
theorem sim_dead (a : Api) (p : Spec) (e : Err) (op : Op) (hop : ∀ o b, op ≠ .reset o b) (hph : p.ph = .dead e)
    (hs : Sim a p) : Sim (step a op).1 (specStep p op).1 ∧ Meets (step a op) (specStep p op).2 := by
  obtain ⟨hw, hsw, hsc, hm⟩ := hs
  rw [hph] at hm
  simp only at hm
  have hst := step_sticky a e hm op hop
  rw [hst.2]
  have hspec : specStep p op = (p, match op with | .checkIntegrity => none | _ => some (stickyOut e op, [])) := by
    unfold specStep
    cases op with
    | reset o b => exact absurd rfl (hop o b)
    | decodeCtx c => cases c <;> simp [hph, stickyOut]
    | _ => simp [hph, stickyOut]
  rw [hspec]
  refine ⟨⟨hw, hsw, hsc, by rw [hph]; exact hm⟩, ?_⟩
  intro x hx
  rw [hst.1]
  cases op <;> simp_all


theorem sim_peekFailed (a : Api) (p : Spec) (e : Err) (k : Nat) (op : Op) (hop : ∀ o b, op ≠ .reset o b)
    (hph : p.ph = .peekFailed e k) (hs : Sim a p) :
    Sim (step a op).1 (specStep p op).1 ∧ Meets (step a op) (specStep p op).2 := by
  obtain ⟨hw, hsw, hsc, hm⟩ := hs
  rw [hph] at hm
  simp only at hm
  obtain ⟨he, hd1, hd2⟩ := hm
  have hst := step_sticky a e he op hop
  rw [hst.2]
  have hdead : Sim a { p with ph := .dead e } := ⟨hw, hsw, hsc, he⟩
  have hsame : Sim a p := ⟨hw, hsw, hsc, by rw [hph]; exact ⟨he, hd1, hd2⟩⟩
  have hdec : specDecode p k (some e) = ({ p with ph := .dead e }, some (.err e, [])) := by
    unfold specDecode
    rcases hsd : stepDecode p.st with ⟨s', out, evs⟩
    rw [hsd] at hd1 hd2
    simp only at hd1 hd2 ⊢
    rw [hd1, hd2]
  cases op with
  | reset o b => exact absurd rfl (hop o b)
  | decode =>
    have : specStep p .decode = specDecode p k (some e) := by unfold specStep; simp [hph]
    rw [this, hdec]
    exact ⟨hdead, by intro x hx; cases hx; rw [hst.1]; rfl⟩
  | decodeCtx c =>
    cases c with
    | false =>
      have : specStep p (.decodeCtx false) = specDecode p k (some e) := by unfold specStep; simp [hph]
      rw [this, hdec]
      exact ⟨hdead, by intro x hx; cases hx; rw [hst.1]; rfl⟩
    | true =>
      have : specStep p (.decodeCtx true) = ({ p with ph := .dead e }, some (.err e, [])) := by unfold specStep; simp [hph]
      rw [this]
      exact ⟨hdead, by intro x hx; cases hx; rw [hst.1]; rfl⟩
  | decodeCtxAt j =>
    have : specStep p (.decodeCtxAt j) = ({ p with ph := .dead e }, some (.err e, [])) := by unfold specStep; simp [hph]
    rw [this]
    exact ⟨hdead, by intro x hx; cases hx; rw [hst.1]; rfl⟩
  | peekHeader =>
    have : specStep p .peekHeader = (p, some (.err e, [])) := by unfold specStep; simp [hph]
    rw [this]
    exact ⟨hsame, by intro x hx; cases hx; rw [hst.1]; rfl⟩
  | peekFileId =>
    have : specStep p .peekFileId = (p, some (.err e, [])) := by unfold specStep; simp [hph]
    rw [this]
    exact ⟨hsame, by intro x hx; cases hx; rw [hst.1]; rfl⟩
  | discard =>
    have : specStep p .discard = ({ p with ph := .dead e }, some (.err e, [])) := by unfold specStep; simp [hph]
    rw [this]
    exact ⟨hdead, by intro x hx; cases hx; rw [hst.1]; rfl⟩
  | next =>
    have : specStep p .next = (p, some (.bool false, [])) := by unfold specStep; simp [hph]
    rw [this]
    exact ⟨hsame, by intro x hx; cases hx; rw [hst.1]; rfl⟩
  | checkIntegrity =>
    have : specStep p .checkIntegrity = (p, none) := by unfold specStep; simp [hph]
    rw [this]
    exact ⟨hsame, by intro x hx; cases hx⟩


theorem Spec.st_o (p : Spec) : p.st.o = p.o := rfl
theorem Spec.st_rest (p : Spec) : p.st.rest = p.cur := rfl
theorem Spec.st_err (p : Spec) : p.st.q.err = none := rfl

def _root_.Fit.DecApi.Out.isDecodeKind : Out → Prop
  | .fit _ | .err _ | .panic | .hang => True
  | _ => False

theorem fail_kind {α} (s : St) (r : Res α) (h : ∀ a, r ≠ .ok a) : (fail s r).2.isDecodeKind := by
  cases r with
  | ok a => exact absurd rfl (h a)
  | err e => trivial
  | panic => trivial
  | hang => trivial

theorem decodeTail_kind (l : LoopOut) : (decodeTail l).2.1.isDecodeKind := by
  obtain ⟨s2, evs, r⟩ := l
  unfold decodeTail
  cases r with
  | ok u =>
    simp only
    cases hc : decodeCRC s2 with
    | ok s3 => trivial
    | err e => trivial
    | panic => trivial
    | hang => trivial
  | err e => trivial
  | panic => trivial
  | hang => trivial

theorem stepDecode_kind (s : St) : (stepDecode s).2.1.isDecodeKind := by
  unfold stepDecode
  split
  · trivial
  · cases hr : headerOnce s with
    | ok s1 => rw [decodeBody_eq s s1 hr]; exact decodeTail_kind _
    | err e => unfold decodeBody; rw [hr]; trivial
    | panic => unfold decodeBody; rw [hr]; trivial
    | hang => unfold decodeBody; rw [hr]; trivial

/-- after a `Decode` whose state and result are the fresh decoder's (`pre` listener calls made before by a peek) -/
theorem sim_after_decode (a : Api) (p : Spec) (pre evs' : List Event) (s' : St) (out : Out)
    (hw : a.whole = p.whole) (hsw : Small p.whole ∧ FacOK p.o.fac) (hsc : Small p.cur)
    (hfresh : stepDecode p.st = (s', out, pre ++ evs'))
    (hn : a.n ≠ 0 ∨ a.d.rest = p.cur) :
    Sim (a.advance s') (specDecode p pre.length none).1 ∧
      Meets (a.advance s', out, evs') (specDecode p pre.length none).2 := by
  have hg := stepDecode_good p.st (hsc.inv_fresh hsw.2)
  have hk := stepDecode_kind p.st
  rw [hfresh] at hg hk
  obtain ⟨hnp, hnh, hinv, herr⟩ := hg
  simp only at hnp hnh hinv herr hk
  unfold specDecode
  rw [hfresh]
  simp only [List.drop_left']
  refine ⟨?_, by intro x hx; cases hx; rfl⟩
  cases out with
  | fit f =>
    simp only
    have hf := stepDecode_fit p.st s' f _ (hsc.inv_fresh hsw.2) rfl hfresh
    refine ⟨hw, hsw, ⟨hf.2.2.1, by have := hf.2.1; rw [Spec.st_rest] at this; have := hsc.2; show s'.rest.length < _; omega⟩, ?_⟩
    show (_ ∧ _)
    refine ⟨hf.1, ?_⟩
    show ((a.n + (a.d.rest.length - s'.rest.length)) == 0) = false
    have hlt := hf.2.1
    rw [Spec.st_rest] at hlt
    rcases hn with hn | hn
    · simp; omega
    · rw [hn]; simp; omega
  | err e => exact ⟨hw, hsw, hsc, herr e rfl⟩
  | panic => exact absurd rfl hnp
  | hang => exact absurd rfl hnh
  | header h => exact hk.elim
  | fileId f => exact hk.elim
  | done => exact hk.elim
  | bool b => exact hk.elim
  | integrity n e => exact hk.elim


theorem stepDecodeCtxAt_kind (k : Nat) (s : St) : (stepDecodeCtxAt k s).2.1.isDecodeKind := by
  unfold stepDecodeCtxAt
  split
  · trivial
  · unfold decodeBodyAt
    cases hr : headerOnce s with
    | ok s1 => exact decodeTail_kind _
    | err e => trivial
    | panic => trivial
    | hang => trivial

/-- after a `DecodeWithContext` (context first seen cancelled after `K` records of the sequence) whose state and result are
the fresh decoder's (`pre` listener calls made before by a peek) -/
theorem sim_after_decodeAt (a : Api) (p : Spec) (K : Nat) (pre evs' : List Event) (s' : St) (out : Out)
    (hw : a.whole = p.whole) (hsw : Small p.whole ∧ FacOK p.o.fac) (hsc : Small p.cur)
    (hfresh : stepDecodeCtxAt K p.st = (s', out, pre ++ evs'))
    (hn : a.n ≠ 0 ∨ a.d.rest = p.cur) :
    Sim (a.advance s') (specDecodeAt p pre.length K).1 ∧
      Meets (a.advance s', out, evs') (specDecodeAt p pre.length K).2 := by
  have hg := stepDecodeCtxAt_good K p.st (hsc.inv_fresh hsw.2)
  have hk := stepDecodeCtxAt_kind K p.st
  rw [hfresh] at hg hk
  obtain ⟨hnp, hnh, hinv, herr⟩ := hg
  simp only at hnp hnh hinv herr hk
  unfold specDecodeAt
  rw [hfresh]
  simp only [List.drop_left']
  refine ⟨?_, by intro x hx; cases hx; rfl⟩
  cases out with
  | fit f =>
    simp only
    have hf := stepDecode_fit p.st s' f _ (hsc.inv_fresh hsw.2) rfl (stepDecodeCtxAt_fit K p.st s' f _ hfresh)
    refine ⟨hw, hsw, ⟨hf.2.2.1, by have := hf.2.1; rw [Spec.st_rest] at this; have := hsc.2; show s'.rest.length < _; omega⟩, ?_⟩
    show (_ ∧ _)
    refine ⟨hf.1, ?_⟩
    show ((a.n + (a.d.rest.length - s'.rest.length)) == 0) = false
    have hlt := hf.2.1
    rw [Spec.st_rest] at hlt
    rcases hn with hn | hn
    · simp; omega
    · rw [hn]; simp; omega
  | err e => exact ⟨hw, hsw, hsc, herr e rfl⟩
  | panic => exact absurd rfl hnp
  | hang => exact absurd rfl hnh
  | header h => exact hk.elim
  | fileId f => exact hk.elim
  | done => exact hk.elim
  | bool b => exact hk.elim
  | integrity n e => exact hk.elim

/-- `DecodeWithContext` with a context cancelled during the call, in a phase where the decoder is alive -/
theorem sim_decodeAt_alive (a : Api) (p : Spec) (pre : List Event) (k K : Nat)
    (hw : a.whole = p.whole) (hsw : Small p.whole ∧ FacOK p.o.fac) (hsc : Small p.cur)
    (hspec : specStep p (.decodeCtxAt k) = specDecodeAt p pre.length K)
    (hfresh : stepDecodeCtxAt K p.st = ((stepDecodeCtxAt k a.d).1, (stepDecodeCtxAt k a.d).2.1, pre ++ (stepDecodeCtxAt k a.d).2.2))
    (hn : a.n ≠ 0 ∨ a.d.rest = p.cur) :
    Sim (step a (.decodeCtxAt k)).1 (specStep p (.decodeCtxAt k)).1 ∧
      Meets (step a (.decodeCtxAt k)) (specStep p (.decodeCtxAt k)).2 := by
  rw [hspec]
  exact sim_after_decodeAt a p K pre _ _ _ hw hsw hsc hfresh hn

theorem le32_lt (b : List Nat) (h : IsBytes b) : le32 b < 4294967296 := by
  unfold le32
  have g : ∀ i, b.getD i 0 < 256 := by
    intro i
    rw [List.getD_eq_getElem?_getD]
    cases hb : b[i]? with
    | none => simp
    | some x => exact h x (List.mem_of_getElem? hb)
  have := g 0; have := g 1; have := g 2; have := g 3
  omega

/-- the header of a new decoder on `l`: what a successful `decodeFileHeaderOnce` leaves -/
theorem header_fresh (o : Opts) (l : List Nat) (s1 : St) (hs : IsBytes l) (hfac : FacOK o.fac) (h : headerOnce (St.fresh o l) = .ok s1) :
    s1.q.cur = 0 ∧ s1.q.hdr.dataSize < 4294967296 ∧ s1.rest.length < l.length ∧ s1.o = o ∧ s1.look = {} ∧
      s1.q.fileId = none := by
  unfold headerOnce at h
  simp only [St.fresh, Bool.false_eq_true, if_false] at h
  have hi : Inv (St.fresh o l) := ⟨hs, DefsOK.empty, (by decide : (0 : Nat) < 4294967296), hfac⟩
  have hh := decodeFileHeader_sat (St.fresh o l) hi
  simp only [St.fresh] at hh
  cases hr : decodeFileHeader { o := o, rest := l } with
  | ok s' =>
    rw [hr] at h hh
    simp only [Res.ok.injEq] at h
    subst h
    obtain ⟨hb, hd, h1, h2, hok⟩ := hh
    have hbb : IsBytes hb := (IsBytes.append.mp (h1 ▸ hs)).1
    refine ⟨?_, ?_, ?_, ?_, ?_, ?_⟩
    · show s'.q.cur = 0; rw [h2]
    · show s'.q.hdr.dataSize < _
      rw [h2]; show hd.dataSize < _
      rw [hok.dataSize.1]
      exact le32_lt _ (fun x hx => hbb x (List.mem_of_mem_drop hx))
    · show s'.rest.length < l.length
      rw [h1, List.length_append, hok.len]
      rcases hok.size with h | h <;> omega
    · show s'.o = o; rw [h2]
    · show s'.look = {}; rw [h2]
    · show s'.q.fileId = none; rw [h2]
  | err e => rw [hr] at h; cases h
  | panic => rw [hr] at h; cases h
  | hang => rw [hr] at h; cases h


theorem discardTail_events (chk : Bool) (s : St) : (discardTail chk s).2.2 = [] := by
  unfold discardTail
  simp only
  cases discardMessages (fuelOf s) s with
  | ok s2 =>
    simp only
    cases readN 2 s2 with
    | ok p => rfl
    | err e => rfl
    | panic => rfl
    | hang => rfl
  | err e => rfl
  | panic => rfl
  | hang => rfl

theorem stepDiscard_header_err (s : St) (he : s.q.err = none) (e : Err) (h : headerOnce (noChk s) = .err e) :
    (stepDiscard s).2 = (.err e, []) ∧ (stepDiscard s).1.q.err = some e := by
  have : stepDiscard s = ({ (failHeader (noChk s) (Res.err e : Res St)).1 with
      o := { (failHeader (noChk s) (Res.err e : Res St)).1.o with chk := s.o.chk } }, .err e, []) := by
    unfold stepDiscard
    rw [he]
    simp only
    show (match headerOnce (noChk s) with | .ok s1 => _ | r => _) = _
    rw [h]
    rfl
  rw [this]
  exact ⟨rfl, rfl⟩

theorem noChk_fresh (o : Opts) (l : List Nat) : noChk (St.fresh o l) = St.fresh { o with chk := false } l := rfl

/-- `Discard` on a new decoder: either the header fails, or the stream ends early, or the decoder is as new behind the sequence -/
theorem discard_fresh (o : Opts) (l : List Nat) (hs : IsBytes l) (hfac : FacOK o.fac) :
    (∃ e s', stepDiscard (St.fresh o l) = (s', .err e, []) ∧ s'.q.err = some e) ∨
    (∃ s1 : St, headerOnce (St.fresh { o with chk := false } l) = .ok s1 ∧
      stepDiscard (St.fresh o l) = (St.fresh o (s1.rest.drop (s1.q.hdr.dataSize + 2)), .done, []) ∧
      s1.q.hdr.dataSize + 2 ≤ s1.rest.length) := by
  cases hh : headerOnce (St.fresh { o with chk := false } l) with
  | ok s1 =>
    have hf := header_fresh _ l s1 hs (by exact hfac) hh
    have heq := stepDiscard_eq (St.fresh o l) s1 rfl (by rw [noChk_fresh]; exact hh)
    have hsp := discardTail_spec o.chk s1 (by rw [hf.1]; omega) hf.2.1
    simp only [hf.1, Nat.sub_zero] at hsp
    by_cases hlen : s1.q.hdr.dataSize + 2 ≤ s1.rest.length
    · right
      refine ⟨s1, rfl, ?_, hlen⟩
      rw [heq]
      show discardTail o.chk s1 = _
      rw [hsp.1 hlen, hf.2.2.2.1]
      simp only [St.fresh, Opts.restore_chk]
    · left
      have := hsp.2 (by omega)
      refine ⟨.eof, (discardTail o.chk s1).1, ?_, this.2⟩
      rw [heq]
      show discardTail o.chk s1 = _
      have h1 := this.1
      have h2 := discardTail_events o.chk s1
      rcases hd : discardTail o.chk s1 with ⟨x, y, z⟩
      rw [hd] at h1 h2
      simp only at h1 h2
      rw [h1, h2]
  | err e =>
    left
    have hsd := stepDiscard_header_err (St.fresh o l) rfl e (by rw [noChk_fresh]; exact hh)
    rcases hd : stepDiscard (St.fresh o l) with ⟨x, y, z⟩
    rw [hd] at hsd
    simp only [Prod.mk.injEq] at hsd
    exact ⟨e, x, by rw [hsd.1.1, hsd.1.2], hsd.2⟩
  | panic =>
    have := headerOnce_sat (St.fresh { o with chk := false } l) ⟨hs, DefsOK.empty, (by decide : (0 : Nat) < 4294967296), hfac⟩ rfl
    rw [hh] at this; exact this.elim
  | hang =>
    have := headerOnce_sat (St.fresh { o with chk := false } l) ⟨hs, DefsOK.empty, (by decide : (0 : Nat) < 4294967296), hfac⟩ rfl
    rw [hh] at this; exact this.elim


/-- `Discard` from inside the data window (after peeks) ends where a new decoder's `Discard` of the sequence ends -/
theorem discard_mid (o : Opts) (l : List Nat) (hs : IsBytes l) (hfac : FacOK o.fac) (s1 s : St) (c : List Nat)
    (hh : headerOnce (St.fresh o l) = .ok s1) (hr : s1.rest = c ++ s.rest) (hcur : s.q.cur = c.length)
    (hle : s.q.cur ≤ s.q.hdr.dataSize) (hhdr : s.q.hdr = s1.q.hdr) (ho : s.o = o) (he : s.q.err = none)
    (hd : s.q.hdrDone = true) :
    (stepDiscard s).2 = (stepDiscard (St.fresh o l)).2 ∧
      ((stepDiscard s).2.1 = .done → (stepDiscard s).1 = (stepDiscard (St.fresh o l)).1) ∧
      (∀ e, (stepDiscard s).2.1 = .err e → (stepDiscard s).1.q.err = some e) := by
  have hf := header_fresh o l s1 hs hfac hh
  have e1 := stepDiscard_eq (St.fresh o l) (noChk s1) rfl (headerOnce_noChk _ _ hh)
  have e2 := stepDiscard_eq s (noChk s) he (headerOnce_done (noChk s) hd he)
  rw [e1, e2, ho]
  show (discardTail o.chk (noChk s)).2 = (discardTail o.chk (noChk s1)).2 ∧
    ((discardTail o.chk (noChk s)).2.1 = .done → (discardTail o.chk (noChk s)).1 = (discardTail o.chk (noChk s1)).1) ∧
    (∀ e, (discardTail o.chk (noChk s)).2.1 = .err e → (discardTail o.chk (noChk s)).1.q.err = some e)
  have sp1 := discardTail_spec o.chk (noChk s1) (by show s1.q.cur ≤ _; rw [hf.1]; omega) hf.2.1
  have sp2 := discardTail_spec o.chk (noChk s) hle (by show s.q.hdr.dataSize < _; rw [hhdr]; exact hf.2.1)
  have q1 : (noChk s1).q = s1.q := rfl
  have q2 : (noChk s).q = s.q := rfl
  have r1 : (noChk s1).rest = s1.rest := rfl
  have r2 : (noChk s).rest = s.rest := rfl
  have o1 : (noChk s1).o = { o with chk := false } := by rw [noChk_o, hf.2.2.2.1]
  have o2 : (noChk s).o = { o with chk := false } := by rw [noChk_o, ho]
  simp only [q1, q2, r1, r2, hf.1, Nat.sub_zero, o1, o2] at sp1 sp2
  have hlen : s1.rest.length = c.length + s.rest.length := by rw [hr, List.length_append]
  have ev1 := discardTail_events o.chk (noChk s1)
  have ev2 := discardTail_events o.chk (noChk s)
  by_cases hen : s1.q.hdr.dataSize + 2 ≤ s1.rest.length
  · have h1 := sp1.1 hen
    have hcl : s.q.hdr.dataSize - s.q.cur + 2 ≤ s.rest.length := by rw [hhdr] at hle ⊢; omega
    have h2 := sp2.1 hcl
    rw [h1, h2]
    have hdrop : List.drop (s.q.hdr.dataSize - s.q.cur + 2) s.rest = List.drop (s1.q.hdr.dataSize + 2) s1.rest := by
      rw [hr, List.drop_append, hhdr, hcur]
      have : List.drop (s1.q.hdr.dataSize + 2) c = [] := List.drop_eq_nil_of_le (by rw [← hcur]; rw [hhdr] at hle; omega)
      rw [this, List.nil_append]
      congr 1
      rw [hhdr, hcur] at hle
      omega
    rw [hdrop]
    exact ⟨rfl, fun _ => rfl, by intro e h; cases h⟩
  · have h1 := sp1.2 (by omega)
    have hcl : s.rest.length < s.q.hdr.dataSize - s.q.cur + 2 := by rw [hhdr] at hle ⊢; omega
    have h2 := sp2.2 hcl
    refine ⟨?_, ?_, ?_⟩
    · rcases hd1 : discardTail o.chk (noChk s1) with ⟨x1, y1, z1⟩
      rcases hd2 : discardTail o.chk (noChk s) with ⟨x2, y2, z2⟩
      rw [hd1] at h1 ev1; rw [hd2] at h2 ev2
      simp only at h1 h2 ev1 ev2
      rw [h1.1, h2.1, ev1, ev2]
    · intro hdone; rw [h2.1] at hdone; cases hdone
    · intro e he'; rw [h2.1] at he'; cases he'; exact h2.2


theorem sim_after_discard (a : Api) (p : Spec) (s' : St) (out : Out)
    (hw : a.whole = p.whole) (hsw : Small p.whole ∧ FacOK p.o.fac) (hsc : Small p.cur)
    (hout : (stepDiscard p.st).2 = (out, []))
    (hdone : out = .done → s' = (stepDiscard p.st).1)
    (herr : ∀ e, out = .err e → s'.q.err = some e)
    (hn : a.n ≠ 0 ∨ a.d.rest = p.cur) :
    Sim (a.advance s') (specDiscard p).1 ∧ Meets (a.advance s', out, []) (specDiscard p).2 := by
  unfold specDiscard
  rcases hsd : stepDiscard p.st with ⟨sF, outF, evF⟩
  rw [hsd] at hout hdone
  simp only [Prod.mk.injEq] at hout
  obtain ⟨ho, he⟩ := hout
  subst ho he
  simp only
  refine ⟨?_, by intro x hx; cases hx; rfl⟩
  rcases discard_fresh p.o p.cur hsc.1 hsw.2 with ⟨e, sE, h1, h2⟩ | ⟨s1, hh, h1, hlen⟩
  · have : stepDiscard p.st = (sE, .err e, []) := h1
    rw [hsd] at this
    simp only [Prod.mk.injEq] at this
    obtain ⟨_, ho, _⟩ := this
    subst ho
    exact ⟨hw, hsw, hsc, herr e rfl⟩
  · have : stepDiscard p.st = (St.fresh p.o (s1.rest.drop (s1.q.hdr.dataSize + 2)), .done, []) := h1
    rw [hsd] at this
    simp only [Prod.mk.injEq] at this
    obtain ⟨hs, ho, _⟩ := this
    subst ho
    have hs' := hdone rfl
    subst hs'
    have hf := header_fresh { p.o with chk := false } p.cur s1 hsc.1 hsw.2 hh
    have hi1 : IsBytes s1.rest := by
      have := headerOnce_sat (St.fresh { p.o with chk := false } p.cur) (hsc.inv_fresh hsw.2) rfl
      rw [hh] at this
      exact this.1.1
    have hlt : (List.drop (s1.q.hdr.dataSize + 2) s1.rest).length < p.cur.length := by
      rw [List.length_drop]; have := hf.2.2.1; omega
    show Sim _ (p.advance s'.rest)
    have hsr : s'.rest = List.drop (s1.q.hdr.dataSize + 2) s1.rest := by rw [hs]; rfl
    refine ⟨hw, hsw, ⟨?_, ?_⟩, ?_⟩
    · show IsBytes s'.rest
      rw [hsr]; exact fun x hx => hi1 x (List.mem_of_mem_drop hx)
    · show s'.rest.length < _
      rw [hsr]; have := hsc.2; omega
    show (_ ∧ _)
    refine ⟨?_, ?_⟩
    · show s' = St.fresh p.o s'.rest
      rw [hsr]; exact hs
    show ((a.n + (a.d.rest.length - s'.rest.length)) == 0) = false
    rcases hn with hn | hn
    · simp; omega
    · rw [hn, hsr]; simp; omega


theorem specStep_decode_alive (p : Spec) (k : Nat) (c : Bool) (hc : c = false)
    (h : p.ph = .start ∧ k = 0 ∨ p.ph = .header ∧ k = 0 ∨ ∃ l, p.ph = .fileId k l) :
    specStep p .decode = specDecode p k none ∧ specStep p (.decodeCtx c) = specDecode p k none := by
  subst hc
  rcases h with ⟨h, rfl⟩ | ⟨h, rfl⟩ | ⟨l, h⟩ <;> (unfold specStep; simp [h])

/-- `Decode` / `DecodeWithContext` (live context) in a phase where the decoder is alive -/
theorem sim_decode_alive (a : Api) (p : Spec) (pre : List Event) (c : Bool) (hc : c = false)
    (hw : a.whole = p.whole) (hsw : Small p.whole ∧ FacOK p.o.fac) (hsc : Small p.cur)
    (hph : p.ph = .start ∧ pre.length = 0 ∨ p.ph = .header ∧ pre.length = 0 ∨ ∃ l, p.ph = .fileId pre.length l)
    (hfresh : stepDecode p.st = ((stepDecode a.d).1, (stepDecode a.d).2.1, pre ++ (stepDecode a.d).2.2))
    (he : a.d.q.err = none) (hn : a.n ≠ 0 ∨ a.d.rest = p.cur) :
    (Sim (step a .decode).1 (specStep p .decode).1 ∧ Meets (step a .decode) (specStep p .decode).2) ∧
    (Sim (step a (.decodeCtx c)).1 (specStep p (.decodeCtx c)).1 ∧ Meets (step a (.decodeCtx c)) (specStep p (.decodeCtx c)).2) := by
  have hspec := specStep_decode_alive p pre.length c hc hph
  rw [hspec.1, hspec.2]
  subst hc
  have h1 := sim_after_decode a p pre _ _ _ hw hsw hsc hfresh hn
  have h2 : step a (.decodeCtx false) = step a .decode := by
    show (a.advance (stepDecodeCtx false a.d).1, _, _) = (a.advance (stepDecode a.d).1, _, _)
    unfold stepDecodeCtx stepDecode
    rw [he]
    rfl
  rw [h2]
  exact ⟨h1, h1⟩

/-- `DecodeWithContext` with a cancelled context on a live decoder: the context error, sticky -/
theorem sim_cancel (a : Api) (p : Spec) (hw : a.whole = p.whole) (hsw : Small p.whole ∧ FacOK p.o.fac) (hsc : Small p.cur)
    (hph : p.ph = .start ∨ p.ph = .header ∨ ∃ k l, p.ph = .fileId k l) (he : a.d.q.err = none) :
    Sim (step a (.decodeCtx true)).1 (specStep p (.decodeCtx true)).1 ∧
      Meets (step a (.decodeCtx true)) (specStep p (.decodeCtx true)).2 := by
  have hspec : specStep p (.decodeCtx true) = ({ p with ph := .dead .ctx }, some (.err .ctx, [])) := by
    rcases hph with h | h | ⟨k, l, h⟩ <;> (unfold specStep; simp [h])
  rw [hspec]
  have hm : step a (.decodeCtx true) = (a.advance { a.d with q := { a.d.q with err := some .ctx } }, .err .ctx, []) := by
    show (a.advance (stepDecodeCtx true a.d).1, _, _) = _
    unfold stepDecodeCtx
    rw [he]
    rfl
  rw [hm]
  exact ⟨⟨hw, hsw, hsc, rfl⟩, by intro x hx; cases hx; rfl⟩

/-- `CheckIntegrity` (+ re-seek) on a live decoder: whatever it met, the decoder is as new at the start of the stream -/
theorem sim_ci (a : Api) (p : Spec) (hw : a.whole = p.whole) (hsw : Small p.whole ∧ FacOK p.o.fac) (hsc : Small p.cur)
    (hph : p.ph = .start ∨ p.ph = .header ∨ ∃ k l, p.ph = .fileId k l) (he : a.d.q.err = none) (ho : a.d.o = p.o)
    (hi : Inv a.d) :
    Sim (step a .checkIntegrity).1 (specStep p .checkIntegrity).1 ∧
      Meets (step a .checkIntegrity) (specStep p .checkIntegrity).2 := by
  have hspec : specStep p .checkIntegrity = ({ p with cur := p.whole, atStart := true, ph := .start }, none) := by
    rcases hph with h | h | ⟨k, l, h⟩ <;> (unfold specStep; simp [h])
  rw [hspec]
  refine ⟨?_, by intro x hx; cases hx⟩
  have hg := stepCheckIntegrity_good a ⟨hi, hw ▸ hsw.1.1⟩
  show Sim (stepCheckIntegrity a).1 _
  unfold stepCheckIntegrity at hg ⊢
  simp only [he] at hg ⊢
  have fin : Sim { d := { resetSeq a.d with rest := a.whole }, whole := a.whole, n := 0 }
      { p with cur := p.whole, atStart := true, ph := .start } := by
    refine ⟨hw, hsw, hsw.1, ?_⟩
    show (_ ∧ _)
    refine ⟨?_, rfl⟩
    show _ = St.fresh p.o p.whole
    simp only [resetSeq, St.fresh, ho, hw]
  rcases hc : ciLoop (fuelOf a.d) (a.n == 0) 0 { a.d with o := { a.d.o with chk := true } } with ⟨seq, r⟩
  rw [hc] at hg
  cases r with
  | ok u => exact fin
  | err e => exact fin
  | panic => exact absurd rfl hg.1
  | hang => exact absurd rfl hg.2.1


theorem hdr_cases (p : Spec) (hsc : Small p.cur) (hsw : Small p.whole ∧ FacOK p.o.fac) :
    (∃ s1, headerOnce p.st = .ok s1) ∨ (∃ e, headerOnce p.st = .err e) := by
  have := headerOnce_sat p.st (hsc.inv_fresh hsw.2) rfl
  cases h : headerOnce p.st with
  | ok s1 => exact Or.inl ⟨s1, rfl⟩
  | err e => exact Or.inr ⟨e, rfl⟩
  | panic => rw [h] at this; exact this.elim
  | hang => rw [h] at this; exact this.elim

/-- the header was read successfully from the start of the sequence: phase `header` -/
theorem sim_to_header (a : Api) (p : Spec) (s1 : St) (hw : a.whole = p.whole) (hsw : Small p.whole ∧ FacOK p.o.fac) (hsc : Small p.cur)
    (had : a.d = p.st) (hh : headerOnce p.st = .ok s1) :
    Sim (a.advance s1) { p with ph := .header, atStart := false } := by
  refine ⟨hw, hsw, hsc, ?_⟩
  show (_ ∧ _)
  refine ⟨hh, ?_⟩
  show a.n + (a.d.rest.length - s1.rest.length) ≠ 0
  have := (header_fresh p.o p.cur s1 hsc.1 hsw.2 hh).2.2.1
  rw [had, Spec.st_rest]
  omega

/-- the header read failed at the start of the sequence: phase `peekFailed` -/
theorem sim_to_hdrFailed (a : Api) (p : Spec) (e : Err) (s' : St) (hw : a.whole = p.whole) (hsw : Small p.whole ∧ FacOK p.o.fac)
    (hsc : Small p.cur) (hh : headerOnce p.st = .err e) (hs' : s'.q.err = some e) :
    Sim (a.advance s') { p with ph := .peekFailed e 0 } := by
  have := decode_when_header_fails p.st e rfl hh
  refine ⟨hw, hsw, hsc, ?_⟩
  show (_ ∧ _ ∧ _)
  refine ⟨hs', ?_, ?_⟩
  · show (stepDecode p.st).2.1 = _
    rw [this]
  · show (stepDecode p.st).2.2.drop 0 = []
    rw [this]; rfl

theorem sim_start_peekHeader (a : Api) (p : Spec) (hw : a.whole = p.whole) (hsw : Small p.whole ∧ FacOK p.o.fac) (hsc : Small p.cur)
    (hph : p.ph = .start) (had : a.d = p.st) :
    Sim (step a .peekHeader).1 (specStep p .peekHeader).1 ∧ Meets (step a .peekHeader) (specStep p .peekHeader).2 := by
  have hspec : specStep p .peekHeader = ((specPeekHeader p).1, some ((specPeekHeader p).2, [])) := by
    unfold specStep; simp [hph]
  rw [hspec]
  show Sim (a.advance (stepPeekHeader a.d).1) _ ∧ Meets (a.advance (stepPeekHeader a.d).1, (stepPeekHeader a.d).2.1, (stepPeekHeader a.d).2.2) _
  rw [had]
  unfold specPeekHeader
  rcases hdr_cases p hsc hsw with ⟨s1, hh⟩ | ⟨e, hh⟩
  · have hp := (stepPeekHeader_after_header p.st s1 (hsc.inv_fresh hsw.2) rfl hh).2
    rw [hp]
    exact ⟨sim_to_header a p s1 hw hsw hsc had hh, by intro x hx; cases hx; rfl⟩
  · have hp : stepPeekHeader p.st = ((failHeader p.st (Res.err e : Res St)).1, .err e, []) := by
      unfold stepPeekHeader
      show (match headerOnce p.st with | .ok s1 => _ | r => _) = _
      rw [hh]
      rfl
    rw [hp]
    exact ⟨sim_to_hdrFailed a p e _ hw hsw hsc hh rfl, by intro x hx; cases hx; rfl⟩


theorem sim_start_next (a : Api) (p : Spec) (hw : a.whole = p.whole) (hsw : Small p.whole ∧ FacOK p.o.fac) (hsc : Small p.cur)
    (hph : p.ph = .start) (had : a.d = p.st) (hn : (a.n == 0) = p.atStart) :
    Sim (step a .next).1 (specStep p .next).1 ∧ Meets (step a .next) (specStep p .next).2 := by
  show Sim (a.advance (stepNext (a.n == 0) a.d).1) _ ∧
    Meets (a.advance (stepNext (a.n == 0) a.d).1, (stepNext (a.n == 0) a.d).2.1, (stepNext (a.n == 0) a.d).2.2) _
  rw [hn, had]
  cases hat : p.atStart with
  | true =>
    have hspec : specStep p .next = (p, some (.bool true, [])) := by unfold specStep; simp [hph, hat]
    rw [hspec]
    have hm : stepNext true p.st = (p.st, .bool true, []) := rfl
    rw [hm]
    refine ⟨⟨hw, hsw, hsc, ?_⟩, by intro x hx; cases hx; rfl⟩
    rw [hph]
    show (_ ∧ _)
    refine ⟨had ▸ rfl, ?_⟩
    show ((a.n + (a.d.rest.length - p.st.rest.length)) == 0) = p.atStart
    rw [had, Nat.sub_self, Nat.add_zero, hn]
  | false =>
    have hspec : specStep p .next = ((specPeekHeader p).1,
        some (.bool (match (specPeekHeader p).2 with | .err _ => false | _ => true), [])) := by
      unfold specStep; simp only [hph, hat]; rfl
    rw [hspec]
    unfold specPeekHeader
    rcases hdr_cases p hsc hsw with ⟨s1, hh⟩ | ⟨e, hh⟩
    · have hp := (stepPeekHeader_after_header p.st s1 (hsc.inv_fresh hsw.2) rfl hh).2
      rw [hp]
      have hm : stepNext false p.st = (s1, .bool true, []) := by
        unfold stepNext
        show (match headerOnce p.st with | .ok s1 => _ | .err e => _ | .panic => _ | .hang => _) = _
        rw [hh]
      rw [hm]
      exact ⟨sim_to_header a p s1 hw hsw hsc had hh, by intro x hx; cases hx; rfl⟩
    · have hp : stepPeekHeader p.st = ((failHeader p.st (Res.err e : Res St)).1, .err e, []) := by
        unfold stepPeekHeader
        show (match headerOnce p.st with | .ok s1 => _ | r => _) = _
        rw [hh]
        rfl
      rw [hp]
      have hm : stepNext false p.st = ({ p.st with q := { p.st.q with hdrDone := true, err := some e } }, .bool false, []) := by
        unfold stepNext
        show (match headerOnce p.st with | .ok s1 => _ | .err e => _ | .panic => _ | .hang => _) = _
        rw [hh]
      rw [hm]
      exact ⟨sim_to_hdrFailed a p e _ hw hsw hsc hh rfl, by intro x hx; cases hx; rfl⟩

/-- `PeekFileId` where the decoder computes what a new decoder computes (phases `start`, `header`) -/
theorem sim_peekFileId_fresh (a : Api) (p : Spec) (hw : a.whole = p.whole) (hsw : Small p.whole ∧ FacOK p.o.fac) (hsc : Small p.cur)
    (hph : p.ph = .start ∨ p.ph = .header) (heq : stepPeekFileId a.d = stepPeekFileId p.st)
    (hn : a.n ≠ 0 ∨ a.d.rest = p.cur) :
    Sim (step a .peekFileId).1 (specStep p .peekFileId).1 ∧ Meets (step a .peekFileId) (specStep p .peekFileId).2 := by
  have hspec : specStep p .peekFileId = specPeekFileId p := by
    rcases hph with h | h <;> (unfold specStep; simp [h])
  rw [hspec]
  show Sim (a.advance (stepPeekFileId a.d).1) _ ∧
    Meets (a.advance (stepPeekFileId a.d).1, (stepPeekFileId a.d).2.1, (stepPeekFileId a.d).2.2) _
  rw [heq]
  unfold specPeekFileId
  rcases hdr_cases p hsc hsw with ⟨s1, hh⟩ | ⟨e, hh⟩
  · have h1 := headerOnce_ok p.st s1 (hsc.inv_fresh hsw.2) rfl hh
    have hf := header_fresh p.o p.cur s1 hsc.1 hsw.2 hh
    have hpl := peekLoop_sat (fuelOf s1) s1 h1.1 (by simp [fuelOf])
    have hstep : stepPeekFileId p.st = (match peekLoop (fuelOf s1) s1 with
        | (s2, evs, .ok ()) => (s2, Out.fileId (match s2.q.fileId with | some f => f | none => mkFileId []), evs)
        | (s2, evs, r) => ((fail s2 r).1, (fail s2 r).2, evs)) := by
      unfold stepPeekFileId
      show (match headerOnce p.st with | .ok s1 => _ | r => _) = _
      rw [hh]
      rfl
    rw [hstep]
    rcases hpk : peekLoop (fuelOf s1) s1 with ⟨s2, evs, r⟩
    rw [hpk] at hpl
    obtain ⟨hend, i2, r2, hfid⟩ := hpl
    simp only at hend i2 r2 hfid
    cases r with
    | ok u =>
      simp only
      refine ⟨⟨hw, hsw, hsc, ?_⟩, by intro x hx; cases hx; rfl⟩
      show ∃ s1' evs1, _
      refine ⟨s1, evs, hh, hpk, rfl, rfl, ?_⟩
      show a.n + (a.d.rest.length - s2.rest.length) ≠ 0
      rcases hn with hn | hn
      · omega
      · have := r2.len; have := hf.2.2.1; rw [hn]; omega
    | err e =>
      simp only [fail]
      have hd := decode_when_peek_fails p.st s1 s2 evs e (hsc.inv_fresh hsw.2) rfl hh hpk
      refine ⟨⟨hw, hsw, hsc, ?_⟩, by intro x hx; cases hx; rfl⟩
      show (_ ∧ (stepDecode p.st).2.1 = _ ∧ (stepDecode p.st).2.2.drop evs.length = [])
      refine ⟨rfl, by rw [hd], by rw [hd]; simp⟩
    | panic => exact hend.elim
    | hang => exact hend.elim
  · have hp : stepPeekFileId p.st = ((failHeader p.st (Res.err e : Res St)).1, .err e, []) := by
      unfold stepPeekFileId
      show (match headerOnce p.st with | .ok s1 => _ | r => _) = _
      rw [hh]
      rfl
    rw [hp]
    exact ⟨sim_to_hdrFailed a p e _ hw hsw hsc hh rfl, by intro x hx; cases hx; rfl⟩

theorem stepDiscard_fresh_events (o : Opts) (l : List Nat) (hs : IsBytes l) (hfac : FacOK o.fac) : (stepDiscard (St.fresh o l)).2.2 = [] := by
  rcases discard_fresh o l hs hfac with ⟨e, s', h, _⟩ | ⟨s1, _, h, _⟩ <;> rw [h]

/-- `Discard` in a live phase whose position is comparable with a new decoder's -/
theorem sim_discard_alive (a : Api) (p : Spec) (hw : a.whole = p.whole) (hsw : Small p.whole ∧ FacOK p.o.fac) (hsc : Small p.cur)
    (hph : p.ph = .start ∨ p.ph = .header ∨ ∃ k, p.ph = .fileId k false)
    (hout : (stepDiscard a.d).2 = (stepDiscard p.st).2)
    (hdone : (stepDiscard a.d).2.1 = .done → (stepDiscard a.d).1 = (stepDiscard p.st).1)
    (herr : ∀ e, (stepDiscard a.d).2.1 = .err e → (stepDiscard a.d).1.q.err = some e)
    (hn : a.n ≠ 0 ∨ a.d.rest = p.cur) :
    Sim (step a .discard).1 (specStep p .discard).1 ∧ Meets (step a .discard) (specStep p .discard).2 := by
  have hspec : specStep p .discard = specDiscard p := by
    rcases hph with h | h | ⟨k, h⟩ <;> (unfold specStep; simp [h])
  rw [hspec]
  have hev := stepDiscard_fresh_events p.o p.cur hsc.1 hsw.2
  have h2 : (stepDiscard a.d).2 = ((stepDiscard a.d).2.1, []) := by
    rw [hout]; exact Prod.ext rfl hev
  have := sim_after_discard a p (stepDiscard a.d).1 (stepDiscard a.d).2.1 hw hsw hsc
    (by rw [← hout, h2]) hdone herr hn
  show Sim (a.advance (stepDiscard a.d).1) _ ∧ Meets (a.advance (stepDiscard a.d).1, (stepDiscard a.d).2.1, (stepDiscard a.d).2.2) _
  rw [show (stepDiscard a.d).2.2 = [] from by rw [h2]]
  exact this


theorem _root_.Fit.DecApi.Api.advance_same (a : Api) : a.advance a.d = a := by
  cases a; simp [Api.advance]

theorem sim_start (a : Api) (p : Spec) (op : Op) (hph : p.ph = .start) (hs : Sim a p)
    (hop : ∀ o b, op ≠ .reset o b) :
    Sim (step a op).1 (specStep p op).1 ∧ Meets (step a op) (specStep p op).2 := by
  obtain ⟨hw, hsw, hsc, hm⟩ := hs
  rw [hph] at hm
  obtain ⟨had, hn⟩ := hm
  have he : a.d.q.err = none := by rw [had]; rfl
  have hi : Inv a.d := by rw [had]; exact (hsc.inv_fresh hsw.2)
  have hdec := sim_decode_alive a p [] false rfl hw hsw hsc (Or.inl ⟨hph, rfl⟩) (by rw [had]; rfl) he
    (Or.inr (by rw [had]; rfl))
  cases op with
  | reset o b => exact absurd rfl (hop o b)
  | decode => exact hdec.1
  | decodeCtx c =>
    cases c with
    | false => exact hdec.2
    | true => exact sim_cancel a p hw hsw hsc (Or.inl hph) he
  | decodeCtxAt k =>
    exact sim_decodeAt_alive a p [] k k hw hsw hsc (by unfold specStep; simp [hph]) (by rw [had]; rfl)
      (Or.inr (by rw [had]; rfl))
  | peekHeader => exact sim_start_peekHeader a p hw hsw hsc hph had
  | peekFileId => exact sim_peekFileId_fresh a p hw hsw hsc (Or.inl hph) (by rw [had]) (Or.inr (by rw [had]; rfl))
  | discard =>
    have hg := stepDiscard_good a.d hi
    exact sim_discard_alive a p hw hsw hsc (Or.inl hph) (by rw [had]) (by intro _; rw [had]) hg.2.2.2
      (Or.inr (by rw [had]; rfl))
  | next => exact sim_start_next a p hw hsw hsc hph had hn
  | checkIntegrity => exact sim_ci a p hw hsw hsc (Or.inl hph) he (by rw [had]; rfl) hi

theorem sim_header (a : Api) (p : Spec) (op : Op) (hph : p.ph = .header) (hs : Sim a p)
    (hop : ∀ o b, op ≠ .reset o b) :
    Sim (step a op).1 (specStep p op).1 ∧ Meets (step a op) (specStep p op).2 := by
  obtain ⟨hw, hsw, hsc, hm⟩ := hs
  have hsame : Sim a p := ⟨hw, hsw, hsc, hm⟩
  rw [hph] at hm
  obtain ⟨hh, hn⟩ := hm
  have h1 := headerOnce_ok p.st a.d (hsc.inv_fresh hsw.2) rfl hh
  have hf := header_fresh p.o p.cur a.d hsc.1 hsw.2 hh
  have he : a.d.q.err = none := h1.2.2.2.2.1
  have hi : Inv a.d := h1.1
  have hdec := sim_decode_alive a p [] false rfl hw hsw hsc (Or.inr (Or.inl ⟨hph, rfl⟩))
    (by rw [stepDecode_after_header p.st a.d (hsc.inv_fresh hsw.2) rfl hh]; rfl) he (Or.inl hn)
  cases op with
  | reset o b => exact absurd rfl (hop o b)
  | decode => exact hdec.1
  | decodeCtx c =>
    cases c with
    | false => exact hdec.2
    | true => exact sim_cancel a p hw hsw hsc (Or.inr (Or.inl hph)) he
  | decodeCtxAt k =>
    exact sim_decodeAt_alive a p [] k k hw hsw hsc (by unfold specStep; simp [hph])
      (by rw [stepDecodeCtxAt_after_header k p.st a.d (hsc.inv_fresh hsw.2) rfl hh]; rfl) (Or.inl hn)
  | peekHeader =>
    have hspec : specStep p .peekHeader = (p, some ((stepPeekHeader p.st).2.1, [])) := by unfold specStep; simp [hph]
    rw [hspec]
    have hp := stepPeekHeader_after_header p.st a.d (hsc.inv_fresh hsw.2) rfl hh
    show Sim (a.advance (stepPeekHeader a.d).1) _ ∧ Meets (a.advance (stepPeekHeader a.d).1, (stepPeekHeader a.d).2.1, (stepPeekHeader a.d).2.2) _
    rw [hp.1, hp.2, Api.advance_same]
    exact ⟨hsame, by intro x hx; cases hx; rfl⟩
  | peekFileId =>
    exact sim_peekFileId_fresh a p hw hsw hsc (Or.inr hph) (stepPeekFileId_after_header p.st a.d (hsc.inv_fresh hsw.2) rfl hh) (Or.inl hn)
  | discard =>
    have hd := discard_mid p.o p.cur hsc.1 hsw.2 a.d a.d [] hh rfl (by rw [hf.1]; rfl) (by rw [hf.1]; omega) rfl hf.2.2.2.1 he h1.2.2.2.1
    exact sim_discard_alive a p hw hsw hsc (Or.inr (Or.inl hph)) hd.1 hd.2.1 hd.2.2 (Or.inl hn)
  | next =>
    have hspec : specStep p .next = (p, some (.bool true, [])) := by unfold specStep; simp [hph]
    rw [hspec]
    have hm : stepNext (a.n == 0) a.d = (a.d, .bool true, []) := by
      have : (a.n == 0) = false := by simp; exact hn
      rw [this]
      unfold stepNext
      rw [he]
      show (match headerOnce a.d with | .ok s1 => _ | .err e => _ | .panic => _ | .hang => _) = _
      rw [h1.2.2.2.2.2.2]
    show Sim (a.advance (stepNext (a.n == 0) a.d).1) _ ∧ Meets (a.advance (stepNext (a.n == 0) a.d).1, (stepNext (a.n == 0) a.d).2.1, (stepNext (a.n == 0) a.d).2.2) _
    rw [hm, Api.advance_same]
    exact ⟨hsame, by intro x hx; cases hx; rfl⟩
  | checkIntegrity => exact sim_ci a p hw hsw hsc (Or.inr (Or.inl hph)) he hf.2.2.2.1 hi


theorem sim_fileId (a : Api) (p : Spec) (op : Op) (k : Nat) (lost : Bool) (hph : p.ph = .fileId k lost) (hs : Sim a p)
    (hop : ∀ o b, op ≠ .reset o b) :
    Sim (step a op).1 (specStep p op).1 ∧ Meets (step a op) (specStep p op).2 := by
  obtain ⟨hw, hsw, hsc, hm⟩ := hs
  have hsame : Sim a p := ⟨hw, hsw, hsc, hm⟩
  rw [hph] at hm
  obtain ⟨s1, evs1, hh, hpk, hk, hlost, hn⟩ := hm
  have h1 := headerOnce_ok p.st s1 (hsc.inv_fresh hsw.2) rfl hh
  have hf := header_fresh p.o p.cur s1 hsc.1 hsw.2 hh
  have hpl := peekLoop_sat (fuelOf s1) s1 h1.1 (by simp [fuelOf])
  rw [hpk] at hpl
  obtain ⟨_, hi, r2, hfid⟩ := hpl
  simp only at hi r2 hfid
  have hfid' := hfid trivial
  have he : a.d.q.err = none := by rw [r2.err]; exact h1.2.2.2.2.1
  have hd : a.d.q.hdrDone = true := by rw [r2.hdrDone]; exact h1.2.2.2.1
  have ho : a.d.o = p.o := by rw [r2.o]; exact hf.2.2.2.1
  have hho := headerOnce_done a.d hd he
  have hdec := sim_decode_alive a p evs1 false rfl hw hsw hsc (Or.inr (Or.inr ⟨lost, by rw [hk]; exact hph⟩))
    (decode_after_peek p.st s1 a.d evs1 (hsc.inv_fresh hsw.2) rfl hh hpk) he (Or.inl hn)
  cases op with
  | reset o b => exact absurd rfl (hop o b)
  | decode => exact hdec.1
  | decodeCtx c =>
    cases c with
    | false => exact hdec.2
    | true => exact sim_cancel a p hw hsw hsc (Or.inr (Or.inr ⟨k, lost, hph⟩)) he
  | decodeCtxAt j =>
    have hpeeked : p.peeked = peekCount (fuelOf s1) s1 := by unfold Spec.peeked; rw [hh]
    refine sim_decodeAt_alive a p evs1 j (peekCount (fuelOf s1) s1 + j) hw hsw hsc ?_
      (decodeAt_after_peek j p.st s1 a.d evs1 (hsc.inv_fresh hsw.2) rfl hh hpk) (Or.inl hn)
    unfold specStep
    simp [hph, hk, hpeeked]
  | peekHeader =>
    have hspec : specStep p .peekHeader = (p, some ((stepPeekHeader p.st).2.1, [])) := by unfold specStep; simp [hph]
    rw [hspec]
    have hp := stepPeekHeader_after_header p.st s1 (hsc.inv_fresh hsw.2) rfl hh
    have hm : stepPeekHeader a.d = (a.d, .header a.d.q.hdr, []) := by
      unfold stepPeekHeader
      rw [he]
      show (match headerOnce a.d with | .ok s1 => _ | r => _) = _
      rw [hho]
    show Sim (a.advance (stepPeekHeader a.d).1) _ ∧ Meets (a.advance (stepPeekHeader a.d).1, (stepPeekHeader a.d).2.1, (stepPeekHeader a.d).2.2) _
    rw [hm, hp.2, Api.advance_same, r2.hdr]
    exact ⟨hsame, by intro x hx; cases hx; rfl⟩
  | peekFileId =>
    have hspec : specStep p .peekFileId = (p, some ((stepPeekFileId p.st).2.1, [])) := by unfold specStep; simp [hph]
    rw [hspec]
    have hfr : (stepPeekFileId p.st).2.1 = .fileId (match a.d.q.fileId with | some f => f | none => mkFileId []) := by
      have : stepPeekFileId p.st = (a.d, .fileId (match a.d.q.fileId with | some f => f | none => mkFileId []), evs1) := by
        unfold stepPeekFileId
        show (match headerOnce p.st with | .ok s1 => _ | r => _) = _
        rw [hh]
        simp only [hpk]
        rfl
      rw [this]
    have hm : stepPeekFileId a.d = (a.d, .fileId (match a.d.q.fileId with | some f => f | none => mkFileId []), []) := by
      unfold stepPeekFileId
      rw [he]
      show (match headerOnce a.d with | .ok s1 => _ | r => _) = _
      rw [hho]
      have : peekLoop (fuelOf a.d) a.d = (a.d, [], .ok ()) := peekLoop_done _ a.d hfid'
      simp only [this]
      rfl
    show Sim (a.advance (stepPeekFileId a.d).1) _ ∧ Meets (a.advance (stepPeekFileId a.d).1, (stepPeekFileId a.d).2.1, (stepPeekFileId a.d).2.2) _
    rw [hm, hfr, Api.advance_same]
    exact ⟨hsame, by intro x hx; cases hx; rfl⟩
  | discard =>
    cases lost with
    | true =>
      have hspec : specStep p .discard = ({ p with ph := .blind }, none) := by unfold specStep; simp [hph]
      rw [hspec]
      exact ⟨⟨hw, hsw, hsc, trivial⟩, by intro x hx; cases hx⟩
    | false =>
      obtain ⟨c, rc, ucur, _⟩ := r2
      have hle : ¬ a.d.q.cur > a.d.q.hdr.dataSize := by
        intro h; rw [decide_eq_true h] at hlost; cases hlost
      have hclen : c.length < 4294967296 := by
        have : s1.rest.length = c.length + a.d.rest.length := by rw [rc, List.length_append]
        have := hf.2.2.1; have := hsc.2; omega
      have hcur : a.d.q.cur = c.length := by rw [ucur, hf.1, Nat.zero_add, Nat.mod_eq_of_lt hclen]
      have hhdr : a.d.q.hdr = s1.q.hdr := by
        have := peekLoop_sat (fuelOf s1) s1 h1.1 (by simp [fuelOf])
        rw [hpk] at this
        exact this.2.2.1.hdr
      have hdm := discard_mid p.o p.cur hsc.1 hsw.2 s1 a.d c hh rc hcur (by omega) hhdr ho he hd
      exact sim_discard_alive a p hw hsw hsc (Or.inr (Or.inr ⟨k, hph⟩)) hdm.1 hdm.2.1 hdm.2.2 (Or.inl hn)
  | next =>
    have hspec : specStep p .next = (p, some (.bool true, [])) := by unfold specStep; simp [hph]
    rw [hspec]
    have hm : stepNext (a.n == 0) a.d = (a.d, .bool true, []) := by
      have : (a.n == 0) = false := by simp; exact hn
      rw [this]
      unfold stepNext
      rw [he]
      show (match headerOnce a.d with | .ok s1 => _ | .err e => _ | .panic => _ | .hang => _) = _
      rw [hho]
    show Sim (a.advance (stepNext (a.n == 0) a.d).1) _ ∧ Meets (a.advance (stepNext (a.n == 0) a.d).1, (stepNext (a.n == 0) a.d).2.1, (stepNext (a.n == 0) a.d).2.2) _
    rw [hm, Api.advance_same]
    exact ⟨hsame, by intro x hx; cases hx; rfl⟩
  | checkIntegrity => exact sim_ci a p hw hsw hsc (Or.inr (Or.inr ⟨k, lost, hph⟩)) he ho hi

theorem sim_blind (a : Api) (p : Spec) (op : Op) (hph : p.ph = .blind) (hs : Sim a p) (hop : ∀ o b, op ≠ .reset o b) :
    Sim (step a op).1 (specStep p op).1 ∧ Meets (step a op) (specStep p op).2 := by
  have hspec : specStep p op = (p, none) := by
    unfold specStep
    cases op with
    | reset o b => exact absurd rfl (hop o b)
    | decodeCtx c => cases c <;> simp [hph]
    | _ => simp [hph]
  rw [hspec]
  obtain ⟨hw, hsw, hsc, _⟩ := hs
  refine ⟨⟨?_, hsw, hsc, by rw [hph]; trivial⟩, by intro x hx; cases hx⟩
  rw [← hw]
  cases op with
  | reset o b => exact absurd rfl (hop o b)
  | checkIntegrity =>
    show (stepCheckIntegrity a).1.whole = a.whole
    unfold stepCheckIntegrity
    simp only
    split
    · rfl
    · split <;> rfl
  | _ => rfl

/-- **one step of the simulation**: from related states, whatever is called, the results are those the specification
demands and the states are related again -/
theorem sim_step (a : Api) (p : Spec) (op : Op) (hs : Sim a p) (hop : OpSmall op) :
    Sim (step a op).1 (specStep p op).1 ∧ Meets (step a op) (specStep p op).2 := by
  by_cases hr : ∃ o b, op = .reset o b
  · obtain ⟨o, b, rfl⟩ := hr
    exact sim_reset a p o b hop
  · have hop' : ∀ o b, op ≠ .reset o b := fun o b h => hr ⟨o, b, h⟩
    cases hph : p.ph with
    | start => exact sim_start a p op hph hs hop'
    | header => exact sim_header a p op hph hs hop'
    | fileId k l => exact sim_fileId a p op k l hph hs hop'
    | peekFailed e k => exact sim_peekFailed a p e k op hop' hph hs
    | dead e => exact sim_dead a p e op hop' hph hs
    | blind => exact sim_blind a p op hph hs hop'

theorem sim_run : ∀ (ops : List Op) (a : Api) (p : Spec), Sim a p → (∀ op ∈ ops, OpSmall op) →
    ∀ x ∈ (run a ops).zip (specRun p ops), ∀ r, x.2 = some r → x.1 = r
  | [], _, _, _, _ => by intro x hx; cases hx
  | op :: ops, a, p, hs, hops => by
    intro x hx r hr
    have hstep := sim_step a p op hs (hops op (by simp))
    unfold run specRun at hx
    simp only [List.zip_cons_cons, List.mem_cons] at hx
    rcases hx with rfl | hx
    · exact hstep.2 r hr
    · exact sim_run ops _ _ hstep.1 (fun o ho => hops o (by simp [ho])) x hx r hr

end SameOp

end Fit.DecApi
