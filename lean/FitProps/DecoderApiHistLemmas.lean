import FitProps.DecoderApiLemmas
/-! Lemmas behind C07 (history independence): the record loops do not depend on their fuel, the loop of `Decode`
continues the loop of `PeekFileId` (`loop_split`), a header that decodes with checksums on decodes alike with checksums
off (`decodeFileHeader_noChk`), and `discardMessages` ends exactly at the end of the data window wherever inside the
window it starts (`discardMessages_spec`). -/
namespace Fit.DecApi
open Fit.Crc Fit.Value Fit.Gen Fit.Gen.DecApi


/-- with enough fuel the record loop does not depend on the fuel -/
theorem decodeMessages_fuel : ∀ (f : Nat) (s : St), Inv s → fuelOf s ≤ f →
    decodeMessages f s = decodeMessages (fuelOf s) s
  | 0, s, _, hf => by simp [fuelOf] at hf
  | f + 1, s, hi, hf => by
    have hfo : fuelOf s = s.rest.length + 1 := rfl
    rw [hfo]
    unfold decodeMessages
    split
    · have hm := decodeMessage_sat s hi
      cases hr : decodeMessage s with
      | ok p =>
        obtain ⟨s', ev⟩ := p
        rw [hr] at hm
        obtain ⟨m1, hlt⟩ := hm
        simp only at m1 hlt ⊢
        have h1 := decodeMessages_fuel f s' m1.1 (by simp only [fuelOf] at hf ⊢; omega)
        have h2 := decodeMessages_fuel s.rest.length s' m1.1 (by simp only [fuelOf]; omega)
        rw [h1, h2]
      | err e => rfl
      | panic => rfl
      | hang => rfl
    · rfl

theorem peekLoop_fuel : ∀ (f : Nat) (s : St), Inv s → fuelOf s ≤ f →
    peekLoop f s = peekLoop (fuelOf s) s
  | 0, s, _, hf => by simp [fuelOf] at hf
  | f + 1, s, hi, hf => by
    have hfo : fuelOf s = s.rest.length + 1 := rfl
    rw [hfo]
    unfold peekLoop
    split
    · have hm := decodeMessage_sat s hi
      cases hr : decodeMessage s with
      | ok p =>
        obtain ⟨s', ev⟩ := p
        rw [hr] at hm
        obtain ⟨m1, hlt⟩ := hm
        simp only at m1 hlt ⊢
        have h1 := peekLoop_fuel f s' m1.1 (by simp only [fuelOf] at hf ⊢; omega)
        have h2 := peekLoop_fuel s.rest.length s' m1.1 (by simp only [fuelOf]; omega)
        rw [h1, h2]
      | err e => rfl
      | panic => rfl
      | hang => rfl
    · rfl

theorem peekPast_fuel : ∀ (f : Nat) (s : St), Inv s → fuelOf s ≤ f →
    peekPast f s = peekPast (fuelOf s) s
  | 0, s, _, hf => by simp [fuelOf] at hf
  | f + 1, s, hi, hf => by
    have hfo : fuelOf s = s.rest.length + 1 := rfl
    rw [hfo]
    unfold peekPast
    split
    · have hm := decodeMessage_sat s hi
      cases hr : decodeMessage s with
      | ok p =>
        obtain ⟨s', ev⟩ := p
        rw [hr] at hm
        obtain ⟨m1, hlt⟩ := hm
        simp only at m1 hlt ⊢
        have h1 := peekPast_fuel f s' m1.1 (by simp only [fuelOf] at hf ⊢; omega)
        have h2 := peekPast_fuel s.rest.length s' m1.1 (by simp only [fuelOf]; omega)
        rw [h1, h2]
      | err e => rfl
      | panic => rfl
      | hang => rfl
    · rfl


/-- the record loop of `Decode` continued after the loop of `PeekFileId` (which never started a record outside the data
window): the peek's listener calls first, then what the rest of the loop does; if the peek failed, the loop fails alike -/
def contAfterPeek (p : LoopOut) : LoopOut :=
  match p.2.2 with
  | .ok () => let q := decodeMessages (fuelOf p.1) p.1; (q.1, p.2.1 ++ q.2.1, q.2.2)
  | _ => p

theorem loop_split (n : Nat) : ∀ (s : St), s.rest.length = n → Inv s → peekPast (fuelOf s) s = false →
    decodeMessages (fuelOf s) s = contAfterPeek (peekLoop (fuelOf s) s) := by
  induction n using Nat.strongRecOn with
  | _ n IH =>
    intro s hn hi hp
    have hfo : fuelOf s = s.rest.length + 1 := rfl
    rw [hfo] at hp ⊢
    unfold peekLoop
    unfold peekPast at hp
    split
    · rename_i hnone
      simp only [hnone, if_true, Bool.or_eq_false_iff, decide_eq_false_iff_not] at hp
      obtain ⟨hcur, hp'⟩ := hp
      have hcur' : s.q.cur < s.q.hdr.dataSize := by omega
      unfold decodeMessages
      simp only [hcur', if_true]
      have hm := decodeMessage_sat s hi
      cases hr : decodeMessage s with
      | ok p =>
        obtain ⟨s', ev⟩ := p
        rw [hr] at hm hp'
        obtain ⟨m1, hlt⟩ := hm
        simp only at m1 hlt hp' ⊢
        have hf' : fuelOf s' ≤ s.rest.length := by simp only [fuelOf]; omega
        rw [decodeMessages_fuel _ s' m1.1 hf', peekLoop_fuel _ s' m1.1 hf']
        rw [peekPast_fuel _ s' m1.1 hf'] at hp'
        have ih := IH s'.rest.length (by omega) s' rfl m1.1 hp'
        rw [ih]
        rcases hpk : peekLoop (fuelOf s') s' with ⟨s2, evs1, r⟩
        cases r with
        | ok u => simp [contAfterPeek]
        | err e => simp [contAfterPeek]
        | panic => simp [contAfterPeek]
        | hang => simp [contAfterPeek]
      | err e => simp [loopFail, contAfterPeek]
      | panic => simp [loopFail, contAfterPeek]
      | hang => simp [loopFail, contAfterPeek]
    · simp [contAfterPeek, hfo]


/-- the same decoder with checksums off (what `Discard` works with) -/
def noChk (s : St) : St := { s with o := { s.o with chk := false } }

theorem rawRead_noChk (k : Nat) (s : St) :
    rawRead k (noChk s) = (match rawRead k s with | .ok (b, s') => .ok (b, noChk s') | .err e => .err e | .panic => .panic | .hang => .hang) := by
  unfold rawRead noChk
  split
  · rfl
  · split <;> rfl

theorem decodeFileHeader_noChk (s s' : St) (h : decodeFileHeader s = .ok s') :
    decodeFileHeader (noChk s) = .ok (noChk s') := by
  unfold decodeFileHeader at h ⊢
  rw [rawRead_noChk]
  cases h1 : rawRead 1 s with
  | err e => rw [h1] at h; cases h
  | panic => rw [h1] at h; cases h
  | hang => rw [h1] at h; cases h
  | ok p =>
    obtain ⟨b, s1⟩ := p
    rw [h1] at h
    simp only [Bind.bind, Res.bind] at h ⊢
    cases h2 : idx b 0 with
    | err e => rw [h2] at h; cases h
    | panic => rw [h2] at h; cases h
    | hang => rw [h2] at h; cases h
    | ok size =>
      rw [h2] at h
      simp only at h ⊢
      split at h
      · cases h
      rename_i hsz
      simp only [hsz, if_false]
      rw [rawRead_noChk]
      cases h3 : rawRead (size - 1) s1 with
      | err e => rw [h3] at h; cases h
      | panic => rw [h3] at h; cases h
      | hang => rw [h3] at h; cases h
      | ok p2 =>
        obtain ⟨b2, s2⟩ := p2
        rw [h3] at h
        simp only at h ⊢
        have hnc : (noChk s2).o.chk = false := rfl
        have hrest : (noChk s2).rest = s2.rest := rfl
        have hq : (noChk s2).q = s2.q := rfl
        have hlook : (noChk s2).look = s2.look := rfl
        have hcrc1 : (noChk s1).q.crc16 = s1.q.crc16 := rfl
        -- the pure part of the header parse does not look at the options; with checksums off the first branch is taken
        have fin : ∀ (h : Hdr), (Pure.pure { s2 with q := { s2.q with hdr := h, crc16 := 0 } } : Res St) = Res.ok s' →
            (Pure.pure { noChk s2 with q := { (noChk s2).q with hdr := h, crc16 := 0 } } : Res St) = Res.ok (noChk s') := by
          intro h hh; cases hh; rfl
        repeat' (split at h <;> try (cases h; done))
        all_goals
          have hf := fin _ h
          clear h fin
          simp_all


theorem readN_eq (k : Nat) (s : St) (hk : k ≤ reservedbuf) :
    readN k s = if k ≤ s.rest.length then
        .ok (s.rest.take k, { s with rest := s.rest.drop k, q := { s.q with cur := (s.q.cur + k) % 4294967296, crc16 := (if s.o.chk then write s.q.crc16 (s.rest.take k) else s.q.crc16) } })
      else .err .eof := by
  unfold readN rawRead
  have : ¬ k > reservedbuf := by omega
  simp only [this, if_false]
  by_cases h : k ≤ s.rest.length
  · have h' := (hasN_iff s.rest k).mpr h
    simp only [h', h, if_true]
    rfl
  · have h' : Fit.Integrity.hasN s.rest k = false := by
      cases hh : Fit.Integrity.hasN s.rest k
      · rfl
      · exact absurd ((hasN_iff s.rest k).mp hh) h
    simp only [h', h, if_false]
    rfl

/-- where `discardMessages` ends: exactly at the end of the data window, or at the end of the stream -/
theorem discardMessages_spec : ∀ (f : Nat) (s : St), s.rest.length < f → s.q.cur ≤ s.q.hdr.dataSize →
    s.q.hdr.dataSize < 4294967296 →
    (s.q.hdr.dataSize - s.q.cur ≤ s.rest.length →
      ∃ s', discardMessages f s = .ok s' ∧ s'.rest = s.rest.drop (s.q.hdr.dataSize - s.q.cur) ∧ s'.o = s.o ∧ s'.look = s.look) ∧
    (s.rest.length < s.q.hdr.dataSize - s.q.cur → discardMessages f s = .err .eof)
  | 0, s, hf, _, _ => by omega
  | f + 1, s, hf, hc, hd => by
    unfold discardMessages
    by_cases hlt : s.q.cur < s.q.hdr.dataSize
    · simp only [hlt, if_true]
      have hsz : min (s.q.hdr.dataSize - s.q.cur) reservedbuf ≤ reservedbuf := Nat.min_le_right _ _
      have hpos : 0 < min (s.q.hdr.dataSize - s.q.cur) reservedbuf := by simp only [reservedbuf]; omega
      rw [readN_eq _ s hsz]
      by_cases hen : min (s.q.hdr.dataSize - s.q.cur) reservedbuf ≤ s.rest.length
      · simp only [hen, if_true]
        show (_ ∧ _)
        simp only [Bind.bind, Res.bind]
        generalize hk : min (s.q.hdr.dataSize - s.q.cur) reservedbuf = k at *
        have hkle : k ≤ s.q.hdr.dataSize - s.q.cur := hk ▸ Nat.min_le_left _ _
        have hmod : (s.q.cur + k) % 4294967296 = s.q.cur + k := Nat.mod_eq_of_lt (by omega)
        have ih := discardMessages_spec f
          { s with rest := s.rest.drop k, q := { s.q with cur := (s.q.cur + k) % 4294967296, crc16 := (if s.o.chk then write s.q.crc16 (s.rest.take k) else s.q.crc16) } }
          (by simp only [List.length_drop]; omega) (by simp only [hmod]; omega) hd
        simp only [hmod, List.length_drop, List.drop_drop] at ih ⊢
        constructor
        · intro hle
          obtain ⟨s', h1, h2, h3, h4⟩ := ih.1 (by omega)
          refine ⟨s', h1, ?_, h3, h4⟩
          rw [h2]; congr 1; omega
        · intro hgt
          exact ih.2 (by omega)
      · simp only [hen, if_false]
        constructor
        · intro hle
          have : min (s.q.hdr.dataSize - s.q.cur) reservedbuf ≤ s.q.hdr.dataSize - s.q.cur := Nat.min_le_left _ _
          omega
        · intro _; rfl
    · simp only [hlt, if_false]
      have : s.q.hdr.dataSize - s.q.cur = 0 := by omega
      constructor
      · intro _; exact ⟨s, rfl, by rw [this]; rfl, rfl, rfl⟩
      · intro h; omega
end Fit.DecApi
