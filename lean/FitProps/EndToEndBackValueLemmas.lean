import FitProps.EndToEndValueLemmas
import FitProps.ValueReencodeStrLemmas
/-!
Value layer of the RE-ENCODING direction of C01 (decoder output handed back to the encoder): the shape of what
`UnmarshalValue` returns for ARBITRARY bytes (`unmarshal_num_shape`, `unmarshal_str_shape`), and that such values are
their own wire-normal form (`Fit.E2E.normalValue`) under the flags they were read with, lie outside the finding classes of
the forward direction, and are well-formed.
-/
set_option linter.unusedSimpArgs false
namespace Fit.E2E
open Fit.Gen Fit.Value Fit.Utf8

/-! ### lengths of decoded arrays -/

theorem chunks_length (w : Nat) (hw : 0 < w) : ∀ (fuel : Nat) (bs : List Nat), bs.length ≤ fuel →
    (chunks w fuel bs).length = bs.length / w := by
  intro fuel
  induction fuel with
  | zero =>
    intro bs h
    have : bs.length = 0 := by omega
    simp [chunks, this]
  | succ f ih =>
    intro bs h
    simp only [chunks]
    split
    · rename_i hc
      simp only [List.length_cons]
      rw [ih (bs.drop w) (by simp; omega), List.length_drop]
      have : bs.length = (bs.length - w) + w := by omega
      conv => rhs; rw [this, Nat.add_div_right _ hw]
    · rename_i hc
      have : bs.length < w := by omega
      simp [Nat.div_eq_of_lt this]

theorem decSlice_length (w a : Nat) (hw : 0 < w) (bs : List Nat) : (decSlice w a bs).length = bs.length / w := by
  simp [decSlice, chunks_length w hw bs.length bs (Nat.le_refl _)]

/-! ### the shape of `UnmarshalValue`'s answer for a numeric base type -/

attribute [local simp] btEnum btSint8 btByte btUint8 btUint8z btSint16 btUint16 btUint16z btSint32 btUint32 btUint32z
  btSint64 btUint64 btUint64z btFloat32 btFloat64 btString

theorem allLt_bytes (bs : List Nat) (hb : Bytes bs) : allLt 256 bs = true := by
  simp only [allLt, List.all_eq_true, decide_eq_true_eq]
  exact hb

/-- a numeric (valid, non-string) base type -/
def NumBt (bt : Nat) : Prop := btValid bt = true ∧ bt ≠ btString

theorem numBt_cases (bt : Nat) (h : NumBt bt) :
    bt = btEnum ∨ bt = btSint8 ∨ bt = btUint8 ∨ bt = btSint16 ∨ bt = btUint16 ∨ bt = btSint32 ∨ bt = btUint32 ∨
    bt = btFloat32 ∨ bt = btFloat64 ∨ bt = btUint8z ∨ bt = btUint16z ∨ bt = btUint32z ∨ bt = btByte ∨ bt = btSint64 ∨
    bt = btUint64 ∨ bt = btUint64z := by
  have hm := (btValid_iff bt).mp h.1
  have hs := h.2
  simp only [baseTypeList, List.mem_cons, List.not_mem_nil, or_false] at hm
  simp only [btString] at hs
  simp only [btEnum, btSint8, btByte, btUint8, btUint8z, btSint16, btUint16, btUint16z, btSint32, btUint32, btUint32z,
    btSint64, btUint64, btUint64z, btFloat32, btFloat64]
  omega

/-- **the shape of a numeric read**: an array read returns `sliceOf` of as many elements as the bytes hold in full, a
scalar read `scalarOf` of the first element — every element below `256 ^ size` -/
theorem unmarshal_num_shape (bs : List Nat) (a bt : Nat) (isBool isArray : Bool) (v : Value)
    (hb : Bytes bs) (hn : NumBt bt) (h : unmarshal bs a bt isBool isArray = .ok v) :
    (isArray = true → ∃ xs, v = sliceOf bt isBool xs ∧ xs.length = bs.length / btSize bt ∧ allLt (256 ^ btSize bt) xs = true) ∧
    (isArray = false → ∃ x, v = scalarOf bt isBool x ∧ x < 256 ^ btSize bt) := by
  obtain ⟨t0, t1, t2, t3, t4, t5, t6, t7, t8, t9, t10, t11, t12, t13, t14, t15, t16⟩ := btSize_table
  simp only [btEnum, btSint8, btByte, btUint8, btUint8z, btSint16, btUint16, btUint16z, btSint32,
    btUint32, btUint32z, btSint64, btUint64, btUint64z, btFloat32, btFloat64, btString] at t0 t1 t2 t3 t4 t5 t6 t7 t8 t9 t10 t11 t12 t13 t14 t15 t16
  have sc : ∀ (w : Nat) (mk : Nat → Value), decScalar w a bs mk = .ok v → ∃ x, v = mk x ∧ x < 256 ^ w := by
    intro w mk h
    obtain ⟨x, hx, hlt, _⟩ := decScalar_reencode w a a bs mk hb v h
    exact ⟨x, hx, hlt⟩
  have sl : ∀ (w : Nat), 0 < w → (decSlice w a bs).length = bs.length / w ∧ allLt (256 ^ w) (decSlice w a bs) = true :=
    fun w hw => ⟨decSlice_length w a hw bs, decSlice_lt w a bs hb⟩
  have hbl : allLt (256 ^ 1) bs = true := by simpa using allLt_bytes bs hb
  rcases numBt_cases bt hn with h' | h' | h' | h' | h' | h' | h' | h' | h' | h' | h' | h' | h' | h' | h' | h' <;> subst h' <;>
    cases isArray <;> cases isBool <;> simp [unmarshal] at h <;>
    simp only [t0, t1, t2, t3, t4, t5, t6, t7, t8, t9, t10, t11, t12, t13, t14, t15, t16, btEnum, btSint8, btByte, btUint8, btUint8z,
      btSint16, btUint16, btUint16z, btSint32, btUint32, btUint32z, btSint64, btUint64, btUint64z, btFloat32, btFloat64,
      Bool.false_eq_true, false_implies, true_implies, true_and, and_true, reduceCtorEq] <;>
    first
      | (obtain ⟨x, hx, hlt⟩ := sc _ _ h; exact ⟨x, by simp [scalarOf, hx], hlt⟩)
      | (subst h; exact ⟨bs, by simp [sliceOf], by simp, hbl⟩)
      | (subst h; exact ⟨_, by simp [sliceOf], (sl _ (by decide)).1, (sl _ (by decide)).2⟩)

/-! ### values that are their own normal form -/

/-- what the re-encoding direction needs of a value read under the flags `(bt, isBool, isArray)`: it is well-formed, lies
outside the finding classes of the forward direction, and is its own wire-normal form -/
structure Fine (bt : Nat) (isBool isArray : Bool) (v : Value) : Prop where
  wf : wf v = true
  nz : kfZeroV v = false
  na : kfArrV bt isBool isArray v = false
  nf : kfFFFDV v = false
  nv : normalValue bt isBool isArray v = v

theorem pow_facts : (256 : Nat) ^ 1 = 2 ^ 8 ∧ (256 : Nat) ^ 2 = 2 ^ 16 ∧ (256 : Nat) ^ 4 = 2 ^ 32 ∧ (256 : Nat) ^ 8 = 2 ^ 64 := by decide

theorem clampBool_lt (b : Nat) (h : b < 256) : clampBool b < 256 := by
  unfold clampBool
  split
  · show boolInvalid < 256; decide
  · exact h

theorem allLt_map_clamp (xs : List Nat) (h : allLt 256 xs = true) : allLt 256 (xs.map clampBool) = true := by
  simp only [allLt, List.all_eq_true, decide_eq_true_eq, List.mem_map] at h ⊢
  rintro _ ⟨x, hx, rfl⟩
  exact clampBool_lt x (h x hx)

theorem map_boolByte_clamp (xs : List Nat) : (xs.map clampBool).map boolByte = xs.map clampBool := by
  simp only [List.map_map]
  apply List.map_congr_left
  intro x _
  simp only [Function.comp]
  rcases clampBool_cases x with h | h | h <;> rw [h] <;> decide

theorem map_clamp_clamp (xs : List Nat) : (xs.map clampBool).map clampBool = xs.map clampBool := by
  simp only [List.map_map]
  apply List.map_congr_left
  intro x _
  simp only [Function.comp]
  rcases clampBool_cases x with h | h | h <;> rw [h] <;> decide

theorem kfFFFDV_num (v : Value) (h : isStr v = false) : kfFFFDV v = false := by
  cases v <;> simp [isStr] at h <;> simp [kfFFFDV, clean, strList, pieces]

/-- an array of at least one element read under a numeric base type is fine in array mode -/
theorem fine_sliceOf (bt : Nat) (hn : NumBt bt) (ib : Bool) (xs : List Nat) (hx : allLt (256 ^ btSize bt) xs = true)
    (hne : xs ≠ []) : Fine bt ib true (sliceOf bt ib xs) := by
  obtain ⟨t0, t1, t2, t3, t4, t5, t6, t7, t8, t9, t10, t11, t12, t13, t14, t15, t16⟩ := btSize_table
  obtain ⟨p0, p1, p2, p3, p4, p5, p6, p7, p8, p9, p10, p11, p12⟩ := protoSize_table
  obtain ⟨q1, q2, q4, q8⟩ := pow_facts
  have hl' : xs.length ≠ 0 := by cases xs with | nil => exact absurd rfl hne | cons _ _ => simp
  rcases numBt_cases bt hn with h' | h' | h' | h' | h' | h' | h' | h' | h' | h' | h' | h' | h' | h' | h' | h' <;> subst h' <;>
    cases ib <;>
    simp only [t0, t1, t2, t3, t4, t5, t6, t7, t8, t9, t10, t11, t12, t13, t14, t15, t16, q1, q2, q4, q8] at hx <;>
    refine ⟨?_, ?_, ?_, ?_, ?_⟩ <;>
    simp [sliceOf, wf, kfZeroV, size, kfArrV, kfFFFDV, clean, strList, pieces, isStr, normalValue, elems, hx, p1, p2, p3, p4, p5, p6, p7, p8, p9, p10,
      p11, hl', map_boolByte_clamp, map_clamp_clamp, allLt_map_clamp, q1] <;>
    omega

theorem btSize_lits : btSize 0 = 1 ∧ btSize 1 = 1 ∧ btSize 2 = 1 ∧ btSize 131 = 2 ∧ btSize 132 = 2 ∧ btSize 133 = 4 ∧
    btSize 134 = 4 ∧ btSize 136 = 4 ∧ btSize 137 = 8 ∧ btSize 10 = 1 ∧ btSize 139 = 2 ∧ btSize 140 = 4 ∧ btSize 13 = 1 ∧
    btSize 142 = 8 ∧ btSize 143 = 8 ∧ btSize 144 = 8 ∧ btSize 7 = 1 := by decide +kernel

/-- one number read under a numeric base type is fine in scalar mode -/
theorem fine_scalarOf (bt : Nat) (hn : NumBt bt) (ib : Bool) (x : Nat) (hx : x < 256 ^ btSize bt) :
    Fine bt ib false (scalarOf bt ib x) := by
  obtain ⟨t0, t1, t2, t3, t4, t5, t6, t7, t8, t9, t10, t11, t12, t13, t14, t15, t16⟩ := btSize_table
  obtain ⟨p0, p1, p2, p3, p4, p5, p6, p7, p8, p9, p10, p11, p12⟩ := protoSize_table
  obtain ⟨q1, q2, q4, q8⟩ := pow_facts
  have hc : clampBool x < 2 ^ 8 := by
    rcases clampBool_cases x with h | h | h <;> rw [h] <;> decide
  rcases numBt_cases bt hn with h' | h' | h' | h' | h' | h' | h' | h' | h' | h' | h' | h' | h' | h' | h' | h' <;> subst h' <;>
    cases ib <;>
    simp only [t0, t1, t2, t3, t4, t5, t6, t7, t8, t9, t10, t11, t12, t13, t14, t15, t16, q1, q2, q4, q8] at hx <;>
    refine ⟨?_, ?_, ?_, ?_, ?_⟩ <;>
    simp [scalarOf, mkBool_eq, wf, kfZeroV, size, typeOf, kfArrV, kfFFFDV, clean, strList, pieces, isStr, normalValue, elems, hx, hc,
      p1, p2, p3, p4, p5, p6, p7, p8, p9, p10, p11]

/-! ### how the decoder re-infers "array" for such values (fields without profile entry, developer fields) -/

theorem size_sliceOf (bt : Nat) (hn : NumBt bt) (ib : Bool) (xs : List Nat) : size (sliceOf bt ib xs) = xs.length * btSize bt := by
  obtain ⟨t0, t1, t2, t3, t4, t5, t6, t7, t8, t9, t10, t11, t12, t13, t14, t15, t16⟩ := btSize_lits
  obtain ⟨p0, p1, p2, p3, p4, p5, p6, p7, p8, p9, p10, p11, p12⟩ := protoSize_table
  rcases numBt_cases bt hn with h' | h' | h' | h' | h' | h' | h' | h' | h' | h' | h' | h' | h' | h' | h' | h' <;> subst h' <;>
    cases ib <;>
    simp [sliceOf, size, t0, t1, t2, t3, t4, t5, t6, t7, t8, t9, t10, t11, t12, t13, t14, t15, p1, p2, p3, p4, p5, p6, p7, p8, p9, p10, p11]

theorem size_scalarOf (bt : Nat) (hn : NumBt bt) (ib : Bool) (x : Nat) : size (scalarOf bt ib x) = btSize bt := by
  obtain ⟨t0, t1, t2, t3, t4, t5, t6, t7, t8, t9, t10, t11, t12, t13, t14, t15, t16⟩ := btSize_lits
  obtain ⟨p0, p1, p2, p3, p4, p5, p6, p7, p8, p9, p10, p11, p12⟩ := protoSize_table
  rcases numBt_cases bt hn with h' | h' | h' | h' | h' | h' | h' | h' | h' | h' | h' | h' | h' | h' | h' | h' <;> subst h' <;>
    cases ib <;>
    simp [scalarOf, mkBool_eq, size, typeOf, t0, t1, t2, t3, t4, t5, t6, t7, t8, t9, t10, t11, t12, t13, t14, t15, p1, p2, p3, p4, p5, p6, p7, p8, p9, p10, p11]

theorem btSize_pos (bt : Nat) (h : btValid bt = true) : 0 < btSize bt := by
  simpa [btValid] using h

theorem inferArray_sliceOf (bt : Nat) (hn : NumBt bt) (ib : Bool) (xs : List Nat) :
    inferArray bt (sliceOf bt ib xs) = decide (2 ≤ xs.length) := by
  have hw := btSize_pos bt hn.1
  unfold inferArray
  rw [if_neg hn.2, size_sliceOf bt hn]
  congr 1
  apply propext
  constructor
  · rintro ⟨h1, _⟩
    rcases Nat.lt_or_ge xs.length 2 with h | h
    · have : xs.length * btSize bt ≤ 1 * btSize bt := Nat.mul_le_mul_right _ (by omega)
      omega
    · exact h
  · intro h
    refine ⟨?_, Nat.mul_mod_left _ _⟩
    have : 2 * btSize bt ≤ xs.length * btSize bt := Nat.mul_le_mul_right _ h
    omega

theorem inferArray_scalarOf (bt : Nat) (hn : NumBt bt) (ib : Bool) (x : Nat) : inferArray bt (scalarOf bt ib x) = false := by
  unfold inferArray
  rw [if_neg hn.2, size_scalarOf bt hn]
  simp

/-- no valid base type has the profile type bool -/
theorem numBt_notBool (bt : Nat) (h : btValid bt = true) : decide (bt &&& baseTypeNumMask = Fit.Gen.DecApi.profileBool) = false := by
  have hm := (btValid_iff bt).mp h
  simp only [baseTypeList, List.mem_cons, List.not_mem_nil, or_false] at hm
  rcases hm with h | h | h | h | h | h | h | h | h | h | h | h | h | h | h | h | h <;> subst h <;> decide

/-! ### a value read under one base type, re-read under another one it aligns with (developer fields: the validator's field
description need not be the decoder's) -/

theorem sliceOf_align (bt0 : Nat) (hn : NumBt bt0) (xs : List Nat) (bt' : Nat) (ha : align (sliceOf bt0 false xs) bt' = true) :
    NumBt bt' ∧ btSize bt' = btSize bt0 ∧ sliceOf bt' false xs = sliceOf bt0 false xs := by
  obtain ⟨t0, t1, t2, t3, t4, t5, t6, t7, t8, t9, t10, t11, t12, t13, t14, t15, t16⟩ := btSize_table
  rcases numBt_cases bt0 hn with h' | h' | h' | h' | h' | h' | h' | h' | h' | h' | h' | h' | h' | h' | h' | h' <;> subst h' <;>
    simp [sliceOf, align] at ha <;>
    first
      | (subst ha; exact ⟨⟨by decide +kernel, by decide⟩, by decide +kernel, by simp [sliceOf]⟩)
      | (rcases ha with rfl | rfl <;> exact ⟨⟨by decide +kernel, by decide⟩, by decide +kernel, by simp [sliceOf]⟩)
      | (rcases ha with ((rfl | rfl) | rfl) | rfl <;> exact ⟨⟨by decide +kernel, by decide⟩, by decide +kernel, by simp [sliceOf]⟩)

theorem scalarOf_align (bt0 : Nat) (hn : NumBt bt0) (x : Nat) (bt' : Nat) (ha : align (scalarOf bt0 false x) bt' = true) :
    NumBt bt' ∧ btSize bt' = btSize bt0 ∧ scalarOf bt' false x = scalarOf bt0 false x := by
  rcases numBt_cases bt0 hn with h' | h' | h' | h' | h' | h' | h' | h' | h' | h' | h' | h' | h' | h' | h' | h' <;> subst h' <;>
    simp [scalarOf, align] at ha <;>
    first
      | (subst ha; exact ⟨⟨by decide +kernel, by decide⟩, by decide +kernel, by simp [scalarOf]⟩)
      | (rcases ha with rfl | rfl <;> exact ⟨⟨by decide +kernel, by decide⟩, by decide +kernel, by simp [scalarOf]⟩)
      | (rcases ha with ((rfl | rfl) | rfl) | rfl <;> exact ⟨⟨by decide +kernel, by decide⟩, by decide +kernel, by simp [scalarOf]⟩)

/-! ### strings: what `utf8String` / the string-array read return -/

theorem good_bytes {c : List Nat} (h : Good c) : allLt 256 c = true := by
  simp only [allLt, List.all_eq_true, decide_eq_true_eq]
  exact h.1

theorem good_cutNul {c : List Nat} (h : Good c) : cutNul c = c :=
  takeWhile_nz_of_nulFree c h.2.1

theorem pieces_good (vs : List (List Nat)) (hg : ∀ s ∈ vs, Good s ∧ s ≠ []) : pieces vs = vs := by
  rw [pieces_of_nulFree vs (fun s hs => (hg s hs).1.2.1)]
  apply List.filter_eq_self.mpr
  intro s hs
  simpa using (hg s hs).2

theorem pieces_single_good (s : List Nat) (hg : Good s) : pieces [s] = if s.isEmpty then [] else [s] := by
  rw [pieces_of_nulFree [s] (fun t ht => by simp at ht; subst ht; exact hg.2.1)]
  cases s <;> simp

theorem strSize_pos (s : List Nat) : 0 < strSize s := by
  unfold strSize
  split
  · omega
  · rename_i h
    cases s with
    | nil => simp at h
    | cons _ _ => simp

/-- a scalar string read (`utf8String`) is fine in scalar mode -/
theorem fine_string (s : List Nat) (hg : Good s) (ib : Bool) : Fine btString ib false (.string s) := by
  obtain ⟨p0, p1, p2, p3, p4, p5, p6, p7, p8, p9, p10, p11, p12⟩ := protoSize_table
  have hs := strSize_pos s
  refine ⟨by simpa [wf] using good_bytes hg, ?_, by simp [kfArrV], ?_, by simp [normalValue, good_cutNul hg]⟩
  · simp [kfZeroV, size, p12]; omega
  · have hc : cleanStr s = true := good_cleanStr s hg
    simp only [kfFFFDV, clean, good_cutNul hg, hc, strList, pieces_single_good s hg, Bool.not_true, Bool.false_or, Bool.not_eq_false']
    split <;> simp [hc]

theorem inferArray_string (s : List Nat) (hg : Good s) : inferArray btString (.string s) = false := by
  simp only [inferArray, if_true, strList, pieces_single_good s hg]
  split <;> simp

theorem sum_strSize_pos (vs : List (List Nat)) (h : vs ≠ []) : 0 < (vs.map strSize).sum := by
  cases vs with
  | nil => exact absurd rfl h
  | cons v vs =>
    simp only [List.map_cons, List.sum_cons]
    have := strSize_pos v
    omega

/-- everything but the normal form for a string array the decoder returned (also in the class where it is read back in
scalar mode: fewer than two strings in a field without profile entry) -/
theorem strings_basic (vs : List (List Nat)) (hg : ∀ s ∈ vs, Good s ∧ s ≠ []) (ib arr : Bool) (hsh : arr = true ∨ vs.length < 2) :
    wf (.sliceString vs) = true ∧ kfZeroV (.sliceString vs) = false ∧ kfArrV btString ib arr (.sliceString vs) = false ∧
    kfFFFDV (.sliceString vs) = false := by
  obtain ⟨p0, p1, p2, p3, p4, p5, p6, p7, p8, p9, p10, p11, p12⟩ := protoSize_table
  have hp := pieces_good vs hg
  refine ⟨?_, ?_, ?_, ?_⟩
  · simp only [wf, List.all_eq_true]
    exact fun s hs => good_bytes (hg s hs).1
  · simp only [kfZeroV, size, p12, Nat.mul_one]
    split <;> simp
    rename_i h; exact h
  · cases arr with
    | true => simp [kfArrV]
    | false =>
      have hl : vs.length < 2 := by
        rcases hsh with h | h
        · cases h
        · exact h
      simp only [kfArrV, Bool.not_false, Bool.true_and, hp]
      match vs, hg, hl with
      | [], _, _ => simp
      | [v], hg, _ => simp [good_cutNul (hg v (by simp)).1]
  · simp only [kfFFFDV, clean, strList, hp, Bool.or_self, Bool.not_eq_false', List.all_eq_true]
    exact fun s hs => good_cleanStr s (hg s hs).1

/-- a string-array read is fine in array mode -/
theorem fine_strings (vs : List (List Nat)) (hg : ∀ s ∈ vs, Good s ∧ s ≠ []) (ib : Bool) : Fine btString ib true (.sliceString vs) := by
  obtain ⟨h1, h2, h3, h4⟩ := strings_basic vs hg ib true (Or.inl rfl)
  exact ⟨h1, h2, h3, h4, by simp [normalValue, pieces_good vs hg]⟩

theorem inferArray_strings (vs : List (List Nat)) (hg : ∀ s ∈ vs, Good s ∧ s ≠ []) :
    inferArray btString (.sliceString vs) = decide (2 ≤ vs.length) := by
  simp only [inferArray, if_true, strList, pieces_good vs hg]
  congr 1

/-- the shape of a string read -/
theorem unmarshal_str_shape (bs : List Nat) (a : Nat) (isBool isArray : Bool) (v : Value) (hb : Bytes bs)
    (h : unmarshal bs a btString isBool isArray = .ok v) :
    (isArray = true → ∃ vs, v = .sliceString vs ∧ vs = unmarshalStrings bs ∧ ∀ s ∈ vs, Good s ∧ s ≠ []) ∧
    (isArray = false → ∃ s, v = .string s ∧ Good s) := by
  cases isArray <;> simp [unmarshal] at h <;> subst h
  · exact ⟨by simp, fun _ => ⟨_, rfl, utf8String_good bs hb⟩⟩
  · exact ⟨fun _ => ⟨_, rfl, rfl, unmarshalStrings_good bs hb⟩, by simp⟩

end Fit.E2E
