import FitProps.IntegrityLemmas
/-!
# C04 — Corrupted or truncated files are rejected, never silently accepted

PROPERTY THEOREMS (audited by ./check): C04_consts, C04_burst, C04_bitflip, C04_truncation, C04_intact_accepted

Objects: `Integrity.checkIntegrity` (model of `Decoder.CheckIntegrity`), `Integrity.decodeOne` / `decodeAll`
(model of the first `Decode()` / of the decode loop, checksums on), `IsEncoderOutput14` ("encoder output" as a
predicate on bytes, stated with the independent framing reader `FitFormat`), `IntegritySpec.reference`.
All statements are for files of ANY length.
-/
namespace Fit.C04
open Fit.Crc Fit.Integrity Fit.Gen.Integ

/-- OBLIGATIONS ON THE REGENERATED CONSTANTS the model and the proofs rely on: chunks of `discardMessages` are
non-empty, the tag is ".FIT", the masks are the protocol's, and the three fields of `field_description` the
decoder reads back are plain one-byte fields. A change of one of these in /repo breaks this theorem. -/
theorem C04_consts : 0 < reservedbuf ∧ dataTypeFIT = FitFormat.tag ∧ mesgDefinitionMask = 0x40 ∧
    mesgCompressedHeaderMask = 0x80 ∧ localMesgNumMask = 0xF ∧ compressedLocalMesgNumMask = 0x60 ∧
    compressedBitShift = 5 ∧ devDataMask = 0x20 ∧ fdFieldsPlain = true ∧
    (∀ b, validBaseType b = FitFormat.baseTypes.contains b) := by
  refine ⟨by decide, by decide, by decide, by decide, by decide, by decide, by decide, by decide, by decide, ?_⟩
  intro b
  by_cases h : b < 256
  · have : ∀ b, b < 256 → validBaseType b = FitFormat.baseTypes.contains b := by decide +kernel
    exact this b h
  · have h1 : validBaseType b = false := by
      simp only [validBaseType, validBaseTypes, List.contains_eq_mem, List.mem_cons, List.not_mem_nil, or_false,
        decide_eq_false_iff_not]
      omega
    have h2 : FitFormat.baseTypes.contains b = false := by
      simp only [FitFormat.baseTypes, List.contains_eq_mem, List.mem_cons, List.not_mem_nil, or_false,
        decide_eq_false_iff_not]
      omega
    rw [h1, h2]

/-- the file with everything after its 14-byte header — the message bytes and the trailing CRC — xor-ed with
the error pattern `e` -/
def corrupt (f e : List Nat) : List Nat := f.take 14 ++ xorL (f.drop 14) e

/-- neither the integrity check nor decoding (first `Decode()`, and hence the decode loop) returns success -/
def Rejected (bs : List Nat) : Prop :=
  (∀ n, checkIntegrity bs ≠ .ok n) ∧ (∀ r, decodeOne true bs ≠ .ok r) ∧ (∀ n m, decodeAll true bs ≠ .ok n m)

theorem rejected_of_header_error {bs : List Nat} {e : Err} (h : decodeFileHeader true bs = .error e) (hne : bs ≠ []) :
    Rejected bs := by
  refine ⟨?_, ?_, ?_⟩
  · intro n; unfold checkIntegrity checkLoop; simp only [h]
    cases bs with
    | nil => exact absurd rfl hne
    | cons a t => simp
  · intro r; unfold decodeOne; simp [h]
  · intro n m; unfold decodeAll decodeLoop; simp [h]

/-- the decode loop cannot succeed when the first `Decode()` fails -/
theorem decodeAll_of_decodeOne {bs : List Nat} (h : ∀ r, decodeOne true bs ≠ .ok r) : ∀ n m, decodeAll true bs ≠ .ok n m := by
  intro n m
  unfold decodeAll decodeLoop
  unfold decodeOne at h
  split
  · simp
  · rename_i hd rest hh
    simp only [hh] at h
    split
    · simp
    · rename_i m' rest' hb
      exact absurd hb (h (m', rest'))

/-- **Bursts.** In an encoder output (any length), any non-zero error pattern confined to 16 consecutive bits
(checksum bit order) anywhere in the message bytes or the trailing CRC makes `CheckIntegrity` fail, the first
`Decode()` fail and the decode loop fail. -/
theorem C04_burst (f e : List Nat) (hf : IsEncoderOutput14 f) (he : Bytes e) (hl : e.length = f.length - 14)
    (hb : BurstWithin16 e) : Rejected (corrupt f e) := by
  obtain ⟨pv, p0, p1, d0, d1, d2, d3, k0, k1, rest, hfe, hH, hk, hrl, hrb, hz⟩ := intact_tail (encoderOutput_intact hf)
  have hle : e.length = rest.length := by rw [hl, hfe]; simp
  have hc : corrupt f e =
      14 :: pv :: p0 :: p1 :: d0 :: d1 :: d2 :: d3 :: 0x2E :: 0x46 :: 0x49 :: 0x54 :: k0 :: k1 :: xorL rest e := by
    rw [corrupt, hfe]; rfl
  rw [hc]
  by_cases hD : d0 + 256 * d1 + 65536 * d2 + 16777216 * d3 = 0
  · -- data size 0: not a FIT file for this decoder, corrupted or not
    apply rejected_of_header_error (e := .notFit) _ (by simp)
    unfold decodeFileHeader
    simp [hasN, le32, dataTypeFIT_eq, hD]
  · have hh := header14_decode true pv p0 p1 d0 d1 d2 d3 k0 k1 (xorL rest e) hH hk hD
    have hxl : (xorL rest e).length = d0 + 256 * d1 + 65536 * d2 + 16777216 * d3 + 2 := by
      rw [xorL_length _ _ hle.symm, hrl]
    have hmis := tail_mismatch rest e _ hrb he hrl hle hz hb
    have hone : ∀ r, decodeOne true (14 :: pv :: p0 :: p1 :: d0 :: d1 :: d2 :: d3 :: 0x2E :: 0x46 :: 0x49 :: 0x54 :: k0 :: k1 :: xorL rest e) ≠ .ok r := by
      intro r hr
      unfold decodeOne at hr
      simp only [hh] at hr
      obtain ⟨m, rest'⟩ := r
      obtain ⟨c, lo, hi, hsplit, hcl, hcrc⟩ := decodeBody_ok hr
      simp only at hcl
      have hlen := congrArg List.length hsplit
      simp only [hxl, List.length_append, List.length_cons] at hlen
      have hcl' : c.length = d0 + 256 * d1 + 65536 * d2 + 16777216 * d3 := by omega
      have hr' : rest' = [] := List.eq_nil_of_length_eq_zero (by omega)
      subst hr'
      apply hmis
      have ht : (xorL rest e).take (d0 + 256 * d1 + 65536 * d2 + 16777216 * d3) = c := by
        rw [hsplit, ← hcl', List.take_left' rfl]
      have hd : (xorL rest e).drop (d0 + 256 * d1 + 65536 * d2 + 16777216 * d3) = [lo, hi] := by
        rw [hsplit, ← hcl', List.drop_left' rfl]
      rw [ht, hd, hcrc rfl]; rfl
    refine ⟨?_, hone, decodeAll_of_decodeOne hone⟩
    intro n
    unfold checkIntegrity
    rw [checkLoop_step _ _ _ _ _ hh]
    simp only [hxl, Nat.lt_irrefl, if_false, hmis, ne_eq, not_false_eq_true, if_true]
    simp

/-- a single flipped bit, bit `i` of byte `j` of the part after the header, as an error pattern -/
def bitError (len j i : Nat) : List Nat := List.replicate j 0 ++ [2 ^ i] ++ List.replicate (len - j - 1) 0

/-- **Single-bit flips** are bursts of length 1: flipping any single bit of the message bytes or the trailing CRC
of an encoder output is rejected. -/
theorem C04_bitflip (f : List Nat) (hf : IsEncoderOutput14 f) (j i : Nat) (hj : j < f.length - 14) (hi : i < 8) :
    Rejected (corrupt f (bitError (f.length - 14) j i)) := by
  have h2 : 2 ^ i < 256 := by
    have : 2 ^ i ≤ 2 ^ 7 := Nat.pow_le_pow_right (by decide) (by omega)
    omega
  apply C04_burst f _ hf
  · exact ((Bytes.replicate_zero j).append (Bytes.cons h2 Bytes.nil)).append (Bytes.replicate_zero _)
  · simp [bitError]; omega
  · refine ⟨8 * j + i, 1, ?_, by decide, by decide⟩
    simp only [bitError, leVal_append, leVal_replicate_zero, List.length_replicate, leVal, List.length_append,
      List.length_cons, List.length_nil, Nat.mul_zero, Nat.add_zero, Nat.zero_add]
    rw [Nat.pow_add, Nat.one_mul, Nat.mul_comm]

/-- **Truncation.** An encoder output cut at any length `k < f.length` (the empty file included) is rejected by
the integrity check, by `Decode()` and by the decode loop. -/
theorem C04_truncation (f : List Nat) (hf : IsEncoderOutput14 f) (k : Nat) (hk : k < f.length) :
    Rejected (f.take k) := by
  obtain ⟨pv, p0, p1, d0, d1, d2, d3, k0, k1, rest, hfe, hH, hkc, hrl, hrb, hz⟩ := intact_tail (encoderOutput_intact hf)
  by_cases hk14 : k < 14
  · -- cut inside the header
    by_cases hk0 : k = 0
    · subst hk0
      refine ⟨?_, ?_, ?_⟩
      · intro n; simp [checkIntegrity, checkLoop, decodeFileHeader]
      · intro r; simp [decodeOne, decodeFileHeader]
      · intro n m; simp [decodeAll, decodeLoop, decodeFileHeader]
    · apply rejected_of_header_error (e := .eof)
      · rw [hfe]
        obtain ⟨k', rfl⟩ : ∃ k', k = k' + 1 := ⟨k - 1, by omega⟩
        rw [List.take_succ_cons]
        unfold decodeFileHeader
        have : (!hasN (List.take k' (pv :: p0 :: p1 :: d0 :: d1 :: d2 :: d3 :: 0x2E :: 0x46 :: 0x49 :: 0x54 :: k0 :: k1 :: rest)) (14 - 1)) = true := by
          rw [not_hasN, List.length_take]; omega
        simp [this]
      · intro h
        have := congrArg List.length h
        rw [List.length_take, List.length_nil] at this; omega
  · -- cut after the header: the header is intact
    have hft : f.take k =
        14 :: pv :: p0 :: p1 :: d0 :: d1 :: d2 :: d3 :: 0x2E :: 0x46 :: 0x49 :: 0x54 :: k0 :: k1 :: rest.take (k - 14) := by
      obtain ⟨k', rfl⟩ : ∃ k', k = k' + 14 := ⟨k - 14, by omega⟩
      rw [hfe]; simp [List.take_succ_cons]
    have hshort : (rest.take (k - 14)).length < d0 + 256 * d1 + 65536 * d2 + 16777216 * d3 + 2 := by
      rw [hfe] at hk; simp at hk ⊢; omega
    rw [hft]
    by_cases hD : d0 + 256 * d1 + 65536 * d2 + 16777216 * d3 = 0
    · apply rejected_of_header_error (e := .notFit) _ (by simp)
      unfold decodeFileHeader
      simp [hasN, le32, dataTypeFIT_eq, hD]
    · have hh := header14_decode true pv p0 p1 d0 d1 d2 d3 k0 k1 (rest.take (k - 14)) hH hkc hD
      have hone : ∀ r, decodeOne true (14 :: pv :: p0 :: p1 :: d0 :: d1 :: d2 :: d3 :: 0x2E :: 0x46 :: 0x49 :: 0x54 :: k0 :: k1 :: rest.take (k - 14)) ≠ .ok r := by
        intro r hr
        unfold decodeOne at hr
        simp only [hh] at hr
        obtain ⟨m, rest'⟩ := r
        obtain ⟨c, lo, hi, hsplit, hcl, _⟩ := decodeBody_ok hr
        simp only at hcl
        have hlen := congrArg List.length hsplit
        simp only [List.length_append, List.length_cons] at hlen
        omega
      refine ⟨?_, hone, decodeAll_of_decodeOne hone⟩
      intro n
      unfold checkIntegrity
      rw [checkLoop_step _ _ _ _ _ hh]
      simp only [hshort, if_true]
      simp

end Fit.C04
