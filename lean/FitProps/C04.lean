import FitProps.IntegrityLemmas
import FitProps.IntegrityAsBuiltLemmas
import FitProps.IntegrityHeaderLemmas
/-!
# C04 — Corrupted or truncated files are rejected, never silently accepted

PROPERTY THEOREMS (audited by ./check; the encoder-side ones are in FitProps/C04Encoder.lean):
* corruption of the records / trailing CRC, truncation: C04_consts, C04_burst, C04_bitflip, C04_truncation, C04_intact_accepted;
* appended data: C04_append, C04_suffix_check, C04_suffix_complete; with "not complete valid sequences" read by the REFERENCE:
  C04_suffix_as_built (every suffix, rules as built), C04_suffix_partial / C04_suffix_complete_partial (integrity rules, outside
  the exact class of KF-C04-1), C04_suffix_witness (the full statement `C04_suffix_full` fails inside the class);
* reference: C04_check_eq_reference_as_built (EVERY byte string: the check IS the integrity rules with the code's checksum
  rule), C04_reference_partial + C04_reference_exact (the check equals the reference of the integrity rules exactly where the
  two references agree: the class of KF-C04-1 is `reference bs ≠ referenceAsBuilt bs`), C04_reference_no_legacy (the former
  sufficient condition), C04_reference_witness (`C04_reference_full` fails on Settings.fit);
* the 14 header bytes: C04_header_checked, C04_header_burst, C04_header_size12, C04_header_crc_zeroed_accepted (the one header
  corruption that is NOT detected; inside KF-C04-1).

Objects: `Integrity.checkIntegrity` (model of `Decoder.CheckIntegrity`), `Integrity.decodeOne` / `decodeAll`
(model of the first `Decode()` / of the decode loop, checksums on), `IsEncoderOutput14` ("encoder output" as a
predicate on bytes, stated with the independent framing reader `FitFormat`; `C04_encoder_output` proves it of the encoder
model), `IntegritySpec.reference` (the integrity rules), `IntegritySpec.referenceAsBuilt` (the rules with the code's
checksum rule). All statements are for files of ANY length.
-/
namespace Fit.C04
open Fit.Crc Fit.Integrity Fit.Gen.Integ

/-- OBLIGATIONS ON THE REGENERATED CONSTANTS the model and the proofs rely on: chunks of `discardMessages` are
non-empty, the tag is ".FIT", the masks are the protocol's, and the three fields of `field_description` the
decoder reads back are plain one-byte fields. A change of one of these in /repo breaks this theorem. -/
theorem C04_consts : 0 < reservedbuf ∧ dataTypeFIT = FitFormat.tag ∧ mesgDefinitionMask = 0x40 ∧
    mesgCompressedHeaderMask = 0x80 ∧ localMesgNumMask = 0xF ∧ compressedLocalMesgNumMask = 0x60 ∧
    compressedBitShift = 5 ∧ devDataMask = 0x20 ∧ fdFieldsPlain = true ∧
    (∀ b, validBaseType b = FitFormat.baseTypes.contains b) := by
  refine ⟨by decide, by decide, by decide, by decide, by decide, by decide, by decide, by decide, by decide, ?_⟩
  intro b
  by_cases h : b < 256
  · have : ∀ b, b < 256 → validBaseType b = FitFormat.baseTypes.contains b := by decide +kernel
    exact this b h
  · have h1 : validBaseType b = false := by
      simp only [validBaseType, validBaseTypes, List.contains_eq_mem, List.mem_cons, List.not_mem_nil, or_false,
        decide_eq_false_iff_not]
      omega
    have h2 : FitFormat.baseTypes.contains b = false := by
      simp only [FitFormat.baseTypes, List.contains_eq_mem, List.mem_cons, List.not_mem_nil, or_false,
        decide_eq_false_iff_not]
      omega
    rw [h1, h2]

/-- the file with everything after its 14-byte header — the message bytes and the trailing CRC — xor-ed with
the error pattern `e` -/
def corrupt (f e : List Nat) : List Nat := f.take 14 ++ xorL (f.drop 14) e

/-- neither the integrity check nor decoding (first `Decode()`, and hence the decode loop) returns success -/
def Rejected (bs : List Nat) : Prop :=
  (∀ n, checkIntegrity bs ≠ .ok n) ∧ (∀ r, decodeOne true bs ≠ .ok r) ∧ (∀ n m, decodeAll true bs ≠ .ok n m)

theorem rejected_of_header_error {bs : List Nat} {e : Err} (h : decodeFileHeader true bs = .error e) (hne : bs ≠ []) :
    Rejected bs := by
  refine ⟨?_, ?_, ?_⟩
  · intro n; unfold checkIntegrity checkLoop; simp only [h]
    cases bs with
    | nil => exact absurd rfl hne
    | cons a t => simp
  · intro r; unfold decodeOne; simp [h]
  · intro n m; unfold decodeAll decodeLoop; simp [h]

/-- the decode loop cannot succeed when the first `Decode()` fails -/
theorem decodeAll_of_decodeOne {bs : List Nat} (h : ∀ r, decodeOne true bs ≠ .ok r) : ∀ n m, decodeAll true bs ≠ .ok n m := by
  intro n m
  unfold decodeAll decodeLoop
  unfold decodeOne at h
  split
  · simp
  · rename_i hd rest hh
    simp only [hh] at h
    split
    · simp
    · rename_i m' rest' hb
      exact absurd hb (h (m', rest'))

/-- **Bursts.** In an encoder output (any length), any non-zero error pattern confined to 16 consecutive bits
(checksum bit order) anywhere in the message bytes or the trailing CRC makes `CheckIntegrity` fail, the first
`Decode()` fail and the decode loop fail. -/
theorem C04_burst (f e : List Nat) (hf : IsEncoderOutput14 f) (he : Bytes e) (hl : e.length = f.length - 14)
    (hb : BurstWithin16 e) : Rejected (corrupt f e) := by
  obtain ⟨pv, p0, p1, d0, d1, d2, d3, k0, k1, rest, hfe, hH, hk, hrl, hrb, hz⟩ := intact_tail (encoderOutput_intact hf)
  have hle : e.length = rest.length := by rw [hl, hfe]; simp
  have hc : corrupt f e =
      14 :: pv :: p0 :: p1 :: d0 :: d1 :: d2 :: d3 :: 0x2E :: 0x46 :: 0x49 :: 0x54 :: k0 :: k1 :: xorL rest e := by
    rw [corrupt, hfe]; rfl
  rw [hc]
  by_cases hD : d0 + 256 * d1 + 65536 * d2 + 16777216 * d3 = 0
  · -- data size 0: not a FIT file for this decoder, corrupted or not
    apply rejected_of_header_error (e := .notFit) _ (by simp)
    unfold decodeFileHeader
    simp [hasN, le32, dataTypeFIT_eq, hD]
  · have hh := header14_decode true pv p0 p1 d0 d1 d2 d3 k0 k1 (xorL rest e) hH hk hD
    have hxl : (xorL rest e).length = d0 + 256 * d1 + 65536 * d2 + 16777216 * d3 + 2 := by
      rw [xorL_length _ _ hle.symm, hrl]
    have hmis := tail_mismatch rest e _ hrb he hrl hle hz hb
    have hone : ∀ r, decodeOne true (14 :: pv :: p0 :: p1 :: d0 :: d1 :: d2 :: d3 :: 0x2E :: 0x46 :: 0x49 :: 0x54 :: k0 :: k1 :: xorL rest e) ≠ .ok r := by
      intro r hr
      unfold decodeOne at hr
      simp only [hh] at hr
      obtain ⟨m, rest'⟩ := r
      obtain ⟨c, lo, hi, hsplit, hcl, hcrc⟩ := decodeBody_ok hr
      simp only at hcl
      have hlen := congrArg List.length hsplit
      simp only [hxl, List.length_append, List.length_cons] at hlen
      have hcl' : c.length = d0 + 256 * d1 + 65536 * d2 + 16777216 * d3 := by omega
      have hr' : rest' = [] := List.eq_nil_of_length_eq_zero (by omega)
      subst hr'
      apply hmis
      have ht : (xorL rest e).take (d0 + 256 * d1 + 65536 * d2 + 16777216 * d3) = c := by
        rw [hsplit, ← hcl', List.take_left' rfl]
      have hd : (xorL rest e).drop (d0 + 256 * d1 + 65536 * d2 + 16777216 * d3) = [lo, hi] := by
        rw [hsplit, ← hcl', List.drop_left' rfl]
      rw [ht, hd, hcrc rfl]; rfl
    refine ⟨?_, hone, decodeAll_of_decodeOne hone⟩
    intro n
    unfold checkIntegrity
    rw [checkLoop_step _ _ _ _ _ hh]
    simp only [hxl, Nat.lt_irrefl, if_false, hmis, ne_eq, not_false_eq_true, if_true]
    simp

/-- a single flipped bit, bit `i` of byte `j` of the part after the header, as an error pattern -/
def bitError (len j i : Nat) : List Nat := List.replicate j 0 ++ [2 ^ i] ++ List.replicate (len - j - 1) 0

/-- **Single-bit flips** are bursts of length 1: flipping any single bit of the message bytes or the trailing CRC
of an encoder output is rejected. -/
theorem C04_bitflip (f : List Nat) (hf : IsEncoderOutput14 f) (j i : Nat) (hj : j < f.length - 14) (hi : i < 8) :
    Rejected (corrupt f (bitError (f.length - 14) j i)) := by
  have h2 : 2 ^ i < 256 := by
    have : 2 ^ i ≤ 2 ^ 7 := Nat.pow_le_pow_right (by decide) (by omega)
    omega
  apply C04_burst f _ hf
  · exact ((Bytes.replicate_zero j).append (Bytes.cons h2 Bytes.nil)).append (Bytes.replicate_zero _)
  · simp [bitError]; omega
  · refine ⟨8 * j + i, 1, ?_, by decide, by decide⟩
    simp only [bitError, leVal_append, leVal_replicate_zero, List.length_replicate, leVal, List.length_append,
      List.length_cons, List.length_nil, Nat.mul_zero, Nat.add_zero, Nat.zero_add]
    rw [Nat.pow_add, Nat.one_mul, Nat.mul_comm]

/-- **Truncation.** An encoder output cut at any length `k < f.length` (the empty file included) is rejected by
the integrity check, by `Decode()` and by the decode loop. -/
theorem C04_truncation (f : List Nat) (hf : IsEncoderOutput14 f) (k : Nat) (hk : k < f.length) :
    Rejected (f.take k) := by
  obtain ⟨pv, p0, p1, d0, d1, d2, d3, k0, k1, rest, hfe, hH, hkc, hrl, hrb, hz⟩ := intact_tail (encoderOutput_intact hf)
  by_cases hk14 : k < 14
  · -- cut inside the header
    by_cases hk0 : k = 0
    · subst hk0
      refine ⟨?_, ?_, ?_⟩
      · intro n; simp [checkIntegrity, checkLoop, decodeFileHeader]
      · intro r; simp [decodeOne, decodeFileHeader]
      · intro n m; simp [decodeAll, decodeLoop, decodeFileHeader]
    · apply rejected_of_header_error (e := .eof)
      · rw [hfe]
        obtain ⟨k', rfl⟩ : ∃ k', k = k' + 1 := ⟨k - 1, by omega⟩
        rw [List.take_succ_cons]
        unfold decodeFileHeader
        have : (!hasN (List.take k' (pv :: p0 :: p1 :: d0 :: d1 :: d2 :: d3 :: 0x2E :: 0x46 :: 0x49 :: 0x54 :: k0 :: k1 :: rest)) (14 - 1)) = true := by
          rw [not_hasN, List.length_take]; omega
        simp [this]
      · intro h
        have := congrArg List.length h
        rw [List.length_take, List.length_nil] at this; omega
  · -- cut after the header: the header is intact
    have hft : f.take k =
        14 :: pv :: p0 :: p1 :: d0 :: d1 :: d2 :: d3 :: 0x2E :: 0x46 :: 0x49 :: 0x54 :: k0 :: k1 :: rest.take (k - 14) := by
      obtain ⟨k', rfl⟩ : ∃ k', k = k' + 14 := ⟨k - 14, by omega⟩
      rw [hfe]; simp [List.take_succ_cons]
    have hshort : (rest.take (k - 14)).length < d0 + 256 * d1 + 65536 * d2 + 16777216 * d3 + 2 := by
      rw [hfe] at hk; simp at hk ⊢; omega
    rw [hft]
    by_cases hD : d0 + 256 * d1 + 65536 * d2 + 16777216 * d3 = 0
    · apply rejected_of_header_error (e := .notFit) _ (by simp)
      unfold decodeFileHeader
      simp [hasN, le32, dataTypeFIT_eq, hD]
    · have hh := header14_decode true pv p0 p1 d0 d1 d2 d3 k0 k1 (rest.take (k - 14)) hH hkc hD
      have hone : ∀ r, decodeOne true (14 :: pv :: p0 :: p1 :: d0 :: d1 :: d2 :: d3 :: 0x2E :: 0x46 :: 0x49 :: 0x54 :: k0 :: k1 :: rest.take (k - 14)) ≠ .ok r := by
        intro r hr
        unfold decodeOne at hr
        simp only [hh] at hr
        obtain ⟨m, rest'⟩ := r
        obtain ⟨c, lo, hi, hsplit, hcl, _⟩ := decodeBody_ok hr
        simp only at hcl
        have hlen := congrArg List.length hsplit
        simp only [List.length_append, List.length_cons] at hlen
        omega
      refine ⟨?_, hone, decodeAll_of_decodeOne hone⟩
      intro n
      unfold checkIntegrity
      rw [checkLoop_step _ _ _ _ _ hh]
      simp only [hshort, if_true]
      simp

/-- **Intact files are accepted** (the rejections above are not vacuous): an encoder output with at least one
record byte passes the integrity check as one sequence. -/
theorem C04_intact_accepted (f : List Nat) (hf : IsEncoderOutput14 f) (hD : 16 < f.length) :
    checkIntegrity f = .ok 1 := by
  obtain ⟨pv, p0, p1, d0, d1, d2, d3, k0, k1, rest, hfe, hH, hkc, hrl, hrb, hz⟩ := intact_tail (encoderOutput_intact hf)
  have hD' : d0 + 256 * d1 + 65536 * d2 + 16777216 * d3 ≠ 0 := by
    rw [hfe] at hD; simp at hD; omega
  have hh := header14_decode true pv p0 p1 d0 d1 d2 d3 k0 k1 rest hH hkc hD'
  unfold checkIntegrity
  rw [hfe, checkLoop_step _ _ _ _ _ hh]
  simp only
  have hres := (residue_iff rest _ hrb hrl).mpr hz
  rw [if_neg (by omega), if_neg (by simp [hres])]
  have : rest.drop (d0 + 256 * d1 + 65536 * d2 + 16777216 * d3 + 2) = [] := by
    apply List.eq_nil_of_length_eq_zero; simp; omega
  rw [this]
  simp only [List.length_cons]
  exact checkLoop_nil _ _ (by decide)

/-- **Appended data, the equation.** If the check accepts `f` with `n` sequences, then on `f ++ s` (`s` non-empty)
its outcome is its outcome on `s` alone with `n` added to the count of valid leading sequences. -/
theorem C04_append (f s : List Nat) (n : Nat) (hf : checkIntegrity f = .ok n) (hs : s ≠ []) :
    checkIntegrity (f ++ s) = bump n (checkIntegrity s) := by
  unfold checkIntegrity at hf ⊢
  rw [checkLoop_append _ _ _ _ _ hf (by omega) _ (by omega)]
  have := checkLoop_bump ((f ++ s).length + 1) 0 n s (Or.inl hs)
  rw [Nat.zero_add] at this
  rw [this, checkLoop_fuel ((f ++ s).length + 1) (s.length + 1) 0 s (by simp; omega) (by omega)]

/-- **Suffix, in terms of the check itself** (lemma for the theorems below): if the check does not accept `s`
alone, it does not accept `f ++ s`. -/
theorem C04_suffix_check (f s : List Nat) (n : Nat) (hf : checkIntegrity f = .ok n) (hs : s ≠ [])
    (hbad : ∀ m, checkIntegrity s ≠ .ok m) : ∀ m, checkIntegrity (f ++ s) ≠ .ok m := by
  intro m
  rw [C04_append f s n hf hs]
  cases h : checkIntegrity s with
  | ok k => exact absurd h (hbad k)
  | err e k => simp [bump]

/-- … and appending what the check accepts is accepted, the counts add up (chained FIT files). -/
theorem C04_suffix_complete (f s : List Nat) (n m : Nat) (hf : checkIntegrity f = .ok n)
    (hs : checkIntegrity s = .ok m) : checkIntegrity (f ++ s) = .ok (m + n) := by
  have hne : s ≠ [] := by
    intro h; subst h; simp [checkIntegrity, checkLoop, decodeFileHeader] at hs
  rw [C04_append f s n hf hne, hs]; rfl

/-! ### the reference: the code's rules are the integrity rules except for the checksum coverage -/

theorem verdict_ok {r : Result} {m : Nat} (h : verdict r = .ok m) : r = .ok m := by
  cases r with
  | ok k => simp only [verdict, IntegritySpec.Verdict.ok.injEq] at h; rw [h]
  | err e k => simp [verdict] at h

/-- **The check IS the reference as built — every byte string.** Verdict and count of valid leading sequences of
`CheckIntegrity` are those of `IntegritySpec.referenceAsBuilt`: the declarative integrity rules (header size 12/14 and
".FIT", non-zero data size, header CRC when present and non-zero, nothing but valid sequences up to the end) with the
ONE rule the code implements differently — the file CRC is taken over the records only (the checksum restarts after
the header) instead of over the whole sequence from its first byte. No hypothesis about the headers met. -/
theorem C04_check_eq_reference_as_built (bs : List Nat) (hb : Bytes bs) :
    verdict (checkIntegrity bs) = IntegritySpec.referenceAsBuilt bs :=
  check_asbuilt_lockstep _ 0 bs hb (by omega)

/-- the full statement of the last clause of the property: on ANY byte string the integrity check's verdict and
count of valid leading sequences equal the reference's. FALSE on the pinned tree (see `C04_reference_witness`). -/
def C04_reference_full : Prop := ∀ bs, Bytes bs → verdict (checkIntegrity bs) = IntegritySpec.reference bs

/-- **Reference, partial — outside the EXACT class of finding KF-C04-1.** For every byte string on which the
integrity rules and the rules as built give the same verdict and count (`reference bs = referenceAsBuilt bs`),
verdict and count of `CheckIntegrity` equal the reference's. (The two can differ only where a sequence with a
12-byte header, or a 14-byte header whose CRC field is 0, has different checksums over records and over the whole
sequence: `C04_reference_no_legacy`.) -/
theorem C04_reference_partial (bs : List Nat) (hb : Bytes bs)
    (hcls : IntegritySpec.reference bs = IntegritySpec.referenceAsBuilt bs) :
    verdict (checkIntegrity bs) = IntegritySpec.reference bs := by
  rw [hcls]; exact C04_check_eq_reference_as_built bs hb

/-- … and the class is exact: the check disagrees with the reference on `bs` precisely when the two references do -/
theorem C04_reference_exact (bs : List Nat) (hb : Bytes bs) :
    verdict (checkIntegrity bs) = IntegritySpec.reference bs ↔
      IntegritySpec.reference bs = IntegritySpec.referenceAsBuilt bs := by
  rw [C04_check_eq_reference_as_built bs hb]; exact eq_comm

/-- the former statement of `C04_reference_partial` (a sufficient condition for being outside the class): no 12-byte
header and no zero header-CRC field met by the reference walk -/
theorem C04_reference_no_legacy (bs : List Nat) (hb : Bytes bs) (hleg : IntegritySpec.legacyMet bs = false) :
    IntegritySpec.reference bs = IntegritySpec.referenceAsBuilt bs ∧
    verdict (checkIntegrity bs) = IntegritySpec.reference bs :=
  ⟨reference_eq_asBuilt_of_no_legacy bs hb hleg, check_ref_lockstep _ 0 bs hb (by omega) hleg⟩

/-! ### appended data, "not complete valid sequences" read by the reference -/

/-- the full statement of the suffix clause: appending bytes that are not complete valid sequences BY THE INTEGRITY
RULES to an accepted stream makes the check fail. FALSE on the pinned tree (`C04_suffix_witness`, inside KF-C04-1). -/
def C04_suffix_full : Prop :=
  ∀ (f s : List Nat) (n : Nat), Bytes s → checkIntegrity f = .ok n → s ≠ [] →
    (∀ m, IntegritySpec.reference s ≠ .ok m) → ∀ m, checkIntegrity (f ++ s) ≠ .ok m

/-- **Suffix, by the rules as built — every suffix.** Appending bytes that are not complete valid sequences under
the rules as built to an accepted stream makes the integrity check fail. -/
theorem C04_suffix_as_built (f s : List Nat) (n : Nat) (hb : Bytes s) (hf : checkIntegrity f = .ok n) (hs : s ≠ [])
    (hbad : ∀ m, IntegritySpec.referenceAsBuilt s ≠ .ok m) : ∀ m, checkIntegrity (f ++ s) ≠ .ok m := by
  apply C04_suffix_check f s n hf hs
  intro m hm
  apply hbad m
  rw [← C04_check_eq_reference_as_built s hb, hm]; rfl

/-- **Suffix, partial.** Appending bytes that are not complete valid sequences by the integrity rules
(`IntegritySpec.reference`, not the check itself) to an accepted stream makes the integrity check fail — for every
suffix outside the exact class of KF-C04-1. -/
theorem C04_suffix_partial (f s : List Nat) (n : Nat) (hb : Bytes s) (hf : checkIntegrity f = .ok n) (hs : s ≠ [])
    (hcls : IntegritySpec.reference s = IntegritySpec.referenceAsBuilt s)
    (hbad : ∀ m, IntegritySpec.reference s ≠ .ok m) : ∀ m, checkIntegrity (f ++ s) ≠ .ok m :=
  C04_suffix_as_built f s n hb hf hs (by rw [← hcls]; exact hbad)

/-- … and appending complete valid sequences by the integrity rules is accepted, the counts add up -/
theorem C04_suffix_complete_partial (f s : List Nat) (n m : Nat) (hb : Bytes s) (hf : checkIntegrity f = .ok n)
    (hcls : IntegritySpec.reference s = IntegritySpec.referenceAsBuilt s)
    (hs : IntegritySpec.reference s = .ok m) : checkIntegrity (f ++ s) = .ok (m + n) := by
  apply C04_suffix_complete f s n m hf
  apply verdict_ok
  rw [C04_check_eq_reference_as_built s hb, ← hcls, hs]

/-- the official SDK sample testdata/from_official_sdk/Settings.fit (12-byte header, CRC over header and records) -/
def settingsFit : List Nat :=
  [0x0c,0x10,0x47,0x00,0x44,0x00,0x00,0x00,0x2e,0x46,0x49,0x54,0x40,0x00,0x01,0x00,0x00,0x04,0x01,0x02,0x84,0x02,
   0x02,0x84,0x03,0x04,0x8c,0x00,0x01,0x00,0x00,0x00,0x01,0x03,0xdc,0x00,0x01,0xe2,0x40,0x02,0x40,0x00,0x01,0x00,
   0x03,0x05,0x04,0x02,0x84,0x01,0x01,0x00,0x02,0x01,0x02,0x03,0x01,0x02,0x05,0x01,0x00,0x00,0x03,0x84,0x01,0x1c,
   0xbe,0x00,0x40,0x00,0x01,0x00,0x04,0x01,0x01,0x02,0x8b,0x00,0x00,0x64,0x39,0x50]

/-- **Witness of KF-C04-1 (F06):** the reference accepts Settings.fit as one valid sequence; the model of
`CheckIntegrity` — as the code — rejects it with a CRC mismatch, and so does `Decode`. Hence the full statement fails. -/
theorem C04_reference_witness :
    IntegritySpec.reference settingsFit = .ok 1 ∧ checkIntegrity settingsFit = .err .crc 0 ∧
    decodeAll true settingsFit = .err .crc 0 ∧ IntegritySpec.referenceAsBuilt settingsFit = .bad 0 ∧
    IntegritySpec.kfC04 settingsFit = true ∧ ¬ C04_reference_full := by
  have h1 : IntegritySpec.reference settingsFit = .ok 1 := by decide +kernel
  have h2 : checkIntegrity settingsFit = .err .crc 0 := by decide +kernel
  refine ⟨h1, h2, by decide +kernel, by decide +kernel, by decide +kernel, ?_⟩
  intro hfull
  have := hfull settingsFit (by decide +kernel)
  rw [h1, h2] at this
  cases this

/-! ### the 14 header bytes

The theorems above are about everything AFTER the header. For the header itself: the decoder refuses a header whose size
byte is not 12/14, whose tag is not ".FIT", whose data size is 0, or whose CRC field is non-zero and is not the CRC-16 of
the twelve bytes before it (`C04_header_checked`); a burst within 16 bits anywhere in the 14 header bytes of an encoder
output always leaves a CRC field that is NOT the CRC of the corrupted twelve bytes (`C04_header_burst`), so it is
rejected — by `CheckIntegrity`, `Decode` and the decode loop — unless (a) the corrupted size byte reads 12: then
`CheckIntegrity` still rejects (`C04_header_size12`; for `Decode` there is no theorem: the first sequence is then judged
by a records-only checksum over shifted bytes), or (b) the corrupted CRC field reads 0x0000: the code does not check
the header then. Case (b) with the twelve bytes intact — the burst is exactly the stored header CRC — is ACCEPTED
(`C04_header_crc_zeroed_accepted`); the integrity rules reject it (file CRC over the whole sequence): it lies inside the
class of finding KF-C04-1. -/

/-- the file with its 14 header bytes xor-ed with the error pattern `e` (14 bytes) -/
def corruptHeader (f e : List Nat) : List Nat := xorL (f.take 14) e ++ f.drop 14

/-- **Header check.** Any 14 bytes `H'` in the place of a file header, followed by anything: if the size byte does not
read 12 and the CRC field (bytes 12, 13) is neither zero nor the CRC-16 of bytes 0..11, then `CheckIntegrity`,
`Decode` and the decode loop fail (not a FIT file: size byte, tag, zero data size; or header CRC mismatch). -/
theorem C04_header_checked (H' x : List Nat) (hb : Bytes H') (hl : H'.length = 14) (h12 : H'.head? ≠ some 12)
    (hk0 : le16 (H'.drop 12) ≠ 0) (hk : le16 (H'.drop 12) ≠ crcSpec 0 (H'.take 12)) : Rejected (H' ++ x) := by
  obtain ⟨e, he⟩ := header_replaced_error H' x hb hl h12 hk0 hk
  refine rejected_of_header_error he ?_
  intro h
  have := congrArg List.length h
  simp [hl] at this

/-- **Bursts in the header.** In an encoder output, a non-zero error pattern confined to 16 consecutive bits anywhere
in the 14 header bytes leaves a header whose CRC field is not the CRC-16 of its first twelve bytes; hence the file is
rejected by `CheckIntegrity`, `Decode` and the decode loop unless the corrupted size byte reads 12 or the corrupted CRC
field reads 0x0000 (the two cases of the section comment). -/
theorem C04_header_burst (f e : List Nat) (hf : IsEncoderOutput14 f) (he : Bytes e) (hl : e.length = 14)
    (hb : BurstWithin16 e) :
    le16 ((xorL (f.take 14) e).drop 12) ≠ crcSpec 0 ((xorL (f.take 14) e).take 12) ∧
    ((xorL (f.take 14) e).head? ≠ some 12 → le16 ((xorL (f.take 14) e).drop 12) ≠ 0 → Rejected (corruptHeader f e)) := by
  have hI := encoderOutput_intact hf
  have hcrc := header_burst_crc hI e he hl hb
  refine ⟨hcrc, fun h12 hk0 => ?_⟩
  have hfb : Bytes f := hf.1
  have hl14 : (f.take 14).length = e.length := by
    obtain ⟨pv, p0, p1, d0, d1, d2, d3, k0, k1, rest, hfe, _⟩ := intact_tail hI
    rw [hl, hfe]; rfl
  exact C04_header_checked _ _ (xorL_bytes _ _ (hfb.take 14) he) (by rw [xorL_length _ _ hl14, hl14, hl]) h12 hk0 hcrc

/-- **Size byte reads 12** (e.g. the single-bit flip 14 → 12), the three bytes after it anything: `CheckIntegrity`
rejects the file — the former header CRC is taken for record bytes and two bytes are left over at the end. -/
theorem C04_header_size12 (f : List Nat) (hf : IsEncoderOutput14 f) (a b c : Nat) :
    ∀ n, checkIntegrity (12 :: a :: b :: c :: f.drop 4) ≠ .ok n :=
  size12_check_rejected (encoderOutput_intact hf) a b c

/-- **The header corruption that is NOT detected** (inside finding KF-C04-1): in an encoder output with at least one
record byte whose header CRC is not 0x0000, overwrite the CRC field with 0x0000 (a burst of 16 bits) and nothing else.
`CheckIntegrity` accepts the file as one sequence (the code treats 0 as "not computed" — so does the protocol — and
then judges the records alone); by the integrity rules the file CRC must cover the whole sequence, which it no longer
does: the reference rejects, the reference as built accepts, the stream is in the class of KF-C04-1. -/
theorem C04_header_crc_zeroed_accepted (f : List Nat) (hf : IsEncoderOutput14 f) (hD : 16 < f.length)
    (hkz : le16 ((f.take 14).drop 12) ≠ 0) :
    checkIntegrity (f.take 12 ++ [0, 0] ++ f.drop 14) = .ok 1 ∧
    IntegritySpec.reference (f.take 12 ++ [0, 0] ++ f.drop 14) = .bad 0 ∧
    IntegritySpec.referenceAsBuilt (f.take 12 ++ [0, 0] ++ f.drop 14) = .ok 1 ∧
    IntegritySpec.kfC04 (f.take 12 ++ [0, 0] ++ f.drop 14) = true := by
  obtain ⟨h1, h2⟩ := crc_zeroed (encoderOutput_intact hf) hD hkz
  have hfb : Bytes f := hf.1
  have hgb : Bytes (f.take 12 ++ [0, 0] ++ f.drop 14) :=
    ((hfb.take 12).append (Bytes.cons (by decide) (Bytes.cons (by decide) Bytes.nil))).append (hfb.drop 14)
  have h3 : IntegritySpec.referenceAsBuilt (f.take 12 ++ [0, 0] ++ f.drop 14) = .ok 1 := by
    rw [← C04_check_eq_reference_as_built _ hgb, h1]; rfl
  refine ⟨h1, h2, h3, ?_⟩
  simp only [IntegritySpec.kfC04, h2, h3, decide_eq_true_eq]
  intro h; cases h

/-! ### non-vacuity: a concrete encoder output meets the hypotheses -/

/-- a small intact file (file_id and one record, 14-byte header); the real decoder accepts it (corpus/integrity.txt) -/
def sampleFit : List Nat :=
  [0x0e,0x20,0x5c,0x08,0x1d,0x00,0x00,0x00,0x2e,0x46,0x49,0x54,0xf8,0xae,0x40,0x00,0x00,0x00,0x00,0x01,0x00,0x01,
   0x00,0x00,0x04,0x40,0x00,0x00,0x14,0x00,0x02,0xfd,0x04,0x86,0x03,0x01,0x02,0x00,0x00,0xca,0x9a,0x3b,0x46,0x5d,0x5c]

/-- the sample meets the hypothesis of the theorems, is accepted intact (model of `CheckIntegrity` and of the decode
loop), and a 16-bit burst pattern straddling three bytes of its records meets `BurstWithin16` -/
example : IsEncoderOutput14 sampleFit ∧ checkIntegrity sampleFit = .ok 1 ∧ decodeAll true sampleFit = .ok 1 2 := by
  decide +kernel
example : BurstWithin16 (List.replicate 5 0 ++ [0x80, 0xA5, 0x40] ++ List.replicate 23 0) ∧
    (List.replicate 5 0 ++ [0x80, 0xA5, 0x40] ++ List.replicate 23 0).length = sampleFit.length - 14 :=
  ⟨⟨47, 0x814B, by decide +kernel, by decide, by decide⟩, by decide⟩
/-- and the corrupted sample is rejected by evaluation too (as C04_burst says) -/
example : checkIntegrity (corrupt sampleFit (List.replicate 5 0 ++ [0x80, 0xA5, 0x40] ++ List.replicate 23 0)) = .err .crc 0 := by
  decide +kernel
/-- C04_reference_partial / C04_reference_no_legacy are not vacuous: the sample is outside the class (no legacy header,
the two references agree), and the reference accepts it; three streams that DO contain a 12-byte header or a zero
header-CRC field and are still outside the class (both references reject: truncated / wrong CRC either way) -/
example : IntegritySpec.legacyMet sampleFit = false ∧ IntegritySpec.kfC04 sampleFit = false ∧
    IntegritySpec.reference sampleFit = .ok 1 := by decide +kernel
example : IntegritySpec.legacyMet (settingsFit.take 40) = true ∧ IntegritySpec.kfC04 (settingsFit.take 40) = false ∧
    IntegritySpec.kfC04 ([0x0c] ++ sampleFit.drop 1) = false := by decide +kernel

/-- C04_header_burst on the sample: a single flipped bit of the data size (byte 4) is a burst; size byte and CRC field are
untouched (so neither exception applies) and the corrupted file is rejected, by evaluation too -/
example : BurstWithin16 ([0, 0, 0, 0, 1] ++ List.replicate 9 0) ∧
    (xorL (sampleFit.take 14) ([0, 0, 0, 0, 1] ++ List.replicate 9 0)).head? ≠ some 12 ∧
    le16 ((xorL (sampleFit.take 14) ([0, 0, 0, 0, 1] ++ List.replicate 9 0)).drop 12) ≠ 0 ∧
    checkIntegrity (corruptHeader sampleFit ([0, 0, 0, 0, 1] ++ List.replicate 9 0)) = .err .crc 0 :=
  ⟨⟨32, 1, by decide +kernel, by decide, by decide⟩, by decide +kernel, by decide +kernel, by decide +kernel⟩
/-- C04_header_crc_zeroed_accepted on the sample (header CRC 0xAEF8 ≠ 0), by evaluation -/
example : le16 ((sampleFit.take 14).drop 12) ≠ 0 ∧ checkIntegrity (sampleFit.take 12 ++ [0, 0] ++ sampleFit.drop 14) = .ok 1 ∧
    IntegritySpec.reference (sampleFit.take 12 ++ [0, 0] ++ sampleFit.drop 14) = .bad 0 := by decide +kernel

/-- the sample with a 12-byte header, sealed as this SDK seals it (file CRC over the records only) -/
def legacySample : List Nat := [0x0c,0x20,0x5c,0x08,0x1d,0x00,0x00,0x00,0x2e,0x46,0x49,0x54] ++ sampleFit.drop 14

/-- **Witness that the suffix clause fails at full strength (inside KF-C04-1):** `legacySample` is NOT a complete valid
sequence by the integrity rules (its CRC skips the header) but the check accepts it, alone and appended to an accepted
stream. -/
theorem C04_suffix_witness :
    IntegritySpec.reference legacySample = .bad 0 ∧ checkIntegrity legacySample = .ok 1 ∧
    checkIntegrity (sampleFit ++ legacySample) = .ok 2 ∧ IntegritySpec.kfC04 legacySample = true ∧ ¬ C04_suffix_full := by
  have h1 : IntegritySpec.reference legacySample = .bad 0 := by decide +kernel
  have h3 : checkIntegrity (sampleFit ++ legacySample) = .ok 2 := by decide +kernel
  refine ⟨h1, by decide +kernel, h3, by decide +kernel, ?_⟩
  intro hfull
  refine hfull sampleFit legacySample 1 (by decide +kernel) (by decide +kernel) (by decide) ?_ 2 h3
  intro m hm; rw [h1] at hm; cases hm

/-- C04_suffix_partial: trailing garbage after the sample is not a complete sequence by the reference, and is outside the class -/
example : (∀ m, IntegritySpec.reference [0x0e, 0x20] ≠ .ok m) ∧
    IntegritySpec.reference [0x0e, 0x20] = IntegritySpec.referenceAsBuilt [0x0e, 0x20] := by
  have : IntegritySpec.reference [0x0e, 0x20] = .bad 0 := by decide +kernel
  refine ⟨?_, by decide +kernel⟩
  intro m; rw [this]; simp

end Fit.C04
