import FitProps.CsvTextFinalLemmas
/-! The encoder's gate (`Validate`, as far as `gateSeq` models it) passes on the messages that come back: the theorems
are about `fromCsv` / `fromCsvText`, what `CSVToFITConv.Convert` does, not only about what it hands to the encoder. -/
set_option linter.unusedSimpArgs false
set_option linter.unusedVariables false
namespace Fit.Csv
open Fit.Value Fit.Msg Fit.Gen Fit.Gen.Csv

/-- a decoded value of base type `bt` is aligned with it (`Value.Align`) -/
theorem align_of_valueOK {bt : Nat} {isBool : Bool} {v : Value} (h : valueOK bt isBool v = true) : align v bt = true := by
  unfold valueOK at h
  cases v <;> simp only [elemsOf, List.isEmpty_cons, Bool.not_false, List.all_cons, List.all_nil, Bool.and_true, Bool.true_and,
    scalarOK, Bool.false_eq_true, Bool.and_eq_true, Bool.not_eq_true', decide_eq_true_eq, beq_iff_eq, Bool.or_eq_true] at h
  all_goals first
    | (simp only [align, btIsUint8, Bool.or_eq_true, beq_iff_eq] at h ⊢; tauto)
    | (rename_i vs
       cases vs with
       | nil => simp at h
       | cons x xs =>
         simp only [List.map_cons, List.isEmpty_cons, List.all_cons, scalarOK, Bool.and_eq_true, Bool.not_eq_true', decide_eq_true_eq,
           beq_iff_eq, Bool.or_eq_true, btIsUint8, true_and] at h
         simp only [align, Bool.or_eq_true, beq_iff_eq]
         tauto)

theorem find_unique {C : List Desc} {q : Desc → Bool} {d : Desc} (hd : d ∈ C) (hq : q d = true)
    (hu : ∀ x ∈ C, q x = true → x = d) : C.find? q = some d := by
  cases hf : C.find? q with
  | none =>
    have := List.find?_eq_none.mp hf d hd
    rw [hq] at this; exact absurd rfl this
  | some x =>
    rw [hu x (List.mem_of_find?_eq_some hf) (List.find?_some hf)]

theorem descsOf_snoc_not206 (pre : List Message) (m : Message) (h : m.num ≠ mnFieldDescription) : descsOf (pre ++ [m]) = descsOf pre := by
  rw [descsOf_append, descsOf_single]
  have : (m.num == mnFieldDescription) = false := by simpa using h
  simp [this]

/-- **the gate passes on the messages of a file as they come back** -/
theorem gate_walk (o : Opts) (file : List Message) (hf : FileScope file) :
    ∀ (post pre : List Message) (ids : List Nat), pre ++ post = file → idsWalkB o ids post = true →
      devsWalk (descsOf pre) post = true → gateSeq ids (descsOf pre) (post.filterMap (expectedMesg o)) = true
  | [], _, _, _, _, _ => rfl
  | m :: post, pre, ids, hsplit, hids, hwalk => by
    have hmem : m ∈ file := by rw [← hsplit]; simp
    have hms := hf.mesgs m hmem
    have hdf : descsOf file = descsOf pre ++ descsOf [m] ++ descsOf post := by
      rw [← hsplit, descsOf_append, ← List.singleton_append (l := post), descsOf_append, List.append_assoc]
    simp only [devsWalk, Bool.and_eq_true, List.all_eq_true] at hwalk
    obtain ⟨hdvs, hwalk'⟩ := hwalk
    have hsplit' : (pre ++ [m]) ++ post = file := by rw [← hsplit]; simp
    have hpre' : descsOf (pre ++ [m]) = descsOf pre ++ descsOf [m] := descsOf_append pre [m]
    have hw2 : devsWalk (descsOf (pre ++ [m])) post = true := by
      rw [hpre', descsOf_single]
      cases h : m.num == mnFieldDescription
      · simpa [h] using hwalk'
      · simpa [h] using hwalk'
    -- a field_description message comes back with its description
    have hdk : m.num = mnFieldDescription →
        (!o.verbose && isUnknownMesg m.num) = false ∧ ((backFields o m).isEmpty && m.devFields.isEmpty) = false ∧
        descOf (backMesgOf o m) = descOf m := by
      intro hnum
      apply desc_keeps o m hms hnum
      apply hf.descs
      rw [hdf, descsOf_single]
      simp [hnum]
    simp only [idsWalkB] at hids
    rw [List.filterMap_cons]
    cases hexp : expectedMesg o m with
    | none =>
      rw [hexp] at hids
      simp only at hids ⊢
      have hn206 : m.num ≠ mnFieldDescription := by
        intro hnum
        obtain ⟨h1, h2, _⟩ := hdk hnum
        rw [expectedMesg_eq, h1, h2] at hexp
        cases hexp
      have := gate_walk o file hf post (pre ++ [m]) ids hsplit' hids hw2
      rw [descsOf_snoc_not206 pre m hn206] at this
      exact this
    | some m' =>
      rw [hexp] at hids
      simp only [Bool.and_eq_true, List.all_eq_true] at hids
      obtain ⟨hidc, hids'⟩ := hids
      have hm' : m' = backMesgOf o m := by
        rw [expectedMesg_eq] at hexp
        split at hexp
        · cases hexp
        · split at hexp
          · cases hexp
          · exact (Option.some.inj hexp).symm
      subst hm'
      have hds' : (if (backMesgOf o m).num == mnFieldDescription then descsOf pre ++ [descOf (backMesgOf o m)] else descsOf pre) =
          descsOf (pre ++ [m]) := by
        rw [hpre', descsOf_single]
        show (if m.num == mnFieldDescription then _ else _) = _
        cases h : m.num == mnFieldDescription
        · simp
        · have hnum : m.num = mnFieldDescription := by simpa using h
          simp [(hdk hnum).2.2]
      have ih := gate_walk o file hf post (pre ++ [m]) _ hsplit' hids' hw2
      simp only [gateSeq, Bool.and_eq_true, List.all_eq_true, hds']
      refine ⟨?_, ?_, ?_⟩
      · -- fields aligned
        intro f hfm
        have hfm' : f ∈ m.fields := (List.mem_filter.mp hfm).1
        have hfs := hms.fields f hfm'
        have hok := hfs.ok
        unfold fieldOK at hok
        simp only [Bool.or_eq_true]
        right
        split at hok
        · rename_i p hp
          simp only [Bool.and_eq_true, beq_iff_eq] at hok
          rw [hok.1.1]
          exact align_of_valueOK hok.1.2
        · simp only [Bool.and_eq_true] at hok
          exact align_of_valueOK hok.1
      · -- developer fields: index announced, description found (first match = the one of the file), value aligned
        intro d hd
        refine ⟨hidc d hd, ?_⟩
        have hsc := hdvs d hd
        unfold devFieldScopeB at hsc
        cases hfd : findDesc (descsOf pre) d.devIdx d.num with
        | none => rw [hfd] at hsc; cases hsc
        | some desc =>
          rw [hfd] at hsc
          simp only [Bool.and_eq_true] at hsc
          unfold findDesc at hfd
          have hdC : desc ∈ descsOf pre := List.mem_reverse.mp (List.mem_of_find?_eq_some hfd)
          have hkey := List.find?_some hfd
          have hpairs : ((descsOf pre ++ descsOf [m]).map fun d => (d.devIdx, d.num)).Nodup := by
            have := hf.pairs
            rw [hdf, List.map_append] at this
            exact (List.nodup_append.mp this).1
          have hfind : (descsOf (pre ++ [m])).find? (fun e => e.devIdx == d.devIdx && e.num == d.num) = some desc := by
            rw [hpre']
            apply find_unique (List.mem_append_left _ hdC) hkey
            intro x hx hqx
            simp only [Bool.and_eq_true, beq_iff_eq] at hqx hkey
            exact nodup_map_inj _ _ hpairs x hx desc (List.mem_append_left _ hdC) (by simp [hqx.1, hqx.2, hkey.1, hkey.2])
          show (match (descsOf (pre ++ [m])).find? (fun e => e.devIdx == d.devIdx && e.num == d.num) with
            | some desc => align d.value desc.bt | none => false) = true
          rw [hfind]
          exact align_of_valueOK hsc.1.1.1.2
      · exact ih

theorem gateScope_of {o : Opts} {files : List (List Message)} (h : csvUnambiguousB o files = true) :
    ∀ f ∈ files, gateScopeB o f = true := by
  simp only [csvUnambiguousB, Bool.and_eq_true, List.all_eq_true] at h
  exact fun f hf => (h f hf).2

/-- every sequence that comes back is non-empty and passes the gate -/
theorem gate_files (o : Opts) (files : List (List Message)) (h : csvUnambiguousB o files = true) :
    (expected o files).all (fun q => !q.isEmpty && gateSeq [] [] q) = true := by
  have hfs := fileScope_of h
  simp only [expected, List.all_eq_true, List.mem_map, forall_exists_index, and_imp, forall_apply_eq_imp_iff₂, Bool.and_eq_true]
  intro f hf
  have hg := gateScope_of h f hf
  simp only [gateScopeB, Bool.and_eq_true] at hg
  refine ⟨hg.1, ?_⟩
  have := gate_walk o f (hfs f hf) f [] [] rfl hg.2 (hfs f hf).walk
  simpa [descsOf] using this

/-- **FIT → CSV → FIT, `Convert` included**: the sequences pass the encoder's validator -/
theorem roundtrip_gate (o : Opts) (files : List (List Message)) (hne : files ≠ []) (h : csvUnambiguousB o files = true) :
    fromCsv Arith.so (toCsv o files) = .ok ⟨expected o files, files.length⟩ := by
  unfold fromCsv
  rw [roundtrip_full o files hne h]
  simp only [gate_files o files h, ↓reduceIte]

theorem roundtrip_text_gate (tp : TextParam) (o : Opts) (files : List (List Message)) (hf : FloatOK tp (csvAtoms o files))
    (hne : files ≠ []) (h : csvUnambiguousB o files = true) :
    ∃ lines, csvText tp o (toCsv o files) = some lines ∧
      fromCsvText (Arith.so.withText tp) lines = .ok ⟨expected o files, files.length⟩ := by
  obtain ⟨lines, h1, h2⟩ := roundtrip_text tp o files hf hne h
  refine ⟨lines, h1, ?_⟩
  unfold fromCsvText
  rw [h2]
  simp only [gate_files o files h, ↓reduceIte]

end Fit.Csv
