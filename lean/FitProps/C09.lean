import FitProps.WriterStreamLemmas
import FitProps.WriterCtxLemmas
/-!
# C09 — Output bytes do not depend on writer kind, buffering or batch vs stream

Specification: the destination ends up holding `d₀ ++ Wire.encodeChain o fits` (the wire-level encoder model of C01/C02).
Model: `FitModel/Writer.lean` (destination, bufio, writerAt/writeSeeker wrappers, the three output paths, stream encoder).

PROPERTY THEOREMS (audited by ./check): C09_bufio_transparent, C09_bufio_eq_direct (any chunking through any buffer size,
then Flush = direct writes), C09_dryrun_equals_run (early-check strategy: first pass = second pass), C09_same_bytes_batch
(every kind × buffer size × chain × pre-filled destination leaves `d₀ ++ encodeChain`), C09_kinds_agree,
C09_stream_equals_batch (under EVERY fault schedule the stream encoder drives the writer exactly as `Encode` does),
C09_validation_order (validating per message = validating up front, any validator), C09_same_bytes_stream,
C09_same_bytes (batch on any kind/size = stream on any random-access kind/size).
The header rewrite itself (`seek_rewrite_correct` / `writeAt_rewrite_correct` of DESIGN §3) is
`rewriteSeek_spec` / `writeAt_spec` / `updateFileHeader_spec` in FitProps/WriterRewriteLemmas.lean, used through
`encode_outcome` (FitProps/WriterOutcomeLemmas.lean).
Assumptions (documented caveats of `encoder.New`): the destination is positioned at its end; a write-at destination
holds only what this encoder wrote (`n₀ = |d₀|`).
-/
namespace Fit.C09
open Fit.Wire Fit.Writer

/-- a series of `Write` calls followed by `Flush`, stopping at the first error -/
def writesFlush (F : Faults) : W → List Bytes → W × Bool
  | w, [] => w.flush F
  | w, p :: ps =>
    let r := w.write F p
    if r.2.2 then writesFlush F r.1 ps else (r.1, false)

theorem writes_appended (F : Faults) (w : W) (ps : List Bytes) (hg : w.Good) :
    Appended F w ps.flatten (writesFlush F w ps).1 (writesFlush F w ps).2 ∧
    ((writesFlush F w ps).2 = true → (writesFlush F w ps).1.buf = []) := by
  induction ps generalizing w with
  | nil =>
    have := flush_appended F w hg
    simpa [writesFlush] using this
  | cons p ps ih =>
    have h1 := write_appended F w p hg
    unfold writesFlush
    by_cases hok : (w.write F p).2.2 = true
    · rw [hok] at h1
      simp only [hok, if_true]
      obtain ⟨h2, h3⟩ := ih (w.write F p).1 h1.good
      exact ⟨by simpa using h1.trans h2, h3⟩
    · have hok' : (w.write F p).2.2 = false := by simpa using hok
      rw [hok'] at h1
      simp only [hok', Bool.false_eq_true, if_false]
      exact ⟨by simpa using h1.fail_mono ps.flatten, by simp⟩

/-- BUFIO IS TRANSPARENT: on a healthy destination positioned at its end, any series of writes through a write buffer
of ANY size (0 = unbuffered) followed by `Flush` succeeds and leaves exactly the concatenation of the written chunks
appended to the destination, nothing buffered — whatever the chunk sizes are relative to the buffer size. -/
theorem C09_bufio_transparent (kind : Kind) (size : Nat) (d : Dest) (hend : d.pos = d.content.length)
    (hlog : ∀ op ∈ d.log, op.ok = true) (ps : List Bytes) :
    let r := writesFlush noFault { kind := kind, size := size, d := d } ps
    r.2 = true ∧ r.1.d.content = d.content ++ ps.flatten ∧ r.1.buf = [] ∧ r.1.d.pos = r.1.d.content.length := by
  intro r
  have hg : W.Good { kind := kind, size := size, d := d } := ⟨hend, fun _ => rfl⟩
  have hc : W.Clean { kind := kind, size := size, d := d } := ⟨hlog, rfl⟩
  obtain ⟨h1, h2⟩ := writes_appended noFault _ ps hg
  have hok : r.2 = true := h1.live rfl hc
  have hb := h2 hok
  refine ⟨hok, ?_, hb, h1.good.atEnd⟩
  have := h1.full hok
  simpa [W.acc, hb, r] using this

/-- … in particular every buffer size gives the destination the same content as unbuffered writing -/
theorem C09_bufio_eq_direct (kind : Kind) (size : Nat) (d : Dest) (hend : d.pos = d.content.length)
    (hlog : ∀ op ∈ d.log, op.ok = true) (ps : List Bytes) :
    (writesFlush noFault { kind := kind, size := size, d := d } ps).1.d.content =
    (writesFlush noFault { kind := kind, size := 0, d := d } ps).1.d.content := by
  rw [(C09_bufio_transparent kind size d hend hlog ps).2.1, (C09_bufio_transparent kind 0 d hend hlog ps).2.1]

/-- a new encoder on a destination that may already hold bytes: `n₀` is what the encoder itself has written there
(`e.n`; 0 for a fresh `encoder.New`) -/
def encOn (o : Opts) (kind : Kind) (size : Nat) (d₀ : Dest) (n₀ : Nat) : Enc := { Enc.new o kind size d₀ with n := n₀ }

theorem encOn_ready (o : Opts) (kind : Kind) (size : Nat) (d₀ : Dest) (n₀ : Nat) (hend : d₀.pos = d₀.content.length)
    (hown : kind = .at → n₀ = d₀.content.length) : (encOn o kind size d₀ n₀).Ready o :=
  ⟨⟨⟨hend, fun _ => rfl⟩, rfl⟩, ⟨rfl, rfl, rfl⟩, hown⟩

/-- DRY RUN = REAL RUN (early-check strategy, plain writers): the first pass leaves in the header exactly the number of
record bytes (mod 2^32) the second pass writes, and leaves every message as it was — the compressed-timestamp field
it took out is put back at its index. -/
theorem C09_dryrun_equals_run (o : Opts) (ms : List WMsg) :
    dryPass o (freshEnc o) 0 ms = ((encodeMsgs o (freshEnc o) ms).length % 4294967296, ms) := by
  rw [dryPass_eq o _ _ _ (by decide)]; simp

/-- SAME BYTES, batch: for every writer kind (plain / write-at / seeker / both), every write-buffer size (0 =
unbuffered), every chain of FIT values and every destination that already holds `d₀` (for a write-at destination:
bytes this encoder wrote, `n₀ = |d₀|`), on a healthy destination every `Encode` succeeds and the destination ends
up holding exactly `d₀ ++ encodeChain o fits` — an expression in which neither the kind, nor the buffer size, nor the
caller's header data sizes occur. -/
theorem C09_same_bytes_batch (o : Opts) (kind : Kind) (size : Nat) (d₀ : Dest) (n₀ : Nat) (fs : List FitIn)
    (hend : d₀.pos = d₀.content.length) (hlog : ∀ op ∈ d₀.log, op.ok = true)
    (hown : kind = .at → n₀ = d₀.content.length) :
    (encodeChainW noFault o (encOn o kind size d₀ n₀) fs).2.2 = true ∧
    (encodeChainW noFault o (encOn o kind size d₀ n₀) fs).2.1 = fs.length ∧
    (encodeChainW noFault o (encOn o kind size d₀ n₀) fs).1.w.d.content = d₀.content ++ encodeChain o (fitsOf fs) ∧
    (encodeChainW noFault o (encOn o kind size d₀ n₀) fs).1.w.buf = [] := by
  obtain ⟨_, _, _, h4, _, h6⟩ := chain_spec noFault o fs _ (encOn_ready o kind size d₀ n₀ hend hown)
  have hok := h6 rfl ⟨hlog, rfl⟩
  obtain ⟨j1, j2, j3⟩ := h4 hok
  exact ⟨hok, j1, j3, j2.idle.buf⟩

/-- … hence any two configurations leave the same bytes -/
theorem C09_kinds_agree (o : Opts) (k₁ k₂ : Kind) (s₁ s₂ : Nat) (d₀ : Dest) (fs : List FitIn)
    (hend : d₀.pos = d₀.content.length) (hlog : ∀ op ∈ d₀.log, op.ok = true) :
    (encodeChainW noFault o (encOn o k₁ s₁ d₀ d₀.content.length) fs).1.w.d.content =
    (encodeChainW noFault o (encOn o k₂ s₂ d₀ d₀.content.length) fs).1.w.d.content := by
  rw [(C09_same_bytes_batch o k₁ s₁ d₀ _ fs hend hlog (fun _ => rfl)).2.2.1,
    (C09_same_bytes_batch o k₂ s₂ d₀ _ fs hend hlog (fun _ => rfl)).2.2.1]

/-- a new stream encoder on a destination (`n₀` as in `encOn`), with `hdrDs` in the header value it keeps -/
def streamOn (o : Opts) (kind : Kind) (size : Nat) (d₀ : Dest) (n₀ hdrDs : Nat) : Stream :=
  { e := encOn o kind size d₀ n₀, hdrDs := hdrDs }

/-- STREAM = BATCH under every fault schedule (hence in particular on a healthy destination): `WriteMessage` per message
and `SequenceCompleted` per sequence issue exactly the destination operations of `Encode` of the same messages under
the stream encoder's header — same writer state afterwards (destination content, position, operation log, buffer),
same success/failure, same number of completed sequences. Holds for the code as pinned and as repaired (`c`). -/
theorem C09_stream_equals_batch (F : Faults) (c : StreamCfg) (o : Opts) (h : Hdr) (kind : Kind) (size : Nat) (d₀ : Dest)
    (n₀ hdrDs : Nat) (mss : List (List WMsg)) (hne : ∀ ms ∈ mss, ms ≠ []) (hdir : kind.direct = true)
    (hend : d₀.pos = d₀.content.length) (hown : kind = .at → n₀ = d₀.content.length) :
    (Stream.chain F c o h (streamOn o kind size d₀ n₀ hdrDs) mss).1.e.w =
      (encodeChainW F o (encOn o kind size d₀ n₀) (streamFits c o h hdrDs mss)).1.w ∧
    (Stream.chain F c o h (streamOn o kind size d₀ n₀ hdrDs) mss).2 =
      (encodeChainW F o (encOn o kind size d₀ n₀) (streamFits c o h hdrDs mss)).2 :=
  stream_chain_eq F c o h mss (streamOn o kind size d₀ n₀ hdrDs) hne rfl (encOn_ready o kind size d₀ n₀ hend hown) hdir

/-- VALIDATION ORDER does not matter: `Encode` runs both validators over the whole list before the first write,
`WriteMessage` runs them on each message right before writing it. For every message validator (any state type, any
transformation of the messages), every fault schedule and every state of the stream encoder: if the batch gate
accepts the list — protocol validator on every message, message validator threaded through the list giving `ms'` —
then the stream encoder's `WriteMessage` calls on the original messages do exactly what writing the validated
messages `ms'` does (same writer state, same result). -/
theorem C09_validation_order {σ : Type} (V : MsgValidator σ) (F : Faults) (o : Opts) (h : Hdr) (ms ms' : List WMsg)
    (s : Stream) (hp : ms.all (protoOK h.protoVer) = true) (hv : validateAll V V.init ms = some ms') :
    (Stream.writeAllV V F o h s V.init ms).1 = (Stream.writeAll F o h s ms').1 ∧
    (Stream.writeAllV V F o h s V.init ms).2.2 = (if (Stream.writeAll F o h s ms').2 then Res.ok else Res.err) :=
  writeAllV_eq V F o h ms ms' s V.init hp hv

/-- SAME BYTES, stream: for every random-access writer kind, every buffer size, every series of non-empty sequences and
every pre-filled destination, a healthy destination ends up holding `d₀ ++ encodeChain o [(h, ms₁), (h, ms₂), …]` —
the very bytes the batch encoder leaves for the same messages under the header `h` (C09_same_bytes_batch). -/
theorem C09_same_bytes_stream (c : StreamCfg) (o : Opts) (h : Hdr) (kind : Kind) (size : Nat) (d₀ : Dest)
    (n₀ hdrDs : Nat) (mss : List (List WMsg)) (hne : ∀ ms ∈ mss, ms ≠ []) (hdir : kind.direct = true)
    (hend : d₀.pos = d₀.content.length) (hlog : ∀ op ∈ d₀.log, op.ok = true) (hown : kind = .at → n₀ = d₀.content.length) :
    (Stream.chain noFault c o h (streamOn o kind size d₀ n₀ hdrDs) mss).2 = (mss.length, true) ∧
    (Stream.chain noFault c o h (streamOn o kind size d₀ n₀ hdrDs) mss).1.e.w.d.content =
      d₀.content ++ encodeChain o (mss.map fun ms => (h, ms)) := by
  obtain ⟨e1, e2⟩ := C09_stream_equals_batch noFault c o h kind size d₀ n₀ hdrDs mss hne hdir hend hown
  obtain ⟨b1, b2, b3, _⟩ := C09_same_bytes_batch o kind size d₀ n₀ (streamFits c o h hdrDs mss) hend hlog hown
  rw [e1, e2, b3, fitsOf_streamFits]
  refine ⟨?_, rfl⟩
  have hl : (streamFits c o h hdrDs mss).length = mss.length := by
    have := congrArg List.length (fitsOf_streamFits c o h hdrDs mss)
    simpa [fitsOf] using this
  rw [← hl, ← b2, ← b1]

/-- SAME BYTES, all together: the same message lists under the same header through (i) `Encode` on a writer of ANY kind
with ANY buffer size and (ii) the stream encoder on a random-access writer of any kind with any buffer size leave
identical destination contents, on any pre-filled destination. -/
theorem C09_same_bytes (c : StreamCfg) (o : Opts) (h : Hdr) (k₁ k₂ : Kind) (s₁ s₂ : Nat) (d₀ : Dest) (ds : Nat → Nat)
    (mss : List (List WMsg)) (hne : ∀ ms ∈ mss, ms ≠ []) (hdir : k₂.direct = true)
    (hend : d₀.pos = d₀.content.length) (hlog : ∀ op ∈ d₀.log, op.ok = true) :
    (encodeChainW noFault o (encOn o k₁ s₁ d₀ d₀.content.length) (mss.zipIdx.map fun (ms, i) => ⟨h, ds i, ms⟩)).1.w.d.content =
    (Stream.chain noFault c o h (streamOn o k₂ s₂ d₀ d₀.content.length 0) mss).1.e.w.d.content := by
  rw [(C09_same_bytes_batch o k₁ s₁ d₀ _ _ hend hlog (fun _ => rfl)).2.2.1,
    (C09_same_bytes_stream c o h k₂ s₂ d₀ _ 0 mss hne hdir hend hlog (fun _ => rfl)).2]
  congr 2
  simp only [fitsOf, List.map_map]
  have : mss.zipIdx.map (fun x => (h, x.1)) = mss.map fun ms => (h, ms) := by
    conv => rhs; rw [← List.zipIdx_map_fst 0 mss]
    rw [List.map_map]; rfl
  rw [← this]; rfl

/-! ### the two documented caveats of `encoder.New` are NECESSARY (kernel-evaluated witnesses)

`C09_same_bytes_batch` assumes (`hend`) that the destination is positioned at its end and (`hown`) that a pure
write-at destination holds only what this encoder wrote. The model follows the code outside these assumptions too
(family enc-writers runs write-at destinations with foreign content: model and code agree on the corruption); here
is what the encoder then writes. In all three cases every call reports SUCCESS. -/

namespace Caveat
def m1 : WMsg := ⟨20, [⟨151, 2, 3, [0x16]⟩], []⟩
def o : Opts := ⟨0, false, 1⟩
def h : Hdr := ⟨14, 16, 21158⟩
/-- twenty foreign bytes -/
def pre : Bytes := List.replicate 20 0xEE
def spec : Bytes := encodeChain o [(h, [m1])]
end Caveat

/-- **`hown` is necessary** ("When using io.WriterAt, the given io.Writer is expected to be empty"): a write-at
destination that already holds 20 foreign bytes and is positioned at its end, given to a NEW encoder (`e.n = 0`). The
27 bytes of the sequence are appended correctly, but the header rewrite goes to offset `lastFileHeaderPos = 0` — the
encoder's own count —: the final header overwrites the first 14 FOREIGN bytes, and the sequence's real header keeps the
placeholder data size 0. `Encode` reports success; the content is not `pre ++ encodeChain`. With `n₀ = |pre|`
(`hown`) the same destination ends up correct (`C09_same_bytes_batch`). -/
theorem C09_caveat_writeAt_foreign_witness :
    let r := encodeChainW noFault Caveat.o (Enc.new Caveat.o .at 0 ⟨Caveat.pre, 20, []⟩) [⟨Caveat.h, 0, [Caveat.m1]⟩]
    r.2 = (1, true) ∧
    r.1.w.d.content ≠ Caveat.pre ++ Caveat.spec ∧
    r.1.w.d.content = (Caveat.spec.take 14 ++ Caveat.pre.drop 14) ++ (hdrBytes Caveat.h 0 ++ Caveat.spec.drop 14) ∧
    (encodeChainW noFault Caveat.o (encOn Caveat.o .at 0 ⟨Caveat.pre, 20, []⟩ 20) [⟨Caveat.h, 0, [Caveat.m1]⟩]).1.w.d.content =
      Caveat.pre ++ Caveat.spec := by
  decide +kernel

/-- **`hend` is necessary**, plain writer: a destination holding 40 bytes, positioned at its START (a file opened
without seeking to its end): the sequence overwrites the first 27 bytes; success is reported. -/
theorem C09_caveat_not_at_end_witness :
    let d₀ : Dest := ⟨List.replicate 40 0xEE, 0, []⟩
    let r := encodeChainW noFault Caveat.o (Enc.new Caveat.o .plain 0 d₀) [⟨Caveat.h, 0, [Caveat.m1]⟩]
    r.2 = (1, true) ∧ r.1.w.d.content ≠ d₀.content ++ Caveat.spec ∧
    r.1.w.d.content = Caveat.spec ++ d₀.content.drop 27 := by
  decide +kernel

/-- **`hend` is necessary even when `hown` holds**, write-at destination behind a 4-byte buffer: 20 bytes of the
encoder's own (`n₀ = 20`) but positioned at offset 5. The writes go to offsets 5…31, the header rewrite to offset
`lastFileHeaderPos = 20` — into the middle of the records. A WriteSeeker in the same situation is consistent with
itself (relative seeks): it overwrites from offset 5 and the bytes it wrote ARE the sequence. Success is reported by both. -/
theorem C09_caveat_writeAt_not_at_end_witness :
    let rA := encodeChainW noFault Caveat.o (encOn Caveat.o .at 4 ⟨Caveat.pre, 5, []⟩ 20) [⟨Caveat.h, 0, [Caveat.m1]⟩]
    let rS := encodeChainW noFault Caveat.o (encOn Caveat.o .seek 4 ⟨Caveat.pre, 5, []⟩ 20) [⟨Caveat.h, 0, [Caveat.m1]⟩]
    rA.2 = (1, true) ∧ rS.2 = (1, true) ∧
    rS.1.w.d.content = Caveat.pre.take 5 ++ Caveat.spec ∧
    rA.1.w.d.content ≠ Caveat.pre.take 5 ++ Caveat.spec ∧
    rA.1.w.d.content = Caveat.pre.take 5 ++ hdrBytes Caveat.h 0 ++ (Caveat.spec.drop 14).take 1 ++ Caveat.spec.take 14 := by
  decide +kernel

/-- **"If io.Writer is an *os.File opened with O_APPEND, the behavior of the Encoder is not specified"** — what it is:
the operations the encoder issues do not depend on where the destination puts the bytes, so on an `O_APPEND` file
(`Dest.runAppend`: every `Write` lands at the end) the seek-rewrite of an `*os.File` (a WriteSeeker) APPENDS the final
header: the file is the sequence with its placeholder header (data size 0) followed by 14 more bytes — 41 instead of 27
— while every call reports success. On an ordinary file the same operations give the sequence (`Dest.run`). -/
theorem C09_caveat_append_mode_witness :
    let r := encodeChainW noFault Caveat.o (Enc.new Caveat.o .both 0 ⟨[], 0, []⟩) [⟨Caveat.h, 0, [Caveat.m1]⟩]
    r.2 = (1, true) ∧
    ((⟨[], 0, []⟩ : Dest).run r.1.w.d.log.reverse).content = Caveat.spec ∧
    ((⟨[], 0, []⟩ : Dest).runAppend r.1.w.d.log.reverse).content =
      (hdrBytes Caveat.h 0 ++ Caveat.spec.drop 14) ++ Caveat.spec.take 14 ∧
    ((⟨[], 0, []⟩ : Dest).runAppend r.1.w.d.log.reverse).content ≠ Caveat.spec := by
  decide +kernel

/-! ### `EncodeWithContext` -/

/-- A CONTEXT THAT IS NEVER CANCELLED GIVES EXACTLY `Encode`: for every message validator, fault schedule, option set and
encoder state (any destination kind, buffer size, content), `EncodeWithContext(ctx, fit)` with a context whose `Done()` never
fires — `context.Background()` — leaves the same encoder (hence the same destination: content, position, operation log) and
returns the same result as `Encode(fit)`; so every C09 / C11 theorem about `Encode` speaks about such a call too. (Both
variants of `calculateDataSizeWithContext`, as pinned and as repaired: `CtxCfg`.) -/
theorem C09_ctx_equals_plain {σ : Type} (V : MsgValidator σ) (cc : CtxCfg) (F : Faults) (o : Opts) (e : Enc) (f : FitIn) :
    encodeCtxV V cc F o none ⟨e, false⟩ f = (⟨(encodeV V F o e f).1, false⟩, (encodeV V F o e f).2) :=
  encodeCtxV_none V cc F o e f

namespace CtxWitness
def o : Opts := ⟨0, false, 1⟩
def h : Fit.Wire.Hdr := ⟨14, 16, 21158⟩
def m1 : WMsg := ⟨20, [⟨151, 2, 3, [0x16]⟩], []⟩
def m2 : WMsg := ⟨20, [⟨151, 2, 3, [0xc0]⟩], []⟩
/-- `EncodeWithContext(cancelled ctx, [m1])` then `Encode([m2])` on one encoder over an unbuffered plain writer -/
def run (cc : CtxCfg) : EncC × Res × Res :=
  let r1 := encodeCtxV passThrough cc noFault o (some 0) ⟨Enc.new o .plain 0 ⟨[], 0, []⟩, false⟩ ⟨h, 0, [m1]⟩
  let r2 := encodeCtxV passThrough cc noFault o none r1.1 ⟨h, 0, [m2]⟩
  (r2.1, r1.2, r2.2)
end CtxWitness

/-- **Witness of KF-C09-ctx-discard** (reported by ./check C09, repaired in /repo 4876fc8). With the code as it was pinned (`restoresWriter = false`: `calculateDataSizeWithContext` returns
the context's error with `e.w` still `io.Discard`) the `Encode` that follows a cancelled `EncodeWithContext` on a plain writer
reports SUCCESS and the destination stays empty; with the writer restored it holds exactly the second sequence. -/
theorem C09_ctx_discard_witness :
    (CtxWitness.run ⟨false⟩).2 = (.ec, .ok) ∧ (CtxWitness.run ⟨false⟩).1.e.w.d.content = [] ∧
      (CtxWitness.run ⟨false⟩).1.e.w.d.log = [] ∧
    (CtxWitness.run ⟨true⟩).2 = (.ec, .ok) ∧
      (CtxWitness.run ⟨true⟩).1.e.w.d.content = encodeChain CtxWitness.o [(CtxWitness.h, [CtxWitness.m2])] := by
  decide +kernel

end Fit.C09
