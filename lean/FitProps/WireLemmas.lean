import FitModel.Wire
import FitProps.CrcLemmas
/-! Helper lemmas for the wire-level round trip (C01, C02): printing then parsing definitions and data
records, the LRU/definition-table simulation invariant, timestamp reconstruction. Core Lean only. -/
namespace Fit.Wire

/-! ### the framing skeleton of the decoder

`decodeRecordF` / `decodeRecordsF` are `decodeRecord` / `decodeRecords` of FitModel/Wire.lean WITHOUT the field
descriptions: developer field bytes are taken whatever the descriptions say (`takeDevsF`), the description table of the
state is left alone. They exist for the proofs only (nothing executes them): the round trip and the bridges to the other
decoder models are proved on the skeleton, and `decodeRecords_of_F` / `decodeRecord_toF` below transfer the results to
the real `decodeRecords`: the two agree exactly where no developer field refers to a field description with an invalid
base type, and there the real one ends with `invalidBaseType`. -/

def takeDevsF : List DevDef → Bytes → Except Err (List (DevDef × Bytes) × Bytes)
  | [], bs => .ok ([], bs)
  | fd :: fds, bs =>
    if bs.length < fd.size then .error .eof else
      match takeDevsF fds (bs.drop fd.size) with
      | .ok (fs, rest) => .ok ((fd, bs.take fd.size) :: fs, rest)
      | .error e => .error e

def decodeRecordF (tsKnown : Nat → Bool) (s : DecState) : Bytes → Except Err (Item × DecState × Bytes)
  | [] => .error .eof
  | h :: bs =>
    if h &&& 0xC0 == 0x40 then
      match bs with
      | _res :: arch :: m0 :: m1 :: n :: bs1 =>
        let mesgNum := if arch = 0 then m0 + 256 * m1 else m1 + 256 * m0
        match parseFieldDefs n bs1 with
        | .error e => .error e
        | .ok (fds, bs2) =>
          if fds.any (fun f => !validBaseType f.bt) then .error .invalidBaseType else
          if h &&& 0x20 == 0x20 then
            match bs2 with
            | [] => .error .eof
            | k :: bs3 =>
              match parseDevDefs k bs3 with
              | .error e => .error e
              | .ok (dds, bs4) =>
                let d : MesgDef := ⟨h, arch, mesgNum, fds, dds⟩
                .ok (.def_ (h &&& 0xF) d, { s with defs := (h &&& 0xF, d) :: s.defs }, bs4)
          else
            let d : MesgDef := ⟨h, arch, mesgNum, fds, []⟩
            .ok (.def_ (h &&& 0xF) d, { s with defs := (h &&& 0xF, d) :: s.defs }, bs2)
      | _ => .error .eof
    else
      let compressed := h &&& 0x80 == 0x80
      let local_ := (if compressed then (h &&& 0x60) >>> 5 else h) &&& 0xF
      match s.lookup local_ with
      | none => .error .defMissing
      | some d =>
        let (s1, ts) := if compressed then
            let (s', t) := decompressHdr s h
            (s', some t)
          else (s, none)
        match takeFields d.fields bs with
        | .error e => .error e
        | .ok (fs, bs1) =>
          let s2 := trackTs (tsKnown d.mesgNum) d.arch s1 fs
          match takeDevsF d.devs bs1 with
          | .error e => .error e
          | .ok (ds, bs2) =>
            .ok (.data ⟨h, d.mesgNum, d.arch, ts, fs, ds⟩, s2, bs2)

def decodeRecordsF (tsKnown : Nat → Bool) : Nat → DecState → Nat → Bytes → List Item × Except Err Bytes
  | 0, _, remaining, bs => if remaining = 0 then ([], .ok bs) else ([], .error .eof)
  | fuel+1, s, remaining, bs =>
    if remaining = 0 then ([], .ok bs) else
      match decodeRecordF tsKnown s bs with
      | .error e => ([], .error e)
      | .ok (it, s', rest) =>
        let used := bs.length - rest.length
        let (its, r) := decodeRecordsF tsKnown fuel s' (remaining - used) rest
        (it :: its, r)

/-! ### definitions: print then parse -/

def fdefsOf (m : WMsg) : List FieldDef := m.fields.map fun f => ⟨f.num, f.data.length % 256, f.bt⟩
def ddefsOf (m : WMsg) : List DevDef := m.devs.map fun d => ⟨d.num, d.data.length % 256, d.idx⟩

theorem parseFieldDefs_print (fds : List FieldDef) (rest : Bytes) :
    parseFieldDefs fds.length ((fds.flatMap fun f => [f.num, f.size, f.bt]) ++ rest) = .ok (fds, rest) := by
  induction fds with
  | nil => simp [parseFieldDefs]
  | cons f fs ih => simp [parseFieldDefs, List.flatMap_cons, ih]

theorem parseDevDefs_print (fds : List DevDef) (rest : Bytes) :
    parseDevDefs fds.length ((fds.flatMap fun f => [f.num, f.size, f.idx]) ++ rest) = .ok (fds, rest) := by
  induction fds with
  | nil => simp [parseDevDefs]
  | cons f fs ih => simp [parseDevDefs, List.flatMap_cons, ih]

theorem flatMap_fdefs (m : WMsg) :
    (m.fields.flatMap fun f => [f.num, f.data.length % 256, f.bt]) =
      (fdefsOf m).flatMap fun f => [f.num, f.size, f.bt] := by
  simp [fdefsOf, List.flatMap_map]

theorem flatMap_ddefs (m : WMsg) :
    (m.devs.flatMap fun d => [d.num, d.data.length % 256, d.idx]) =
      (ddefsOf m).flatMap fun f => [f.num, f.size, f.idx] := by
  simp [ddefsOf, List.flatMap_map]

/-- the definition the decoder holds after reading the definition record the encoder writes for `m`
with local number `i` -/
def defOf (arch i : Nat) (m : WMsg) : MesgDef :=
  ⟨(if m.devs.isEmpty then 0x40 else 0x60) ||| i, arch, m.num, fdefsOf m, ddefsOf m⟩

/-- what the encoder may be given after validation (sizes and counts fit a byte, valid base types) -/
structure MsgOK (m : WMsg) : Prop where
  num : m.num < 65536
  nfields : m.fields.length ≤ 255
  ndevs : m.devs.length ≤ 255
  fields : ∀ f ∈ m.fields, f.data.length ≤ 255 ∧ validBaseType f.bt = true
  devs : ∀ d ∈ m.devs, d.data.length ≤ 255
  bytes : ∀ f ∈ m.fields, ∀ b ∈ f.data, b < 256      -- field data are bytes


theorem hdr_bits : ∀ i, i < 16 →
    ((0x40 ||| i) &&& 0xC0 = 0x40) ∧ ((0x60 ||| i) &&& 0xC0 = 0x40) ∧
    ((0x40 ||| i) &&& 0x20 = 0) ∧ ((0x60 ||| i) &&& 0x20 = 0x20) ∧
    ((0x40 ||| i) &&& 0xF = i) ∧ ((0x60 ||| i) &&& 0xF = i) := by decide

theorem any_invalid_false (m : WMsg) (h : MsgOK m) :
    (fdefsOf m).any (fun f => !validBaseType f.bt) = false := by
  rw [List.any_eq_false]
  intro f hf
  simp only [fdefsOf, List.mem_map] at hf
  obtain ⟨g, hg, rfl⟩ := hf
  simp [(h.fields g hg).2]

theorem decodeRecord_def (tsKnown : Nat → Bool) (s : DecState) (arch i : Nat) (m : WMsg) (rest : Bytes)
    (ha : arch = 0 ∨ arch = 1) (hi : i < 16) (hm : MsgOK m) :
    decodeRecordF tsKnown s (defRecord arch i m ++ rest) =
      .ok (.def_ i (defOf arch i m), { s with defs := (i, defOf arch i m) :: s.defs }, rest) := by
  obtain ⟨b1, b2, b3, b4, b5, b6⟩ := hdr_bits i hi
  have hnum : (if arch = 0 then m.num % 256 + 256 * (m.num / 256 % 256)
      else m.num % 256 + 256 * (m.num / 256 % 256)) = m.num := by
    have := hm.num; split <;> omega
  have hnf : m.fields.length % 256 = (fdefsOf m).length := by
    have := hm.nfields; simp [fdefsOf]; omega
  have hnd : m.devs.length % 256 = (ddefsOf m).length := by
    have := hm.ndevs; simp [ddefsOf]; omega
  have hany := any_invalid_false m hm
  by_cases hd : m.devs.isEmpty
  · -- no developer fields
    have hdd : ddefsOf m = [] := by
      simp [ddefsOf]; exact List.isEmpty_iff.mp hd
    rcases ha with rfl | rfl
    · simp only [defRecord, defBytes, hd, if_true, List.cons_append, List.nil_append, List.append_assoc,
        decodeRecordF, b1, b3, b5, flatMap_fdefs, hnf]
      simp [parseFieldDefs_print, hany, defOf, hd, hdd]
      have := hm.num; omega
    · simp only [defRecord, defBytes, hd, if_true, List.cons_append, List.nil_append, List.append_assoc,
        decodeRecordF, b1, b3, b5, flatMap_fdefs, hnf]
      simp [parseFieldDefs_print, hany, defOf, hd, hdd]
      have := hm.num; omega
  · have hd' : m.devs.isEmpty = false := by simpa using hd
    rcases ha with rfl | rfl
    · simp only [defRecord, defBytes, hd', Bool.false_eq_true, ↓reduceIte, List.cons_append, List.nil_append, List.append_assoc,
        decodeRecordF, b2, b4, b6, flatMap_fdefs, flatMap_ddefs, hnf, hnd]
      simp [parseFieldDefs_print, parseDevDefs_print, hany, defOf, hd']
      have := hm.num; omega
    · simp only [defRecord, defBytes, hd', Bool.false_eq_true, ↓reduceIte, List.cons_append, List.nil_append, List.append_assoc,
        decodeRecordF, b2, b4, b6, flatMap_fdefs, flatMap_ddefs, hnf, hnd]
      simp [parseFieldDefs_print, parseDevDefs_print, hany, defOf, hd']
      have := hm.num; omega


/-! ### data records: print then parse -/

theorem takeFields_print (fs : List WField) (h : ∀ f ∈ fs, f.data.length ≤ 255) (rest : Bytes) :
    takeFields (fs.map fun f => ⟨f.num, f.data.length % 256, f.bt⟩) (fs.flatMap (·.data) ++ rest) =
      .ok (fs.map (fun f => (⟨f.num, f.data.length % 256, f.bt⟩, f.data)), rest) := by
  induction fs with
  | nil => simp [takeFields]
  | cons f fs ih =>
    have hf : f.data.length % 256 = f.data.length := by
      have := h f (by simp); omega
    have ih' := ih (fun g hg => h g (by simp [hg]))
    simp only [List.map_cons, takeFields, List.flatMap_cons, List.append_assoc, hf]
    have h1 : ¬ (f.data ++ (fs.flatMap (·.data) ++ rest)).length < f.data.length := by simp
    simp only [h1, if_false, List.drop_left, List.take_left]
    rw [ih']

theorem takeDevs_print (fs : List WDev) (h : ∀ f ∈ fs, f.data.length ≤ 255) (rest : Bytes) :
    takeDevsF (fs.map fun f => ⟨f.num, f.data.length % 256, f.idx⟩) (fs.flatMap (·.data) ++ rest) =
      .ok (fs.map (fun f => (⟨f.num, f.data.length % 256, f.idx⟩, f.data)), rest) := by
  induction fs with
  | nil => simp [takeDevsF]
  | cons f fs ih =>
    have hf : f.data.length % 256 = f.data.length := by
      have := h f (by simp); omega
    have ih' := ih (fun g hg => h g (by simp [hg]))
    simp only [List.map_cons, takeDevsF, List.flatMap_cons, List.append_assoc, hf]
    have h1 : ¬ (f.data ++ (fs.flatMap (·.data) ++ rest)).length < f.data.length := by simp
    simp only [h1, if_false, List.drop_left, List.take_left]
    rw [ih']

/-- the wire fields the decoder hands on for message `m` -/
def recFieldsOf (m : WMsg) : List (FieldDef × Bytes) :=
  m.fields.map fun f => (⟨f.num, f.data.length % 256, f.bt⟩, f.data)
def recDevsOf (m : WMsg) : List (DevDef × Bytes) :=
  m.devs.map fun f => (⟨f.num, f.data.length % 256, f.idx⟩, f.data)

theorem normal_hdr_bits : ∀ i, i < 16 → (i &&& 0xC0 == 0x40) = false ∧ (i &&& 0x80 == 0x80) = false ∧ i &&& 0xF = i := by
  decide

theorem compressed_hdr_bits : ∀ i, i < 4 → ∀ t, t < 32 →
    let h := (0x80 ||| t) ||| ((i <<< 5) % 256)
    (h &&& 0xC0 == 0x40) = false ∧ (h &&& 0x80 == 0x80) = true ∧ ((h &&& 0x60) >>> 5) &&& 0xF = i ∧ h &&& 0x1F = t := by
  decide

/-- a normal-header data record whose definition is live -/
theorem decodeRecord_data (tsKnown : Nat → Bool) (s : DecState) (arch i : Nat) (m : WMsg) (rest : Bytes)
    (hi : i < 16) (hm : MsgOK m) (hl : s.lookup i = some (defOf arch i m)) :
    decodeRecordF tsKnown s (i :: (payload m ++ rest)) =
      .ok (.data ⟨i, m.num, arch, none, recFieldsOf m, recDevsOf m⟩,
           trackTs (tsKnown m.num) arch s (recFieldsOf m), rest) := by
  obtain ⟨b1, b2, b3⟩ := normal_hdr_bits i hi
  simp only [decodeRecordF, b1, b2, b3, Bool.false_eq_true, ↓reduceIte, hl, defOf, payload, List.append_assoc,
    fdefsOf, ddefsOf]
  rw [takeFields_print m.fields (fun f hf => (hm.fields f hf).1)]
  simp only []
  rw [takeDevs_print m.devs hm.devs]
  simp [recFieldsOf, recDevsOf]

/-- a compressed-timestamp data record whose definition is live -/
theorem decodeRecord_cdata (tsKnown : Nat → Bool) (s : DecState) (arch i t : Nat) (m : WMsg) (rest : Bytes)
    (hi : i < 4) (ht : t < 32) (hm : MsgOK m) (hl : s.lookup i = some (defOf arch i m)) :
    decodeRecordF tsKnown s (((0x80 ||| t) ||| ((i <<< 5) % 256)) :: (payload m ++ rest)) =
      .ok (.data ⟨(0x80 ||| t) ||| ((i <<< 5) % 256), m.num, arch, some (decompressHdr s ((0x80 ||| t) ||| ((i <<< 5) % 256))).2,
             recFieldsOf m, recDevsOf m⟩,
           trackTs (tsKnown m.num) arch (decompressHdr s ((0x80 ||| t) ||| ((i <<< 5) % 256))).1 (recFieldsOf m), rest) := by
  obtain ⟨b1, b2, b3, _⟩ := compressed_hdr_bits i hi t ht
  simp only [decodeRecordF, b1, b2, b3, Bool.false_eq_true, ↓reduceIte, hl, defOf, payload, List.append_assoc,
    fdefsOf, ddefsOf]
  rw [takeFields_print m.fields (fun f hf => (hm.fields f hf).1)]
  simp only []
  rw [takeDevs_print m.devs hm.devs]
  simp [recFieldsOf, recDevsOf]


/-! ### LRU (encoder/lru.go) -/

theorem get_set_same (l : Lru) (i : Nat) (b : Bytes) : (l.set i b).get i = some b := by
  simp [Lru.get, Lru.set]

theorem get_set_other (l : Lru) (i j : Nat) (b : Bytes) (h : j ≠ i) : (l.set i b).get j = l.get j := by
  simp only [Lru.get, Lru.set]
  have hji : ((i, b).1 == j) = false := by simp; omega
  rw [List.find?_cons_of_neg (by simpa using hji)]
  congr 1
  induction l.items with
  | nil => rfl
  | cons x xs ih =>
    by_cases hx : x.1 = i
    · have : (x.1 != i) = false := by simp [hx]
      have hxj : (x.1 == j) = false := by simp [hx]; omega
      simp [List.filter_cons, this, List.find?_cons, hxj, ih]
    · have : (x.1 != i) = true := by simp [hx]
      simp only [List.filter_cons, this, if_true, List.find?_cons]
      split <;> simp_all

/-- what `Put` guarantees: the returned index is in range and holds the item; every other live index
keeps its item; `isNew = false` only if the item was already stored under that index. -/
theorem put_spec (l : Lru) (item : Bytes) (hcap : 0 < l.cap) (hlt : ∀ i ∈ l.bucket, i < l.cap) :
    let r := l.put item
    r.1.cap = l.cap ∧ r.2.1 < l.cap ∧ r.1.get r.2.1 = some item ∧ r.2.1 ∈ r.1.bucket ∧
    (∀ j ∈ r.1.bucket, j = r.2.1 ∨ (j ∈ l.bucket ∧ r.1.get j = l.get j)) ∧
    (r.2.2 = false → l.get r.2.1 = some item ∧ r.2.1 ∈ l.bucket) := by
  simp only [Lru.put]
  cases hf : l.bucket.find? (fun i => l.get i == some item) with
  | some i =>
    have hmem := List.mem_of_find?_eq_some hf
    have hp := List.find?_some hf
    simp only [beq_iff_eq] at hp
    refine ⟨rfl, hlt i hmem, ?_, by simp, ?_, fun _ => ⟨hp, hmem⟩⟩
    · simpa [Lru.get] using hp
    · intro j hj
      simp only [List.mem_append, List.mem_filter, List.mem_singleton] at hj
      rcases hj with ⟨hj, _⟩ | hj
      · exact Or.inr ⟨hj, rfl⟩
      · exact Or.inl hj
  | none =>
    by_cases hlen : l.bucket.length < l.cap
    · simp only [hlen, if_true]
      refine ⟨rfl, by first | exact hlen | trivial, get_set_same _ _ _, by simp, ?_, by simp⟩
      intro j hj
      simp only [List.mem_append, List.mem_singleton] at hj
      rcases hj with hj | hj
      · by_cases hji : j = l.bucket.length
        · exact Or.inl hji
        · exact Or.inr ⟨hj, get_set_other _ _ _ _ hji⟩
      · exact Or.inl hj
    · simp only [hlen, if_false]
      cases hb : l.bucket with
      | nil => simp [hb] at hlen; omega
      | cons i rest =>
        have hi : i ∈ l.bucket := by simp [hb]
        refine ⟨rfl, hlt i hi, get_set_same _ _ _, by simp, ?_, by simp⟩
        intro j hj
        simp only [List.mem_append, List.mem_singleton] at hj
        by_cases hji : j = i
        · exact Or.inl hji
        · rcases hj with hj | hj
          · exact Or.inr ⟨by simp [hj], get_set_other _ _ _ _ hji⟩
          · exact absurd hj hji

/-! ### definition bytes determine the definition -/

theorem defBytes_ne_nil (arch : Nat) (m : WMsg) : ∃ h t, defBytes arch m = h :: t := by
  unfold defBytes; exact ⟨_, _, rfl⟩

theorem defOf_eq_of_defBytes_eq (arch i : Nat) (m1 m2 : WMsg) (ha : arch = 0 ∨ arch = 1) (hi : i < 16)
    (h1 : MsgOK m1) (h2 : MsgOK m2) (h : defBytes arch m1 = defBytes arch m2) :
    defOf arch i m1 = defOf arch i m2 := by
  have a := decodeRecord_def (fun _ => false) DecState.fresh arch i m1 [] ha hi h1
  have b := decodeRecord_def (fun _ => false) DecState.fresh arch i m2 [] ha hi h2
  have e : defRecord arch i m1 = defRecord arch i m2 := by simp [defRecord, h]
  rw [e] at a
  rw [a] at b
  injection b with b
  injection b with b _
  injection b


/-! ### simulation invariant between the encoder's LRU and the decoder's definition table -/

theorem lookup_cons (s : DecState) (i j : Nat) (d : MesgDef) :
    ({ s with defs := (i, d) :: s.defs } : DecState).lookup j = if j = i then some d else s.lookup j := by
  simp only [DecState.lookup, List.find?_cons]
  by_cases h : j = i
  · subst h; simp
  · have : ((i, d).1 == j) = false := by simp; omega
    simp [this, h]

structure DefInv (arch : Nat) (l : Lru) (s : DecState) : Prop where
  lt : ∀ i ∈ l.bucket, i < l.cap
  cap16 : l.cap ≤ 16
  capPos : 0 < l.cap
  live : ∀ i ∈ l.bucket, ∃ m, MsgOK m ∧ l.get i = some (defBytes arch m) ∧ s.lookup i = some (defOf arch i m)

theorem DefInv.fresh (arch cap : Nat) (h0 : 0 < cap) (h16 : cap ≤ 16) (s : DecState) :
    DefInv arch (Lru.empty cap) s :=
  ⟨by simp [Lru.empty], h16, h0, by simp [Lru.empty]⟩

/-- the definition table is all the invariant looks at -/
theorem DefInv.congr {arch : Nat} {l : Lru} {s s' : DecState} (h : DefInv arch l s) (hd : s'.defs = s.defs) :
    DefInv arch l s' :=
  ⟨h.lt, h.cap16, h.capPos, fun i hi => by
    obtain ⟨m, a, b, c⟩ := h.live i hi
    exact ⟨m, a, b, by simpa [DecState.lookup, hd] using c⟩⟩

/-- one `Put` of the definition of `m`: the index is a valid local number; if the definition is new the
decoder learns it from the definition record, otherwise it already holds it. -/
theorem put_step (arch : Nat) (ha : arch = 0 ∨ arch = 1) (l : Lru) (s : DecState) (m : WMsg) (hm : MsgOK m)
    (inv : DefInv arch l s) :
    let r := l.put (defBytes arch m)
    r.2.1 < 16 ∧ r.2.1 < l.cap ∧ r.1.cap = l.cap ∧
    (r.2.2 = true → DefInv arch r.1 { s with defs := (r.2.1, defOf arch r.2.1 m) :: s.defs }) ∧
    (r.2.2 = false → DefInv arch r.1 s ∧ s.lookup r.2.1 = some (defOf arch r.2.1 m)) := by
  obtain ⟨hc, hi, hget, hin, hothers, hold⟩ := put_spec l (defBytes arch m) inv.capPos inv.lt
  generalize hput : l.put (defBytes arch m) = p at *
  obtain ⟨l', i, isNew⟩ := p
  simp only at hc hi hget hin hothers hold ⊢
  have hi16 : i < 16 := by have := inv.cap16; omega
  refine ⟨hi16, hi, hc, ?_, ?_⟩
  · intro _
    refine ⟨?_, by rw [hc]; exact inv.cap16, by rw [hc]; exact inv.capPos, ?_⟩
    · intro j hj; rw [hc]
      rcases hothers j hj with h | ⟨h, _⟩
      · rw [h]; exact hi
      · exact inv.lt j h
    · intro j hj
      by_cases hji : j = i
      · subst hji; exact ⟨m, hm, hget, by simp [lookup_cons]⟩
      · rcases hothers j hj with h | ⟨h, hgj⟩
        · exact absurd h hji
        · obtain ⟨m', a, b, c⟩ := inv.live j h
          exact ⟨m', a, by rw [hgj]; exact b, by simp [lookup_cons, hji, c]⟩
  · intro hnew
    obtain ⟨hg, hmem⟩ := hold hnew
    obtain ⟨m', hm', hd1, hd2⟩ := inv.live i hmem
    have hb : defBytes arch m' = defBytes arch m := by rw [hg] at hd1; exact (Option.some.inj hd1).symm
    have hde : defOf arch i m' = defOf arch i m := defOf_eq_of_defBytes_eq arch i m' m ha hi16 hm' hm hb
    refine ⟨⟨?_, by rw [hc]; exact inv.cap16, by rw [hc]; exact inv.capPos, ?_⟩, by rw [← hde]; exact hd2⟩
    · intro j hj; rw [hc]
      rcases hothers j hj with h | ⟨h, _⟩
      · rw [h]; exact hi
      · exact inv.lt j h
    · intro j hj
      rcases hothers j hj with h | ⟨h, hgj⟩
      · subst h; exact ⟨m, hm, hget, by rw [← hde]; exact hd2⟩
      · obtain ⟨m'', a, b, c⟩ := inv.live j h
        exact ⟨m'', a, by rw [hgj]; exact b, c⟩


/-! ### timestamps -/

theorem tsFromField_u32 (known : Bool) (arch : Nat) (ha : arch = 0 ∨ arch = 1) (bt a b c d : Nat)
    (hbt : known = true ∨ bt = 0x86 ∨ bt = 0x8C) :
    tsFromField known arch ⟨253, 4, bt⟩ [a, b, c, d] = u32Of arch [a, b, c, d] := by
  rcases ha with rfl | rfl
  · rcases hbt with h | h | h
    · subst h; simp [tsFromField, u32Of, asmLE]; omega
    · subst h; cases known <;> simp [tsFromField, u32Of, asmLE] <;> omega
    · subst h; cases known <;> simp [tsFromField, u32Of, asmLE] <;> omega
  · rcases hbt with h | h | h
    · subst h; simp [tsFromField, u32Of, asmBE]; omega
    · subst h; cases known <;> simp [tsFromField, u32Of, asmBE] <;> omega
    · subst h; cases known <;> simp [tsFromField, u32Of, asmBE] <;> omega

def noTs (fs : List WField) : Prop := ∀ f ∈ fs, f.num ≠ 253

theorem find_noTs (fs : List WField) (h : noTs fs) : fs.find? (·.num == tsFieldNum) = none := by
  rw [List.find?_eq_none]; intro f hf; simpa [tsFieldNum] using h f hf

theorem tsOf_noTs (arch : Nat) (m : WMsg) (h : noTs m.fields) : tsOf arch m = u32Invalid := by
  simp [tsOf, find_noTs _ h]

theorem find_ts (pre post : List WField) (f : WField) (h : noTs pre) (hf : f.num = 253) :
    (pre ++ f :: post).find? (·.num == tsFieldNum) = some f := by
  induction pre with
  | nil => simp [tsFieldNum, hf]
  | cons g gs ih =>
    have hg : (g.num == tsFieldNum) = false := by simpa [tsFieldNum] using h g (by simp)
    simp only [List.cons_append, List.find?_cons, hg]
    exact ih (fun x hx => h x (by simp [hx]))

theorem tsOf_ts (arch : Nat) (m : WMsg) (pre post : List WField) (f : WField) (v : Nat)
    (hm : m.fields = pre ++ f :: post) (h : noTs pre) (hf : f.num = 253) (ht : f.tag = 7)
    (hv : u32Of arch f.data = some v) : tsOf arch m = v := by
  simp [tsOf, hm, find_ts pre post f h hf, ht, tagUint32, hv]

theorem removeFirst_ts (pre post : List WField) (f : WField) (h : noTs pre) (hf : f.num = 253) :
    removeFirst tsFieldNum (pre ++ f :: post) = pre ++ post := by
  induction pre with
  | nil => simp [removeFirst, tsFieldNum, hf]
  | cons g gs ih =>
    have hg : (g.num == tsFieldNum) = false := by simpa [tsFieldNum] using h g (by simp)
    simp only [List.cons_append, removeFirst, hg, Bool.false_eq_true, if_false]
    rw [ih (fun x hx => h x (by simp [hx]))]

theorem noTs_append {a b : List WField} (ha : noTs a) (hb : noTs b) : noTs (a ++ b) := by
  intro f hf; rcases List.mem_append.mp hf with h | h
  · exact ha f h
  · exact hb f h

theorem trackTs_fields_noTs (known : Bool) (arch : Nat) (fs : List WField) (h : noTs fs) (st : DecState) :
    trackTs known arch st (fs.map fun f => (⟨f.num, f.data.length % 256, f.bt⟩, f.data)) = st := by
  induction fs generalizing st with
  | nil => rfl
  | cons g gs ih =>
    have hg : (g.num == tsFieldNum) = false := by simpa [tsFieldNum] using h g (by simp)
    simp only [trackTs, List.map_cons, List.foldl_cons, hg, Bool.false_eq_true, if_false]
    exact ih (fun x hx => h x (by simp [hx])) st

theorem trackTs_append (known : Bool) (arch : Nat) (st : DecState) (a b : List (FieldDef × Bytes)) :
    trackTs known arch st (a ++ b) = trackTs known arch (trackTs known arch st a) b := by
  simp [trackTs, List.foldl_append]

theorem u32Of_some_length (arch : Nat) (bs : Bytes) (v : Nat) (h : u32Of arch bs = some v) :
    ∃ a b c d, bs = [a, b, c, d] := by
  match bs, h with
  | [a, b, c, d], _ => exact ⟨a, b, c, d, rfl⟩

/-- a plain uint32 field 253: what it looks like and what every decoder reads from it -/
theorem cleanTs_some (known : Bool) (arch : Nat) (ha : arch = 0 ∨ arch = 1) (f : WField) (v : Nat)
    (hnum : f.num = 253) (hb : ∀ b ∈ f.data, b < 256) (h : cleanTs arch f = some v) :
    f.tag = 7 ∧ u32Of arch f.data = some v ∧ v < 4294967296 ∧
      tsFromField known arch ⟨f.num, f.data.length % 256, f.bt⟩ f.data = some v := by
  unfold cleanTs at h
  split at h
  · rename_i hc
    simp only [Bool.and_eq_true, Bool.or_eq_true, beq_iff_eq, tagUint32] at hc
    obtain ⟨a, b, c, d, hd⟩ := u32Of_some_length arch f.data v h
    have e := tsFromField_u32 known arch ha f.bt a b c d (Or.inr hc.2)
    have hl : f.data.length % 256 = 4 := by rw [hd]; rfl
    refine ⟨hc.1, h, ?_, ?_⟩
    · have ha' := hb a (by rw [hd]; simp); have hb' := hb b (by rw [hd]; simp)
      have hc' := hb c (by rw [hd]; simp); have hd' := hb d (by rw [hd]; simp)
      rw [hd] at h
      rcases ha with rfl | rfl <;> simp [u32Of] at h <;> omega
    · rw [hnum, hl, hd, e, ← hd, h]
  · cases h

/-- what relates the encoder's `lastTimestamp` to the decoder's timestamp state: the encoder either does
not know (0), or holds exactly the decoder's active timestamp (and the decoder's last offset is that
timestamp's) -/
def LastInv (last : Nat) (d : DecState) : Prop :=
  last = 0 ∨ (d.timestamp = last ∧ d.lastOff = last % 32 ∧ last < 4294967296)

/-- FIELDS OF ONE RECORD: the encoder's loop over the fields it writes and the decoder's timestamp tracking
over the same fields keep `LastInv` — whatever the fields 253 are (several, odd types, odd sizes, invalid
values), whether or not the decoder's factory knows the message. -/
theorem track_sim (known : Bool) (arch : Nat) (ha : arch = 0 ∨ arch = 1) (fs : List WField)
    (hb : ∀ f ∈ fs, ∀ b ∈ f.data, b < 256) :
    ∀ (last : Nat) (st : DecState), LastInv last st →
      LastInv (trackLast arch last fs) (trackTs known arch st (fs.map fun f => (⟨f.num, f.data.length % 256, f.bt⟩, f.data))) := by
  induction fs with
  | nil => intro last st h; exact h
  | cons f fs ih =>
    intro last st h
    have ih' := ih (fun g hg => hb g (by simp [hg]))
    simp only [trackLast, trackTs, List.map_cons, List.foldl_cons] at ih' ⊢
    by_cases hn : (f.num == tsFieldNum) = true
    · simp only [hn, if_true]
      have hnum : f.num = 253 := by simpa [tsFieldNum] using hn
      cases hc : cleanTs arch f with
      | none => exact ih' _ _ (Or.inl rfl)
      | some v =>
        obtain ⟨_, _, hv, ht⟩ := cleanTs_some known arch ha f v hnum (hb f (by simp)) hc
        rw [ht]
        exact ih' _ _ (Or.inr ⟨rfl, rfl, hv⟩)
    · have hn' : (f.num == tsFieldNum) = false := by simpa using hn
      simp only [hn', Bool.false_eq_true, if_false]
      exact ih' _ _ h

theorem trackLast_noTs (arch last : Nat) (fs : List WField) (h : noTs fs) : trackLast arch last fs = last := by
  induction fs generalizing last with
  | nil => rfl
  | cons g gs ih =>
    have hg : (g.num == tsFieldNum) = false := by simpa [tsFieldNum] using h g (by simp)
    simp only [trackLast, List.foldl_cons, hg, Bool.false_eq_true, if_false]
    exact ih last (fun x hx => h x (by simp [hx]))

theorem trackLast_append (arch last : Nat) (a b : List WField) :
    trackLast arch last (a ++ b) = trackLast arch (trackLast arch last a) b := by
  simp [trackLast, List.foldl_append]

/-- the encoder's reading of the message timestamp is a value other than the sentinel: the message splits at
its first field 253, which is a plain uint32 of that value -/
theorem encTsOf_split (arch : Nat) (m : WMsg) (h : encTsOf arch m ≠ u32Invalid) :
    ∃ pre f post, m.fields = pre ++ f :: post ∧ noTs pre ∧ f.num = 253 ∧ cleanTs arch f = some (encTsOf arch m) := by
  unfold encTsOf at h ⊢
  cases hf : m.fields.find? (·.num == tsFieldNum) with
  | none => rw [hf] at h; exact absurd rfl h
  | some f =>
    rw [hf] at h
    simp only at h ⊢
    obtain ⟨hp, pre, post, hsplit, hpre⟩ := List.find?_eq_some_iff_append.mp hf
    refine ⟨pre, f, post, hsplit, ?_, by simpa [tsFieldNum] using hp, ?_⟩
    · intro g hg; have := hpre g hg; simpa [tsFieldNum] using this
    · cases hc : cleanTs arch f with
      | none => rw [hc] at h; exact absurd rfl h
      | some v => simp

/-! ### the record loop -/

theorem decodeRecords_cons (tsKnown : Nat → Bool) (fuel : Nat) (s s' : DecState) (it : Item) (rec tail : Bytes)
    (remaining : Nat) (hpos : 0 < rec.length)
    (h : decodeRecordF tsKnown s (rec ++ tail) = .ok (it, s', tail)) :
    decodeRecordsF tsKnown (fuel + 1) s (rec.length + remaining) (rec ++ tail) =
      (it :: (decodeRecordsF tsKnown fuel s' remaining tail).1, (decodeRecordsF tsKnown fuel s' remaining tail).2) := by
  have hne : ¬ (rec.length + remaining = 0) := by omega
  have hused : rec.length + remaining - ((rec ++ tail).length - tail.length) = remaining := by
    simp [List.length_append]
  simp only [decodeRecordsF, hne, if_false, h, hused]

theorem decodeRecords_done (tsKnown : Nat → Bool) (fuel : Nat) (s : DecState) (bs : Bytes) :
    decodeRecordsF tsKnown fuel s 0 bs = ([], .ok bs) := by
  cases fuel <;> simp [decodeRecordsF]

/-- what decoding returns for message `m`: all fields verbatim, or — when the encoder moved the timestamp
into the record header — the reconstructed timestamp equal to the original one and the other fields verbatim -/
def RecMatches (arch : Nat) (m : WMsg) (r : WRec) : Prop :=
  r.num = m.num ∧ r.arch = arch ∧ r.devs = recDevsOf m ∧
  ((r.ts = none ∧ r.fields = recFieldsOf m) ∨
   (r.ts = some (tsOf arch m) ∧ tsOf arch m ≠ u32Invalid ∧
      r.fields = recFieldsOf { m with fields := removeFirst tsFieldNum m.fields }))

theorem MsgOK.removeTs {m : WMsg} (h : MsgOK m) (fs : List WField) (hsub : ∀ f ∈ fs, f ∈ m.fields)
    (hlen : fs.length ≤ m.fields.length) : MsgOK { m with fields := fs } :=
  ⟨h.num, by have := h.nfields; simp only; omega, h.ndevs, fun f hf => h.fields f (hsub f hf), h.devs,
    fun f hf => h.bytes f (hsub f hf)⟩

theorem payload_length_pos (h : Nat) (m : WMsg) : 0 < (h :: payload m).length := by simp

theorem defRecord_length_pos (arch i : Nat) (m : WMsg) : 0 < (defRecord arch i m).length := by
  simp [defRecord, defBytes]

/-- emission of one (already timestamp-processed) message `m'` under header byte `hdrOf i`: the definition
record when new, then the data record; the decoder follows. -/
theorem emit_step (tsKnown : Nat → Bool) (arch : Nat) (ha : arch = 0 ∨ arch = 1) (l : Lru) (d : DecState)
    (m' : WMsg) (hm : MsgOK m') (inv : DefInv arch l d) (hdrOf : Nat → Nat) (tail : Bytes)
    (r : Nat → DecState → WRec) (post : Nat → DecState → DecState)
    (hdata : ∀ i s, i < l.cap → s.lookup i = some (defOf arch i m') →
      decodeRecordF tsKnown s (hdrOf i :: (payload m' ++ tail)) = .ok (.data (r i s), post i s, tail))
    (hpost : ∀ i s, (post i s).defs = s.defs) :
    let p := l.put (defBytes arch m')
    let out := (if p.2.2 then defRecord arch p.2.1 m' else []) ++ (hdrOf p.2.1 :: payload m')
    ∃ d1, d1.defs = (if p.2.2 then (p.2.1, defOf arch p.2.1 m') :: d.defs else d.defs) ∧
      d1.timestamp = d.timestamp ∧ d1.lastOff = d.lastOff ∧
      DefInv arch p.1 (post p.2.1 d1) ∧ p.1.cap = l.cap ∧ p.2.1 < l.cap ∧
      ∃ k pre, (k = 1 ∨ k = 2) ∧ k ≤ out.length ∧ (pre.filterMap (fun | .data x => some x | _ => none)) = [r p.2.1 d1] ∧
        ∀ fuel remaining, decodeRecordsF tsKnown (fuel + k) d (out.length + remaining) (out ++ tail) =
          (pre ++ (decodeRecordsF tsKnown fuel (post p.2.1 d1) remaining tail).1,
           (decodeRecordsF tsKnown fuel (post p.2.1 d1) remaining tail).2) := by
  obtain ⟨hi16, hicap, hc, hnew, hold⟩ := put_step arch ha l d m' hm inv
  generalize l.put (defBytes arch m') = p at *
  obtain ⟨l', i, isNew⟩ := p
  simp only at hi16 hicap hc hnew hold ⊢
  cases isNew with
  | true =>
    have inv1 := hnew rfl
    let d1 : DecState := { d with defs := (i, defOf arch i m') :: d.defs }
    have hl : d1.lookup i = some (defOf arch i m') := by simp [d1, lookup_cons]
    refine ⟨d1, by simp [d1], rfl, rfl, inv1.congr (hpost i d1), hc, hicap, 2,
      [.def_ i (defOf arch i m'), .data (r i d1)], Or.inr rfl,
      by have := defRecord_length_pos arch i m'; simp; omega, by simp, ?_⟩
    intro fuel remaining
    have hdef := decodeRecord_def tsKnown d arch i m' (hdrOf i :: payload m' ++ tail) ha hi16 hm
    have h1 := decodeRecords_cons tsKnown (fuel + 1) d d1 _ (defRecord arch i m') (hdrOf i :: payload m' ++ tail)
      ((hdrOf i :: payload m').length + remaining) (defRecord_length_pos arch i m') hdef
    have h2 := decodeRecords_cons tsKnown fuel d1 (post i d1) _ (hdrOf i :: payload m') tail remaining
      (payload_length_pos _ _) (by simpa using hdata i d1 hicap hl)
    simp only [if_true, List.append_assoc, List.length_append] at h1 h2 ⊢
    rw [show (defRecord arch i m').length + (hdrOf i :: payload m').length + remaining =
          (defRecord arch i m').length + ((hdrOf i :: payload m').length + remaining) by omega]
    have e : defRecord arch i m' ++ (hdrOf i :: payload m' ++ tail) = defRecord arch i m' ++ (hdrOf i :: payload m') ++ tail := by simp
    simp only [List.cons_append] at h1 h2 e ⊢
    rw [h1, h2]
    simp
  | false =>
    obtain ⟨inv1, hl⟩ := hold rfl
    refine ⟨d, by simp, rfl, rfl, inv1.congr (hpost i d), hc, hicap, 1, [.data (r i d)], Or.inl rfl, by simp, by simp, ?_⟩
    intro fuel remaining
    have h2 := decodeRecords_cons tsKnown fuel d (post i d) _ (hdrOf i :: payload m') tail remaining
      (payload_length_pos _ _) (by simpa using hdata i d hicap hl)
    simpa using h2

theorem trackTs_defs (known : Bool) (arch : Nat) (fs : List (FieldDef × Bytes)) (st : DecState) :
    (trackTs known arch st fs).defs = st.defs := by
  induction fs generalizing st with
  | nil => rfl
  | cons x xs ih =>
    simp only [trackTs, List.foldl_cons] at ih ⊢
    rw [ih]
    split
    · split <;> rfl
    · rfl

def dataOf (items : List Item) : List WRec := items.filterMap (fun | .data x => some x | _ => none)

theorem dataOf_append (a b : List Item) : dataOf (a ++ b) = dataOf a ++ dataOf b := by
  simp [dataOf, List.filterMap_append]

/-- the two outcomes of `compressTimestampIntoHeader` -/
theorem compressTs_cases (arch r l : Nat) (m : WMsg) :
    (∃ r', compressTs arch r l m = (r', trackLast arch l m.fields, none)) ∨
    (compressTs arch r l m = (r, trackLast arch l m.fields, some (encTsOf arch m % 32)) ∧
      encTsOf arch m ≠ u32Invalid ∧ dateTimeMin ≤ encTsOf arch m ∧
      (encTsOf arch m + 4294967296 - l) % 4294967296 ≤ 31) := by
  unfold compressTs
  by_cases h1 : (encTsOf arch m == u32Invalid) = true
  · exact Or.inl ⟨r, by simp only [h1, if_true]⟩
  · by_cases h2 : encTsOf arch m < dateTimeMin
    · exact Or.inl ⟨r, by simp only [h1, h2, if_true, if_false, Bool.false_eq_true]⟩
    · by_cases h3 : ((decide ((encTsOf arch m + 4294967296 - r) % 4294967296 > 31) ||
          decide ((encTsOf arch m + 4294967296 - l) % 4294967296 > 31)) = true)
      · exact Or.inl ⟨encTsOf arch m, by simp only [h1, h2, h3, if_true, if_false, Bool.false_eq_true]⟩
      · refine Or.inr ⟨by simp only [h1, h2, h3, if_false, Bool.false_eq_true], by simpa using h1, by omega, ?_⟩
        simp only [Bool.or_eq_true, decide_eq_true_eq, not_or] at h3
        omega

/-- ONE MESSAGE: whatever the encoder writes for `m` (definition when new, compressed header or not), the
decoder — related to the encoder by the invariants — returns a record matching `m` and the invariants hold
again. No hypothesis on the message's timestamp fields. -/
theorem encodeMsg_step (tsKnown : Nat → Bool) (o : Opts) (ha : o.arch = 0 ∨ o.arch = 1)
    (e : EncState) (d : DecState) (m : WMsg) (hm : MsgOK m)
    (hcap : o.compress = true → e.lru.cap ≤ 4)
    (inv : DefInv o.arch e.lru d)
    (hts : o.compress = true → LastInv e.tsLast d)
    (tail : Bytes) :
    ∃ d' rec k pre,
      RecMatches o.arch m rec ∧ DefInv o.arch (encodeMsg o e m).1.lru d' ∧
      (encodeMsg o e m).1.lru.cap = e.lru.cap ∧
      (o.compress = true → LastInv (encodeMsg o e m).1.tsLast d') ∧
      k ≤ (encodeMsg o e m).2.length ∧ dataOf pre = [rec] ∧
      ∀ fuel remaining,
        decodeRecordsF tsKnown (fuel + k) d ((encodeMsg o e m).2.length + remaining) ((encodeMsg o e m).2 ++ tail) =
          (pre ++ (decodeRecordsF tsKnown fuel d' remaining tail).1, (decodeRecordsF tsKnown fuel d' remaining tail).2) := by
  -- the uncompressed emission, shared by several cases
  have plain :
      ∃ d1, d1.timestamp = d.timestamp ∧ d1.lastOff = d.lastOff ∧
        let p := e.lru.put (defBytes o.arch m)
        let out := (if p.2.2 then defRecord o.arch p.2.1 m else []) ++ (p.2.1 :: payload m)
        let d' := trackTs (tsKnown m.num) o.arch d1 (recFieldsOf m)
        DefInv o.arch p.1 d' ∧ p.1.cap = e.lru.cap ∧
        ∃ k pre, k ≤ out.length ∧ dataOf pre = [⟨p.2.1, m.num, o.arch, none, recFieldsOf m, recDevsOf m⟩] ∧
          ∀ fuel remaining, decodeRecordsF tsKnown (fuel + k) d (out.length + remaining) (out ++ tail) =
            (pre ++ (decodeRecordsF tsKnown fuel d' remaining tail).1, (decodeRecordsF tsKnown fuel d' remaining tail).2) := by
    obtain ⟨d1, _, h2, h3, h4, h5, h6, k, pre, _, hk, hpre, hdec⟩ :=
      emit_step tsKnown o.arch ha e.lru d m hm inv (fun i => i) tail
        (fun i _ => ⟨i, m.num, o.arch, none, recFieldsOf m, recDevsOf m⟩)
        (fun _ s => trackTs (tsKnown m.num) o.arch s (recFieldsOf m))
        (fun i s hi hl => decodeRecord_data tsKnown s o.arch i m tail (by have := inv.cap16; omega) hm hl)
        (fun _ s => trackTs_defs _ _ _ s)
    exact ⟨d1, h2, h3, h4, h5, k, pre, hk, hpre, hdec⟩
  by_cases hc : o.compress = true
  · have linv := hts hc
    rcases compressTs_cases o.arch e.tsRef e.tsLast m with ⟨r', hct⟩ | ⟨hct, hne, hmin, hnear⟩
    · -- written with a normal header (no timestamp, unsupported one, below the minimum, or a roll-over)
      obtain ⟨d1, t1, t2, hI, hC, k, pre, hk, hpre, hdec⟩ := plain
      refine ⟨(trackTs (tsKnown m.num) o.arch d1 (recFieldsOf m)), (⟨(e.lru.put (defBytes o.arch m)).2.1, m.num, o.arch, none, recFieldsOf m, recDevsOf m⟩ : WRec), k, pre, ⟨rfl, rfl, rfl, Or.inl ⟨rfl, rfl⟩⟩, ?_, ?_, ?_, (by simpa [encodeMsg, hc, hct] using hk), ?_, ?_⟩
      · simpa [encodeMsg, hc, hct] using hI
      · simpa [encodeMsg, hc, hct] using hC
      · intro _
        have hl1 : LastInv e.tsLast d1 := by
          rcases linv with h | ⟨h1, h2, h3⟩
          · exact Or.inl h
          · exact Or.inr ⟨by rw [t1]; exact h1, by rw [t2]; exact h2, h3⟩
        have := track_sim (tsKnown m.num) o.arch ha m.fields hm.bytes e.tsLast d1 hl1
        simpa [encodeMsg, hc, hct, recFieldsOf] using this
      · simpa [encodeMsg, hc, hct] using hpre
      · simpa [encodeMsg, hc, hct] using hdec
    · -- compressed: the timestamp travels in the record header
      obtain ⟨pre, f, post, hf, hpre, hnum, hclean⟩ := encTsOf_split o.arch m hne
      generalize hv : encTsOf o.arch m = v at *
      have hfb : ∀ b ∈ f.data, b < 256 := hm.bytes f (by rw [hf]; simp)
      obtain ⟨htag, hu32, hv32, _⟩ := cleanTs_some (tsKnown m.num) o.arch ha f v hnum hfb hclean
      have hval : tsOf o.arch m = v := tsOf_ts o.arch m pre post f v hf hpre hnum htag hu32
      have hmin' : 268435456 ≤ v := by simpa [dateTimeMin] using hmin
      have hne' : v ≠ u32Invalid := hne
      -- the encoder knows the decoder's timestamp (0 = "unknown" is never within 32 s of a valid timestamp)
      obtain ⟨hdts, hdoff, hl32⟩ : d.timestamp = e.tsLast ∧ d.lastOff = e.tsLast % 32 ∧ e.tsLast < 4294967296 := by
        rcases linv with h | h
        · rw [h] at hnear; omega
        · exact h
      have hrm : removeFirst tsFieldNum m.fields = pre ++ post := by
        rw [hf]; exact removeFirst_ts pre post f hpre hnum
      let m' : WMsg := { m with fields := removeFirst tsFieldNum m.fields }
      have hm' : MsgOK m' := hm.removeTs _ (by
        intro g hg; rw [hrm] at hg; rw [hf]
        rcases List.mem_append.mp hg with h | h
        · exact List.mem_append_left _ h
        · exact List.mem_append_right _ (List.mem_cons_of_mem _ h)) (by rw [hrm, hf]; simp)
      have hcap4 := hcap hc
      obtain ⟨d1, _, t1, t2, hI, hC, hicap, k, pre', _, hk, hpre', hdec⟩ :=
        emit_step tsKnown o.arch ha e.lru d m' hm' inv (fun i => (0x80 ||| (v % 32)) ||| ((i <<< 5) % 256)) tail
          (fun i s => ⟨(0x80 ||| (v % 32)) ||| ((i <<< 5) % 256), m'.num, o.arch,
              some (decompressHdr s ((0x80 ||| (v % 32)) ||| ((i <<< 5) % 256))).2, recFieldsOf m', recDevsOf m'⟩)
          (fun i s => trackTs (tsKnown m'.num) o.arch (decompressHdr s ((0x80 ||| (v % 32)) ||| ((i <<< 5) % 256))).1 (recFieldsOf m'))
          (fun i s hi hl => decodeRecord_cdata tsKnown s o.arch i (v % 32) m' tail (by omega) (Nat.mod_lt _ (by decide)) hm' hl)
          (fun _ s => by rw [trackTs_defs]; rfl)
      generalize hp : e.lru.put (defBytes o.arch m') = p at *
      obtain ⟨l', i, isNew⟩ := p
      dsimp only at hI hC hicap hpre' hdec hk
      have hi4 : i < 4 := by omega
      obtain ⟨_, _, _, hoff⟩ := compressed_hdr_bits i hi4 (v % 32) (Nat.mod_lt _ (by decide))
      -- the reconstructed timestamp is the original one
      have hrec : (decompressHdr d1 ((0x80 ||| (v % 32)) ||| ((i <<< 5) % 256))).2 = v := by
        simp only [decompressHdr, hoff, t1, t2, hdts, hdoff]
        omega
      have hst : (decompressHdr d1 ((0x80 ||| (v % 32)) ||| ((i <<< 5) % 256))).1 =
          { d1 with timestamp := v, lastOff := v % 32 } := by
        have := hrec
        simp only [decompressHdr, hoff] at this ⊢
        rw [this]
      have hem : encodeMsg o e m = ({ lru := l', tsRef := e.tsRef, tsLast := trackLast o.arch e.tsLast m.fields },
          (if isNew then defRecord o.arch i m' else []) ++ (((0x80 ||| (v % 32)) ||| ((i <<< 5) % 256)) :: payload m')) := by
        simp only [encodeMsg, hc, hct, if_true]
        show _ = _
        simp only [m'] at hp
        rw [hp]
      refine ⟨trackTs (tsKnown m'.num) o.arch (decompressHdr d1 ((0x80 ||| (v % 32)) ||| ((i <<< 5) % 256))).1 (recFieldsOf m'), _, k, pre', ?_, ?_, ?_, ?_, (by rw [hem]; exact hk), hpre', ?_⟩
      · exact ⟨rfl, rfl, rfl, Or.inr ⟨by rw [hrec, hval], by rw [hval]; exact hne', rfl⟩⟩
      · rw [hem]; exact hI
      · rw [hem]; exact hC
      · intro _
        rw [hem, hst]
        -- the remaining fields (further fields 253 included) are tracked by both sides from `v` on
        have hlast : trackLast o.arch e.tsLast m.fields = trackLast o.arch v post := by
          rw [hf, trackLast_append, trackLast_noTs _ _ _ hpre]
          simp [trackLast, hnum, tsFieldNum, hclean]
        have hfs : recFieldsOf m' = (pre.map fun f => ((⟨f.num, f.data.length % 256, f.bt⟩ : FieldDef), f.data)) ++
            (post.map fun f => ((⟨f.num, f.data.length % 256, f.bt⟩ : FieldDef), f.data)) := by
          show (removeFirst tsFieldNum m.fields).map _ = _
          rw [hrm, List.map_append]
        show LastInv (trackLast o.arch e.tsLast m.fields) _
        rw [hlast, hfs, trackTs_append, trackTs_fields_noTs _ _ _ hpre]
        exact track_sim (tsKnown m'.num) o.arch ha post
          (fun g hg => hm.bytes g (by rw [hf]; exact List.mem_append_right _ (List.mem_cons_of_mem _ hg)))
          v _ (Or.inr ⟨rfl, rfl, hv32⟩)
      · rw [hem]; exact hdec
  · -- normal headers only
    have hc' : o.compress = false := by simpa using hc
    obtain ⟨d1, t1, t2, hI, hC, k, pre, hk, hpre, hdec⟩ := plain
    refine ⟨(trackTs (tsKnown m.num) o.arch d1 (recFieldsOf m)), (⟨(e.lru.put (defBytes o.arch m)).2.1, m.num, o.arch, none, recFieldsOf m, recDevsOf m⟩ : WRec), k, pre, ⟨rfl, rfl, rfl, Or.inl ⟨rfl, rfl⟩⟩, ?_, ?_, by intro h; exact absurd h hc, (by simpa [encodeMsg, hc'] using hk), ?_, ?_⟩
    · simpa [encodeMsg, hc'] using hI
    · simpa [encodeMsg, hc'] using hC
    · simpa [encodeMsg, hc'] using hpre
    · simpa [encodeMsg, hc'] using hdec

/-! ### all messages of a sequence -/

/-- element-wise relation between two lists of the same length -/
inductive AllMatch {α β : Type} (R : α → β → Prop) : List α → List β → Prop
  | nil : AllMatch R [] []
  | cons {a b as bs} : R a b → AllMatch R as bs → AllMatch R (a :: as) (b :: bs)

theorem AllMatch.length_eq {α β : Type} {R : α → β → Prop} {as : List α} {bs : List β} (h : AllMatch R as bs) :
    as.length = bs.length := by
  induction h with
  | nil => rfl
  | cons _ _ ih => simp [ih]

theorem encodeMsgs_cons (o : Opts) (e : EncState) (m : WMsg) (ms : List WMsg) :
    encodeMsgs o e (m :: ms) = (encodeMsg o e m).2 ++ encodeMsgs o (encodeMsg o e m).1 ms := by
  simp [encodeMsgs]

theorem encodeMsgs_roundtripF (tsKnown : Nat → Bool) (o : Opts) (ha : o.arch = 0 ∨ o.arch = 1) (ms : List WMsg) :
    ∀ (e : EncState) (d : DecState), (∀ m ∈ ms, MsgOK m) → DefInv o.arch e.lru d →
      (o.compress = true → e.lru.cap ≤ 4) → (o.compress = true → LastInv e.tsLast d) →
      ∀ (tail : Bytes) (fuel : Nat), (encodeMsgs o e ms).length ≤ fuel →
      ∃ items, decodeRecordsF tsKnown fuel d (encodeMsgs o e ms).length (encodeMsgs o e ms ++ tail) = (items, .ok tail) ∧
        AllMatch (RecMatches o.arch) ms (dataOf items) := by
  induction ms with
  | nil =>
    intro e d _ _ _ _ tail fuel _
    exact ⟨[], by simp [encodeMsgs, decodeRecords_done], by simpa [dataOf] using AllMatch.nil⟩
  | cons m ms ih =>
    intro e d hok inv hcap hts tail fuel hfuel
    have hm := hok m (by simp)
    obtain ⟨d', rec, k, pre, hmatch, inv', hcap', hts', hk, hpre, hdec⟩ :=
      encodeMsg_step tsKnown o ha e d m hm hcap inv hts
        (encodeMsgs o (encodeMsg o e m).1 ms ++ tail)
    rw [encodeMsgs_cons] at hfuel ⊢
    simp only [List.length_append] at hfuel
    obtain ⟨items, hrest, hall⟩ := ih (encodeMsg o e m).1 d' (fun x hx => hok x (by simp [hx])) inv'
      (fun hc => by rw [hcap']; exact hcap hc) hts'
      tail (fuel - k) (by omega)
    refine ⟨pre ++ items, ?_, ?_⟩
    · have := hdec (fuel - k) (encodeMsgs o (encodeMsg o e m).1 ms).length
      rw [show fuel - k + k = fuel by omega] at this
      simp only [List.length_append, List.append_assoc]
      rw [this, hrest]
    · rw [dataOf_append, hpre]
      exact AllMatch.cons hmatch hall

/-! ### what the repair leaves unchanged: valid, unique, non-decreasing timestamps -/

/-- `compressTimestampIntoHeader` of the pinned tree (before the repair): reference only -/
def compressTsOld (arch tsRef : Nat) (m : WMsg) : Nat × Option Nat :=
  let ts := tsOf arch m
  if ts == u32Invalid then (tsRef, none)
  else if ts < dateTimeMin then (tsRef, none)
  else if (ts + 4294967296 - tsRef) % 4294967296 > 31 then (ts, none)
  else (tsRef, some (ts % 32))

/-- `encodeMessage` of the pinned tree -/
def encodeMsgOld (o : Opts) (s : Lru × Nat) (m : WMsg) : (Lru × Nat) × Bytes :=
  let (tsRef', off) := if o.compress then compressTsOld o.arch s.2 m else (s.2, none)
  let m' : WMsg := match off with
    | some _ => { m with fields := removeFirst tsFieldNum m.fields }
    | none => m
  let db := defBytes o.arch m'
  let (lru', i, isNew) := s.1.put db
  let hdr := match off with
    | some t => (0x80 ||| t) ||| ((i <<< 5) % 256)
    | none => i
  ((lru', tsRef'), (if isNew then defRecord o.arch i m' else []) ++ (hdr :: payload m'))

def encodeMsgsOld (o : Opts) : Lru × Nat → List WMsg → Bytes
  | _, [] => []
  | s, m :: ms => let (s', out) := encodeMsgOld o s m; out ++ encodeMsgsOld o s' ms

/-- a message has no field 253, or exactly one: a `uint32` value (base type uint32/uint32z) that is a valid date-time -/
def TsOK (arch : Nat) (m : WMsg) : Prop :=
  noTs m.fields ∨ ∃ pre f post v, m.fields = pre ++ f :: post ∧ noTs pre ∧ noTs post ∧ f.num = 253 ∧ f.tag = 7 ∧
    (f.bt = 0x86 ∨ f.bt = 0x8C) ∧ u32Of arch f.data = some v ∧ dateTimeMin ≤ v ∧ v < u32Invalid

/-- timestamps are valid date-times, at most one per message, and never go backwards -/
def TsMono (arch : Nat) : Nat → List WMsg → Prop
  | _, [] => True
  | lo, m :: ms => TsOK arch m ∧ (tsOf arch m ≠ u32Invalid → lo ≤ tsOf arch m) ∧
      TsMono arch (if tsOf arch m = u32Invalid then lo else tsOf arch m) ms

theorem encTsOf_noTs (arch : Nat) (m : WMsg) (h : noTs m.fields) : encTsOf arch m = u32Invalid := by
  simp [encTsOf, find_noTs _ h]

theorem step_conservative (o : Opts) (e : EncState) (lo : Nat) (m : WMsg)
    (hok : TsOK o.arch m) (hlo : tsOf o.arch m ≠ u32Invalid → lo ≤ tsOf o.arch m)
    (hinv : o.compress = true → e.tsLast = lo ∧ e.tsRef ≤ lo ∧ lo - e.tsRef ≤ 31) :
    (encodeMsg o e m).2 = (encodeMsgOld o (e.lru, e.tsRef) m).2 ∧
    (encodeMsg o e m).1.lru = (encodeMsgOld o (e.lru, e.tsRef) m).1.1 ∧
    (encodeMsg o e m).1.tsRef = (encodeMsgOld o (e.lru, e.tsRef) m).1.2 ∧
    (o.compress = true →
      let lo' := if tsOf o.arch m = u32Invalid then lo else tsOf o.arch m
      (encodeMsg o e m).1.tsLast = lo' ∧ (encodeMsg o e m).1.tsRef ≤ lo' ∧ lo' - (encodeMsg o e m).1.tsRef ≤ 31) := by
  by_cases hc : o.compress = true
  · obtain ⟨hl, hr, hn⟩ := hinv hc
    rcases hok with hno | ⟨pre, f, post, v, hf, hpre, hpost, hnum, htag, hbt, hv, hmin, hmax⟩
    · have h1 := tsOf_noTs o.arch m hno
      have h2 := encTsOf_noTs o.arch m hno
      have h3 := trackLast_noTs o.arch lo m.fields hno
      simp [encodeMsg, encodeMsgOld, hc, compressTs, compressTsOld, h1, h2, h3, hl, hr, hn]
    · have hval : tsOf o.arch m = v := tsOf_ts o.arch m pre post f v hf hpre hnum htag hv
      have hclean : cleanTs o.arch f = some v := by
        rcases hbt with h | h <;> simp [cleanTs, htag, tagUint32, h, hv]
      have henc : encTsOf o.arch m = v := by
        simp [encTsOf, hf, find_ts pre post f hpre hnum, hclean]
      have hlast : trackLast o.arch e.tsLast m.fields = v := by
        rw [hf, trackLast_append, trackLast_noTs _ _ _ hpre]
        have : trackLast o.arch e.tsLast (f :: post) = trackLast o.arch v post := by
          simp [trackLast, hnum, tsFieldNum, hclean]
        rw [this, trackLast_noTs _ _ _ hpost]
      have hne : (v == u32Invalid) = false := by simp [u32Invalid] at hmax ⊢; omega
      have hne' : v ≠ u32Invalid := by simp [u32Invalid] at hmax ⊢; omega
      have hge : ¬ v < dateTimeMin := by omega
      have hlov : lo ≤ v := by have := hlo (by rw [hval]; exact hne'); rwa [hval] at this
      have hv32 : v < 4294967296 := by simp [u32Invalid] at hmax; omega
      have hs1 : (v + 4294967296 - e.tsRef) % 4294967296 = v - e.tsRef := by omega
      have hs2 : (v + 4294967296 - e.tsLast) % 4294967296 = v - lo := by rw [hl]; omega
      by_cases hroll : v - e.tsRef > 31
      · have hct : compressTs o.arch e.tsRef e.tsLast m = (v, v, none) := by
          simp [compressTs, henc, hlast, hne, hge, hs1, hs2, hroll]
        have hco : compressTsOld o.arch e.tsRef m = (v, none) := by
          simp [compressTsOld, hval, hne, hge, hs1, hroll]
        simp [encodeMsg, encodeMsgOld, hc, hct, hco, hval, hne']
      · have hnear : ¬ v - lo > 31 := by omega
        have hct : compressTs o.arch e.tsRef e.tsLast m = (e.tsRef, v, some (v % 32)) := by
          simp [compressTs, henc, hlast, hne, hge, hs1, hs2, hroll, hnear]
        have hco : compressTsOld o.arch e.tsRef m = (e.tsRef, some (v % 32)) := by
          simp [compressTsOld, hval, hne, hge, hs1, hroll]
        simp [encodeMsg, encodeMsgOld, hc, hct, hco, hval, hne']
        omega
  · have hc' : o.compress = false := by simpa using hc
    simp [encodeMsg, encodeMsgOld, hc']

theorem TsMono.cons_none {arch lo : Nat} {m : WMsg} {ms : List WMsg} (h : noTs m.fields) (hr : TsMono arch lo ms) :
    TsMono arch lo (m :: ms) := by
  have := tsOf_noTs arch m h
  exact ⟨Or.inl h, fun hne => absurd this hne, by simpa [this] using hr⟩

theorem TsMono.cons_ts {arch lo : Nat} {m : WMsg} {ms : List WMsg} (pre post : List WField) (f : WField) (v : Nat)
    (hm : m.fields = pre ++ f :: post) (h1 : noTs pre) (h2 : noTs post) (hnum : f.num = 253) (htag : f.tag = 7)
    (hbt : f.bt = 0x86 ∨ f.bt = 0x8C) (hv : u32Of arch f.data = some v) (hmin : dateTimeMin ≤ v) (hmax : v < u32Invalid)
    (hlo : lo ≤ v) (hr : TsMono arch v ms) : TsMono arch lo (m :: ms) := by
  have hval := tsOf_ts arch m pre post f v hm h1 hnum htag hv
  have hne : v ≠ u32Invalid := Nat.ne_of_lt hmax
  exact ⟨Or.inr ⟨pre, f, post, v, hm, h1, h2, hnum, htag, hbt, hv, hmin, hmax⟩, fun _ => by rw [hval]; exact hlo,
    by rw [hval]; simpa [hne] using hr⟩

/-! ### from the skeleton to the decoder: field descriptions -/

theorem takeDevs_split : ∀ (fds : List Wire.DevDef) (bs : List Nat) (fs : List (Wire.DevDef × List Nat)) (rest : List Nat),
    Wire.takeDevsF fds bs = .ok (fs, rest) →
    fs.map (·.1) = fds ∧ bs = fs.flatMap (·.2) ++ rest ∧ ∀ p ∈ fs, p.2.length = p.1.size := by
  intro fds
  induction fds with
  | nil =>
    intro bs fs rest h
    simp only [Wire.takeDevsF, Except.ok.injEq, Prod.mk.injEq] at h
    obtain ⟨rfl, rfl⟩ := h
    exact ⟨rfl, rfl, fun p hp => by cases hp⟩
  | cons fd fds ih =>
    intro bs fs rest h
    simp only [Wire.takeDevsF] at h
    split at h
    · cases h
    · rename_i hlen
      cases hp : Wire.takeDevsF fds (bs.drop fd.size) with
      | error e => rw [hp] at h; cases h
      | ok pr =>
        obtain ⟨fs', rest'⟩ := pr
        rw [hp] at h
        simp only [Except.ok.injEq, Prod.mk.injEq] at h
        obtain ⟨rfl, rfl⟩ := h
        obtain ⟨h1, h2, h3⟩ := ih _ _ _ hp
        refine ⟨by simp [h1], ?_, ?_⟩
        · simp only [List.flatMap_cons, List.append_assoc, ← h2, List.take_append_drop]
        · intro p hp'
          rcases List.mem_cons.mp hp' with rfl | hp'
          · simp; omega
          · exact h3 p hp'

/-- what a successful `Wire.decodeRecordF` means: a definition record … or a data record under a live definition -/
theorem wire_record_cases (tsKnown : Nat → Bool) (ds : Wire.DecState) (bs : List Nat) (it : Wire.Item) (ds' : Wire.DecState)
    (rest : List Nat) (h : Wire.decodeRecordF tsKnown ds bs = .ok (it, ds', rest)) :
    (∃ hd res arch m0 m1 n bs1 fds bs2 dds,
        bs = hd :: res :: arch :: m0 :: m1 :: n :: bs1 ∧ (hd &&& 0xC0 == 0x40) = true ∧
        Wire.parseFieldDefs n bs1 = .ok (fds, bs2) ∧ (∀ f ∈ fds, Wire.validBaseType f.bt = true) ∧
        (if (hd &&& 0x20 == 0x20) = true then ∃ k bs3, bs2 = k :: bs3 ∧ Wire.parseDevDefs k bs3 = .ok (dds, rest)
          else dds = [] ∧ bs2 = rest) ∧
        it = .def_ (hd &&& 0xF) ⟨hd, arch, if arch = 0 then m0 + 256 * m1 else m1 + 256 * m0, fds, dds⟩ ∧
        ds' = { ds with defs := (hd &&& 0xF, ⟨hd, arch, if arch = 0 then m0 + 256 * m1 else m1 + 256 * m0, fds, dds⟩) :: ds.defs }) ∨
    (∃ hd bs0 wd fs bs1 dvs,
        bs = hd :: bs0 ∧ (hd &&& 0xC0 == 0x40) = false ∧
        ds.lookup ((if (hd &&& 0x80 == 0x80) = true then (hd &&& 0x60) >>> 5 else hd) &&& 0xF) = some wd ∧
        Wire.takeFields wd.fields bs0 = .ok (fs, bs1) ∧ Wire.takeDevsF wd.devs bs1 = .ok (dvs, rest) ∧
        it = .data ⟨hd, wd.mesgNum, wd.arch, if (hd &&& 0x80 == 0x80) = true then some (Wire.decompressHdr ds hd).2 else none, fs, dvs⟩ ∧
        ds' = Wire.trackTs (tsKnown wd.mesgNum) wd.arch
          (if (hd &&& 0x80 == 0x80) = true then (Wire.decompressHdr ds hd).1 else ds) fs) := by
  cases bs with
  | nil => simp [Wire.decodeRecordF] at h
  | cons hd bs0 =>
    simp only [Wire.decodeRecordF] at h
    by_cases hdef : (hd &&& 0xC0 == 0x40) = true
    · left
      simp only [hdef, ↓reduceIte] at h
      match bs0, h with
      | res :: arch :: m0 :: m1 :: n :: bs1, h =>
        simp only at h
        cases hp : Wire.parseFieldDefs n bs1 with
        | error e => rw [hp] at h; cases h
        | ok pr =>
          obtain ⟨fds, bs2⟩ := pr
          rw [hp] at h
          simp only at h
          by_cases hinv : (fds.any fun f => !Wire.validBaseType f.bt) = true
          · simp [hinv] at h
          · simp only [hinv, Bool.false_eq_true, ↓reduceIte] at h
            have hval : ∀ f ∈ fds, Wire.validBaseType f.bt = true := by
              intro f hf
              cases hv : Wire.validBaseType f.bt
              · exact absurd (List.any_eq_true.mpr ⟨f, hf, by simp [hv]⟩) hinv
              · rfl
            by_cases hdv : (hd &&& 0x20 == 0x20) = true
            · simp only [hdv, ↓reduceIte] at h
              match bs2, h with
              | k :: bs3, h =>
                simp only at h
                cases hq : Wire.parseDevDefs k bs3 with
                | error e => rw [hq] at h; cases h
                | ok pr2 =>
                  obtain ⟨dds, bs4⟩ := pr2
                  rw [hq] at h
                  simp only [Except.ok.injEq, Prod.mk.injEq] at h
                  obtain ⟨rfl, rfl, rfl⟩ := h
                  exact ⟨hd, res, arch, m0, m1, n, bs1, fds, k :: bs3, dds, rfl, hdef, hp, hval,
                    by simp only [hdv, ↓reduceIte]; exact ⟨k, bs3, rfl, hq⟩, rfl, rfl⟩
              | [], h => simp at h
            · simp only [hdv, Bool.false_eq_true, ↓reduceIte, Except.ok.injEq, Prod.mk.injEq] at h
              obtain ⟨rfl, rfl, rfl⟩ := h
              exact ⟨hd, res, arch, m0, m1, n, bs1, fds, bs2, [], rfl, hdef, hp, hval,
                by simp [hdv], rfl, rfl⟩
      | [], h => simp at h
      | [_], h => simp at h
      | [_, _], h => simp at h
      | [_, _, _], h => simp at h
      | [_, _, _, _], h => simp at h
    · right
      have hdef' : (hd &&& 0xC0 == 0x40) = false := by simpa using hdef
      simp only [hdef', Bool.false_eq_true, ↓reduceIte] at h
      cases hl : ds.lookup ((if (hd &&& 0x80 == 0x80) = true then (hd &&& 0x60) >>> 5 else hd) &&& 0xF) with
      | none => rw [hl] at h; cases h
      | some wd =>
        rw [hl] at h
        simp only at h
        by_cases hc : (hd &&& 0x80 == 0x80) = true
        · simp only [hc, ↓reduceIte] at h hl ⊢
          cases ht : Wire.takeFields wd.fields bs0 with
          | error e => rw [ht] at h; cases h
          | ok pr =>
            obtain ⟨fs, bs1⟩ := pr
            rw [ht] at h
            simp only at h
            cases htd : Wire.takeDevsF wd.devs bs1 with
            | error e => rw [htd] at h; cases h
            | ok pr2 =>
              obtain ⟨dvs, bs2⟩ := pr2
              rw [htd] at h
              simp only [Except.ok.injEq, Prod.mk.injEq] at h
              obtain ⟨rfl, rfl, rfl⟩ := h
              exact ⟨hd, bs0, wd, fs, bs1, dvs, rfl, hdef', by simpa [hc] using hl, ht, htd, by simp [hc], by simp [hc]⟩
        · have hc' : (hd &&& 0x80 == 0x80) = false := by simpa using hc
          simp only [hc', Bool.false_eq_true, ↓reduceIte] at h hl ⊢
          cases ht : Wire.takeFields wd.fields bs0 with
          | error e => rw [ht] at h; cases h
          | ok pr =>
            obtain ⟨fs, bs1⟩ := pr
            rw [ht] at h
            simp only at h
            cases htd : Wire.takeDevsF wd.devs bs1 with
            | error e => rw [htd] at h; cases h
            | ok pr2 =>
              obtain ⟨dvs, bs2⟩ := pr2
              rw [htd] at h
              simp only [Except.ok.injEq, Prod.mk.injEq] at h
              obtain ⟨rfl, rfl, rfl⟩ := h
              exact ⟨hd, bs0, wd, fs, bs1, dvs, rfl, hdef', by simpa [hc'] using hl, ht, htd, by simp [hc'], by simp [hc']⟩


theorem trackTs_descs (known : Bool) (arch : Nat) (fs : List (FieldDef × Bytes)) (st : DecState) :
    (trackTs known arch st fs).descs = st.descs := by
  induction fs generalizing st with
  | nil => rfl
  | cons x xs ih =>
    simp only [trackTs, List.foldl_cons] at ih ⊢
    rw [ih]
    split
    · split <;> rfl
    · rfl

/-- no developer field definition refers to a field description with an invalid base type: the decoder takes the bytes
as the skeleton does -/
theorem takeDevs_eq_F (descs : List Desc) : ∀ (fds : List DevDef) (bs : Bytes),
    (∀ fd ∈ fds, descInvalid descs fd = false) → takeDevs descs fds bs = takeDevsF fds bs := by
  intro fds
  induction fds with
  | nil => intro bs _; rfl
  | cons fd fds ih =>
    intro bs h
    simp only [takeDevs, takeDevsF, h fd (by simp), Bool.false_eq_true, if_false]
    rw [ih _ (fun x hx => h x (by simp [hx]))]
    rfl

/-- … and one that does ends the decoding with `invalidBaseType` or, when the bytes of an earlier developer field are
missing, with `eof`; never successfully -/
theorem takeDevs_ok (descs : List Desc) : ∀ (fds : List DevDef) (bs : Bytes) (r : List (DevDef × Bytes) × Bytes),
    takeDevs descs fds bs = .ok r → ∀ fd ∈ fds, descInvalid descs fd = false := by
  intro fds
  induction fds with
  | nil => intro _ _ _ fd hfd; cases hfd
  | cons fd fds ih =>
    intro bs r h x hx
    simp only [takeDevs] at h
    cases hi : descInvalid descs fd with
    | true => simp [hi] at h
    | false =>
      simp only [hi, Bool.false_eq_true, if_false] at h
      rcases List.mem_cons.mp hx with rfl | hx
      · exact hi
      · split at h
        · cases h
        · cases hp : takeDevs descs fds (bs.drop fd.size) with
          | error e => rw [hp] at h; cases h
          | ok pr => exact ih _ _ hp x hx

/-- the field descriptions after an item, and whether its developer fields pass the base-type check under them -/
def descsAfter (descs : List Desc) : Item → List Desc
  | .data r => noteDesc descs r.num r.fields
  | .def_ _ _ => descs

def itemDescOK (descs : List Desc) : Item → Bool
  | .data r => r.devs.all fun p => !descInvalid (noteDesc descs r.num r.fields) p.1
  | .def_ _ _ => true

theorem decodeRecordF_descs (tsKnown : Nat → Bool) (s : DecState) (bs : Bytes) (it : Item) (s' : DecState) (rest : Bytes)
    (h : decodeRecordF tsKnown s bs = .ok (it, s', rest)) : s'.descs = s.descs := by
  rcases wire_record_cases tsKnown s bs it s' rest h with
    ⟨hd, res, arch, m0, m1, n, bs1, fds, bs2, dds, _, _, _, _, _, _, rfl⟩ | ⟨hd, bs0, wd, fs, bs1, dvs, _, _, _, _, _, _, rfl⟩
  · rfl
  · rw [trackTs_descs]; split <;> rfl

/-- ONE RECORD, skeleton ⇒ decoder: where the skeleton parses a record whose developer fields refer to no field
description with an invalid base type, the decoder returns the same item and rest, and the same state with the record's
field description (if it is one) appended -/
theorem decodeRecord_of_F (tsKnown : Nat → Bool) (s : DecState) (bs : Bytes) (it : Item) (s' : DecState) (rest : Bytes)
    (h : decodeRecordF tsKnown s bs = .ok (it, s', rest)) (hok : itemDescOK s.descs it = true) :
    decodeRecord tsKnown s bs = .ok (it, { s' with descs := descsAfter s.descs it }, rest) := by
  rcases wire_record_cases tsKnown s bs it s' rest h with
    ⟨hd, res, arch, m0, m1, n, bs1, fds, bs2, dds, rfl, hdef, hp, hval, hdv, rfl, rfl⟩ |
    ⟨hd, bs0, wd, fs, bs1, dvs, rfl, hdef, hl, ht, htd, rfl, rfl⟩
  · have hany : (fds.any fun f => !validBaseType f.bt) = false := by
      rw [List.any_eq_false]; intro f hf; simp [hval f hf]
    simp only [decodeRecord, hdef, if_true, hp, hany, Bool.false_eq_true, if_false]
    by_cases h20 : (hd &&& 0x20 == 0x20) = true
    · simp only [h20, if_true] at hdv ⊢
      obtain ⟨k, bs3, rfl, hq⟩ := hdv
      simp only [hq, descsAfter]
    · have h20' : (hd &&& 0x20 == 0x20) = false := by simpa using h20
      simp only [h20', Bool.false_eq_true, if_false] at hdv ⊢
      obtain ⟨rfl, rfl⟩ := hdv
      simp only [descsAfter]
  · obtain ⟨g1, _, _⟩ := takeDevs_split _ _ _ _ htd
    have hdescs : ∀ s1 : DecState, s1.descs = s.descs →
        (trackTs (tsKnown wd.mesgNum) wd.arch s1 fs).descs = s.descs := by
      intro s1 h1; rw [trackTs_descs, h1]
    have hall : ∀ fd ∈ wd.devs, descInvalid (noteDesc s.descs wd.mesgNum fs) fd = false := by
      intro fd hfd
      rw [← g1] at hfd
      obtain ⟨p, hp, rfl⟩ := List.mem_map.mp hfd
      simp only [itemDescOK, List.all_eq_true, Bool.not_eq_true'] at hok
      exact hok p hp
    simp only [decodeRecord, hdef, Bool.false_eq_true, if_false, hl]
    by_cases hc : (hd &&& 0x80 == 0x80) = true
    · simp only [hc, if_true, ht] at hl ⊢
      rw [hdescs _ (by simp [decompressHdr]), takeDevs_eq_F _ _ _ hall, htd]
      simp only [descsAfter]
    · have hc' : (hd &&& 0x80 == 0x80) = false := by simpa using hc
      simp only [hc', Bool.false_eq_true, if_false, ht] at hl ⊢
      rw [hdescs _ rfl, takeDevs_eq_F _ _ _ hall, htd]
      simp only [descsAfter]

def trackStep (known : Bool) (arch : Nat) (st : DecState) (x : FieldDef × Bytes) : DecState :=
  if x.1.num == tsFieldNum then
    match tsFromField known arch x.1 x.2 with
    | some t => { st with timestamp := t, lastOff := t % 32 }
    | none => st
  else st

theorem trackTs_foldl (known : Bool) (arch : Nat) (st : DecState) (fs : List (FieldDef × Bytes)) :
    trackTs known arch st fs = fs.foldl (trackStep known arch) st := rfl

theorem trackStep_setDescs (known : Bool) (arch : Nat) (ds : List Desc) (st : DecState) (x : FieldDef × Bytes) :
    trackStep known arch { st with descs := ds } x = { trackStep known arch st x with descs := ds } := by
  unfold trackStep
  split
  · split <;> rfl
  · rfl

theorem trackTs_setDescs (known : Bool) (arch : Nat) (ds : List Desc) (fs : List (FieldDef × Bytes)) (st : DecState) :
    trackTs known arch { st with descs := ds } fs = { trackTs known arch st fs with descs := ds } := by
  rw [trackTs_foldl, trackTs_foldl]
  induction fs generalizing st with
  | nil => rfl
  | cons x xs ih =>
    simp only [List.foldl_cons]
    rw [trackStep_setDescs]
    exact ih _

/-- the skeleton does not look at the description table -/
theorem decodeRecordF_setDescs (tsKnown : Nat → Bool) (s : DecState) (ds : List Desc) (bs : Bytes) (it : Item) (s' : DecState)
    (rest : Bytes) (h : decodeRecordF tsKnown s bs = .ok (it, s', rest)) :
    decodeRecordF tsKnown { s with descs := ds } bs = .ok (it, { s' with descs := ds }, rest) := by
  rcases wire_record_cases tsKnown s bs it s' rest h with
    ⟨hd, res, arch, m0, m1, n, bs1, fds, bs2, dds, rfl, hdef, hp, hval, hdv, rfl, rfl⟩ |
    ⟨hd, bs0, wd, fs, bs1, dvs, rfl, hdef, hl, ht, htd, rfl, rfl⟩
  · have hany : (fds.any fun f => !validBaseType f.bt) = false := by
      rw [List.any_eq_false]; intro f hf; simp [hval f hf]
    simp only [decodeRecordF, hdef, if_true, hp, hany, Bool.false_eq_true, if_false]
    by_cases h20 : (hd &&& 0x20 == 0x20) = true
    · simp only [h20, if_true] at hdv ⊢
      obtain ⟨k, bs3, rfl, hq⟩ := hdv
      simp only [hq]
    · have h20' : (hd &&& 0x20 == 0x20) = false := by simpa using h20
      simp only [h20', Bool.false_eq_true, if_false] at hdv ⊢
      obtain ⟨rfl, rfl⟩ := hdv
      rfl
  · have hl' : ({ s with descs := ds } : DecState).lookup ((if (hd &&& 0x80 == 0x80) = true then (hd &&& 0x60) >>> 5 else hd) &&& 0xF) = some wd := hl
    simp only [decodeRecordF, hdef, Bool.false_eq_true, if_false, hl']
    by_cases hc : (hd &&& 0x80 == 0x80) = true
    · simp only [hc, if_true, ht, htd] at hl ⊢
      have : (decompressHdr { s with descs := ds } hd).1 = { (decompressHdr s hd).1 with descs := ds } := rfl
      rw [this, trackTs_setDescs]
      rfl
    · have hc' : (hd &&& 0x80 == 0x80) = false := by simpa using hc
      simp only [hc', Bool.false_eq_true, if_false, ht, htd] at hl ⊢
      rw [trackTs_setDescs]

theorem decodeRecordsF_setDescs (tsKnown : Nat → Bool) (ds : List Desc) : ∀ (fuel : Nat) (s : DecState) (n : Nat) (bs : Bytes)
    (items : List Item) (rest : Bytes), decodeRecordsF tsKnown fuel s n bs = (items, .ok rest) →
    decodeRecordsF tsKnown fuel { s with descs := ds } n bs = (items, .ok rest) := by
  intro fuel
  induction fuel with
  | zero => intro s n bs items rest h; exact h
  | succ fuel ih =>
    intro s n bs items rest h
    simp only [decodeRecordsF] at h ⊢
    by_cases hn : n = 0
    · simpa [hn] using h
    · simp only [hn, if_false] at h ⊢
      cases hd : decodeRecordF tsKnown s bs with
      | error e => rw [hd] at h; simp at h
      | ok p =>
        obtain ⟨it, s', rest1⟩ := p
        rw [hd] at h
        rw [decodeRecordF_setDescs tsKnown s ds bs it s' rest1 hd]
        simp only at h ⊢
        rcases hr : decodeRecordsF tsKnown fuel s' (n - (bs.length - rest1.length)) rest1 with ⟨its, r⟩
        rw [hr] at h
        simp only [Prod.mk.injEq] at h
        obtain ⟨rfl, rfl⟩ := h
        rw [ih s' _ rest1 its rest hr]

def itemsDescOK : List Desc → List Item → Bool
  | _, [] => true
  | descs, it :: its => itemDescOK descs it && itemsDescOK (descsAfter descs it) its

/-- THE RECORD LOOP, skeleton ⇒ decoder -/
theorem decodeRecords_of_F (tsKnown : Nat → Bool) : ∀ (fuel : Nat) (s : DecState) (n : Nat) (bs : Bytes)
    (items : List Item) (rest : Bytes), decodeRecordsF tsKnown fuel s n bs = (items, .ok rest) →
    itemsDescOK s.descs items = true → decodeRecords tsKnown fuel s n bs = (items, .ok rest) := by
  intro fuel
  induction fuel with
  | zero => intro s n bs items rest h _; exact h
  | succ fuel ih =>
    intro s n bs items rest h hok
    simp only [decodeRecordsF] at h
    simp only [decodeRecords]
    by_cases hn : n = 0
    · simpa [hn] using h
    · simp only [hn, if_false] at h ⊢
      cases hd : decodeRecordF tsKnown s bs with
      | error e => rw [hd] at h; simp at h
      | ok p =>
        obtain ⟨it, s', rest1⟩ := p
        rw [hd] at h
        simp only at h
        rcases hr : decodeRecordsF tsKnown fuel s' (n - (bs.length - rest1.length)) rest1 with ⟨its, r⟩
        rw [hr] at h
        simp only [Prod.mk.injEq] at h
        obtain ⟨rfl, rfl⟩ := h
        simp only [itemsDescOK, Bool.and_eq_true] at hok
        rw [decodeRecord_of_F tsKnown s bs it s' rest1 hd hok.1]
        simp only
        rw [ih { s' with descs := descsAfter s.descs it } _ rest1 its rest
          (decodeRecordsF_setDescs tsKnown _ fuel s' _ rest1 its rest hr) hok.2]

/-! #### the written messages decide it -/

theorem wireFields_eq (m : WMsg) : wireFields m = recFieldsOf m := rfl

theorem filter_readFields_removeFirst (k : Nat) (hk : k ≠ tsFieldNum) : ∀ (fs : List WField),
    (readFields ((removeFirst tsFieldNum fs).map fun f => ((⟨f.num, f.data.length % 256, f.bt⟩ : FieldDef), f.data))).filter (fun p => p.1 = k) =
    (readFields (fs.map fun f => ((⟨f.num, f.data.length % 256, f.bt⟩ : FieldDef), f.data))).filter (fun p => p.1 = k) := by
  intro fs
  induction fs with
  | nil => rfl
  | cons f fs ih =>
    by_cases hf : (f.num == tsFieldNum) = true
    · have hnum : f.num = tsFieldNum := by simpa using hf
      simp only [removeFirst, hf, if_true, List.map_cons, readFields, List.filter_cons]
      split
      · simp only [List.map_cons, List.filter_cons, hnum]
        rw [if_neg (by simpa using fun h => hk h.symm)]
      · rfl
    · have hf' : (f.num == tsFieldNum) = false := by simpa using hf
      simp only [removeFirst, hf', Bool.false_eq_true, if_false, List.map_cons, readFields, List.filter_cons]
      simp only [readFields] at ih
      split
      · simp only [List.map_cons, List.filter_cons]
        split
        · rw [ih]
        · exact ih
      · exact ih

theorem noteDesc_removeTs (descs : List Desc) (m : WMsg) :
    noteDesc descs m.num (recFieldsOf { m with fields := removeFirst tsFieldNum m.fields }) = noteDesc descs m.num (recFieldsOf m) := by
  have h := fun k hk => filter_readFields_removeFirst k hk m.fields
  simp only [noteDesc, lastVal, recFieldsOf]
  rw [h 0 (by decide), h 1 (by decide), h 2 (by decide)]

theorem itemsDescOK_of_match (arch : Nat) : ∀ (items : List Item) (descs : List Desc) (ms : List WMsg),
    AllMatch (RecMatches arch) ms (dataOf items) → msgsDescOK descs ms = true → itemsDescOK descs items = true := by
  intro items
  induction items with
  | nil => intro _ _ _ _; rfl
  | cons it its ih =>
    intro descs ms hm hok
    cases it with
    | def_ i d =>
      simp only [itemsDescOK, itemDescOK, descsAfter, Bool.true_and]
      exact ih descs ms (by simpa [dataOf] using hm) hok
    | data r =>
      have hd : dataOf (Item.data r :: its) = r :: dataOf its := by simp [dataOf]
      rw [hd] at hm
      cases hm with
      | @cons m _ ms' _ hr hrest =>
        obtain ⟨hnum, _, hdevs, hfs⟩ := hr
        simp only [msgsDescOK, Bool.and_eq_true] at hok
        have hnote : noteDesc descs r.num r.fields = noteDesc descs m.num (wireFields m) := by
          rw [hnum, wireFields_eq]
          rcases hfs with ⟨_, hf⟩ | ⟨_, _, hf⟩
          · rw [hf]
          · rw [hf]; exact noteDesc_removeTs descs m
        simp only [itemsDescOK, itemDescOK, descsAfter, Bool.and_eq_true]
        rw [hnote]
        refine ⟨?_, ih _ ms' hrest hok.2⟩
        rw [hdevs]
        have := hok.1
        simpa [devsDescOK, recDevsOf, List.all_map, Function.comp_def] using this

/-- every `field_description` message written carries a valid base type (as the decoder reads it) -/
def allDescsValid (ms : List WMsg) : Bool :=
  ms.all fun m => m.num != mesgNumFieldDescription || validBaseType (lastVal (readFields (wireFields m)) 2)

/-- "every field description written carries a valid base type" suffices for `msgsDescOK` -/
theorem msgsDescOK_of_allValid : ∀ (ms : List WMsg) (descs : List Desc), (∀ d ∈ descs, validBaseType d.2.2 = true) →
    allDescsValid ms = true → msgsDescOK descs ms = true := by
  intro ms
  induction ms with
  | nil => intro _ _ _; rfl
  | cons m ms ih =>
    intro descs hd hall
    simp only [allDescsValid, List.all_cons, Bool.and_eq_true] at hall
    have hd' : ∀ d ∈ noteDesc descs m.num (wireFields m), validBaseType d.2.2 = true := by
      intro d hmem
      unfold noteDesc at hmem
      split at hmem
      · rename_i h206
        rcases List.mem_append.mp hmem with h | h
        · exact hd d h
        · simp only [List.mem_singleton] at h
          subst h
          have := hall.1
          simpa [h206] using this
      · exact hd d hmem
    simp only [msgsDescOK, Bool.and_eq_true]
    refine ⟨?_, ih _ hd' (by simpa [allDescsValid] using hall.2)⟩
    simp only [devsDescOK, List.all_eq_true, Bool.not_eq_true']
    intro d _
    unfold descInvalid
    cases hf : findDesc (noteDesc descs m.num (wireFields m)) ⟨d.num, d.data.length % 256, d.idx⟩ with
    | none => rfl
    | some t =>
      have := hd' t (List.mem_of_find?_eq_some hf)
      simp [this]

/-- ALL MESSAGES OF A SEQUENCE, on the decoder: the round trip of `encodeMsgs_roundtripF` under the one condition the field
descriptions add (`msgsDescOK`: no developer field is written under a field description with an invalid base type) -/
theorem encodeMsgs_roundtrip (tsKnown : Nat → Bool) (o : Opts) (ha : o.arch = 0 ∨ o.arch = 1) (ms : List WMsg)
    (e : EncState) (d : DecState) (hok : ∀ m ∈ ms, MsgOK m) (inv : DefInv o.arch e.lru d)
    (hcap : o.compress = true → e.lru.cap ≤ 4) (hts : o.compress = true → LastInv e.tsLast d)
    (hdesc : msgsDescOK d.descs ms = true)
    (tail : Bytes) (fuel : Nat) (hfuel : (encodeMsgs o e ms).length ≤ fuel) :
    ∃ items, decodeRecords tsKnown fuel d (encodeMsgs o e ms).length (encodeMsgs o e ms ++ tail) = (items, .ok tail) ∧
      AllMatch (RecMatches o.arch) ms (dataOf items) := by
  obtain ⟨items, h1, h2⟩ := encodeMsgs_roundtripF tsKnown o ha ms e d hok inv hcap hts tail fuel hfuel
  exact ⟨items, decodeRecords_of_F tsKnown fuel d _ _ items tail h1 (itemsDescOK_of_match o.arch items d.descs ms h2 hdesc), h2⟩

/-! ### file header, file CRC, chained files -/
open Fit.Crc in
def b12 (h : Hdr) (ds : Nat) : Bytes := [h.size, h.protoVer] ++ le16 h.profileVer ++ le32 ds ++ [0x2E, 0x46, 0x49, 0x54]

theorem le32_val (ds : Nat) (hds : ds < 4294967296) :
    ds % 256 + 256 * (ds / 256 % 256) + 65536 * (ds / 65536 % 256) + 16777216 * (ds / 16777216 % 256) = ds := by omega

open Fit.Crc in
theorem decodeHeader_hdrBytes (checksum : Bool) (h : Hdr) (ds : Nat) (rest : Bytes)
    (hs : h.size = 12 ∨ h.size = 14) (hp : h.profileVer < 65536) (hds0 : 0 < ds) (hds : ds < 4294967296) :
    decodeHeader checksum (hdrBytes h ds ++ rest) =
      .ok (⟨h.size, h.protoVer, h.profileVer, ds, if h.size = 14 then write 0 (b12 h ds) else 0⟩, rest) := by
  have hcrc : write 0 (b12 h ds) < 2 ^ 16 := write_lt 0 (by decide) _
  have hz : ¬ (((ds % 256 = 0 ∧ 256 * (ds / 256 % 256) = 0) ∧ 65536 * (ds / 65536 % 256) = 0) ∧
            16777216 * (ds / 16777216 % 256) = 0) := by omega
  have hpf : h.profileVer % 256 + 256 * (h.profileVer / 256 % 256) = h.profileVer := by omega
  obtain ⟨sz, pv, pf⟩ := h
  simp only at hs hp hpf
  rcases hs with rfl | rfl
  · simp [hdrBytes, decodeHeader, le16, le32]
    rw [if_neg (by omega), if_neg hz, le32_val ds hds, hpf]
  · simp [hdrBytes, decodeHeader, le16, le32, b12] at hcrc ⊢
    generalize write 0 _ = c at *
    rw [if_neg (by omega), if_neg hz, le32_val ds hds, hpf]
    have hc : c % 256 + 256 * (c / 256 % 256) = c := by omega
    rw [hc]
    split
    · rfl
    · simp

/-- what the encoder is given for one FIT sequence (after validation) -/
structure FitOK (o : Opts) (h : Hdr) (ms : List WMsg) : Prop where
  size : h.size = 12 ∨ h.size = 14
  profile : h.profileVer < 65536
  nonempty : ms ≠ []
  msgs : ∀ m ∈ ms, MsgOK m
  small : (encodeMsgs o (freshEnc o) ms).length < 4294967296

structure OptsOK (o : Opts) : Prop where
  arch : o.arch = 0 ∨ o.arch = 1
  capPos : 0 < o.lruCap
  cap16 : o.lruCap ≤ 16
  cap4 : o.compress = true → o.lruCap ≤ 4

theorem encodeMsg_nonempty (o : Opts) (e : EncState) (m : WMsg) : (encodeMsg o e m).2 ≠ [] := by
  simp [encodeMsg]

theorem encodeMsgs_pos (o : Opts) (e : EncState) (ms : List WMsg) (h : ms ≠ []) : 0 < (encodeMsgs o e ms).length := by
  cases ms with
  | nil => exact absurd rfl h
  | cons m ms =>
    rw [encodeMsgs_cons, List.length_append]
    have := List.length_pos_iff.mpr (encodeMsg_nonempty o e m)
    omega

/-- what a decoded sequence must be for the sequence `(h, ms)` the encoder was given -/
def FitMatches (o : Opts) (hm : Hdr × List WMsg) (f : DecFit) : Prop :=
  f.hdr.size = hm.1.size ∧ f.hdr.protoVer = hm.1.protoVer ∧ f.hdr.profileVer = hm.1.profileVer ∧
  f.hdr.dataSize = (encodeMsgs o (freshEnc o) hm.2).length ∧
  f.crc = Fit.Crc.write 0 (encodeMsgs o (freshEnc o) hm.2) ∧
  AllMatch (RecMatches o.arch) hm.2 (dataOf f.items)


open Fit.Crc in
theorem decodeFit_core (tsKnown : Nat → Bool) (checksum : Bool) (h : Hdr) (recs tail : Bytes) (items : List Item)
    (hs : h.size = 12 ∨ h.size = 14) (hp : h.profileVer < 65536) (hpos : 0 < recs.length) (hsmall : recs.length < 4294967296)
    (hdec : decodeRecords tsKnown (recs ++ (le16 (write 0 recs) ++ tail)).length DecState.fresh recs.length
      (recs ++ (le16 (write 0 recs) ++ tail)) = (items, .ok (le16 (write 0 recs) ++ tail))) :
    decodeFit tsKnown checksum (hdrBytes h (recs.length % 4294967296) ++ recs ++ le16 (write 0 recs) ++ tail) =
      (items, .ok (⟨⟨h.size, h.protoVer, h.profileVer, recs.length, if h.size = 14 then write 0 (b12 h recs.length) else 0⟩,
        items, write 0 recs⟩, tail)) := by
  have hmod : recs.length % 4294967296 = recs.length := Nat.mod_eq_of_lt hsmall
  have hhd := decodeHeader_hdrBytes checksum h recs.length (recs ++ (le16 (write 0 recs) ++ tail)) hs hp hpos hsmall
  have hc16 : write 0 recs < 2 ^ 16 := write_lt 0 (by decide) _
  have hcv : write 0 recs % 256 + 256 * (write 0 recs / 256 % 256) = write 0 recs := by omega
  simp only [decodeFit, hmod, List.append_assoc]
  rw [hhd]
  simp only [hdec]
  simp only [le16, List.cons_append, List.nil_append, hcv]
  have htake : (recs ++ (write 0 recs % 256 :: write 0 recs / 256 % 256 :: tail)).take
      ((recs ++ (write 0 recs % 256 :: write 0 recs / 256 % 256 :: tail)).length -
        (write 0 recs % 256 :: write 0 recs / 256 % 256 :: tail).length) = recs := by
    simp [List.length_append]
  rw [htake]
  simp

open Fit.Crc in
/-- ONE SEQUENCE: decoding what the encoder wrote for `(h, ms)` succeeds, consumes exactly those bytes,
and returns matching records, with or without checksum verification. -/
theorem decodeFit_encodeFit (tsKnown : Nat → Bool) (checksum : Bool) (o : Opts) (ho : OptsOK o) (h : Hdr)
    (ms : List WMsg) (hf : FitOK o h ms) (hdesc : msgsDescOK [] ms = true) (tail : Bytes) :
    ∃ f, decodeFit tsKnown checksum (encodeFit o h ms ++ tail) = (f.items, .ok (f, tail)) ∧ FitMatches o (h, ms) f := by
  have hpos := encodeMsgs_pos o (freshEnc o) ms hf.nonempty
  obtain ⟨items, hdec, hall⟩ := encodeMsgs_roundtrip tsKnown o ho.arch ms (freshEnc o) DecState.fresh hf.msgs
    (DefInv.fresh o.arch o.lruCap ho.capPos ho.cap16 _) ho.cap4
    (fun _ => Or.inl rfl) hdesc
    (le16 (write 0 (encodeMsgs o (freshEnc o) ms)) ++ tail)
    (encodeMsgs o (freshEnc o) ms ++ (le16 (write 0 (encodeMsgs o (freshEnc o) ms)) ++ tail)).length
    (by simp [List.length_append])
  have := decodeFit_core tsKnown checksum h _ tail items hf.size hf.profile hpos hf.small hdec
  refine ⟨⟨⟨h.size, h.protoVer, h.profileVer, (encodeMsgs o (freshEnc o) ms).length,
      if h.size = 14 then write 0 (b12 h (encodeMsgs o (freshEnc o) ms).length) else 0⟩, items,
      write 0 (encodeMsgs o (freshEnc o) ms)⟩, ?_, ⟨rfl, rfl, rfl, rfl, rfl, hall⟩⟩
  simpa [encodeFit] using this

def seqsOf (evs : List Ev) : List DecFit := evs.filterMap (fun | .seq f => some f | _ => none)

theorem seqsOf_items (items : List Item) : seqsOf (items.map .item) = [] := by
  induction items with
  | nil => rfl
  | cons x xs ih => simpa [seqsOf] using ih

theorem decodeHeader_encodeFit_ok (checksum : Bool) (o : Opts) (h : Hdr) (ms : List WMsg) (hf : FitOK o h ms) (tail : Bytes) :
    (decodeHeader checksum (encodeFit o h ms ++ tail)).toOption.isNone = false := by
  have hpos := encodeMsgs_pos o (freshEnc o) ms hf.nonempty
  have := decodeHeader_hdrBytes checksum h _ (encodeMsgs o (freshEnc o) ms ++ (le16 (Fit.Crc.write 0 (encodeMsgs o (freshEnc o) ms)) ++ tail))
    hf.size hf.profile hpos hf.small
  simp only [encodeFit, Nat.mod_eq_of_lt hf.small, List.append_assoc]
  rw [this]; rfl

/-- CHAINED FILES: the `Next`/`Decode` loop over what the encoder wrote for a chain returns one matching
sequence per encoded sequence and ends without error. -/
theorem decodeStream_encodeChain (tsKnown : Nat → Bool) (checksum : Bool) (o : Opts) (ho : OptsOK o)
    (fits : List (Hdr × List WMsg)) :
    (∀ f ∈ fits, FitOK o f.1 f.2) → (∀ f ∈ fits, msgsDescOK [] f.2 = true) →
    ∀ (first : Bool), (first = true → fits ≠ []) → ∀ fuel, fits.length < fuel →
    ∃ evs, decodeStream tsKnown checksum fuel first (encodeChain o fits) = (evs, none) ∧
      AllMatch (FitMatches o) fits (seqsOf evs) := by
  induction fits with
  | nil =>
    intro _ _ first hne fuel hfuel
    have hf : first = false := by
      cases first with
      | false => rfl
      | true => exact absurd rfl (hne rfl)
    subst hf
    obtain ⟨n, rfl⟩ : ∃ n, fuel = n + 1 := ⟨fuel - 1, by simp at hfuel; omega⟩
    exact ⟨[], by simp [decodeStream, encodeChain, decodeHeader, Except.toOption], AllMatch.nil⟩
  | cons hm fits ih =>
    intro hall hdall first _ fuel hfuel
    obtain ⟨n, rfl⟩ : ∃ n, fuel = n + 1 := ⟨fuel - 1, by simp at hfuel; omega⟩
    obtain ⟨h, ms⟩ := hm
    have hf := hall (h, ms) (by simp)
    obtain ⟨f, hdec, hmatch⟩ := decodeFit_encodeFit tsKnown checksum o ho h ms hf (hdall (h, ms) (by simp)) (encodeChain o fits)
    obtain ⟨evs, hrest, hrm⟩ := ih (fun x hx => hall x (by simp [hx])) (fun x hx => hdall x (by simp [hx])) false (by simp) n
      (by simp at hfuel; omega)
    have hhead := decodeHeader_encodeFit_ok checksum o h ms hf (encodeChain o fits)
    refine ⟨f.items.map .item ++ [.seq f] ++ evs, ?_, ?_⟩
    · have e : encodeChain o ((h, ms) :: fits) = encodeFit o h ms ++ encodeChain o fits := by simp [encodeChain]
      rw [e]
      simp only [decodeStream, hhead, Bool.and_false, Bool.false_eq_true, if_false, hdec, hrest]
    · simp only [seqsOf, List.filterMap_append] at hrm ⊢
      have := seqsOf_items f.items
      simp only [seqsOf] at this
      rw [this]
      simpa using AllMatch.cons hmatch hrm

end Fit.Wire
