import FitProps.WriterRewriteLemmas
/-!
Helper lemmas about the writer model, part 4: what one `Encode` call leaves behind under ANY fault schedule
(`Outcome`), for the three output paths; chains of calls; the stream encoder as the same path call by call.
-/
namespace Fit.Writer
open Fit.Wire Fit.Crc

/-- the writer between API calls: positioned at the end of the destination, nothing buffered -/
structure W.Idle (w : W) : Prop where
  good : w.Good
  buf : w.buf = []

/-- where the destination content can be when an `Encode` (or a stream sequence) that started on content `base`
returns, successfully or not: `S` = the bytes of the first pass (header as first written, records, CRC), `b` = the
rewritten header. Either a prefix of the first pass has arrived, or the first pass is complete and the first `t`
bytes of the header have been replaced. -/
def Reach (base S b c : Bytes) : Prop :=
  (base <+: c ∧ c <+: base ++ S) ∨ ∃ t, t ≤ b.length ∧ c = base ++ b.take t ++ S.drop t

theorem encodeFit_eq_rewritten (o : Opts) (h : Hdr) (ds : Nat) (ms : List WMsg) :
    encodeFit o h ms = hdrBytes h ((encodeMsgs o (freshEnc o) ms).length % 4294967296) ++
      (seqBytes o h ds ms).drop (hdrBytes h ((encodeMsgs o (freshEnc o) ms).length % 4294967296)).length := by
  unfold encodeFit seqBytes
  have : (hdrBytes h ((encodeMsgs o (freshEnc o) ms).length % 4294967296)).length = (hdrBytes h ds).length := by
    rw [hdrBytes_length, hdrBytes_length]
  simp only [this, List.append_assoc, List.drop_left]

theorem seqBytes_final (o : Opts) (h : Hdr) (ms : List WMsg) :
    seqBytes o h ((encodeMsgs o (freshEnc o) ms).length % 4294967296) ms = encodeFit o h ms := rfl

theorem prefix_antisymm_len {a b : Bytes} (h1 : a <+: b) (h2 : b <+: a) : a = b :=
  List.IsPrefix.eq_of_length_le h1 h2.length_le

/-- the direct-update strategy under any fault schedule -/
theorem encodeDirect_spec (F : Faults) (o : Opts) (e : Enc) (h : Hdr) (ds0 : Nat) (ms : List WMsg)
    (hidle : e.w.Idle) (hf : e.Fresh o) (hdir : e.w.kind.direct = true) (hat : e.w.kind = .at → e.n = e.w.d.content.length) :
    (encodeDirect F o e h ds0 ms).1.w.kind = e.w.kind ∧ (encodeDirect F o e h ds0 ms).1.w.size = e.w.size ∧
    Reach e.w.d.content (seqBytes o h ds0 ms) (hdrBytes h ((encodeMsgs o (freshEnc o) ms).length % 4294967296))
      (encodeDirect F o e h ds0 ms).1.w.d.content ∧
    ((encodeDirect F o e h ds0 ms).2 = true →
      (encodeDirect F o e h ds0 ms).1.w.Good ∧ (encodeDirect F o e h ds0 ms).1.w.acc = e.w.d.content ++ encodeFit o h ms ∧
      e.w.d.content <+: (encodeDirect F o e h ds0 ms).1.w.d.content ∧
      ((encodeDirect F o e h ds0 ms).1.w.buf = [] ∨ encodeFit o h ms = seqBytes o h ds0 ms) ∧
      (encodeDirect F o e h ds0 ms).1.n = e.n + (encodeFit o h ms).length) ∧
    (e.w.Clean → (encodeDirect F o e h ds0 ms).2 = true → (encodeDirect F o e h ds0 ms).1.w.Clean) ∧
    (F = noFault → e.w.Clean → (encodeDirect F o e h ds0 ms).2 = true) := by
  obtain ⟨b1, b2, b3⟩ := encodeBody_spec F o e h ds0 ms hidle.good hf
  have hacc0 : e.w.acc = e.w.d.content := by simp [W.acc, hidle.buf]
  have hb1c : (encodeBody F o e h ds0 ms).1.w.d.content <+: e.w.d.content ++ seqBytes o h ds0 ms := by
    have := b1.pref; rw [hacc0] at this
    exact (List.prefix_append _ _).trans this
  unfold encodeDirect
  by_cases hok : (encodeBody F o e h ds0 ms).2 = true
  · rw [if_neg (by simp [hok])]
    obtain ⟨c1, c2, c3⟩ := b3 hok
    have hfull := b1.full hok
    rw [hacc0] at hfull
    simp only
    by_cases hsame : ds0 = (encodeBody F o e h ds0 ms).1.dataSize
    · -- the caller's data size was already right: nothing to update
      have hu : updateFileHeader F (encodeBody F o e h ds0 ms).1 h ds0 = ((encodeBody F o e h ds0 ms).1, ds0, true) := by
        unfold updateFileHeader; rw [if_pos hsame]
      rw [hu]
      have hfin : encodeFit o h ms = seqBytes o h ds0 ms := by rw [hsame, c3]; rfl
      refine ⟨b1.kind, b1.size, Or.inl ⟨b1.grow, hb1c⟩, ?_, fun hc _ => b1.clean hc hok, fun _ _ => rfl⟩
      intro _
      exact ⟨b1.good, by rw [hfull, hfin], b1.grow, Or.inr hfin, by rw [c1, hfin]⟩
    · have hlen : (hdrBytes h (encodeBody F o e h ds0 ms).1.dataSize).length ≤ (seqBytes o h ds0 ms).length := by
        unfold seqBytes
        rw [hdrBytes_length, List.length_append, List.length_append, hdrBytes_length]; omega
      obtain ⟨u1, u2, u3, u4, u5⟩ := updateFileHeader_spec F (encodeBody F o e h ds0 ms).1 h ds0 e.w.d.content (seqBytes o h ds0 ms)
        b1.good hfull b1.grow (by rw [c1, b2]; push_cast; omega) (fun hk => by rw [b2]; exact hat (by rw [← b1.kind]; exact hk)) c2
        (by rw [b1.kind]; exact hdir) hlen hsame
      rw [c3] at u1
      refine ⟨u1.kind.trans b1.kind, u1.size.trans b1.size, u1.reach, ?_, ?_, ?_⟩
      · intro hok2
        obtain ⟨d1, d2, d3⟩ := u1.done hok2
        have hfin := encodeFit_eq_rewritten o h ds0 ms
        refine ⟨d1, by rw [W.acc, d2, List.append_nil, d3, hfin, List.append_assoc], by rw [d3, List.append_assoc]; exact List.prefix_append _ _, Or.inl d2, ?_⟩
        rw [u4, c1]
        congr 1
        unfold seqBytes encodeFit
        simp only [List.length_append, hdrBytes_length]
      · intro hc hok2; exact u2 (b1.clean hc hok) hok2
      · intro hF hc; exact u3 hF (b1.clean hc hok)
  · have hok' : (encodeBody F o e h ds0 ms).2 = false := by simpa using hok
    rw [if_pos (by simp [hok'])]
    refine ⟨b1.kind, b1.size, Or.inl ⟨b1.grow, hb1c⟩, fun h => absurd h hok, fun _ h => absurd h hok, ?_⟩
    intro hF hc; exact absurd (b1.live hF hc) hok

/-- the first-pass bytes of a FIT value on a writer of the given kind: the placeholder header carries the caller's
data size on the direct-update path, the pre-computed one on the early-check path -/
def firstPass (o : Opts) (kind : Kind) (f : FitIn) : Bytes :=
  if kind.direct then seqBytes o f.hdr f.ds0 f.msgs else encodeFit o f.hdr f.msgs

def finalHdr (o : Opts) (f : FitIn) : Bytes := hdrBytes f.hdr ((encodeMsgs o (freshEnc o) f.msgs).length % 4294967296)

/-- what one `Encode` call leaves behind -/
structure Outcome (F : Faults) (o : Opts) (e : Enc) (f : FitIn) (e' : Enc) (ok : Bool) : Prop where
  kind : e'.w.kind = e.w.kind
  size : e'.w.size = e.w.size
  reach : Reach e.w.d.content (firstPass o e.w.kind f) (finalHdr o f) e'.w.d.content
  done : ok = true → e'.w.Idle ∧ e'.w.d.content = e.w.d.content ++ encodeFit o f.hdr f.msgs ∧
    e'.n = e.n + (encodeFit o f.hdr f.msgs).length
  fresh : e'.Fresh o
  clean : e.w.Clean → ok = true → e'.w.Clean
  live : F = noFault → e.w.Clean → ok = true

theorem reset_fresh (o : Opts) (e : Enc) : (e.reset o).Fresh o := ⟨rfl, rfl, rfl⟩

/-- after the strategy: `reset`, and on success the final `Flush` -/
theorem encode_finish (F : Faults) (o : Opts) (e : Enc) (f : FitIn) (r : Enc × Bool)
    (hk : r.1.w.kind = e.w.kind) (hs : r.1.w.size = e.w.size)
    (hreach : Reach e.w.d.content (firstPass o e.w.kind f) (finalHdr o f) r.1.w.d.content)
    (hdone : r.2 = true → r.1.w.Good ∧ r.1.w.acc = e.w.d.content ++ encodeFit o f.hdr f.msgs ∧
      e.w.d.content <+: r.1.w.d.content ∧ (r.1.w.buf = [] ∨ encodeFit o f.hdr f.msgs = firstPass o e.w.kind f) ∧
      r.1.n = e.n + (encodeFit o f.hdr f.msgs).length)
    (hclean : e.w.Clean → r.2 = true → r.1.w.Clean) (hlive : F = noFault → e.w.Clean → r.2 = true) :
    Outcome F o e f
      (if !r.2 then (r.1.reset o, false) else ({ r.1.reset o with w := ((r.1.reset o).w.flush F).1 }, ((r.1.reset o).w.flush F).2)).1
      (if !r.2 then (r.1.reset o, false) else ({ r.1.reset o with w := ((r.1.reset o).w.flush F).1 }, ((r.1.reset o).w.flush F).2)).2 := by
  by_cases hok : r.2 = true
  · rw [if_neg (by simp [hok])]
    obtain ⟨d1, d2, d3, d4, d5⟩ := hdone hok
    have hw : (r.1.reset o).w = r.1.w := rfl
    rw [hw]
    obtain ⟨ha, hbuf⟩ := flush_appended F r.1.w d1
    have hpref : (r.1.w.flush F).1.d.content <+: e.w.d.content ++ encodeFit o f.hdr f.msgs := by
      have := ha.pref; rw [List.append_nil, d2] at this
      exact (List.prefix_append _ _).trans this
    refine ⟨ha.kind.trans hk, ha.size.trans hs, ?_, ?_, ⟨rfl, rfl, rfl⟩, ?_, ?_⟩
    · rcases d4 with hb | hfin
      · -- nothing was buffered: the flush does not touch the destination
        have hc : r.1.w.d.content = e.w.d.content ++ encodeFit o f.hdr f.msgs := by
          rw [← d2, W.acc, hb, List.append_nil]
        have heq : (r.1.w.flush F).1.d.content = r.1.w.d.content :=
          prefix_antisymm_len (by rw [hc]; exact hpref) ha.grow
        show Reach _ _ _ (r.1.w.flush F).1.d.content
        rw [heq]; exact hreach
      · exact Or.inl ⟨d3.trans ha.grow, by rw [← hfin]; exact hpref⟩
    · intro hfok
      have hfull := ha.full hfok
      rw [List.append_nil, d2, W.acc, hbuf hfok, List.append_nil] at hfull
      exact ⟨⟨ha.good, hbuf hfok⟩, hfull, d5⟩
    · intro hc hfok; exact flush_clean F r.1.w (hclean hc hok) hfok
    · intro hF hc; exact flush_live F r.1.w hF (hclean hc hok)
  · rw [if_pos (by simp [hok])]
    exact ⟨hk, hs, hreach, (by intro h; cases h), ⟨rfl, rfl, rfl⟩, (by intro _ h; cases h), fun hF hc => absurd (hlive hF hc) hok⟩

/-- ONE `Encode` CALL, any writer kind, any buffer size, any fault schedule -/
theorem encode_outcome (F : Faults) (o : Opts) (e : Enc) (f : FitIn) (hidle : e.w.Idle) (hf : e.Fresh o)
    (hat : e.w.kind = .at → e.n = e.w.d.content.length) :
    Outcome F o e f (encode F o e f).1 (encode F o e f).2 := by
  unfold encode
  by_cases hdir : e.w.kind.direct = true
  · rw [if_pos hdir]
    obtain ⟨s1, s2, s3, s4, s5, s6⟩ := encodeDirect_spec F o e f.hdr f.ds0 f.msgs hidle hf hdir hat
    have hfp : firstPass o e.w.kind f = seqBytes o f.hdr f.ds0 f.msgs := by unfold firstPass; rw [if_pos hdir]
    exact encode_finish F o e f _ s1 s2 (by rw [hfp]; exact s3) (by rw [hfp]; exact s4) s5 s6
  · rw [if_neg hdir]
    have hfp : firstPass o e.w.kind f = encodeFit o f.hdr f.msgs := by unfold firstPass; rw [if_neg hdir]
    have hdry : dryPass o e.es e.dataSize f.msgs = ((encodeMsgs o (freshEnc o) f.msgs).length % 4294967296, f.msgs) := by
      rw [hf.es, hf.ds, dryPass_eq o _ _ _ (by decide)]; simp
    unfold encodeEarly
    rw [hdry]
    simp only
    obtain ⟨b1, b2, b3⟩ := encodeBody_spec F o (e.reset o) f.hdr ((encodeMsgs o (freshEnc o) f.msgs).length % 4294967296) f.msgs
      hidle.good (reset_fresh o e)
    rw [seqBytes_final] at b1 b3
    have hacc0 : e.w.acc = e.w.d.content := by simp [W.acc, hidle.buf]
    have hpref : (encodeBody F o (e.reset o) f.hdr ((encodeMsgs o (freshEnc o) f.msgs).length % 4294967296) f.msgs).1.w.acc <+:
        e.w.d.content ++ encodeFit o f.hdr f.msgs := by
      have := b1.pref; rw [show (e.reset o).w = e.w from rfl, hacc0] at this; exact this
    apply encode_finish F o e f _ b1.kind b1.size
    · rw [hfp]; exact Or.inl ⟨b1.grow, (List.prefix_append _ _).trans hpref⟩
    · intro hok
      have hfull := b1.full hok
      rw [show (e.reset o).w = e.w from rfl, hacc0] at hfull
      exact ⟨b1.good, hfull, b1.grow, Or.inr hfp.symm, (b3 hok).1⟩
    · exact b1.clean
    · exact b1.live

/-- the FIT values as the wire-level specification takes them -/
def fitsOf (fs : List FitIn) : List (Hdr × List WMsg) := fs.map fun f => (f.hdr, f.msgs)

theorem encodeChain_cons (o : Opts) (f : Hdr × List WMsg) (fs : List (Hdr × List WMsg)) :
    encodeChain o (f :: fs) = encodeFit o f.1 f.2 ++ encodeChain o fs := by
  simp [encodeChain]

theorem chain_fitsOf_cons (o : Opts) (f : FitIn) (fs : List FitIn) :
    encodeChain o (fitsOf (f :: fs)) = encodeFit o f.hdr f.msgs ++ encodeChain o (fitsOf fs) := by
  simp [fitsOf, encodeChain]

/-- where the destination content can be when the chaining loop ends: everything completed, or the first `k`
sequences completed and the next one somewhere on its way -/
def ChainReach (o : Opts) (kind : Kind) (base : Bytes) (fs : List FitIn) (c : Bytes) : Prop :=
  c = base ++ encodeChain o (fitsOf fs) ∨
  ∃ k f, fs[k]? = some f ∧
    Reach (base ++ encodeChain o (fitsOf (fs.take k))) (firstPass o kind f) (finalHdr o f) c

/-- the encoder between two `Encode` calls -/
structure Enc.Ready (o : Opts) (e : Enc) : Prop where
  idle : e.w.Idle
  fresh : e.Fresh o
  own : e.w.kind = .at → e.n = e.w.d.content.length

theorem Outcome.ready {F : Faults} {o : Opts} {e e' : Enc} {f : FitIn} (h : Outcome F o e f e' true) (hr : e.Ready o) :
    e'.Ready o := by
  obtain ⟨d1, d2, d3⟩ := h.done rfl
  refine ⟨d1, h.fresh, ?_⟩
  intro hk
  rw [d3, d2, List.length_append, hr.own (by rw [← h.kind]; exact hk)]

theorem chain_spec (F : Faults) (o : Opts) : ∀ (fs : List FitIn) (e : Enc), e.Ready o →
    (encodeChainW F o e fs).1.w.kind = e.w.kind ∧ (encodeChainW F o e fs).1.w.size = e.w.size ∧
    ChainReach o e.w.kind e.w.d.content fs (encodeChainW F o e fs).1.w.d.content ∧
    ((encodeChainW F o e fs).2.2 = true → (encodeChainW F o e fs).2.1 = fs.length ∧ (encodeChainW F o e fs).1.Ready o ∧
      (encodeChainW F o e fs).1.w.d.content = e.w.d.content ++ encodeChain o (fitsOf fs)) ∧
    (e.w.Clean → (encodeChainW F o e fs).2.2 = true → (encodeChainW F o e fs).1.w.Clean) ∧
    (F = noFault → e.w.Clean → (encodeChainW F o e fs).2.2 = true)
  | [], e, hr => by
    simp only [encodeChainW, fitsOf, List.map_nil, encodeChain, List.flatMap_nil, List.append_nil, List.length_nil]
    exact ⟨trivial, trivial, Or.inl (by simp [fitsOf, encodeChain]), fun _ => ⟨trivial, hr, trivial⟩, fun h _ => h, fun _ _ => trivial⟩
  | f :: fs, e, hr => by
    have ho := encode_outcome F o e f hr.idle hr.fresh hr.own
    unfold encodeChainW
    by_cases hok : (encode F o e f).2 = true
    · rw [if_neg (by simp [hok])]
      rw [hok] at ho
      have hr1 := ho.ready hr
      obtain ⟨d1, d2, d3⟩ := ho.done rfl
      obtain ⟨i1, i2, i3, i4, i5, i6⟩ := chain_spec F o fs (encode F o e f).1 hr1
      simp only
      refine ⟨i1.trans ho.kind, i2.trans ho.size, ?_, ?_, ?_, ?_⟩
      · rw [ho.kind, d2] at i3
        rcases i3 with h | ⟨k, g, hk, hreach⟩
        · left; rw [h, chain_fitsOf_cons, List.append_assoc]
        · right
          refine ⟨k + 1, g, by simpa using hk, ?_⟩
          rw [List.take_succ_cons, chain_fitsOf_cons, ← List.append_assoc]
          exact hreach
      · intro h
        obtain ⟨j1, j2, j3⟩ := i4 h
        refine ⟨by rw [j1]; rfl, j2, ?_⟩
        rw [j3, d2, chain_fitsOf_cons, List.append_assoc]
      · intro hc h; exact i5 (ho.clean hc rfl) h
      · intro hF hc; exact i6 hF (ho.clean hc rfl)
    · have hok' : (encode F o e f).2 = false := by simpa using hok
      rw [if_pos (by simp [hok'])]
      rw [hok'] at ho
      simp only
      refine ⟨ho.kind, ho.size, Or.inr ⟨0, f, rfl, ?_⟩, (by intro h; cases h), (by intro _ h; cases h), ?_⟩
      · simpa [fitsOf, encodeChain] using ho.reach
      · intro hF hc; exact absurd (ho.live hF hc) (by simp)

end Fit.Writer
