import FitProps.CsvLemmas
/-!
# C19 — fitconv: FIT to CSV and back preserves messages and field values

PROPERTY THEOREMS (audited by ./check): every `theorem C19_…` below. The model (`FitModel/Csv.lean`) is the
conversion at the level of cells; the text of numbers and the quoting are abstracted (strconv / encoding/csv
contract), the arithmetic of the scaled mode is the parameter `Arith` (hypothesis: it gives every value back; tested
on the implementation by the `csvarith` operations of the family).
-/
namespace Fit.C19
open Fit.Msg Fit.Value Fit.Csv Fit.Gen Fit.Gen.Csv

/-! ## columns -/

/-- **Every line of the CSV has as many columns as the header** (without the trim option): the writer pads each line
with the missing separators, and a name or units cell containing a separator is quoted, so it stays one column
(KF-C19-2, fixed: `record.compressed_speed_distance` has units "m/s,m", which used to make the pad count negative —
a panic). For ANY list of lines, of any lengths. -/
theorem C19_columns (o : Opts) (ls : List Line) (ht : o.trim = false) :
    ∀ c ∈ columns o ls, c = 3 + 3 * maxFields ls := by
  intro c hc
  simp only [columns, List.mem_cons, List.mem_map] at hc
  rcases hc with rfl | ⟨l, hl, rfl⟩
  · rfl
  · simp only [ht, Bool.false_eq_true, ↓reduceIte]
    have := nTriples_le_maxFields ls l hl
    simp only [lineCells]
    omega

/-- with the trim option no line is longer than the header (and the padding is left out: that is the option) -/
theorem C19_columns_trim (o : Opts) (ls : List Line) :
    ∀ c ∈ columns o ls, c ≤ 3 + 3 * maxFields ls := by
  intro c hc
  simp only [columns, List.mem_cons, List.mem_map] at hc
  rcases hc with rfl | ⟨l, hl, rfl⟩
  · exact Nat.le_refl _
  · have := nTriples_le_maxFields ls l hl
    simp only [lineCells]
    split <;> omega

/-! ## values -/

/-- **A scalar value survives the raw round trip** through its cell: whatever decoded scalar a field of base type
`bt` holds (strings within the safe alphabet; the only NaN a float may hold is the FIT invalid value), writing it with
`format` and reading the text back with `parseValue` gives the value itself (`csvNormS`: non-0/1 bools are the invalid
255) — for every integer width, boundary and invalid sentinel included, sint64 too (KF-C19-1, fixed: it used to be printed
through `val.Uint64()`, i.e. "-1"). Exceptions stated as hypotheses: a sint32 cell whose units read "degrees" is
converted as a position; a float field with a scale goes through the arithmetic. -/
theorem C19_scalar_roundtrip_raw (ar : Arith) (bt : Nat) (isBool : Bool) (scale offset : Nat) (units : Txt) (v : Value)
    (h : scalarOK bt isBool v = true) (hu : ¬(units = degreesTxt ∧ bt = btSint32))
    (hf : (bt = btFloat32 ∨ bt = btFloat64) → isScaledField scale offset = false) :
    parseCellValue ar (cellPieces (formatAtoms v)) bt isBool false scale offset units = .ok (csvNormS v) :=
  scalar_rt ar bt isBool scale offset units v h hu hf

/-- the former witness of KF-C19-1: the sint64 value 834197 comes back as itself -/
theorem C19_int64_fixed :
    parseCellValue Arith.id (cellPieces (formatAtoms (.int64 834197))) btSint64 false false Csv.f64One 0 [] = .ok (.int64 834197) := by
  decide +kernel

/-! ## tables -/

/-- **The regenerated tables are consistent**: on every listed message number below the manufacturer range the CSV
reader's name table inverts `MesgNum.String()`; for every field of every profile message the reader's field table maps
the name back to the number and the factory returns the field for that number; no name is empty or looks like
"unknown…"; no sint32 field has units "degrees"; no float field has a scale. Decided by kernel evaluation over
`Generated/CsvProfile.lean` (≈ 1600 fields) — re-checked whenever the profile, `MesgNum.String()` or `lookup_gen.go` change. -/
theorem C19_tables : mesgTableOK = true ∧ fieldTableOK = true := ⟨mesgTableOK_true, fieldTableOK_true⟩

/-! ## fields, messages, files -/

/-- **A known field survives the round trip through its cell** (raw mode, or a field without scale/offset; no position
in degrees; no sub-field substitution; a scalar): the reader finds the field by the name the writer printed, with the
writer's base type, and parses the value back. -/
theorem C19_field_roundtrip_raw (ar : Arith) (o : Opts) (ds : List Desc) (msg : Message) (fld : Field) (pm : PMesg) (p : PField)
    (hpm : pm ∈ profile) (hnum : pm.num = msg.num) (hn : msg.num < mfgRangeMin) (hp : p ∈ pm.fields)
    (hfn : fieldNumOf fld = p.num) (hdeg : o.degrees = false) (hraw : o.raw = true ∨ isScaledField p.scale p.offset = false)
    (hsub : substitute msg.fields p.subs = none) (harr : p.array = false) (hv : scalarOK p.bt p.isBool fld.value = true) :
    readCell ar ds msg.num (writeField o msg fld) = .ok (.field (mkField p.num p.bt (csvNormS fld.value))) :=
  field_rt ar o ds msg fld pm p hpm hnum hn hp hfn hdeg hraw hsub harr hv

/-- **The default (scaled) mode, under the arithmetic hypothesis**: a known integer field with a scale or offset is
written as the text of `float64(raw)/scale − offset` and read back through `(x + offset)·scale`; if that arithmetic gives
the raw value back (`har` — the hypothesis the `csvarith` operations test on the implementation for every (base type,
scale, offset) of the profile; it fails without the rounding of /repo commit 1e2d662, design finding F07), the field
comes back with its value. -/
theorem C19_scaled_roundtrip (ar : Arith) (o : Opts) (ds : List Desc) (msg : Message) (fld : Field) (pm : PMesg) (p : PField)
    (hpm : pm ∈ profile) (hnum : pm.num = msg.num) (hn : msg.num < mfgRangeMin) (hp : p ∈ pm.fields)
    (hfn : fieldNumOf fld = p.num) (hdeg : o.degrees = false) (hraw : o.raw = false) (hsc : isScaledField p.scale p.offset = true)
    (hsub : substitute msg.fields p.subs = none) (harr : p.array = false) (hb : p.isBool = false)
    (hv : isIntScalar fld.value = true) (har : ar.scaled fld.value p.bt p.scale p.offset = some fld.value) :
    readCell ar ds msg.num (writeField o msg fld) = .ok (.field (mkField p.num p.bt fld.value)) :=
  field_rt_scaled ar o ds msg fld pm p hpm hnum hn hp hfn hdeg hraw hsc hsub harr hb hv har

/-- the full statement of the round trip: every chain of files within `CsvUnambiguous` comes back as the expected
messages (arrays, sub-field substitution, unknown messages and fields with verbose, developer fields, and — under the
arithmetic hypothesis `Arith.id` — scaled values), in as many sequences as files. Proved below for the class of
`PlainMesg` files; the rest of the class is tied by the correspondence and the property predicate of family `csv`. -/
def C19_roundtrip_full : Prop :=
  ∀ (o : Opts) (files : List (List Message)), files ≠ [] → csvUnambiguousB o files = true →
    fromCsvPre Arith.id (toCsv o files) = .ok ⟨expected o files, files.length⟩

/-- **FIT → CSV → FIT gives the messages back, file by file** — for chains of files that start with their only file_id
and consist of `PlainMesg` messages (listed message numbers, no developer fields, scalar fields without sub-field
substitution, written raw or without scale/offset): the reader returns exactly as many sequences as there were files
(`C19_sequences` for this class) and each sequence is the file's messages, every field with its number, base type and
value (`normMesg`). Any number of files, messages and fields. -/
theorem C19_raw_roundtrip_partial (ar : Arith) (o : Opts) (hdeg : o.degrees = false) (files : List (List Message))
    (hne : files ≠ []) (hshape : ∀ f ∈ files, FileShape f) (hplain : ∀ f ∈ files, ∀ m ∈ f, PlainMesg o m) :
    fromCsvPre ar (toCsv o files) = .ok ⟨files.map (·.map normMesg), files.length⟩ :=
  fromCsvPre_plain ar o hdeg files hne hshape hplain

/-- **Chained inputs come back as the same number of sequences** (same class) -/
theorem C19_sequences_partial (ar : Arith) (o : Opts) (hdeg : o.degrees = false) (files : List (List Message))
    (hne : files ≠ []) (hshape : ∀ f ∈ files, FileShape f) (hplain : ∀ f ∈ files, ∀ m ∈ f, PlainMesg o m) :
    ∃ b, fromCsvPre ar (toCsv o files) = .ok b ∧ b.seq = files.length ∧ b.seqs.length = files.length := by
  refine ⟨_, fromCsvPre_plain ar o hdeg files hne hshape hplain, rfl, ?_⟩
  simp

/-- non-vacuity: the invalid uint16 of a field with scale 1 -/
example : parseCellValue Arith.id (cellPieces (formatAtoms (.uint16 65535))) btUint16 false false Csv.f64One 0 [109] = .ok (.uint16 65535) := by
  decide +kernel

end Fit.C19
