import FitProps.CsvLemmas
/-!
# C19 — fitconv: FIT to CSV and back preserves messages and field values

PROPERTY THEOREMS (audited by ./check): every `theorem C19_…` below. The model (`FitModel/Csv.lean`) is the
conversion at the level of cells; the text of numbers and the quoting are abstracted (strconv / encoding/csv
contract), the arithmetic of the scaled mode is the parameter `Arith` (hypothesis: it gives every value back; tested
on the implementation by the `csvarith` operations of the family).
-/
namespace Fit.C19
open Fit.Msg Fit.Value Fit.Csv Fit.Gen Fit.Gen.Csv

/-! ## columns -/

/-- **Every line of the CSV has as many columns as the header** (without the trim option): the writer pads each line
with the missing separators, and a name or units cell containing a separator is quoted, so it stays one column
(KF-C19-2, fixed: `record.compressed_speed_distance` has units "m/s,m", which used to make the pad count negative —
a panic). For ANY list of lines, of any lengths. -/
theorem C19_columns (o : Opts) (ls : List Line) (ht : o.trim = false) :
    ∀ c ∈ columns o ls, c = 3 + 3 * maxFields ls := by
  intro c hc
  simp only [columns, List.mem_cons, List.mem_map] at hc
  rcases hc with rfl | ⟨l, hl, rfl⟩
  · rfl
  · simp only [ht, Bool.false_eq_true, ↓reduceIte]
    have := nTriples_le_maxFields ls l hl
    simp only [lineCells]
    omega

/-- with the trim option no line is longer than the header (and the padding is left out: that is the option) -/
theorem C19_columns_trim (o : Opts) (ls : List Line) :
    ∀ c ∈ columns o ls, c ≤ 3 + 3 * maxFields ls := by
  intro c hc
  simp only [columns, List.mem_cons, List.mem_map] at hc
  rcases hc with rfl | ⟨l, hl, rfl⟩
  · exact Nat.le_refl _
  · have := nTriples_le_maxFields ls l hl
    simp only [lineCells]
    split <;> omega

/-! ## values -/

/-- **A scalar value survives the raw round trip** through its cell: whatever decoded scalar a field of base type
`bt` holds (strings within the safe alphabet; the only NaN a float may hold is the FIT invalid value), writing it with
`format` and reading the text back with `parseValue` gives the value itself (`csvNormS`: non-0/1 bools are the invalid
255) — for every integer width, boundary and invalid sentinel included, sint64 too (KF-C19-1, fixed: it used to be printed
through `val.Uint64()`, i.e. "-1"). Exceptions stated as hypotheses: a sint32 cell whose units read "degrees" is
converted as a position; a float field with a scale goes through the arithmetic. -/
theorem C19_scalar_roundtrip_raw (ar : Arith) (bt : Nat) (isBool : Bool) (scale offset : Nat) (units : Txt) (v : Value)
    (h : scalarOK bt isBool v = true) (hu : ¬(units = degreesTxt ∧ bt = btSint32))
    (hf : (bt = btFloat32 ∨ bt = btFloat64) → isScaledField scale offset = false) :
    parseCellValue ar (cellPieces (formatAtoms v)) bt isBool false scale offset units = .ok (csvNormS v) :=
  scalar_rt ar bt isBool scale offset units v h hu hf

/-- the former witness of KF-C19-1: the sint64 value 834197 comes back as itself -/
theorem C19_int64_fixed :
    parseCellValue Arith.id (cellPieces (formatAtoms (.int64 834197))) btSint64 false false Csv.f64One 0 [] = .ok (.int64 834197) := by
  decide +kernel

/-- non-vacuity: the invalid uint16 of a field with scale 1 -/
example : parseCellValue Arith.id (cellPieces (formatAtoms (.uint16 65535))) btUint16 false false Csv.f64One 0 [109] = .ok (.uint16 65535) := by
  decide +kernel

end Fit.C19
