import FitProps.CsvLemmas
/-!
# C19 — fitconv: FIT to CSV and back preserves messages and field values

PROPERTY THEOREMS (audited by ./check): every `theorem C19_…` below. The model (`FitModel/Csv.lean`) is the
conversion at the level of cells; the text of numbers and the quoting are abstracted (strconv / encoding/csv
contract), the arithmetic of the scaled mode is the parameter `Arith` (hypothesis: it gives every value back; tested
on the implementation by the `csvarith` operations of the family).
-/
namespace Fit.C19
open Fit.Msg Fit.Value Fit.Csv Fit.Gen Fit.Gen.Csv

/-! ## columns -/

/-- **Every line of the CSV has as many columns as the header** (without the trim option, whenever the writer
does not panic — see `padPanics`: a comma inside an unquoted name/units cell): the writer pads each line with the
missing separators. For ANY list of lines, of any lengths. -/
theorem C19_columns (o : Opts) (ls : List Line) (ht : o.trim = false) (hp : padPanics o ls = false) :
    ∀ c ∈ columns o ls, c = 3 + 3 * maxFields ls := by
  intro c hc
  simp only [columns, List.mem_cons, List.mem_map] at hc
  rcases hc with rfl | ⟨l, hl, rfl⟩
  · rfl
  · simp only [ht, Bool.false_eq_true, ↓reduceIte]
    have : lineCells l ≤ 3 + 3 * maxFields ls := by
      simp only [padPanics, ht, Bool.not_false, Bool.true_and, List.any_eq_false] at hp
      have := hp l hl
      simpa using this
    omega

/-- lines without a comma inside a name or units cell never make the writer panic: the pad count is never negative -/
theorem C19_columns_no_panic (o : Opts) (ls : List Line) (h : ∀ l ∈ ls, extraCommas l = 0) : padPanics o ls = false := by
  simp only [padPanics, Bool.and_eq_false_imp, Bool.not_eq_eq_eq_not, Bool.not_true, List.any_eq_false]
  intro _ l hl
  have := nTriples_le_maxFields ls l hl
  simp only [lineCells, h l hl, decide_eq_true_eq]
  omega

/-- with the trim option no line is longer than the header (and the padding is left out: that is the option) -/
theorem C19_columns_trim (o : Opts) (ls : List Line) (h : ∀ l ∈ ls, extraCommas l = 0) :
    ∀ c ∈ columns o ls, c ≤ 3 + 3 * maxFields ls := by
  intro c hc
  simp only [columns, List.mem_cons, List.mem_map] at hc
  rcases hc with rfl | ⟨l, hl, rfl⟩
  · exact Nat.le_refl _
  · have := nTriples_le_maxFields ls l hl
    have hl' : lineCells l ≤ 3 + 3 * maxFields ls := by simp only [lineCells, h l hl]; omega
    split <;> omega

/-! ## values -/

/-- **A scalar value survives the raw round trip** through its cell: whatever decoded scalar a field of base type
`bt` holds (strings within the safe alphabet), writing it with `format` and reading the text back with `parseValue`
gives the value itself (NaN payloads and non-0/1 bools in their normal form `csvNormS`) — for every integer width,
boundary and invalid sentinel included. Exceptions stated as hypotheses: a sint32 cell whose units read "degrees" is
converted as a position; a float field with a scale goes through the arithmetic; **sint64 scalars are excluded**: the
writer prints them through `val.Uint64()`, i.e. always "-1" (finding KF-C19-1). -/
theorem C19_scalar_roundtrip_raw (ar : Arith) (bt : Nat) (isBool : Bool) (scale offset : Nat) (units : Txt) (v : Value)
    (h : scalarOK bt isBool v = true) (hu : ¬(units = degreesTxt ∧ bt = btSint32))
    (hf : (bt = btFloat32 ∨ bt = btFloat64) → isScaledField scale offset = false)
    (h64 : ∀ x, v ≠ .int64 x) :
    parseCellValue ar (cellPieces (formatAtoms v)) bt isBool false scale offset units = .ok (csvNormS v) :=
  scalar_rt ar bt isBool scale offset units v h hu hf h64

/-- the full statement (every decoded scalar, sint64 included) — FALSE on the pinned tree -/
def C19_scalar_roundtrip_raw_full : Prop :=
  ∀ (ar : Arith) (bt : Nat) (isBool : Bool) (scale offset : Nat) (units : Txt) (v : Value),
    scalarOK bt isBool v = true → ¬(units = degreesTxt ∧ bt = btSint32) →
    ((bt = btFloat32 ∨ bt = btFloat64) → isScaledField scale offset = false) →
    parseCellValue ar (cellPieces (formatAtoms v)) bt isBool false scale offset units = .ok (csvNormS v)

/-- KF-C19-1: the sint64 value 834197 is written "-1" and comes back as −1 -/
theorem C19_int64_witness : ¬ C19_scalar_roundtrip_raw_full := by
  intro h
  have := h Arith.id btSint64 false Csv.f64One 0 [] (.int64 834197) (by decide) (fun hh => absurd hh.2 (by decide)) (by decide)
  revert this
  decide +kernel

/-- non-vacuity: the invalid uint16 of a field with scale 1 -/
example : parseCellValue Arith.id (cellPieces (formatAtoms (.uint16 65535))) btUint16 false false Csv.f64One 0 [109] = .ok (.uint16 65535) := by
  decide +kernel

end Fit.C19
