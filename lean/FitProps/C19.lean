import FitProps.CsvLemmas
import FitProps.CsvRoundtripLemmas
import FitProps.CsvFullLemmas
import FitProps.CsvTextLemmas
import FitProps.CsvTextFinalLemmas
import FitProps.CsvGateLemmas
/-!
# C19 — fitconv: FIT to CSV and back preserves messages and field values

PROPERTY THEOREMS (audited by ./check): every `theorem C19_…` below.

* Cell level (`FitModel/Csv.lean`): a CSV data line is the message name and (name, value pieces, units) triples.
  `C19_roundtrip` / `C19_roundtrip_convert`: FIT → CSV → FIT gives the expected messages for EVERY chain of files within the
  decidable scope `csvUnambiguousB` (FitModel/CsvSpec.lean; the driver evaluates it on every generated input), every option.
* Text level (`FitModel/CsvText.lean`): the characters — decimal integers (`strconv.FormatInt/ParseInt/ParseUint`),
  `writeCell` quoting, lines, header, the padding pass, `encoding/csv` record by record. `C19_int_text_roundtrip`,
  `C19_csv_quoting_roundtrip`, `C19_copy_all_lines`, `C19_columns_text`, `C19_roundtrip_text`.
* The arithmetic of the scaled mode is the parameter `Arith` of the model; its instance `Arith.so`
  (`FitModel/CsvArith.lean`) is kit/scaleoffset + fitcsv.parseValue over the bit-exact binary64 of `FitModel/F64.lean` —
  the definitions C12 is about, run by the driver and compared with the implementation through the `csvarith`
  operations — and C12 discharges "the arithmetic gives every value back" for every scaled field of the profile.

What remains ASSUMED: float TEXT — `strconv.FormatFloat`/`ParseFloat` inverse of each other on float64, the text of a
scaled value contains a '.' (a one-digit mantissa with exponent below −4, "1e-05", has none; no (scale, raw) of the
profile produces one): at the text level this is the explicit hypothesis `FloatOK` of the theorems, not an axiom; at the
cell level it is built into the atoms `.flt` / `.scaled` / `.degrees` —; `unicode.IsPrint` beyond ASCII; scaled 64-bit fields (none in the profile: `C12_profile_pairs_in_range`).
-/
namespace Fit.C19
open Fit.Msg Fit.Value Fit.Csv Fit.Gen Fit.Gen.Csv

/-! ## columns -/

/-- **Every line of the CSV has as many columns as the header** (without the trim option): the writer pads each line
with the missing separators, and a name or units cell containing a separator is quoted, so it stays one column
(KF-C19-2, fixed: `record.compressed_speed_distance` has units "m/s,m", which used to make the pad count negative —
a panic). For ANY list of lines, of any lengths. -/
theorem C19_columns (o : Opts) (ls : List Line) (ht : o.trim = false) :
    ∀ c ∈ columns o ls, c = 3 + 3 * maxFields ls := by
  intro c hc
  simp only [columns, List.mem_cons, List.mem_map] at hc
  rcases hc with rfl | ⟨l, hl, rfl⟩
  · rfl
  · simp only [ht, Bool.false_eq_true, ↓reduceIte]
    have := nTriples_le_maxFields ls l hl
    simp only [lineCells]
    omega

/-- with the trim option no line is longer than the header (and the padding is left out: that is the option) -/
theorem C19_columns_trim (o : Opts) (ls : List Line) :
    ∀ c ∈ columns o ls, c ≤ 3 + 3 * maxFields ls := by
  intro c hc
  simp only [columns, List.mem_cons, List.mem_map] at hc
  rcases hc with rfl | ⟨l, hl, rfl⟩
  · exact Nat.le_refl _
  · have := nTriples_le_maxFields ls l hl
    simp only [lineCells]
    split <;> omega

/-! ## values -/

/-- **A scalar value survives the raw round trip** through its cell: whatever decoded scalar a field of base type
`bt` holds (strings within the safe alphabet; the only NaN a float may hold is the FIT invalid value), writing it with
`format` and reading the text back with `parseValue` gives the value itself (`csvNormS`: non-0/1 bools are the invalid
255) — for every integer width, boundary and invalid sentinel included, sint64 too (KF-C19-1, fixed: it used to be printed
through `val.Uint64()`, i.e. "-1"). Exceptions stated as hypotheses: a sint32 cell whose units read "degrees" is
converted as a position; a float field with a scale goes through the arithmetic. -/
theorem C19_scalar_roundtrip_raw (ar : Arith) (bt : Nat) (isBool : Bool) (scale offset : Nat) (units : Txt) (v : Value)
    (h : scalarOK bt isBool v = true) (hu : ¬(units = degreesTxt ∧ bt = btSint32))
    (hf : (bt = btFloat32 ∨ bt = btFloat64) → isScaledField scale offset = false) :
    parseCellValue ar (cellPieces (formatAtoms v)) bt isBool false scale offset units = .ok (csvNormS v) :=
  scalar_rt ar bt isBool scale offset units v h hu hf

/-- the former witness of KF-C19-1: the sint64 value 834197 comes back as itself -/
theorem C19_int64_fixed :
    parseCellValue Arith.id (cellPieces (formatAtoms (.int64 834197))) btSint64 false false Csv.f64One 0 [] = .ok (.int64 834197) := by
  decide +kernel

/-! ## tables -/

/-- **The regenerated tables are consistent**: on every listed message number below the manufacturer range the CSV
reader's name table inverts `MesgNum.String()`; for every field of every profile message the reader's field table maps
the name back to the number and the factory returns the field for that number; no name is empty or looks like
"unknown…"; no sint32 field has units "degrees"; no float field has a scale. Decided by kernel evaluation over
`Generated/CsvProfile.lean` (≈ 1600 fields) — re-checked whenever the profile, `MesgNum.String()` or `lookup_gen.go` change. -/
theorem C19_tables : mesgTableOK = true ∧ fieldTableOK = true := ⟨mesgTableOK_true, fieldTableOK_true⟩

/-! ## fields, messages, files -/

/-- **A known field survives the round trip through its cell** (raw mode, or a field without scale/offset; no position
in degrees; no sub-field substitution; a scalar): the reader finds the field by the name the writer printed, with the
writer's base type, and parses the value back. -/
theorem C19_field_roundtrip_raw (ar : Arith) (o : Opts) (ds : List Desc) (msg : Message) (fld : Field) (pm : PMesg) (p : PField)
    (hpm : pm ∈ profile) (hnum : pm.num = msg.num) (hn : msg.num < mfgRangeMin) (hp : p ∈ pm.fields)
    (hfn : fieldNumOf fld = p.num) (hdeg : o.degrees = false) (hraw : o.raw = true ∨ isScaledField p.scale p.offset = false)
    (hsub : substitute msg.fields p.subs = none) (harr : p.array = false) (hv : scalarOK p.bt p.isBool fld.value = true) :
    readCell ar ds msg.num (writeField o msg fld) = .ok (.field (mkField p.num p.bt (csvNormS fld.value))) :=
  field_rt ar o ds msg fld pm p hpm hnum hn hp hfn hdeg hraw hsub harr hv

/-- **The default (scaled) mode, under the arithmetic hypothesis**: a known integer field with a scale or offset is
written as the text of `float64(raw)/scale − offset` and read back through `(x + offset)·scale`; if that arithmetic gives
the raw value back (`har` — the hypothesis the `csvarith` operations test on the implementation for every (base type,
scale, offset) of the profile; it fails without the rounding of /repo commit 1e2d662, design finding F07), the field
comes back with its value. (`hns`: the field is no string field — a string field takes the text as it is; no field of
the profile with a scale is one, `scaledTypesOK`.) -/
theorem C19_scaled_roundtrip (ar : Arith) (o : Opts) (ds : List Desc) (msg : Message) (fld : Field) (pm : PMesg) (p : PField)
    (hpm : pm ∈ profile) (hnum : pm.num = msg.num) (hn : msg.num < mfgRangeMin) (hp : p ∈ pm.fields)
    (hfn : fieldNumOf fld = p.num) (hdeg : o.degrees = false) (hraw : o.raw = false) (hsc : isScaledField p.scale p.offset = true)
    (hsub : substitute msg.fields p.subs = none) (harr : p.array = false) (hb : p.isBool = false)
    (hv : isIntScalar fld.value = true) (hns : (p.bt == btString) = false)
    (har : ar.scaled fld.value p.bt p.scale p.offset = some fld.value) :
    readCell ar ds msg.num (writeField o msg fld) = .ok (.field (mkField p.num p.bt fld.value)) :=
  field_rt_scaled ar o ds msg fld pm p hpm hnum hn hp hfn hdeg hraw hsc hsub harr hb hv hns har

/-- **The default (scaled) mode, unconditionally, for every scaled field of the profile**: an integer field of at most
32 bits with a scale or offset, holding any value of its type (boundaries and the invalid sentinel included), is written
as the text of `float64(raw)/scale − offset` and read back through `math.Round((x + offset)·scale)` to the raw value —
the arithmetic as the code computes it (`Arith.so`), no hypothesis on it left: `C12_csv` / `C12_scale_roundtrip_rounded`
for every (scale, offset) pair of the regenerated profile (`scaledPairsOK` ties the two regenerated tables). -/
theorem C19_scaled_roundtrip_profile (o : Opts) (ds : List Desc) (msg : Message) (fld : Field) (pm : PMesg) (p : PField)
    (hpm : pm ∈ profile) (hnum : pm.num = msg.num) (hn : msg.num < mfgRangeMin) (hp : p ∈ pm.fields)
    (hfn : fieldNumOf fld = p.num) (hdeg : o.degrees = false) (hraw : o.raw = false) (hsc : isScaledField p.scale p.offset = true)
    (hsub : substitute msg.fields p.subs = none) (harr : p.array = false) (hb : p.isBool = false)
    (hv : scalarOK p.bt false fld.value = true) (ty : Fit.F64.IntTy) (pat : Nat) (hi : int32Scalar fld.value = some (ty, pat)) :
    readCell Arith.so ds msg.num (writeField o msg fld) = .ok (.field (mkField p.num p.bt fld.value)) :=
  field_rt_scaled_so o ds msg fld pm p hpm hnum hn hp hfn hdeg hraw hsc hsub harr hb hv ty pat hi

/-- non-vacuity: record.distance (uint32, scale 100): the raw value 16039 — the value design finding F07 turned into
16038 before /repo 1e2d662 — comes back -/
example : Arith.so.scaled (.uint32 16039) btUint32 0x4059000000000000 0 = some (.uint32 16039) := by decide +kernel

/-- **An array survives the round trip through its `|`-joined cell**, element by element: for a non-empty array of
decoded scalars of the field's base type (every integer width, floats, strings within the safe alphabet, bools), read
as an array because the field is an array field or because the cell has several pieces; the result is the array of the
elements' normal forms (`packValues`: the reader's slice constructor). -/
theorem C19_array_roundtrip (ar : Arith) (bt : Nat) (isBool : Bool) (scale offset : Nat) (units : Txt) (v : Value) (es : List Value)
    (he : elemsOf v = (es, true)) (hne : es ≠ []) (hall : ∀ e ∈ es, scalarOK bt isBool e = true)
    (hu : ¬(units = degreesTxt ∧ bt = btSint32))
    (hf : (bt = btFloat32 ∨ bt = btFloat64) → isScaledField scale offset = false)
    (array : Bool) (hflag : array = true ∨ es.length ≠ 1) :
    parseCellValue ar (cellPieces (formatAtoms v)) bt isBool array scale offset units = .ok (packValues (es.map csvNormS)) :=
  array_rt ar bt isBool scale offset units v es he hne hall hu hf array hflag

example : parseCellValue Arith.id (cellPieces (formatAtoms (.sliceUint16 [1, 65535, 7]))) btUint16 false true Csv.f64One 0 [] =
    .ok (.sliceUint16 [1, 65535, 7]) := by decide +kernel

/-- **A known field, scalar or array, survives the round trip through its cell** (raw mode or no scale/offset; no
sub-field substitution): generalises `C19_field_roundtrip_raw` to arrays. -/
theorem C19_field_roundtrip_value (ar : Arith) (o : Opts) (ds : List Desc) (msg : Message) (fld : Field) (pm : PMesg) (p : PField)
    (hpm : pm ∈ profile) (hnum : pm.num = msg.num) (hn : msg.num < mfgRangeMin) (hp : p ∈ pm.fields)
    (hfn : fieldNumOf fld = p.num) (hdeg : o.degrees = false) (hraw : o.raw = true ∨ isScaledField p.scale p.offset = false)
    (hsub : substitute msg.fields p.subs = none) (harr : (elemsOf fld.value).2 = p.array)
    (hv : valueOK p.bt p.isBool fld.value = true) :
    readCell ar ds msg.num (writeField o msg fld) = .ok (.field (mkField p.num p.bt (csvNorm fld.value))) :=
  field_rt_value ar o ds msg fld pm p hpm hnum hn hp hfn hdeg hraw hsub harr hv

/-- **With the verbose option an unknown field survives**: it is written as `unknown(N)` with the name of its base type
in the units cell; the reader takes the digits of the name for the field number and the units for the base type, and
parses the value back (scalar, or an array of at least two elements). The digits of N come back as N for every N
(`natDigits_spec`); the base type names map back (`baseTypeNamesOK`, regenerated table); no name of the reader's
tables starts with "unknown" (`lookupNamesOK`). -/
theorem C19_unknown_field_roundtrip (ar : Arith) (o : Opts) (ds : List Desc) (msg : Message) (fld : Field)
    (hverb : o.verbose = true) (hunk : pfield msg.num (fieldNumOf fld) = none) (hnum : fieldNumOf fld < 256)
    (hbt : ∃ s, (fieldBtOf fld, s) ∈ baseTypeNames) (hv : valueOK (fieldBtOf fld) false fld.value = true)
    (hshape : (elemsOf fld.value).2 = true → (elemsOf fld.value).1.length ≠ 1) :
    readCell ar ds msg.num (writeField o msg fld) =
      .ok (.field (mkField (fieldNumOf fld) (fieldBtOf fld) (csvNorm fld.value))) :=
  unknown_field_rt ar o ds msg fld hverb hunk hnum hbt hv hshape

/-- **A developer field survives the round trip through its cell**: the writer names it after the most recent
description of its (developer data index, field number) — the parts of a name joined with `|` —; the reader finds the
most recent description carrying that name (the same one when names are unique, the property's condition), takes its
base type, and parses the value back — whatever scale and offset the description carries: the writer prints developer
field values as they are and the reader, since the fix of KF-C19-6 (it used to un-scale a float cell with the
description's scale and offset), does not discard them. -/
theorem C19_dev_field_roundtrip (ar : Arith) (o : Opts) (ds : List Desc) (mesgNum : Nat) (dv : DevField) (d : Desc)
    (hfind : findDesc ds dv.devIdx dv.num = some d) (hname : ds.reverse.find? (fun x => x.name == d.name) = some d)
    (hnative : lookupFieldNum mesgNum d.name = none) (hne : d.name.isEmpty = false)
    (hunk : isPrefixOf' unknownTxt d.name = false)
    (hv : valueOK d.bt false dv.value = true) (hdeg : ¬(d.units = degreesTxt ∧ d.bt = btSint32))
    (hshape : (elemsOf dv.value).2 = true → (elemsOf dv.value).1.length ≠ 1) :
    readCell ar ds mesgNum (writeDev o ds dv) = .ok (.dev ⟨dv.devIdx, dv.num, csvNorm dv.value⟩) :=
  dev_field_rt ar o ds mesgNum dv d hfind hname hnative hne hunk hv hdeg hshape

/-- the former witness of KF-C19-6 (fixed): a float32 developer field holding 0.5 whose description has scale 100 is
written as "0.5" and read back as 0.5 (it used to come back as 50.0) -/
theorem C19_dev_float_scale_fixed :
    let d : Desc := { devIdx := 0, num := 0, name := txt "ratio", units := [], bt := btFloat32, scale := 100, offset := 127 }
    let dv : DevField := { devIdx := 0, num := 0, value := .float32 0x3f000000 }
    valueOK d.bt false dv.value = true ∧
    (match readCell Arith.so [d] 20 (writeDev {} [d] dv) with
     | .ok (.dev back) => back.value == .float32 0x3f000000
     | _ => false) = true := by decide +kernel

/-- **Sub-field substitution and its reversal.** (1) A field one of whose sub-fields applies is written under the
sub-field's name and units. (2) The reader finds no native field of that name in the message (regenerated tables:
`subNamesOK`) and keeps the cell as a placeholder. (3) Once the message is read, `revertSubFieldSubtitution` replaces
the placeholder by the MAIN field as soon as one of the sub-field's maps matches the reference field as read, and
parses the value with the main field's base type, scale, offset and units — the name designates one main field only
(`subNamesOK`), whatever other sub-fields the message's fields have. -/
theorem C19_subfield_roundtrip (ar : Arith) (o : Opts) (ds : List Desc) (msg : Message) (fld : Field) (pm : PMesg) (p : PField) (s : PSub)
    (hpm : pmesg msg.num = some pm) (hn : msg.num < mfgRangeMin) (hp : p ∈ pm.fields) (hs : s ∈ p.subs)
    (hpf : pfield msg.num (fieldNumOf fld) = some p) (hdeg : o.degrees = false)
    (hsub : substitute msg.fields p.subs = some s)
    (hds : ds.reverse.find? (fun d => d.name == txt s.name) = none) :
    writeField o msg fld = ⟨txt s.name, fieldAtoms o (txt p.units) p.scale p.offset fld.value, txt s.units⟩ ∧
    readCell ar ds msg.num (writeField o msg fld) =
      .ok (.placeholder (txt s.name) (fieldAtoms o (txt p.units) p.scale p.offset fld.value)) ∧
    ∀ (fields : List Field) (mp : Nat × Int) (a : Atom) (v : Value), mp ∈ s.maps →
      toInt64 (fvalFirst fields mp.1) = some mp.2 →
      parseAtom ar a p.bt p.isBool p.scale p.offset (txt p.units) = .ok v →
      revert ar msg.num fields (txt s.name) [a] = .ok (some (mkField p.num p.bt v)) := by
  have hm : pm ∈ profile := List.mem_of_find?_eq_some hpm
  have hnum : pm.num = msg.num := by simpa using List.find?_some hpm
  have hw := subfield_write o msg fld p s hpf hdeg hsub
  refine ⟨hw, ?_, fun fields mp a v hmp hmatch hparse =>
    subfield_revert ar msg.num pm p s hpm hn hp hs fields mp hmp hmatch a v hparse⟩
  rw [hw, ← hnum]
  exact subfield_placeholder ar ds pm p s hm (hnum ▸ hn) hp hs _ _ hds

/-- **What the reader removes after reading a message** (`removeExpandedComponents`): with distinct field numbers,
exactly the fields that are a component target of a field present (own components or those of any of its sub-fields)
— the property's own condition "no field that is also the expansion target of another field present" is what keeps
every WRITTEN (non-expanded) field, and the expanded ones are re-created by the decoder. -/
theorem C19_removes_expansion_targets (mesgNum : Nat) (fs : List Field) (hb : ∀ f ∈ fs, f.base.isSome = true)
    (hnd : (fs.map fieldNumOf).Nodup) :
    removeExpanded mesgNum fs = fs.filter (fun f => !(fs.flatMap (targetsOf mesgNum)).contains (fieldNumOf f)) :=
  removeExpanded_filter mesgNum fs hb hnd

/-- **FIT → CSV → FIT gives the messages back, for EVERY chain of files within `CsvUnambiguous`** (`csvUnambiguousB`,
the decidable scope predicate the driver evaluates on every generated input) — raw mode and the default scaled mode, with
and without the verbose option and the trim option, any number of files, messages, fields, developer fields and fields
written under a sub-field's name: the reader hands to the encoder exactly as many sequences as there were files, and
each sequence is the file's messages as `expected` says — every written field (not flagged expanded) with its number,
base type and value, in order; unknown messages and unknown fields kept with the verbose option and dropped without it;
every developer field with its developer data index, number and value; a message of which nothing is left is left out.
The arithmetic of the scaled mode is the code's (`Arith.so`; `C12_csv` for every (scale, offset) of the profile).

With the degrees option a position (the 38 fields in semicircles: plain sint32 scalars, regenerated table `semicirclesOK`)
is written as `ToDegrees(s)` and read back through `ToSemicircles`: `Arith.so.degrees`, computed over the binary64 model
(FitModel/TimeAngle.lean) and the identity on every int32 pattern by `C12_semicircles`; the float TEXT in between is
assumed, as everywhere.

What `csvUnambiguousB` asks (FitModel/CsvSpec.lean): every file starts with its only file_id;
per message: number < 65536, field numbers distinct bytes, every field's value what the decoder produces for the field's
base type (`fieldOK`: strings within the safe alphabet, arrays non-empty, a field without profile entry no one-element
array) and in the decoder's normal form (`csvNorm v = v`: a `typedef.Bool` is 0, 1 or invalid), the fields flagged
expanded EXACTLY the component targets of the fields present (the property's own condition, as the decoder produces
it); per file: field descriptions with non-empty names that are not "unknown…", not a sub-field name of the profile,
pairwise distinct, (developer data index, field number) pairwise distinct; every developer field
described EARLIER in the same file, its name no native field name of its message, its value of the described base type;
for the encoder's gate (`C19_roundtrip_convert`): something of every file comes back, and the developer data index of every
developer field is announced by a developer_data_id message that comes back earlier in the file.

Proof: cell by cell (`cell_rt`: field / placeholder / passed over), `revertAll` over any number of placeholders
(`revertAll_pending`: the reference fields of the sub-field maps are never placeholders — regenerated table, `subRefsOK`),
`removeExpandedComponents` removes exactly the flagged fields (`removeExpanded_scope`), developer fields through the two
description lists (`dev_cell_rt`: writer and reader find the same description although both keep the descriptions of
ALL earlier files), the description list carried line by line (`readLines_scope`), sequences (`foldl_filesX`). -/
theorem C19_roundtrip (o : Opts) (files : List (List Message)) (hne : files ≠ []) (h : csvUnambiguousB o files = true) :
    fromCsvPre Arith.so (toCsv o files) = .ok ⟨expected o files, files.length⟩ :=
  roundtrip_full o files hne h

/-- **… and `Convert` succeeds**: the statement for `fromCsv`, the function the driver runs and compares with the real
`CSVToFITConv.Convert` — the sequences also pass the encoder's validator as `gateSeq` models it (no empty sequence; every
written field's value aligned with its base type; every developer field's developer data index announced by a
developer_data_id that comes back earlier in the same sequence, its description — the FIRST match of the sequence, as the
validator looks it up — found and its value aligned with the described base type) -/
theorem C19_roundtrip_convert (o : Opts) (files : List (List Message)) (hne : files ≠ []) (h : csvUnambiguousB o files = true) :
    fromCsv Arith.so (toCsv o files) = .ok ⟨expected o files, files.length⟩ :=
  roundtrip_gate o files hne h

/-- **Chained inputs come back as the same number of sequences**, for every chain within `CsvUnambiguous` -/
theorem C19_sequences (o : Opts) (files : List (List Message)) (hne : files ≠ []) (h : csvUnambiguousB o files = true) :
    ∃ b, fromCsvPre Arith.so (toCsv o files) = .ok b ∧ b.seq = files.length ∧ b.seqs.length = files.length := by
  refine ⟨_, roundtrip_full o files hne h, rfl, ?_⟩
  simp [expected]

/-- non-vacuity of `C19_roundtrip`: a file with a file_id whose product is written under the sub-field name
garmin_product, a developer_data_id, a field_description, a record with a SCALED field (distance, the F07 value), a
component source and its expanded target (cycles → total_cycles, flagged) and a developer field, an hrv message with an
ARRAY of scaled values (the invalid value among them) and an event — chained twice — is within `CsvUnambiguous`,
default (scaled) mode -/
def demoFull : List Message :=
  [{ num := 0, devFields := [], fields := [mkField 0 btEnum (.uint8 4), mkField 1 btUint16 (.uint16 1), mkField 2 btUint16 (.uint16 2195)] },
   { num := 207, devFields := [], fields := [mkField 3 btUint8 (.uint8 0)] },
   { num := 206, devFields := [], fields := [mkField 0 btUint8 (.uint8 0), mkField 1 btUint8 (.uint8 0), mkField 2 btUint8 (.uint8 0x84),
       mkField 3 btString (.sliceString [txt "dev0_x"]), mkField 8 btString (.sliceString [txt "bpm"])] },
   { num := 20, devFields := [⟨0, 0, .uint16 7⟩],
     fields := [mkField 5 btUint32 (.uint32 16039), mkField 18 btUint8 (.uint8 3), { mkField 19 btUint32 (.uint32 3) with isExpanded := true }] },
   { num := 78, devFields := [], fields := [mkField 0 btUint16 (.sliceUint16 [1000, 65535])] },
   { num := 21, devFields := [], fields := [mkField 0 btEnum (.uint8 0), mkField 3 btUint32 (.uint32 5)] }]

example : csvUnambiguousB {} [demoFull, demoFull] = true := by decide +kernel

/-- the cells of its file_id and record lines: product under the sub-field's name, the developer field under its
description's name -/
example : ((toCsv {} [demoFull]).filterMap fun l => match l with | .data n cs => some (n, cs.map (·.name)) | _ => none).take 4 =
    [(txt "file_id", [txt "type", txt "manufacturer", txt "garmin_product"]), (txt "developer_data_id", [txt "developer_data_index"]),
     (txt "field_description", [txt "developer_data_index", txt "field_definition_number", txt "fit_base_type_id", txt "field_name", txt "units"]),
     (txt "record", [txt "distance", txt "cycles", txt "total_cycles", txt "dev0_x"])] := by decide +kernel

/-- an input OUTSIDE `CsvUnambiguous` for which the statement fails (the scope is not idle): a developer field named
like the sub-field garmin_product — in the second file of a chain the reader takes the file_id's product cell for that
developer field -/
def demoClash : List Message :=
  [{ num := 0, devFields := [], fields := [mkField 0 btEnum (.uint8 4), mkField 1 btUint16 (.uint16 1), mkField 2 btUint16 (.uint16 2195)] },
   { num := 207, devFields := [], fields := [mkField 3 btUint8 (.uint8 0)] },
   { num := 206, devFields := [], fields := [mkField 0 btUint8 (.uint8 0), mkField 1 btUint8 (.uint8 0), mkField 2 btUint8 (.uint8 0x84),
       mkField 3 btString (.sliceString [txt "garmin_product"])] }]

example : csvUnambiguousB {} [demoClash, demoClash] = false ∧
    (match fromCsvPre Arith.so (toCsv {} [demoClash, demoClash]) with
     | .ok b => b.seqs == expected {} [demoClash, demoClash]
     | _ => false) = false := by decide +kernel

/-- (Earlier, narrower statement — subsumed by `C19_roundtrip`; kept because its hypotheses are semantic (`GoodMesg`) rather
than the decidable scope, and its conclusion is the model's own `expMesg`.)
**FIT → CSV → FIT gives the messages back, file by file** — raw mode and the default scaled mode, with and without
the verbose option, any number of files, messages and fields: for chains of files that start with their only file_id
and whose messages (`GoodMesg`) have no developer fields and consist of known fields without sub-field substitution
holding what the decoder produces for their base type (scalar or array; scaled fields: integer scalars of at most 32
bits) and of unknown fields, the reader returns exactly as many sequences as there were files and each sequence is the
file's messages as `expMesg` says: every field with its number, base type and value; unknown messages and fields kept
with the verbose option (`unknown(N)`, base type from the units cell) and dropped without it; the component targets of
fields present removed (`C19_removes_expansion_targets`). The arithmetic is the code's (`Arith.so`). -/
theorem C19_roundtrip_partial (o : Opts) (hdeg : o.degrees = false) (files : List (List Message)) (hne : files ≠ [])
    (hshape : ∀ f ∈ files, FileShape f) (hgood : ∀ f ∈ files, ∀ m ∈ f, GoodMesg o m) :
    fromCsvPre Arith.so (toCsv o files) = .ok ⟨files.map (·.filterMap (expMesg o)), files.length⟩ :=
  roundtrip_so o hdeg files hne hshape hgood

/-- non-vacuity of `C19_roundtrip_partial`: a file with a file_id, a record carrying a SCALED field (distance, uint32,
scale 100, the F07 value), an array field and an unknown field, and an unknown message — with the verbose option, default
(scaled) mode — meets the hypotheses -/
def demoFile : List Message :=
  [{ num := 0, devFields := [], fields := [mkField 0 btEnum (.uint8 4)] },
   { num := 20, devFields := [], fields := [mkField 5 btUint32 (.uint32 16039), mkField 250 btUint16 (.sliceUint16 [3, 4])] },
   { num := 65000, devFields := [], fields := [mkField 1 btSint8 (.int8 200)] }]

example : FileShape demoFile ∧ ∀ m ∈ demoFile, GoodMesg { verbose := true } m :=
  ⟨⟨_, _, rfl, rfl, by decide⟩, by decide +kernel⟩

example : (match fromCsvPre Arith.so (toCsv { verbose := true } [demoFile]) with
    | .ok b => b.seqs == [demoFile] && b.seq == 1
    | _ => false) = true := by decide +kernel

/-- **Chained inputs come back as the same number of sequences** (same class; subsumed by `C19_sequences`) -/
theorem C19_sequences_partial (o : Opts) (hdeg : o.degrees = false) (files : List (List Message)) (hne : files ≠ [])
    (hshape : ∀ f ∈ files, FileShape f) (hgood : ∀ f ∈ files, ∀ m ∈ f, GoodMesg o m) :
    ∃ b, fromCsvPre Arith.so (toCsv o files) = .ok b ∧ b.seq = files.length ∧ b.seqs.length = files.length := by
  refine ⟨_, roundtrip_so o hdeg files hne hshape hgood, rfl, ?_⟩
  simp

/-- the earlier statement for plain scalar messages, for ANY arithmetic (nothing scaled is written; subsumed by
`C19_roundtrip` for `Arith.so`) -/
theorem C19_raw_roundtrip_partial (ar : Arith) (o : Opts) (hdeg : o.degrees = false) (files : List (List Message))
    (hne : files ≠ []) (hshape : ∀ f ∈ files, FileShape f) (hplain : ∀ f ∈ files, ∀ m ∈ f, PlainMesg o m) :
    fromCsvPre ar (toCsv o files) = .ok ⟨files.map (·.map normMesg), files.length⟩ :=
  fromCsvPre_plain ar o hdeg files hne hshape hplain

/-- non-vacuity: the invalid uint16 of a field with scale 1 -/
example : parseCellValue Arith.id (cellPieces (formatAtoms (.uint16 65535))) btUint16 false false Csv.f64One 0 [109] = .ok (.uint16 65535) := by
  decide +kernel

/-! ## the text layer: the `copy` pass -/

/-- **Every line the converter wrote for a message reaches the CSV, padded to the header's comma count** (the lines as
they are with the trim option) — lines of ANY length: KF-C19-7, fixed in /repo (`copy` read the temporary buffer through a
`bufio.Scanner` with its default 64 KiB buffer and did not look at `scanner.Err()`: from the first line of 65536 bytes
on, every line was missing from the CSV without an error; a message is one line, and e.g. 65 byte-array fields of 255
elements make such a line). -/
theorem C19_copy_all_lines (o : Opts) (k : Nat) (ls : List Txt) (hc : ∀ x ∈ ls, commasOutside false x ≤ k) :
    copyLines o k ls = some (if o.trim then ls else ls.map (padLine k)) := by
  cases ht : o.trim
  · simp only [Bool.false_eq_true, ↓reduceIte]
    exact copyLines_pad o k ht ls hc
  · simp only [↓reduceIte]
    exact copyLines_trim o k ht ls

/-- the former witness class of KF-C19-7: a line of 65536 bytes between two others — all three are copied -/
theorem C19_copy_long_line_fixed (a b : Txt) (ha : commasOutside false a ≤ 2) (hb : commasOutside false b ≤ 2) :
    copyLines {} 2 [a, List.replicate scanLimit 97, b] = some [padLine 2 a, padLine 2 (List.replicate scanLimit 97), padLine 2 b] := by
  have hz : ∀ n, commasOutside false (List.replicate n 97) = 0 := by
    intro n
    induction n with
    | zero => rfl
    | succ n ih => simp [List.replicate_succ, commasOutside, ih]
  have := C19_copy_all_lines {} 2 [a, List.replicate scanLimit 97, b] (by
    intro x hx
    simp only [List.mem_cons, List.not_mem_nil, or_false] at hx
    rcases hx with rfl | rfl | rfl
    · exact ha
    · rw [hz]; omega
    · exact hb)
  simpa using this

/-! ## the text layer: integers, quoting, lines, the round trip through the text -/

/-- **`parse (format n) = n` for every integer base type**: the decimal text `strconv.FormatUint` / `FormatInt` print and
`strconv.ParseUint(s, 0, w)` / `ParseInt(s, 0, w)` as `parseValue` calls them (bit sizes 8, 16, 32, 64) — every value of
the type comes back, the minimum and the maximum included; a value outside the type is a range error, a negative
number is a syntax error for the unsigned types. For every `n`, `i` and `w` (no bound on the number of digits). -/
theorem C19_int_text_roundtrip (w : Nat) (hw : 0 < w) :
    (∀ n : Nat, parseUintT w (natDigits n) = if n < 2 ^ w then .ok n else .err) ∧
    (∀ i : Int, parseIntT w (intText i) = if inRangeS w i then .ok i else .err) ∧
    (∀ i : Int, parseUintT w (intText i) = if inRangeU w i then .ok i.toNat else .err) :=
  ⟨parseUintT_natDigits w, parseIntT_intText w hw, parseUintT_intText w⟩

/-- the extremes of every integer base type, as texts -/
example : parseIntT 64 (txt "-9223372036854775808") = .ok (-9223372036854775808) ∧ parseIntT 64 (txt "9223372036854775808") = .err ∧
    parseUintT 64 (txt "18446744073709551615") = .ok 18446744073709551615 ∧ parseUintT 64 (txt "18446744073709551616") = .err ∧
    parseIntT 8 (txt "-128") = .ok (-128) ∧ parseIntT 8 (txt "128") = .err ∧ parseIntT 8 (txt "+127") = .ok 127 ∧
    parseUintT 8 (txt "+1") = .err ∧ parseUintT 8 (txt "-0") = .err ∧ parseIntT 8 (txt "-0") = .ok 0 ∧
    parseUintT 8 (txt "007") = .unmodelled ∧ parseUintT 16 (txt "") = .err := by decide +kernel

/-- **`unquote ∘ split ∘ join ∘ quote = id`**: `encoding/csv` (settings of `NewCSVToFITConv`: no lazy quotes, no trimming of
leading space, any number of fields) reads back the cells of a line, for ANY non-empty list of cells over ANY bytes, each
written either as it is — when it holds neither `,` nor `"` — or between quotes with its quotes doubled (`writeCell`; the
value cells, always between quotes, hold no quote: `enc_valueCellT`). Leading and trailing spaces, non-ASCII bytes,
commas and quotes inside cells, empty cells all come back. Not in the statement: the line break and CR (10, 13) — a record
is one line here; `bufio.ScanLines` and `encoding/csv` drop a CR before a line break, and a line break inside a quoted cell
is cut by the `copy` pass (`format` removes both from string values: not printable). -/
theorem C19_csv_quoting_roundtrip (cells : List Txt) (hne : cells ≠ []) :
    csvRecord (joinComma (cells.map writeCellT)) = .record cells ∧
    commasOutside false (joinComma (cells.map writeCellT)) = cells.length - 1 := by
  have e1 : (cells.map fun c => (c, writeCellT c)).map (·.2) = cells.map writeCellT := by simp [List.map_map, Function.comp_def]
  have e2 : (cells.map fun c => (c, writeCellT c)).map (·.1) = cells := by simp [List.map_map, Function.comp_def]
  have henc : ∀ p ∈ cells.map fun c => (c, writeCellT c), Enc p.1 p.2 := by
    intro p hp
    obtain ⟨c, _, rfl⟩ := List.mem_map.mp hp
    exact enc_writeCellT c
  have h1 := csvRecord_join _ (by simpa using hne) henc
  have h2 := commas_join _ (by simpa using hne) henc
  rw [e1] at h1 h2
  rw [e2] at h1
  simp only [List.length_map] at h2
  exact ⟨h1, h2⟩

/-- units "m/s,m" (record.compressed_speed_distance), a name with a quote, leading and trailing spaces, an empty cell,
non-ASCII bytes -/
example : csvRecord (joinComma ([txt "m/s,m", txt "a\"b", txt " x ", [], txt "é"].map writeCellT)) =
    .record [txt "m/s,m", txt "a\"b", txt " x ", [], txt "é"] := by decide +kernel

/-- the lines of a text: no cell holds a line break -/
theorem C19_lines_roundtrip (ls : List Txt) (h : ∀ l ∈ ls, ∀ b ∈ l, b ≠ 10) : splitLines (joinLines ls) = ls :=
  splitLines_joinLines ls h

/-- **Every line of the CSV has as many columns as the header — columns as `encoding/csv` counts them on the TEXT**
(without the trim option): the converter never panics on a negative padding count (`csvText … = some …`) and every line
of the text, the header included, is read as 3 + 3·(largest number of fields of a message) cells — for ANY chain of files
(no scope hypothesis: names and units with separators or quotes are quoted by `writeCell`, the commas `copy` counts are
exactly the separators between cells, KF-C19-2; lines of any length, KF-C19-7). Float text enters only through the fact
that it holds no quote and no `|` (`FloatOK.chars`, asked of the float pieces that occur in the CSV of these files:
`csvAtoms`). -/
theorem C19_columns_text (tp : TextParam) (o : Opts) (ht : o.trim = false) (files : List (List Message))
    (hf : FloatOK tp (csvAtoms o files)) :
    ∃ lines, csvText tp o (toCsv o files) = some lines ∧
      ∀ x ∈ lines, ∃ cells, csvRecord x = .record cells ∧ cells.length = 3 + 3 * maxFields (toCsv o files) :=
  columns_text tp o ht files hf

/-- **FIT → CSV TEXT → FIT**: for every chain of files within `CsvUnambiguous` the converter writes a CSV text (header,
one line per message, padded) which the reader — `encoding/csv` record by record, `createMesg` on the record's cells,
`parseValue` with `strconv.ParseInt/ParseUint` on the text of every piece — turns back into the expected messages, in as
many sequences as files. The cell-level theorem `C19_roundtrip` composed with: the text of a line scans back to its cells
(`csvRecord_line`), padding commas are empty triples the reader passes over, every integer and string piece parses from
its text to what the cell-level reader gives (`sim_int`, `sim_str`), and the reader over text pieces follows the reader
over the writer's pieces step by step (`readLine_sim`). ASSUMED, as the explicit hypothesis `FloatOK tp (csvAtoms o files)`:
whatever goes through `strconv.ParseFloat` / `FormatFloat` (float fields, the scaled mode, degrees) — asked only of the float
pieces that occur in the CSV of the files at hand; an input written without any float piece (raw mode, integer and string
values) needs no assumption at all (`floatOK_of_none`, example below). -/
theorem C19_roundtrip_text (tp : TextParam) (o : Opts) (files : List (List Message)) (hf : FloatOK tp (csvAtoms o files))
    (hne : files ≠ []) (h : csvUnambiguousB o files = true) :
    ∃ lines, csvText tp o (toCsv o files) = some lines ∧
      fromCsvText (Arith.so.withText tp) lines = .ok ⟨expected o files, files.length⟩ :=
  roundtrip_text_gate tp o files hf hne h

/-- the text of the demo file's record line in raw mode (integers only: no assumption involved), and what the reader
makes of the whole text -/
def tpNoFloat : TextParam := { floatText := fun _ => [], readFloat := fun _ _ _ _ _ _ => .unmodelled }

/-- non-vacuity of `C19_roundtrip_text` / `C19_columns_text`: the CSV of the demo chain in raw mode holds no float piece,
`FloatOK` holds with nothing assumed — the two theorems apply to it unconditionally -/
example : FloatOK tpNoFloat (csvAtoms { raw := true } [demoFull, demoFull]) := by
  apply floatOK_of_none
  have h : (linesAtoms (toCsv { raw := true } [demoFull, demoFull])).all (fun a => !isFloatAtom a) = true := by decide +kernel
  intro a ha
  simpa using List.all_eq_true.mp h a ha

example : (csvText tpNoFloat { raw := true } (toCsv { raw := true } [demoFull])).map (·.drop 4 |>.head!) =
    some (txt "Data,0,record,distance,\"16039\",m,cycles,\"3\",cycles,total_cycles,\"3\",cycles,dev0_x,\"7\",bpm,,,") := by decide +kernel

example : (match csvText tpNoFloat { raw := true } (toCsv { raw := true } [demoFull, demoFull]) with
    | some lines => (match fromCsvText (Arith.so.withText tpNoFloat) lines with
        | .ok b => b.seqs == expected { raw := true } [demoFull, demoFull] && b.seq == 2
        | _ => false)
    | none => false) = true := by decide +kernel

end Fit.C19
