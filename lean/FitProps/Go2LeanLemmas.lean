import FitModel.GoPrelude
/-!
Lemmas about the run-time support of generated code (`FitModel/GoPrelude.lean`) and about the shape Lean's `do` notation
gives to the loops the translator emits. Used by the agreement theorems `FitProps/Go2Lean*.lean`.
-/
set_option linter.unusedSimpArgs false  -- spare lemmas keep the proofs stable under harmless rewrites of the source
namespace Fit.Go2Lean

/-- a `for x in l do s := f s x` loop in the `Option` monad that never panics is a left fold -/
theorem forIn_some_yield {α β : Type} (l : List α) (f : β → α → β) (s : β) :
    forIn l s (fun a s => some (ForInStep.yield (f s a))) = some (l.foldl f s) := by
  induction l generalizing s with
  | nil => rfl
  | cons a l ih => simp [ih]

/-- the same in the `Id` monad -/
theorem forIn_id_yield {α β : Type} (l : List α) (f : β → α → β) (s : β) :
    (forIn l s (fun a s => (pure (ForInStep.yield (f s a)) : Id _))) = (pure (l.foldl f s) : Id _) := by
  induction l generalizing s with
  | nil => rfl
  | cons a l ih => simp [ih]

/-! `Id.run do …` (the shape of a translated function that cannot panic): `Id α` is `α` -/
theorem id_run {α} (x : Id α) : Id.run x = x := rfl
theorem id_pure {α} (a : α) : (pure a : Id α) = a := rfl
theorem id_bind {α β} (x : Id α) (f : α → Id β) : x >>= f = f x := rfl

@[simp] theorem idx_eq {α} (l : List α) (i : Nat) : Go.idx l i = l[i]? := rfl

/-- `x & (2^k - 1)` is below `2^k` -/
theorem and_mask_lt (x k : Nat) : x &&& (2 ^ k - 1) < 2 ^ k :=
  Nat.lt_of_le_of_lt Nat.and_le_right (Nat.sub_lt (Nat.two_pow_pos k) (by decide))

theorem and_15_lt (x : Nat) : x &&& 15 < 16 := and_mask_lt x 4
theorem and_31_lt (x : Nat) : x &&& 31 < 32 := and_mask_lt x 5

end Fit.Go2Lean
