import FitModel.GoPrelude
/-!
Lemmas about the run-time support of generated code (`FitModel/GoPrelude.lean`) and about the shape Lean's `do` notation
gives to the loops the translator emits. Used by the agreement theorems `FitProps/Go2Lean*.lean`.
-/
set_option linter.unusedSimpArgs false  -- spare lemmas keep the proofs stable under harmless rewrites of the source
namespace Fit.Go2Lean

/-- a `for x in l do s := f s x` loop in the `Option` monad that never panics is a left fold -/
theorem forIn_some_yield {α β : Type} (l : List α) (f : β → α → β) (s : β) :
    forIn l s (fun a s => some (ForInStep.yield (f s a))) = some (l.foldl f s) := by
  induction l generalizing s with
  | nil => rfl
  | cons a l ih => simp [ih]

/-- the same when the step is only known on states satisfying an invariant `I` (e.g. "below 2^16") -/
theorem forIn_some_yield_inv {α β : Type} (I : β → Prop) (l : List α) (g : β → α → Option β) (f : β → α → β)
    (hg : ∀ s a, I s → g s a = some (f s a)) (hI : ∀ s a, I s → I (f s a)) (s : β) (hs : I s) :
    forIn l s (fun a s => (g s a).bind (fun x => some (ForInStep.yield x))) = some (l.foldl f s) := by
  induction l generalizing s with
  | nil => rfl
  | cons a l ih => simp [hg s a hs, ih (f s a) (hI s a hs)]

/-- the same in the `Id` monad -/
theorem forIn_id_yield {α β : Type} (l : List α) (f : β → α → β) (s : β) :
    (forIn l s (fun a s => (pure (ForInStep.yield (f s a)) : Id _))) = (pure (l.foldl f s) : Id _) := by
  induction l generalizing s with
  | nil => rfl
  | cons a l ih => simp [ih]

/-! `Id.run do …` (the shape of a translated function that cannot panic): `Id α` is `α` -/
theorem id_run {α} (x : Id α) : Id.run x = x := rfl
theorem id_pure {α} (a : α) : (pure a : Id α) = a := rfl
theorem id_bind {α β} (x : Id α) (f : α → Id β) : x >>= f = f x := rfl

@[simp] theorem idx_eq {α} (l : List α) (i : Nat) : Go.idx l i = l[i]? := rfl

theorem idxI_cons_succ {α} (a : α) (p : List α) (k : Nat) : Go.idxI (a :: p) ((k : Int) + 1) = Go.idxI p (k : Int) := by
  unfold Go.idxI
  have h1 : ¬ ((k : Int) + 1 < 0) := by omega
  have h2 : ¬ ((k : Int) < 0) := by omega
  have h3 : ((k : Int) + 1).toNat = k + 1 := by omega
  simp [h1, h2, h3]

/-- `for i := range p { … p[i] … }` is `for _, b := range p { … b … }` -/
theorem forIn_rangeI_idx {α β : Type} (p : List α) (f : α → β → Option (ForInStep β)) (s : β) :
    forIn (Go.rangeI p.length) s (fun i s => (Go.idxI p i).bind (fun b => f b s)) = forIn p s f := by
  suffices H : ∀ (pre : List α) (s : β),
      forIn ((List.range p.length).map (fun k => ((k + pre.length : Nat) : Int))) s (fun i s => (Go.idxI (pre ++ p) i).bind (fun b => f b s)) = forIn p s f by
    have := H [] s
    simpa [Go.rangeI] using this
  induction p with
  | nil => intro pre s; simp
  | cons a p ih =>
    intro pre s
    rw [List.length_cons, List.range_succ_eq_map, List.map_cons, List.map_map, List.forIn_cons, List.forIn_cons]
    have h0 : Go.idxI (pre ++ a :: p) ((0 + pre.length : Nat) : Int) = some a := by
      simp [Go.idxI]
    rw [h0]
    simp only [Option.bind_some]
    have := ih (pre ++ [a])
    simp only [List.append_assoc, List.cons_append, List.nil_append, List.length_append, List.length_cons, List.length_nil] at this
    have e : (fun k => ((k + pre.length : Nat) : Int)) ∘ Nat.succ = fun k => ((k + (pre.length + 0 + 1) : Nat) : Int) := by
      funext k; simp; omega
    rw [e]
    congr 1
    funext r
    cases r with
    | done b => rfl
    | yield b => exact this b

/-- `for i := 0; i < len(p); i++` ranges over the same indexes as `for i := range p` -/
theorem upI_zero (n : Nat) : Go.upI 0 (n : Int) = Go.rangeI n := by simp [Go.rangeI, Go.upI]

/-- `x & (2^k - 1)` is below `2^k` -/
theorem and_mask_lt (x k : Nat) : x &&& (2 ^ k - 1) < 2 ^ k :=
  Nat.lt_of_le_of_lt Nat.and_le_right (Nat.sub_lt (Nat.two_pow_pos k) (by decide))

theorem and_15_lt (x : Nat) : x &&& 15 < 16 := and_mask_lt x 4
theorem and_31_lt (x : Nat) : x &&& 31 < 32 := and_mask_lt x 5

end Fit.Go2Lean
