import FitProps.WriterCrashLemmas
import FitProps.WriterCtxLemmas
/-!
A cancelled `EncodeWithContext` leaves the destination in a state the uncancelled call passes through: under the same fault
schedule the destination of `Encode` is the destination of the cancelled call after some FURTHER operations (`Ext`) — the
cancelled call has issued a prefix of the operations of the uncancelled one, each of them in full.
-/
namespace Fit.Writer
open Fit.Wire Fit.Crc

/-- the cancelled run `a` against the uncancelled run `b` of the same function: they agree (state and result), or `a`
stopped with `ctx.Err()` in a state from which `b` went on -/
def CtxStep (a : Enc × Res) (b : Enc × Bool) : Prop :=
  (a.1 = b.1 ∧ a.2 = resOf b.2) ∨ (a.2 = .ec ∧ Ext a.1.w.d b.1.w.d)

theorem encodeMessagesCtx_step (F : Faults) (o : Opts) : ∀ (ms : List WMsg) (c : Ctx) (e : Enc),
    CtxStep ((encodeMessagesCtx F o c e ms).1, (encodeMessagesCtx F o c e ms).2.2) (encodeMessages F o e ms)
  | [], _, _ => Or.inl ⟨rfl, rfl⟩
  | m :: ms, c, e => by
    unfold encodeMessagesCtx
    by_cases hc : c.cancelled = true
    · rw [if_pos hc]
      exact Or.inr ⟨rfl, encodeMessages_ext F o (m :: ms) e⟩
    · rw [if_neg hc]
      unfold encodeMessages
      by_cases h1 : (encodeMessage F o e m).2 = true
      · simp only [h1, if_true]
        exact encodeMessagesCtx_step F o ms c.tick _
      · simp only [h1, Bool.false_eq_true, if_false]
        exact Or.inl ⟨rfl, by simp [resOf, h1]⟩

theorem encodeBodyCtx_step (F : Faults) (o : Opts) (c : Ctx) (e : Enc) (h : Hdr) (ds : Nat) (ms : List WMsg) :
    CtxStep ((encodeBodyCtx F o c e h ds ms).1, (encodeBodyCtx F o c e h ds ms).2.2) (encodeBody F o e h ds ms) := by
  unfold encodeBodyCtx encodeBody
  by_cases h1 : (encodeFileHeader F e h ds).2 = true
  · simp only [h1, Bool.not_true, Bool.false_eq_true, if_false]
    rcases encodeMessagesCtx_step F o ms c (encodeFileHeader F e h ds).1 with ⟨a1, a2⟩ | ⟨a1, a2⟩
    · simp only at a1 a2
      by_cases h2 : (encodeMessages F o (encodeFileHeader F e h ds).1 ms).2 = true
      · have hok : (encodeMessagesCtx F o c (encodeFileHeader F e h ds).1 ms).2.2 = .ok := by rw [a2, h2]; rfl
        simp only [hok, bne_self_eq_false, Bool.false_eq_true, if_false, h2, Bool.not_true]
        rw [a1]
        exact Or.inl ⟨rfl, rfl⟩
      · have hne : ((encodeMessagesCtx F o c (encodeFileHeader F e h ds).1 ms).2.2 != Res.ok) = true := by
          rw [a2]; simp [resOf, h2]
        simp only [hne, if_true, h2, Bool.not_false]
        exact Or.inl ⟨a1, a2⟩
    · simp only at a1 a2
      have hne : ((encodeMessagesCtx F o c (encodeFileHeader F e h ds).1 ms).2.2 != Res.ok) = true := by rw [a1]; rfl
      simp only [hne, if_true]
      refine Or.inr ⟨a1, a2.trans ?_⟩
      split
      · exact Ext.refl _
      · exact encodeCRC_ext F _
  · simp only [h1, Bool.not_false, if_true]
    exact Or.inl ⟨rfl, by simp [resOf, h1]⟩

theorem encodeDirectCtx_step (F : Faults) (o : Opts) (c : Ctx) (e : Enc) (h : Hdr) (ds0 : Nat) (ms : List WMsg) :
    CtxStep ((encodeDirectCtx F o c e h ds0 ms).1, (encodeDirectCtx F o c e h ds0 ms).2.2) (encodeDirect F o e h ds0 ms) := by
  unfold encodeDirectCtx encodeDirect
  rcases encodeBodyCtx_step F o c e h ds0 ms with ⟨a1, a2⟩ | ⟨a1, a2⟩
  · simp only at a1 a2
    by_cases h2 : (encodeBody F o e h ds0 ms).2 = true
    · have hok : (encodeBodyCtx F o c e h ds0 ms).2.2 = .ok := by rw [a2, h2]; rfl
      simp only [hok, bne_self_eq_false, Bool.false_eq_true, if_false, h2, Bool.not_true]
      rw [a1]
      exact Or.inl ⟨rfl, rfl⟩
    · have hne : ((encodeBodyCtx F o c e h ds0 ms).2.2 != Res.ok) = true := by rw [a2]; simp [resOf, h2]
      simp only [hne, if_true, h2, Bool.not_false]
      exact Or.inl ⟨a1, a2⟩
  · simp only at a1 a2
    have hne : ((encodeBodyCtx F o c e h ds0 ms).2.2 != Res.ok) = true := by rw [a1]; rfl
    simp only [hne, if_true]
    refine Or.inr ⟨a1, a2.trans ?_⟩
    split
    · exact Ext.refl _
    · exact updateFileHeader_ext F _ _ _

theorem dryPassCtx_some (o : Opts) : ∀ (ms : List WMsg) (c : Ctx) (s : EncState) (ds : Nat) (t : Nat × List WMsg),
    (dryPassCtx o c s ds ms).2 = some t → t = dryPass o s ds ms
  | [], _, _, _, t, h => by
    simp only [dryPassCtx, Option.some.injEq] at h
    exact h.symm
  | m :: ms, c, s, ds, t, h => by
    unfold dryPassCtx at h
    by_cases hc : c.cancelled = true
    · rw [if_pos hc] at h; cases h
    · rw [if_neg hc] at h
      simp only at h
      cases hr : (dryPassCtx o c.tick (dryMessage o s m).1 ((ds + (dryMessage o s m).2.1) % 4294967296) ms).2 with
      | none => rw [hr] at h; cases h
      | some t' =>
        rw [hr] at h
        have := dryPassCtx_some o ms c.tick _ _ t' hr
        simp only [Option.map_some, Option.some.injEq] at h
        rw [← h, this]
        rfl

theorem encodeEarlyCtx_step (cc : CtxCfg) (F : Faults) (o : Opts) (c : Ctx) (e : Enc) (h : Hdr) (ms : List WMsg) :
    CtxStep ((encodeEarlyCtx cc F o c e h ms).1, (encodeEarlyCtx cc F o c e h ms).2.2.1) (encodeEarly F o e h ms) := by
  unfold encodeEarlyCtx encodeEarly
  cases hd : dryPassCtx o c e.es e.dataSize ms with
  | mk c' r =>
    cases r with
    | none =>
      simp only
      exact Or.inr ⟨rfl, encodeBody_ext F o (e.reset o) h _ _⟩
    | some dry =>
      have := dryPassCtx_some o ms c e.es e.dataSize dry (by rw [hd])
      subst this
      simp only
      exact encodeBodyCtx_step F o c' (e.reset o) h _ _

/-- UNDER THE SAME FAULT SCHEDULE, the destination after `Encode` is the destination after the (possibly cancelled)
`EncodeWithContext` followed by further operations: the cancelled call has issued a PREFIX of the uncancelled call's
operations, each in full — its destination is a crash state of the uncancelled call at an operation boundary. -/
theorem encodeCtx_ext_plain (cc : CtxCfg) (F : Faults) (o : Opts) (c : Ctx) (e : Enc) (f : FitIn) :
    Ext (encodeCtx cc F o c ⟨e, false⟩ f).1.e.w.d (encode F o e f).1.w.d := by
  unfold encodeCtx encode
  simp only [Bool.false_eq_true, if_false]
  by_cases hk : e.w.kind.direct = true
  · simp only [hk, if_true]
    rcases encodeDirectCtx_step F o c e f.hdr f.ds0 f.msgs with ⟨a1, a2⟩ | ⟨a1, a2⟩
    · simp only at a1 a2
      by_cases h2 : (encodeDirect F o e f.hdr f.ds0 f.msgs).2 = true
      · have hok : (encodeDirectCtx F o c e f.hdr f.ds0 f.msgs).2.2 = .ok := by rw [a2, h2]; rfl
        simp only [hok, bne_self_eq_false, Bool.false_eq_true, if_false, h2, Bool.not_true]
        rw [a1]
        exact Ext.refl _
      · have hne : ((encodeDirectCtx F o c e f.hdr f.ds0 f.msgs).2.2 != Res.ok) = true := by rw [a2]; simp [resOf, h2]
        simp only [hne, if_true, h2, Bool.not_false]
        rw [a1]
        exact Ext.refl _
    · simp only at a1 a2
      have hne : ((encodeDirectCtx F o c e f.hdr f.ds0 f.msgs).2.2 != Res.ok) = true := by rw [a1]; rfl
      simp only [hne, if_true]
      refine Ext.trans (a := (encodeDirectCtx F o c e f.hdr f.ds0 f.msgs).1.w.d) (Ext.refl _) (a2.trans ?_)
      split
      · exact Ext.refl _
      · exact W.flush_ext F _
  · simp only [hk, Bool.false_eq_true, if_false]
    rcases encodeEarlyCtx_step cc F o c e f.hdr f.msgs with ⟨a1, a2⟩ | ⟨a1, a2⟩
    · simp only at a1 a2
      by_cases h2 : (encodeEarly F o e f.hdr f.msgs).2 = true
      · have hok : (encodeEarlyCtx cc F o c e f.hdr f.msgs).2.2.1 = .ok := by rw [a2, h2]; rfl
        simp only [hok, bne_self_eq_false, Bool.false_eq_true, if_false, h2, Bool.not_true]
        rw [a1]
        exact Ext.refl _
      · have hne : ((encodeEarlyCtx cc F o c e f.hdr f.msgs).2.2.1 != Res.ok) = true := by rw [a2]; simp [resOf, h2]
        simp only [hne, if_true, h2, Bool.not_false]
        rw [a1]
        exact Ext.refl _
    · simp only at a1 a2
      have hne : ((encodeEarlyCtx cc F o c e f.hdr f.msgs).2.2.1 != Res.ok) = true := by rw [a1]; rfl
      simp only [hne, if_true]
      refine Ext.trans (a := (encodeEarlyCtx cc F o c e f.hdr f.msgs).1.w.d) (Ext.refl _) (a2.trans ?_)
      split
      · exact Ext.refl _
      · exact W.flush_ext F _

/-! ### the cancelled call itself only adds operations -/

theorem encodeMessagesCtx_ext (F : Faults) (o : Opts) : ∀ (ms : List WMsg) (c : Ctx) (e : Enc),
    Ext e.w.d (encodeMessagesCtx F o c e ms).1.w.d
  | [], _, e => Ext.refl _
  | m :: ms, c, e => by
    unfold encodeMessagesCtx
    split
    · exact Ext.refl _
    · dsimp only
      split
      · exact (encodeMessage_ext F o e m).trans (encodeMessagesCtx_ext F o ms c.tick _)
      · exact encodeMessage_ext F o e m

theorem encodeBodyCtx_ext (F : Faults) (o : Opts) (c : Ctx) (e : Enc) (h : Hdr) (ds : Nat) (ms : List WMsg) :
    Ext e.w.d (encodeBodyCtx F o c e h ds ms).1.w.d := by
  unfold encodeBodyCtx
  simp only
  split
  · exact encodeFileHeader_ext F e h ds
  · have h2 := (encodeFileHeader_ext F e h ds).trans (encodeMessagesCtx_ext F o ms c (encodeFileHeader F e h ds).1)
    split
    · exact h2
    · exact h2.trans (encodeCRC_ext F _)

theorem encodeDirectCtx_ext (F : Faults) (o : Opts) (c : Ctx) (e : Enc) (h : Hdr) (ds0 : Nat) (ms : List WMsg) :
    Ext e.w.d (encodeDirectCtx F o c e h ds0 ms).1.w.d := by
  unfold encodeDirectCtx
  simp only
  split
  · exact encodeBodyCtx_ext F o c e h ds0 ms
  · exact (encodeBodyCtx_ext F o c e h ds0 ms).trans (updateFileHeader_ext F _ _ _)

theorem encodeEarlyCtx_ext (cc : CtxCfg) (F : Faults) (o : Opts) (c : Ctx) (e : Enc) (h : Hdr) (ms : List WMsg) :
    Ext e.w.d (encodeEarlyCtx cc F o c e h ms).1.w.d := by
  unfold encodeEarlyCtx
  cases hd : dryPassCtx o c e.es e.dataSize ms with
  | mk c' r =>
    cases r with
    | none => exact Ext.refl _
    | some dry => exact encodeBodyCtx_ext F o c' (e.reset o) h _ _

theorem encodeCtx_ext (cc : CtxCfg) (F : Faults) (o : Opts) (c : Ctx) (x : EncC) (f : FitIn) :
    Ext x.e.w.d (encodeCtx cc F o c x f).1.e.w.d := by
  unfold encodeCtx
  split
  · exact Ext.refl _
  · by_cases hk : x.e.w.kind.direct = true
    · simp only [hk, if_true]
      have h1 := encodeDirectCtx_ext F o c x.e f.hdr f.ds0 f.msgs
      split
      · exact h1
      · exact h1.trans (W.flush_ext F _)
    · simp only [hk, Bool.false_eq_true, if_false]
      have h1 := encodeEarlyCtx_ext cc F o c x.e f.hdr f.msgs
      split
      · exact h1
      · exact h1.trans (W.flush_ext F _)

/-- with the validators in front: the operations of the (possibly cancelled) `EncodeWithContext` are a prefix of the
operations of `Encode` on the same input, under the same fault schedule -/
theorem encodeCtxV_prefix {σ : Type} (V : MsgValidator σ) (cc : CtxCfg) (F : Faults) (o : Opts) (c : Ctx) (e : Enc) (f : FitIn) :
    ∃ ops1 ops2 : List DOp,
      (encodeCtxV V cc F o c ⟨e, false⟩ f).1.e.w.d = e.w.d.run ops1 ∧
      (encodeV V F o e f).1.w.d = e.w.d.run (ops1 ++ ops2) := by
  unfold encodeCtxV encodeV
  split
  · exact ⟨[], [], rfl, rfl⟩
  · split
    · exact ⟨[], [], rfl, rfl⟩
    · cases hv : validateAll V V.init f.msgs with
      | none => exact ⟨[], [], rfl, rfl⟩
      | some ms' =>
        simp only
        obtain ⟨ops1, h1⟩ := encodeCtx_ext cc F o c ⟨e, false⟩ { f with msgs := ms' }
        obtain ⟨ops2, h2⟩ := encodeCtx_ext_plain cc F o c e { f with msgs := ms' }
        refine ⟨ops1, ops2, h1, ?_⟩
        rw [h2, h1, Dest.run_append]

end Fit.Writer
