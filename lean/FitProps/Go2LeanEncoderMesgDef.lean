import FitProps.Go2LeanProtoMarshal
import FitModel.Generated.Go_encodermesgdef
/-!
Agreement of the statement blocks GENERATED from encoder/encoder.go `newMessageDefinition` (`Go.encodermesgdef.*`: the fixed
part of the definition and the developer-data flag), composed with the translated `MessageDefinition.MarshalAppend`
(`Go.protomarshal`), with `Fit.Wire.defBytes` — the definition bytes the encoder model of C01 puts into the LRU and writes.
-/
set_option linter.unusedSimpArgs false
namespace Fit.Go2Lean
open Go.protomarshal

/-- the `proto.MessageDefinition` as the ENCODER's `newMessageDefinition` leaves it in `e.mesgDef` for a message of the wire
model: the translated block sets header, reserved, architecture and message number over whatever `e.mesgDef` held before
(`h0 r0 a0 n0`); the translated `e.mesgDef.Header |= proto.DevDataMask` is applied when the message has developer fields; one
definition per (developer) field with the value's size truncated to a byte (`byte(Value.Size())`: proto.Value is outside the
translator's subset, so this part is written by hand) -/
def pmEncDefOf (h0 r0 a0 n0 arch : Nat) (m : Fit.Wire.WMsg) : MessageDefinition :=
  let o := Go.encodermesgdef.newMessageDefinition_fixed a0 h0 n0 r0 arch m.num
  { Header := if m.devs.isEmpty then o.e_mesgDef_Header
              else (Go.encodermesgdef.newMessageDefinition_devHeader o.e_mesgDef_Header).e_mesgDef_Header
    Reserved := o.e_mesgDef_Reserved
    Architecture := o.e_mesgDef_Architecture
    MesgNum := o.e_mesgDef_MesgNum
    FieldDefinitions := m.fields.map (fun f => ⟨f.num, f.data.length % 256, f.bt⟩)
    DeveloperFieldDefinitions := m.devs.map (fun d => ⟨d.num, d.data.length % 256, d.idx⟩) }

/-- whatever `e.mesgDef` held before, the definition the encoder builds is the one of `pmDefOf` … -/
theorem pm_enc_def_eq (h0 r0 a0 n0 arch : Nat) (m : Fit.Wire.WMsg) : pmEncDefOf h0 r0 a0 n0 arch m = pmDefOf arch m := by
  unfold pmEncDefOf pmDefOf Go.encodermesgdef.newMessageDefinition_fixed Go.encodermesgdef.newMessageDefinition_devHeader
    NewMessageDefinition_devHeader MesgDefinitionMask
  rfl

/-- … and the translated `MarshalAppend` of it appends `Fit.Wire.defBytes arch m`, for every message, byte order, buffer and
previous content of `e.mesgDef` -/
theorem pm_enc_def_wire (h0 r0 a0 n0 arch : Nat) (m : Fit.Wire.WMsg) (b : List Nat) :
    MessageDefinition.MarshalAppend (pmEncDefOf h0 r0 a0 n0 arch m) b = some (b ++ Fit.Wire.defBytes arch m) := by
  rw [pm_enc_def_eq, pm_def_wire]

end Fit.Go2Lean
