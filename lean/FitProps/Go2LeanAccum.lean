import FitModel.Accum
import FitModel.Generated.Go_decoderbits
import FitProps.Go2LeanBits
/-!
Agreement of `(*Accumulator).Collect / Accumulate / Reset` GENERATED from decoder/accumulator.go (loops over the index with an
alias `av := &a.values[i]`, writes through it, early `return`, `append`) with the hand-written model `Fit.Accum`
(structural recursion over the table) that the accumulation theorems of C05 are about — for every table and all arguments.
-/
set_option linter.unusedSimpArgs false
namespace Fit.Go2Lean
open Fit.Accum

/-- an entry of the model as the Go struct `value` -/
def toGo (e : Entry) : Go.decoderbits.value := ⟨e.mesgNum, e.fieldNum, e.last, e.value⟩

theorem rangeI_eq_upI (n : Nat) : Go.rangeI n = Go.upI 0 (n : Int) := by
  simp [Go.rangeI, Go.upI]

/-- the first matching entry updated by `g`, if there is one -/
def hit (m f : Nat) (g : Entry → Entry) : List Entry → Option (List Entry)
  | [] => none
  | e :: es => if e.mesgNum = m ∧ e.fieldNum = f then some (g e :: es) else (hit m f g es).map (e :: ·)

/-- invariant of the search loops: entering iteration `done.length` with the table `done ++ tail`, nothing returned yet -/
theorem search_loop {ρ : Type} (m f : Nat) (g : Entry → Entry) (r : Go.decoderbits.Accumulator → Entry → ρ)
    (F : Int → (Option ρ × Go.decoderbits.Accumulator) → Option (ForInStep ((Option ρ × Go.decoderbits.Accumulator))))
    (hF : ∀ (done : List Go.decoderbits.value) (e : Entry) (rest : List Entry),
      F (done.length : Int) ⟨none, ⟨done ++ toGo e :: rest.map toGo⟩⟩ = some (
        if e.mesgNum = m ∧ e.fieldNum = f
        then ForInStep.done ⟨some (r ⟨done ++ toGo (g e) :: rest.map toGo⟩ e), ⟨done ++ toGo (g e) :: rest.map toGo⟩⟩
        else ForInStep.yield ⟨none, ⟨done ++ toGo e :: rest.map toGo⟩⟩)) :
    ∀ (tail : List Entry) (done : List Go.decoderbits.value),
      forIn (Go.upI (done.length : Int) ((done.length : Int) + (tail.length : Int)))
          (⟨none, ⟨done ++ tail.map toGo⟩⟩ : (Option ρ × Go.decoderbits.Accumulator)) F
        = some (match hit m f g tail, tail.find? (fun e => e.mesgNum = m ∧ e.fieldNum = f) with
          | some tail', some e => ⟨some (r ⟨done ++ tail'.map toGo⟩ e), ⟨done ++ tail'.map toGo⟩⟩
          | _, _ => ⟨none, ⟨done ++ tail.map toGo⟩⟩) := by
  intro tail
  induction tail with
  | nil => intro done; simp [upI_nil, hit]
  | cons e rest ih =>
    intro done
    rw [upI_cons _ _ (by simp only [List.length_cons]; omega), List.forIn_cons]
    simp only [List.map_cons]
    rw [hF done e rest]
    by_cases hm : e.mesgNum = m ∧ e.fieldNum = f
    · simp [hm, hit]
    · have := ih (done ++ [toGo e])
      have e1 : (done.length : Int) + 1 = ((done ++ [toGo e]).length : Int) := by simp
      have e2 : (done.length : Int) + ((e :: rest).length : Int) = ((done ++ [toGo e]).length : Int) + (rest.length : Int) := by
        simp; omega
      rw [e1, e2]
      simp only [List.append_assoc, List.cons_append, List.nil_append] at this
      simp only [hm, if_false, Option.bind_eq_bind, Option.bind_some, this, hit, List.find?_cons, decide_false]
      cases hit m f g rest <;> cases List.find? (fun e => decide (e.mesgNum = m ∧ e.fieldNum = f)) rest <;> simp

theorem search_loop0 {ρ : Type} (m f : Nat) (g : Entry → Entry) (r : Go.decoderbits.Accumulator → Entry → ρ)
    (F : Int → (Option ρ × Go.decoderbits.Accumulator) → Option (ForInStep ((Option ρ × Go.decoderbits.Accumulator))))
    (hF : ∀ (done : List Go.decoderbits.value) (e : Entry) (rest : List Entry),
      F (done.length : Int) ⟨none, ⟨done ++ toGo e :: rest.map toGo⟩⟩ = some (
        if e.mesgNum = m ∧ e.fieldNum = f
        then ForInStep.done ⟨some (r ⟨done ++ toGo (g e) :: rest.map toGo⟩ e), ⟨done ++ toGo (g e) :: rest.map toGo⟩⟩
        else ForInStep.yield ⟨none, ⟨done ++ toGo e :: rest.map toGo⟩⟩))
    (tail : List Entry) :
    forIn (Go.upI 0 (tail.length : Int)) (⟨none, ⟨tail.map toGo⟩⟩ : (Option ρ × Go.decoderbits.Accumulator)) F
      = some (match hit m f g tail, tail.find? (fun e => e.mesgNum = m ∧ e.fieldNum = f) with
        | some tail', some e => ⟨some (r ⟨tail'.map toGo⟩ e), ⟨tail'.map toGo⟩⟩
        | _, _ => ⟨none, ⟨tail.map toGo⟩⟩) := by
  have key := search_loop m f g r F hF tail []
  simpa using key

theorem collect_eq_hit (a : Acc) (m f v : Nat) :
    collect a m f v = (hit m f (fun e => { e with last := v, value := v }) a).getD (a ++ [⟨m, f, v, v⟩]) := by
  induction a with
  | nil => rfl
  | cons e es ih =>
    by_cases hm : e.mesgNum = m ∧ e.fieldNum = f
    · simp [collect, hit, hm]
    · simp only [collect, hit, hm, if_false, ih]
      cases hit m f (fun e => { e with last := v, value := v }) es <;> simp

theorem hit_find (m f : Nat) (g : Entry → Entry) (a : Acc) :
    (hit m f g a).isSome = (a.find? (fun e => e.mesgNum = m ∧ e.fieldNum = f)).isSome := by
  induction a with
  | nil => rfl
  | cons e es ih =>
    by_cases hm : e.mesgNum = m ∧ e.fieldNum = f
    · simp [hit, hm]
    · simp [hit, hm, ih]

/-- `Collect` never panics and is the model's `collect` -/
theorem accum_collect (a : Acc) (m f v : Nat) :
    Go.decoderbits.Accumulator.Collect ⟨a.map toGo⟩ m f v = some ⟨(collect a m f v).map toGo⟩ := by
  unfold Go.decoderbits.Accumulator.Collect
  simp only [rangeI_eq_upI, List.length_map]
  rw [search_loop0 m f (fun e => { e with last := v, value := v }) (fun a' _ => a') _ ?_ a]
  · rw [collect_eq_hit]
    have hf := hit_find m f (fun e => { e with last := v, value := v }) a
    cases h1 : hit m f (fun e => { e with last := v, value := v }) a <;>
      cases h2 : List.find? (fun e => decide (e.mesgNum = m ∧ e.fieldNum = f)) a <;>
      first | (rw [h1, h2] at hf; simp at hf; done) | simp [h1, h2, toGo]
  · intro done e rest
    simp only [idxI_mid, setIdxI_mid, Option.bind_eq_bind, Option.bind_some, Option.pure_def]
    by_cases hm : e.mesgNum = m ∧ e.fieldNum = f
    · simp [hm, toGo]
    · have : ¬ ((toGo e).mesgNum = m ∧ (toGo e).fieldNum = f) := hm
      simp [hm, this, toGo]

theorem mask32_eq (n : Nat) : ((1 <<< n) % 2 ^ 32 + 2 ^ 32 - 1) % 2 ^ 32 = mask n := by
  unfold mask U32
  rw [Nat.shiftLeft_eq, Nat.one_mul]
  by_cases h : n ≥ 32
  · have : 2 ^ n % 2 ^ 32 = 0 := Nat.mod_eq_zero_of_dvd (Nat.pow_dvd_pow 2 h)
    simp [h, this]
  · have h1 : 2 ^ n < 2 ^ 32 := Nat.pow_lt_pow_right (by decide) (by omega)
    have h2 : 1 ≤ 2 ^ n := Nat.one_le_two_pow
    rw [Nat.mod_eq_of_lt h1]
    simp only [h, if_false]
    omega

/-- what `Accumulate` does to the matching entry -/
def accStep (v bits : Nat) (e : Entry) : Entry :=
  { e with last := v, value := (e.value + ((v + U32 - e.last) % U32 &&& mask bits)) % U32 }

theorem accumulate_eq_hit (a : Acc) (m f v bits : Nat) :
    accumulate a m f v bits =
      (match hit m f (accStep v bits) a, a.find? (fun e => e.mesgNum = m ∧ e.fieldNum = f) with
       | some t, some e => ((accStep v bits e).value, t)
       | _, _ => (v, a ++ [⟨m, f, v, v⟩])) := by
  induction a with
  | nil => rfl
  | cons e es ih =>
    by_cases hm : e.mesgNum = m ∧ e.fieldNum = f
    · simp [accumulate, hit, hm, accStep]
    · have hf := hit_find m f (accStep v bits) es
      simp only [accumulate, hit, hm, if_false, ih, List.find?_cons, decide_false]
      cases h1 : hit m f (accStep v bits) es <;>
        cases h2 : List.find? (fun e => decide (e.mesgNum = m ∧ e.fieldNum = f)) es <;>
        first | (rw [h1, h2] at hf; simp at hf; done) | simp [h1, h2]

/-- `Accumulate` never panics and is the model's `accumulate`: returned value and new table -/
theorem accum_accumulate (a : Acc) (m f v bits : Nat) :
    Go.decoderbits.Accumulator.Accumulate ⟨a.map toGo⟩ m f v bits
      = some (⟨(accumulate a m f v bits).2.map toGo⟩, (accumulate a m f v bits).1) := by
  unfold Go.decoderbits.Accumulator.Accumulate
  simp only [rangeI_eq_upI, List.length_map, mask32_eq]
  rw [search_loop0 m f (accStep v bits) (fun a' e => (a', (accStep v bits e).value)) _ ?_ a]
  · rw [accumulate_eq_hit]
    have hf := hit_find m f (accStep v bits) a
    cases h1 : hit m f (accStep v bits) a <;>
      cases h2 : List.find? (fun e => decide (e.mesgNum = m ∧ e.fieldNum = f)) a <;>
      first | (rw [h1, h2] at hf; simp at hf; done) | simp [h1, h2, toGo]
  · intro done e rest
    simp only [idxI_mid, setIdxI_mid, Option.bind_eq_bind, Option.bind_some, Option.pure_def]
    by_cases hm : e.mesgNum = m ∧ e.fieldNum = f
    · simp [hm, toGo, accStep, U32]
    · have : ¬ ((toGo e).mesgNum = m ∧ (toGo e).fieldNum = f) := hm
      simp [hm, this, toGo]

/-- `Reset` empties the table -/
theorem accum_reset (a : Acc) : Go.decoderbits.Accumulator.Reset ⟨a.map toGo⟩ = some ⟨(reset : Acc).map toGo⟩ := by
  simp [Go.decoderbits.Accumulator.Reset, Go.slice, reset]

end Fit.Go2Lean
