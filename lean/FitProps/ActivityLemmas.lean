import FitModel.ActivitySpec
/-! Lemmas about the fitactivity model (C20). Core Lean only. -/
namespace Fit.Activity
open Fit.Value Fit.Msg Fit.Gen Fit.Gen.Tool

/-! ### the compaction loop keeps exactly what its step function keeps, in order -/

namespace Loop

/-- a loop whose step never takes the swap-less branch: `s[:valid]` is the kept elements in order,
whatever garbage lies behind them -/
theorem run_fst_of_noNoSwap {α σ : Type} (step : σ → α → Act × σ)
    (h : ∀ s x, (step s x).1 ≠ .keepNoSwap) :
    ∀ (xs : List α) (s : σ) (kept garbage : List α),
      (run step s kept garbage xs).1 = kept ++ spec step s xs := by
  intro xs
  induction xs with
  | nil => intro s kept garbage; simp [run, spec]
  | cons x xs ih =>
    intro s kept garbage
    have hx := h s x
    cases hstep : step s x with
    | mk a s' =>
      rw [hstep] at hx
      cases a with
      | drop => simp only [run, spec, hstep]; exact ih _ _ _
      | keep =>
        cases garbage with
        | nil => simp only [run, spec, hstep]; rw [ih]; simp
        | cons g gs => simp only [run, spec, hstep]; rw [ih]; simp
      | keepNoSwap => exact absurd rfl hx

theorem compact_eq_spec_of_noNoSwap {α σ : Type} (step : σ → α → Act × σ)
    (h : ∀ s x, (step s x).1 ≠ .keepNoSwap) (s : σ) (xs : List α) :
    compact step s xs = spec step s xs := by
  simp [compact, run_fst_of_noNoSwap step h]

end Loop

theorem spec_stateless (dropIt : Message → Bool) (ms : List Message) :
    Loop.spec (stateless dropIt) () ms = ms.filter (fun m => !dropIt m) := by
  induction ms with
  | nil => rfl
  | cons m ms ih =>
    simp only [Loop.spec, stateless]
    cases h : dropIt m <;> simp [h, ih]

theorem compact_stateless (dropIt : Message → Bool) (ms : List Message) :
    Loop.compact (stateless dropIt) () ms = ms.filter (fun m => !dropIt m) := by
  rw [Loop.compact_eq_spec_of_noNoSwap _ (by intro s x; simp only [stateless]; split <;> simp), spec_stateless]

/-! ### reducer: the interval loops -/

/-- after the first record has been reached the loop never takes the swap-less branch -/
theorem run_interval_reached (key : Message → Nat) (th : Nat) :
    ∀ (xs : List Message) (s : RState) (kept garbage : List Message), s.reached = true →
      (Loop.run (intervalStep key th) s kept garbage xs).1 = kept ++ Loop.spec (intervalStep key th) s xs := by
  intro xs
  induction xs with
  | nil => intro s kept garbage _; simp [Loop.run, Loop.spec]
  | cons x xs ih =>
    intro s kept garbage hr
    by_cases hrec : isRecord x = true
    · by_cases h1 : (key x == uint32Invalid) = true
      · have hstep : intervalStep key th s x = (.drop, s) := by simp [intervalStep, hrec, hr, h1]
        simp only [Loop.run, Loop.spec, hstep]; exact ih _ _ _ hr
      · by_cases h2 : (key x + 2 ^ 32 - s.last) % 2 ^ 32 < th
        · have hstep : intervalStep key th s x = (.drop, s) := by simp [intervalStep, hrec, hr, h1, h2]
          simp only [Loop.run, Loop.spec, hstep]; exact ih _ _ _ hr
        · have hstep : intervalStep key th s x = (.keep, { s with last := key x }) := by
            simp [intervalStep, hrec, hr, h1, h2]
          cases garbage with
          | nil => simp only [Loop.run, Loop.spec, hstep]; rw [ih _ _ _ (by simpa using hr)]; simp
          | cons g gs => simp only [Loop.run, Loop.spec, hstep]; rw [ih _ _ _ (by simpa using hr)]; simp
    · have hstep : intervalStep key th s x = (.keep, s) := by simp [intervalStep, hrec]
      cases garbage with
      | nil => simp only [Loop.run, Loop.spec, hstep]; rw [ih _ _ _ hr]; simp
      | cons g gs => simp only [Loop.run, Loop.spec, hstep]; rw [ih _ _ _ hr]; simp

/-- before the first record nothing has been dropped (`i == valid`), so `valid++` without a swap keeps it -/
theorem run_interval_fresh (key : Message → Nat) (th : Nat) :
    ∀ (xs : List Message) (s : RState) (kept : List Message), s.reached = false →
      (Loop.run (intervalStep key th) s kept [] xs).1 = kept ++ Loop.spec (intervalStep key th) s xs := by
  intro xs
  induction xs with
  | nil => intro s kept _; simp [Loop.run, Loop.spec]
  | cons x xs ih =>
    intro s kept hr
    by_cases hrec : isRecord x = true
    · have hstep : intervalStep key th s x =
          (.keepNoSwap, { last := if key x != uint32Invalid then key x else s.last, reached := true }) := by
        simp [intervalStep, hrec, hr]
      simp only [Loop.run, Loop.spec, hstep]
      rw [run_interval_reached key th xs _ _ _ rfl]; simp
    · have hstep : intervalStep key th s x = (.keep, s) := by simp [intervalStep, hrec]
      simp only [Loop.run, Loop.spec, hstep]; rw [ih _ _ hr]; simp

theorem compact_interval (key : Message → Nat) (th : Nat) (ms : List Message) :
    Loop.compact (intervalStep key th) {} ms = Loop.spec (intervalStep key th) {} ms := by
  simp [Loop.compact, run_interval_fresh key th ms {} [] rfl]

end Fit.Activity

namespace Fit.Activity
open Fit.Value Fit.Msg Fit.Gen Fit.Gen.Tool

/-! ### what "reduced by an interval" means -/

theorem wrapSub_eq_sub {d k : Nat} (hk : k ≤ d) (hd : d < 2 ^ 32) : wrapSub d k = d - k := by
  unfold wrapSub; omega

def stOf : Option Nat → RState
  | none => {}
  | some k => { last := k, reached := true }

theorem spec_interval_reduced (key : Message → Nat) (th : Nat) :
    ∀ (ms : List Message) (p : Option Nat), KeysValid key ms →
      Reduced key wrapSub th p ms (Loop.spec (intervalStep key th) (stOf p) ms) := by
  intro ms
  induction ms with
  | nil => intro p _; exact .nil p
  | cons m ms ih =>
    intro p hv
    have hv' : KeysValid key ms := fun x hx => hv x (List.mem_cons_of_mem _ hx)
    by_cases hrec : isRecord m = true
    · have hk : key m ≠ uint32Invalid := hv m (List.mem_cons_self ..) hrec
      cases p with
      | none =>
        have hstep : intervalStep key th (stOf none) m = (.keepNoSwap, stOf (some (key m))) := by
          simp [intervalStep, hrec, stOf, hk]
        simp only [Loop.spec, hstep]
        exact .first m ms _ hrec (ih _ hv')
      | some k =>
        by_cases h2 : wrapSub (key m) k < th
        · have hstep : intervalStep key th (stOf (some k)) m = (.drop, stOf (some k)) := by
            have h2' : (key m + 2 ^ 32 - k) % 2 ^ 32 < th := h2
            simp [intervalStep, hrec, stOf, hk, h2']
          simp only [Loop.spec, hstep]
          exact .drop k m ms _ hrec h2 (ih _ hv')
        · have hstep : intervalStep key th (stOf (some k)) m = (.keep, stOf (some (key m))) := by
            have h2' : ¬ (key m + 2 ^ 32 - k) % 2 ^ 32 < th := h2
            simp [intervalStep, hrec, stOf, hk, h2']
          simp only [Loop.spec, hstep]
          exact .keep k m ms _ hrec (Nat.le_of_not_lt h2) (ih _ hv')
    · have hrec' : isRecord m = false := by simpa using hrec
      have hstep : intervalStep key th (stOf p) m = (.keep, stOf p) := by simp [intervalStep, hrec']
      simp only [Loop.spec, hstep]
      exact .other p m ms _ hrec' (ih _ hv')

/-- the interval loops on EVERY message list (no hypothesis on the keys): `ReducedI` from the loop's own state -/
theorem spec_interval_reducedI (key : Message → Nat) (th : Nat) :
    ∀ (ms : List Message) (s : RState),
      ReducedI key wrapSub th s.last s.reached ms (Loop.spec (intervalStep key th) s ms) := by
  intro ms
  induction ms with
  | nil => intro s; exact .nil _ _
  | cons m ms ih =>
    intro s
    by_cases hrec : isRecord m = true
    · cases hr : s.reached with
      | false =>
        have hstep : intervalStep key th s m =
            (.keepNoSwap, { last := if key m != uint32Invalid then key m else s.last, reached := true }) := by
          simp [intervalStep, hrec, hr]
        simp only [Loop.spec, hstep]
        have := ih { last := if key m != uint32Invalid then key m else s.last, reached := true }
        refine .first s.last m ms _ hrec ?_
        have e : (if key m = uint32Invalid then s.last else key m) = (if key m != uint32Invalid then key m else s.last) := by
          by_cases hk : key m = uint32Invalid <;> simp [hk]
        rw [e]; exact this
      | true =>
        by_cases hk : key m = uint32Invalid
        · have hstep : intervalStep key th s m = (.drop, s) := by simp [intervalStep, hrec, hr, hk]
          simp only [Loop.spec, hstep]
          have := ih s; rw [hr] at this
          exact .noKey s.last m ms _ hrec hk this
        · by_cases h2 : wrapSub (key m) s.last < th
          · have h2' : (key m + 2 ^ 32 - s.last) % 2 ^ 32 < th := h2
            have hstep : intervalStep key th s m = (.drop, s) := by simp [intervalStep, hrec, hr, hk, h2']
            simp only [Loop.spec, hstep]
            have := ih s; rw [hr] at this
            exact .drop s.last m ms _ hrec hk h2 this
          · have h2' : ¬ (key m + 2 ^ 32 - s.last) % 2 ^ 32 < th := h2
            have hstep : intervalStep key th s m = (.keep, { s with last := key m }) := by
              simp [intervalStep, hrec, hr, hk, h2']
            simp only [Loop.spec, hstep]
            have := ih { s with last := key m }
            simp only [hr] at this
            have es : ({ s with last := key m } : RState) = { last := key m, reached := true } := by rw [← hr]
            rw [es]
            exact .keep s.last m ms _ hrec hk (Nat.le_of_not_lt h2) this
    · have hrec' : isRecord m = false := by simpa using hrec
      have hstep : intervalStep key th s m = (.keep, s) := by simp [intervalStep, hrec']
      simp only [Loop.spec, hstep]
      exact .other _ _ m ms _ hrec' (ih s)

/-- when every record carries a valid key, `ReducedI` is `Reduced` (the `noKey` clause is void, the reference is the key
of the previously kept record) -/
theorem ReducedI.toReduced {key diff th} : ∀ {ms out ref reached}, ReducedI key diff th ref reached ms out →
    KeysValid key ms → Reduced key diff th (if reached then some ref else none) ms out := by
  intro ms out ref reached h
  induction h with
  | nil ref reached => intro _; exact .nil _
  | other ref reached m ms out hm _ ih =>
    intro hv; exact .other _ m ms out hm (ih fun x hx => hv x (List.mem_cons_of_mem _ hx))
  | first ref m ms out hm _ ih =>
    intro hv
    have hk : key m ≠ uint32Invalid := hv m (List.mem_cons_self ..) hm
    have := ih fun x hx => hv x (List.mem_cons_of_mem _ hx)
    simp only [hk, if_false, if_true] at this
    exact .first m ms out hm this
  | noKey ref m ms out hm hk _ _ => intro hv; exact absurd hk (hv m (List.mem_cons_self ..) hm)
  | keep ref m ms out hm _ hth _ ih =>
    intro hv; exact .keep ref m ms out hm hth (ih fun x hx => hv x (List.mem_cons_of_mem _ hx))
  | drop ref m ms out hm _ hth _ ih =>
    intro hv; exact .drop ref m ms out hm hth (ih fun x hx => hv x (List.mem_cons_of_mem _ hx))

theorem ReducedI.sublist {key diff th ref reached ms out} (h : ReducedI key diff th ref reached ms out) : out.Sublist ms := by
  induction h with
  | nil => exact .slnil
  | other _ _ _ _ _ _ _ ih => exact ih.cons_cons _
  | first _ _ _ _ _ _ ih => exact ih.cons_cons _
  | noKey _ _ _ _ _ _ _ ih => exact ih.cons _
  | keep _ _ _ _ _ _ _ _ ih => exact ih.cons_cons _
  | drop _ _ _ _ _ _ _ _ ih => exact ih.cons _

theorem ReducedI.nonRecords {key diff th ref reached ms out} (h : ReducedI key diff th ref reached ms out) :
    out.filter (fun m => !isRecord m) = ms.filter (fun m => !isRecord m) := by
  induction h with
  | nil => rfl
  | other _ _ m _ _ hm _ ih => simp [hm, ih]
  | first _ m _ _ hm _ ih => simp [hm, ih]
  | noKey _ m _ _ hm _ _ ih => simp [hm, ih]
  | keep _ m _ _ hm _ _ _ ih => simp [hm, ih]
  | drop _ m _ _ hm _ _ _ ih => simp [hm, ih]

/-- the first record of the input is the first record of the output -/
theorem ReducedI.firstRecord {key diff th ref ms out} (h : ReducedI key diff th ref false ms out) :
    out.find? isRecord = ms.find? isRecord := by
  generalize hp : false = reached at h
  induction h with
  | nil => rfl
  | other _ _ m _ _ hm _ ih => simp [hm, ih hp]
  | first _ m _ _ hm _ _ => simp [hm]
  | noKey _ _ _ _ _ _ _ _ => cases hp
  | keep _ _ _ _ _ _ _ _ _ => cases hp
  | drop _ _ _ _ _ _ _ _ _ => cases hp

/-- `reducedIB` decides `ReducedI` -/
theorem reducedIB_iff (key : Message → Nat) (diff : Nat → Nat → Nat) (th : Nat) :
    ∀ (ms out : List Message) (ref : Nat) (reached : Bool),
      reducedIB key diff th ref reached ms out = true ↔ ReducedI key diff th ref reached ms out := by
  intro ms
  induction ms with
  | nil =>
    intro out ref reached
    cases out with
    | nil => simp only [reducedIB, List.isEmpty_nil, true_iff]; exact .nil _ _
    | cons o os => simp only [reducedIB, List.isEmpty_cons, Bool.false_eq_true, false_iff]; intro h; cases h
  | cons m ms ih =>
    intro out ref reached
    by_cases hrec : isRecord m = true
    · cases reached with
      | false =>
        cases out with
        | nil => simp only [reducedIB, hrec, Bool.not_true, Bool.false_eq_true, if_false, Bool.not_false, if_true, false_iff]; intro h; cases h
        | cons o os =>
          simp only [reducedIB, hrec, Bool.not_true, Bool.false_eq_true, if_false, Bool.not_false, if_true, Bool.and_eq_true, beq_iff_eq, ih]
          constructor
          · rintro ⟨rfl, h⟩; exact .first _ _ _ _ hrec h
          · intro h; cases h with
            | other _ _ _ _ _ hm _ => rw [hrec] at hm; cases hm
            | first _ _ _ _ _ h => exact ⟨rfl, h⟩
      | true =>
        by_cases hk : key m = uint32Invalid
        · simp only [reducedIB, hrec, Bool.not_true, Bool.false_eq_true, if_false, hk, if_true, ih]
          constructor
          · intro h; exact .noKey _ _ _ _ hrec hk h
          · intro h; cases h with
            | other _ _ _ _ _ hm _ => rw [hrec] at hm; cases hm
            | noKey _ _ _ _ _ _ h => exact h
            | keep _ _ _ _ _ hk' _ _ => exact absurd hk hk'
            | drop _ _ _ _ _ hk' _ _ => exact absurd hk hk'
        · by_cases hd : diff (key m) ref < th
          · simp only [reducedIB, hrec, Bool.not_true, Bool.false_eq_true, if_false, hk, hd, if_true, ih]
            constructor
            · intro h; exact .drop _ _ _ _ hrec hk hd h
            · intro h; cases h with
              | other _ _ _ _ _ hm _ => rw [hrec] at hm; cases hm
              | noKey _ _ _ _ _ hk' _ => exact absurd hk' hk
              | keep _ _ _ _ _ _ hth _ => omega
              | drop _ _ _ _ _ _ _ h => exact h
          · cases out with
            | nil =>
              simp only [reducedIB, hrec, Bool.not_true, Bool.false_eq_true, if_false, hk, hd, false_iff]
              intro h; cases h with
              | noKey _ _ _ _ _ hk' _ => exact absurd hk' hk
              | drop _ _ _ _ _ _ hth _ => exact absurd hth hd
            | cons o os =>
              simp only [reducedIB, hrec, Bool.not_true, Bool.false_eq_true, if_false, hk, hd, Bool.and_eq_true, beq_iff_eq, ih]
              constructor
              · rintro ⟨rfl, h⟩; exact .keep _ _ _ _ hrec hk (Nat.le_of_not_lt hd) h
              · intro h; cases h with
                | other _ _ _ _ _ hm _ => rw [hrec] at hm; cases hm
                | noKey _ _ _ _ _ hk' _ => exact absurd hk' hk
                | keep _ _ _ _ _ _ _ h => exact ⟨rfl, h⟩
                | drop _ _ _ _ _ _ hth _ => exact absurd hth hd
    · have hrec' : isRecord m = false := by simpa using hrec
      cases out with
      | nil =>
        simp only [reducedIB, hrec', Bool.not_false, if_true]
        constructor
        · intro h; cases h
        · intro h; cases h with
          | noKey _ _ _ _ hm _ _ => rw [hrec'] at hm; cases hm
          | drop _ _ _ _ hm _ _ _ => rw [hrec'] at hm; cases hm
      | cons o os =>
        simp only [reducedIB, hrec', Bool.not_false, if_true, Bool.and_eq_true, beq_iff_eq, ih]
        constructor
        · rintro ⟨rfl, h⟩; exact .other _ _ _ _ _ hrec' h
        · intro h; cases h with
          | other _ _ _ _ _ _ h => exact ⟨rfl, h⟩
          | first _ _ _ _ hm _ => rw [hrec'] at hm; cases hm
          | noKey _ _ _ _ hm _ _ => rw [hrec'] at hm; cases hm
          | keep _ _ _ _ hm _ _ _ => rw [hrec'] at hm; cases hm
          | drop _ _ _ _ hm _ _ _ => rw [hrec'] at hm; cases hm

theorem Reduced.sublist {key diff th p ms out} (h : Reduced key diff th p ms out) : out.Sublist ms := by
  induction h with
  | nil => exact .slnil
  | other _ _ _ _ _ _ ih => exact ih.cons_cons _
  | first _ _ _ _ _ ih => exact ih.cons_cons _
  | keep _ _ _ _ _ _ _ ih => exact ih.cons_cons _
  | drop _ _ _ _ _ _ _ ih => exact ih.cons _

theorem Reduced.nonRecords {key diff th p ms out} (h : Reduced key diff th p ms out) :
    out.filter (fun m => !isRecord m) = ms.filter (fun m => !isRecord m) := by
  induction h with
  | nil => rfl
  | other _ m _ _ hm _ ih => simp [hm, ih]
  | first m _ _ hm _ ih => simp [hm, ih]
  | keep _ m _ _ hm _ _ ih => simp [hm, ih]
  | drop _ m _ _ hm _ _ ih => simp [hm, ih]

/-- the first record of the input is the first record of the output -/
theorem Reduced.firstRecord {key diff th ms out} (h : Reduced key diff th none ms out) :
    out.find? isRecord = ms.find? isRecord := by
  generalize hp : (none : Option Nat) = p at h
  induction h with
  | nil => rfl
  | other _ m _ _ hm _ ih => simp [hm, ih hp]
  | first m _ _ hm _ _ => simp [hm]
  | keep _ _ _ _ _ _ _ _ => cases hp
  | drop _ _ _ _ _ _ _ _ => cases hp

/-- with keys that never decrease and are below 2^32 the uint32 difference is the ordinary one -/
theorem Reduced.ofMono {key th} : ∀ {ms out p}, Reduced key wrapSub th p ms out →
    (∀ m ∈ ms, isRecord m = true → key m < 2 ^ 32) →
    (ms.filter isRecord).Pairwise (fun a b => key a ≤ key b) →
    (∀ k, p = some k → ∀ m ∈ ms, isRecord m = true → k ≤ key m) →
    Reduced key (fun d k => d - k) th p ms out := by
  intro ms out p h
  induction h with
  | nil p => intro _ _ _; exact .nil p
  | other p m ms out hm _ ih =>
    intro hb hs hp
    refine .other p m ms out hm (ih (fun x hx => hb x (List.mem_cons_of_mem _ hx)) ?_ (fun k hk x hx => hp k hk x (List.mem_cons_of_mem _ hx)))
    simpa [hm] using hs
  | first m ms out hm _ ih =>
    intro hb hs _
    have hs' : (m :: ms.filter isRecord).Pairwise (fun a b => key a ≤ key b) := by simpa [hm] using hs
    have := List.pairwise_cons.mp hs'
    refine .first m ms out hm (ih (fun x hx => hb x (List.mem_cons_of_mem _ hx)) this.2 ?_)
    intro k hk x hx hxr
    cases hk
    exact this.1 x (List.mem_filter.mpr ⟨hx, hxr⟩)
  | keep k m ms out hm hth _ ih =>
    intro hb hs hp
    have hs' : (m :: ms.filter isRecord).Pairwise (fun a b => key a ≤ key b) := by simpa [hm] using hs
    have := List.pairwise_cons.mp hs'
    have hkm : k ≤ key m := hp k rfl m (List.mem_cons_self ..) hm
    have hlt := hb m (List.mem_cons_self ..) hm
    refine .keep k m ms out hm (by rw [wrapSub_eq_sub hkm hlt] at hth; exact hth)
      (ih (fun x hx => hb x (List.mem_cons_of_mem _ hx)) this.2 ?_)
    intro k' hk' x hx hxr
    cases hk'
    exact this.1 x (List.mem_filter.mpr ⟨hx, hxr⟩)
  | drop k m ms out hm hth _ ih =>
    intro hb hs hp
    have hs' : (m :: ms.filter isRecord).Pairwise (fun a b => key a ≤ key b) := by simpa [hm] using hs
    have := List.pairwise_cons.mp hs'
    have hkm : k ≤ key m := hp k rfl m (List.mem_cons_self ..) hm
    have hlt := hb m (List.mem_cons_self ..) hm
    refine .drop k m ms out hm (by rw [wrapSub_eq_sub hkm hlt] at hth; exact hth)
      (ih (fun x hx => hb x (List.mem_cons_of_mem _ hx)) this.2 ?_)
    intro k' hk' x hx hxr
    cases hk'
    exact Nat.le_trans hkm (this.1 x (List.mem_filter.mpr ⟨hx, hxr⟩))

end Fit.Activity

namespace Fit.Activity
open Fit.Value Fit.Msg Fit.Gen Fit.Gen.Tool

/-! ### reducer: RDP (findFragments, defragment) -/

/-- the messages whose index (counted from `i`) is not the next fragment -/
def dropAt {α : Type} : Nat → List Nat → List α → List α
  | _, _, [] => []
  | _, [], xs => xs
  | i, f :: fs, x :: xs => if i == f then dropAt (i + 1) fs xs else x :: dropAt (i + 1) (f :: fs) xs

theorem dropAt_nil_frags {α : Type} (i : Nat) (xs : List α) : dropAt i [] xs = xs := by
  cases xs <;> rfl

theorem defragRun_eq : ∀ (xs : List Message) (i : Nat) (frags : List Nat) (kept garbage : List Message),
    defragRun (i, frags) kept garbage xs = kept ++ dropAt i frags xs := by
  intro xs
  induction xs with
  | nil => intro i frags kept garbage; cases frags <;> simp [defragRun, dropAt]
  | cons x xs ih =>
    intro i frags kept garbage
    cases frags with
    | nil => simp [defragRun, dropAt]
    | cons f fs =>
      by_cases hif : (i == f) = true
      · have hs : defragStep (i, f :: fs) x = (.drop, (i + 1, fs)) := by simp [defragStep, hif]
        simp only [defragRun, List.isEmpty_cons, Bool.false_eq_true, ↓reduceIte, hs, dropAt, hif]
        exact ih _ _ _ _
      · have hs : defragStep (i, f :: fs) x = (.keep, (i + 1, f :: fs)) := by simp [defragStep, hif]
        cases garbage with
        | nil =>
          simp only [defragRun, List.isEmpty_cons, Bool.false_eq_true, ↓reduceIte, hs, dropAt, hif]
          rw [ih]; simp
        | cons g gs =>
          simp only [defragRun, List.isEmpty_cons, Bool.false_eq_true, ↓reduceIte, hs, dropAt, hif]
          rw [ih]; simp

theorem defragment_eq (ms : List Message) (frags : List Nat) : defragment ms frags = dropAt 0 frags ms := by
  simp [defragment, defragRun_eq]

theorem dropAt_sublist {α : Type} : ∀ (xs : List α) (i : Nat) (frags : List Nat), (dropAt i frags xs).Sublist xs := by
  intro xs
  induction xs with
  | nil => intro i frags; cases frags <;> simp [dropAt]
  | cons x xs ih =>
    intro i frags
    cases frags with
    | nil => simp [dropAt]
    | cons f fs =>
      simp only [dropAt]
      split
      · exact (ih _ _).cons _
      · exact (ih _ _).cons_cons _

/-- if every fragment index points at an element satisfying `p`, the elements not satisfying `p` all stay -/
theorem dropAt_keeps {α : Type} (p : α → Bool) : ∀ (xs : List α) (i : Nat) (frags : List Nat),
    (∀ f ∈ frags, ∀ j, f = i + j → ∀ x, xs[j]? = some x → p x = true) →
    (dropAt i frags xs).filter (fun x => !p x) = xs.filter (fun x => !p x) := by
  intro xs
  induction xs with
  | nil => intro i frags _; cases frags <;> simp [dropAt]
  | cons x xs ih =>
    intro i frags h
    cases frags with
    | nil => simp [dropAt]
    | cons f fs =>
      simp only [dropAt]
      split
      · rename_i hif
        have hif' : i = f := by simpa using hif
        have hx : p x = true := h f (List.mem_cons_self ..) 0 (by omega) x (by simp)
        rw [ih (i + 1) fs]
        · simp [hx]
        · intro f' hf' j hj y hy
          exact h f' (List.mem_cons_of_mem _ hf') (j + 1) (by omega) y (by simpa using hy)
      · rw [List.filter_cons, List.filter_cons, ih (i + 1) (f :: fs)]
        intro f' hf' j hj y hy
        exact h f' hf' (j + 1) (by omega) y (by simpa using hy)

theorem findFragments_sublist : ∀ (fuel : Nat) (rs ps : List Nat), (findFragments fuel rs ps).Sublist rs := by
  intro fuel
  induction fuel with
  | zero => intro rs ps; simp [findFragments]
  | succ n ih =>
    intro rs ps
    cases rs with
    | nil => simp [findFragments]
    | cons r rs =>
      cases ps with
      | nil => simp [findFragments]
      | cons p ps =>
        simp only [findFragments]
        split
        · exact (ih _ _).cons_cons _
        · split
          · exact (ih _ _).cons _
          · exact ih _ _

theorem mem_recordIndexes {ms : List Message} {i : Nat} (h : i ∈ recordIndexes ms) :
    ∃ m, ms[i]? = some m ∧ isRecord m = true := by
  simp only [recordIndexes, List.mem_map, List.mem_filter] at h
  obtain ⟨⟨m, j⟩, ⟨hm, hr⟩, rfl⟩ := h
  exact ⟨m, List.mk_mem_zipIdx_iff_getElem?.mp hm, hr⟩

/-- whatever the simplifier answers, `reduceByRDP` leaves out only records and keeps the order -/
theorem reduceByRdp_ok {simplified : List Nat} {ms out : List Message} (h : reduceByRdp simplified ms = .ok out) :
    out.Sublist ms ∧ out.filter (fun m => !isRecord m) = ms.filter (fun m => !isRecord m) := by
  unfold reduceByRdp at h
  split at h
  · cases h
  · injection h with h
    subst h
    rw [defragment_eq]
    refine ⟨dropAt_sublist _ _ _, dropAt_keeps isRecord _ _ _ ?_⟩
    intro f hf j hj x hx
    have hf' := (findFragments_sublist _ _ _).subset hf
    obtain ⟨m, hm, hr⟩ := mem_recordIndexes hf'
    have : f = j := by omega
    subst this
    rw [hx] at hm
    cases hm
    exact hr

end Fit.Activity

namespace Fit.Activity
open Fit.Value Fit.Msg Fit.Gen Fit.Gen.Tool

/-! ### position-wise relation between two message lists -/

/-- `Rel2 R xs ys`: same length and `R xs[i] ys[i]` for every `i` -/
inductive Rel2 {α : Type} (R : α → α → Prop) : List α → List α → Prop
  | nil : Rel2 R [] []
  | cons {a b as bs} : R a b → Rel2 R as bs → Rel2 R (a :: as) (b :: bs)

namespace Rel2
variable {α : Type} {R S T : α → α → Prop}

theorem refl (h : ∀ a, R a a) : ∀ xs, Rel2 R xs xs
  | [] => .nil
  | x :: xs => .cons (h x) (refl h xs)

theorem imp (h : ∀ a b, R a b → S a b) : ∀ {xs ys}, Rel2 R xs ys → Rel2 S xs ys
  | _, _, .nil => .nil
  | _, _, .cons r rs => .cons (h _ _ r) (imp h rs)

theorem comp (h : ∀ a b c, R a b → S b c → T a c) : ∀ {xs ys zs}, Rel2 R xs ys → Rel2 S ys zs → Rel2 T xs zs
  | _, _, _, .nil, .nil => .nil
  | _, _, _, .cons r rs, .cons s ss => .cons (h _ _ _ r s) (comp h rs ss)

theorem length_eq : ∀ {xs ys}, Rel2 R xs ys → xs.length = ys.length
  | _, _, .nil => rfl
  | _, _, .cons _ rs => by simp [length_eq rs]

theorem append : ∀ {xs ys xs' ys'}, Rel2 R xs ys → Rel2 R xs' ys' → Rel2 R (xs ++ xs') (ys ++ ys')
  | _, _, _, _, .nil, h => h
  | _, _, _, _, .cons r rs, h => .cons r (append rs h)

theorem reverse : ∀ {xs ys}, Rel2 R xs ys → Rel2 R xs.reverse ys.reverse
  | _, _, .nil => .nil
  | _, _, .cons r rs => by
    simp only [List.reverse_cons]
    exact append (reverse rs) (.cons r .nil)

theorem map (f : α → α) (h : ∀ a, R a (f a)) : ∀ xs, Rel2 R xs (xs.map f)
  | [] => .nil
  | x :: xs => .cons (h x) (map f h xs)

theorem get : ∀ {xs ys}, Rel2 R xs ys → ∀ (i : Nat) (a b : α), xs[i]? = some a → ys[i]? = some b → R a b
  | _, _, .nil, _, _, _, h, _ => by simp at h
  | _, _, .cons r rs, 0, _, _, h1, h2 => by simp at h1 h2; subst h1 h2; exact r
  | _, _, .cons _ rs, i + 1, a, b, h1, h2 => get rs i a b (by simpa using h1) (by simpa using h2)

theorem and : ∀ {xs ys}, Rel2 R xs ys → Rel2 S xs ys → Rel2 (fun a b => R a b ∧ S a b) xs ys
  | _, _, .nil, .nil => .nil
  | _, _, .cons r rs, .cons s ss => .cons ⟨r, s⟩ (and rs ss)

end Rel2

/-! ### field-level facts -/

theorem hasNum_set (n : Nat) (v : Value) (f : Field) : hasNum n { f with value := v } = hasNum n f := rfl

theorem removeField_other {nums : List Nat} {n : Nat} (hn : n ∈ nums) :
    ∀ fs : List Field, (removeField n fs).filter (other nums) = fs.filter (other nums)
  | [] => rfl
  | f :: fs => by
    simp only [removeField]
    split
    · rename_i h
      have : other nums f = false := by
        simp only [other, Bool.not_eq_false', List.any_eq_true]; exact ⟨n, hn, h⟩
      simp [this]
    · simp [List.filter_cons, removeField_other hn fs]

theorem setField_other {nums : List Nat} {n : Nat} (v : Value) (hn : n ∈ nums) :
    ∀ fs : List Field, (setField n v fs).filter (other nums) = fs.filter (other nums)
  | [] => rfl
  | f :: fs => by
    simp only [setField]
    split
    · rename_i h
      have h1 : other nums f = false := by
        simp only [other, Bool.not_eq_false', List.any_eq_true]; exact ⟨n, hn, h⟩
      have h2 : other nums { f with value := v } = false := h1
      simp [h1, h2]
    · simp [List.filter_cons, setField_other v hn fs]

theorem Touch.refl (m : Message) : Touch m m := ⟨rfl, rfl, rfl⟩

theorem Touch.trans {a b c : Message} (h1 : Touch a b) (h2 : Touch b c) : Touch a c := by
  obtain ⟨n1, d1, f1⟩ := h1
  obtain ⟨n2, d2, f2⟩ := h2
  refine ⟨n2.trans n1, d2.trans d1, ?_⟩
  rw [n1] at f2
  exact f2.trans f1

theorem Touch.rm {m : Message} {n : Nat} (hn : n ∈ posNums m.num) : Touch m (rm n m) :=
  ⟨rfl, rfl, removeField_other hn _⟩

theorem Touch.st {m : Message} {n : Nat} (v : Value) (hn : n ∈ posNums m.num) : Touch m (st n v m) :=
  ⟨rfl, rfl, setField_other v hn _⟩

theorem Touch.setOrRemove {m : Message} {n : Nat} (v : Nat) (hn : n ∈ posNums m.num) : Touch m (setOrRemove n v m) := by
  unfold Activity.setOrRemove; split
  · exact Touch.rm hn
  · exact Touch.st _ hn

theorem Touch.eq_of_other {m m' : Message} (h : Touch m m') (hn : posNums m.num = []) : m' = m := by
  obtain ⟨n, d, f⟩ := h
  rw [hn] at f
  have hall : ∀ l : List Field, l.filter (other []) = l := by intro l; simp [other]
  have hf : m'.fields = m.fields := by rw [hall, hall] at f; exact f
  cases m; cases m'; simp_all

theorem posNums_record {m : Message} (h : isRecord m = true) :
    posNums m.num = [fnRecordPositionLat, fnRecordPositionLong] := by
  simp only [isRecord] at h; simp [posNums, h]

theorem Touch.stripPos {m : Message} (h : isRecord m = true) : Touch m (stripPos m) := by
  have hp := posNums_record h
  have h1 : Touch m (Activity.rm fnRecordPositionLat m) := Touch.rm (by rw [hp]; simp)
  have h2 : Touch (Activity.rm fnRecordPositionLat m) (Activity.rm fnRecordPositionLong (Activity.rm fnRecordPositionLat m)) :=
    Touch.rm (by show fnRecordPositionLong ∈ posNums m.num; rw [hp]; simp)
  exact h1.trans h2

theorem posNums_ph {ph : PH} (hph : ph = lapPH ∨ ph = sesPH) {m : Message} (h : (m.num == ph.mesgNum) = true) :
    posNums m.num = [ph.sLat, ph.sLong, ph.eLat, ph.eLong] := by
  have h' : m.num = ph.mesgNum := by simpa using h
  rcases hph with rfl | rfl
  · rw [h']; decide
  · rw [h']; decide

theorem Touch.strip4 {ph : PH} (hph : ph = lapPH ∨ ph = sesPH) {m : Message} (h : (m.num == ph.mesgNum) = true) :
    Touch m (strip4 ph m) := by
  have hp := posNums_ph hph h
  unfold Activity.strip4
  have t1 : Touch m (Activity.rm ph.sLat m) := Touch.rm (by rw [hp]; simp)
  have t2 : Touch (Activity.rm ph.sLat m) (Activity.rm ph.sLong (Activity.rm ph.sLat m)) :=
    Touch.rm (by show ph.sLong ∈ posNums m.num; rw [hp]; simp)
  have t3 : Touch (Activity.rm ph.sLong (Activity.rm ph.sLat m)) (Activity.rm ph.eLat (Activity.rm ph.sLong (Activity.rm ph.sLat m))) :=
    Touch.rm (by show ph.eLat ∈ posNums m.num; rw [hp]; simp)
  have t4 : Touch (Activity.rm ph.eLat (Activity.rm ph.sLong (Activity.rm ph.sLat m)))
      (Activity.rm ph.eLong (Activity.rm ph.eLat (Activity.rm ph.sLong (Activity.rm ph.sLat m)))) :=
    Touch.rm (by show ph.eLong ∈ posNums m.num; rw [hp]; simp)
  exact ((t1.trans t2).trans t3).trans t4

/-! ### every stage of the concealer only touches position fields -/

theorem touch2_trans {xs ys zs : List Message} (h1 : Rel2 Touch xs ys) (h2 : Rel2 Touch ys zs) : Rel2 Touch xs zs :=
  Rel2.comp (R := Touch) (S := Touch) (T := Touch) (fun _ _ _ => Touch.trans) h1 h2

theorem scanStart_touch (th : Nat) : ∀ (ms : List Message) (i : Nat), Rel2 Touch ms (scanStart th i ms).1
  | [], _ => .nil
  | m :: ms, i => by
    simp only [scanStart]
    split
    · rename_i hr
      split
      · exact .cons (Touch.stripPos hr) (scanStart_touch th ms (i + 1))
      · exact Rel2.refl Touch.refl _
    · exact .cons (Touch.refl m) (scanStart_touch th ms (i + 1))

theorem updStart_touch {ph : PH} (hph : ph = lapPH ∨ ph = sesPH) (r : RecInfo) :
    ∀ ms : List Message, Rel2 Touch ms (updStart ph r ms)
  | [] => .nil
  | m :: ms => by
    simp only [updStart]
    split
    · rename_i hn
      have hp := posNums_ph hph hn
      split
      · exact .cons (Touch.strip4 hph hn) (updStart_touch hph r ms)
      · refine .cons ?_ (Rel2.refl Touch.refl _)
        have t1 : Touch m (setOrRemove ph.sLat r.lat m) := Touch.setOrRemove _ (by rw [hp]; simp)
        have hnum : (setOrRemove ph.sLat r.lat m).num = m.num := t1.1
        have t2 : Touch (setOrRemove ph.sLat r.lat m) (setOrRemove ph.sLong r.long (setOrRemove ph.sLat r.lat m)) :=
          Touch.setOrRemove _ (by rw [hnum, hp]; simp)
        exact t1.trans t2
    · exact .cons (Touch.refl m) (updStart_touch hph r ms)

theorem scanEndRev_touch (th : Nat) : ∀ (ms : List Message) (lastD : Nat), Rel2 Touch ms (scanEndRev th lastD ms).1
  | [], _ => .nil
  | m :: ms, lastD => by
    simp only [scanEndRev]
    split
    · rename_i hr
      split
      · exact .cons (Touch.stripPos hr) (scanEndRev_touch th ms _)
      · exact Rel2.refl Touch.refl _
    · exact .cons (Touch.refl m) (scanEndRev_touch th ms _)

theorem updEndRev_touch {ph : PH} (hph : ph = lapPH ∨ ph = sesPH) (r : RecInfo) (ov : Bool) :
    ∀ ms : List Message, Rel2 Touch ms (updEndRev ph r ov ms)
  | [] => .nil
  | m :: ms => by
    simp only [updEndRev]
    split
    · rename_i hn
      have hp := posNums_ph hph hn
      split
      · exact .cons (Touch.strip4 hph hn) (updEndRev_touch hph r ov ms)
      · refine .cons ?_ (Rel2.refl Touch.refl _)
        have t0 : Touch m (if ov = true then Activity.rm ph.sLong (Activity.rm ph.sLat m) else m) := by
          split
          · have a : Touch m (Activity.rm ph.sLat m) := Touch.rm (by rw [hp]; simp)
            have b : Touch (Activity.rm ph.sLat m) (Activity.rm ph.sLong (Activity.rm ph.sLat m)) :=
              Touch.rm (by show ph.sLong ∈ posNums m.num; rw [hp]; simp)
            exact a.trans b
          · exact Touch.refl m
        have hn0 := t0.1
        have t1 := Touch.setOrRemove (m := if ov = true then Activity.rm ph.sLong (Activity.rm ph.sLat m) else m)
          (n := ph.eLat) r.lat (by rw [hn0, hp]; simp)
        have hn1 := t1.1
        have t2 := Touch.setOrRemove
          (m := setOrRemove ph.eLat r.lat (if ov = true then Activity.rm ph.sLong (Activity.rm ph.sLat m) else m))
          (n := ph.eLong) r.long (by rw [hn1, hn0, hp]; simp)
        exact (t0.trans t1).trans t2
    · exact .cons (Touch.refl m) (updEndRev_touch hph r ov ms)

theorem concealStart_touch (th : Nat) (ms : List Message) : Rel2 Touch ms (concealStart th ms).1 := by
  unfold concealStart
  split
  · exact Rel2.refl Touch.refl _
  · have a := scanStart_touch th ms 0
    have b := updStart_touch (Or.inl rfl) (recAt (scanStart th 0 ms).1 (scanStart th 0 ms).2) (scanStart th 0 ms).1
    have c := updStart_touch (Or.inr rfl) (recAt (scanStart th 0 ms).1 (scanStart th 0 ms).2)
      (updStart lapPH (recAt (scanStart th 0 ms).1 (scanStart th 0 ms).2) (scanStart th 0 ms).1)
    exact touch2_trans (touch2_trans a b) c

theorem concealEnd_touch (th : Nat) (idx : Int) (ms : List Message) : Rel2 Touch ms (concealEnd th idx ms) := by
  unfold concealEnd
  split
  · exact Rel2.refl Touch.refl _
  · -- whatever record and overlap flag the update functions are handed
    have gen : ∀ (ri : RecInfo) (ov : Bool), Rel2 Touch ms
        (updEndRev sesPH ri ov (updEndRev lapPH ri ov (scanEndRev th uint32Invalid ms.reverse).1)).reverse := by
      intro ri ov
      have a := scanEndRev_touch th ms.reverse uint32Invalid
      have b := updEndRev_touch (Or.inl rfl) ri ov (scanEndRev th uint32Invalid ms.reverse).1
      have c := updEndRev_touch (Or.inr rfl) ri ov (updEndRev lapPH ri ov (scanEndRev th uint32Invalid ms.reverse).1)
      have d := (touch2_trans (touch2_trans a b) c).reverse
      simpa using d
    exact gen _ _

theorem conceal_touch (first last : Nat) (ms : List Message) : Rel2 Touch ms (conceal first last ms) := by
  unfold conceal
  exact touch2_trans (concealStart_touch first ms) (concealEnd_touch last _ _)

end Fit.Activity

namespace Fit.Activity
open Fit.Value Fit.Msg Fit.Gen Fit.Gen.Tool

/-! ### which records the scans strip, when distances never decrease -/

theorem u32_lt (v : Value) : u32 v < 2 ^ 32 := by
  unfold u32; split
  · exact Nat.mod_lt _ (by decide)
  · decide

theorem dist_lt (m : Message) : dist m < 2 ^ 32 := u32_lt _

theorem find?_removeField_ne {n k : Nat} (h : n ≠ k) : ∀ fs : List Field,
    (removeField n fs).find? (hasNum k) = fs.find? (hasNum k)
  | [] => rfl
  | f :: fs => by
    simp only [removeField]
    split
    · rename_i hn
      have : hasNum k f = false := by
        unfold hasNum at hn ⊢
        cases hb : f.base with
        | none => rfl
        | some b => rw [hb] at hn; simp only [beq_iff_eq] at hn; simp only [beq_eq_false_iff_ne]; omega
      simp [this]
    · simp only [List.find?_cons]
      split
      · rfl
      · exact find?_removeField_ne h fs

theorem fval_rm_ne {n k : Nat} (h : n ≠ k) (m : Message) : fval (rm n m) k = fval m k := by
  simp only [fval, rm, find?_removeField_ne h]

theorem dist_stripPos (m : Message) : dist (stripPos m) = dist m := by
  simp only [dist, stripPos]
  rw [fval_rm_ne (by decide), fval_rm_ne (by decide)]

theorem isRecord_stripPos (m : Message) : isRecord (stripPos m) = isRecord m := rfl

theorem dist_hideIf (p : Message → Bool) (m : Message) : dist (hideIf p m) = dist m := by
  unfold hideIf; split
  · exact dist_stripPos m
  · rfl

theorem isRecord_hideIf (p : Message → Bool) (m : Message) : isRecord (hideIf p m) = isRecord m := by
  unfold hideIf; split <;> rfl

theorem map_hideIf_id {p : Message → Bool} : ∀ {ms : List Message},
    (∀ m ∈ ms, isRecord m = true → p m = false) → ms.map (hideIf p) = ms
  | [], _ => rfl
  | m :: ms, h => by
    have hm : hideIf p m = m := by
      unfold hideIf
      cases hr : isRecord m
      · simp
      · simp [h m (List.mem_cons_self ..) hr]
    simp only [List.map_cons, hm]
    rw [map_hideIf_id (fun x hx => h x (List.mem_cons_of_mem _ hx))]

theorem recDists_cons_record {m : Message} {ms : List Message} (h : isRecord m = true) :
    recDists (m :: ms) = dist m :: recDists ms := by simp [recDists, h]

theorem recDists_cons_other {m : Message} {ms : List Message} (h : isRecord m = false) :
    recDists (m :: ms) = recDists ms := by simp [recDists, h]

theorem mem_recDists {m : Message} {ms : List Message} (hm : m ∈ ms) (hr : isRecord m = true) : dist m ∈ recDists ms :=
  List.mem_map.mpr ⟨m, List.mem_filter.mpr ⟨hm, hr⟩, rfl⟩

/-- forward scan = strip every record nearer than `th` -/
theorem scanStart_map (th : Nat) : ∀ (ms : List Message) (i : Nat), (recDists ms).Pairwise (· ≤ ·) →
    (scanStart th i ms).1 = ms.map (hideIf fun m => dist m < th)
  | [], _, _ => rfl
  | m :: ms, i, h => by
    simp only [scanStart]
    cases hr : isRecord m
    · simp only [Bool.false_eq_true, ↓reduceIte, List.map_cons]
      rw [scanStart_map th ms (i + 1) (by rwa [recDists_cons_other hr] at h)]
      simp [hideIf, hr]
    · rw [recDists_cons_record hr] at h
      have hp := List.pairwise_cons.mp h
      simp only [↓reduceIte]
      split
      · rename_i hlt
        simp only [List.map_cons]
        rw [scanStart_map th ms (i + 1) hp.2]
        simp [hideIf, hr, hlt]
      · rename_i hge
        have hm : hideIf (fun m => decide (dist m < th)) m = m := by simp [hideIf, hr, hge]
        simp only [List.map_cons, hm]
        rw [map_hideIf_id]
        intro x hx hxr
        have := hp.1 (dist x) (mem_recDists hx hxr)
        simp only [decide_eq_false_iff_not]; omega

/-- backward scan once `lastRecDist` is set: strip every record within `th` of it (list reversed) -/
theorem scanEndRev_map_set (th L : Nat) (hL : L ≠ uint32Invalid) : ∀ (rs : List Message),
    (recDists rs).Pairwise (· ≥ ·) → (∀ d ∈ recDists rs, d ≤ L) → L < 2 ^ 32 →
    (scanEndRev th L rs).1 = rs.map (hideIf fun m => L - dist m < th)
  | [], _, _, _ => rfl
  | m :: rs, h, hle, hlt => by
    simp only [scanEndRev]
    have hnl : ∀ d, nextLast L d = L := by intro d; simp [nextLast, hL]
    cases hr : isRecord m
    · simp only [Bool.false_eq_true, ↓reduceIte, List.map_cons]
      rw [recDists_cons_other hr] at h hle
      rw [scanEndRev_map_set th L hL rs h hle hlt]
      simp [hideIf, hr]
    · rw [recDists_cons_record hr] at h hle
      have hp := List.pairwise_cons.mp h
      have hdl : dist m ≤ L := hle _ (List.mem_cons_self ..)
      have hw : (L + 2 ^ 32 - dist m) % 2 ^ 32 = L - dist m := by omega
      simp only [↓reduceIte, hnl, hw]
      split
      · rename_i hlt'
        simp only [List.map_cons]
        rw [scanEndRev_map_set th L hL rs hp.2 (fun d hd => hle d (List.mem_cons_of_mem _ hd)) hlt]
        simp [hideIf, hr, hlt']
      · rename_i hge
        have hm : hideIf (fun m => decide (L - dist m < th)) m = m := by simp [hideIf, hr, hge]
        simp only [List.map_cons, hm]
        rw [map_hideIf_id]
        intro x hx hxr
        have := hp.1 (dist x) (mem_recDists hx hxr)
        simp only [decide_eq_false_iff_not]; omega

/-- distance of the first record of a list (0 if none) -/
def headDist (rs : List Message) : Nat := (recDists rs).head?.getD 0

/-- backward scan from the start (`lastRecDist` unset): the first record met fixes it -/
theorem scanEndRev_map_unset (th : Nat) (hth : 0 < th) : ∀ (rs : List Message),
    (recDists rs).Pairwise (· ≥ ·) → (∀ d ∈ recDists rs, d ≠ uint32Invalid) →
    (scanEndRev th uint32Invalid rs).1 = rs.map (hideIf fun m => headDist rs - dist m < th)
  | [], _, _ => rfl
  | m :: rs, h, hv => by
    simp only [scanEndRev]
    cases hr : isRecord m
    · simp only [Bool.false_eq_true, ↓reduceIte, List.map_cons]
      rw [recDists_cons_other hr] at h hv
      rw [scanEndRev_map_unset th hth rs h hv]
      have hh : headDist (m :: rs) = headDist rs := by simp [headDist, recDists_cons_other hr]
      simp [hideIf, hr, hh]
    · rw [recDists_cons_record hr] at h hv
      have hp := List.pairwise_cons.mp h
      have hnl : nextLast uint32Invalid (dist m) = dist m := by simp [nextLast]
      have hh : headDist (m :: rs) = dist m := by simp [headDist, recDists_cons_record hr]
      have hw : (dist m + 2 ^ 32 - dist m) % 2 ^ 32 = 0 := by omega
      simp only [↓reduceIte, hnl, hw, hth, List.map_cons, hh]
      rw [scanEndRev_map_set th (dist m) (hv _ (List.mem_cons_self ..)) rs hp.2 (fun d hd => hp.1 d hd) (dist_lt m)]
      simp [hideIf, hr, hth]

/-- the lap/session passes leave every other message alone -/
theorem updStart_others (ph : PH) (r : RecInfo) : ∀ ms : List Message,
    Rel2 (fun m m' => m.num ≠ ph.mesgNum → m' = m) ms (updStart ph r ms)
  | [] => .nil
  | m :: ms => by
    simp only [updStart]
    split
    · rename_i hn
      have hn' : m.num = ph.mesgNum := by simpa using hn
      split
      · exact .cons (fun h => absurd hn' h) (updStart_others ph r ms)
      · exact .cons (fun h => absurd hn' h) (Rel2.refl (fun _ _ => rfl) _)
    · exact .cons (fun _ => rfl) (updStart_others ph r ms)

theorem updEndRev_others (ph : PH) (r : RecInfo) (ov : Bool) : ∀ ms : List Message,
    Rel2 (fun m m' => m.num ≠ ph.mesgNum → m' = m) ms (updEndRev ph r ov ms)
  | [] => .nil
  | m :: ms => by
    simp only [updEndRev]
    split
    · rename_i hn
      have hn' : m.num = ph.mesgNum := by simpa using hn
      split
      · exact .cons (fun h => absurd hn' h) (updEndRev_others ph r ov ms)
      · exact .cons (fun h => absurd hn' h) (Rel2.refl (fun _ _ => rfl) _)
    · exact .cons (fun _ => rfl) (updEndRev_others ph r ov ms)

/-- `RecMap f xs ys`: same message numbers throughout, and every record `m` of `xs` has become `f m` -/
def RecMap (f : Message → Message) : List Message → List Message → Prop :=
  Rel2 fun m m' => m'.num = m.num ∧ (isRecord m = true → m' = f m)

theorem isRecord_of_num_eq {m m' : Message} (h : m'.num = m.num) : isRecord m' = isRecord m := by
  simp [isRecord, h]

theorem RecMap.recDists {f : Message → Message} (hf : ∀ m, dist (f m) = dist m) :
    ∀ {xs ys : List Message}, RecMap f xs ys → recDists ys = recDists xs
  | _, _, .nil => rfl
  | _, _, .cons (a := a) (b := b) ⟨hn, hr⟩ rest => by
    have ih := RecMap.recDists hf rest
    cases ha : isRecord a
    · have hb : isRecord b = false := by rw [isRecord_of_num_eq hn, ha]
      rw [recDists_cons_other ha, recDists_cons_other hb, ih]
    · have hb : isRecord b = true := by rw [isRecord_of_num_eq hn, ha]
      rw [recDists_cons_record ha, recDists_cons_record hb, ih, hr ha, hf]

theorem RecMap.comp {f g : Message → Message} {xs ys zs : List Message} (_hf : ∀ m, (f m).num = m.num)
    (h1 : RecMap f xs ys) (h2 : RecMap g ys zs) : RecMap (fun m => g (f m)) xs zs := by
  refine Rel2.comp ?_ h1 h2
  intro a b c ⟨hn1, hr1⟩ ⟨hn2, hr2⟩
  refine ⟨hn2.trans hn1, fun ha => ?_⟩
  have hb : isRecord b = true := by rw [isRecord_of_num_eq hn1, ha]
  rw [hr2 hb, hr1 ha]

theorem RecMap.ofMap (f : Message → Message) (hf : ∀ m, (f m).num = m.num) (_hnr : ∀ m, isRecord m = false → f m = m)
    (xs : List Message) : RecMap f xs (xs.map f) :=
  Rel2.map f (fun m => ⟨hf m, fun _ => rfl⟩) xs

theorem RecMap.ofOthers {ph : PH} (hph : ph.mesgNum ≠ mnRecord) {xs ys : List Message}
    (h : Rel2 (fun m m' => m.num ≠ ph.mesgNum → m' = m) xs ys) (ht : Rel2 Touch xs ys) : RecMap id xs ys := by
  refine Rel2.imp ?_ (Rel2.and h ht)
  intro a b ⟨ho, hn, _, _⟩
  refine ⟨hn, fun ha => ho ?_⟩
  have : a.num = mnRecord := by simpa [isRecord] using ha
  rw [this]; exact fun h => hph h.symm

theorem hideIf_num (p : Message → Bool) (m : Message) : (hideIf p m).num = m.num := by
  unfold hideIf; split <;> rfl

theorem RecMap.reverse {f : Message → Message} {xs ys : List Message} (h : RecMap f xs ys) :
    RecMap f xs.reverse ys.reverse := Rel2.reverse h

theorem recDists_reverse (ms : List Message) : recDists ms.reverse = (recDists ms).reverse := by
  simp [recDists, List.filter_reverse]

theorem headDist_reverse (ms : List Message) : headDist ms.reverse = lastDist ms := by
  simp [headDist, lastDist, recDists_reverse]

/-- what the concealer does to the records of an activity with valid, non-decreasing distances:
a record loses its position exactly when it lies in the first `first` or in the last `last` units of distance -/
theorem conceal_records (first last : Nat) (ms : List Message) (h : DistOK ms) :
    RecMap (fun m => hideIf (fun m => lastDist ms - dist m < last) (hideIf (fun m => dist m < first) m))
      ms (conceal first last ms) := by
  obtain ⟨hv, hmono⟩ := h
  -- start stage
  have hs : RecMap (hideIf fun m => dist m < first) ms (concealStart first ms).1 := by
    unfold concealStart
    split
    · rename_i h0
      subst h0
      have : ∀ m, hideIf (fun m => decide (dist m < 0)) m = m := by intro m; simp [hideIf]
      exact Rel2.refl (fun m => ⟨rfl, fun _ => (this m).symm⟩) _
    · have a : RecMap (hideIf fun m => dist m < first) ms (scanStart first 0 ms).1 := by
        rw [scanStart_map first ms 0 hmono]
        exact RecMap.ofMap _ (hideIf_num _) (fun m hm => by simp [hideIf, hm]) ms
      have b := RecMap.ofOthers (ph := lapPH) (by decide)
        (updStart_others lapPH (recAt (scanStart first 0 ms).1 (scanStart first 0 ms).2) (scanStart first 0 ms).1)
        (updStart_touch (Or.inl rfl) _ _)
      have c := RecMap.ofOthers (ph := sesPH) (by decide)
        (updStart_others sesPH (recAt (scanStart first 0 ms).1 (scanStart first 0 ms).2)
          (updStart lapPH (recAt (scanStart first 0 ms).1 (scanStart first 0 ms).2) (scanStart first 0 ms).1))
        (updStart_touch (Or.inr rfl) _ _)
      have ab := RecMap.comp (hideIf_num _) a b
      have abc := RecMap.comp (f := fun m => id (hideIf (fun m => decide (dist m < first)) m)) (g := id)
        (fun m => hideIf_num _ m) ab c
      exact abc
  have hd : recDists (concealStart first ms).1 = recDists ms := RecMap.recDists (dist_hideIf _) hs
  -- end stage
  have he : RecMap (hideIf fun m => lastDist ms - dist m < last) (concealStart first ms).1
      (concealEnd last (concealStart first ms).2 (concealStart first ms).1) := by
    generalize (concealStart first ms).2 = idx
    generalize hA : (concealStart first ms).1 = A at hd
    unfold concealEnd
    split
    · rename_i h0
      subst h0
      have : ∀ m, hideIf (fun m => decide (lastDist ms - dist m < 0)) m = m := by intro m; simp [hideIf]
      exact Rel2.refl (fun m => ⟨rfl, fun _ => (this m).symm⟩) _
    · rename_i hpos
      have hrev : (recDists A.reverse).Pairwise (· ≥ ·) := by
        rw [recDists_reverse, hd, List.pairwise_reverse]; exact hmono
      have hvr : ∀ d ∈ recDists A.reverse, d ≠ uint32Invalid := by
        intro d hd'; rw [recDists_reverse, hd] at hd'; exact hv d (List.mem_reverse.mp hd')
      have hL : headDist A.reverse = lastDist ms := by rw [headDist_reverse]; simp [lastDist, hd]
      have a : RecMap (hideIf fun m => lastDist ms - dist m < last) A.reverse (scanEndRev last uint32Invalid A.reverse).1 := by
        rw [scanEndRev_map_unset last (Nat.pos_of_ne_zero hpos) A.reverse hrev hvr, hL]
        exact RecMap.ofMap _ (hideIf_num _) (fun m hm => by simp [hideIf, hm]) _
      have gen : ∀ (ri : RecInfo) (ov : Bool), RecMap (hideIf fun m => lastDist ms - dist m < last) A
          (updEndRev sesPH ri ov (updEndRev lapPH ri ov (scanEndRev last uint32Invalid A.reverse).1)).reverse := by
        intro ri ov
        have b := RecMap.ofOthers (ph := lapPH) (by decide)
          (updEndRev_others lapPH ri ov (scanEndRev last uint32Invalid A.reverse).1)
          (updEndRev_touch (Or.inl rfl) _ _ _)
        have c := RecMap.ofOthers (ph := sesPH) (by decide)
          (updEndRev_others sesPH ri ov (updEndRev lapPH ri ov (scanEndRev last uint32Invalid A.reverse).1))
          (updEndRev_touch (Or.inr rfl) _ _ _)
        have ab := RecMap.comp (hideIf_num _) a b
        have abc := RecMap.comp (f := fun m => id (hideIf (fun m => decide (lastDist ms - dist m < last)) m)) (g := id)
          (fun m => hideIf_num _ m) ab c
        have r := RecMap.reverse abc
        simpa using r
      exact gen _ _
  unfold conceal
  exact RecMap.comp (hideIf_num _) hs he

end Fit.Activity

namespace Fit.Activity
open Fit.Value Fit.Msg Fit.Gen Fit.Gen.Tool

/-! ### a stripped record has no position left -/

theorem removeField_sublist (n : Nat) : ∀ fs : List Field, (removeField n fs).Sublist fs
  | [] => .slnil
  | f :: fs => by
    simp only [removeField]; split
    · exact (List.Sublist.refl fs).cons _
    · exact (removeField_sublist n fs).cons_cons _

theorem removeField_none (n : Nat) : ∀ fs : List Field, (fs.filter (hasNum n)).length ≤ 1 →
    (removeField n fs).all (fun f => !hasNum n f) = true
  | [], _ => rfl
  | f :: fs, h => by
    simp only [removeField]
    cases hf : hasNum n f
    · simp only [Bool.false_eq_true, ↓reduceIte, List.all_cons, hf, Bool.not_false, Bool.true_and]
      apply removeField_none n fs
      simpa [List.filter_cons, hf] using h
    · simp only [↓reduceIte]
      have : (fs.filter (hasNum n)).length = 0 := by
        simp only [List.filter_cons, hf, ↓reduceIte, List.length_cons] at h; omega
      have hnil : fs.filter (hasNum n) = [] := List.eq_nil_of_length_eq_zero this
      simp only [List.all_eq_true, Bool.not_eq_eq_eq_not, Bool.not_true]
      intro x hx
      have := List.filter_eq_nil_iff.mp hnil x hx
      simpa using this

theorem filter_hasNum_removeField_ne {n k : Nat} (h : n ≠ k) : ∀ fs : List Field,
    (removeField n fs).filter (hasNum k) = fs.filter (hasNum k)
  | [] => rfl
  | f :: fs => by
    simp only [removeField]
    split
    · rename_i hn
      have : hasNum k f = false := by
        unfold hasNum at hn ⊢
        cases hb : f.base with
        | none => rfl
        | some b => rw [hb] at hn; simp only [beq_iff_eq] at hn; simp only [beq_eq_false_iff_ne]; omega
      simp [this]
    · simp [List.filter_cons, filter_hasNum_removeField_ne h fs]

theorem posFree_stripPos {m : Message} (h1 : UniqueNum fnRecordPositionLat m) (h2 : UniqueNum fnRecordPositionLong m) :
    posFree (stripPos m) = true := by
  simp only [posFree, stripPos, rm, List.all_eq_true, Bool.and_eq_true]
  intro f hf
  constructor
  · have a := removeField_none fnRecordPositionLat m.fields h1
    have hsub := (removeField_sublist fnRecordPositionLong (removeField fnRecordPositionLat m.fields)).subset hf
    exact List.all_eq_true.mp a f hsub
  · have h2' : ((removeField fnRecordPositionLat m.fields).filter (hasNum fnRecordPositionLong)).length ≤ 1 := by
      rw [filter_hasNum_removeField_ne (by decide)]; exact h2
    exact List.all_eq_true.mp (removeField_none fnRecordPositionLong _ h2') f hf

theorem posFree_stripPos_of_posFree {m : Message} (h : posFree m = true) : posFree (stripPos m) = true := by
  simp only [posFree, stripPos, rm, List.all_eq_true] at h ⊢
  intro f hf
  exact h f ((removeField_sublist _ _).subset ((removeField_sublist _ _).subset hf))

theorem posFree_hideIf_of_posFree {p : Message → Bool} {m : Message} (h : posFree m = true) : posFree (hideIf p m) = true := by
  unfold hideIf; split
  · exact posFree_stripPos_of_posFree h
  · exact h

end Fit.Activity

namespace Fit.Activity
open Fit.Value Fit.Msg Fit.Gen Fit.Gen.Tool

/-! ### combiner: order of the body, the stable sort -/

def blankF (f : Field) : Field := if hasAccFlag f then { f with value := .invalid } else f

theorem blankAcc_fields (m : Message) : blankAcc m = { m with fields := m.fields.map blankF } := rfl

theorem accumulable_flag {f : Field} (h : accumulable f = true) : hasAccFlag f = true := by
  unfold accumulable at h; unfold hasAccFlag
  cases hb : f.base with
  | none => simp [hb] at h
  | some b => simp only [hb, Bool.and_eq_true] at h; exact h.1

theorem blankF_set {f : Field} (v : Value) (h : hasAccFlag f = true) : blankF { f with value := v } = blankF f := by
  have h' : hasAccFlag { f with value := v } = true := h
  simp [blankF, h, h']

theorem accFields_blank (mn : Nat) : ∀ (fs : List Field) (a : Acc) (a' : Acc) (fs' : List Field),
    accFields mn a fs = some (a', fs') → fs'.map blankF = fs.map blankF
  | [], a, a', fs', h => by simp only [accFields] at h; cases h; rfl
  | f :: fs, a, a', fs', h => by
    simp only [accFields] at h
    split at h
    · rename_i hacc
      split at h
      · rename_i a1 v hv
        split at h
        · rename_i a2 fs2 h2
          cases h
          simp only [List.map_cons, blankF_set v (accumulable_flag hacc), accFields_blank mn fs a1 a' fs2 h2]
        · cases h
      · cases h
    · split at h
      · rename_i a2 fs2 h2
        cases h
        simp only [List.map_cons, accFields_blank mn fs a a' fs2 h2]
      · cases h

def notFid (m : Message) : Bool := !(m.num == mnFileId || m.num == mnFileCreator)

theorem accMesgs_blank : ∀ (ms : List Message) (a a' : Acc) (out : List Message),
    accMesgs a ms = some (a', out) → out.map blankAcc = (ms.filter notFid).map blankAcc
  | [], a, a', out, h => by simp only [accMesgs] at h; cases h; rfl
  | m :: ms, a, a', out, h => by
    simp only [accMesgs] at h
    split at h
    · rename_i hf
      have : notFid m = false := by simp [notFid, hf]
      simp only [List.filter_cons, this, Bool.false_eq_true, ↓reduceIte]
      exact accMesgs_blank ms a a' out h
    · rename_i hf
      have hn : notFid m = true := by simp only [notFid]; simpa using hf
      split at h
      · rename_i a1 fs1 h1
        split at h
        · rename_i a2 out2 h2
          cases h
          simp only [List.filter_cons, hn, ↓reduceIte, List.map_cons, accMesgs_blank ms a1 a' out2 h2]
          congr 1
          simp only [blankAcc_fields, accFields_blank m.num m.fields a a1 fs1 h1]
        · cases h
      · cases h

theorem combineBody_blank : ∀ (fs : List (List Message)) (a : Acc) (tail : List Message),
    combineBody a fs = some tail → tail.map blankAcc = (fs.flatMap (·.filter notFid)).map blankAcc
  | [], a, tail, h => by simp only [combineBody] at h; cases h; rfl
  | f :: fs, a, tail, h => by
    simp only [combineBody] at h
    split at h
    · rename_i a1 out h1
      split at h
      · rename_i rest h2
        cases h
        simp only [List.flatMap_cons, List.map_append, accMesgs_blank f a a1 out h1, combineBody_blank fs _ rest h2]
      · cases h
    · cases h

theorem filterBody_eq (ms : List Message) : filterBody ms = ms.filter (fun m => !isTrailerNum m.num) := by
  simp [filterBody, compact_stateless]

theorem flat_filter : ∀ rest : List (List Message),
    (rest.map filterBody).flatMap (·.filter notFid) =
      (rest.map fun f => f.filter fun m => !isTrailerNum m.num && !(m.num == mnFileId || m.num == mnFileCreator)).flatten
  | [] => rfl
  | r :: rs => by
    simp only [List.map_cons, List.flatMap_cons, List.flatten_cons, filterBody_eq, List.filter_filter, flat_filter rs]
    congr 1
    apply List.filter_congr
    intro x _
    simp [notFid, Bool.and_comm]

/-- the body of the combined activity is, up to the values of accumulable fields, the messages of the inputs in
creation-time order -/
theorem combine_body_blank (fits : List (List Message)) (body : List Message) (tr : List Trailer)
    (h : combine fits = .ok body tr) : body.map blankAcc = (bodyInputs fits).flatten.map blankAcc := by
  unfold combine at h
  simp only at h
  unfold bodyInputs
  cases hs : sortByCreation (fits.filter (!·.isEmpty)) with
  | nil => simp [hs] at h
  | cons f0 rest =>
    simp only [hs] at h
    split at h
    · cases h
    · split at h
      · cases h
      · rename_i tail htail
        injection h with hb _
        subst hb
        have := combineBody_blank _ _ _ htail
        simp only [List.map_append, this, List.flatten_cons, filterBody_eq]
        congr 1
        rw [flat_filter]

theorem insertLeft_perm (f : List Message) : ∀ l : List (List Message), (insertLeft f l).Perm (f :: l)
  | [] => List.Perm.refl _
  | g :: gs => by
    simp only [insertLeft]
    split
    · exact (List.Perm.cons g (insertLeft_perm f gs)).trans (List.Perm.swap f g gs)
    · exact List.Perm.refl _

theorem sortByCreation_perm : ∀ fs : List (List Message), (sortByCreation fs).Perm fs
  | [] => List.Perm.refl _
  | f :: fs => by
    show (insertLeft f (sortByCreation fs)).Perm (f :: fs)
    exact (insertLeft_perm f _).trans (List.Perm.cons f (sortByCreation_perm fs))

def ByCreation (l : List (List Message)) : Prop := l.Pairwise fun a b => timeCreated a ≤ timeCreated b

theorem insertLeft_sorted (f : List Message) : ∀ l : List (List Message), ByCreation l → ByCreation (insertLeft f l)
  | [], _ => by simp [insertLeft, ByCreation]
  | g :: gs, h => by
    have hp := List.pairwise_cons.mp h
    simp only [insertLeft]
    split
    · rename_i hlt
      refine List.pairwise_cons.mpr ⟨?_, insertLeft_sorted f gs hp.2⟩
      intro x hx
      rcases List.mem_cons.mp ((insertLeft_perm f gs).subset hx) with rfl | hx'
      · exact Nat.le_of_lt hlt
      · exact hp.1 x hx'
    · rename_i hge
      refine List.pairwise_cons.mpr ⟨?_, h⟩
      intro x hx
      rcases List.mem_cons.mp hx with rfl | hx'
      · omega
      · have := hp.1 x hx'; omega

theorem sortByCreation_sorted : ∀ fs : List (List Message), ByCreation (sortByCreation fs)
  | [] => List.Pairwise.nil
  | f :: fs => insertLeft_sorted f _ (sortByCreation_sorted fs)

/-- stability: files with the same creation time keep their order -/
theorem insertLeft_filter (k : Nat) (f : List Message) : ∀ l : List (List Message), ByCreation l →
    (insertLeft f l).filter (fun x => timeCreated x == k) = (f :: l).filter (fun x => timeCreated x == k)
  | [], _ => rfl
  | g :: gs, h => by
    have hp := List.pairwise_cons.mp h
    simp only [insertLeft]
    split
    · rename_i hlt
      -- g has a smaller key than f: g stays in front; if key g = k then key f ≠ k
      simp only [List.filter_cons, insertLeft_filter k f gs hp.2]
      by_cases hg : (timeCreated g == k) = true
      · have hf : (timeCreated f == k) = false := by
          have : timeCreated g = k := by simpa using hg
          simp only [beq_eq_false_iff_ne]; omega
        simp [hg, hf]
      · simp [hg]
    · rfl

theorem sortByCreation_stable (k : Nat) : ∀ fs : List (List Message),
    (sortByCreation fs).filter (fun x => timeCreated x == k) = fs.filter (fun x => timeCreated x == k)
  | [] => rfl
  | f :: fs => by
    show (insertLeft f (sortByCreation fs)).filter _ = _
    rw [insertLeft_filter k f _ (sortByCreation_sorted fs)]
    simp only [List.filter_cons, sortByCreation_stable k fs]

end Fit.Activity

namespace Fit.Activity
open Fit.Value Fit.Msg Fit.Gen Fit.Gen.Tool

/-! ### laps and sessions: the two update walks -/

/-- rewriting of the start position of the first lap/session that does not end before the record -/
def rewriteStart (ph : PH) (r : RecInfo) (m : Message) : Message :=
  setOrRemove ph.sLong r.long (setOrRemove ph.sLat r.lat m)

/-- what `updateStartPosition` does to the message at a position, given whether every lap/session BEFORE it ends
before the first revealed record (`pre`) -/
def startFate (ph : PH) (r : RecInfo) (pre : Bool) (m : Message) : Message :=
  if m.num == ph.mesgNum then
    if pre then (if endsBefore ph r m then strip4 ph m else rewriteStart ph r m) else m
  else m

/-- the flag after the message -/
def startPre (ph : PH) (r : RecInfo) (pre : Bool) (m : Message) : Bool :=
  if m.num == ph.mesgNum then pre && endsBefore ph r m else pre

/-- run the fates along the list -/
def startWalk (ph : PH) (r : RecInfo) : Bool → List Message → List Message
  | _, [] => []
  | pre, m :: ms => startFate ph r pre m :: startWalk ph r (startPre ph r pre m) ms

theorem startWalk_false (ph : PH) (r : RecInfo) : ∀ ms, startWalk ph r false ms = ms
  | [] => rfl
  | m :: ms => by
    have h1 : startFate ph r false m = m := by simp [startFate]
    have h2 : startPre ph r false m = false := by simp [startPre]
    simp only [startWalk, h1, h2, startWalk_false ph r ms]

/-- `updateStartPosition` = every lap/session before the first one that does not end before the record is stripped,
that one gets the record's position as start position, all later ones are left alone -/
theorem updStart_eq_walk (ph : PH) (r : RecInfo) : ∀ ms, updStart ph r ms = startWalk ph r true ms
  | [] => rfl
  | m :: ms => by
    simp only [updStart, startWalk, startFate, startPre]
    by_cases hn : (m.num == ph.mesgNum) = true
    · by_cases he : endsBefore ph r m = true
      · simp [hn, he, updStart_eq_walk ph r ms]
      · simp [hn, he, rewriteStart, startWalk_false]
    · simp [hn, updStart_eq_walk ph r ms]

/-- laps/sessions follow each other in time: each starts no earlier than `lo`, the end of the one before
(end = start_time + total_timer_time/1000, in seconds) -/
def lapsSeqP (ph : PH) : Nat → List Message → Prop
  | _, [] => True
  | lo, m :: ms => if m.num == ph.mesgNum then lo ≤ lapStartTime ph m ∧ lapsSeqP ph (lapEndTime ph m) ms else lapsSeqP ph lo ms

theorem lapStart_le_end (ph : PH) (m : Message) : lapStartTime ph m ≤ lapEndTime ph m := by
  unfold lapEndTime; exact Nat.le_add_right _ _

/-- what the start stage does to a lap/session `m` (result `m'`), in seconds: entirely before the first revealed record
(timestamp `T`) → all four positions removed; otherwise either its start position is replaced by the record's, or it
is left alone and starts at or after `T` -/
def StartStageOK (ph : PH) (r : RecInfo) (m m' : Message) : Prop :=
  (m.num == ph.mesgNum) = true →
    (lapEndTime ph m < r.ts → m' = strip4 ph m) ∧
    (r.ts ≤ lapEndTime ph m → m' = rewriteStart ph r m ∨ (m' = m ∧ r.ts ≤ lapStartTime ph m))

theorem startWalk_ok (ph : PH) (r : RecInfo) : ∀ (ms : List Message) (pre : Bool) (lo : Nat),
    lapsSeqP ph lo ms → (pre = false → r.ts ≤ lo) →
    (∀ m ∈ ms, (m.num == ph.mesgNum) = true → endsBefore ph r m = decide (lapEndTime ph m < r.ts)) →
    Rel2 (StartStageOK ph r) ms (startWalk ph r pre ms)
  | [], _, _, _, _, _ => .nil
  | m :: ms, pre, lo, hseq, hpre, hu => by
    simp only [startWalk]
    have hu' : ∀ x ∈ ms, (x.num == ph.mesgNum) = true → endsBefore ph r x = decide (lapEndTime ph x < r.ts) :=
      fun x hx => hu x (List.mem_cons_of_mem _ hx)
    by_cases hn : (m.num == ph.mesgNum) = true
    · simp only [lapsSeqP, hn, ↓reduceIte] at hseq
      obtain ⟨hlo, hrest⟩ := hseq
      have hum := hu m (List.mem_cons_self ..) hn
      cases pre with
      | true =>
        by_cases he : lapEndTime ph m < r.ts
        · have heb : endsBefore ph r m = true := by rw [hum]; simpa using he
          refine .cons ?_ (startWalk_ok ph r ms _ _ hrest ?_ hu')
          · intro _
            refine ⟨fun _ => by simp [startFate, hn, heb], fun h => by omega⟩
          · simp [startPre, hn, heb]
        · have heb : endsBefore ph r m = false := by rw [hum]; simpa using he
          refine .cons ?_ (startWalk_ok ph r ms _ _ hrest ?_ hu')
          · intro _
            refine ⟨fun h => absurd h he, fun _ => Or.inl (by simp [startFate, hn, heb])⟩
          · intro _; omega
      | false =>
        have hT := hpre rfl
        have hs := lapStart_le_end ph m
        refine .cons ?_ (startWalk_ok ph r ms _ _ hrest ?_ hu')
        · intro _
          refine ⟨fun h => by omega, fun _ => Or.inr ⟨by simp [startFate, hn], by omega⟩⟩
        · intro _; omega
    · have hn' : (m.num == ph.mesgNum) = false := by simpa using hn
      simp only [lapsSeqP, hn', Bool.false_eq_true, ↓reduceIte] at hseq
      refine .cons (fun h => absurd h hn) ?_
      have hp : startPre ph r pre m = pre := by simp [startPre, hn']
      rw [hp]
      exact startWalk_ok ph r ms pre lo hseq hpre hu'

/-- rewriting of the end position (and, when the two stretches overlap, removal of the start position) of the last
lap/session that does not start after the record -/
def rewriteEnd (ph : PH) (r : RecInfo) (overlap : Bool) (m : Message) : Message :=
  setOrRemove ph.eLong r.long (setOrRemove ph.eLat r.lat (if overlap then rm ph.sLong (rm ph.sLat m) else m))

def endFate (ph : PH) (r : RecInfo) (ov : Bool) (post : Bool) (m : Message) : Message :=
  if m.num == ph.mesgNum then
    if post then (if startsAfter ph r m then strip4 ph m else rewriteEnd ph r ov m) else m
  else m

def endPost (ph : PH) (r : RecInfo) (post : Bool) (m : Message) : Bool :=
  if m.num == ph.mesgNum then post && startsAfter ph r m else post

/-- along the REVERSED list -/
def endWalk (ph : PH) (r : RecInfo) (ov : Bool) : Bool → List Message → List Message
  | _, [] => []
  | post, m :: ms => endFate ph r ov post m :: endWalk ph r ov (endPost ph r post m) ms

theorem endWalk_false (ph : PH) (r : RecInfo) (ov : Bool) : ∀ ms, endWalk ph r ov false ms = ms
  | [] => rfl
  | m :: ms => by
    have h1 : endFate ph r ov false m = m := by simp [endFate]
    have h2 : endPost ph r false m = false := by simp [endPost]
    simp only [endWalk, h1, h2, endWalk_false ph r ov ms]

theorem updEndRev_eq_walk (ph : PH) (r : RecInfo) (ov : Bool) : ∀ ms, updEndRev ph r ov ms = endWalk ph r ov true ms
  | [] => rfl
  | m :: ms => by
    simp only [updEndRev, endWalk, endFate, endPost]
    by_cases hn : (m.num == ph.mesgNum) = true
    · by_cases he : startsAfter ph r m = true
      · simp [hn, he, updEndRev_eq_walk ph r ov ms]
      · simp [hn, he, rewriteEnd, endWalk_false]
    · simp [hn, updEndRev_eq_walk ph r ov ms]

/-- reversed order: each lap/session ends no later than `hi`, the start of the one after it -/
def lapsSeqRevP (ph : PH) : Nat → List Message → Prop
  | _, [] => True
  | hi, m :: ms => if m.num == ph.mesgNum then lapEndTime ph m ≤ hi ∧ lapsSeqRevP ph (lapStartTime ph m) ms else lapsSeqRevP ph hi ms

/-- what the end stage does to a lap/session: starting after the last revealed record (timestamp `T`, which exists) →
all four positions removed; otherwise either its end position is replaced by the record's, or it is left alone and
ends at or before `T` -/
def EndStageOK (ph : PH) (r : RecInfo) (ov : Bool) (m m' : Message) : Prop :=
  (m.num == ph.mesgNum) = true →
    (r.ts < lapStartTime ph m → m' = strip4 ph m) ∧
    (lapStartTime ph m ≤ r.ts → m' = rewriteEnd ph r ov m ∨ (m' = m ∧ lapEndTime ph m ≤ r.ts))


theorem endWalk_ok (ph : PH) (r : RecInfo) (ov : Bool) (hr : r.absent = false) : ∀ (ms : List Message) (post : Bool) (hi : Nat),
    lapsSeqRevP ph hi ms → (post = false → hi ≤ r.ts) →
    (∀ m ∈ ms, (m.num == ph.mesgNum) = true → lapStartTime ph m ≠ uint32Invalid) →
    Rel2 (EndStageOK ph r ov) ms (endWalk ph r ov post ms)
  | [], _, _, _, _, _ => .nil
  | m :: ms, post, hi, hseq, hpost, hv => by
    simp only [endWalk]
    have hv' : ∀ x ∈ ms, (x.num == ph.mesgNum) = true → lapStartTime ph x ≠ uint32Invalid :=
      fun x hx => hv x (List.mem_cons_of_mem _ hx)
    by_cases hn : (m.num == ph.mesgNum) = true
    · simp only [lapsSeqRevP, hn, ↓reduceIte] at hseq
      obtain ⟨hhi, hrest⟩ := hseq
      have hvm := hv m (List.mem_cons_self ..) hn
      have hsa : startsAfter ph r m = decide (r.ts < lapStartTime ph m) := by
        simp only [startsAfter, hr, Bool.false_or, lapStartTime] at hvm ⊢
        have : (u32 (fval m ph.startTime) == uint32Invalid) = false := by simpa using hvm
        simp only [this, Bool.false_or, gt_iff_lt]
        rfl
      cases post with
      | true =>
        by_cases he : r.ts < lapStartTime ph m
        · have hsb : startsAfter ph r m = true := by rw [hsa]; simpa using he
          refine .cons ?_ (endWalk_ok ph r ov hr ms _ _ hrest ?_ hv')
          · intro _
            refine ⟨fun _ => by simp [endFate, hn, hsb], fun h => by omega⟩
          · simp [endPost, hn, hsb]
        · have hsb : startsAfter ph r m = false := by rw [hsa]; simpa using he
          refine .cons ?_ (endWalk_ok ph r ov hr ms _ _ hrest ?_ hv')
          · intro _
            refine ⟨fun h => absurd h he, fun _ => Or.inl (by simp [endFate, hn, hsb])⟩
          · intro _; omega
      | false =>
        have hT := hpost rfl
        have hs := lapStart_le_end ph m
        refine .cons ?_ (endWalk_ok ph r ov hr ms _ _ hrest ?_ hv')
        · intro _
          refine ⟨fun h => by omega, fun _ => Or.inr ⟨by simp [endFate, hn], by omega⟩⟩
        · intro _; omega
    · have hn' : (m.num == ph.mesgNum) = false := by simpa using hn
      simp only [lapsSeqRevP, hn', Bool.false_eq_true, ↓reduceIte] at hseq
      refine .cons (fun h => absurd h hn) ?_
      have hp : endPost ph r post m = post := by simp [endPost, hn']
      rw [hp]
      exact endWalk_ok ph r ov hr ms post hi hseq hpost hv'

/-- no record left revealed (`recordIndex = -1`, fixed by /repo commit bd79ab7): every lap/session loses all four positions -/
theorem endWalk_absent (ph : PH) (r : RecInfo) (ov : Bool) (hr : r.absent = true) : ∀ ms : List Message,
    Rel2 (fun m m' => (m.num == ph.mesgNum) = true → m' = strip4 ph m) ms (endWalk ph r ov true ms)
  | [] => .nil
  | m :: ms => by
    simp only [endWalk]
    by_cases hn : (m.num == ph.mesgNum) = true
    · have hsb : startsAfter ph r m = true := by simp [startsAfter, hr]
      have hp : endPost ph r true m = true := by simp [endPost, hn, hsb]
      rw [hp]
      exact .cons (fun _ => by simp [endFate, hn, hsb]) (endWalk_absent ph r ov hr ms)
    · have hn' : (m.num == ph.mesgNum) = false := by simpa using hn
      have hp : endPost ph r true m = true := by simp [endPost, hn']
      rw [hp]
      exact .cons (fun h => absurd h hn) (endWalk_absent ph r ov hr ms)

end Fit.Activity

namespace Fit.Activity
open Fit.Value Fit.Msg Fit.Gen Fit.Gen.Tool

/-! ### reducer by RDP with the simplifier's contract -/

/-- strictly increasing -/
def Inc (l : List Nat) : Prop := l.Pairwise (· < ·)

theorem findFragments_filter : ∀ (fuel : Nat) (rs ps : List Nat), Inc rs → ps.Sublist rs → rs.length + ps.length < fuel →
    findFragments fuel rs ps = rs.filter (fun r => !ps.contains r)
  | 0, _, _, _, _, h => by omega
  | fuel + 1, [], ps, _, hsub, _ => by
    have : ps = [] := List.sublist_nil.mp hsub
    subst this; simp [findFragments]
  | fuel + 1, r :: rs, [], _, _, _ => by
    simp only [findFragments, List.contains_nil, Bool.not_false]
    exact (List.filter_eq_self.mpr (fun _ _ => rfl)).symm
  | fuel + 1, r :: rs, p :: ps, hinc, hsub, hf => by
    have hp := List.pairwise_cons.mp hinc
    simp only [findFragments]
    cases hsub with
    | cons _ h =>
      -- p :: ps is a sublist of rs: every element of it is greater than r
      have hall : ∀ x ∈ p :: ps, r < x := fun x hx => hp.1 x (h.subset hx)
      have hrp : r < p := hall p (List.mem_cons_self ..)
      have hnot : (p :: ps).contains r = false := by
        simp only [List.contains_eq_mem, decide_eq_false_iff_not]
        intro hm; have := hall r hm; omega
      simp only [hrp, ↓reduceIte, List.filter_cons, hnot, Bool.not_false]
      rw [findFragments_filter fuel rs (p :: ps) hp.2 h (by simp only [List.length_cons] at hf ⊢; omega)]
    | cons_cons _ h =>
      -- r = p
      have hnot : (r :: ps).contains r = true := by simp
      simp only [Nat.lt_irrefl, ↓reduceIte, beq_self_eq_true, List.filter_cons, hnot, Bool.not_true, Bool.false_eq_true]
      rw [findFragments_filter fuel rs ps hp.2 h (by simp only [List.length_cons] at hf ⊢; omega)]
      apply List.filter_congr
      intro x hx
      have : x ≠ r := by have := hp.1 x hx; omega
      simp [this]

theorem le_of_mem_zipIdx {α : Type} : ∀ (xs : List α) (k : Nat) (p : α × Nat), p ∈ xs.zipIdx k → k ≤ p.2
  | [], _, _, h => by simp at h
  | x :: xs, k, p, h => by
    simp only [List.zipIdx_cons, List.mem_cons] at h
    rcases h with rfl | h
    · exact Nat.le_refl _
    · have := le_of_mem_zipIdx xs (k + 1) p h; omega

theorem dropAt_filter {α : Type} : ∀ (xs : List α) (i : Nat) (frags : List Nat), Inc frags → (∀ f ∈ frags, i ≤ f) →
    dropAt i frags xs = ((xs.zipIdx i).filter (fun p => !frags.contains p.2)).map (·.1)
  | [], i, frags, _, _ => by cases frags <;> simp [dropAt]
  | x :: xs, i, [], _, _ => by
    simp only [dropAt, List.contains_nil, Bool.not_false]
    rw [List.filter_eq_self.mpr (fun _ _ => rfl)]
    simp
  | x :: xs, i, f :: fs, hinc, hge => by
    have hp := List.pairwise_cons.mp hinc
    simp only [dropAt, List.zipIdx_cons, List.filter_cons]
    by_cases hif : (i == f) = true
    · have hif' : i = f := by simpa using hif
      have hc : (f :: fs).contains i = true := by simp [hif']
      simp only [hif, ↓reduceIte, hc, Bool.not_true, Bool.false_eq_true]
      rw [dropAt_filter xs (i + 1) fs hp.2 (fun g hg => by have := hp.1 g hg; omega)]
      congr 1
      apply List.filter_congr
      intro p hpm
      have := le_of_mem_zipIdx xs (i + 1) p hpm
      have hne : p.2 ≠ f := by omega
      simp [hne]
    · have hlt : i < f := by
        have := hge f (List.mem_cons_self ..)
        have hne : i ≠ f := by simpa using hif
        omega
      have hc : (f :: fs).contains i = false := by
        simp only [List.contains_eq_mem, decide_eq_false_iff_not]
        intro hm
        rcases List.mem_cons.mp hm with h | h
        · omega
        · have := hp.1 i h; omega
      simp only [hif, Bool.false_eq_true, ↓reduceIte, hc, Bool.not_false, List.map_cons]
      rw [dropAt_filter xs (i + 1) (f :: fs) hinc (fun g hg => by
        rcases List.mem_cons.mp hg with rfl | h
        · omega
        · have := hp.1 g h; omega)]

theorem inc_idx (p : Message → Bool) : ∀ (ms : List Message) (k : Nat),
    Inc (((ms.zipIdx k).filter fun q => p q.1).map (·.2))
  | [], _ => List.Pairwise.nil
  | m :: ms, k => by
    simp only [List.zipIdx_cons, List.filter_cons]
    split
    · simp only [List.map_cons]
      refine List.pairwise_cons.mpr ⟨?_, inc_idx p ms (k + 1)⟩
      intro x hx
      obtain ⟨q, hq, rfl⟩ := List.mem_map.mp hx
      have := le_of_mem_zipIdx ms (k + 1) q (List.mem_filter.mp hq).1
      omega
    · exact inc_idx p ms (k + 1)

theorem recordIndexes_inc (ms : List Message) : Inc (recordIndexes ms) := inc_idx isRecord ms 0

theorem pointIndexes_sublist (ms : List Message) : (pointIndexes ms).Sublist (recordIndexes ms) := by
  unfold pointIndexes recordIndexes
  apply List.Sublist.map
  have : (ms.zipIdx.filter fun p => isRecord p.1 && hasPoint p.1) = (ms.zipIdx.filter fun p => isRecord p.1).filter (fun p => hasPoint p.1) := by
    rw [List.filter_filter]; apply List.filter_congr; intro x _; simp [Bool.and_comm]
  rw [this]; exact List.filter_sublist

theorem mem_recordIndexes_iff {ms : List Message} {m : Message} {i : Nat} (h : (m, i) ∈ ms.zipIdx) :
    i ∈ recordIndexes ms ↔ isRecord m = true := by
  constructor
  · intro hi
    obtain ⟨m', hm', hr⟩ := mem_recordIndexes hi
    have := List.mk_mem_zipIdx_iff_getElem?.mp h
    rw [this] at hm'; cases hm'; exact hr
  · intro hr
    exact List.mem_map.mpr ⟨(m, i), List.mem_filter.mpr ⟨h, hr⟩, rfl⟩

/-- **RDP with the simplifier's contract**: if the simplifier answers with a sublist of the points it was handed, the
result is the input without exactly the records whose point it dropped (a record without a valid position has no point
and is dropped) -/
theorem reduceByRdp_exact (simplified : List Nat) (ms : List Message) (hs : simplified.Sublist (pointIndexes ms))
    (hne : (pointIndexes ms).isEmpty = false) : reduceByRdp simplified ms = .ok (rdpExpected simplified ms) := by
  have hsub : simplified.Sublist (recordIndexes ms) := hs.trans (pointIndexes_sublist ms)
  have hF := findFragments_filter ((recordIndexes ms).length + simplified.length + 1) (recordIndexes ms) simplified
    (recordIndexes_inc ms) hsub (by omega)
  have hincF : Inc ((recordIndexes ms).filter fun r => !simplified.contains r) :=
    List.Pairwise.sublist List.filter_sublist (recordIndexes_inc ms)
  simp only [reduceByRdp, hne, Bool.false_eq_true, ↓reduceIte, hF, defragment_eq]
  rw [dropAt_filter ms 0 _ hincF (fun _ _ => Nat.zero_le _)]
  simp only [rdpExpected]
  congr 2
  apply List.filter_congr
  intro p hp
  obtain ⟨m, i⟩ := p
  have hiff := mem_recordIndexes_iff hp
  simp only [List.contains_eq_mem, List.mem_filter, Bool.not_eq_eq_eq_not, Bool.not_true, decide_eq_false_iff_not,
    decide_not, Bool.decide_and, Bool.not_and, Bool.not_not]
  cases hr : isRecord m
  · have : i ∉ recordIndexes ms := fun h => by rw [hiff.mp h] at hr; cases hr
    simp [this]
  · have : i ∈ recordIndexes ms := hiff.mpr hr
    simp [this]

end Fit.Activity
