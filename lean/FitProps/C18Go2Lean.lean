import FitProps.Go2LeanCrc
import FitProps.C18
/-!
# C18 — tie of the model to the source by translation

The functions of kit/hash/crc16/crc16.go are translated to Lean from the CURRENT source on every run
(`FitModel/Generated/Go_crc16.lean`); the theorems below state that each translated function equals, for all arguments,
the hand-written model function that `C18_crc_eq_spec … C18_sum_layout` are about. So the property theorems hold of the
code as it is now, not of a model that was only sampled against it.

PROPERTY THEOREMS (audited by ./check): C18_go2lean_table, C18_go2lean_compute, C18_go2lean_write, C18_go2lean_sum16,
C18_go2lean_sum, C18_go2lean_reset, C18_go2lean_crc_of_source
-/
namespace Fit.C18
open Fit.Crc Fit.Go2Lean

theorem C18_go2lean_table : Go.crc16.table.length = 16 ∧ ∀ i < 16, Go.crc16.table[i]? = some (T i) := crc_table

theorem C18_go2lean_compute (c crc b : Nat) (hc : crc < 2 ^ 16) :
    Go.crc16.crc16.compute c crc b = some (compute crc b) := crc_compute c crc b hc

theorem C18_go2lean_write (c : Nat) (p : List Nat) (hc : c < 2 ^ 16) :
    Go.crc16.crc16.Write c p = some (write c p, (p.length : Int)) := crc_write c p hc

theorem C18_go2lean_sum16 (c : Nat) : Go.crc16.crc16.Sum16 c = sum16 c := crc_sum16 c

theorem C18_go2lean_sum (c : Nat) (b : List Nat) : Go.crc16.crc16.Sum c b = sum c b := crc_sum c b

theorem C18_go2lean_reset (c : Nat) : Go.crc16.crc16.Reset c = reset := crc_reset c

/-- The property, stated of the translated source: a fresh hash (`Reset`), any byte string written in any number of
pieces with the translated `Write`, read with the translated `Sum16`, gives the bit-serial CRC-16 of the string. -/
theorem C18_go2lean_crc_of_source (c0 : Nat) (parts : List (List Nat)) (hp : Bytes parts.flatten) :
    (parts.foldlM (fun c p => (Go.crc16.crc16.Write c p).map (·.1)) (Go.crc16.crc16.Reset c0)).map Go.crc16.crc16.Sum16
      = some (crcSpec 0 parts.flatten) := by
  have h : ∀ (ps : List (List Nat)) (c : Nat), c < 2 ^ 16 →
      ps.foldlM (fun c p => (Go.crc16.crc16.Write c p).map (·.1)) c = some (ps.foldl write c) := by
    intro ps
    induction ps with
    | nil => intro c _; rfl
    | cons p ps ih =>
      intro c hc
      simp only [List.foldlM_cons, List.foldl_cons, crc_write c p hc, Option.map_some, Option.bind_eq_bind, Option.bind_some, bind]
      exact ih _ (write_lt c hc p)
  rw [crc_reset, h _ _ (by decide : reset < 2 ^ 16), Option.map_some, crc_sum16, C18_split_many]
  exact congrArg some (C18_crc_eq_spec _ hp)

end Fit.C18
