import FitModel.Csv
/-!
Facts about the REGENERATED tables (`Generated/CsvProfile.lean`: the profile as the converters see it, the CSV reader's
two lookup tables), decided by kernel evaluation. These are the obligations a change of the profile, of
`MesgNum.String()` or of the generated `lookup_gen.go` breaks.
-/
namespace Fit.Csv
open Fit.Value Fit.Gen Fit.Gen.Csv

/-- the reader's message-name table inverts `MesgNum.String()` on every listed number below the manufacturer range,
and no message name looks like "unknown…" -/
def mesgTableOK : Bool :=
  mesgNames.all fun p => p.1 ≥ mfgRangeMin || (lookupMesgNum (txt p.2) == some p.1 && !isPrefixOf' unknownTxt (txt p.2))

/-- for every field of every profile message: the reader's field table maps its name back to its number, the factory
lookup by number returns the field, the name is non-empty and not "unknown…", and it is not a sint32 field in "degrees"
(which the reader would convert as a position), and no float field has a scale or offset -/
def fieldTableOK : Bool :=
  profile.all fun m => m.num ≥ mfgRangeMin ||
    m.fields.all fun f =>
      lookupFieldNum m.num (txt f.name) == some f.num && pfield m.num f.num == some f &&
      !(txt f.name).isEmpty && !isPrefixOf' unknownTxt (txt f.name) && !(txt f.units == degreesTxt && f.bt == btSint32) &&
      !((f.bt == btFloat32 || f.bt == btFloat64) && isScaledField f.scale f.offset)

set_option maxRecDepth 100000 in
theorem mesgTableOK_true : mesgTableOK = true := by decide +kernel

set_option maxRecDepth 100000 in
theorem fieldTableOK_true : fieldTableOK = true := by decide +kernel

end Fit.Csv
