import FitProps.FileDefLemmas
import FitProps.FileDefOrderLemmas
import FitProps.FileDefContentLemmas
import FitProps.C13
import FitProps.ListenerKLemmas
import FitProps.ListenerKTermLemmas
import FitProps.ListenerKLegacyLemmas
/-! # C14 — File types conserve messages; the concurrent listener equals sequential building

First half: the 17 common file types (`Fit.FileDef`, tables regenerated from /repo on every run).
`T ∈ fileTypes` ranges over the regenerated tables, so every theorem below is re-checked by the kernel against what
the probe of the current code found (`C14_tables_ok` is the obligation on the tables themselves). -/
namespace Fit.C14
open Fit.FileDef Fit.FileDef.Generated

/-- Obligation on the regenerated tables (all 17 file types): slot numbers are distinct, no message number is
dropped, the observed kind of every slot (singleton / list) is the kind the exported struct declares, every typed field
the struct declares is a slot `Add` fills (`declOnly = []`), the first three slots are file_id (value), developer_data_id,
field_description (lists), and the sort never starts inside this prefix. A file type that drops a message kind, leaves a
declared field unfilled or moves the prefix breaks this. -/
theorem C14_tables_ok : ∀ T ∈ fileTypes, TableOK T := by decide

/-! The file-type theorems are proved once for any representation of a message (`FileDef.Carrier`,
`FitProps/FileDefLemmas.lean`, namespace `G`) and stated here twice: for the abstract messages `Msg` (the listener model
and the digest family run on them) and, further below (`C14_content_…`), for real protocol messages, where the effect
of the typed structs is C13's `typedNormal`. -/

/-- `Sorted` / `withKey` / … of the abstract messages -/
abbrev Sorted (l : List Msg) : Prop := G.Sorted absC l
abbrev withKey (k : Option Nat) (l : List Msg) : List Msg := G.withKey absC k l
abbrev hasFileId (msgs : List Msg) : Bool := G.hasFileId absC msgs
abbrev OutputShape (T : FileType) (msgs : List Msg) (fid : Msg) (rest : List Msg) : Prop := G.OutputShape absC T msgs fid rest
abbrev restEmission (T : FileType) (msgs : List Msg) : List Msg := G.restEmission absC T msgs
abbrev restGroups (T : FileType) (f : File) : List (List Msg) := G.restGroups absC T f

/-- **What a file keeps.** For every file type and every message list, the stored messages are exactly the input
(each message normalised by its typed struct), minus the earlier occurrences of single-valued kinds
(file_id, activity, user_profile, …: the last one added wins) — nothing else lost, nothing duplicated, arrival
order kept within every kind. -/
theorem C14_build_keeps_last {T : FileType} (hT : T ∈ fileTypes) (msgs : List Msg) :
    build T msgs = keepLastDecl T (msgs.map (normT T)) :=
  G.build_keeps_last absC (C14_tables_ok T hT) msgs

/-- **Conservation.** `ToFIT` of the built file is, as a multiset, exactly `keepLast` of the (normalised) input:
no message lost or duplicated, singletons keep their last occurrence. (Input with a file_id message.) -/
theorem C14_conservation {T : FileType} (hT : T ∈ fileTypes) (msgs : List Msg) (hfid : hasFileId msgs = true) :
    (toFIT T (build T msgs)).Perm (keepLastDecl T (msgs.map (normT T))) :=
  G.conservation absC absC_lawful (C14_tables_ok T hT) msgs hfid

/-- The code's behaviour on an input without file_id (stated exactly): the file struct holds `FileId` by value, so
`ToFIT` emits one zero-valued file_id that was never added; everything else is conserved as above. -/
theorem C14_conservation_no_file_id {T : FileType} (hT : T ∈ fileTypes) (msgs : List Msg) (hfid : hasFileId msgs = false) :
    (toFIT T (build T msgs)).Perm (defaultMsg T mesgNumFileId :: keepLastDecl T (msgs.map (normT T))) :=
  G.conservation_no_file_id absC absC_lawful (C14_tables_ok T hT) msgs hfid

/-- **Prefix order.** The output starts with exactly one file_id message, then all developer_data_id messages, then
all field_description messages (each in arrival order); no message of these three kinds occurs later. -/
theorem C14_prefix_order {T : FileType} (hT : T ∈ fileTypes) (msgs : List Msg) :
    ∃ fid rest, fid.num = mesgNumFileId ∧ OutputShape T msgs fid rest ∧ ∀ m ∈ rest, isPrefixNum m.num = false :=
  G.prefix_order absC absC_lawful (C14_tables_ok T hT) msgs

/-- The sort itself, for every list (of any representation of messages): the result is a permutation, sorted by the key
(`none` = no timestamp field least, then by uint32 value, invalid 0xFFFFFFFF last), and messages with equal keys keep
their order. -/
theorem C14_sort_stable {μ : Type} (C : Carrier μ) (l : List μ) :
    (G.sortStable C l).Perm l ∧ G.Sorted C (G.sortStable C l) ∧ ∀ k, G.withKey C k (G.sortStable C l) = G.withKey C k l :=
  ⟨G.sortStable_perm C l, G.sortStable_sorted C l, fun k => G.sortStable_withKey C k l⟩

/-- The stable sorted arrangement is unique: whatever algorithm `slices.SortStableFunc` uses, if it returns a sorted
list with the same per-key subsequences (= stable), it returns `sortStable l`. This is the only thing assumed of
the standard library here. -/
theorem C14_sort_unique {μ : Type} (C : Carrier μ) (l l' : List μ) (hs : G.Sorted C l')
    (hst : ∀ k, G.withKey C k l' = G.withKey C k l) : l' = G.sortStable C l := G.sortStable_unique C l l' hs hst

/-- In a sorted list every message before a timestamp-less one is timestamp-less: timestamp-less messages come first. -/
theorem C14_timestampless_first {μ : Type} (C : Carrier μ) (a c : List μ) (b : μ) (hs : G.Sorted C (a ++ b :: c))
    (hb : C.key b = none) : ∀ x ∈ a, C.key x = none := G.timestampless_first C a c b hs hb

/-- the full ordering demand of the property: for EVERY file type, everything after the prefix is the stable sort
of the emission -/
def C14_sorted_stable_full : Prop :=
  ∀ T ∈ fileTypes, ∀ msgs : List Msg, ∃ fid, OutputShape T msgs fid (sortStable (restEmission T msgs))

/-- **Ordering (partial: file types that sort from the end of the prefix, `sortFrom = 3`).** On the pinned tree these
are 9 of the 17 file types (activity, course, weight, totals, blood_pressure, monitoring_a/b, activity_summary,
monitoring_daily). The other 8 sort only their unrelated messages (device, settings, sport, schedules, goals, segment,
segment_list) or nothing (workout): there `C14_sorted_stable_full` is false — known finding KF-C14-2,
`C14_KF2_witness` below; what those types do is `C14_sorted_suffix`. -/
theorem C14_sorted_stable_partial {T : FileType} (hT : T ∈ fileTypes) (h3 : T.sortFrom = 3) (msgs : List Msg) :
    ∃ fid, OutputShape T msgs fid (sortStable (restEmission T msgs)) ∧
      Sorted (sortStable (restEmission T msgs)) ∧
      (∀ k, withKey k (sortStable (restEmission T msgs)) = withKey k (restEmission T msgs)) :=
  G.sorted_stable_of_sortFrom3 absC absC_lawful (C14_tables_ok T hT) h3 msgs

/-- **What every file type does** (any `sortFrom ≥ 3`): the groups before `sortFrom` stay in emission order, the
groups from `sortFrom` on are stably sorted together. -/
theorem C14_sorted_suffix {T : FileType} (hT : T ∈ fileTypes) (msgs : List Msg) :
    ∃ fid, OutputShape T msgs fid
      (((restGroups T (build T msgs)).take (T.sortFrom - 3)).flatten ++
        sortStable ((restGroups T (build T msgs)).drop (T.sortFrom - 3)).flatten) := by
  obtain ⟨fid, _, h⟩ := G.output_shape absC absC_lawful (C14_tables_ok T hT) msgs
  exact ⟨fid, h⟩

/-- **The regenerated table is the table of the 17 file types**: the probe (which walks `filedef.PredefinedFileSet()`)
found exactly the file types device, settings, sport, activity, workout, course, schedules, weight, totals, goals,
blood_pressure, monitoring_a, activity_summary, monitoring_daily, monitoring_b, segment, segment_list — by `type` byte and
by Go type. A file type that disappears from the registry (or from the probe) cannot pass: `∀ T ∈ fileTypes` in every
theorem of this file ranges over these 17. -/
theorem C14_file_types_pinned :
    fileTypes.map (·.ftype) = [1, 2, 3, 4, 5, 6, 7, 9, 10, 11, 14, 15, 20, 28, 32, 34, 35] ∧
    fileTypes.map (·.gotype) = ["filedef.Device", "filedef.Settings", "filedef.Sport", "filedef.Activity", "filedef.Workout",
      "filedef.Course", "filedef.Schedules", "filedef.Weight", "filedef.Totals", "filedef.Goals", "filedef.BloodPressure",
      "filedef.MonitoringAB", "filedef.ActivitySummary", "filedef.MonitoringDaily", "filedef.MonitoringAB", "filedef.Segment",
      "filedef.SegmentList"] := by
  decide

/-- **Stability in terms of ARRIVAL order, within a kind** (all 17 file types, sorted or not). `C14_sort_stable` /
`C14_sorted_stable_partial` state stability against the *emission* order (slot by slot); between two messages of
DIFFERENT kinds with the same timestamp that order is the file type's slot order, not the order of arrival. Within one
kind it IS the order of arrival: for every message number `n` (other than file_id, of which there is one) and every
timestamp key `k` (`none` = no timestamp field), the messages of number `n` and key `k` appear in the output in exactly
the order in which the file keeps them — the input order (of the last occurrence, for single-valued kinds). -/
theorem C14_stable_within_kind {T : FileType} (hT : T ∈ fileTypes) (msgs : List Msg) (n : Nat) (hn : n ≠ mesgNumFileId)
    (k : Option Nat) :
    (toFIT T (build T msgs)).filter (fun m => m.num == n && decide (key m = k)) =
      (keepLastDecl T (msgs.map (normT T))).filter (fun m => m.num == n && decide (key m = k)) :=
  G.stable_within_kind absC absC_lawful (C14_tables_ok T hT) msgs n hn k

/-- the file types that do not sort everything after the prefix (class of KF-C14-2) are among eight named ones, and each of
them sorts exactly its unrelated messages (`sortFrom = slots.length`) or nothing (`slots.length + 1`). Holds before and
after a repair of KF-C14-2 (a repaired type has `sortFrom = 3`); a NINTH type that stops sorting breaks it. -/
def kf2Names : List String := ["device", "settings", "sport", "workout", "schedules", "goals", "segment", "segment_list"]

theorem C14_KF2_class : ∀ T ∈ fileTypes, T.sortFrom = 3 ∨
    (T.name ∈ kf2Names ∧ (T.sortFrom = T.slots.length ∨ T.sortFrom = T.slots.length + 1)) := by
  decide

/-- **What the file types of KF-C14-2 do guarantee** (any file type with `slots.length ≤ sortFrom`; by `C14_KF2_class`
every file type that does not have `sortFrom = 3`): after file_id / developer_data_id / field_description come the typed
messages kind by kind in the file type's fixed order, each kind in arrival order — NOT ordered by timestamp (that is the
finding) —, then the unrelated messages, which ARE the unique stable sort by timestamp of the unrelated messages in arrival
order when `sortFrom = slots.length` (device, settings, sport, schedules, goals, segment, segment_list) and are left in
arrival order when the type sorts nothing (workout). Nothing is lost or duplicated (`C14_conservation`) and the order within
a kind and timestamp is the arrival order (`C14_stable_within_kind`) for these types as for the others. -/
theorem C14_sorted_unrelated_only {T : FileType} (hT : T ∈ fileTypes) (hs : T.slots.length ≤ T.sortFrom) (msgs : List Msg) :
    ∃ fid, OutputShape T msgs fid
      (G.typedRest absC T (build T msgs) ++
        (if T.sortFrom = T.slots.length then sortStable (G.unrelated absC T (build T msgs)) else G.unrelated absC T (build T msgs))) ∧
    Sorted (sortStable (G.unrelated absC T (build T msgs))) ∧
    (∀ k, withKey k (sortStable (G.unrelated absC T (build T msgs))) = withKey k (G.unrelated absC T (build T msgs))) := by
  obtain ⟨fid, h⟩ := G.sorted_unrelated_only absC absC_lawful (C14_tables_ok T hT) hs msgs
  exact ⟨fid, h, G.sortStable_sorted absC _, fun k => G.sortStable_withKey absC k _⟩

/-- non-vacuity: a message list with a file_id (hypothesis of `C14_conservation`), one without; the activity file type is
in the regenerated table and sorts from the end of the prefix -/
example : hasFileId [{ (default : Msg) with num := 0, tag := 1 }, { (default : Msg) with num := 20, tag := 2 }] = true ∧
    hasFileId [{ (default : Msg) with num := 20, tag := 2 }] = false := by decide

example : ft4 ∈ fileTypes ∧ ft4.sortFrom = 3 := by decide

/-! ### Known finding KF-C14-2: file types that do not sort everything after the prefix

The witness is stated on a *pinned literal copy* of the probed workout table (so this theorem keeps checking when
/repo is repaired; the regenerated table then simply has `sortFrom = 3` and `C14_sorted_stable_partial` covers it). -/

def pinnedWorkout : FileType := {
  name := "workout", gotype := "filedef.Workout", ftype := 5, sortFrom := 6, defaultDg := 0, d1 := .other, d253 := .absent, d254 := .absent, dropped := [],
  slots := [⟨0, .value, .value, .opaque, .verbatim, .verbatim⟩, ⟨207, .list, .list, .opaque, .verbatim, .verbatim⟩,
            ⟨206, .list, .list, .opaque, .verbatim, .verbatim⟩, ⟨26, .single, .single, .opaque, .verbatim, .opaque⟩,
            ⟨27, .list, .list, .opaque, .verbatim, .opaque⟩] }

/-- file_id, then two (unrelated) record messages with timestamps 2 and 1 -/
def kf2Msgs : List Msg := [
  { num := 0, f1 := .absent, f253 := .absent, f254 := .absent, tag := 1, dg := 0, ft := 5 },
  { num := 20, f1 := .absent, f253 := .u32 2, f254 := .absent, tag := 2, dg := 0, ft := 255 },
  { num := 20, f1 := .absent, f253 := .u32 1, f254 := .absent, tag := 3, dg := 0, ft := 255 }]

/-- On a file type shaped like today's workout (nothing sorted) the part after file_id is NOT the stable sort of the
emission: the records come back with timestamps 2, 1. So `C14_sorted_stable_full` fails for such a table. -/
theorem C14_KF2_witness :
    (toFIT pinnedWorkout (build pinnedWorkout kf2Msgs)).drop 1 ≠
      sortStable ((restGroups pinnedWorkout (build pinnedWorkout kf2Msgs)).flatten)
    ∧ sortedB ((toFIT pinnedWorkout (build pinnedWorkout kf2Msgs)).drop 1) = false := by decide

/-- non-vacuity of the hypothesis of `C14_sorted_unrelated_only` (on the pinned copy of today's workout table, so that it
keeps checking when KF-C14-2 is repaired), and what it yields there: the two records stay in arrival order 2, 1 -/
example : pinnedWorkout.slots.length ≤ pinnedWorkout.sortFrom ∧
    ((toFIT pinnedWorkout (build pinnedWorkout kf2Msgs)).map (·.tag)) = [1, 2, 3] := by decide

/-! ### The file types on real protocol messages: the link to C13

`FitModel/FileDefContent.lean` models `Add` / `ToFIT` on `Fit.Msg.Message` as the code does them: `Add` stores
`mesgdef.NewXxx(&mesg)` = `Typed.ofMesg T mesg` for the message numbers the file type has typed fields for (the other
messages verbatim), `ToFIT` emits `Typed.toMesg T fac o st` and sorts on the emitted messages. By C13
(`C13_mesg_struct_mesg`, for the regenerated tables: `C13_tables_wf`) that is the generic layer applied to the
**normal forms** `normC` = `typedNormal` (typed kinds) / identity (unrelated kinds) — so "alters none beyond the
typed-message normalisation" is a theorem, and conservation / prefix / ordering hold of real messages.
Quantifiers: every file type of the regenerated table, every factory `fac`, both settings of IncludeExpandedFields,
every message list whose fields have a `FieldBase` (`C14_content_no_panic`; a typed message with a nil `FieldBase`
panics in `Add`: `C14_content_nil_fieldbase_panics`). -/
section Content
open Fit.FileDef.Content Fit.Typed Fit.Msg

/-- Obligation on the regenerated tables: every typed slot of every file type has its `mesgdef` table among the 119
regenerated ones. -/
theorem C14_content_tables_ok : ∀ FT ∈ fileTypes, slotsTyped FT = true := by decide +kernel

theorem C14_content_no_panic {FT : FileType} (ms : List Message) (hb : allBased ms = true) :
    ∃ f, buildC FT ms = .ok f :=
  buildFrom_ok C13.C13_tables_wf FT ms hb []

/-- the one way `Add` panics: a message the file type converts to a typed struct carries a field without `FieldBase`
(`NewXxx` dereferences it — C13; no decoder and no factory produces such a field) -/
theorem C14_content_nil_fieldbase_panics {FT : FileType} (f : List Stored) (m : Message) (T : MesgTable)
    (hT : typedTable FT m.num = some T) (hn : ∃ fl ∈ m.fields, fl.base = none) : addC FT f m = .panic :=
  addC_panics FT f m T hT hn

/-- **The code-shaped model computes the generic layer on normal forms**: storing structs and converting them back
is normalising each message with `normC` when it is added. -/
theorem C14_content_model_eq (fac : Nat → Nat → Field) (o : Options) (FT : FileType) (ms : List Message)
    (f : List Stored) (h : buildC FT ms = .ok f) :
    toFITC fac o FT f = G.toFIT (msgC fac o) FT (G.build (msgC fac o) FT ms) :=
  toFITC_buildC C13.C13_tables_wf fac o FT ms f h

/-- what `normC` is, spelled out: for a message number the file type has a typed field for, C13's `typedNormal` with
the regenerated table of that message type (invalid-valued and mismatched fields omitted, last occurrence wins,
fixed-length arrays padded / cut, known fields in profile order, unknown and developer fields kept, expanded marks kept
or the marked field dropped according to the option); for any other number, the message itself -/
theorem C14_content_norm {FT : FileType} (hT : FT ∈ fileTypes) (fac : Nat → Nat → Field) (o : Options) (m : Message) :
    ((slotOf FT m.num).isSome = true ∧ ∃ T ∈ Gen.Mesgdef.tables, T.num = m.num ∧ T.wf = true ∧
        normC fac o FT m = typedNormal T (fac m.num) o m) ∨
    (slotOf FT m.num = none ∧ normC fac o FT m = m) := by
  cases hs : slotOf FT m.num with
  | none => exact Or.inr ⟨rfl, by unfold normC; rw [typedTable_none_of_no_slot hs]⟩
  | some s =>
    left
    refine ⟨rfl, ?_⟩
    have hst := List.all_eq_true.mp (C14_content_tables_ok FT hT) s (G.slotOf_mem hs).1
    rw [(G.slotOf_mem hs).2] at hst
    obtain ⟨T, hTab⟩ := Option.isSome_iff_exists.mp hst
    have hmem := tableOf_mem hTab
    refine ⟨T, hmem.1, hmem.2, C13.C13_tables_wf T hmem.1, ?_⟩
    simp only [normC, typedTable, hs, hTab, hmem.2]

/-- **Content.** Every message `ToFIT` returns is the typed normal form of an input message (typed kinds), or an input
message itself, unaltered (unrelated kinds) — or the zero-valued file_id of a file to which none was added. -/
theorem C14_content_is_typed_normal {FT : FileType} (hT : FT ∈ fileTypes) (fac : Nat → Nat → Field) (o : Options)
    (ms : List Message) (f : List Stored) (h : buildC FT ms = .ok f) :
    ∀ m' ∈ toFITC fac o FT f,
      (∃ m ∈ ms, m' = normC fac o FT m) ∨
      (G.hasFileId (msgC fac o) ms = false ∧ m' = defaultC fac o mesgNumFileId) := by
  intro m' hm'
  rw [C14_content_model_eq fac o FT ms f h] at hm'
  have hok := C14_tables_ok FT hT
  cases hfid : G.hasFileId (msgC fac o) ms with
  | true =>
    left
    have hp := G.conservation (msgC fac o) (msgC_lawful fac o) hok ms hfid
    have := mem_keepLastDecl _ _ _ _ (hp.mem_iff.mp hm')
    obtain ⟨m, hm, rfl⟩ := List.mem_map.mp this
    exact ⟨m, hm, rfl⟩
  | false =>
    have hp := G.conservation_no_file_id (msgC fac o) (msgC_lawful fac o) hok ms hfid
    rcases List.mem_cons.mp (hp.mem_iff.mp hm') with rfl | hmem
    · exact Or.inr ⟨rfl, rfl⟩
    · left
      have := mem_keepLastDecl _ _ _ _ hmem
      obtain ⟨m, hm, rfl⟩ := List.mem_map.mp this
      exact ⟨m, hm, rfl⟩

/-- **The first sentence of the property, on real messages** (for every file type; the ordering clause for the file
types that sort from the end of the prefix — the others are KF-C14-2, see `C14_sorted_stable_partial`).
With `N` = the typed-message normalisation `normC` and an input that contains a file_id:
1. *neither loses nor duplicates any message, singletons keep their last occurrence, alters none beyond the
   normalisation*: the output is a permutation of `keepLastDecl (ms.map N)`;
2. *file_id first, then developer-data-id and field-description messages*, none of these later;
3. *the rest ordered stably by timestamp, timestamp-less first*: the rest is THE stable sort (`C14_sort_unique`) of the
   emission of the remaining messages — sorted by `keyOf` (`none` least), equal keys in emission order. -/
theorem C14_content_first_sentence_partial {FT : FileType} (hT : FT ∈ fileTypes) (fac : Nat → Nat → Field) (o : Options)
    (ms : List Message) (f : List Stored) (h : buildC FT ms = .ok f) (hfid : G.hasFileId (msgC fac o) ms = true) :
    let C := msgC fac o
    (toFITC fac o FT f).Perm (G.keepLastDecl C FT (ms.map (normC fac o FT))) ∧
    (∃ fid rest, fid.num = mesgNumFileId ∧
      toFITC fac o FT f = fid :: ((G.build C FT ms).filter (fun m : Message => m.num == mesgNumDeveloperDataId) ++
        ((G.build C FT ms).filter (fun m : Message => m.num == mesgNumFieldDescription) ++ rest)) ∧
      (∀ m ∈ rest, isPrefixNum m.num = false) ∧
      (FT.sortFrom = 3 → rest = G.sortStable C (G.restEmission C FT ms) ∧ G.Sorted C rest ∧
        ∀ k, G.withKey C k rest = G.withKey C k (G.restEmission C FT ms))) := by
  intro C
  have hok := C14_tables_ok FT hT
  have hL := msgC_lawful fac o
  rw [C14_content_model_eq fac o FT ms f h]
  refine ⟨G.conservation C hL hok ms hfid, ?_⟩
  obtain ⟨fid, hfn, hshape⟩ := G.output_shape C hL hok ms
  refine ⟨fid, _, hfn, hshape, ?_, ?_⟩
  · obtain ⟨fid', rest', _, hshape', hrest'⟩ := G.prefix_order C hL hok ms
    unfold G.OutputShape at hshape hshape'
    rw [hshape] at hshape'
    have hr := List.append_cancel_left (List.append_cancel_left (List.cons.inj hshape').2)
    rw [hr]; exact hrest'
  · intro h3
    rw [h3]
    simp only [Nat.sub_self, List.take_zero, List.flatten_nil, List.nil_append, List.drop_zero]
    exact ⟨rfl, G.sortStable_sorted C _, fun k => G.sortStable_withKey C k _⟩

/-- **Stability in terms of arrival order, on real messages** (every file type): output messages of one number (not file_id)
whose emitted timestamp key is the same appear in the order in which their input messages arrived -/
theorem C14_content_stable_within_kind {FT : FileType} (hT : FT ∈ fileTypes) (fac : Nat → Nat → Field) (o : Options)
    (ms : List Message) (f : List Stored) (h : buildC FT ms = .ok f) (n : Nat) (hn : n ≠ mesgNumFileId) (k : Option Nat) :
    (toFITC fac o FT f).filter (fun m => m.num == n && decide ((msgC fac o).key m = k)) =
      (G.keepLastDecl (msgC fac o) FT (ms.map (normC fac o FT))).filter (fun m => m.num == n && decide ((msgC fac o).key m = k)) := by
  rw [C14_content_model_eq fac o FT ms f h]
  exact G.stable_within_kind (msgC fac o) (msgC_lawful fac o) (C14_tables_ok FT hT) ms n hn k

/-- the same for an input without file_id: one zero-valued file_id (`mesgdef.FileId{}.ToMesg`) is emitted in front -/
theorem C14_content_conservation_no_file_id {FT : FileType} (hT : FT ∈ fileTypes) (fac : Nat → Nat → Field) (o : Options)
    (ms : List Message) (f : List Stored) (h : buildC FT ms = .ok f) (hfid : G.hasFileId (msgC fac o) ms = false) :
    (toFITC fac o FT f).Perm
      (defaultC fac o mesgNumFileId :: G.keepLastDecl (msgC fac o) FT (ms.map (normC fac o FT))) := by
  rw [C14_content_model_eq fac o FT ms f h]
  exact G.conservation_no_file_id (msgC fac o) (msgC_lawful fac o) (C14_tables_ok FT hT) ms hfid

/-- non-vacuity (and what the normalisation does, on the activity file type): a record whose power is invalid and whose
`[3]byte` array is one short, two file_id messages (the second with an invalid serial number), an unrelated message of
number 9999 with a timestamp. `buildC` does not panic; the output is: the LAST file_id without its invalid field, the
unrelated message untouched (its "invalid" 65535 is not the typed layer's business) and sorted before the record, the
record without power and with the array padded with 0xFF. -/
def exContent : List Message := [
  { num := 20, fields := [{ base := some (stdBase 20 253), value := .uint32 2000 }, { base := some (stdBase 20 7), value := .uint16 65535 },
      { base := some (stdBase 20 8), value := .sliceUint8 [1, 2] }], devFields := [] },
  { num := 0, fields := [{ base := some (stdBase 0 0), value := .uint8 4 }, { base := some (stdBase 0 1), value := .uint8 4 }], devFields := [] },
  { num := 9999, fields := [{ base := some (unknownBase 253), value := .uint32 1000 }, { base := some (unknownBase 7), value := .uint16 65535 }], devFields := [] },
  { num := 0, fields := [{ base := some (stdBase 0 0), value := .uint8 4 }, { base := some (stdBase 0 3), value := .uint32 0 }], devFields := [] }]

example : allBased exContent = true ∧ G.hasFileId (msgC stdField { includeExpanded := false }) exContent = true ∧
    (match buildC ft4 exContent with
     | .ok f => (toFITC stdField { includeExpanded := false } ft4 f).map
         (fun m => (m.num, m.fields.map fun f => ((f.base.map (·.num)).getD 999, f.value)))
     | .panic => []) =
    [(0, [(0, Value.Value.uint8 4)]),
     (9999, [(253, .uint32 1000), (7, .uint16 65535)]),
     (20, [(253, .uint32 2000), (8, .sliceUint8 [1, 2, 255])])] := by
  decide +kernel

end Content

/-! ## Second half: the concurrent listener (`Fit.ListenerK`, a transition system over listener.go, options included)

Quantifiers: **every** channel-buffer size N ≥ 0 (initially and in every `Reset`; size 0 = unbuffered message channel and a
one-slice pool, as the code does since the repair of KF-C14-1), **every file set** (`κ`: what `WithFileSets` / `WithFileFunc`
leave in `l.options.fileSets`, initially and in every `Reset`; generic — any constructor, any `File` implementation), every
script of `OnMesg` / `File` / `Close` / `Reset` calls of any length (chained sequences, reuse after Reset/Close, Reset from n
to 0 and back), every interleaving of producer and worker (`Reachable` closes over both threads' steps). Generic in the
message type and in `processMesg` (`proc k` = `processMesg` under the file sets `k`; the worker reads the file sets from
the state when it processes a message, `Reset` writes them). No theorem below has a hypothesis on N, the file sets or the script.

Runtime truth vs. proved: the theorems are about the model's channel semantics (Go spec: buffered send/receive, unbuffered
rendezvous, close), its slice tokens and its three kinds of shared memory cells. That the compiled listener has no
word-level data race is sampled with the race detector (thorough tier), not proved; what is proved is that the model
has none (`C14_listener_no_data_race`, from the invariant) and that the access annotation it is stated with accounts for
every write of either thread (`C14_listener_access_frame`). -/
section Listener
open Fit.ListenerK
variable {M σ κ : Type} (proc : κ → σ → M → σ) (init : σ)

/-- **Exclusive ownership** (`listener_inv`): in every reachable state every pooled slice is in exactly one place —
pool channel, message queue, producer's hands, worker's hands (no duplicates among them) — and none is lost
(`cap(l.poolc)` = max(N, 1) in total, so at least one slice circulates even with buffer size 0); the message channel never
holds more than its capacity N; `done` is closed exactly when the worker has exited, and an inactive listener has no worker. -/
theorem C14_listener_inv {N : Nat} {k0 : κ} {script : List (Cmd M κ)} {s : St M σ κ}
    (hr : Reachable proc init N k0 script s) :
    (tokens s).Nodup ∧ (tokens s).length = s.P ∧ s.P = max s.N 1 ∧ s.queue.length ≤ s.N ∧
    (s.done = true ↔ s.c = .exited) ∧ (s.active = false → s.c = .exited) := by
  have inv := inv_reachable proc init hr
  exact ⟨inv.nodup, inv.count, inv.capP, inv.qcap, inv.doneIff, fun h => (inv.inactive h).2⟩

/-- **No data race** ("without … data race", for the model): in every reachable state, no memory access of the
producer's next step conflicts with a memory access of the worker's next step — the cells are `l.file`, `l.options`
(the file sets) and the memory of each pooled slice; `accP` / `accC` list the reads and writes of the next step of each
thread as the code makes them (empty when that step is blocked in the channel operation that precedes the access); two
accesses conflict when they are to the same cell and one is a write. Derived from the invariant (a slice about to be
written by `OnMesg` / `Close` is in the pool, the slice `processMesg` reads is in the worker's hands; `File` / `Reset` /
`reset()` touch `l.file` and `l.options` only after `<-l.done` or while inactive, when the worker has exited). -/
theorem C14_listener_no_data_race {N : Nat} {k0 : κ} {script : List (Cmd M κ)} {s : St M σ κ}
    (hr : Reachable proc init N k0 script s) : ∀ a ∈ accP s, ∀ b ∈ accC s, conflict a b = false :=
  no_race proc init (inv_reachable proc init hr)

/-- **The access annotation is complete for writes**: a step of the producer that changes `l.file`, `l.options` or the
content of a slice has that write in `accP`; a step of the worker never changes `l.options` or a slice, and changes `l.file`
only with the write in `accC`. (So `C14_listener_no_data_race` is not about an annotation that forgot a write.) -/
theorem C14_listener_access_frame {s s' : St M σ κ} :
    (stepP init s = some s' →
      (s'.file ≠ s.file → ⟨.file, true⟩ ∈ accP s) ∧ (s'.cfg ≠ s.cfg → ⟨.cfg, true⟩ ∈ accP s) ∧
      (∀ t, s'.mem t ≠ s.mem t → ⟨.slice t, true⟩ ∈ accP s)) ∧
    (stepC proc s = some s' →
      (s'.file ≠ s.file → ⟨.file, true⟩ ∈ accC s) ∧ s'.cfg = s.cfg ∧ (∀ t, s'.mem t = s.mem t)) :=
  ⟨accP_frame init, accC_frame proc⟩

/-- **Deadlock freedom (progress)**: in every reachable state in which the producer still has calls to make or to finish,
some thread can take a step — for every buffer size N ≥ 0, every file set, every script and every interleaving. -/
theorem C14_listener_progress {N : Nat} {k0 : κ} {script : List (Cmd M κ)} {s : St M σ κ}
    (hr : Reachable proc init N k0 script s) (hfin : isFin s.p = false) : ∃ s', Step proc init s s' := by
  rcases progress proc init (inv_reachable proc init hr) hfin with h | h
  · obtain ⟨s', hs'⟩ := Option.isSome_iff_exists.mp h; exact ⟨s', Or.inl hs'⟩
  · obtain ⟨s', hs'⟩ := Option.isSome_iff_exists.mp h; exact ⟨s', Or.inr hs'⟩

/-- the same in the words of the former known finding KF-C14-1 (whose theorem exhibited a reachable `Deadlocked` state for
buffer size 0): no reachable state is deadlocked, whatever the buffer sizes. -/
theorem C14_listener_never_deadlocked {N : Nat} {k0 : κ} {script : List (Cmd M κ)} {s : St M σ κ}
    (hr : Reachable proc init N k0 script s) : ¬ Deadlocked proc init s := by
  intro ⟨hfin, hp, hc⟩
  rcases progress proc init (inv_reachable proc init hr) hfin with h | h
  · rw [hp] at h; cases h
  · rw [hc] at h; cases h

/-- **The listener equals sequential execution** (`listener_fifo` ⇒): whenever the producer has made all its calls, the
files handed out by `File()` are exactly those of the same calls executed by one thread without pool, queue or worker
(under the file sets each `Reset` installs) — for every buffer size N ≥ 0. -/
theorem C14_listener_eq_sequential {N : Nat} {k0 : κ} {script : List (Cmd M κ)} {s : St M σ κ}
    (hr : Reachable proc init N k0 script s) (hfin : isFin s.p = true) :
    s.results = seqRun proc init k0 true init script :=
  final_results proc init (inv_reachable proc init hr) hfin

/-- **Termination** ("without deadlock" made "always terminates with the sequential result"). The measure `mu` (cost of the
calls left, each priced with the pool capacity it will run under, + rest of the producer's call + 3 per queued message +
rest of the worker's iteration) decreases on EVERY step of either thread, from any state. Hence, for every reachable
state `s`: (1) there is no infinite run from `s`; (2) no run from `s` is longer than `mu s` (for the initial state:
`scriptCost (max N 1) script + 2`, linear in the script and the buffer sizes); (3) some run from `s` ends with the producer
finished; (4) EVERY run that cannot be continued has the producer finished — all calls made and returned — and has
handed out exactly the files of the sequential execution. -/
theorem C14_listener_terminates {N : Nat} {k0 : κ} {script : List (Cmd M κ)} {s : St M σ κ}
    (hr : Reachable proc init N k0 script s) :
    (∀ f : Nat → St M σ κ, f 0 = s → ¬ ∀ i, Step proc init (f i) (f (i + 1))) ∧
    (∀ n s', Steps proc init n s s' → n ≤ mu s) ∧
    (∃ n s', Steps proc init n s s' ∧ isFin s'.p = true) ∧
    (∀ n s', Steps proc init n s s' → (∀ s'', ¬ Step proc init s' s'') →
      isFin s'.p = true ∧ s'.results = seqRun proc init k0 true init script) ∧
    mu (initSt init N k0 script : St M σ κ) = scriptCost (max N 1) script + 2 := by
  refine ⟨fun f _ => no_infinite_run proc init f, fun n s' h => ?_, reaches_fin proc init (mu s) s (Nat.le_refl _) hr, ?_,
    mu_initSt init N k0 script⟩
  · have := steps_bound proc init h; omega
  · intro n s' hsteps hstuck
    have hr' := steps_reachable proc init hr hsteps
    cases hfin : isFin s'.p with
    | true => exact ⟨rfl, final_results proc init (inv_reachable proc init hr') hfin⟩
    | false =>
      obtain ⟨s'', hs''⟩ := C14_listener_progress proc init hr' hfin
      exact absurd hs'' (hstuck s'')

/-- **No carry-over**: whenever the listener is inactive (after `File`/`Close`) the worker is gone, the queue is empty
and all `cap(l.poolc)` slices are back in the pool (distinct); the next `OnMesg` starts from the empty file cell. -/
theorem C14_listener_no_carry_over {N : Nat} {k0 : κ} {script : List (Cmd M κ)} {s : St M σ κ}
    (hr : Reachable proc init N k0 script s) (ha : s.active = false) :
    s.c = .exited ∧ s.queue = [] ∧ s.pool.length = s.P ∧ s.pool.Nodup ∧
    ∀ m cs s', s.script = .onMesg m :: cs → stepP init s = some s' → s'.file = init ∧ s'.queue = [] ∧ s'.pool = s.pool :=
  no_carry_over proc init (inv_reachable proc init hr) ha

/-- the run the driver prints (a seeded scheduler) is one of the interleavings the theorems quantify over -/
theorem C14_listener_run_is_path {N : Nat} {k0 : κ} {script : List (Cmd M κ)} (pick : Nat → Bool) (fuel : Nat) :
    Reachable proc init N k0 script (run proc init pick fuel 0 (initSt init N k0 script)) :=
  run_reachable proc init pick fuel 0 _ Reachable.init

/-- **Buffer size 0 hands over synchronously**: while the channel buffer size is 0 nothing is ever queued (the message goes
from `OnMesg` straight into the worker's hands) and exactly one slice circulates. -/
theorem C14_listener_unbuffered_handover {N : Nat} {k0 : κ} {script : List (Cmd M κ)} {s : St M σ κ}
    (hr : Reachable proc init N k0 script s) (h0 : s.N = 0) : s.queue = [] ∧ (tokens s).length = 1 := by
  have inv := inv_reachable proc init hr
  refine ⟨unbuffered_queue_empty proc init inv h0, ?_⟩
  rw [inv.count, inv.capP, h0]; rfl

/-- **Buffer size 0 works** (replaces `C14_KF1_buffer0_deadlock` of the tree before the repair of KF-C14-1, F15): the two
former deadlock witnesses — `NewListener(WithChannelBuffer(0))` and `Reset(WithChannelBuffer(0))`, then a message, then
`File()` — have runs in which the producer finishes with the file of that message, processed under the file sets in force
(`k1` after the first `Reset`, `k2` after the second); `Reset` back to a larger size re-grows the pool.
These states also witness the hypotheses `isFin s.p = true` / `s.N = 0` of the theorems above (non-vacuity). -/
theorem C14_listener_buffer0_completes (k0 k1 k2 : κ) (m m' : M) :
    (∃ s : St M σ κ, Reachable proc init 0 k0 [.onMesg m, .file] s ∧ isFin s.p = true ∧ s.results = [proc k0 init m]) ∧
    (∃ s : St M σ κ, Reachable proc init 2 k0 [.reset 0 k1, .onMesg m, .file, .reset 2 k2, .onMesg m', .file] s ∧ isFin s.p = true ∧
      s.results = [proc k1 init m, proc k2 init m'] ∧ s.P = 2 ∧ s.pool.length = 2) :=
  ⟨buffer0_completes proc init k0 m, buffer0_after_reset_completes proc init k0 k1 k2 m m'⟩

end Listener

/-- **Listener = sequential building of a file, under any file sets**: for a sequence that starts with a file_id whose
`type` the file sets in force map to (the constructor of) file type `T` — a predefined type under its own key, a
predefined type under a key of the user's (`WithFileFunc(77, NewActivity)`), or any table at all — and has no other
file_id, the one-thread specification (and therefore, by `C14_listener_eq_sequential`, the concurrent listener under every
schedule and every N ≥ 0) yields exactly `T`'s file built from the messages; a file_id whose type has NO constructor in the
file sets yields no file (`nil`) and every message of the sequence is skipped. -/
theorem C14_listener_builds_file (fs : ListenerK.FileSets) {T : FileType} (fid : Msg) (rest : List Msg)
    (h0 : fid.num = mesgNumFileId) (hrest : ∀ m ∈ rest, m.num ≠ mesgNumFileId) :
    (fs fid.ft = some T →
      ListenerK.seqRun ListenerK.processMesg none fs true none ((fid :: rest).map .onMesg ++ [.file]) =
        [some (T, build T (fid :: rest))]) ∧
    (fs fid.ft = none →
      ListenerK.seqRun ListenerK.processMesg none fs true none ((fid :: rest).map .onMesg ++ [.file]) = [none]) := by
  constructor
  · intro hT
    rw [ListenerK.seqRun_onMesgs]
    simp only [ListenerK.seqRun, List.foldl_cons, ListenerK.processMesg, h0, if_true, hT]
    rw [ListenerK.foldl_processMesg fs T rest hrest]
    rfl
  · intro hN
    rw [ListenerK.seqRun_onMesgs]
    simp only [ListenerK.seqRun, List.foldl_cons, ListenerK.processMesg, h0, if_true, hN]
    have : ∀ l : List Msg, (∀ m ∈ l, m.num ≠ mesgNumFileId) → l.foldl (ListenerK.processMesg fs) none = none := by
      intro l hl
      induction l with
      | nil => rfl
      | cons m ms ih =>
        have hm : m.num ≠ mesgNumFileId := hl m List.mem_cons_self
        simp only [List.foldl_cons, ListenerK.processMesg, hm, if_false]
        exact ih (fun x hx => hl x (List.mem_cons_of_mem _ hx))
    rw [this rest hrest]

/-- the option constructors: `WithFileFunc(t, fn)` overrides exactly the entry of `t`; `WithFileSets(map)` forgets the
defaults (a type not in the map has no constructor); the default file sets are the 17 predefined types under their own keys -/
theorem C14_listener_file_sets (fs : ListenerK.FileSets) (t : Nat) (T : Option FileType) (b : Nat) :
    ListenerK.withFileFunc fs t T b = (if b = t then T else fs b) ∧
    ListenerK.withFileSets [] b = none ∧
    (∀ T' ∈ fileTypes, ∃ T'', ListenerK.defaultSets T'.ftype = some T'' ∧ T''.ftype = T'.ftype) := by
  refine ⟨rfl, rfl, ?_⟩
  decide

/-- **The model without options is the model with options at the trivial configuration**: the listener model of
`FitModel/Listener.lean` (on which theorems of C03 are stated, written before the options were modelled) embeds into the
model above with `κ = Unit`: the embedding `toK` maps the initial state to the initial state, commutes with every step of
the producer and of the worker, hence maps reachable states to reachable states, and the one-thread specifications
coincide. Every theorem of this section therefore holds of the old model too, and every run of the old model is a run of
the model the correspondence check executes. -/
theorem C14_listener_legacy_is_instance {M σ : Type} (proc : σ → M → σ) (init : σ) (N : Nat) (script : List (Fit.Listener.Cmd M)) :
    (∀ s : Fit.Listener.St M σ,
      ListenerK.stepP init (ListenerK.Legacy.toK s) = (Fit.Listener.stepP init s).map ListenerK.Legacy.toK ∧
      ListenerK.stepC (fun _ : Unit => proc) (ListenerK.Legacy.toK s) = (Fit.Listener.stepC proc s).map ListenerK.Legacy.toK) ∧
    (∀ s, Fit.Listener.Reachable proc init N script s →
      ListenerK.Reachable (fun _ : Unit => proc) init N () (script.map ListenerK.Legacy.cmdK) (ListenerK.Legacy.toK s)) ∧
    ListenerK.seqRun (fun _ : Unit => proc) init () true init (script.map ListenerK.Legacy.cmdK) =
      Fit.Listener.seqRun proc init true init script :=
  ⟨fun s => ⟨ListenerK.Legacy.toK_stepP init s, ListenerK.Legacy.toK_stepC proc s⟩,
   fun _ h => ListenerK.Legacy.toK_reachable proc init h, ListenerK.Legacy.toK_seqRun proc init true init script⟩

/-- **Deadlock freedom of the model without options, as a corollary through the embedding** (this is the statement
`FitProps/C03.lean` uses): a reachable non-final state of `FitModel/Listener.lean` embeds into a reachable non-final state of
the model with options (`C14_listener_legacy_is_instance`), which can step (`C14_listener_progress`); the embedding commutes
with the step functions, so the step is the image of a step of the old model. -/
theorem C14_listener_deadlock_free {M σ : Type} (proc : σ → M → σ) (init : σ) {N : Nat} {script : List (Fit.Listener.Cmd M)}
    {s : Fit.Listener.St M σ} (hr : Fit.Listener.Reachable proc init N script s) (hfin : Fit.Listener.isFin s.p = false) :
    ∃ s', Fit.Listener.Step proc init s s' := by
  have hrK := ListenerK.Legacy.toK_reachable proc init hr
  have hfinK : ListenerK.isFin (ListenerK.Legacy.toK s).p = false := by
    cases hp : s.p <;> simp [hp, Fit.Listener.isFin] at hfin <;> simp [ListenerK.Legacy.toK, ListenerK.Legacy.pcK, hp, ListenerK.isFin]
  obtain ⟨x, hx⟩ := C14_listener_progress (fun _ : Unit => proc) init hrK hfinK
  rcases hx with hx | hx
  · rw [ListenerK.Legacy.toK_stepP] at hx
    cases h : Fit.Listener.stepP init s with
    | none => rw [h] at hx; cases hx
    | some s' => exact ⟨s', Or.inl h⟩
  · rw [ListenerK.Legacy.toK_stepC] at hx
    cases h : Fit.Listener.stepC proc s with
    | none => rw [h] at hx; cases hx
    | some s' => exact ⟨s', Or.inr h⟩

/-- non-vacuity: with buffer size 0 there are reachable states in which the producer is in the middle of `OnMesg`
(`isFin = false`, hypothesis of `C14_listener_progress`; `N = 0`, hypothesis of `C14_listener_unbuffered_handover`) and
reachable states in which the listener is inactive after `Close` (hypothesis of `C14_listener_no_carry_over`); and a
reachable state in which BOTH threads are about to access memory (the producer copies the next message into a pooled slice
while the worker processes the previous one): the quantifiers of `C14_listener_no_data_race` range over something. -/
example : ∃ s : ListenerK.St Msg ListenerK.FileCell ListenerK.FileSets,
    ListenerK.Reachable ListenerK.processMesg none 0 ListenerK.defaultSets [.onMesg default, .file] s ∧ ListenerK.isFin s.p = false ∧ s.N = 0 :=
  ⟨_, ListenerK.reachable_runSched ListenerK.processMesg none [true, true] _ _ ListenerK.Reachable.init rfl, rfl, rfl⟩

example : ∃ s : ListenerK.St Msg ListenerK.FileCell ListenerK.FileSets,
    ListenerK.Reachable ListenerK.processMesg none 0 ListenerK.defaultSets [.close, .onMesg default] s ∧ s.active = false ∧ s.N = 0 :=
  ⟨_, ListenerK.reachable_runSched ListenerK.processMesg none [true, true, true, false, true] _ _ ListenerK.Reachable.init rfl, rfl, rfl⟩

example : ∃ s : ListenerK.St Msg ListenerK.FileCell ListenerK.FileSets,
    ListenerK.Reachable ListenerK.processMesg none 2 ListenerK.defaultSets [.onMesg default, .onMesg default] s ∧
    ListenerK.accP s ≠ [] ∧ ListenerK.accC s ≠ [] :=
  ⟨_, ListenerK.reachable_runSched ListenerK.processMesg none [true, true, true, false, true] _ _ ListenerK.Reachable.init rfl,
    by decide, by decide⟩

end Fit.C14
