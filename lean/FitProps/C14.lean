import FitModel.FileDef
namespace Fit.C14
end Fit.C14
