import FitProps.FileDefLemmas
import FitProps.ListenerLemmas
/-! # C14 — File types conserve messages; the concurrent listener equals sequential building

First half: the 17 common file types (`Fit.FileDef`, tables regenerated from /repo on every run).
`T ∈ fileTypes` ranges over the regenerated tables, so every theorem below is re-checked by the kernel against what
the probe of the current code found (`C14_tables_ok` is the obligation on the tables themselves). -/
namespace Fit.C14
open Fit.FileDef Fit.FileDef.Generated

/-- Obligation on the regenerated tables (all 17 file types): slot numbers are distinct, no message number is
dropped, the observed kind of every slot (singleton / list) is the kind the exported struct declares, the first three slots are file_id (value), developer_data_id, field_description (lists), and the sort
never starts inside this prefix. A file type that drops a message kind or moves the prefix breaks this. -/
theorem C14_tables_ok : ∀ T ∈ fileTypes, TableOK T := by decide

/-- **What a file keeps.** For every file type and every message list, the stored messages are exactly the input
(each message normalised by its typed struct), minus the earlier occurrences of single-valued kinds
(file_id, activity, user_profile, …: the last one added wins) — nothing else lost, nothing duplicated, arrival
order kept within every kind. -/
theorem C14_build_keeps_last {T : FileType} (hT : T ∈ fileTypes) (msgs : List Msg) :
    build T msgs = keepLastDecl T (msgs.map (normT T)) := by
  rw [keepLastDecl_eq (C14_tables_ok T hT)]; exact build_eq_keepLast (C14_tables_ok T hT) msgs

/-- **Conservation.** `ToFIT` of the built file is, as a multiset, exactly `keepLast` of the (normalised) input:
no message lost or duplicated, singletons keep their last occurrence. (Input with a file_id message.) -/
theorem C14_conservation {T : FileType} (hT : T ∈ fileTypes) (msgs : List Msg) (hfid : hasFileId msgs = true) :
    (toFIT T (build T msgs)).Perm (keepLastDecl T (msgs.map (normT T))) := by
  have hok := C14_tables_ok T hT
  rw [keepLastDecl_eq hok]
  have h1 := (toFIT_perm_emission T (build T msgs)).trans (emission_perm hok (build T msgs))
  rw [build_eq_keepLast hok] at h1 ⊢
  have hany : (keepLast T (msgs.map (normT T))).any (fun m => m.num == mesgNumFileId) = true := by
    rw [keepLast_any, List.any_map]
    simpa [hasFileId, Function.comp_def, normT_num] using hfid
  simpa [hany] using h1

/-- The code's behaviour on an input without file_id (stated exactly): the file struct holds `FileId` by value, so
`ToFIT` emits one zero-valued file_id that was never added; everything else is conserved as above. -/
theorem C14_conservation_no_file_id {T : FileType} (hT : T ∈ fileTypes) (msgs : List Msg) (hfid : hasFileId msgs = false) :
    (toFIT T (build T msgs)).Perm (defaultMsg T mesgNumFileId :: keepLastDecl T (msgs.map (normT T))) := by
  have hok := C14_tables_ok T hT
  rw [keepLastDecl_eq hok]
  have h1 := (toFIT_perm_emission T (build T msgs)).trans (emission_perm hok (build T msgs))
  rw [build_eq_keepLast hok] at h1 ⊢
  have hany : (keepLast T (msgs.map (normT T))).any (fun m => m.num == mesgNumFileId) = false := by
    rw [keepLast_any, List.any_map]
    simpa [hasFileId, Function.comp_def, normT_num] using hfid
  simpa [hany] using h1

/-- **Prefix order.** The output starts with exactly one file_id message, then all developer_data_id messages, then
all field_description messages (each in arrival order); no message of these three kinds occurs later. -/
theorem C14_prefix_order {T : FileType} (hT : T ∈ fileTypes) (msgs : List Msg) :
    ∃ fid rest, fid.num = mesgNumFileId ∧ OutputShape T msgs fid rest ∧ ∀ m ∈ rest, isPrefixNum m.num = false := by
  have hok := C14_tables_ok T hT
  obtain ⟨fid, hfn, hshape⟩ := output_shape hok msgs
  refine ⟨fid, _, hfn, hshape, ?_⟩
  intro m hm
  apply mem_restGroups hok (build T msgs) m
  have hperm : (((restGroups T (build T msgs)).take (T.sortFrom - 3)).flatten ++
      sortStable ((restGroups T (build T msgs)).drop (T.sortFrom - 3)).flatten).Perm (restGroups T (build T msgs)).flatten := by
    have : (restGroups T (build T msgs)).flatten = ((restGroups T (build T msgs)).take (T.sortFrom - 3)).flatten ++
        ((restGroups T (build T msgs)).drop (T.sortFrom - 3)).flatten := by
      rw [← List.flatten_append, List.take_append_drop]
    rw [this]
    exact List.Perm.append_left _ (sortStable_perm _)
  exact hperm.mem_iff.mp hm

/-- The sort itself, for every list: the result is a permutation, sorted by the key (`none` = no timestamp
field least, then by uint32 value, invalid 0xFFFFFFFF last), and messages with equal keys keep their order. -/
theorem C14_sort_stable (l : List Msg) :
    (sortStable l).Perm l ∧ Sorted (sortStable l) ∧ ∀ k, withKey k (sortStable l) = withKey k l :=
  ⟨sortStable_perm l, sortStable_sorted l, fun k => sortStable_withKey k l⟩

/-- The stable sorted arrangement is unique: whatever algorithm `slices.SortStableFunc` uses, if it returns a sorted
list with the same per-key subsequences (= stable), it returns `sortStable l`. This is the only thing assumed of
the standard library here. -/
theorem C14_sort_unique (l l' : List Msg) (hs : Sorted l') (hst : ∀ k, withKey k l' = withKey k l) :
    l' = sortStable l := sortStable_unique l l' hs hst

/-- In a sorted list every message before a timestamp-less one is timestamp-less: timestamp-less messages come first. -/
theorem C14_timestampless_first (a c : List Msg) (b : Msg) (hs : Sorted (a ++ b :: c)) (hb : key b = none) :
    ∀ x ∈ a, key x = none := by
  intro x hx
  have := (List.pairwise_append.mp hs).2.2 x hx b (List.mem_cons_self)
  unfold le at this
  rw [hb] at this
  exact keyLe_none_right this

/-- the full ordering demand of the property: for EVERY file type, everything after the prefix is the stable sort
of the emission -/
def C14_sorted_stable_full : Prop :=
  ∀ T ∈ fileTypes, ∀ msgs : List Msg, ∃ fid, OutputShape T msgs fid (sortStable (restEmission T msgs))

/-- **Ordering (partial: file types that sort from the end of the prefix, `sortFrom = 3`).** On the pinned tree these
are 9 of the 17 file types (activity, course, weight, totals, blood_pressure, monitoring_a/b, activity_summary,
monitoring_daily). The other 8 sort only their unrelated messages (device, settings, sport, schedules, goals, segment,
segment_list) or nothing (workout): there `C14_sorted_stable_full` is false — known finding KF-C14-2,
`C14_KF2_witness` below; what those types do is `C14_sorted_suffix`. -/
theorem C14_sorted_stable_partial {T : FileType} (hT : T ∈ fileTypes) (h3 : T.sortFrom = 3) (msgs : List Msg) :
    ∃ fid, OutputShape T msgs fid (sortStable (restEmission T msgs)) ∧
      Sorted (sortStable (restEmission T msgs)) ∧
      (∀ k, withKey k (sortStable (restEmission T msgs)) = withKey k (restEmission T msgs)) := by
  obtain ⟨fid, _, hshape⟩ := output_shape (C14_tables_ok T hT) msgs
  rw [h3] at hshape
  simp only [Nat.sub_self, List.take_zero, List.flatten_nil, List.nil_append, List.drop_zero] at hshape
  exact ⟨fid, hshape, sortStable_sorted _, fun k => sortStable_withKey k _⟩

/-- **What every file type does** (any `sortFrom ≥ 3`): the groups before `sortFrom` stay in emission order, the
groups from `sortFrom` on are stably sorted together. -/
theorem C14_sorted_suffix {T : FileType} (hT : T ∈ fileTypes) (msgs : List Msg) :
    ∃ fid, OutputShape T msgs fid
      (((restGroups T (build T msgs)).take (T.sortFrom - 3)).flatten ++
        sortStable ((restGroups T (build T msgs)).drop (T.sortFrom - 3)).flatten) := by
  obtain ⟨fid, _, h⟩ := output_shape (C14_tables_ok T hT) msgs
  exact ⟨fid, h⟩

/-- non-vacuity: a message list with a file_id (hypothesis of `C14_conservation`), one without; the activity file type is
in the regenerated table and sorts from the end of the prefix -/
example : hasFileId [{ (default : Msg) with num := 0, tag := 1 }, { (default : Msg) with num := 20, tag := 2 }] = true ∧
    hasFileId [{ (default : Msg) with num := 20, tag := 2 }] = false := by decide

example : ft4 ∈ fileTypes ∧ ft4.sortFrom = 3 := by decide

/-! ### Known finding KF-C14-2: file types that do not sort everything after the prefix

The witness is stated on a *pinned literal copy* of the probed workout table (so this theorem keeps checking when
/repo is repaired; the regenerated table then simply has `sortFrom = 3` and `C14_sorted_stable_partial` covers it). -/

def pinnedWorkout : FileType := {
  name := "workout", gotype := "filedef.Workout", ftype := 5, sortFrom := 6, defaultDg := 0, d1 := .other, d253 := .absent, d254 := .absent, dropped := [],
  slots := [⟨0, .value, .value, .opaque, .verbatim, .verbatim⟩, ⟨207, .list, .list, .opaque, .verbatim, .verbatim⟩,
            ⟨206, .list, .list, .opaque, .verbatim, .verbatim⟩, ⟨26, .single, .single, .opaque, .verbatim, .opaque⟩,
            ⟨27, .list, .list, .opaque, .verbatim, .opaque⟩] }

/-- file_id, then two (unrelated) record messages with timestamps 2 and 1 -/
def kf2Msgs : List Msg := [
  { num := 0, f1 := .absent, f253 := .absent, f254 := .absent, tag := 1, dg := 0, ft := 5 },
  { num := 20, f1 := .absent, f253 := .u32 2, f254 := .absent, tag := 2, dg := 0, ft := 255 },
  { num := 20, f1 := .absent, f253 := .u32 1, f254 := .absent, tag := 3, dg := 0, ft := 255 }]

/-- On a file type shaped like today's workout (nothing sorted) the part after file_id is NOT the stable sort of the
emission: the records come back with timestamps 2, 1. So `C14_sorted_stable_full` fails for such a table. -/
theorem C14_KF2_witness :
    (toFIT pinnedWorkout (build pinnedWorkout kf2Msgs)).drop 1 ≠
      sortStable ((restGroups pinnedWorkout (build pinnedWorkout kf2Msgs)).flatten)
    ∧ sortedB ((toFIT pinnedWorkout (build pinnedWorkout kf2Msgs)).drop 1) = false := by decide

/-! ## Second half: the concurrent listener (`Fit.Listener`, a transition system over listener.go)

Quantifiers: **every** channel-buffer size N ≥ 0 (initially and in every `Reset`; size 0 = unbuffered message channel and a
one-slice pool, as the code does since the repair of KF-C14-1), every script of `OnMesg` / `File` / `Close` / `Reset` calls of
any length (chained sequences, reuse after Reset/Close, Reset from n to 0 and back), every interleaving of producer and worker
(`Reachable` closes over both threads' steps). Generic in the message type and in `processMesg`. No theorem below has a
hypothesis on N or on the script.

Runtime truth vs. proved: the theorems are about the model's channel semantics (Go spec: buffered send/receive, unbuffered
rendezvous, close) and its slice tokens. That the compiled listener has no word-level data race is sampled with the race
detector (thorough tier), not proved; what is proved is that in the model no slice and no access to `l.file` is ever
shared between the two threads (`C14_listener_inv`). -/
section Listener
open Fit.Listener
variable {M σ : Type} (proc : σ → M → σ) (init : σ)

/-- **Exclusive ownership** (`listener_inv`): in every reachable state every pooled slice is in exactly one place —
pool channel, message queue, producer's hands, worker's hands (no duplicates among them) — and none is lost
(`cap(l.poolc)` = max(N, 1) in total, so at least one slice circulates even with buffer size 0); the message channel never
holds more than its capacity N; the producer touches the file cell (`File` reads it, `reset()` overwrites it — both only
after `<-l.done` or while inactive) only when the worker has exited. -/
theorem C14_listener_inv {N : Nat} {script : List (Cmd M)} {s : St M σ}
    (hr : Reachable proc init N script s) :
    (tokens s).Nodup ∧ (tokens s).length = s.P ∧ s.P = max s.N 1 ∧ s.queue.length ≤ s.N ∧
    (s.done = true ↔ s.c = .exited) ∧ (s.active = false → s.c = .exited) := by
  have inv := inv_reachable proc init hr
  exact ⟨inv.nodup, inv.count, inv.capP, inv.qcap, inv.doneIff, fun h => (inv.inactive h).2⟩

/-- **Deadlock freedom**: in every reachable state in which the producer still has calls to make or to finish, some
thread can take a step — for every buffer size N ≥ 0, every script and every interleaving. -/
theorem C14_listener_deadlock_free {N : Nat} {script : List (Cmd M)} {s : St M σ}
    (hr : Reachable proc init N script s) (hfin : isFin s.p = false) : ∃ s', Step proc init s s' := by
  rcases progress proc init (inv_reachable proc init hr) hfin with h | h
  · obtain ⟨s', hs'⟩ := Option.isSome_iff_exists.mp h; exact ⟨s', Or.inl hs'⟩
  · obtain ⟨s', hs'⟩ := Option.isSome_iff_exists.mp h; exact ⟨s', Or.inr hs'⟩

/-- the same in the words of the former known finding KF-C14-1 (whose theorem exhibited a reachable `Deadlocked` state for
buffer size 0): no reachable state is deadlocked, whatever the buffer sizes. -/
theorem C14_listener_never_deadlocked {N : Nat} {script : List (Cmd M)} {s : St M σ}
    (hr : Reachable proc init N script s) : ¬ Deadlocked proc init s := by
  intro ⟨hfin, hp, hc⟩
  rcases progress proc init (inv_reachable proc init hr) hfin with h | h
  · rw [hp] at h; cases h
  · rw [hc] at h; cases h

/-- **The listener equals sequential execution** (`listener_fifo` ⇒): whenever the producer has made all its calls, the
files handed out by `File()` are exactly those of the same calls executed by one thread without pool, queue or worker —
for every buffer size N ≥ 0. -/
theorem C14_listener_eq_sequential {N : Nat} {script : List (Cmd M)} {s : St M σ}
    (hr : Reachable proc init N script s) (hfin : isFin s.p = true) :
    s.results = seqRun proc init true init script :=
  final_results proc init (inv_reachable proc init hr) hfin

/-- **No carry-over**: whenever the listener is inactive (after `File`/`Close`) the worker is gone, the queue is empty
and all `cap(l.poolc)` slices are back in the pool (distinct); the next `OnMesg` starts from the empty file cell. -/
theorem C14_listener_no_carry_over {N : Nat} {script : List (Cmd M)} {s : St M σ}
    (hr : Reachable proc init N script s) (ha : s.active = false) :
    s.c = .exited ∧ s.queue = [] ∧ s.pool.length = s.P ∧ s.pool.Nodup ∧
    ∀ m cs s', s.script = .onMesg m :: cs → stepP init s = some s' → s'.file = init ∧ s'.queue = [] ∧ s'.pool = s.pool :=
  no_carry_over proc init (inv_reachable proc init hr) ha

/-- the run the driver prints (a seeded scheduler) is one of the interleavings the theorems quantify over -/
theorem C14_listener_run_is_path {N : Nat} {script : List (Cmd M)} (pick : Nat → Bool) (fuel : Nat) :
    Reachable proc init N script (run proc init pick fuel 0 (initSt init N script)) :=
  run_reachable proc init pick fuel 0 _ Reachable.init

/-- **Buffer size 0 hands over synchronously**: while the channel buffer size is 0 nothing is ever queued (the message goes
from `OnMesg` straight into the worker's hands) and exactly one slice circulates. -/
theorem C14_listener_unbuffered_handover {N : Nat} {script : List (Cmd M)} {s : St M σ}
    (hr : Reachable proc init N script s) (h0 : s.N = 0) : s.queue = [] ∧ (tokens s).length = 1 := by
  have inv := inv_reachable proc init hr
  refine ⟨unbuffered_queue_empty proc init inv h0, ?_⟩
  rw [inv.count, inv.capP, h0]; rfl

/-- **Buffer size 0 works** (replaces `C14_KF1_buffer0_deadlock` of the tree before the repair of KF-C14-1, F15): the two
former deadlock witnesses — `NewListener(WithChannelBuffer(0))` and `Reset(WithChannelBuffer(0))`, then a message, then
`File()` — have runs in which the producer finishes with the file of that message (by `C14_listener_eq_sequential` every
finished run yields it, by `C14_listener_deadlock_free` no run gets stuck); `Reset` back to a larger size re-grows the pool.
These states also witness the hypotheses `isFin s.p = true` / `s.N = 0` of the theorems above (non-vacuity). -/
theorem C14_listener_buffer0_completes (m m' : M) :
    (∃ s : St M σ, Reachable proc init 0 [.onMesg m, .file] s ∧ isFin s.p = true ∧ s.results = [proc init m]) ∧
    (∃ s : St M σ, Reachable proc init 2 [.reset 0, .onMesg m, .file, .reset 2, .onMesg m', .file] s ∧ isFin s.p = true ∧
      s.results = [proc init m, proc init m'] ∧ s.P = 2 ∧ s.pool.length = 2) :=
  ⟨buffer0_completes proc init m, buffer0_after_reset_completes proc init m m'⟩

end Listener

/-- **Listener = sequential building of a file**: for a sequence that starts with a file_id of a known file type `T` and has
no other file_id, the one-thread specification (and therefore, by `C14_listener_eq_sequential`, the concurrent listener
under every schedule and every N ≥ 0) yields exactly `filedef.NewT(msgs...)`. -/
theorem C14_listener_builds_file {T : FileType} (fid : Msg) (rest : List Msg)
    (h0 : fid.num = mesgNumFileId) (hT : fileTypeOf fid.ft = some T) (hrest : ∀ m ∈ rest, m.num ≠ mesgNumFileId) :
    Listener.seqRun Listener.processMesg none true none ((fid :: rest).map .onMesg ++ [.file]) =
      [some (T, build T (fid :: rest))] := by
  rw [Listener.seqRun_onMesgs]
  simp only [Listener.seqRun, List.foldl_cons, Listener.processMesg, h0, if_true, hT]
  rw [Listener.foldl_processMesg T rest hrest]
  rfl

/-- non-vacuity: with buffer size 0 there are reachable states in which the producer is in the middle of `OnMesg`
(`isFin = false`, hypothesis of `C14_listener_deadlock_free`; `N = 0`, hypothesis of `C14_listener_unbuffered_handover`) and
reachable states in which the listener is inactive after `Close` (hypothesis of `C14_listener_no_carry_over`) -/
example : ∃ s : Listener.St Msg Listener.FileCell,
    Listener.Reachable Listener.processMesg none 0 [.onMesg default, .file] s ∧ Listener.isFin s.p = false ∧ s.N = 0 :=
  ⟨_, Listener.reachable_runSched Listener.processMesg none [true, true] _ _ Listener.Reachable.init rfl, rfl, rfl⟩

example : ∃ s : Listener.St Msg Listener.FileCell,
    Listener.Reachable Listener.processMesg none 0 [.close, .onMesg default] s ∧ s.active = false ∧ s.N = 0 :=
  ⟨_, Listener.reachable_runSched Listener.processMesg none [true, true, true, false, true] _ _ Listener.Reachable.init rfl, rfl, rfl⟩

end Fit.C14
