import FitModel.ReadBuffer
/-!
Lemmas about the read-buffer model (`FitModel/ReadBuffer.lean`): `io.ReadAtLeast` over a schedule, the
window invariant of `readBuffer`, one `ReadN` step against the exact-n reader, and the lifting to every
client (`Prog`).
-/
namespace Fit.ReadBuffer
open Fit.Gen.Reader

theorem bytesOf_nil : bytesOf [] = [] := rfl
theorem bytesOf_cons (c : Chunk) (s : Sched) : bytesOf (c :: s) = c.data ++ bytesOf s := by
  simp [bytesOf]
theorem bytesOf_append (s t : Sched) : bytesOf (s ++ t) = bytesOf s ++ bytesOf t := by
  simp [bytesOf]

/-- a schedule without failures (see `cleanB`) -/
def Clean (s : Sched) : Prop := cleanB s = true

instance (s : Sched) : Decidable (Clean s) := by unfold Clean; infer_instance

theorem clean_nil : Clean [] := rfl

theorem clean_tail {c : Chunk} {s : Sched} (h : Clean (c :: s)) : Clean s := by
  cases s with
  | nil => rfl
  | cons c' s' => simp only [Clean, cleanB, Bool.and_eq_true] at h; exact h.2

theorem clean_head_err {c : Chunk} {s : Sched} {e : RErr} (h : Clean (c :: s)) (he : c.err = some e) :
    s = [] ∧ e = .eof := by
  cases s with
  | nil =>
    simp only [Clean, cleanB, he, Bool.or_eq_true, beq_iff_eq] at h
    rcases h with h | h
    · cases h
    · injection h with h; exact ⟨rfl, h⟩
  | cons c' s' =>
    simp only [Clean, cleanB, he, Bool.and_eq_true, beq_iff_eq] at h
    cases h.1

/-- cleanliness depends on the errors only -/
theorem clean_setData {c : Chunk} {s : Sched} (d : Bytes) (h : Clean (c :: s)) : Clean ({ c with data := d } :: s) := by
  cases s with
  | nil => simpa [Clean, cleanB] using h
  | cons c' s' => simpa [Clean, cleanB] using h

/-! ### `io.ReadAtLeast` over a schedule without failures -/

theorem ral_clean (cap min : Nat) (hmin : min ≤ cap) (s : Sched) :
    ∀ (acc : Bytes), Clean s → acc.length ≤ cap →
    ∃ d e s', ral cap min acc s = (d, e, s') ∧ d ++ bytesOf s' = acc ++ bytesOf s ∧ Clean s' ∧ d.length ≤ cap ∧
      (min ≤ (acc ++ bytesOf s).length → min ≤ d.length) ∧
      ((acc ++ bytesOf s).length < min → s' = [] ∧ e = some .eof) := by
  induction s with
  | nil =>
    intro acc _ hacc
    by_cases h : acc.length < min
    · exact ⟨acc, some .eof, [], by simp [ral, h], rfl, clean_nil, hacc, by simp [bytesOf_nil], fun _ => ⟨rfl, rfl⟩⟩
    · exact ⟨acc, none, [], by simp [ral, h], rfl, clean_nil, hacc, by simp [bytesOf_nil], by simp [bytesOf_nil]; omega⟩
  | cons c rest ih =>
    intro acc hs hacc
    by_cases h : acc.length < min
    · by_cases hfit : c.data.length ≤ cap - acc.length
      · cases he : c.err with
        | none =>
          obtain ⟨d, e, s', h1, h2, h3, h4, h5, h6⟩ := ih (acc ++ c.data) (clean_tail hs) (by simp; omega)
          refine ⟨d, e, s', ?_, ?_, h3, h4, ?_, ?_⟩
          · simp [ral, h, hfit, he, h1]
          · simpa [bytesOf_cons, List.append_assoc] using h2
          · simpa [bytesOf_cons, List.append_assoc] using h5
          · simpa [bytesOf_cons, List.append_assoc] using h6
        | some e =>
          obtain ⟨hr, hee⟩ := clean_head_err hs he
          subst hr; subst hee
          refine ⟨acc ++ c.data, some .eof, [], ?_, ?_, clean_nil, ?_, ?_, ?_⟩
          · simp [ral, h, hfit, he]
          · simp [bytesOf_cons, bytesOf_nil]
          · simp; omega
          · simp [bytesOf_cons, bytesOf_nil]
          · intro _; exact ⟨rfl, rfl⟩
      · have hlen : (acc ++ c.data.take (cap - acc.length)).length = cap := by
          simp [List.length_take]; omega
        refine ⟨acc ++ c.data.take (cap - acc.length), none,
          { c with data := c.data.drop (cap - acc.length) } :: rest, ?_, ?_, clean_setData _ hs, by omega, ?_, ?_⟩
        · simp [ral, h, hfit]
        · rw [bytesOf_cons, bytesOf_cons, List.append_assoc, ← List.append_assoc (List.take _ _), List.take_append_drop]
        · intro _; omega
        · intro hlt
          simp [bytesOf_cons] at hlt
          omega
    · refine ⟨acc, none, c :: rest, by simp [ral, h], rfl, hs, hacc, fun _ => by omega, ?_⟩
      intro hlt; simp at hlt; omega

/-- `io.ReadAtLeast` over a schedule without failures: nothing is lost or reordered; it succeeds exactly when
the stream still has `min` bytes; otherwise everything left is used up and the error is `io.EOF` (nothing was
left) or `io.ErrUnexpectedEOF` (something, but less than `min`). -/
theorem readAtLeast_clean (cap min : Nat) (hmin : min ≤ cap) (s : Sched) (hs : Clean s) :
    ∃ d e s', readAtLeast cap min s = (d, e, s') ∧ d ++ bytesOf s' = bytesOf s ∧ Clean s' ∧ d.length ≤ cap ∧
      (min ≤ (bytesOf s).length → e = none ∧ min ≤ d.length) ∧
      ((bytesOf s).length < min → s' = [] ∧ e = some (if d = [] then .eof else .unexpectedEof)) := by
  obtain ⟨d, e, s', h1, h2, h3, h4, h5, h6⟩ := ral_clean cap min hmin s [] hs (by simp)
  simp only [List.nil_append] at h2 h5 h6
  by_cases hok : min ≤ (bytesOf s).length
  · have hd := h5 hok
    refine ⟨d, none, s', ?_, h2, h3, h4, fun _ => ⟨rfl, hd⟩, fun h => by omega⟩
    simp [readAtLeast, Nat.not_lt.mpr hmin, h1, hd]
  · have hlt : (bytesOf s).length < min := by omega
    obtain ⟨hs', he⟩ := h6 hlt
    subst hs' he
    have hd : d = bytesOf s := by simpa [bytesOf_nil] using h2
    have hdl : ¬ min ≤ d.length := by rw [hd]; omega
    refine ⟨d, some (if d = [] then .eof else .unexpectedEof), [], ?_, h2, h3, h4, fun h => by omega, fun _ => ⟨rfl, rfl⟩⟩
    by_cases hd0 : d = []
    · simp [readAtLeast, Nat.not_lt.mpr hmin, h1, hd0] at hdl ⊢
      omega
    · have : 0 < d.length := List.length_pos_iff.mpr hd0
      simp [readAtLeast, Nat.not_lt.mpr hmin, h1, hdl, hd0, this]

/-! ### the buffer: window lemmas, invariant, one `ReadN` -/

set_option linter.unusedSimpArgs false

theorem length_copyWithin (arr : Bytes) (len dst src : Nat) (hlen : len ≤ arr.length) (hdst : dst ≤ len) :
    (copyWithin arr len dst src).length = arr.length := by
  simp only [copyWithin, List.length_append, List.length_take, List.length_drop]
  omega

theorem length_writeAt (arr : Bytes) (off : Nat) (d : Bytes) (h : off + d.length ≤ arr.length) :
    (writeAt arr off d).length = arr.length := by
  simp only [writeAt, List.length_append, List.length_take, List.length_drop]
  omega

theorem window_refill (arr : Bytes) (len cur last R : Nat) (d : Bytes)
    (h1 : cur ≤ last) (h2 : last ≤ len) (h3 : len ≤ arr.length) (hrem : last - cur ≤ R) (hR : R + d.length ≤ len) :
    ((writeAt (copyWithin arr len (R - (last - cur)) cur) R d).drop (R - (last - cur))).take ((last - cur) + d.length)
      = (arr.drop cur).take (last - cur) ++ d := by
  apply List.ext_getElem?
  intro i
  simp only [writeAt, copyWithin, List.getElem?_take, List.getElem?_drop, List.getElem?_append, List.length_append, List.length_take, List.length_drop]
  repeat' split
  all_goals (try omega)
  all_goals first | (congr 1; omega) | (symm; apply List.getElem?_eq_none; omega) | (apply List.getElem?_eq_none; omega)

theorem window_fresh (arr : Bytes) (R : Nat) (d : Bytes) (hR : R + d.length ≤ arr.length) :
    ((writeAt arr R d).drop R).take d.length = d := by
  apply List.ext_getElem?
  intro i
  simp only [writeAt, List.getElem?_take, List.getElem?_drop, List.getElem?_append, List.length_append, List.length_take, List.length_drop]
  repeat' split
  all_goals (try omega)
  all_goals first | (congr 1; omega) | (symm; apply List.getElem?_eq_none; omega) | (apply List.getElem?_eq_none; omega)

/-- the buffer invariant: cursors in order and inside the slice, the slice inside its array and large enough
for the largest request, and — the point of it — the unread window followed by what the reader has yet to
deliver is exactly the unread rest of the stream -/
structure Inv (b : RB) (rest : Bytes) : Prop where
  cur_le : b.cur ≤ b.last
  last_le : b.last ≤ b.len
  len_le : b.len ≤ b.arr.length
  big : reservedbuf + reservedbuf ≤ b.len
  win : (b.arr.drop b.cur).take (b.last - b.cur) ++ bytesOf b.src = rest

theorem clampSize_ge (size : Int) : reservedbuf ≤ clampSize size := by
  have h1 : reservedbuf ≤ minReadBufferSize := by decide
  have h2 : minReadBufferSize ≤ maxReadBufferSize := by decide
  unfold clampSize
  split
  · exact h1
  · split
    · omega
    · omega

theorem reset_inv (b : RB) (s : Sched) (size : Int) : Inv (b.reset s size) (bytesOf s) := by
  have := clampSize_ge size
  refine ⟨by simp [RB.reset], by simp [RB.reset], ?_, by simp [RB.reset]; omega, by simp [RB.reset]⟩
  simp only [RB.reset]
  split
  · simp
  · omega

theorem win_length {b : RB} {rest : Bytes} (h : Inv b rest) : ((b.arr.drop b.cur).take (b.last - b.cur)).length = b.last - b.cur := by
  have := h.cur_le; have := h.last_le; have := h.len_le
  simp only [List.length_take, List.length_drop]; omega

/-- `ReadN` served from the window -/
theorem readN_window {b : RB} {rest : Bytes} (h : Inv b rest) (n : Nat) (hn : n ≤ b.last - b.cur) :
    ∃ b', b.readN n = (.ok (rest.take n), b') ∧ Inv b' (rest.drop n) ∧ b'.src = b.src := by
  have h1 := h.cur_le; have h2 := h.last_le; have h3 := h.len_le
  have hw := win_length h
  refine ⟨{ b with cur := b.cur + n }, ?_, ⟨by simp; omega, h2, h3, h.big, ?_⟩, rfl⟩
  · simp only [RB.readN, RB.slice, Nat.not_lt.mpr hn, if_false, Nat.not_lt.mpr (show b.cur + n ≤ b.arr.length by omega)]
    congr 2
    rw [← h.win, List.take_append_of_le_length (by omega), List.take_take, Nat.min_eq_left hn]
  · simp only
    rw [← h.win, List.drop_append_of_le_length (by omega), List.drop_take, List.drop_drop]
    rw [show b.last - (b.cur + n) = b.last - b.cur - n by omega]

theorem writeAt_nil (arr : Bytes) (off : Nat) : writeAt arr off [] = arr := by
  simp [writeAt]

/-- `ReadN` that has to refill, given what `io.ReadAtLeast` did -/
theorem readN_refill {b : RB} {rest : Bytes} (h : Inv b rest) (n : Nat) (hn : n ≤ reservedbuf) (hlt : b.last - b.cur < n)
    {d : Bytes} {e : Option RErr} {s' : Sched}
    (hr : readAtLeast (b.len - reservedbuf) (n - (b.last - b.cur)) b.src = (d, e, s'))
    (hcat : d ++ bytesOf s' = bytesOf b.src) (hdl : d.length ≤ b.len - reservedbuf) :
    (∀ e', e = some e' → ∃ b', b.readN n = (.err e', b') ∧ b'.src = s' ∧
        (b.last - b.cur = 0 → d = [] → Inv b' rest)) ∧
    (e = none → n - (b.last - b.cur) ≤ d.length →
        ∃ b', b.readN n = (.ok (rest.take n), b') ∧ Inv b' (rest.drop n) ∧ b'.src = s') := by
  have h1 := h.cur_le; have h2 := h.last_le; have h3 := h.len_le; have h4 := h.big
  have hw := win_length h
  have hnp : ¬ ((b.last - b.cur ≠ 0) ∧ reservedbuf < b.last - b.cur) := by omega
  have hlen : ¬ b.len < reservedbuf := by omega
  have hgt : ¬ reservedbuf < b.last - b.cur := by omega
  by_cases h0 : b.last - b.cur = 0
  · have hnz : ¬ (b.last - b.cur ≠ 0) := by omega
    constructor
    · intro e' he
      subst he
      refine ⟨{ b with arr := writeAt b.arr reservedbuf d, src := s' }, ?_, rfl, ?_⟩
      · simp only [RB.readN, hlt, if_true, hnp, if_false, hlen, hr, hnz, false_and, true_and, hgt]
      · intro _ hd
        subst hd
        rw [writeAt_nil]
        exact ⟨h1, h2, h3, h4, by simpa [h0, ← hcat] using h.win⟩
    · intro he hmin
      subst he
      have harr : (writeAt b.arr reservedbuf d).length = b.arr.length := length_writeAt _ _ _ (by omega)
      have hwin := window_fresh b.arr reservedbuf d (by omega)
      have hrest : rest = d ++ bytesOf s' := by rw [← h.win, h0, hcat]; simp
      have hnd : n ≤ d.length := by omega
      refine ⟨{ arr := writeAt b.arr reservedbuf d, len := b.len, cur := reservedbuf + n, last := reservedbuf + d.length, src := s' }, ?_, ?_, rfl⟩
      · simp only [RB.readN, hlt, if_true, hnp, if_false, hlen, hr, hnz, false_and, true_and, hgt, RB.slice, harr,
          Nat.not_lt.mpr (show reservedbuf + n ≤ b.arr.length by omega)]
        congr 2
        rw [hrest, List.take_append_of_le_length hnd]
        have := congrArg (List.take n) hwin
        rw [List.take_take, Nat.min_eq_left hnd] at this
        exact this
      · refine ⟨by simp; omega, by simp; omega, by simp [harr]; omega, h4, ?_⟩
        simp only
        rw [hrest, List.drop_append_of_le_length hnd]
        congr 1
        rw [show reservedbuf + d.length - (reservedbuf + n) = d.length - n by omega, ← List.drop_drop, ← List.drop_take, hwin]
  · have hnz : b.last - b.cur ≠ 0 := h0
    have hrem : b.last - b.cur ≤ reservedbuf := by omega
    have hcl : (copyWithin b.arr b.len (reservedbuf - (b.last - b.cur)) b.cur).length = b.arr.length :=
      length_copyWithin _ _ _ _ h3 (by omega)
    have harr : (writeAt (copyWithin b.arr b.len (reservedbuf - (b.last - b.cur)) b.cur) reservedbuf d).length = b.arr.length := by
      rw [length_writeAt _ _ _ (by omega), hcl]
    constructor
    · intro e' he
      subst he
      refine ⟨{ b with arr := writeAt (copyWithin b.arr b.len (reservedbuf - (b.last - b.cur)) b.cur) reservedbuf d, src := s' }, ?_, rfl, ?_⟩
      · simp only [RB.readN, hlt, if_true, hnp, if_false, hlen, hr, ne_eq, h0, not_false_eq_true, false_and, true_and, and_false, hgt]
      · intro h0'; omega
    · intro he hmin
      subst he
      have hwin := window_refill b.arr b.len b.cur b.last reservedbuf d h1 h2 h3 hrem (by omega)
      have hrest : rest = (b.arr.drop b.cur).take (b.last - b.cur) ++ d ++ bytesOf s' := by
        rw [← h.win, ← hcat, List.append_assoc]
      have hnd : n ≤ ((b.arr.drop b.cur).take (b.last - b.cur) ++ d).length := by
        rw [List.length_append, hw]; omega
      refine ⟨{ arr := writeAt (copyWithin b.arr b.len (reservedbuf - (b.last - b.cur)) b.cur) reservedbuf d, len := b.len,
                cur := reservedbuf - (b.last - b.cur) + n, last := reservedbuf + d.length, src := s' }, ?_, ?_, rfl⟩
      · simp only [RB.readN, hlt, if_true, hnp, if_false, hlen, hr, ne_eq, h0, not_false_eq_true, false_and, true_and, and_false, hgt, RB.slice, harr,
          Nat.not_lt.mpr (show reservedbuf - (b.last - b.cur) + n ≤ b.arr.length by omega)]
        congr 2
        rw [hrest, List.take_append_of_le_length hnd]
        have := congrArg (List.take n) hwin
        rw [List.take_take, Nat.min_eq_left (by rw [List.length_append, hw] at hnd; exact hnd)] at this
        exact this
      · refine ⟨by simp; omega, by simp; omega, by simp [harr]; omega, h4, ?_⟩
        simp only
        rw [hrest, List.drop_append_of_le_length hnd]
        congr 1
        have := congrArg (List.drop n) hwin
        rw [List.drop_take, List.drop_drop] at this
        rw [← this]
        congr 1
        omega

/-! ### `io.ReadAtLeast` over any schedule -/

theorem ral_gen (cap min : Nat) (hmin : min ≤ cap) (s : Sched) :
    ∀ (acc : Bytes), acc.length ≤ cap →
    ∃ d e s', ral cap min acc s = (d, e, s') ∧ d ++ bytesOf s' = acc ++ bytesOf s ∧ d.length ≤ cap ∧
      (e = none → min ≤ d.length) := by
  induction s with
  | nil =>
    intro acc hacc
    by_cases h : acc.length < min
    · exact ⟨acc, some .eof, [], by simp [ral, h], rfl, hacc, by simp⟩
    · exact ⟨acc, none, [], by simp [ral, h], rfl, hacc, fun _ => by omega⟩
  | cons c rest ih =>
    intro acc hacc
    by_cases h : acc.length < min
    · by_cases hfit : c.data.length ≤ cap - acc.length
      · cases he : c.err with
        | none =>
          obtain ⟨d, e, s', h1, h2, h3, h4⟩ := ih (acc ++ c.data) (by simp; omega)
          exact ⟨d, e, s', by simp [ral, h, hfit, he, h1], by simpa [bytesOf_cons, List.append_assoc] using h2, h3, h4⟩
        | some e =>
          exact ⟨acc ++ c.data, some e, rest, by simp [ral, h, hfit, he], by simp [bytesOf_cons], by simp; omega, by simp⟩
      · refine ⟨acc ++ c.data.take (cap - acc.length), none,
          { c with data := c.data.drop (cap - acc.length) } :: rest, by simp [ral, h, hfit], ?_, ?_, ?_⟩
        · rw [bytesOf_cons, bytesOf_cons, List.append_assoc, ← List.append_assoc (List.take _ _), List.take_append_drop]
        · simp [List.length_take]; omega
        · intro _; simp [List.length_take]; omega
    · exact ⟨acc, none, c :: rest, by simp [ral, h], rfl, hacc, fun _ => by omega⟩

/-- `io.ReadAtLeast` over ANY schedule: nothing is lost, duplicated or reordered, and it reports success only
with at least `min` bytes stored -/
theorem readAtLeast_gen (cap min : Nat) (hmin : min ≤ cap) (s : Sched) :
    ∃ d e s', readAtLeast cap min s = (d, e, s') ∧ d ++ bytesOf s' = bytesOf s ∧ d.length ≤ cap ∧
      (e = none → min ≤ d.length) := by
  obtain ⟨d, e, s', h1, h2, h3, h4⟩ := ral_gen cap min hmin s [] (by simp)
  simp only [List.nil_append] at h2
  by_cases hok : min ≤ d.length
  · exact ⟨d, none, s', by simp [readAtLeast, Nat.not_lt.mpr hmin, h1, hok], h2, h3, fun _ => hok⟩
  · have hne : e ≠ none := fun h => hok (h4 h)
    by_cases hu : 0 < d.length ∧ e = some .eof
    · exact ⟨d, some .unexpectedEof, s', by simp [readAtLeast, Nat.not_lt.mpr hmin, h1, hok, hu], h2, h3, by simp⟩
    · refine ⟨d, e, s', ?_, h2, h3, fun h => absurd h hne⟩
      simp only [readAtLeast, Nat.not_lt.mpr hmin, if_false, h1, hok, hu]

/-- ONE `ReadN` OVER ANY SCHEDULE (failing readers included): it never panics; when it reports success the
bytes are exactly the next `n` bytes of the stream (the concatenation of everything the reader delivers). -/
theorem readN_sound {b : RB} {rest : Bytes} (h : Inv b rest) (n : Nat) (hn : n ≤ reservedbuf) :
    (∃ b', b.readN n = (.ok (rest.take n), b') ∧ n ≤ rest.length ∧ Inv b' (rest.drop n)) ∨
    (∃ e b', b.readN n = (.err e, b')) := by
  have hw := win_length h
  by_cases hlt : b.last - b.cur < n
  · have h2 := h.last_le; have h4 := h.big
    obtain ⟨d, e, s', hr, hcat, hdl, hmin⟩ := readAtLeast_gen (b.len - reservedbuf) (n - (b.last - b.cur)) (by omega) b.src
    obtain ⟨herr, hok⟩ := readN_refill h n hn hlt hr hcat hdl
    cases e with
    | some e' =>
      obtain ⟨b', hb', _⟩ := herr e' rfl
      exact Or.inr ⟨e', b', hb'⟩
    | none =>
      obtain ⟨b', hb', hinv, _⟩ := hok rfl (hmin rfl)
      refine Or.inl ⟨b', hb', ?_, hinv⟩
      rw [← h.win, ← hcat]
      simp only [List.length_append, hw]
      have := hmin rfl
      omega
  · obtain ⟨b', hb', hinv, _⟩ := readN_window h n (by omega)
    refine Or.inl ⟨b', hb', ?_, hinv⟩
    rw [← h.win]; simp only [List.length_append, hw]; omega

/-- one `ReadN` over a schedule without failures, enough bytes left in the stream -/
theorem readN_clean_ok {b : RB} {rest : Bytes} (h : Inv b rest) (hc : Clean b.src) (n : Nat) (hn : n ≤ reservedbuf)
    (hlen : n ≤ rest.length) :
    ∃ b', b.readN n = (.ok (rest.take n), b') ∧ Inv b' (rest.drop n) ∧ Clean b'.src := by
  have hw := win_length h
  by_cases hlt : b.last - b.cur < n
  · have h2 := h.last_le; have h4 := h.big
    obtain ⟨d, e, s', hr, hcat, hcl, hdl, hok, _⟩ := readAtLeast_clean (b.len - reservedbuf) (n - (b.last - b.cur)) (by omega) b.src hc
    have hl : rest.length = (b.last - b.cur) + (bytesOf b.src).length := by
      rw [← h.win]; simp only [List.length_append, hw]
    obtain ⟨he, hmin⟩ := hok (by omega)
    obtain ⟨b', hb', hinv, hsrc⟩ := (readN_refill h n hn hlt hr hcat hdl).2 he hmin
    exact ⟨b', hb', hinv, by rw [hsrc]; exact hcl⟩
  · obtain ⟨b', hb', hinv, hsrc⟩ := readN_window h n (by omega)
    exact ⟨b', hb', hinv, by rw [hsrc]; exact hc⟩

/-- one `ReadN` over a schedule without failures, fewer than `n` bytes left: an end-of-stream error; it is
`io.EOF` when nothing was left (and then the buffer is still in order), and may be either one otherwise -/
theorem readN_clean_short {b : RB} {rest : Bytes} (h : Inv b rest) (hc : Clean b.src) (n : Nat) (hn : n ≤ reservedbuf)
    (hlen : rest.length < n) :
    ∃ e b', b.readN n = (.err e, b') ∧ (e = .eof ∨ e = .unexpectedEof) ∧
      (rest = [] → e = .eof ∧ Inv b' [] ∧ Clean b'.src) := by
  have hw := win_length h
  have hl : rest.length = (b.last - b.cur) + (bytesOf b.src).length := by
    rw [← h.win]; simp only [List.length_append, hw]
  have hlt : b.last - b.cur < n := by omega
  have h2 := h.last_le; have h4 := h.big
  obtain ⟨d, e, s', hr, hcat, hcl, hdl, _, hshort⟩ := readAtLeast_clean (b.len - reservedbuf) (n - (b.last - b.cur)) (by omega) b.src hc
  obtain ⟨hs', he⟩ := hshort (by omega)
  obtain ⟨b', hb', hsrc, hinv⟩ := (readN_refill h n hn hlt hr hcat hdl).1 _ he
  refine ⟨_, b', hb', ?_, ?_⟩
  · split <;> simp
  · intro hr0
    subst hr0
    have hd : d = [] := by
      have : d.length = 0 := by
        have := congrArg List.length hcat
        simp only [List.length_append] at this
        simp at hl; omega
      exact List.length_eq_zero_iff.mp this
    have h0 : b.last - b.cur = 0 := by simp at hl; omega
    refine ⟨by simp [hd], hinv h0 hd, by rw [hsrc, hs']; exact clean_nil⟩

/-! ### every client at once -/

theorem isBytes_take {bs : Bytes} (h : IsBytes bs) (n : Nat) : IsBytes (bs.take n) :=
  fun b hb => h b (List.mem_of_mem_take hb)
theorem isBytes_drop {bs : Bytes} (h : IsBytes bs) (n : Nat) : IsBytes (bs.drop n) :=
  fun b hb => h b (List.mem_of_mem_drop hb)
theorem isBytes_nil : IsBytes [] := fun _ h => by cases h

/-- EVERY CLIENT, ONE THEOREM: run over the read buffer on a schedule without failures, a `Good` client never
panics and ends with the result of its run over the exact-n reader on the same bytes — up to the end-of-stream
error class in general, and exactly when the stream does not end inside a request. -/
theorem runRB_refines {α β : Type} (μ : α → β) (p : Prog α) (hp : Good μ reservedbuf p) :
    ∀ (b : RB) (rest : Bytes), Inv b rest → Clean b.src → IsBytes rest →
      ∃ a, runRB p b = .done a ∧ μ a = μ (runExact p rest) ∧ (truncated p rest = false → a = runExact p rest) := by
  induction hp with
  | ret a => intro b rest _ _ _; exact ⟨a, rfl, rfl, fun _ => rfl⟩
  | read n k hn _ _ hstop ihok iherr =>
    intro b rest hinv hc hb
    by_cases hlen : n ≤ rest.length
    · obtain ⟨b', hr, hinv', hc'⟩ := readN_clean_ok hinv hc n hn hlen
      obtain ⟨a, h1, h2, h3⟩ := ihok (rest.take n) (by simp [List.length_take]; omega) (isBytes_take hb n)
        b' (rest.drop n) hinv' hc' (isBytes_drop hb n)
      refine ⟨a, by simp only [runRB, hr]; exact h1, ?_, ?_⟩
      · simpa [runExact, exactRead, hlen] using h2
      · intro ht; simp only [truncated, hlen, if_true] at ht
        simpa [runExact, exactRead, hlen] using h3 ht
    · obtain ⟨e, b', hr, he, h0⟩ := readN_clean_short hinv hc n hn (by omega)
      by_cases hempty : rest = []
      · obtain ⟨hee, hinv', hc'⟩ := h0 hempty
        subst hee hempty
        obtain ⟨a, h1, h2, h3⟩ := iherr b' [] hinv' hc' isBytes_nil
        have hn0 : ¬ n ≤ 0 := by simpa using hlen
        refine ⟨a, by simp only [runRB, hr]; exact h1, ?_, ?_⟩
        · simpa [runExact, exactRead, hn0] using h2
        · intro ht; simp only [truncated, List.length_nil, hn0, if_false, List.isEmpty_nil, if_true] at ht
          simpa [runExact, exactRead, hn0] using h3 ht
      · have hpos : 0 < rest.length := List.length_pos_iff.mpr hempty
        obtain ⟨a, a', hk, hk', hμ⟩ := hstop (by omega)
        have hie : rest.isEmpty = false := by cases rest with | nil => exact absurd rfl hempty | cons _ _ => rfl
        have hex : runExact (.read n k) rest = a' := by
          simp [runExact, exactRead, hlen, hie, hk']
        rcases he with he | he
        · subst he
          exact ⟨a, by simp only [runRB, hr, hk], by rw [hex]; exact hμ, by simp [truncated, hlen, hie]⟩
        · subst he
          exact ⟨a', by simp only [runRB, hr, hk'], by rw [hex], by simp [truncated, hlen, hie]⟩

/-- `io.ReadFull` over a schedule without failures is the exact-n reader, error classes included -/
theorem readFull_clean (n : Nat) (s : Sched) (hs : Clean s) :
    ∃ s', Clean s' ∧ bytesOf s' = (exactRead (bytesOf s) n).2 ∧
      match (exactRead (bytesOf s) n).1 with
      | .ok bs => readFull n s = (bs, none, s')
      | .error e => ∃ d, readFull n s = (d, some e, s') := by
  obtain ⟨d, e, s', hr, hcat, hcl, hdl, hok, hshort⟩ := readAtLeast_clean n n (Nat.le_refl n) s hs
  by_cases hlen : n ≤ (bytesOf s).length
  · obtain ⟨he, hmin⟩ := hok hlen
    subst he
    have hdn : d.length = n := by omega
    have hd : d = (bytesOf s).take n := by rw [← hcat, List.take_append_of_le_length (by omega), ← hdn, List.take_length]
    have hs' : bytesOf s' = (bytesOf s).drop n := by rw [← hcat, List.drop_append_of_le_length (by omega), ← hdn, List.drop_length, List.nil_append]
    refine ⟨s', hcl, by simp [exactRead, hlen, hs'], ?_⟩
    simp only [exactRead, hlen, if_true]
    rw [← hd]; exact hr
  · obtain ⟨hs', he⟩ := hshort (by omega)
    subst hs' he
    have hd : d = bytesOf s := by simpa [bytesOf_nil] using hcat
    refine ⟨[], clean_nil, ?_, ?_⟩
    · simp only [exactRead, hlen, if_false]; split <;> rfl
    · simp only [exactRead, hlen, if_false]
      by_cases h0 : bytesOf s = []
      · simp only [h0, List.isEmpty_nil, if_true]
        exact ⟨d, by unfold readFull; rw [hr]; simp [hd, h0]⟩
      · have hie : (bytesOf s).isEmpty = false := by cases hh : bytesOf s with | nil => exact absurd hh h0 | cons _ _ => rfl
        simp only [hie]
        exact ⟨d, by unfold readFull; rw [hr]; simp [hd, h0]⟩

/-- every client of `io.ReadFull` (the raw decoder): running it over any schedule without failures equals running it
over the exact-n reader on the same bytes — no exception, error classes included -/
theorem runFull_eq_exact {α : Type} (p : Prog α) : ∀ (s : Sched), Clean s → runFull p s = runExact p (bytesOf s) := by
  induction p with
  | ret a => intro s _; rfl
  | read n k ih =>
    intro s hs
    obtain ⟨s', hcl, hb, hm⟩ := readFull_clean n s hs
    simp only [runExact]
    cases hx : (exactRead (bytesOf s) n).1 with
    | ok bs =>
      rw [hx] at hm
      simp only [runFull, hm]
      rw [ih _ s' hcl, hb]
    | error e =>
      rw [hx] at hm
      obtain ⟨d, hd⟩ := hm
      simp only [runFull, hd]
      rw [ih _ s' hcl, hb]

end Fit.ReadBuffer
