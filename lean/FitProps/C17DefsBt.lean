import FitProps.C17Defs
import FitModel.Generated.ProfileTables
/-! C17: the size of a base type, from the dump of the compiled `basetype` package. -/
namespace Fit.C17
open Fit.ProfileSpec Fit.Gen

def btSize (t : Nat) : Nat := Prof.btSizes.getD t 0

end Fit.C17
