import FitProps.C12
import FitProps.ValidatorLemmas
import FitModel.ValidatorArith
/-!
Lemmas for the composition of C10 (message validator) with C12 (binary64 model, kit/scaleoffset): the validator
model instantiated with `Fit.ScaleOffset.discardValue` and the regenerated standard factory (`Fit.ValidatorA`).
-/
namespace Fit.ValidatorA
open Fit.Gen Fit.Value Fit.Msg Fit.Validator Fit.F64 Fit.ScaleOffset Fit.C12L Fit.C12

/-- the in-range condition of C12 on a (scale, offset) pair, the unit pair included: the pair is the unit pair
(1.0, +0) or meets `pairOK` (positive normal scale in [1/2, 2^17), |offset| < 2^10, not the unit pair) -/
def InRangePair (s o : Nat) : Prop := pairOK s o = true ∨ (s = oneBits ∧ o = 0)

instance (s o : Nat) : Decidable (InRangePair s o) := by unfold InRangePair; exact inferInstance

theorem f64One_eq : f64One = oneBits := rfl

/-- a pair that meets `pairOK` makes the validator call `DiscardValue` (`field.Scale != 1 || field.Offset != 0`) -/
theorem call_of_pairOK (s o : Nat) (h : pairOK s o = true) : (scaleNotOne s || offsetNotZero o) = true := by
  obtain ⟨_, ho⟩ := rangeOK_lt s o (by unfold pairOK at h; simp only [Bool.and_eq_true] at h; exact h.1)
  obtain ⟨_, _, _, _, _, hu, _⟩ := pairOK_spec s o h
  by_contra hc
  simp only [Bool.or_eq_true, not_or, Bool.not_eq_true, scaleNotOne, offsetNotZero, bne_eq_false_iff_eq] at hc
  obtain ⟨hs, ho0⟩ := hc
  have hs' : s = oneBits := hs
  have : o = 0 ∨ o = 2 ^ 63 := by omega
  rcases this with rfl | rfl
  · subst hs'; revert hu; decide +kernel
  · subst hs'; revert hu; decide +kernel

/-- … and the unit pair does not -/
theorem no_call_unit : (scaleNotOne oneBits || offsetNotZero 0) = false := by decide

/-- the rounded product of the round trip is the integer `r` exactly -/
theorem roundtrip_fin (ty : IntTy) (hty : ty.bits ≤ 32) (p s o : Nat) (h : InRangePair s o) :
    IsFin (round (discard (apply (toF64 (.int ty) p) s o) s o)) ((ty.toInt p : Int) : ℚ) := by
  have hrb : (ty.toInt p).natAbs ≤ 2 ^ 32 :=
    le_trans (toInt_natAbs_le ty p) (Nat.pow_le_pow_right (by norm_num) hty)
  simp only [toF64]
  rcases h with h | ⟨rfl, rfl⟩
  · exact C12_scale_roundtrip_rounded _ (by omega) s o h
  · have hu : isUnit oneBits 0 = true := by decide +kernel
    simp only [ScaleOffset.discard, ScaleOffset.apply, hu, if_true]
    exact unit_fin _ (by omega)

/-- an integer-valued datum inside the range of the target type converts without leaving anything to the platform -/
theorem cvtFlag_int (ty : IntTy) (y : Nat) (r : Int) (hy : IsFin y (r : ℚ)) (hr : InRange ty r) :
    cvtFlag ty y = false := by
  obtain ⟨s, m, e, hd, hv⟩ := hy
  have ht := truncInt_of_int s m e r hv
  simp only [cvtFlag, hd, ht]
  unfold InRange at hr
  cases hsg : ty.signed <;> simp only [hsg, if_true, Bool.false_eq_true, if_false] at hr ⊢ <;> simp [hr]

/-- **the scalar path of `DiscardValue` undoes `Apply` exactly** (C12's `helperRT_int`, restated on `discardScalar`),
and no conversion on the way is platform-defined -/
theorem discardScalar_exact (ty : IntTy) (hty : ty.bits ≤ 32) (p : Nat) (hp : p < 2 ^ ty.bits) (s o : Nat)
    (h : InRangePair s o) :
    discardScalar (.int ty) (apply (toF64 (.int ty) p) s o) s o = p ∧
    convFlag (.int ty) (round (discard (apply (toF64 (.int ty) p) s o) s o)) = false := by
  refine ⟨helperRT_int ty hty p hp s o h, ?_⟩
  exact cvtFlag_int ty _ _ (roundtrip_fin ty hty p s o h) (toInt_inRange ty p)

/-- `DiscardValue` on the float64 physical value of the raw value `p` gives back `p` as a value of the base type -/
theorem discardValue_exact (ty : IntTy) (hty : ty.bits ≤ 32) (p : Nat) (hp : p < 2 ^ ty.bits) (bt s o : Nat)
    (hbt : tgtOfBaseType bt = some (.int ty)) (h : InRangePair s o) :
    ScaleOffset.discardValue (.float64 (apply (toF64 (.int ty) p) s o)) bt s o = scalarV ty p ∧
    discardValueFlag (.float64 (apply (toF64 (.int ty) p) s o)) bt s o = false := by
  obtain ⟨h1, h2⟩ := discardScalar_exact ty hty p hp s o h
  simp only [ScaleOffset.discardValue, discardValueFlag, hbt, h1, Num.isInteger, if_true, h2, and_true]
  rfl

theorem applyValue_scalarV (ty : IntTy) (p s o : Nat) (hu : isUnit s o = false) :
    applyValue (scalarV ty p) s o = .float64 (apply (toF64 (.int ty) p) s o) := by
  simp only [applyValue, hu, Bool.false_eq_true, if_false, scalarOf_scalarV]

theorem applyValue_unit (v : Value) : applyValue v oneBits 0 = v := by
  have hu : isUnit oneBits 0 = true := by decide +kernel
  simp only [applyValue, hu, if_true]

theorem scalarV_not_f64 (ty : IntTy) (p : Nat) (D' : Discard) (bt s o : Nat) :
    Validator.discardValue D' (scalarV ty p) bt s o = scalarV ty p := by
  cases ty <;> rfl

/-- **lines 113-121 of validator.go with the arithmetic inside**: a field whose value is what `ApplyValue` makes of
the raw value `p` (its float64 physical value; the raw value itself under the unit pair) is restored to `p` -/
theorem restoreField_exact (f : Field) (b : FieldBase) (ty : IntTy) (hty : ty.bits ≤ 32) (p : Nat)
    (hp : p < 2 ^ ty.bits) (hbt : tgtOfBaseType b.baseType = some (.int ty)) (h : InRangePair b.scale b.offset)
    (hv : f.value = applyValue (scalarV ty p) b.scale b.offset) :
    restoreField D f b = { f with value := scalarV ty p } := by
  rcases h with h | ⟨hs, ho⟩
  · obtain ⟨_, _, _, _, _, hu, _⟩ := pairOK_spec _ _ h
    rw [applyValue_scalarV ty p _ _ hu] at hv
    simp only [restoreField, call_of_pairOK _ _ h, if_true, hv, Validator.discardValue, D]
    rw [(discardValue_exact ty hty p hp b.baseType b.scale b.offset hbt (Or.inl h)).1]
  · rw [hs, ho, applyValue_unit] at hv
    have : (scaleNotOne b.scale || offsetNotZero b.offset) = false := by rw [hs, ho]; exact no_call_unit
    simp only [restoreField, this, Bool.false_eq_true, if_false]
    cases f; simp_all

/-- the raw value is left alone by the restoration step -/
theorem restoreField_raw (D' : Discard) (f : Field) (b : FieldBase) (ty : IntTy) (p : Nat) (hv : f.value = scalarV ty p) :
    restoreField D' f b = f := by
  unfold restoreField
  split
  · rw [hv, scalarV_not_f64]; cases f; simp_all
  · rfl

/-! ### the regenerated standard factory lies in C12's range -/

/-- an entry of the regenerated factory carries the unit pair, or a pair in C12's range on an integer base type of at
most 32 bits -/
def entryOK (e : Nat × Nat × Nat × Nat × Nat) : Bool :=
  (e.2.2.2.1 == oneBits && e.2.2.2.2 == 0) ||
  (pairOK e.2.2.2.1 e.2.2.2.2 && match tgtOfBaseType e.2.2.1 with
    | some (.int ty) => decide (ty.bits ≤ 32)
    | _ => false)

set_option maxRecDepth 100000 in
theorem stdFields_ok : Fit.Gen.VF.stdFields.all entryOK = true := by decide +kernel

/-- what `stdFactory` answers is an entry of the table -/
theorem stdFactory_known (mn fn : Nat) (h : (stdFactory mn fn).nameKnown = true) :
    (mn, fn, (stdFactory mn fn).baseType, (stdFactory mn fn).scale, (stdFactory mn fn).offset) ∈ Fit.Gen.VF.stdFields := by
  unfold stdFactory at h ⊢
  cases hf : Fit.Gen.VF.stdFields.find? (fun e => e.1 == mn && e.2.1 == fn) with
  | none => simp [hf] at h
  | some e =>
    have hm := List.mem_of_find?_eq_some hf
    have hp := List.find?_some hf
    simp only [Bool.and_eq_true, beq_iff_eq] at hp
    obtain ⟨a, b, c, d, g⟩ := e
    simp only at hp
    obtain ⟨rfl, rfl⟩ := hp
    exact hm

/-- every field the standard factory knows: unit pair, or an in-range pair on an integer type of at most 32 bits -/
theorem stdFactory_inrange (mn fn : Nat) (h : (stdFactory mn fn).nameKnown = true) :
    ((stdFactory mn fn).scale = oneBits ∧ (stdFactory mn fn).offset = 0) ∨
    (pairOK (stdFactory mn fn).scale (stdFactory mn fn).offset = true ∧
      ∃ ty : IntTy, tgtOfBaseType (stdFactory mn fn).baseType = some (.int ty) ∧ ty.bits ≤ 32) := by
  have hm := stdFactory_known mn fn h
  have := (List.all_eq_true.mp stdFields_ok) _ hm
  simp only [entryOK, Bool.or_eq_true, Bool.and_eq_true, beq_iff_eq] at this
  rcases this with h1 | ⟨h1, h2⟩
  · exact Or.inl h1
  · right
    refine ⟨h1, ?_⟩
    cases ht : tgtOfBaseType (stdFactory mn fn).baseType with
    | none => simp [ht] at h2
    | some t =>
      cases t with
      | int ty => exact ⟨ty, rfl, by simpa [ht] using h2⟩
      | f32 => simp [ht] at h2
      | f64 => simp [ht] at h2

/-! ### the scale (uint8) and offset (int8) of a field description lie in C12's range -/

def scaleOK (s : Nat) : Bool :=
  decide (s < 2 ^ 64) && match decode s with
  | .fin false m e => decide (2 ^ 52 ≤ m) && decide (m < 2 ^ 53) && decide (-53 ≤ e) && decide (e ≤ -36)
  | _ => false

def offOK (o : Nat) : Bool :=
  decide (o < 2 ^ 64) && match decode o with
  | .fin _ mo eo => (mo == 0 || (decide (mo < 2 ^ 53) && decide (eo ≤ -43)))
  | _ => false

theorem rangeOK_split (s o : Nat) : rangeOK s o = (scaleOK s && offOK o) := by
  unfold rangeOK scaleOK offOK
  cases hs : decode s with
  | nan => simp
  | inf _ => simp
  | fin ss m e =>
    cases ss <;> cases ho : decode o <;> simp <;> (try grind)

theorem descScales_ok : ∀ s < 254, scaleOK (f64OfNat (s + 1)) = true ∧ feq (f64OfNat (s + 1)) oneBits = decide (s = 0) := by
  decide +kernel

theorem descOffsets_ok : ∀ o < 256, offOK (f64OfInt8 o) = true ∧ feq (f64OfInt8 o) 0 = decide (o = 0) := by
  decide +kernel

/-- `float64(scale)`, `float64(offset)` of a field description with scale 1..254 and any int8 offset: in range -/
theorem desc_inrange (sc off : Nat) (h1 : 1 ≤ sc) (h2 : sc ≤ 254) (h3 : off < 256) :
    InRangePair (f64OfNat sc) (f64OfInt8 off) := by
  obtain ⟨k, rfl⟩ : ∃ k, sc = k + 1 := ⟨sc - 1, by omega⟩
  obtain ⟨hs1, hs2⟩ := descScales_ok k (by omega)
  obtain ⟨ho1, ho2⟩ := descOffsets_ok off h3
  by_cases hu : k = 0 ∧ off = 0
  · right
    obtain ⟨rfl, rfl⟩ := hu
    exact ⟨by decide, by decide⟩
  · left
    simp only [pairOK, rangeOK_split, hs1, ho1, Bool.and_self, isUnit, hs2, ho2, Bool.true_and, Bool.not_eq_true',
      Bool.and_eq_false_iff, decide_eq_false_iff_not]
    omega

/-! ### developer fields -/

theorem devValue_raw (D' : Discard) (ty : IntTy) (p bt s o : Nat) :
    Validator.discardValue D' (scalarV ty p) bt s o = scalarV ty p := scalarV_not_f64 ty p D' bt s o

/-- value-level core of both developer-field branches: `discardValue D` on what `ApplyValue` made of the raw value -/
theorem discard_apply_exact (ty : IntTy) (hty : ty.bits ≤ 32) (p : Nat) (hp : p < 2 ^ ty.bits) (bt s o : Nat)
    (hbt : tgtOfBaseType bt = some (.int ty)) (h : InRangePair s o) :
    Validator.discardValue D (applyValue (scalarV ty p) s o) bt s o = scalarV ty p := by
  rcases h with h | ⟨rfl, rfl⟩
  · obtain ⟨_, _, _, _, _, hu, _⟩ := pairOK_spec _ _ h
    rw [applyValue_scalarV ty p _ _ hu]
    simp only [Validator.discardValue, D]
    exact (discardValue_exact ty hty p hp bt s o hbt (Or.inl h)).1
  · rw [applyValue_unit]; exact scalarV_not_f64 ty p D bt _ _

/-- **native-field override, resolved through the regenerated profile.** A developer field whose description names a
native field the standard factory knows, holding what `ApplyValue` makes of the raw value `p` under that field's scale
and offset, is restored to `p` — no hypothesis on the pair: the regenerated table is in range (`stdFields_ok`). -/
theorem restoreDev_native_exact (om : Bool) (fd : FieldDesc) (d : DevField)
    (hn : (fd.nativeMesgNum != mesgNumInvalid && fd.nativeFieldNum != uint8Invalid) = true)
    (hk : (stdFactory fd.nativeMesgNum fd.nativeFieldNum).nameKnown = true)
    (ty : IntTy) (hty : ty.bits ≤ 32)
    (hbt : tgtOfBaseType (stdFactory fd.nativeMesgNum fd.nativeFieldNum).baseType = some (.int ty))
    (p : Nat) (hp : p < 2 ^ ty.bits)
    (hv : d.value = applyValue (scalarV ty p) (stdFactory fd.nativeMesgNum fd.nativeFieldNum).scale
      (stdFactory fd.nativeMesgNum fd.nativeFieldNum).offset) :
    restoreDev D (stdOptions om) fd d = { d with value := scalarV ty p } := by
  simp only [restoreDev, hn, if_true, stdOptions, hk, Bool.true_and]
  rcases stdFactory_inrange _ _ hk with ⟨hs, ho⟩ | ⟨hpo, _⟩
  · have : (scaleNotOne (stdFactory fd.nativeMesgNum fd.nativeFieldNum).scale ||
        offsetNotZero (stdFactory fd.nativeMesgNum fd.nativeFieldNum).offset) = false := by
      rw [hs, ho]; exact no_call_unit
    rw [hs, ho, applyValue_unit] at hv
    simp only [this, Bool.false_eq_true, if_false]
    cases d; simp_all
  · simp only [call_of_pairOK _ _ hpo, if_true, hv]
    rw [discard_apply_exact ty hty p hp _ _ _ hbt (Or.inl hpo)]

/-- **the description's own scale and offset** (no native field): scale 1..254, any valid int8 offset -/
theorem restoreDev_desc_exact (o : Options) (fd : FieldDesc) (d : DevField)
    (hn : (fd.nativeMesgNum != mesgNumInvalid && fd.nativeFieldNum != uint8Invalid) = false)
    (hs1 : 1 ≤ fd.scale) (hs2 : fd.scale ≤ 254) (ho : fd.offset < 256) (ho' : fd.offset ≠ sint8Invalid)
    (ty : IntTy) (hty : ty.bits ≤ 32) (hbt : tgtOfBaseType fd.btId = some (.int ty)) (p : Nat) (hp : p < 2 ^ ty.bits)
    (hv : d.value = applyValue (scalarV ty p) (f64OfNat fd.scale) (f64OfInt8 fd.offset)) :
    restoreDev D o fd d = { d with value := scalarV ty p } := by
  have h255 : (fd.scale != uint8Invalid && fd.offset != sint8Invalid) = true := by
    have : uint8Invalid = 255 := rfl
    simp only [Bool.and_eq_true, bne_iff_ne, ne_eq, this]
    exact ⟨by omega, ho'⟩
  simp only [restoreDev, hn, Bool.false_eq_true, if_false, h255, if_true, hv]
  rw [discard_apply_exact ty hty p hp _ _ _ hbt (desc_inrange fd.scale fd.offset hs1 hs2 ho)]

/-! ### a whole message: physical values validate to what the raw values validate to -/

/-- a field of the profile's kind: `FieldBase`, Go integer type of the base type, raw value -/
structure Scaled where
  b : FieldBase
  ty : IntTy
  p : Nat

def Scaled.OK (s : Scaled) : Prop :=
  s.ty.bits ≤ 32 ∧ tgtOfBaseType s.b.baseType = some (.int s.ty) ∧ InRangePair s.b.scale s.b.offset ∧ s.p < 2 ^ s.ty.bits

/-- the field as a caller who thinks in physical units hands it to the encoder: `ApplyValue` of the raw value -/
def Scaled.phys (s : Scaled) : Field := ⟨some s.b, applyValue (scalarV s.ty s.p) s.b.scale s.b.offset, false⟩
/-- … and as a caller who hands over raw values -/
def Scaled.raw (s : Scaled) : Field := ⟨some s.b, scalarV s.ty s.p, false⟩

theorem restore_phys (s : Scaled) (h : s.OK) : restoreField D s.phys s.b = s.raw := by
  obtain ⟨h1, h2, h3, h4⟩ := h
  rw [restoreField_exact s.phys s.b s.ty h1 s.p h4 h2 h3 rfl]; rfl

theorem restore_raw (s : Scaled) : restoreField D s.raw s.b = s.raw :=
  restoreField_raw D s.raw s.b s.ty s.p rfl

theorem validateFields_phys_eq_raw (o : Options) : ∀ (ss : List Scaled) (n : Nat), (∀ s ∈ ss, s.OK) →
    validateFields D o (ss.map Scaled.phys) n = validateFields D o (ss.map Scaled.raw) n := by
  intro ss
  induction ss with
  | nil => intro _ _; rfl
  | cons s ss ih =>
    intro n h
    have hs := h s (by simp)
    have ih' := fun k => ih k (fun x hx => h x (List.mem_cons_of_mem _ hx))
    simp only [List.map_cons, validateFields]
    have e1 : s.phys.base = some s.b := rfl
    have e2 : s.raw.base = some s.b := rfl
    have e3 : s.phys.isExpanded = false := rfl
    have e4 : s.raw.isExpanded = false := rfl
    simp only [e1, e2, e3, e4, Bool.false_eq_true, if_false, restore_phys s hs, restore_raw s, ih']

/-! ### the two models of validator.go:113 agree -/

theorem key_one : key oneBits = (oneBits : Int) := by decide +kernel

theorem feq_one (s : Nat) (hs : s < 2 ^ 64) : feq s oneBits = decide (s = oneBits) := by
  by_cases h : s = oneBits
  · subst h; decide +kernel
  · simp only [h, decide_false]
    have hk : key s ≠ key oneBits := by
      rw [key_one]
      unfold key oneBits at *
      simp only
      split <;> omega
    simp [feq, hk]

theorem feq_zero (o : Nat) (ho : o < 2 ^ 64) : feq o 0 = decide (o % 2 ^ 63 = 0) := by
  by_cases h : o % 2 ^ 63 = 0
  · have : o = 0 ∨ o = 2 ^ 63 := by omega
    rcases this with rfl | rfl <;> decide +kernel
  · simp only [h, decide_false]
    have hk : key o ≠ key 0 := by
      have : key 0 = 0 := by decide +kernel
      rw [this]
      unfold key
      simp only
      split <;> omega
    simp [feq, hk]

/-- the two models of validator.go:113 agree: `Validator.restoreField` with `DiscardValue` inside is
`ScaleOffset.validatorRestore` (the function `C12_validator` is about) -/
theorem restoreField_eq_validatorRestore (f : Field) (b : FieldBase) (hs : b.scale < 2 ^ 64) (ho : b.offset < 2 ^ 64) :
    restoreField D f b = { f with value := validatorRestore f.value b.baseType b.scale b.offset } := by
  have h1 : scaleNotOne b.scale = !(feq b.scale oneBits) := by
    rw [feq_one _ hs]; simp only [scaleNotOne, f64One_eq, bne]; congr 1
  have h2 : offsetNotZero b.offset = !(feq b.offset 0) := by
    rw [feq_zero _ ho]; simp only [offsetNotZero, bne]; congr 1
  unfold restoreField validatorRestore
  rw [h1, h2]
  split
  · congr 1
    unfold Validator.discardValue D
    cases hv : f.value <;> rfl
  · cases f; rfl
end Fit.ValidatorA
