import FitModel.Bits
import FitModel.Physical
import Mathlib.Tactic.SplitIfs
import Mathlib.Tactic.NormNum
import Mathlib.Tactic.Ring
import Mathlib.Tactic.Linarith
/-!
Lemmas about the bit store of decoder/bits.go (`FitModel/Bits.lean`): `Pull` of `n` bits returns the low `n` bits of
the natural number the store denotes and leaves the store denoting that number shifted right by `n`.
-/
namespace Fit.Bits
open Fit.Physical

/-- every word is a uint64 -/
def WF (ws : List Nat) : Prop := ∀ w ∈ ws, w < W

theorem W_eq (n : Nat) (hn : n ≤ 64) : W = 2 ^ (64 - n) * 2 ^ n := by
  unfold W; rw [← Nat.pow_add]; congr 1; omega

theorem and_mask (w n : Nat) (hw : w < W) (hn : n ≤ 64) : w &&& mask n = w % 2 ^ n := by
  unfold mask
  split_ifs with h
  · have : n = 64 := by omega
    subst this
    have : W - 1 = 2 ^ 64 - 1 := rfl
    rw [this, Nat.and_two_pow_sub_one_eq_mod]
  · exact Nat.and_two_pow_sub_one_eq_mod w n

theorem shlTop_eq (hi n : Nat) (hn : n ≤ 64) (hhi : hi < 2 ^ n) : shlTop hi n = hi * 2 ^ (64 - n) := by
  unfold shlTop
  by_cases h0 : n = 0
  · subst h0
    have : hi = 0 := by simpa using hhi
    subst this; simp
  · have hsh : (64 + 256 - n % 256) % 256 = 64 - n := by omega
    have hlt : ¬ (64 - n ≥ 64) := by omega
    simp only [hsh, hlt, if_false, Nat.shiftLeft_eq]
    apply Nat.mod_eq_of_lt
    calc hi * 2 ^ (64 - n) < 2 ^ n * 2 ^ (64 - n) := Nat.mul_lt_mul_of_pos_right hhi (by positivity)
      _ = W := by rw [W_eq n hn]; ring

/-- the `continue` on a zero word is the general step (it only skips work) -/
theorem pullLoop_cons (n prev w : Nat) (rest : List Nat) (hn : n ≤ 64) :
    pullLoop n prev (w :: rest) = (prev ||| shlTop (w &&& mask n) n) :: pullLoop n (w >>> n) rest := by
  rw [pullLoop]
  split_ifs with h
  · subst h
    have : shlTop (0 &&& mask n) n = 0 := by
      simp only [Nat.zero_and]
      unfold shlTop; simp
    rw [this]; simp
  · rfl

theorem pullLoop_toNat (n : Nat) (hn : n ≤ 64) (ws : List Nat) (hws : WF ws) (prev : Nat)
    (hprev : prev < 2 ^ (64 - n)) : toNat (pullLoop n prev ws) = prev + 2 ^ (64 - n) * toNat ws := by
  induction ws generalizing prev with
  | nil => simp [pullLoop, toNat]
  | cons w rest ih =>
    have hw : w < W := hws w (by simp)
    have hrest : WF rest := fun x hx => hws x (by simp [hx])
    rw [pullLoop_cons n prev w rest hn]
    simp only [toNat]
    rw [and_mask w n hw hn, shlTop_eq _ n hn (Nat.mod_lt _ (by positivity))]
    have hshift : w >>> n < 2 ^ (64 - n) := by
      rw [Nat.shiftRight_eq_div_pow]
      apply Nat.div_lt_of_lt_mul
      rw [Nat.mul_comm, ← W_eq n hn]; exact hw
    rw [ih hrest (w >>> n) hshift, Nat.shiftRight_eq_div_pow]
    -- disjoint bits: prev < 2^(64-n) and the other operand is a multiple of 2^(64-n)
    have hor : prev ||| w % 2 ^ n * 2 ^ (64 - n) = w % 2 ^ n * 2 ^ (64 - n) + prev := by
      rw [← Nat.shiftLeft_eq, Nat.or_comm]
      exact (Nat.shiftLeft_add_eq_or_of_lt hprev _).symm
    rw [hor]
    have hW := W_eq n hn
    have hdm := Nat.div_add_mod w (2 ^ n)
    generalize 2 ^ (64 - n) = A at *
    generalize 2 ^ n = B at *
    generalize w / B = q at *
    generalize w % B = r at *
    rw [hW, ← hdm]; ring

/-- **pull_refines.** For a store of uint64 words (any number of them — the decoder uses 32) and a bit size
`n ≤ 64`: the store left behind denotes the old number shifted right by `n`; for `n ≤ 32` (every component of the
profile) the returned uint32 is the old number modulo 2^n. -/
theorem pull_refines (ws : List Nat) (hws : WF ws) (n : Nat) (hn : n ≤ 64) :
    toNat (pull ws n).2 = toNat ws / 2 ^ n ∧ (n ≤ 32 → (pull ws n).1 = toNat ws % 2 ^ n) := by
  cases ws with
  | nil => simp [pull, toNat]
  | cons w rest =>
    have hw : w < W := hws w (by simp)
    have hrest : WF rest := fun x hx => hws x (by simp [hx])
    have hshift : w >>> n < 2 ^ (64 - n) := by
      rw [Nat.shiftRight_eq_div_pow]
      apply Nat.div_lt_of_lt_mul
      rw [Nat.mul_comm, ← W_eq n hn]; exact hw
    have hW := W_eq n hn
    constructor
    · simp only [pull, toNat]
      rw [pullLoop_toNat n hn rest hrest _ hshift, Nat.shiftRight_eq_div_pow, hW]
      have hp : 0 < 2 ^ n := by positivity
      rw [Nat.mul_assoc, Nat.mul_comm (2 ^ n), ← Nat.mul_assoc, Nat.add_mul_div_right _ _ hp]
    · intro h32
      simp only [pull, toNat]
      rw [and_mask w n hw hn, hW]
      have h1 : w % 2 ^ n < 2 ^ 32 :=
        lt_of_lt_of_le (Nat.mod_lt _ (by positivity)) (Nat.pow_le_pow_right (by norm_num) h32)
      rw [Nat.mod_eq_of_lt h1]
      rw [Nat.mul_assoc, Nat.mul_comm (2 ^ n), ← Nat.mul_assoc, Nat.add_mul_mod_self_right]

/-- successive pulls walk through the number from its least significant bit: after pulling `n₁` then `n₂` bits the
second value is bits `n₁ … n₁+n₂−1` -/
theorem pull_pull (ws : List Nat) (hws : WF ws) (n1 n2 : Nat) (h1 : n1 ≤ 32) (h2 : n2 ≤ 32)
    (hwf : WF (pull ws n1).2) :
    (pull (pull ws n1).2 n2).1 = toNat ws / 2 ^ n1 % 2 ^ n2 := by
  have a := pull_refines ws hws n1 (by omega)
  have b := pull_refines (pull ws n1).2 hwf n2 (by omega)
  rw [b.2 h2, a.1]

/-! ### the store of an array -/

theorem toNat_append (a b : List Nat) : toNat (a ++ b) = toNat a + W ^ a.length * toNat b := by
  induction a with
  | nil => simp [toNat]
  | cons x xs ih => simp only [List.cons_append, toNat, ih, List.length_cons]; ring

theorem toNat_zeros (zs : List Nat) (h : ∀ z ∈ zs, z = 0) : toNat zs = 0 := by
  induction zs with
  | nil => rfl
  | cons z zs ih =>
    have : z = 0 := h z (by simp)
    simp [toNat, this, ih (fun y hy => h y (by simp [hy]))]

theorem set_mid (done : List Nat) (cur w : Nat) (zs : List Nat) :
    (done ++ cur :: zs).set done.length w = done ++ w :: zs := by
  induction done with
  | nil => rfl
  | cons x xs ih => simp [ih]

theorem getD_mid (done : List Nat) (cur : Nat) (zs : List Nat) :
    (done ++ cur :: zs).getD done.length 0 = cur := by
  induction done with
  | nil => rfl
  | cons x xs ih => simpa using ih

theorem catLE_cons (w x : Nat) (xs : List Nat) : catLE w (x :: xs) = x % 2 ^ w + 2 ^ w * catLE w xs := rfl

theorem go_spec (size : Nat) (hsize : size = 1 ∨ size = 2 ∨ size = 4 ∨ size = 8) :
    ∀ (es done : List Nat) (cur pos : Nat) (zs : List Nat),
      done.length + 1 + zs.length = 32 → (∀ z ∈ zs, z = 0) → cur < 2 ^ (8 * pos) → size ∣ pos → pos < 8 →
      (∀ e ∈ es, e < 2 ^ (8 * size)) → 8 * pos + 8 * size * es.length ≤ 64 * (32 - done.length) →
      toNat (storeFromSlice.go size es done.length pos (done ++ cur :: zs)) =
        toNat done + W ^ done.length * (cur + 2 ^ (8 * pos) * catLE (8 * size) es) := by
  intro es
  induction es with
  | nil =>
    intro done cur pos zs _ hz _ _ _ _ _
    simp only [storeFromSlice.go, catLE, Nat.mul_zero, Nat.add_zero]
    rw [toNat_append]; simp only [toNat, toNat_zeros zs hz]; ring
  | cons e es ih =>
    intro done cur pos zs hlen hz hcur hdvd hpos hes hcap
    have he : e < 2 ^ (8 * size) := hes e (by simp)
    have hes' : ∀ x ∈ es, x < 2 ^ (8 * size) := fun x hx => hes x (by simp [hx])
    have hidx : ¬ (done.length ≥ nWords) := by unfold nWords; omega
    have hps : pos + size ≤ 8 := by
      obtain ⟨j, hj⟩ := hdvd
      rcases hsize with rfl | rfl | rfl | rfl <;> omega
    have hmod : (pos + size) % 256 = pos + size := by omega
    -- the new word
    have hshift : (e <<< (pos * 8)) % W = e * 2 ^ (8 * pos) := by
      rw [Nat.shiftLeft_eq, Nat.mul_comm pos 8]
      apply Nat.mod_eq_of_lt
      calc e * 2 ^ (8 * pos) < 2 ^ (8 * size) * 2 ^ (8 * pos) := Nat.mul_lt_mul_of_pos_right he (by positivity)
        _ = 2 ^ (8 * size + 8 * pos) := by rw [← Nat.pow_add]
        _ ≤ W := by unfold W; exact Nat.pow_le_pow_right (by norm_num) (by omega)
    have hor : cur ||| e * 2 ^ (8 * pos) = cur + e * 2 ^ (8 * pos) := by
      rw [Nat.or_comm, ← Nat.shiftLeft_eq, ← Nat.shiftLeft_add_eq_or_of_lt hcur, Nat.add_comm]
    have hw : cur + e * 2 ^ (8 * pos) < 2 ^ (8 * (pos + size)) := by
      have : e * 2 ^ (8 * pos) + 2 ^ (8 * pos) ≤ 2 ^ (8 * size) * 2 ^ (8 * pos) := by
        have : e + 1 ≤ 2 ^ (8 * size) := he
        calc e * 2 ^ (8 * pos) + 2 ^ (8 * pos) = (e + 1) * 2 ^ (8 * pos) := by ring
          _ ≤ 2 ^ (8 * size) * 2 ^ (8 * pos) := Nat.mul_le_mul_right _ this
      have e2 : 2 ^ (8 * size) * 2 ^ (8 * pos) = 2 ^ (8 * (pos + size)) := by rw [← Nat.pow_add]; congr 1; ring
      omega
    have hwW : cur + e * 2 ^ (8 * pos) < W := by
      have : 2 ^ (8 * (pos + size)) ≤ W := by unfold W; exact Nat.pow_le_pow_right (by norm_num) (by omega)
      omega
    have hemod : e % 2 ^ (8 * size) = e := Nat.mod_eq_of_lt he
    rw [storeFromSlice.go]
    simp only [hidx, if_false, getD_mid, set_mid, hshift, hor, Nat.mod_eq_of_lt hwW, hmod]
    by_cases h8 : pos + size = 8
    · simp only [h8, if_true]
      have hW8 : 2 ^ (8 * pos) * 2 ^ (8 * size) = W := by
        unfold W; rw [← Nat.pow_add]; congr 1; omega
      cases es with
      | nil =>
        simp only [storeFromSlice.go, catLE_cons, catLE, hemod, Nat.mul_zero, Nat.add_zero]
        rw [toNat_append]; simp only [toNat, toNat_zeros zs hz]; ring
      | cons e2 es2 =>
        -- another word must exist
        cases zs with
        | nil =>
          exfalso
          simp only [List.length_cons, List.length_nil] at hlen hcap
          rcases hsize with rfl | rfl | rfl | rfl <;> omega
        | cons z zs' =>
          have hz0 : z = 0 := hz z (by simp)
          subst hz0
          have hrw : done ++ (cur + e * 2 ^ (8 * pos)) :: 0 :: zs' = (done ++ [cur + e * 2 ^ (8 * pos)]) ++ 0 :: zs' := by simp
          have hl : done.length + 1 = (done ++ [cur + e * 2 ^ (8 * pos)]).length := by simp
          rw [hrw, hl]
          rw [ih (done ++ [cur + e * 2 ^ (8 * pos)]) 0 0 zs' (by simp at hlen ⊢; omega)
            (fun y hy => hz y (by simp [hy])) (by norm_num) (dvd_zero _) (by norm_num) hes'
            (by simp only [List.length_cons, List.length_append, List.length_nil] at hcap hlen ⊢
                rcases hsize with rfl | rfl | rfl | rfl <;> omega)]
          rw [toNat_append]
          simp only [toNat, List.length_append, List.length_singleton, catLE_cons, hemod, Nat.mul_zero, pow_zero,
            Nat.one_mul, Nat.zero_add, Nat.mul_zero, Nat.add_zero]
          rw [pow_succ, ← hW8]; ring
    · simp only [h8, if_false]
      have hpos' : pos + size < 8 := by omega
      rw [ih done (cur + e * 2 ^ (8 * pos)) (pos + size) zs hlen hz hw
        (by obtain ⟨j, hj⟩ := hdvd; subst hj; exact Dvd.intro (j + 1) (by ring)) hpos' hes'
        (by simp only [List.length_cons] at hcap ⊢
            rcases hsize with rfl | rfl | rfl | rfl <;> omega)]
      simp only [catLE_cons, hemod]
      have : 2 ^ (8 * (pos + size)) = 2 ^ (8 * pos) * 2 ^ (8 * size) := by rw [← Nat.pow_add]; congr 1; ring
      rw [this]; ring

theorem go_wf (size : Nat) : ∀ (es : List Nat) (index pos : Nat) (store : List Nat), WF store →
    WF (storeFromSlice.go size es index pos store) := by
  intro es
  induction es with
  | nil => intro _ _ store h; simpa [storeFromSlice.go] using h
  | cons e es ih =>
    intro index pos store h
    rw [storeFromSlice.go]
    by_cases hi : index ≥ nWords
    · simp only [hi, if_true]; exact h
    · simp only [hi, if_false]
      have hset : WF (store.set index ((store.getD index 0 ||| e <<< (pos * 8) % W) % W)) := by
        intro w hw
        rcases List.mem_or_eq_of_mem_set hw with h1 | h1
        · exact h w h1
        · rw [h1]; exact Nat.mod_lt _ (by unfold W; positivity)
      split_ifs <;> exact ih _ _ _ hset

/-- **store_of_slice.** For an array of `size`-byte unsigned elements (size 1, 2, 4 or 8) that fits the 256 bytes of the
store, the store denotes the little-endian concatenation of the elements (element 0 least significant) and all its words
are uint64. -/
theorem store_of_slice (size : Nat) (hsize : size = 1 ∨ size = 2 ∨ size = 4 ∨ size = 8) (es : List Nat)
    (hes : ∀ e ∈ es, e < 2 ^ (8 * size)) (hcap : size * es.length ≤ 256) :
    toNat (storeFromSlice es size) = catLE (8 * size) es ∧ WF (storeFromSlice es size) := by
  constructor
  · have h := go_spec size hsize es [] 0 0 (List.replicate 31 0) (by simp) (by simp) (by norm_num) (dvd_zero _)
      (by norm_num) hes (by simp; nlinarith)
    have e0 : zeroStore = [] ++ 0 :: List.replicate 31 0 := by decide
    unfold storeFromSlice
    rw [e0]
    simpa [toNat] using h
  · unfold storeFromSlice
    apply go_wf
    intro w hw
    have : w = 0 := by
      unfold zeroStore at hw; exact List.eq_of_mem_replicate hw
    rw [this]; unfold W; positivity

theorem catLE_mod (w : Nat) (xs : List Nat) : catLE w (xs.map (· % 2 ^ w)) = catLE w xs := by
  induction xs with
  | nil => rfl
  | cons x xs ih => simp only [List.map_cons, catLE, ih, Nat.mod_mod]

/-- **the store of a value is its containing number**: for every unsigned scalar and every array of unsigned elements
that fits the store, `makeBits` yields a store that denotes `containerNat` of the value (the abstract "containing value
as one natural number" of the specification). Signed elements are sign-extended into the neighbouring bits by the Go
code (`uint64(int8)`), and are outside this statement — no container of the profile is signed. -/
theorem makeBits_container (v : Value.Value) (ws : List Nat) (h : makeBits v = some ws)
    (hv : match v with
      | .uint8 _ | .uint16 _ | .uint32 _ | .uint64 _ => True
      | .sliceUint8 xs => xs.length ≤ 256 | .sliceUint16 xs => 2 * xs.length ≤ 256
      | .sliceUint32 xs => 4 * xs.length ≤ 256 | .sliceUint64 xs => 8 * xs.length ≤ 256
      | _ => False) :
    some (toNat ws) = containerNat v ∧ WF ws := by
  have scal : ∀ x b, b ≤ 64 → toNat (scalarStore (x % 2 ^ b)) = x % 2 ^ b ∧ WF (scalarStore (x % 2 ^ b)) := by
    intro x b hb
    have hlt : x % 2 ^ b < W :=
      lt_of_lt_of_le (Nat.mod_lt _ (by positivity)) (by unfold W; exact Nat.pow_le_pow_right (by norm_num) hb)
    unfold scalarStore
    rw [Nat.mod_eq_of_lt hlt]
    constructor
    · simp only [toNat]
      rw [toNat_zeros _ (fun z hz => List.eq_of_mem_replicate hz)]; ring
    · intro w hw
      rcases List.mem_cons.mp hw with h1 | h1
      · rw [h1]; exact hlt
      · rw [List.eq_of_mem_replicate h1]; unfold W; positivity
  cases v <;> simp only [makeBits, Option.some.injEq] at h hv <;> try (exact False.elim hv)
  all_goals subst h
  · obtain ⟨a, b⟩ := scal _ 8 (by norm_num); exact ⟨by rw [a]; rfl, b⟩
  · obtain ⟨a, b⟩ := scal _ 16 (by norm_num); exact ⟨by rw [a]; rfl, b⟩
  · obtain ⟨a, b⟩ := scal _ 32 (by norm_num); exact ⟨by rw [a]; rfl, b⟩
  · rename_i x
    have := scal x 64 (by norm_num)
    have e : x % 2 ^ 64 = x % W := rfl
    unfold scalarStore at this ⊢
    have e2 : x % 2 ^ 64 % W = x % W := by rw [e, Nat.mod_mod]
    rw [e2] at this
    exact ⟨by rw [this.1]; rfl, this.2⟩
  · rename_i xs
    obtain ⟨a, b⟩ := store_of_slice 1 (by simp) (xs.map (· % 2 ^ 8))
      (by intro e he; obtain ⟨x, _, rfl⟩ := List.mem_map.mp he; exact Nat.mod_lt _ (by positivity)) (by simpa using hv)
    exact ⟨by rw [a]; simp only [Nat.mul_one]; rw [catLE_mod]; rfl, b⟩
  · rename_i xs
    obtain ⟨a, b⟩ := store_of_slice 2 (by simp) (xs.map (· % 2 ^ 16))
      (by intro e he; obtain ⟨x, _, rfl⟩ := List.mem_map.mp he; exact Nat.mod_lt _ (by positivity)) (by simpa using hv)
    exact ⟨by rw [a]; rw [show 8 * 2 = 16 by rfl, catLE_mod]; rfl, b⟩
  · rename_i xs
    obtain ⟨a, b⟩ := store_of_slice 4 (by simp) (xs.map (· % 2 ^ 32))
      (by intro e he; obtain ⟨x, _, rfl⟩ := List.mem_map.mp he; exact Nat.mod_lt _ (by positivity)) (by simpa using hv)
    exact ⟨by rw [a]; rw [show 8 * 4 = 32 by rfl, catLE_mod]; rfl, b⟩
  · rename_i xs
    obtain ⟨a, b⟩ := store_of_slice 8 (by simp) (xs.map (· % W))
      (by intro e he; obtain ⟨x, _, rfl⟩ := List.mem_map.mp he; exact Nat.mod_lt _ (by unfold W; positivity)) (by simpa using hv)
    exact ⟨by rw [a]; rw [show 8 * 8 = 64 by rfl]; exact congrArg some (catLE_mod 64 xs), b⟩

end Fit.Bits
