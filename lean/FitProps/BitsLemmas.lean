import FitModel.Bits
import Mathlib.Tactic.Ring
import Mathlib.Tactic.Linarith
/-!
Lemmas about the bit store of decoder/bits.go (`FitModel/Bits.lean`): `Pull` of `n` bits returns the low `n` bits of
the natural number the store denotes and leaves the store denoting that number shifted right by `n`.
-/
namespace Fit.Bits

/-- every word is a uint64 -/
def WF (ws : List Nat) : Prop := ∀ w ∈ ws, w < W

theorem W_eq (n : Nat) (hn : n ≤ 64) : W = 2 ^ (64 - n) * 2 ^ n := by
  unfold W; rw [← Nat.pow_add]; congr 1; omega

theorem and_mask (w n : Nat) (hw : w < W) (hn : n ≤ 64) : w &&& mask n = w % 2 ^ n := by
  unfold mask
  split_ifs with h
  · have : n = 64 := by omega
    subst this
    have : W - 1 = 2 ^ 64 - 1 := rfl
    rw [this, Nat.and_two_pow_sub_one_eq_mod]
  · exact Nat.and_two_pow_sub_one_eq_mod w n

theorem shlTop_eq (hi n : Nat) (hn : n ≤ 64) (hhi : hi < 2 ^ n) : shlTop hi n = hi * 2 ^ (64 - n) := by
  unfold shlTop
  by_cases h0 : n = 0
  · subst h0
    have : hi = 0 := by simpa using hhi
    subst this; simp
  · have hsh : (64 + 256 - n % 256) % 256 = 64 - n := by omega
    have hlt : ¬ (64 - n ≥ 64) := by omega
    simp only [hsh, hlt, if_false, Nat.shiftLeft_eq]
    apply Nat.mod_eq_of_lt
    calc hi * 2 ^ (64 - n) < 2 ^ n * 2 ^ (64 - n) := Nat.mul_lt_mul_of_pos_right hhi (by positivity)
      _ = W := by rw [W_eq n hn]; ring

/-- the `continue` on a zero word is the general step (it only skips work) -/
theorem pullLoop_cons (n prev w : Nat) (rest : List Nat) (hn : n ≤ 64) :
    pullLoop n prev (w :: rest) = (prev ||| shlTop (w &&& mask n) n) :: pullLoop n (w >>> n) rest := by
  rw [pullLoop]
  split_ifs with h
  · subst h
    have : shlTop (0 &&& mask n) n = 0 := by
      simp only [Nat.zero_and]
      unfold shlTop; simp
    rw [this]; simp
  · rfl

theorem pullLoop_toNat (n : Nat) (hn : n ≤ 64) (ws : List Nat) (hws : WF ws) (prev : Nat)
    (hprev : prev < 2 ^ (64 - n)) : toNat (pullLoop n prev ws) = prev + 2 ^ (64 - n) * toNat ws := by
  induction ws generalizing prev with
  | nil => simp [pullLoop, toNat]
  | cons w rest ih =>
    have hw : w < W := hws w (by simp)
    have hrest : WF rest := fun x hx => hws x (by simp [hx])
    rw [pullLoop_cons n prev w rest hn]
    simp only [toNat]
    rw [and_mask w n hw hn, shlTop_eq _ n hn (Nat.mod_lt _ (by positivity))]
    have hshift : w >>> n < 2 ^ (64 - n) := by
      rw [Nat.shiftRight_eq_div_pow]
      apply Nat.div_lt_of_lt_mul
      rw [Nat.mul_comm, ← W_eq n hn]; exact hw
    rw [ih hrest (w >>> n) hshift, Nat.shiftRight_eq_div_pow]
    -- disjoint bits: prev < 2^(64-n) and the other operand is a multiple of 2^(64-n)
    have hor : prev ||| w % 2 ^ n * 2 ^ (64 - n) = w % 2 ^ n * 2 ^ (64 - n) + prev := by
      rw [← Nat.shiftLeft_eq, Nat.or_comm]
      exact (Nat.shiftLeft_add_eq_or_of_lt hprev _).symm
    rw [hor]
    have hW := W_eq n hn
    have hdm := Nat.div_add_mod w (2 ^ n)
    generalize 2 ^ (64 - n) = A at *
    generalize 2 ^ n = B at *
    generalize w / B = q at *
    generalize w % B = r at *
    rw [hW, ← hdm]; ring

/-- **pull_refines.** For a store of uint64 words (any number of them — the decoder uses 32) and a bit size
`n ≤ 64`: the store left behind denotes the old number shifted right by `n`; for `n ≤ 32` (every component of the
profile) the returned uint32 is the old number modulo 2^n. -/
theorem pull_refines (ws : List Nat) (hws : WF ws) (n : Nat) (hn : n ≤ 64) :
    toNat (pull ws n).2 = toNat ws / 2 ^ n ∧ (n ≤ 32 → (pull ws n).1 = toNat ws % 2 ^ n) := by
  cases ws with
  | nil => simp [pull, toNat]
  | cons w rest =>
    have hw : w < W := hws w (by simp)
    have hrest : WF rest := fun x hx => hws x (by simp [hx])
    have hshift : w >>> n < 2 ^ (64 - n) := by
      rw [Nat.shiftRight_eq_div_pow]
      apply Nat.div_lt_of_lt_mul
      rw [Nat.mul_comm, ← W_eq n hn]; exact hw
    have hW := W_eq n hn
    constructor
    · simp only [pull, toNat]
      rw [pullLoop_toNat n hn rest hrest _ hshift, Nat.shiftRight_eq_div_pow, hW]
      have hp : 0 < 2 ^ n := by positivity
      rw [Nat.mul_assoc, Nat.mul_comm (2 ^ n), ← Nat.mul_assoc, Nat.add_mul_div_right _ _ hp]
    · intro h32
      simp only [pull, toNat]
      rw [and_mask w n hw hn, hW]
      have h1 : w % 2 ^ n < 2 ^ 32 :=
        lt_of_lt_of_le (Nat.mod_lt _ (by positivity)) (Nat.pow_le_pow_right (by norm_num) h32)
      rw [Nat.mod_eq_of_lt h1]
      rw [Nat.mul_assoc, Nat.mul_comm (2 ^ n), ← Nat.mul_assoc, Nat.add_mul_mod_self_right]

/-- successive pulls walk through the number from its least significant bit: after pulling `n₁` then `n₂` bits the
second value is bits `n₁ … n₁+n₂−1` -/
theorem pull_pull (ws : List Nat) (hws : WF ws) (n1 n2 : Nat) (h1 : n1 ≤ 32) (h2 : n2 ≤ 32)
    (hwf : WF (pull ws n1).2) :
    (pull (pull ws n1).2 n2).1 = toNat ws / 2 ^ n1 % 2 ^ n2 := by
  have a := pull_refines ws hws n1 (by omega)
  have b := pull_refines (pull ws n1).2 hwf n2 (by omega)
  rw [b.2 h2, a.1]

end Fit.Bits
