import FitProps.DecoderApiLemmas
/-!
# C07 — A sequence decodes the same whatever the decoder did before

PROPERTY THEOREMS (audited by ./check): see `theorem C07_*` below.
-/
namespace Fit.C07
open Fit.DecApi

/-- `Clean`: the per-sequence state and the look-ups are those of a decoder just created -/
def Clean (s : St) : Prop := s.q = {} ∧ s.look = {}

/-- From a clean state `Decode` returns what a fresh decoder returns on the same bytes with the same options
(outcome, listener calls, and where the stream stands afterwards). -/
theorem C07_decode_from_clean (s : St) (h : Clean s) : stepDecode s = stepDecode (St.fresh s.o s.rest) := by
  rw [← eq_fresh_of_clean s h.1 h.2]

/-! ### witnesses: the full statement is false on the pinned tree -/

def P : List Nat := [14, 32, 154, 82, 11, 0, 0, 0, 46, 70, 73, 84, 30, 8, 64, 0, 0, 0, 0, 1, 0, 1, 0, 0, 4, 84, 47]
def S : List Nat := [14, 32, 154, 82, 2, 0, 0, 0, 46, 70, 73, 84, 222, 98, 0, 7, 65, 194]
def Q : List Nat := [14, 32, 154, 82, 11, 0, 0, 0, 46, 70, 73, 84, 30, 8, 64, 0, 0, 20, 0, 1, 3, 1, 2, 0, 9, 112, 213]
def B : List Nat := [14, 32, 154, 82, 11, 0, 0, 0, 46, 70, 73, 84, 30, 8, 64, 0, 0, 0, 0, 1, 0, 1, 0, 0, 4, 84, 208]

/-- the outcomes of a run and of the specification agree wherever the specification demands something -/
def Agree (o : Opts) (bytes : List Nat) (ops : List Op) : Prop :=
  ∀ p ∈ (run (Api.fresh o bytes) ops).zip (specRun (Spec.fresh o bytes) ops), ∀ r, p.2 = some r → p.1 = r

instance (o : Opts) (bytes : List Nat) (ops : List Op) : Decidable (Agree o bytes ops) := by
  unfold Agree; infer_instance

/-- F09 (open finding KF-C07-2): `Q` has no file_id message: `PeekFileId` reads past it and `Decode` then rejects a
sequence a fresh decoder accepts. -/
theorem C07_witness_peek_past : ¬ Agree {} (Q ++ P) [.peekFileId, .decode] := by decide

/-- the witnesses of the two repaired defects now meet the specification: F08 (`S` is a data record without
definition; it used to be decoded with `P`'s definition after `PeekFileId` + `Discard` / `Reset`), F10 (a failing
`CheckIntegrity` used to leave the third sequence of the chain in the read buffer) -/
example : Agree {} (P ++ S) [.peekFileId, .discard, .decode] ∧ Agree {} P [.peekFileId, .reset {} S, .decode] ∧
    Agree {} (P ++ B ++ S) [.checkIntegrity, .decode] := by decide

end Fit.C07
