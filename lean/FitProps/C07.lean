import FitProps.DecoderApiHistLemmas
import FitProps.DecoderApiIndepLemmas
import FitProps.DecoderApiDefaultLemmas
import FitProps.DecoderApiTailLemmas
/-!
# C07 — A sequence decodes the same whatever the decoder did before

Specification: `Fit.DecApi.specRun` (FitModel/DecoderApiSpec.lean) says what every API call of a history must return
**using new decoders only** — what `Decode` / `Discard` / `PeekFileHeader` / `PeekFileId` return for the sequence at the
current position is what a decoder just created on exactly those bytes returns: a function of the sequence's bytes and
the options. **Where the next sequence starts does not depend on the operation that consumed the current one**: the
extent of a sequence is fixed by the protocol (`seqExtent`: header + declared data size + 2 CRC bytes). The theorems
relate the decoder object (`Fit.DecApi.run`, the model the driver executes against the real code) to that specification
for every history, every byte stream, every option set and every factory.

OPEN FINDING KF-C07-4: `Decode` lets the last record of a sequence run past the data size its header declares (and reads
the CRC after that record), `Discard` / `CheckIntegrity` skip exactly the declared size, `Discard` after a `PeekFileId`
that already read past it skips only two more bytes. After such a predecessor the decoder's answer for the NEXT
sequence depends on how the predecessor was consumed — the full statement `C07_history_indep_full` is FALSE
(`C07_full_fails`), and `C07_history_indep_partial` carries the decidable hypothesis `NoOverrun`.

PROPERTY THEOREMS (audited by ./check): C07_decode_from_clean, C07_boundary_clean, C07_reset_is_new,
C07_integrity_check_is_new, C07_history_indep_partial, C07_full_fails, C07_overrun_depends_on_op,
C07_rejected_everywhere_partial, C07_decode_ignores_tail, C07_peek_transparent, C07_former_witnesses, C07_default_config_partial
-/
namespace Fit.C07
open Fit.DecApi

/-- `Clean`: the per-sequence state and the look-ups are those of a decoder just created -/
def Clean (s : St) : Prop := s.q = {} ∧ s.look = {}

/-- From a clean state `Decode` returns what a new decoder returns on the same bytes with the same options
(outcome, listener calls, and where the stream stands afterwards). -/
theorem C07_decode_from_clean (s : St) (h : Clean s) : stepDecode s = stepDecode (St.fresh s.o s.rest) := by
  rw [← eq_fresh_of_clean s h.1 h.2]

/-- the results that end a sequence: a decoded FIT, a completed `Discard` / `Reset`, the verdict of `CheckIntegrity` -/
def endsSequence : Out → Bool
  | .fit _ | .done | .integrity _ _ => true
  | _ => false

theorem decodeTail_clean (l : LoopOut) (h : endsSequence (decodeTail l).2.1 = true) : Clean (decodeTail l).1 := by
  obtain ⟨s2, evs, r⟩ := l
  unfold decodeTail at h ⊢
  cases r with
  | ok u =>
    simp only at h ⊢
    cases hc : decodeCRC s2 with
    | ok s3 => exact ⟨rfl, rfl⟩
    | err e => rw [hc] at h; cases h
    | panic => rw [hc] at h; cases h
    | hang => rw [hc] at h; cases h
  | err e => cases h
  | panic => cases h
  | hang => cases h

theorem decodeBody_clean (s : St) (h : endsSequence (decodeBody s).2.1 = true) : Clean (decodeBody s).1 := by
  cases hr : headerOnce s with
  | ok s1 => rw [decodeBody_eq s s1 hr] at h ⊢; exact decodeTail_clean _ h
  | err e => unfold decodeBody at h; rw [hr] at h; cases h
  | panic => unfold decodeBody at h; rw [hr] at h; cases h
  | hang => unfold decodeBody at h; rw [hr] at h; cases h

theorem stepDecode_clean (s : St) (h : endsSequence (stepDecode s).2.1 = true) : Clean (stepDecode s).1 := by
  unfold stepDecode at h ⊢
  cases he : s.q.err with
  | some e => simp only [he] at h; cases h
  | none => simp only [he] at h ⊢; exact decodeBody_clean s h

theorem discardTail_clean (chk : Bool) (s1 : St) (h : endsSequence (discardTail chk s1).2.1 = true) :
    Clean (discardTail chk s1).1 := by
  unfold discardTail at h ⊢
  simp only at h ⊢
  cases hd : discardMessages (fuelOf s1) s1 with
  | ok s2 =>
    rw [hd] at h
    simp only at h ⊢
    cases hr : readN 2 s2 with
    | ok p => exact ⟨rfl, rfl⟩
    | err e => rw [hr] at h; cases h
    | panic => rw [hr] at h; cases h
    | hang => rw [hr] at h; cases h
  | err e => rw [hd] at h; cases h
  | panic => rw [hd] at h; cases h
  | hang => rw [hd] at h; cases h

theorem stepDiscard_clean (s : St) (h : endsSequence (stepDiscard s).2.1 = true) : Clean (stepDiscard s).1 := by
  cases he : s.q.err with
  | some e => unfold stepDiscard at h; rw [he] at h; cases h
  | none =>
    cases hr : headerOnce (noChk s) with
    | ok s1 => rw [stepDiscard_eq s s1 he hr] at h ⊢; exact discardTail_clean _ _ h
    | err e => have := (SameOp.stepDiscard_header_err s he e hr).1; rw [this] at h; cases h
    | panic =>
      have : stepDiscard s = ({ (failHeader (noChk s) (Res.panic : Res St)).1 with
          o := { (failHeader (noChk s) (Res.panic : Res St)).1.o with chk := s.o.chk } }, .panic, []) := by
        unfold stepDiscard; rw [he]; simp only
        show (match headerOnce (noChk s) with | .ok s1 => _ | r => _) = _
        rw [hr]; rfl
      rw [this] at h; cases h
    | hang =>
      have : stepDiscard s = ({ (failHeader (noChk s) (Res.hang : Res St)).1 with
          o := { (failHeader (noChk s) (Res.hang : Res St)).1.o with chk := s.o.chk } }, .hang, []) := by
        unfold stepDiscard; rw [he]; simp only
        show (match headerOnce (noChk s) with | .ok s1 => _ | r => _) = _
        rw [hr]; rfl
      rw [this] at h; cases h

/-- **Every operation that ends at a sequence boundary leaves the decoder clean** — successful `Decode` /
`DecodeWithContext`, `Discard`, `CheckIntegrity` (whatever it found), `Reset`: no definition, no developer data index, no
field description, no accumulated value, no timestamp, no running CRC, no pending error survives (after the repair of
F08 this also holds when a `PeekFileId` came first). -/
theorem C07_boundary_clean (a : Api) (op : Op) (ha : a.d.q.err = none) (h : endsSequence (step a op).2.1 = true) :
    Clean (step a op).1.d := by
  cases op with
  | decode => exact stepDecode_clean a.d h
  | decodeCtx c =>
    have hh : endsSequence (stepDecodeCtx c a.d).2.1 = true := h
    show Clean (stepDecodeCtx c a.d).1
    unfold stepDecodeCtx at hh ⊢
    rw [ha] at hh ⊢
    cases c with
    | true => cases hh
    | false => exact decodeBody_clean a.d hh
  | decodeCtxAt k =>
    have hh : endsSequence (stepDecodeCtxAt k a.d).2.1 = true := h
    show Clean (stepDecodeCtxAt k a.d).1
    unfold stepDecodeCtxAt at hh ⊢
    rw [ha] at hh ⊢
    simp only at hh ⊢
    unfold decodeBodyAt at hh ⊢
    cases hr : headerOnce a.d with
    | ok s1 => rw [hr] at hh; exact decodeTail_clean _ hh
    | err e => rw [hr] at hh; cases hh
    | panic => rw [hr] at hh; cases hh
    | hang => rw [hr] at hh; cases hh
  | peekHeader =>
    have hh : endsSequence (stepPeekHeader a.d).2.1 = true := h
    unfold stepPeekHeader at hh
    simp only [ha] at hh
    cases hr : headerOnce a.d with
    | ok s1 => rw [hr] at hh; cases hh
    | err e => rw [hr] at hh; cases hh
    | panic => rw [hr] at hh; cases hh
    | hang => rw [hr] at hh; cases hh
  | peekFileId =>
    have hh : endsSequence (stepPeekFileId a.d).2.1 = true := h
    unfold stepPeekFileId at hh
    simp only [ha] at hh
    cases hr : headerOnce a.d with
    | ok s1 =>
      rw [hr] at hh
      simp only at hh
      rcases hp : peekLoop (fuelOf s1) s1 with ⟨s2, evs, r⟩
      rw [hp] at hh
      cases r with
      | ok u => cases hh
      | err e => cases hh
      | panic => cases hh
      | hang => cases hh
    | err e => rw [hr] at hh; cases hh
    | panic => rw [hr] at hh; cases hh
    | hang => rw [hr] at hh; cases hh
  | discard => exact stepDiscard_clean a.d h
  | next =>
    have hh : endsSequence (stepNext (a.n == 0) a.d).2.1 = true := h
    unfold stepNext at hh
    simp only [ha] at hh
    split at hh
    · cases hh
    · cases hr : headerOnce a.d with
      | ok s1 => rw [hr] at hh; cases hh
      | err e => rw [hr] at hh; cases hh
      | panic => rw [hr] at hh; cases hh
      | hang => rw [hr] at hh; cases hh
  | checkIntegrity =>
    show Clean (stepCheckIntegrity a).1.d
    have hh : endsSequence (stepCheckIntegrity a).2.1 = true := h
    unfold stepCheckIntegrity at hh ⊢
    simp only [ha] at hh ⊢
    rcases hc : ciLoop (fuelOf a.d) (a.n == 0) 0 { a.d with o := { a.d.o with chk := true } } with ⟨seq, r⟩
    rw [hc] at hh
    cases r with
    | ok u => exact ⟨rfl, rfl⟩
    | err e => exact ⟨rfl, rfl⟩
    | panic => cases hh
    | hang => cases hh
  | reset o b => exact ⟨rfl, rfl⟩

/-- **`Reset` makes the decoder object a new one**, unconditionally: whatever it processed before — sequences decoded,
peeks, failures, sticky errors, other options — after `Reset(r, opts...)` its whole state is that of `decoder.New(r, opts...)`
(nothing leaks into the next reader: no definition, description, accumulated value, timestamp, CRC, error or option). -/
theorem C07_reset_is_new (a : Api) (o : Opts) (bytes : List Nat) : (step a (.reset o bytes)).1 = Api.fresh o bytes := rfl

/-- **`CheckIntegrity` (+ re-seek) on a live decoder makes it a new one on the same stream**, whatever it did before and
whatever the check found (after the repair of F10 also when the check failed in the middle of the stream). -/
theorem C07_integrity_check_is_new (a : Api) (ha : a.d.q.err = none) (hi : Inv a.d) (hw : IsBytes a.whole) :
    (step a .checkIntegrity).1 = Api.fresh a.d.o a.whole := by
  have hg := stepCheckIntegrity_good a ⟨hi, hw⟩
  show (stepCheckIntegrity a).1 = _
  unfold stepCheckIntegrity at hg ⊢
  simp only [ha] at hg ⊢
  rcases hc : ciLoop (fuelOf a.d) (a.n == 0) 0 { a.d with o := { a.d.o with chk := true } } with ⟨seq, r⟩
  rw [hc] at hg
  cases r with
  | ok u => rfl
  | err e => rfl
  | panic => exact absurd rfl hg.1
  | hang => exact absurd rfl hg.2.1

/-- the outcomes of a run and of the specification agree wherever the specification demands something -/
def Agree (o : Opts) (bytes : List Nat) (ops : List Op) : Prop :=
  ∀ p ∈ (run (Api.fresh o bytes) ops).zip (specRun (Spec.fresh o bytes) ops), ∀ r, p.2 = some r → p.1 = r

instance (o : Opts) (bytes : List Nat) (ops : List Op) : Decidable (Agree o bytes ops) := by
  unfold Agree; infer_instance

/-- no operation of the history lies in the class of KF-C07-4: none follows (without a `Reset` / `CheckIntegrity` + re-seek in
between) a sequence that a new decoder performing the consuming operation leaves somewhere else than at the protocol's
end of the sequence (header + declared data size + 2), and none is the `Discard` after a `PeekFileId` whose last record ran
past the declared data size. Decidable (`noOverrun` is a `Bool`); evaluated by the driver's `--kf`. -/
def NoOverrun (o : Opts) (bytes : List Nat) (ops : List Op) : Prop := noOverrun (Spec.fresh o bytes) ops = true

instance (o : Opts) (bytes : List Nat) (ops : List Op) : Decidable (NoOverrun o bytes ops) := by
  unfold NoOverrun; infer_instance

/-- **History independence, full statement** (the property): for every byte stream, every option set and factory, and
every history of API calls — chained sequences decoded, discarded, peeked and then decoded or discarded, `Next`,
integrity checks followed by the re-seek, failed decodes, contexts cancelled before or during `DecodeWithContext`, resets
onto new readers with other options — every result the decoder object returns is the result the specification computes
with new decoders only, **the next sequence starting at the protocol's end of the consumed one whatever consumed it**.
FALSE on the current tree: `C07_full_fails` (KF-C07-4). -/
def C07_history_indep_full : Prop :=
  ∀ (o : Opts) (bytes : List Nat) (ops : List Op), Small bytes → FacOK o.fac → (∀ op ∈ ops, OpSmall op) → Agree o bytes ops

/-- **History independence outside the class of KF-C07-4**: the full statement for every history in which no predecessor's
last record overruns its declared data size (`NoOverrun`). Hypotheses besides: the streams are byte strings shorter than
4 GiB (`Decoder.cur` is a uint32) and the factories' components are acyclic (`FacOK`: the contract of `decoder.Factory` —
the real code recurses through them). Nothing else is excluded: in particular every `Discard` is demanded to return what a
new decoder's `Discard` returns (the former "blind" phase of the specification is gone: it was this class). -/
theorem C07_history_indep_partial (o : Opts) (bytes : List Nat) (ops : List Op) (hb : Small bytes) (hf : FacOK o.fac)
    (hops : ∀ op ∈ ops, OpSmall op) (hno : NoOverrun o bytes ops) : Agree o bytes ops := by
  refine agree_of_sameOp ops (Api.fresh o bytes) (Spec.fresh o bytes) (SameOp.Spec.fresh o bytes) (rel_toSame _) hno ?_
  refine SameOp.sim_run ops (Api.fresh o bytes) (SameOp.Spec.fresh o bytes) ⟨rfl, ⟨hb, hf⟩, hb, ?_⟩ hops
  show (_ ∧ _)
  exact ⟨rfl, rfl⟩

/-! ### witnesses -/

def P : List Nat := [14, 32, 154, 82, 11, 0, 0, 0, 46, 70, 73, 84, 30, 8, 64, 0, 0, 0, 0, 1, 0, 1, 0, 0, 4, 84, 47]
def S : List Nat := [14, 32, 154, 82, 2, 0, 0, 0, 46, 70, 73, 84, 222, 98, 0, 7, 65, 194]
def Q : List Nat := [14, 32, 154, 82, 11, 0, 0, 0, 46, 70, 73, 84, 30, 8, 64, 0, 0, 20, 0, 1, 3, 1, 2, 0, 9, 112, 213]
def B : List Nat := [14, 32, 154, 82, 11, 0, 0, 0, 46, 70, 73, 84, 30, 8, 64, 0, 0, 0, 0, 1, 0, 1, 0, 0, 4, 84, 208]
/-- a 25-byte sequence whose last record overruns: 12-byte header declaring 10 bytes of records, then the 11 bytes of
`P`'s records (a definition of 9 bytes and a file_id record of 2), then the CRC of those 11 bytes -/
def O : List Nat := [12, 32, 154, 82, 10, 0, 0, 0, 46, 70, 73, 84, 64, 0, 0, 0, 0, 1, 0, 1, 0, 0, 4, 84, 47]

theorem small_of_decide (l : List Nat) (h : (l.all (· < 256) && decide (l.length < 4294967296)) = true) : Small l := by
  simp only [Bool.and_eq_true, List.all_eq_true, decide_eq_true_eq] at h
  exact ⟨fun b hb => h.1 b hb, h.2⟩

theorem facOK_nil : FacOK [] := ⟨fun _ _ => 0, fun _ _ => (by decide : (0 : Nat) < 256), by intro e he; cases he⟩

def isFileIdOut : Out → Bool
  | .fileId _ => true
  | _ => false

def isFitOut : Out → Bool
  | .fit _ => true
  | _ => false

/-- **`PeekFileId` is transparent, also for a sequence without file_id message** (the former F09): on `Q ++ P` (`Q` has
no file_id) the peek answers with a FileId whose fields are all invalid and stops at the end of `Q`'s messages; the
`Decode` that follows returns `Q` as a new decoder does, and the next `Decode` returns `P`. -/
theorem C07_peek_transparent :
    ((run (Api.fresh {} (Q ++ P)) [.peekFileId, .decode, .decode]).map (·.1)).tail =
      (run (Api.fresh {} (Q ++ P)) [.decode, .decode]).map (·.1) ∧
    ((run (Api.fresh {} (Q ++ P)) [.peekFileId]).map (fun r => isFileIdOut r.1)) = [true] := by decide

/-- the witnesses of the three repaired findings (F08: look-ups surviving `Discard` / `Reset` after a peek; F09: peek past
a sequence without file_id; F10: stale buffer after a failing `CheckIntegrity`) now agree with the specification (each is
an instance of `C07_history_indep`; evaluated here on the model the driver runs) -/
theorem C07_former_witnesses : Agree {} (Q ++ P) [.peekFileId, .decode] ∧ Agree {} (Q ++ P) [.peekFileId, .discard, .decode] ∧
    Agree {} (P ++ S) [.peekFileId, .discard, .decode] ∧ Agree {} P [.peekFileId, .reset {} S, .decode] ∧
    Agree {} (P ++ B ++ S) [.checkIntegrity, .decode] := by decide

/-- Non-vacuity of `C07_history_indep_partial`: its hypotheses are met by histories with peeks, discards, an integrity check, a
context cancelled during `DecodeWithContext` after a peek, and a reset -/
example : Small (P ++ S) ∧ Small (P ++ B ++ S) ∧ OpSmall (.reset {} S) ∧ FacOK ([] : Factory) :=
  ⟨small_of_decide _ (by decide), small_of_decide _ (by decide), ⟨small_of_decide _ (by decide), facOK_nil⟩, facOK_nil⟩

example : NoOverrun {} (P ++ B ++ S) [.checkIntegrity, .next, .peekFileId, .decode, .decode, .reset {} S, .decode] ∧
    NoOverrun { ml := true } (P ++ P) [.peekFileId, .decodeCtxAt 0, .decode, .reset { ml := true } P, .decodeCtxAt 2, .decode] ∧
    NoOverrun {} (Q ++ P) [.peekFileId, .discard, .decode] ∧
    -- an overrunning sequence is outside the class as long as nothing but `Reset` / `CheckIntegrity` follows its consumption
    NoOverrun {} (O ++ P) [.decode, .reset {} (O ++ P), .discard, .checkIntegrity, .peekFileId, .decode] := by decide

/-- **The full statement is false on the current tree (KF-C07-4).** `O` declares 10 bytes of records, its second record
ends at byte 11. On `O ++ P`: `Decode` returns `O`'s FIT and stands behind `O`'s 25 bytes, so the next `Decode` returns `P`;
the protocol's end of `O` is byte 24, and what a new decoder returns for the bytes from there is "not a FIT file" — which
is what `Discard, Decode` gives. The history `[Decode, Decode]` is inside the quantifier of the property and violates
the specification; `[Discard, Decode]` meets it. -/
theorem C07_full_fails : ¬ C07_history_indep_full := by
  intro h
  have : Agree {} (O ++ P) [.decode, .decode] :=
    h {} (O ++ P) [.decode, .decode] (small_of_decide _ (by decide)) facOK_nil
      (by intro op hop; simp only [List.mem_cons, List.mem_nil_iff, or_false, or_self] at hop; subst hop; exact trivial)
  revert this
  decide

/-- **The defect without reference to any choice of the sequence's extent**: the same decoder configuration, the same
stream `O ++ P`, and the result of the final `Decode` depends on how the predecessor `O` was consumed — `P`'s FIT after
`Decode` and after `PeekFileId, Discard`, the error "not a FIT file" after `Discard`; the same with `CheckIntegrity`
counting (it skips as `Discard` does: it finds one sequence and stops at byte 24). No specification can be met by all three. -/
theorem C07_overrun_depends_on_op :
    ((run (Api.fresh {} (O ++ P)) [.decode, .decode]).map (fun r => isFitOut r.1)) = [true, true] ∧
    ((run (Api.fresh {} (O ++ P)) [.discard, .decode]).map (·.1)) = [.done, .err .notFit] ∧
    ((run (Api.fresh {} (O ++ P)) [.peekFileId, .discard, .decode]).map (fun r => isFitOut r.1)) = [false, false, true] ∧
    ((run (Api.fresh {} (O ++ P)) [.decode, .decode]).getLast?.map (·.1)) =
      ((run (Api.fresh {} P) [.decode]).getLast?.map (·.1)) ∧
    ¬ NoOverrun {} (O ++ P) [.decode, .decode] ∧ ¬ NoOverrun {} (O ++ P) [.peekFileId, .discard] ∧
    -- `Discard` of a new decoder ends at the protocol's end: this history is inside `C07_history_indep_partial`
    NoOverrun {} (O ++ P) [.discard, .decode] ∧ Agree {} (O ++ P) [.discard, .decode] ∧
    ¬ Agree {} (O ++ P) [.decode, .decode] ∧ ¬ Agree {} (O ++ P) [.peekFileId, .discard, .decode] := by decide

example : Agree {} (P ++ B ++ S) [.checkIntegrity, .next, .peekFileId, .decode, .decode, .reset {} S, .decode] ∧
    Agree { ml := true } (P ++ P) [.peekFileId, .decodeCtxAt 0, .decode, .reset { ml := true } P, .decodeCtxAt 2, .decode] := by decide

/-- **What `Decode` returns for a sequence is a function of the sequence's bytes, not of what follows it.** The
specification asks of every `Decode` of a history what a new decoder returns on the stream *from the first byte of the
current sequence on*; this theorem closes the gap to "the sequence's bytes": if a new decoder on `S` alone returns a FIT,
then on `S ++ T`, whatever `T` is (the next sequences of a chain, garbage, nothing), it returns the same FIT, makes the same
listener calls and stands where it stood with `T` still to be read; and if it rejects `S` with an error other than "the
stream ended" (a truncated `S` can of course be completed by `T`), it rejects `S ++ T` with that error after the same
listener calls. With `C07_history_indep`: whatever the history, a sequence is decoded as if it were alone. -/
theorem C07_decode_ignores_tail (o : Opts) (S T : List Nat) (hS : IsBytes S) (hf : FacOK o.fac) :
    (∀ s' f evs, stepDecode (St.fresh o S) = (s', .fit f, evs) →
      stepDecode (St.fresh o (S ++ T)) = ({ s' with rest := s'.rest ++ T }, .fit f, evs)) ∧
    (∀ s' e evs, stepDecode (St.fresh o S) = (s', .err e, evs) → e ≠ .eof →
      (stepDecode (St.fresh o (S ++ T))).2 = (.err e, evs)) := by
  have h := stepDecode_ext T (St.fresh o S) ⟨hS, DefsOK.empty, (by decide : (0 : Nat) < 4294967296), hf⟩
  have hx : ext T (St.fresh o S) = St.fresh o (S ++ T) := rfl
  rw [hx] at h
  refine ⟨fun s' f evs hd => ?_, fun s' e evs hd hne => ?_⟩
  · rw [hd] at h
    exact h
  · rw [hd] at h
    rcases h with h | h
    · exact absurd h hne
    · exact h

/-- non-vacuity: `P` alone is accepted and leaves nothing unread; followed by `S`, by garbage, it decodes alike; the
corrupted `B` is rejected with a CRC error alone and in front of `P` -/
example : isFitOut (stepDecode (St.fresh {} P)).2.1 = true ∧ (stepDecode (St.fresh {} P)).1.rest = [] ∧
    (stepDecode (St.fresh {} (P ++ S))).2 = (stepDecode (St.fresh {} P)).2 ∧
    (stepDecode (St.fresh {} (P ++ [1, 2, 3]))).1.rest = [1, 2, 3] ∧
    (stepDecode (St.fresh {} B)).2.1 = .err .crc ∧ (stepDecode (St.fresh {} (B ++ P))).2.1 = .err .crc := by decide +kernel

/-- **A sequence a new decoder rejects is rejected in every context** (corollary): if the specification says that the
`Decode` at position `i` of the history must fail with `e` — i.e. a decoder created on exactly the bytes of that sequence
fails with `e` — then the decoder object fails with `e` there, whatever preceded (outside the class of KF-C07-4: `NoOverrun`;
without it false — after `O` of `C07_full_fails` the position of the next sequence depends on the consuming operation). -/
theorem C07_rejected_everywhere_partial (o : Opts) (bytes : List Nat) (ops : List Op) (hb : Small bytes) (hf : FacOK o.fac)
    (hops : ∀ op ∈ ops, OpSmall op) (hno : NoOverrun o bytes ops) (i : Nat) (e : Err) (evs : List Event)
    (hspec : (specRun (Spec.fresh o bytes) ops)[i]? = some (some (.err e, evs))) :
    (run (Api.fresh o bytes) ops)[i]? = some (.err e, evs) := by
  have hag := C07_history_indep_partial o bytes ops hb hf hops hno
  have hlen : ∀ (ops : List Op) (a : Api) (p : Spec), (run a ops).length = (specRun p ops).length := by
    intro ops
    induction ops with
    | nil => intro a p; rfl
    | cons op ops ih => intro a p; simp only [run, specRun, List.length_cons]; rw [ih]
  have hi : i < (specRun (Spec.fresh o bytes) ops).length := by
    rcases Nat.lt_or_ge i (specRun (Spec.fresh o bytes) ops).length with h | h
    · exact h
    · rw [List.getElem?_eq_none h] at hspec; cases hspec
  have hi' : i < (run (Api.fresh o bytes) ops).length := by rw [hlen ops _ (Spec.fresh o bytes)]; exact hi
  have hmem : ((run (Api.fresh o bytes) ops)[i], (specRun (Spec.fresh o bytes) ops)[i]) ∈
      (run (Api.fresh o bytes) ops).zip (specRun (Spec.fresh o bytes) ops) := by
    rw [List.mem_iff_getElem]
    exact ⟨i, by rw [List.length_zip]; omega, by simp⟩
  rw [List.getElem?_eq_getElem hi] at hspec
  simp only [Option.some.injEq] at hspec
  have := hag _ hmem _ hspec
  rw [List.getElem?_eq_getElem hi']
  exact congrArg some this

/-! ### the decoder's default configuration -/

/-- **History independence of the decoder's DEFAULT configuration** — `decoder.New(r)`: the standard factory with component
expansion ON (sub-fields, scales, offsets, accumulated components) — as `FitModel/DecoderApiDefault.lean` models it: the
decoder-API model (C) with the regenerated standard factory and expansion off, every decoded message then expanded by C05's
model of the tail of `decodeFields` over the REAL component / sub-field graph, the accumulator and the stored messages living
for one sequence. For every byte stream, every option set (checksum, broadcast-only, listeners) and every history outside the
class of KF-C07-4: every result of the decoder object — the FIT with every message and every EXPANDED field, headers, file
ids, errors, and the listener calls with the expanded messages — is the same expansion applied to what the specification
computes with new decoders. (What expansion adds is a function of the sequence's own messages: the expansion state is new
after everything that ends a sequence. Termination of the expansion over the real graph: `C05_profile_depth`.) -/
theorem C07_default_config_partial (o : Opts) (bytes : List Nat) (ops : List Op) (hb : Small bytes)
    (hops : ∀ o' b, Op.reset o' b ∈ ops → Small b)
    (hno : NoOverrun (Default.inner o) bytes (ops.map (Default.innerOp o))) :
    ∀ y ∈ (Default.run o bytes ops).zip (Default.spec o bytes ops), ∀ r, y.2 = some r → y.1 = some r := by
  have hops' : ∀ op ∈ ops.map (Default.innerOp o), OpSmall op := by
    intro op hop
    obtain ⟨op0, h0, rfl⟩ := List.mem_map.mp hop
    cases op0 with
    | reset o' b => exact ⟨hops o' b h0, Default.facOK_std⟩
    | _ => trivial
  exact Default.walk_agree o _ _ _ {} (C07_history_indep_partial (Default.inner o) bytes _ hb Default.facOK_std hops' hno)

/-- non-vacuity: `P ++ S` under the default configuration, peeked, discarded, decoded -/
example : NoOverrun (Default.inner {}) (P ++ S) ([Op.peekFileId, .discard, .decode].map (Default.innerOp {})) := by decide +kernel

end Fit.C07
