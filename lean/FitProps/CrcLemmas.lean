import FitModel.Crc
/-! Helper lemmas: the nibble-table CRC of crc16.go equals the bit-serial CRC-16 (structural proof:
GF(2)-linearity of the bit step + two 16-row kernel-evaluated tables over the regenerated literals). -/
namespace Fit.Crc

theorem xor_parity (u v : Nat) : (u ^^^ v) % 2 = (u % 2 + v % 2) % 2 := by
  have := @Nat.xor_mod_two_eq_one u v
  omega

theorem f_linear (u v : Nat) : f (u ^^^ v) = f u ^^^ f v := by
  unfold f
  rw [Nat.shiftRight_xor_distrib, xor_parity]
  rcases Nat.mod_two_eq_zero_or_one u with hu | hu <;>
  rcases Nat.mod_two_eq_zero_or_one v with hv | hv
  · simp [hu, hv]
  · simp [hu, hv]; ac_rfl
  · simp [hu, hv]; ac_rfl
  · simp only [hu, hv]
    have e : ∀ a b p : Nat, a ^^^ b = (a ^^^ p) ^^^ (b ^^^ p) := by
      intro a b p
      calc a ^^^ b = a ^^^ b ^^^ (p ^^^ p) := by simp
        _ = (a ^^^ p) ^^^ (b ^^^ p) := by ac_rfl
    simpa using e _ _ _

theorem f_even (x : Nat) (h : x % 2 = 0) : f x = x / 2 := by
  simp [f, h, Nat.shiftRight_eq_div_pow]

theorem f_zero : f 0 = 0 := by decide

theorem f_lt (x : Nat) (h : x < 2 ^ 16) : f x < 2 ^ 16 := by
  unfold f
  apply Nat.xor_lt_two_pow
  · rw [Nat.shiftRight_eq_div_pow]; omega
  · split <;> decide

theorem bitStep_linear (a b x y : Nat) : bitStep (a ^^^ b) (x ^^^ y) = bitStep a x ^^^ bitStep b y := by
  unfold bitStep
  rw [← f_linear]; congr 1; ac_rfl

theorem bit4_linear (a b m n : Nat) :
    bit4 (a ^^^ b) (m ^^^ n) = bit4 a m ^^^ bit4 b n := by
  have b0 : (m ^^^ n) % 2 = (m % 2) ^^^ (n % 2) := by
    have := @Nat.xor_mod_two_pow m n 1; simpa using this
  have b1 : (m ^^^ n) / 2 % 2 = (m / 2 % 2) ^^^ (n / 2 % 2) := by
    rw [Nat.xor_div_two]; have := @Nat.xor_mod_two_pow (m/2) (n/2) 1; simpa using this
  have b2 : (m ^^^ n) / 4 % 2 = (m / 4 % 2) ^^^ (n / 4 % 2) := by
    have h := @Nat.xor_div_two_pow m n 2; simp at h; rw [h]
    have := @Nat.xor_mod_two_pow (m/4) (n/4) 1; simpa using this
  have b3 : (m ^^^ n) / 8 % 2 = (m / 8 % 2) ^^^ (n / 8 % 2) := by
    have h := @Nat.xor_div_two_pow m n 3; simp at h; rw [h]
    have := @Nat.xor_mod_two_pow (m/8) (n/8) 1; simpa using this
  unfold bit4
  rw [b0, b1, b2, b3, bitStep_linear, bitStep_linear, bitStep_linear, bitStep_linear]

theorem byteSpec_linear (a b x y : Nat) :
    byteSpec (a ^^^ b) (x ^^^ y) = byteSpec a x ^^^ byteSpec b y := by
  unfold byteSpec
  have h1 : (x ^^^ y) % 16 = (x % 16) ^^^ (y % 16) := by
    have := @Nat.xor_mod_two_pow x y 4; simpa using this
  have h2 : (x ^^^ y) / 16 = (x / 16) ^^^ (y / 16) := by
    have := @Nat.xor_div_two_pow x y 4; simpa using this
  rw [h1, h2, bit4_linear, bit4_linear]

/-- shifting down a multiple of 16: four even steps -/
theorem bit4_hi (h : Nat) : bit4 (16 * h) 0 = h := by
  unfold bit4 bitStep
  simp only [Nat.zero_mod, Nat.zero_div, Nat.xor_zero]
  rw [f_even (16 * h) (by omega), f_even (16 * h / 2) (by omega),
      f_even (16 * h / 2 / 2) (by omega), f_even (16 * h / 2 / 2 / 2) (by omega)]
  omega

theorem testBit_lo (c i : Nat) (hi : i < 4) : (2 ^ 4 * (c / 2 ^ 4)).testBit i = false := by
  rw [Nat.testBit_two_pow_mul]; simp; omega

theorem split16 (c : Nat) : c = (2 ^ 4 * (c / 2 ^ 4)) ^^^ (c % 2 ^ 4) := by
  apply Nat.eq_of_testBit_eq
  intro i
  have hlt : c % 2 ^ 4 < 2 ^ 4 := Nat.mod_lt _ (by decide)
  have key := Nat.testBit_two_pow_mul_add (c / 2 ^ 4) (b := c % 2 ^ 4) (i := 4) hlt i
  have hc : 2 ^ 4 * (c / 2 ^ 4) + c % 2 ^ 4 = c := Nat.div_add_mod c (2 ^ 4)
  rw [hc] at key
  rw [key, Nat.testBit_xor]
  by_cases hi : i < 4
  · rw [testBit_lo c i hi]; simp [hi]
  · have h4 : 4 ≤ i := Nat.le_of_not_lt hi
    have hb : (c % 2 ^ 4).testBit i = false :=
      Nat.testBit_lt_two_pow (Nat.lt_of_lt_of_le hlt (Nat.pow_le_pow_right (by decide) h4))
    rw [Nat.testBit_two_pow_mul, hb]; simp [hi, h4]

/-- OBLIGATIONS ON THE REGENERATED TABLE (a changed literal in crc16.go breaks one of these):
the table is the image of the 16 nibbles under four bit steps. 32 kernel-evaluated cases. -/
theorem table_lo : ∀ l, l < 16 → T l = bit4 l 0 := by decide +kernel
theorem table_n  : ∀ n, n < 16 → T n = bit4 0 n := by decide +kernel

theorem T_lt (i : Nat) : T i < 2 ^ 16 := by
  unfold T
  have : (0xFFFF : Nat) = 2 ^ 16 - 1 := by decide
  rw [this, Nat.and_two_pow_sub_one_eq_mod]
  exact Nat.mod_lt _ (by decide)

theorem nibStep_lt (c n : Nat) : nibStep c n < 2 ^ 16 := by
  unfold nibStep
  apply Nat.xor_lt_two_pow
  · apply Nat.xor_lt_two_pow
    · have : (0x0FFF : Nat) = 2 ^ 12 - 1 := by decide
      rw [this, Nat.and_two_pow_sub_one_eq_mod]
      have := Nat.mod_lt (c >>> 4) (show 0 < 2 ^ 12 by decide)
      omega
    · exact T_lt _
  · exact T_lt _

theorem compute_lt (c b : Nat) : compute c b < 2 ^ 16 := nibStep_lt _ _

theorem nib_eq_spec (c n : Nat) (hc : c < 2 ^ 16) (hn : n < 16) : nibStep c n = bit4 c n := by
  have hl : c % 2 ^ 4 < 16 := Nat.mod_lt _ (by decide)
  have hs := split16 c
  have e1 : (c >>> 4) &&& 0x0FFF = c / 2 ^ 4 := by
    have : (0x0FFF : Nat) = 2 ^ 12 - 1 := by decide
    rw [this, Nat.and_two_pow_sub_one_eq_mod, Nat.shiftRight_eq_div_pow]
    apply Nat.mod_eq_of_lt; omega
  have e2 : c &&& 0xF = c % 2 ^ 4 := by
    have : (0xF : Nat) = 2 ^ 4 - 1 := by decide
    rw [this, Nat.and_two_pow_sub_one_eq_mod]
  have lin := bit4_linear (2 ^ 4 * (c / 2 ^ 4)) (c % 2 ^ 4) 0 n
  simp only [Nat.zero_xor] at lin
  unfold nibStep
  rw [e1, e2, table_lo _ hl, table_n n hn]
  conv => rhs; rw [hs]
  rw [lin]
  have hh : bit4 (2 ^ 4 * (c / 2 ^ 4)) 0 = c / 2 ^ 4 := by
    have := bit4_hi (c / 2 ^ 4); simpa using this
  rw [hh]
  have := bit4_linear (c % 2 ^ 4) 0 0 n
  simp only [Nat.xor_zero, Nat.zero_xor] at this
  rw [this]; ac_rfl

theorem compute_eq_spec (c b : Nat) (hc : c < 2 ^ 16) (hb : b < 256) : compute c b = byteSpec c b := by
  unfold compute byteSpec
  have e1 : b &&& 0xF = b % 16 := by
    have : (0xF : Nat) = 2 ^ 4 - 1 := by decide
    rw [this, Nat.and_two_pow_sub_one_eq_mod]
  have e2 : (b >>> 4) &&& 0xF = b / 16 := by
    have : (0xF : Nat) = 2 ^ 4 - 1 := by decide
    rw [this, Nat.and_two_pow_sub_one_eq_mod, Nat.shiftRight_eq_div_pow]
    apply Nat.mod_eq_of_lt; omega
  rw [e1, e2, nib_eq_spec _ _ hc (Nat.mod_lt _ (by decide)),
      ← nib_eq_spec _ _ hc (Nat.mod_lt _ (by decide)),
      nib_eq_spec _ _ (nibStep_lt _ _) (by omega)]

theorem write_lt (c : Nat) (hc : c < 2 ^ 16) (p : List Nat) : write c p < 2 ^ 16 := by
  induction p generalizing c with
  | nil => simpa [write]
  | cons b p ih => simp only [write, List.foldl_cons]; exact ih _ (compute_lt _ _)

end Fit.Crc
