import FitProps.C17DefsBt
import FitModel.Generated.ProfileStrs
import FitModel.Generated.ProfileTypes
/-! Kernel evaluations for `FitProps/C17.lean` (the statements and what they mean are documented there). -/
namespace Fit.C17.Lemmas
open Fit.ProfileSpec Fit.Gen Fit.C17

theorem string_roundtrip : ∀ t ∈ Prof.strTables, t.ok = true := by
  decide +kernel

theorem string_tables_cover :
    Prof.strTables.map (fun t => (t.name, t.rows.map fun r => (r.value, r.str))) =
    Prof.types.map (fun t => (t.name, t.consts.map fun c => (c.value, c.name))) := by
  decide +kernel

theorem invalid_is_base_invalid :
    ∀ p ∈ Prof.strTables.zip Prof.types,
      p.1.invalid = (if p.2.baseType = 10 ∨ p.2.baseType = 139 ∨ p.2.baseType = 140 ∨ p.2.baseType = 144 then 0
                     else 2 ^ (8 * btSize p.2.baseType) - 1) := by
  decide +kernel

end Fit.C17.Lemmas
