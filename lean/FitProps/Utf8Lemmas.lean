import FitProps.Utf8ShapeLemmas
/-! `proto.utf8String` is the identity (up to the first NUL) on valid UTF-8 without U+FFFD. -/
namespace Fit.Utf8

theorem decode_spec : ∀ (p : List Nat), Bytes p → p ≠ [] → Spec p (decodeRune p)
  | [], _, h => absurd rfl h
  | [b0], hp, _ => spec1 b0 (hp b0 (by simp))
  | [b0, b1], hp, _ => spec2 b0 b1 (hp b0 (by simp)) (hp b1 (by simp))
  | [b0, b1, b2], hp, _ => spec3 b0 b1 b2 (hp b0 (by simp)) (hp b1 (by simp)) (hp b2 (by simp))
  | b0 :: b1 :: b2 :: b3 :: rest, hp, _ =>
    spec4 b0 b1 b2 b3 rest (hp b0 (by simp)) (hp b1 (by simp)) (hp b2 (by simp)) (hp b3 (by simp))

theorem decodeRune_zero (t : List Nat) : decodeRune (0 :: t) = (0, 1) := by
  simp [decodeRune]

theorem Bytes.drop {p : List Nat} (h : Bytes p) (k : Nat) : Bytes (p.drop k) :=
  fun b hb => h b (List.mem_of_mem_drop hb)

theorem invalidAt_false {p : List Nat} (h : invalidAt p = false) :
    ¬((decodeRune p).1 = 0xFFFD ∧ (decodeRune p).2 = 1) := by
  simp only [invalidAt, runeError_val, Bool.and_eq_false_iff, beq_eq_false_iff_ne, ne_eq] at h
  intro ⟨h1, h2⟩
  rcases h with h | h
  · exact h h1
  · exact h h2

/-- NUL-free valid UTF-8 without a well-formed U+FFFD passes through `utf8String` unchanged, and the
reading stops at a NUL that follows it (or at the end). Stated for every sufficient fuel. -/
theorem utf8StringAux_clean (n : Nat) : ∀ (c t : List Nat) (f1 f2 f3 : Nat),
    c.length ≤ n → c.length ≤ f1 → c.length ≤ f2 → (c ++ t).length ≤ f3 →
    Bytes c → (∀ b ∈ c, b ≠ 0) → (t = [] ∨ t.head? = some 0) →
    validAux f1 c = true → hasFFFDAux f2 c = false → utf8StringAux f3 (c ++ t) = c := by
  induction n with
  | zero =>
    intro c t f1 f2 f3 hn _ _ h3 _ _ ht _ _
    have hc : c = [] := List.eq_nil_of_length_eq_zero (Nat.le_zero.mp hn)
    subst hc
    simp only [List.nil_append]
    cases f3 with
    | zero => rfl
    | succ f3 =>
      rcases ht with ht | ht
      · subst ht; simp [utf8StringAux]
      · cases t with
        | nil => simp [utf8StringAux]
        | cons x t =>
          simp only [List.head?_cons, Option.some.injEq] at ht
          subst ht
          simp [utf8StringAux, decodeRune_zero]
  | succ n ih =>
    intro c t f1 f2 f3 hn h1 h2 h3 hb hz ht hv hf
    cases c with
    | nil => exact ih [] t f1 f2 f3 (Nat.zero_le _) h1 h2 h3 hb hz ht hv hf
    | cons b0 c' =>
      have hne : b0 :: c' ≠ [] := by simp
      cases f1 with
      | zero => simp at h1
      | succ f1 =>
      cases f2 with
      | zero => simp at h2
      | succ f2 =>
      cases f3 with
      | zero => simp at h3
      | succ f3 =>
      -- validity of the first encoding and of the rest
      simp only [validAux, List.isEmpty_cons, Bool.false_eq_true, ↓reduceIte] at hv
      have hinv : invalidAt (b0 :: c') = false := by
        cases h : invalidAt (b0 :: c') with
        | false => rfl
        | true => simp [h] at hv
      simp only [hinv, Bool.false_eq_true, ↓reduceIte] at hv
      obtain ⟨hk1, hk2, happ, h3w, hnz, hloc⟩ := decode_spec (b0 :: c') hb hne (invalidAt_false hinv)
      have hb0 : b0 ≠ 0 := hz b0 (by simp)
      obtain ⟨hd0, _⟩ := hnz (by simpa using hb0)
      -- no U+FFFD
      simp only [hasFFFDAux, List.isEmpty_cons, Bool.false_eq_true, ↓reduceIte] at hf
      have hd0' : ((decodeRune (b0 :: c')).1 == 0) = false := by simpa using hd0
      simp only [hd0', Bool.false_eq_true, ↓reduceIte] at hf
      have hne' : (decodeRune (b0 :: c')).1 ≠ 0xFFFD := by
        intro he
        have := h3w he
        simp [runeError_val, he, this] at hf
      have hf' : hasFFFDAux f2 ((b0 :: c').drop (decodeRune (b0 :: c')).2) = false := by
        cases hq : ((decodeRune (b0 :: c')).1 == runeError && (decodeRune (b0 :: c')).2 == 3) with
        | true => simp [hq] at hf
        | false => simpa [hq] using hf
      -- one step of utf8String on c ++ t
      have hsplit : (b0 :: c') ++ t =
          (b0 :: c').take (decodeRune (b0 :: c')).2 ++ ((b0 :: c').drop (decodeRune (b0 :: c')).2 ++ t) := by
        rw [← List.append_assoc, List.take_append_drop]
      have hdec : decodeRune ((b0 :: c') ++ t) = decodeRune (b0 :: c') := by
        rw [hsplit]; exact hloc _
      have hdrop : ((b0 :: c') ++ t).drop (decodeRune (b0 :: c')).2 =
          (b0 :: c').drop (decodeRune (b0 :: c')).2 ++ t := by
        rw [List.drop_append_of_le_length hk2]
      have hlen : ((b0 :: c').drop (decodeRune (b0 :: c')).2).length ≤ n := by
        simp only [List.length_drop, List.length_cons] at hn ⊢
        omega
      have hrec := ih ((b0 :: c').drop (decodeRune (b0 :: c')).2) t f1 f2 f3 hlen
        (by simp only [List.length_drop, List.length_cons] at h1 ⊢; omega)
        (by simp only [List.length_drop, List.length_cons] at h2 ⊢; omega)
        (by simp only [List.length_append, List.length_drop, List.length_cons] at h3 ⊢; omega)
        (hb.drop _) (fun b hb' => hz b (List.mem_of_mem_drop hb')) ht hv hf'
      have hcons : (b0 :: c' ++ t) = b0 :: (c' ++ t) := rfl
      have hne2 : ((decodeRune (b0 :: c')).1 != runeError) = true := by
        simpa [runeError_val] using hne'
      rw [utf8StringAux]
      simp only [hcons, List.isEmpty_cons, Bool.false_eq_true, ↓reduceIte]
      rw [← hcons, hdec]
      simp only [hd0', Bool.false_eq_true, ↓reduceIte, hne2, hdrop, hrec, happ, List.take_append_drop]

end Fit.Utf8

namespace Fit.Utf8

theorem dropWhile_nz_head (l : List Nat) :
    l.dropWhile (· != 0) = [] ∨ (l.dropWhile (· != 0)).head? = some 0 := by
  induction l with
  | nil => left; rfl
  | cons x xs ih =>
    by_cases hx : x = 0
    · right; subst hx; simp [List.dropWhile]
    · have : (x != 0) = true := by simpa using hx
      simp only [List.dropWhile, this]
      exact ih

theorem mem_takeWhile_nz (l : List Nat) : ∀ b ∈ l.takeWhile (· != 0), b ≠ 0 ∧ b ∈ l := by
  induction l with
  | nil => intro b hb; cases hb
  | cons x xs ih =>
    intro b hb
    by_cases hx : x = 0
    · subst hx; simp [List.takeWhile] at hb
    · have hx' : (x != 0) = true := by simpa using hx
      simp only [List.takeWhile, hx', List.mem_cons] at hb
      rcases hb with h | h
      · subst h; exact ⟨hx, by simp⟩
      · exact ⟨(ih b h).1, List.mem_cons_of_mem _ (ih b h).2⟩

/-- `proto.utf8String` returns the bytes before the first NUL whenever they are valid UTF-8 without a
well-formed U+FFFD. -/
theorem utf8String_clean (l : List Nat) (hb : Bytes l)
    (hv : valid (l.takeWhile (· != 0)) = true) (hf : hasFFFD (l.takeWhile (· != 0)) = false) :
    utf8String l = l.takeWhile (· != 0) := by
  have hsplit : l = l.takeWhile (· != 0) ++ l.dropWhile (· != 0) := (List.takeWhile_append_dropWhile).symm
  have hbc : Bytes (l.takeWhile (· != 0)) := fun b h => hb b (mem_takeWhile_nz l b h).2
  unfold utf8String
  have key := utf8StringAux_clean (l.takeWhile (· != 0)).length (l.takeWhile (· != 0)) (l.dropWhile (· != 0))
    (l.takeWhile (· != 0)).length (l.takeWhile (· != 0)).length l.length
    (Nat.le_refl _) (Nat.le_refl _) (Nat.le_refl _) (by rw [← hsplit]; exact Nat.le_refl _)
    hbc (fun b h => (mem_takeWhile_nz l b h).1) (dropWhile_nz_head l) hv hf
  rw [← hsplit] at key
  exact key

end Fit.Utf8
