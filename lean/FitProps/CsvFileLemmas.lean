import FitProps.CsvMoreLemmas
/-! From cells to messages, lines and chains of files, for messages whose fields each come back through their cell
(whatever the reason: plain, array, scaled, unknown with verbose) or are dropped (unknown without verbose). Core Lean only. -/
set_option linter.unusedSimpArgs false
set_option linter.unusedVariables false
namespace Fit.Csv
open Fit.Value Fit.Msg Fit.Gen Fit.Gen.Csv

/-- the cell of field `fld` of `msg` is read back as the field `e` (`some e`) or passed over (`none`), whatever
descriptions are known -/
def FieldRT (ar : Arith) (o : Opts) (msg : Message) (fld : Field) (e : Option Field) : Prop :=
  ∀ ds, readCell ar ds msg.num (writeField o msg fld) =
    .ok (match e with | some f => .field f | none => .skip)

theorem parseCells_rt (ar : Arith) (o : Opts) (ds : List Desc) (msg : Message) (E : Field → Option Field) :
    ∀ (fs : List Field), (∀ f ∈ fs, FieldRT ar o msg f (E f)) →
      parseCells ar ds msg.num (fs.map (writeField o msg)) = .ok ((fs.filterMap E).map (fun f => Sum.inl f), [])
  | [], _ => rfl
  | f :: fs, h => by
    have hf := h f (List.mem_cons_self ..) ds
    have ih := parseCells_rt ar o ds msg E fs (fun x hx => h x (List.mem_cons_of_mem _ hx))
    simp only [List.map_cons, parseCells, hf, ih]
    cases hE : E f <;> simp [List.filterMap_cons, hE]

/-- an unknown field without the verbose option is written under the bare name "unknown" and passed over by the reader -/
theorem unknown_field_skipped (ar : Arith) (o : Opts) (msg : Message) (fld : Field) (hverb : o.verbose = false)
    (hunk : pfield msg.num (fieldNumOf fld) = none) : FieldRT ar o msg fld none := by
  intro ds
  have hw : writeField o msg fld = ⟨unknownTxt, cellPieces (formatAtoms fld.value), []⟩ := by
    simp [writeField, hunk, hverb]
  rw [hw]
  have h1 : unknownTxt.isEmpty = false := by decide +kernel
  have h2 : isPrefixOf' unknownTxt unknownTxt = true := by decide +kernel
  have h3 : (digitsOf unknownTxt).isEmpty = true := by decide +kernel
  simp only [readCell, h1, Bool.false_eq_true, ↓reduceIte, lookupFieldNum_unknown _ _ h2, h2, h3]

/-- a message that comes back: its name resolves to its number, it has no developer fields and is no field
description, its fields each come back or are passed over (`E`); the reader then removes the fields that are component
targets of other fields present (`removeExpanded`), and something is left -/
structure RTMesg (ar : Arith) (o : Opts) (E : Field → Option Field) (m : Message) : Prop where
  name : lookupMesgNum (mesgNameOf o m.num) = some m.num ∨
    (lookupMesgNum (mesgNameOf o m.num) = none ∧ (digitsOf (mesgNameOf o m.num)).isEmpty = false ∧
      natOfDigits (digitsOf (mesgNameOf o m.num)) = m.num ∧ m.num < 65536)
  nodev : m.devFields = []
  notDesc : m.num ≠ mnFieldDescription
  fields : ∀ f ∈ m.fields, FieldRT ar o m f (E f)
  nonempty : removeExpanded m.num (m.fields.filterMap E) ≠ []

/-- a message that is dropped: an unknown message without the verbose option (never a file_id) -/
structure DroppedMesg (o : Opts) (m : Message) : Prop where
  name : lookupMesgNum (mesgNameOf o m.num) = none ∧ (digitsOf (mesgNameOf o m.num)).isEmpty = true
  nodev : m.devFields = []
  notDesc : m.num ≠ mnFieldDescription
  notFid : m.num ≠ mnFileId

def backMesg (E : Field → Option Field) (m : Message) : Message :=
  { m with fields := removeExpanded m.num (m.fields.filterMap E) }

theorem removeExpanded_nil (n : Nat) : removeExpanded n [] = [] := by simp [removeExpanded]

theorem createMesg_rt (ar : Arith) (o : Opts) (E : Field → Option Field) (ds : List Desc) (m : Message) (h : RTMesg ar o E m) :
    createMesg ar ds m.num (m.fields.map (writeField o m)) = .ok (backMesg E m) := by
  have hp := parseCells_rt ar o ds m E m.fields h.fields
  simp only [createMesg, hp, revertAll_inl, filterMap_inl]
  simp [backMesg, h.nodev]

/-- what reading the line of message `m` does to the reader's state (`B m` = the message as it comes back, `none` = dropped) -/
def stepB (B : Message → Option Message) (s : RState) (m : Message) : RState :=
  match B m with
  | none => s
  | some m' =>
    let s1 := if m.num == mnFileId then
        (if s.seq != 0 then { s with done := s.cur.reverse :: s.done, cur := [], seq := s.seq + 1 } else { s with seq := s.seq + 1 })
      else s
    { s1 with cur := m' :: s1.cur }

theorem writeMesg_nodev (o : Opts) (ds : List Desc) (m : Message) (hnd : m.devFields = []) (hd : m.num ≠ mnFieldDescription) :
    writeMesg o ds m = (.data (mesgNameOf o m.num) (m.fields.map (writeField o m)), ds) := by
  have : (m.num == mnFieldDescription) = false := by simpa using hd
  simp [writeMesg, this, hnd]

theorem readLine_rt (ar : Arith) (o : Opts) (E : Field → Option Field) (m : Message) (s : RState) (h : RTMesg ar o E m)
    (B : Message → Option Message) (hB : B m = some (backMesg E m)) :
    readLine ar s (.data (mesgNameOf o m.num) (m.fields.map (writeField o m))) = .ok (stepB B s m) := by
  have hne : (m.fields.map (writeField o m)).isEmpty = false := by
    cases hf : m.fields with
    | nil => have := h.nonempty; rw [hf] at this; simp [removeExpanded_nil] at this
    | cons a as => rfl
  have hback : (backMesg E m).fields.isEmpty = false := by
    cases hf : removeExpanded m.num (m.fields.filterMap E) with
    | nil => exact absurd hf h.nonempty
    | cons a as => simp [backMesg, hf]
  have hnd : (m.num == mnFieldDescription) = false := by simpa using h.notDesc
  have hc := fun ds => createMesg_rt ar o E ds m h
  rcases h.name with h1 | ⟨h1, h2, h3, h4⟩
  · simp only [readLine, h1, hne, Bool.false_eq_true, ↓reduceIte, stepB, hB]
    by_cases hfid : (m.num == mnFileId) = true
    · by_cases hseq : (s.seq != 0) = true
      · simp only [hfid, hseq, ↓reduceIte, hc, hback, Bool.false_and, Bool.false_eq_true, hnd]
      · simp only [hfid, hseq, ↓reduceIte, hc, hback, Bool.false_and, Bool.false_eq_true, hnd]
    · simp only [hfid, ↓reduceIte, hc, hback, Bool.false_and, Bool.false_eq_true, hnd]
  · simp only [readLine, h1, h2, h3, h4, hne, Bool.false_eq_true, ↓reduceIte, stepB, hB]
    by_cases hfid : (m.num == mnFileId) = true
    · by_cases hseq : (s.seq != 0) = true
      · simp only [hfid, hseq, ↓reduceIte, hc, hback, Bool.false_and, Bool.false_eq_true, hnd]
      · simp only [hfid, hseq, ↓reduceIte, hc, hback, Bool.false_and, Bool.false_eq_true, hnd]
    · simp only [hfid, ↓reduceIte, hc, hback, Bool.false_and, Bool.false_eq_true, hnd]

theorem readLine_dropped (ar : Arith) (o : Opts) (m : Message) (s : RState) (h : DroppedMesg o m)
    (B : Message → Option Message) (hB : B m = none) (cells : List Cell) :
    readLine ar s (.data (mesgNameOf o m.num) cells) = .ok (stepB B s m) := by
  simp only [readLine, h.name.1, h.name.2, ↓reduceIte, stepB, hB]

/-- every message of the chain comes back (as `B` says) or is dropped -/
def MesgOK (ar : Arith) (o : Opts) (E : Message → Field → Option Field) (B : Message → Option Message) (m : Message) : Prop :=
  (RTMesg ar o (E m) m ∧ B m = some (backMesg (E m) m)) ∨ (DroppedMesg o m ∧ B m = none)

theorem readLines_rt (ar : Arith) (o : Opts) (E : Message → Field → Option Field) (B : Message → Option Message) :
    ∀ (ms : List Message) (ds : List Desc) (s : RState), (∀ m ∈ ms, MesgOK ar o E B m) →
      readLines ar s (writeMesgs o ds ms) = .ok (ms.foldl (stepB B) s)
  | [], _, _, _ => rfl
  | m :: ms, ds, s, h => by
    have ih := fun s' => readLines_rt ar o E B ms ds s' (fun x hx => h x (List.mem_cons_of_mem _ hx))
    rcases h m (List.mem_cons_self ..) with ⟨hm, hb⟩ | ⟨hm, hb⟩
    · simp only [writeMesgs, writeMesg_nodev o ds m hm.nodev hm.notDesc, readLines, readLine_rt ar o (E m) m s hm B hb, List.foldl_cons]
      exact ih _
    · simp only [writeMesgs, writeMesg_nodev o ds m hm.nodev hm.notDesc, readLines, readLine_dropped ar o m s hm B hb, List.foldl_cons]
      exact ih _

theorem foldl_stepB_noFid (B : Message → Option Message) : ∀ (rest : List Message) (s : RState), (∀ m ∈ rest, m.num ≠ mnFileId) →
    rest.foldl (stepB B) s = { s with cur := (rest.filterMap B).reverse ++ s.cur }
  | [], s, _ => by simp
  | m :: rest, s, h => by
    have hm : (m.num == mnFileId) = false := by simpa using h m (List.mem_cons_self ..)
    have ih := foldl_stepB_noFid B rest
    cases hb : B m with
    | none =>
      have hs : stepB B s m = s := by simp [stepB, hb]
      rw [List.foldl_cons, hs, ih s (fun x hx => h x (List.mem_cons_of_mem _ hx))]
      simp [List.filterMap_cons, hb]
    | some m' =>
      have hs : stepB B s m = { s with cur := m' :: s.cur } := by simp [stepB, hb, hm]
      rw [List.foldl_cons, hs, ih _ (fun x hx => h x (List.mem_cons_of_mem _ hx))]
      simp [List.filterMap_cons, hb]

theorem foldl_fileB (B : Message → Option Message) (f : List Message) (hf : FileShape f)
    (hfid : ∀ m ∈ f, m.num = mnFileId → (B m).isSome) (s : RState) :
    let s' := f.foldl (stepB B) s
    s'.seq = s.seq + 1 ∧ s'.ds = s.ds ∧
    (s.seq = 0 → s.cur = [] → s.done = [] → seqsOf s' = [f.filterMap B]) ∧
    (s.seq ≠ 0 → seqsOf s' = seqsOf s ++ [f.filterMap B]) := by
  obtain ⟨fid, rest, rfl, hnum, hrest⟩ := hf
  have hb : (fid.num == mnFileId) = true := by simp [hnum]
  obtain ⟨fid', hfid'⟩ := Option.isSome_iff_exists.mp (hfid fid (List.mem_cons_self ..) hnum)
  simp only [List.foldl_cons]
  rw [foldl_stepB_noFid B rest _ hrest]
  by_cases hseq : s.seq = 0
  · have : (s.seq != 0) = false := by simp [hseq]
    simp only [stepB, hfid', hb, ↓reduceIte, this, Bool.false_eq_true]
    refine ⟨trivial, trivial, ?_, fun h => absurd hseq h⟩
    intro _ hc hd
    simp [seqsOf, hc, hd, List.filterMap_cons, hfid']
  · have : (s.seq != 0) = true := by simp [hseq]
    simp only [stepB, hfid', hb, ↓reduceIte, this]
    refine ⟨trivial, trivial, fun h => absurd h hseq, ?_⟩
    intro _
    simp [seqsOf, List.filterMap_cons, hfid']

theorem foldl_filesB (B : Message → Option Message) : ∀ (files : List (List Message)) (s : RState), (∀ f ∈ files, FileShape f) →
    (∀ f ∈ files, ∀ m ∈ f, m.num = mnFileId → (B m).isSome) → s.seq ≠ 0 →
    let s' := files.flatten.foldl (stepB B) s
    s'.seq = s.seq + files.length ∧ seqsOf s' = seqsOf s ++ files.map (·.filterMap B)
  | [], s, _, _, _ => by simp
  | f :: files, s, h, hfid, hs => by
    have h1 := foldl_fileB B f (h f (List.mem_cons_self ..)) (hfid f (List.mem_cons_self ..)) s
    simp only [List.flatten_cons, List.foldl_append]
    have hne : (f.foldl (stepB B) s).seq ≠ 0 := by rw [h1.1]; omega
    have ih := foldl_filesB B files (f.foldl (stepB B) s) (fun x hx => h x (List.mem_cons_of_mem _ hx))
      (fun x hx => hfid x (List.mem_cons_of_mem _ hx)) hne
    refine ⟨?_, ?_⟩
    · rw [ih.1, h1.1]; simp only [List.length_cons]; omega
    · rw [ih.2, h1.2.2.2 hs]; simp

/-- **reading back the CSV of a chain of files**: as many sequences as files, each the file's messages as they come
back (`B`), dropped messages left out -/
theorem fromCsvPre_rt (ar : Arith) (o : Opts) (E : Message → Field → Option Field) (B : Message → Option Message)
    (files : List (List Message)) (hne : files ≠ []) (hshape : ∀ f ∈ files, FileShape f)
    (hok : ∀ f ∈ files, ∀ m ∈ f, MesgOK ar o E B m) :
    fromCsvPre ar (toCsv o files) = .ok ⟨files.map (·.filterMap B), files.length⟩ := by
  have hall : ∀ m ∈ files.flatten, MesgOK ar o E B m := by
    intro m hm
    obtain ⟨f, hf, hmf⟩ := List.mem_flatten.mp hm
    exact hok f hf m hmf
  have hfid : ∀ f ∈ files, ∀ m ∈ f, m.num = mnFileId → (B m).isSome := by
    intro f hf m hm hnum
    rcases hok f hf m hm with ⟨_, hb⟩ | ⟨hd, _⟩
    · rw [hb]; rfl
    · exact absurd hnum hd.notFid
  simp only [fromCsvPre, toCsv, readLines_rt ar o E B files.flatten [] {} hall]
  cases files with
  | nil => exact absurd rfl hne
  | cons f rest =>
    have h1 := foldl_fileB B f (hshape f (List.mem_cons_self ..)) (hfid f (List.mem_cons_self ..)) {}
    simp only [List.flatten_cons, List.foldl_append]
    have hne1 : (f.foldl (stepB B) {}).seq ≠ 0 := by rw [h1.1]; decide
    have h2 := foldl_filesB B rest (f.foldl (stepB B) {}) (fun x hx => hshape x (List.mem_cons_of_mem _ hx))
      (fun x hx => hfid x (List.mem_cons_of_mem _ hx)) hne1
    have hs1 := h1.2.2.1 rfl rfl rfl
    have e1 : (rest.flatten.foldl (stepB B) (f.foldl (stepB B) {})).seq = (f :: rest).length := by
      rw [h2.1, h1.1]; simp only [List.length_cons]; show 0 + 1 + rest.length = rest.length + 1; omega
    have e2 : seqsOf (rest.flatten.foldl (stepB B) (f.foldl (stepB B) {})) = (f :: rest).map (·.filterMap B) := by
      rw [h2.2, hs1]; simp
    simp only [seqsOf] at e2
    rw [e1, e2]

/-! ### what `removeExpandedComponents` removes -/

theorem hasNum_iff {n : Nat} {f : Field} (hb : f.base.isSome = true) : hasNum n f = (fieldNumOf f == n) := by
  unfold hasNum fieldNumOf
  cases h : f.base with
  | none => rw [h] at hb; cases hb
  | some b => rfl

theorem removeField_filter (n : Nat) : ∀ fs : List Field, (∀ f ∈ fs, f.base.isSome = true) → (fs.map fieldNumOf).Nodup →
    removeField n fs = fs.filter (fun f => fieldNumOf f != n)
  | [], _, _ => rfl
  | f :: fs, hb, hnd => by
    have hbf := hb f (List.mem_cons_self ..)
    have hb' : ∀ x ∈ fs, x.base.isSome = true := fun x hx => hb x (List.mem_cons_of_mem _ hx)
    simp only [List.map_cons, List.nodup_cons] at hnd
    simp only [removeField, hasNum_iff hbf]
    by_cases hn : fieldNumOf f = n
    · have : (fieldNumOf f == n) = true := by simp [hn]
      simp only [this, ↓reduceIte, List.filter_cons, bne_iff_ne, ne_eq, hn, not_true_eq_false, decide_false, Bool.false_eq_true,
        beq_self_eq_true]
      symm
      apply List.filter_eq_self.mpr
      intro x hx
      simp only [bne_iff_ne, ne_eq]
      intro hxn
      exact hnd.1 (List.mem_map.mpr ⟨x, hx, by rw [hxn, hn]⟩)
    · have : (fieldNumOf f == n) = false := by simp [hn]
      simp only [this, Bool.false_eq_true, ↓reduceIte, List.filter_cons, bne_iff_ne, ne_eq, hn, not_false_eq_true, decide_true,
        removeField_filter n fs hb' hnd.2]

theorem foldl_removeField (cands : List Nat) : ∀ fs : List Field, (∀ f ∈ fs, f.base.isSome = true) → (fs.map fieldNumOf).Nodup →
    cands.foldl (fun fs n => removeField n fs) fs = fs.filter (fun f => !cands.contains (fieldNumOf f)) := by
  induction cands with
  | nil => intro fs _ _; simp only [List.foldl_nil, List.contains_nil, Bool.not_false]; exact (List.filter_eq_self.mpr (fun _ _ => rfl)).symm
  | cons c cs ih =>
    intro fs hb hnd
    simp only [List.foldl_cons]
    rw [removeField_filter c fs hb hnd, ih]
    · rw [List.filter_filter]
      apply List.filter_congr
      intro x _
      simp only [List.contains_cons, Bool.not_or, bne]
      cases h1 : fieldNumOf x == c <;> cases h2 : cs.contains (fieldNumOf x) <;> rfl
    · intro f hf; exact hb f (List.mem_filter.mp hf).1
    · exact List.Pairwise.sublist (List.Sublist.map _ List.filter_sublist) hnd

/-- **what the reader removes**: when the field numbers are distinct, exactly the fields that are a component target of
a field present in the message (own components or those of any of its sub-fields) -/
theorem removeExpanded_filter (mesgNum : Nat) (fs : List Field) (hb : ∀ f ∈ fs, f.base.isSome = true)
    (hnd : (fs.map fieldNumOf).Nodup) :
    removeExpanded mesgNum fs = fs.filter (fun f => !(fs.flatMap (targetsOf mesgNum)).contains (fieldNumOf f)) := by
  unfold removeExpanded
  simp only
  rw [foldl_removeField _ fs hb hnd]
  apply List.filter_congr
  intro x hx
  congr 1
  have hp : (fs.map fieldNumOf).contains (fieldNumOf x) = true := by
    simp only [List.contains_iff_mem]; exact List.mem_map.mpr ⟨x, hx, rfl⟩
  cases h : (fs.flatMap (targetsOf mesgNum)).contains (fieldNumOf x)
  · simp only [List.contains_eq_mem, decide_eq_false_iff_not] at h ⊢
    intro hm
    rw [List.mem_eraseDups] at hm
    exact h (List.mem_filter.mp hm).1
  · simp only [List.contains_eq_mem, decide_eq_true_eq] at h ⊢
    rw [List.mem_eraseDups]
    exact List.mem_filter.mpr ⟨h, hp⟩

end Fit.Csv
