import FitProps.ActivityLemmas
import FitProps.ActivityLeakLemmas
import FitProps.ActivityAccLemmas
import FitModel.Aggregator
/-!
# C20 — fitactivity: conceal hides the stretch; remove/reduce/combine conserve the rest

PROPERTY THEOREMS (audited by ./check): every `theorem C20_…` below.
The model (`FitModel/Activity.lean`) follows cmd/fitactivity/{concealer,remover,reducer,combiner} on protocol
messages; `Rel2 R xs ys` = same length and `R xs[i] ys[i]` at every position; `DistOK` = "records carry valid,
non-decreasing distances".
-/
namespace Fit.C20
open Fit.Msg Fit.Value Fit.Activity Fit.Gen Fit.Gen.Tool

/-! ## concealer -/

def mkRec (ts lat long d : Nat) : Message :=
  { num := mnRecord, devFields := [], fields := [
      { base := some { num := fnRecordTimestamp, baseType := btUint32 }, value := .uint32 ts },
      { base := some { num := fnRecordPositionLat, baseType := btSint32 }, value := .int32 lat },
      { base := some { num := fnRecordPositionLong, baseType := btSint32 }, value := .int32 long },
      { base := some { num := fnRecordDistance, baseType := btUint32, accumulate := true }, value := .uint32 d }] }



/-- **Concealing hides the stretch.** On an activity whose records carry valid non-decreasing distances and whose
records have at most one position_lat and one position_long field, after `Conceal(first, last)` every record inside
the first `first` or the last `last` units of distance has no position field left (position-wise: the output
has the same length and message numbers as the input). -/
theorem C20_conceal_hides (first last : Nat) (ms : List Message) (h : DistOK ms)
    (hu : ∀ m ∈ ms, isRecord m = true → UniqueNum fnRecordPositionLat m ∧ UniqueNum fnRecordPositionLong m) :
    ∀ (i : Nat) (m m' : Message), ms[i]? = some m → (conceal first last ms)[i]? = some m' → isRecord m = true →
      (inStart first m = true ∨ inEnd last ms m = true) → posFree m' = true := by
  intro i m m' hm hm' hr hin
  have hrel := (conceal_records first last ms h).get i m m' hm hm'
  rw [hrel.2 hr]
  show posFree (hideIf (fun m => decide (lastDist ms - dist m < last)) (hideIf (fun m => decide (dist m < first)) m)) = true
  obtain ⟨u1, u2⟩ := hu m (List.mem_of_getElem? hm) hr
  rcases hin with h1 | h2
  · apply posFree_hideIf_of_posFree
    have : hideIf (fun m => decide (dist m < first)) m = stripPos m := by
      simp only [inStart, decide_eq_true_eq] at h1; simp [hideIf, hr, h1]
    rw [this]; exact posFree_stripPos u1 u2
  · simp only [inEnd, decide_eq_true_eq] at h2
    by_cases h1 : dist m < first
    · apply posFree_hideIf_of_posFree
      have : hideIf (fun m => decide (dist m < first)) m = stripPos m := by simp [hideIf, hr, h1]
      rw [this]; exact posFree_stripPos u1 u2
    · have e1 : hideIf (fun m => decide (dist m < first)) m = m := by simp [hideIf, h1]
      rw [e1]
      have : hideIf (fun m => decide (lastDist ms - dist m < last)) m = stripPos m := by simp [hideIf, hr, h2]
      rw [this]; exact posFree_stripPos u1 u2

/-- **Exactly which position fields of a record go** (no uniqueness assumed): `RemoveFieldByNum` removes the FIRST field
with the number, so of a record the concealer strips (`stripPos`) exactly the first position_lat and the first
position_long field are gone — every other field, further position fields included, stays, in order — and the record is
left without any position field IF AND ONLY IF it carried each of the two at most once. `UniqueNum` in
`C20_conceal_hides` is therefore necessary, not only sufficient: on a record with a duplicated position field (a
message definition listing the field twice) the concealer leaves the second one (model and code agree; reported as
`n/a` by the `--prop` oracle, counted in the evidence). -/
theorem C20_conceal_hides_exact (m : Message) :
    fsn fnRecordPositionLat (stripPos m) = (fsn fnRecordPositionLat m).tail ∧
    fsn fnRecordPositionLong (stripPos m) = (fsn fnRecordPositionLong m).tail ∧
    (stripPos m).fields.filter (other [fnRecordPositionLat, fnRecordPositionLong]) =
      m.fields.filter (other [fnRecordPositionLat, fnRecordPositionLong]) ∧
    (posFree (stripPos m) = true ↔ UniqueNum fnRecordPositionLat m ∧ UniqueNum fnRecordPositionLong m) := by
  have hne : fnRecordPositionLong ≠ fnRecordPositionLat := by decide
  have e1 : fsn fnRecordPositionLat (stripPos m) = (fsn fnRecordPositionLat m).tail := by
    unfold stripPos; rw [fsn_rm_ne hne, fsn_rm_same]
  have e2 : fsn fnRecordPositionLong (stripPos m) = (fsn fnRecordPositionLong m).tail := by
    unfold stripPos; rw [fsn_rm_same, fsn_rm_ne (Ne.symm hne)]
  have hpf : ∀ x : Message, posFree x = true ↔ fsn fnRecordPositionLat x = [] ∧ fsn fnRecordPositionLong x = [] := by
    intro x
    simp only [posFree, fsn, List.all_eq_true, Bool.and_eq_true, Bool.not_eq_true', List.filter_eq_nil_iff,
      Bool.not_eq_true]
    exact ⟨fun h => ⟨fun f hf => (h f hf).1, fun f hf => (h f hf).2⟩, fun h f hf => ⟨h.1 f hf, h.2 f hf⟩⟩
  have htl : ∀ l : List Field, l.tail = [] ↔ l.length ≤ 1 := by
    intro l; cases l with
    | nil => simp
    | cons a t => cases t <;> simp
  refine ⟨e1, e2, ?_, ?_⟩
  · show (removeField fnRecordPositionLong (removeField fnRecordPositionLat m.fields)).filter _ = _
    rw [removeField_other (by simp), removeField_other (by simp)]
  · rw [hpf, e1, e2, htl, htl]; rfl

/-- **…and nothing else of a record.** Under the same hypothesis a record outside both stretches comes out
unchanged, and a record inside loses exactly its (first) position_lat / position_long field. -/
theorem C20_conceal_records_exact (first last : Nat) (ms : List Message) (h : DistOK ms) :
    ∀ (i : Nat) (m m' : Message), ms[i]? = some m → (conceal first last ms)[i]? = some m' → isRecord m = true →
      m' = hideIf (inEnd last ms) (hideIf (inStart first) m) ∧
      (inStart first m = false → inEnd last ms m = false → m' = m) := by
  intro i m m' hm hm' hr
  have hrel := (conceal_records first last ms h).get i m m' hm hm'
  refine ⟨hrel.2 hr, fun h1 h2 => ?_⟩
  rw [hrel.2 hr]
  simp only [inStart, inEnd, decide_eq_false_iff_not] at h1 h2
  simp [hideIf, h1, h2]

/-- **Concealing changes nothing other than position fields** (no hypothesis at all): the output has the same
number of messages; at every position the message number and the developer fields are the same, and so are — in
order and content — all fields other than position_lat/long of a record and start/end_position_lat/long of a lap or
session; a message of any other kind is identical. -/
theorem C20_conceal_only_positions (first last : Nat) (ms : List Message) :
    (conceal first last ms).length = ms.length ∧
    ∀ (i : Nat) (m m' : Message), ms[i]? = some m → (conceal first last ms)[i]? = some m' →
      Touch m m' ∧ (posNums m.num = [] → m' = m) := by
  have h := conceal_touch first last ms
  refine ⟨h.length_eq.symm, fun i m m' hm hm' => ?_⟩
  have t := h.get i m m' hm hm'
  exact ⟨t, t.eq_of_other⟩

/-- **No lap or session position points into a concealed stretch** — the full statement: for every activity with
valid non-decreasing distances (the property's own hypothesis) that is well-formed — its laps (sessions) carry valid
times and follow each other in time (`lapsSeqB`: a lap is a stretch of the activity; laps that overlap in time or are
out of order are not an activity) and its records, laps and sessions carry each position field at most once
(`recUniqueB`, `lapUniqueB`: `RemoveFieldByNum` removes the first field with a number only, see
`C20_conceal_hides_exact`) — after concealing no lap (session) keeps a start/end position that belongs to an instant
outside the revealed window, unless it was replaced by the coordinates of the first / last revealed record and that
record is itself revealed (`noLeakB`, FitModel/ActivitySpec.lean). NO hypothesis on the timestamps of the records.
FALSE on the pinned tree in the class of KF-C20-1 (= design finding F17: seconds + raw milliseconds); two other defects
were repaired in /repo: KF-C20-2 (commit bd79ab7) and KF-C20-4 (the two stretches overlap and two records at the
boundary carry the same timestamp: a lap kept the coordinates of a concealed record — found when the hypothesis
"timestamps strictly increase", which an earlier version of this statement carried, was dropped and the generator left
the one-tick-per-record zone). Proved outside the class of KF-C20-1: `C20_conceal_lap_session_partial`. -/
def C20_conceal_lap_session_full : Prop :=
  ∀ (ph : PH) (first last : Nat) (ms : List Message), (ph = lapPH ∨ ph = sesPH) → DistOK ms →
    lapsSeqB ph ms = true → recUniqueB ms = true → lapUniqueB ph ms = true →
    noLeakB ph first last ms (conceal first last ms) = true

/-- **No lap or session position points into a concealed stretch, outside the class of KF-C20-1** (`_partial`: the only
added hypothesis, `unitsDisagree ph first ms = false`, is the negation of the class predicate of the open finding — the
predicate `--kf` evaluates: on no lap/session does the code's test `start_time + total_timer_time < T`, seconds plus raw
milliseconds, differ from the test in seconds). For any conceal distances (overlapping stretches, nothing left revealed,
nothing concealed), any number of laps / sessions and records, any other messages in between, and ANY record timestamps
(equal, decreasing): the forward and backward scans, the overlap test, the two lap/session passes of each stage and
their composition. -/
theorem C20_conceal_lap_session_partial (ph : PH) (first last : Nat) (ms : List Message) (hph : ph = lapPH ∨ ph = sesPH)
    (hd : DistOK ms) (hseq : lapsSeqB ph ms = true) (hur : recUniqueB ms = true)
    (hul : lapUniqueB ph ms = true) (hkf : unitsDisagree ph first ms = false) :
    noLeakB ph first last ms (conceal first last ms) = true :=
  conceal_noLeak hph first last ms hd hseq hur hul hkf

/-- **Exactly what concealing does to each lap / session** (so that `Touch`, which would also allow stripping more, is
not the last word), outside the class of KF-C20-1. With T₁ = timestamp of the first record at or beyond `first` (`r1`;
no such record: every lap ends before it) and T₂ = timestamp of the last record at least `last` before the end (`r2`),
`Stages` (FitProps/ActivityLeakLemmas.lean) says of every lap (session) `m`, its state `m1` after the start stage and
`m'` after the end stage — start_time and total_timer_time never change —:
* start stage, `first ≠ 0`: a lap ending before T₁ loses all four positions (`strip4`); a lap not ending before T₁ is
  either THE one that gets the record's coordinates as start position (`rewriteStart`: the field is removed when the
  record has no position, and a lap without the field gets none) — its end position untouched — or it is untouched and
  starts at or after T₁ (the laps after the rewritten one). `first = 0`: untouched;
* end stage, `last ≠ 0`: no record left revealed, or the stretches overlap (`ov`): all four positions go; otherwise a lap
  starting after T₂ loses all four; a lap starting at or before T₂ is either THE one that gets the record's coordinates
  as end position (`rewriteEnd … false`: start position untouched) or it is untouched and ends at or before T₂.
  `last = 0`: untouched.
Which lap is "the one" is said by the walk theorems `C20_conceal_lap_session_start_partial` / `_end`: the first lap
not ending before T₁ — even when it STARTS after T₁ (T₁ in a gap between two laps: that lap's start position, which
did not point into the stretch, is replaced by the record's; over-concealing in the letter, harmless, and allowed by
the reading of the property's last clause, DESIGN §3) — and the last lap starting at or before T₂. -/
theorem C20_conceal_lap_session_stages (ph : PH) (first last : Nat) (ms : List Message) (hph : ph = lapPH ∨ ph = sesPH)
    (hd : DistOK ms) (hseq : lapsSeqB ph ms = true) (hur : recUniqueB ms = true) (hkf : unitsDisagree ph first ms = false) :
    ∃ (r1 r2 : RecInfo) (ov : Bool),
      ∀ (i : Nat) (m m' : Message), ms[i]? = some m → (conceal first last ms)[i]? = some m' → (m.num == ph.mesgNum) = true →
        ∃ m1, Stages ph first last ms m m1 m' r1 r2 ov := by
  obtain ⟨r1, r2, ov, h⟩ := conceal_stages hph first last ms hd hseq hur hkf
  exact ⟨r1, r2, ov, fun i m m' hm hm' hn => h.get i m m' hm hm' hn⟩

/-- strictly increasing record timestamps (an activity recorded forward in time, at most one record per second) exclude
the class of the former finding KF-C20-4 (`overlapTie`) — why the first version of the statement, which assumed them,
could not see it -/
theorem C20_overlapTie_false_of_increasing (first last : Nat) (ms : List Message) (hd : DistOK ms)
    (ht : recTimesIncB ms = true) : overlapTie first last ms = false :=
  overlapTie_false_of_inc first last ms hd ht

/-- KF-C20-4 (fixed in /repo), the witness: four records 1 m apart, the two in the middle written in the same second
(t = 110); lap 1 = [100 s, 110 s] after the first two records, lap 2 = [110 s, 120 s] at the end; total_timer_time in
milliseconds. Conceal the first 1.5 m and the last 1.5 m: the stretches overlap, EVERY record loses its position —
before the fix lap 1 came out with a start position, the coordinates of record 3 (which the end stage conceals), and
with its end position (`updateStartPosition` rewrites the first lap reaching T, `updateEndPosition` handled the LAST
lap starting at or before T — with a tie these are different laps). Every hypothesis of the full statement holds
(and `unitsDisagree` is false: this was not KF-C20-1). -/
def tieWitness : List Message :=
  let lap (a b sl el : Nat) : Message :=
    { num := mnLap, devFields := [], fields := [
        { base := some { num := fnLapStartTime, baseType := btUint32 }, value := .uint32 a },
        { base := some { num := fnLapStartPositionLat, baseType := btSint32 }, value := .int32 sl },
        { base := some { num := fnLapStartPositionLong, baseType := btSint32 }, value := .int32 (sl + 1000) },
        { base := some { num := fnLapEndPositionLat, baseType := btSint32 }, value := .int32 el },
        { base := some { num := fnLapEndPositionLong, baseType := btSint32 }, value := .int32 (el + 1000) },
        { base := some { num := fnLapTotalTimerTime, baseType := btUint32 }, value := .uint32 ((b - a) * 1000) }] }
  [mkRec 100 1000 2000 0, mkRec 110 1001 2001 100, lap 100 110 1000 1001, mkRec 110 1002 2002 200, mkRec 120 1003 2003 300,
   lap 110 120 1002 1003]

theorem C20_conceal_lap_session_tie_witness_fixed :
    distOKB tieWitness = true ∧ lapsSeqB lapPH tieWitness = true ∧ recUniqueB tieWitness = true ∧
    lapUniqueB lapPH tieWitness = true ∧ unitsDisagree lapPH 150 tieWitness = false ∧
    overlapTie 150 150 tieWitness = true ∧ recTimesIncB tieWitness = false ∧
    ((conceal 150 150 tieWitness).filter isRecord).all posFree = true ∧
    noLeakB lapPH 150 150 tieWitness (conceal 150 150 tieWitness) = true ∧
    ((conceal 150 150 tieWitness).filter (·.num == mnLap)).all (fun m => (posNums mnLap).all fun n => (fsn n m).isEmpty) = true := by
  decide +kernel

/-- the design witness of F17: 10 records 100 m and 10 s apart, lap 1 = the first 3 records, lap 2 = the other 7,
total_timer_time in milliseconds as real files carry it -/
def f17Witness : List Message :=
  let t0 := 1000000000
  let recd (i : Nat) : Message := mkRec (t0 + 10 * i) (1000 + i) (2000 + i) (10000 * i)
  let lap (a b : Nat) : Message :=
    { num := mnLap, devFields := [], fields := [
        { base := some { num := fnTimestamp, baseType := btUint32 }, value := .uint32 (t0 + 10 * b) },
        { base := some { num := fnLapStartTime, baseType := btUint32 }, value := .uint32 (t0 + 10 * a) },
        { base := some { num := fnLapStartPositionLat, baseType := btSint32 }, value := .int32 (1000 + a) },
        { base := some { num := fnLapStartPositionLong, baseType := btSint32 }, value := .int32 (2000 + a) },
        { base := some { num := fnLapEndPositionLat, baseType := btSint32 }, value := .int32 (1000 + b) },
        { base := some { num := fnLapEndPositionLong, baseType := btSint32 }, value := .int32 (2000 + b) },
        { base := some { num := fnLapTotalTimerTime, baseType := btUint32 }, value := .uint32 ((b - a) * 10 * 1000) }] }
  [recd 0, recd 1, recd 2, lap 0 2, recd 3, recd 4, recd 5, recd 6, recd 7, recd 8, recd 9, lap 3 9]

/-- KF-C20-1 (F17): concealing the first 500 m leaves lap 1 (entirely inside the stretch) with its end position and
lap 2 with the start position of record 4 — the hypotheses of the full statement hold, its conclusion does not -/
theorem C20_conceal_lap_session_F17_witness :
    distOKB f17Witness = true ∧ recTimesIncB f17Witness = true ∧ lapsSeqB lapPH f17Witness = true ∧
    recUniqueB f17Witness = true ∧ lapUniqueB lapPH f17Witness = true ∧
    noLeakB lapPH 50000 0 f17Witness (conceal 50000 0 f17Witness) = false ∧
    unitsDisagree lapPH 50000 f17Witness = true := by decide +kernel

/-- non-vacuity of `C20_conceal_lap_session_partial`: the same activity with the first 200 m and the last 300 m
concealed meets every hypothesis (lap 1 reaches the first revealed record, so the two tests agree), and positions
are rewritten: lap 1 starts at record 3's position, lap 2 ends at record 7's -/
example : distOKB f17Witness = true ∧ lapsSeqB lapPH f17Witness = true ∧
    recUniqueB f17Witness = true ∧ lapUniqueB lapPH f17Witness = true ∧ unitsDisagree lapPH 20000 f17Witness = false ∧
    conceal 20000 30000 f17Witness ≠ f17Witness := by decide +kernel

/-- non-vacuity beyond strictly increasing timestamps: the tie witness (two records share a timestamp) meets every
hypothesis of `C20_conceal_lap_session_partial`, with non-overlapping and with overlapping stretches -/
example : distOKB tieWitness = true ∧ lapsSeqB lapPH tieWitness = true ∧ recUniqueB tieWitness = true ∧
    lapUniqueB lapPH tieWitness = true ∧ unitsDisagree lapPH 50 tieWitness = false ∧ unitsDisagree lapPH 150 tieWitness = false ∧
    recTimesIncB tieWitness = false ∧ conceal 50 50 tieWitness ≠ tieWitness := by decide +kernel

/-- the class of the former KF-C20-4 with DEcreasing timestamps (two records, distances increasing, first 500 m and last
600 m concealed: the first revealed record of the start stage — record 2 — is concealed by the end stage). Before /repo
a90ed67 lap 1, rewritten by the start stage with record 2's coordinates, was not reached by the end stage, which goes by
time; now the overlap makes the end stage strip every lap: the statement holds -/
example :
    let r (ts lat d : Nat) := mkRec ts lat (lat + 1000) d
    let lap (a b : Nat) : Message :=
      { num := mnLap, devFields := [], fields := [
          { base := some { num := fnLapStartTime, baseType := btUint32 }, value := .uint32 a },
          { base := some { num := fnLapStartPositionLat, baseType := btSint32 }, value := .int32 7 },
          { base := some { num := fnLapTotalTimerTime, baseType := btUint32 }, value := .uint32 ((b - a) * 1000) }] }
    let ms := [r 100 1 0, r 50 2 100000, lap 40 60, lap 70 80]
    distOKB ms = true ∧ recTimesIncB ms = false ∧ lapsSeqB lapPH ms = true ∧ unitsDisagree lapPH 50000 ms = false ∧
      overlapTie 50000 60000 ms = true ∧ noLeakB lapPH 50000 60000 ms (conceal 50000 60000 ms) = true := by decide +kernel

/-- KF-C20-2 (fixed by /repo commit bd79ab7): concealing the last 2000 m of the same 900 m activity conceals every
record; lap 1 used to keep all its positions — with the fixed `updateEndPosition` the statement holds on the witness -/
theorem C20_conceal_lap_session_allend_fixed :
    distOKB f17Witness = true ∧ lapsSeqB lapPH f17Witness = true ∧ allConcealedAtEnd 200000 f17Witness = true ∧
    noLeakB lapPH 0 200000 f17Witness (conceal 0 200000 f17Witness) = true := by decide +kernel

/-- **Start stage, in seconds** (`_partial`: the hypothesis `hu` excludes the class of KF-C20-1 = F17). If the laps
(sessions) follow each other in time (`lapsSeqP`) and on each of them the code's test `start_time + total_timer_time <
T` — seconds plus raw milliseconds — agrees with the test in seconds `start_time + total_timer_time/1000 < T`
(T = timestamp of the first revealed record), then `updateStartPosition` does what concealing demands: a lap lying
entirely before T loses all four positions; the first lap reaching T gets the record's position as start position;
every later lap is left alone and starts at or after T. For any number of laps and any other messages in between. -/
theorem C20_conceal_lap_session_start_partial (ph : PH) (r : RecInfo) (ms : List Message)
    (hseq : lapsSeqP ph 0 ms)
    (hu : ∀ m ∈ ms, (m.num == ph.mesgNum) = true → endsBefore ph r m = decide (lapEndTime ph m < r.ts)) :
    Rel2 (StartStageOK ph r) ms (updStart ph r ms) := by
  rw [updStart_eq_walk]
  exact startWalk_ok ph r ms true 0 hseq (fun h => by cases h) hu

/-- **End stage** (no unit problem: it compares start times only; the list is walked backwards, `rs` is the reversed
message list). With a last revealed record (timestamp T): a lap starting after T loses all four positions; the last lap
starting at or before T gets the record's position as end position (and loses its start position when the two
stretches overlap); every earlier lap is left alone and ends at or before T. -/
theorem C20_conceal_lap_session_end (ph : PH) (r : RecInfo) (ov : Bool) (hr : r.absent = false) (rs : List Message) (hi : Nat)
    (hseq : lapsSeqRevP ph hi rs)
    (hv : ∀ m ∈ rs, (m.num == ph.mesgNum) = true → lapStartTime ph m ≠ uint32Invalid) :
    Rel2 (EndStageOK ph r ov) rs (updEndRev ph r ov rs) := by
  rw [updEndRev_eq_walk]
  exact endWalk_ok ph r ov hr rs true hi hseq (fun h => by cases h) hv

/-- **End stage with no record left revealed** (the situation of KF-C20-2, fixed by /repo commit bd79ab7): every lap
and session loses all four positions. -/
theorem C20_conceal_lap_session_none_revealed (ph : PH) (r : RecInfo) (ov : Bool) (hr : r.absent = true) (rs : List Message) :
    Rel2 (fun m m' => (m.num == ph.mesgNum) = true → m' = strip4 ph m) rs (updEndRev ph r ov rs) := by
  rw [updEndRev_eq_walk]
  exact endWalk_absent ph r ov hr rs

/-! ## remover -/

/-- **Removing deletes exactly the selected messages** and keeps all others in their original order and content
(with the developer-data option the developer fields of the kept messages are dropped as well — that is the option).
The model runs the three in-place swap-compaction loops as written; this says they amount to a filter. -/
theorem C20_remove_exact (o : RemoveOpts) (ms : List Message) :
    remove o ms = (ms.filter fun m => !selected o m).map
      (fun m => if o.devData then { m with devFields := [] } else m) := by
  have hnums : ∀ l : List Message, (if o.nums.length != 0 then removeNums o.nums l else l) =
      l.filter (fun m => !o.nums.contains m.num) := by
    intro l
    cases hn : o.nums with
    | nil => simp only [List.length_nil, bne_self_eq_false, Bool.false_eq_true, ↓reduceIte, List.contains_nil, Bool.not_false]; exact (List.filter_eq_self.mpr (fun _ _ => rfl)).symm
    | cons a as => simp [removeNums, compact_stateless]
  unfold remove
  simp only [hnums]
  cases hu : o.unknown <;> cases hd : o.devData <;>
    simp [removeUnknown, removeDevData, compact_stateless, selected, hu, hd, List.filter_filter, Bool.and_comm]

/-- without the developer-data option the kept messages are literally the input's -/
theorem C20_remove_sublist (o : RemoveOpts) (ms : List Message) (h : o.devData = false) :
    (remove o ms).Sublist ms ∧ remove o ms = ms.filter fun m => !selected o m := by
  have := C20_remove_exact o ms
  simp only [h, Bool.false_eq_true, ↓reduceIte, List.map_id'] at this
  exact ⟨this ▸ List.filter_sublist, this⟩

/-! ## reducer -/

/-- **Reducing by distance, every message list** (no hypothesis on the records): the output relates to the input by
`ReducedI` (FitModel/ActivitySpec.lean) — every non-record message stays; the first record stays, whatever it carries; a
later record that carries NO valid distance is left out (`if d == basetype.Uint32Invalid { continue }`: the reducer's
choice for a record that has no place on the distance axis — the one case in which a record goes that is not "closer
than the interval", outside the property's parenthesis, which speaks of records that lie somewhere; stated, not hidden);
a later record with a valid distance is left out exactly when its distance (uint32 difference, as Go computes it) to the
reference — the last kept record with a valid distance (0 if the first record has none) — is below the threshold. -/
theorem C20_reduce_exact_distance_all (th : Nat) (ms : List Message) :
    ReducedI dist wrapSub th 0 false ms (reduceByDistance th ms) := by
  unfold reduceByDistance
  rw [compact_interval]
  exact spec_interval_reducedI dist th ms {}

/-- **Reducing by time, every message list**: the same with timestamps. -/
theorem C20_reduce_exact_time_all (th : Nat) (ms : List Message) :
    ReducedI tstamp wrapSub th 0 false ms (reduceByTime th ms) := by
  unfold reduceByTime
  rw [compact_interval]
  exact spec_interval_reducedI tstamp th ms {}

/-- what `ReducedI` gives, with no hypothesis: the output is a sublist of the input (order and content kept), every
non-record is kept, the first record is kept; and when every record carries a valid key it is `Reduced` — a record is
dropped only if it lies closer than the interval to the previously kept record -/
theorem C20_reduce_conserves_all {key diff th ms out} (h : ReducedI key diff th 0 false ms out) :
    out.Sublist ms ∧ out.filter (fun m => !isRecord m) = ms.filter (fun m => !isRecord m) ∧
    out.find? isRecord = ms.find? isRecord ∧ (KeysValid key ms → Reduced key diff th none ms out) :=
  ⟨h.sublist, h.nonRecords, h.firstRecord, fun hv => by simpa using h.toReduced hv⟩

/-- non-vacuity of the invalid-key clause: three records, the middle one without distance, 1.5 m interval — the middle
record goes although it is not "closer than the interval" to anything, the third is measured against the first -/
example :
    let noDist : Message := { num := mnRecord, devFields := [], fields := [
      { base := some { num := fnRecordTimestamp, baseType := btUint32 }, value := .uint32 20 }] }
    (reduceByDistance 150 [mkRec 10 1 2 0, noDist, mkRec 30 5 6 200]).map tstamp = [10, 30] ∧
    keysValidB dist [mkRec 10 1 2 0, noDist, mkRec 30 5 6 200] = false := by decide

/-- **Reducing by distance.** If every record carries a valid distance, the output relates to the input by
`Reduced`: every non-record message stays, the first record stays, and a later record is left out exactly when its
distance (uint32 difference, as Go computes it) to the previously kept record is below the threshold. -/
theorem C20_reduce_exact_distance (th : Nat) (ms : List Message) (hv : KeysValid dist ms) :
    Reduced dist wrapSub th none ms (reduceByDistance th ms) := by
  unfold reduceByDistance
  rw [compact_interval]
  exact spec_interval_reduced dist th ms none hv

/-- with non-decreasing distances (`DistOK`) the difference is the ordinary one: a record is dropped only if it
lies closer than the interval to the previously kept record -/
theorem C20_reduce_exact_distance_mono (th : Nat) (ms : List Message) (h : DistOK ms) :
    Reduced dist (fun d k => d - k) th none ms (reduceByDistance th ms) := by
  have hv : KeysValid dist ms := fun m hm hr => h.1 _ (mem_recDists hm hr)
  refine (C20_reduce_exact_distance th ms hv).ofMono (fun m _ _ => dist_lt m) ?_ (fun k hk => by cases hk)
  have := h.2
  simp only [recDists, List.pairwise_map] at this
  exact this

/-- **Reducing by time**: the same with timestamps. -/
theorem C20_reduce_exact_time (th : Nat) (ms : List Message) (hv : KeysValid tstamp ms) :
    Reduced tstamp wrapSub th none ms (reduceByTime th ms) := by
  unfold reduceByTime
  rw [compact_interval]
  exact spec_interval_reduced tstamp th ms none hv

/-- what `Reduced` gives: the output is a sublist of the input (order and content kept), every non-record is
kept, and the first record is kept -/
theorem C20_reduce_conserves {key diff th ms out} (h : Reduced key diff th none ms out) :
    out.Sublist ms ∧ out.filter (fun m => !isRecord m) = ms.filter (fun m => !isRecord m) ∧
    out.find? isRecord = ms.find? isRecord :=
  ⟨h.sublist, h.nonRecords, h.firstRecord⟩

/-- **Reducing by RDP**, for ANY answer of the external simplifier (`carto/rdp`, a parameter): the output is a
sublist of the input and every non-record message is kept. -/
theorem C20_reduce_rdp_sublist (simplified : List Nat) (ms out : List Message)
    (h : reduceByRdp simplified ms = .ok out) :
    out.Sublist ms ∧ out.filter (fun m => !isRecord m) = ms.filter (fun m => !isRecord m) :=
  reduceByRdp_ok h

/-- **Reducing by RDP, with the simplifier's contract** (its answer is a sublist of the points it was handed — records
whose position_lat and position_long are both valid): the result is the input without exactly the records whose point
the simplifier dropped; every other message stays, in order. (A record without a valid position has no point and is
dropped.) The geometry of `carto/rdp` itself stays a parameter. -/
theorem C20_reduce_rdp_exact (simplified : List Nat) (ms : List Message) (hs : simplified.Sublist (pointIndexes ms))
    (hne : (pointIndexes ms).isEmpty = false) : reduceByRdp simplified ms = .ok (rdpExpected simplified ms) :=
  reduceByRdp_exact simplified ms hs hne

/-! ## combiner -/

/-- **When `Combine` answers at all** (the theorems below speak about successful runs). Empty inputs (files without
messages) are dropped first. With no input left — no input at all, or only empty ones — `result = fits[0]` PANICS (index
out of range; outside the property's quantifier "lists of 1..5 activities", modelled as `.panic` and exercised by the
family: `combine`, `combine / /`). If a non-empty input has no session message, `Combine` returns the error "no session
found" and no result. In every other case it succeeds (`.ok`; `.unmodelled` stands for an accumulable field of a float
type, which the profile does not have). -/
theorem C20_combine_domain (fits : List (List Message)) :
    ((∀ f ∈ fits, f = []) → (match combine fits with | .panic => True | _ => False)) ∧
    ((∃ f ∈ fits, f ≠ []) → (∃ f ∈ fits, f ≠ [] ∧ sessionsOf f = []) → (match combine fits with | .noSession => True | _ => False)) ∧
    ((∃ f ∈ fits, f ≠ []) → (∀ f ∈ fits, f ≠ [] → sessionsOf f ≠ []) →
      (match combine fits with | .ok _ _ => True | .unmodelled => True | _ => False)) := by
  have hmem : ∀ f, f ∈ sortByCreation (fits.filter (!·.isEmpty)) ↔ f ∈ fits ∧ f ≠ [] := by
    intro f
    rw [(sortByCreation_perm _).mem_iff, List.mem_filter]
    cases f <;> simp
  refine ⟨fun hall => ?_, fun ⟨g, hg, hgne⟩ ⟨f, hf, hfne, hfs⟩ => ?_, fun ⟨g, hg, hgne⟩ hall => ?_⟩
  · have : sortByCreation (fits.filter (!·.isEmpty)) = [] := by
      cases h : sortByCreation (fits.filter (!·.isEmpty)) with
      | nil => rfl
      | cons a l =>
        have := (hmem a).mp (by rw [h]; simp)
        exact absurd (hall a this.1) this.2
    simp [combine, this]
  · cases h : sortByCreation (fits.filter (!·.isEmpty)) with
    | nil => have := (hmem g).mpr ⟨hg, hgne⟩; rw [h] at this; cases this
    | cons a l =>
      have hany : (a :: l).any (fun f => (sessionsOf f).isEmpty) = true := by
        rw [List.any_eq_true]; exact ⟨f, by rw [← h]; exact (hmem f).mpr ⟨hf, hfne⟩, by simp [hfs]⟩
      simp only [combine, h, hany, if_true]
  · cases h : sortByCreation (fits.filter (!·.isEmpty)) with
    | nil => have := (hmem g).mpr ⟨hg, hgne⟩; rw [h] at this; cases this
    | cons a l =>
      have hany : (a :: l).any (fun f => (sessionsOf f).isEmpty) = false := by
        rw [List.any_eq_false]
        intro f hf
        have := (hmem f).mp (by rw [h]; exact hf)
        simpa using hall f this.1 this.2
      simp only [combine, h, hany, Bool.false_eq_true, if_false]
      cases combineBody (collectMesgs [] (filterBody a)) (List.map filterBody l) <;> trivial

example : (match combine [] with | .panic => true | _ => false) = true ∧
    (match combine [[], []] with | .panic => true | _ => false) = true ∧
    (match combine [[mkRec 1 2 3 4]] with | .noSession => true | _ => false) = true := by decide

/-- **Combining keeps every message of every input in creation-time order.** Whenever `Combine` succeeds, the body of
the result (everything before the sport / split_summary / session / activity messages it appends) is — up to the VALUES
of accumulable fields, which are continued across the file boundaries — exactly the messages of the inputs: the first
file (creation-time order) without its session, activity, sport and split_summary messages, then every later file
without these and without file_id / file_creator; nothing else is dropped, added or reordered. In particular every
record of every input is there, in order. -/
theorem C20_combine_order (fits : List (List Message)) (body : List Message) (tr : List Trailer)
    (h : combine fits = .ok body tr) : body.map blankAcc = (bodyInputs fits).flatten.map blankAcc :=
  combine_body_blank fits body tr h

/-- **Creation-time order**: the files are taken in a permutation of the given order that is sorted by the
time_created of their first message, and files with equal creation time keep their given order (stability) — for any
number of files. -/
theorem C20_combine_sort (fs : List (List Message)) :
    (sortByCreation fs).Perm fs ∧ ByCreation (sortByCreation fs) ∧
    ∀ k, (sortByCreation fs).filter (fun x => timeCreated x == k) = fs.filter (fun x => timeCreated x == k) :=
  ⟨sortByCreation_perm fs, sortByCreation_sorted fs, fun k => sortByCreation_stable k fs⟩

/-- **Combining continues the accumulated quantities across the file boundaries without loss.** Whenever `Combine`
succeeds, the body of the result is exactly `expectedBody` (FitModel/ActivitySpec.lean): every message of every input
in creation-time order, and the value of every valid accumulable field (distance, accumulated power, cycles, … — any
(message number, field number), scalar or array, every integer type) of a later file is its input value plus the LAST
value of the same quantity in each earlier file that has it, `out = in + Σ last values of the earlier files`
(`continueAcc`: a left fold of `sumValue` over the earlier files, with Go's wrap-around of the field's width) — for any
number of files, quantities that appear or disappear from file to file included (the class of KF-C20-3, fixed).
Proved through the accumulator's invariant (FitProps/ActivityAccLemmas.lean: `Inv`, `WInv`): between two files the
entry of a key holds the sum of the last values of the earlier files; inside a file `last` follows the most recent
value met. Together with `C20_combine_order` / `C20_combine_sort` this is the combine clause of the property. -/
theorem C20_combine_accumulate (fits : List (List Message)) (body : List Message) (tr : List Trailer)
    (h : combine fits = .ok body tr) : expectedBody fits = some body :=
  combine_accumulate fits body tr h

/-- what `expectedBody` asks of one field, spelled out: for a valid accumulable field `f` of a message numbered `mn` the
expected value is the fold `((v + l₀) + l₁) + …` over the earlier files' last values of the key (files without the key
are skipped), and a field that is not accumulable (or invalid) stays as it is -/
theorem C20_combine_closed_form (earlier : List (List Message)) (mn : Nat) (f : Field) :
    continueAcc earlier mn f =
      if accumulable f then
        (earlier.foldl (fun acc file => match acc, lastIn mn (fieldNumOf f) file with
            | some v, some l => sumValue v l
            | some v, none => some v
            | none, _ => none) (some f.value)).map fun v => { f with value := v }
      else some f := by
  unfold continueAcc
  cases accumulable f
  · simp
  · simp only [Bool.not_true, Bool.false_eq_true, ↓reduceIte]
    congr 2

/-! ## the command line -/

/-- **`--first N` / `--last N` reach the concealer as N metres exactly up to 42 949 672 m.** main.go computes
`uint32(N)*100` (Generated/ToolCli.lean: width and factor read from the source, both call sites): for
`N·100 < 2^32` this is `N·100`, the distance in the unit of record.distance; beyond it the product wraps —
`--first 42949673` conceals 4 cm, `--first 4294967296` (2^32 m) nothing at all — silently. (Outside the property,
which is about `Conceal(mesgs, first, last)`; stated so that the range is on record.) -/
theorem C20_cli_threshold_exact :
    (∀ n : Nat, n * 100 < 2 ^ 32 → cliThreshold n = n * 100) ∧ (∀ n : Nat, n ≤ 42949672 → cliThreshold n = n * 100) ∧
    cliThreshold 42949673 = 4 ∧ cliThreshold (2 ^ 32) = 0 ∧ cliCallSites = 2 := by
  have e : ∀ n : Nat, n * 100 < 2 ^ 32 → cliThreshold n = n * 100 := by
    intro n h
    have hb : cliBits = 32 := by decide
    have hf : cliFactor = 100 := by decide
    unfold cliThreshold; rw [hb, hf]
    have : n < 2 ^ 32 := by omega
    rw [Nat.mod_eq_of_lt this, Nat.mod_eq_of_lt h]
  exact ⟨e, fun n h => e n (by omega), by decide, by decide, by decide⟩

/-! ## aggregator (used by the combiner on sessions and split summaries) -/

/-- **The invalid value is neutral for every aggregation rule** on unsigned fields: an invalid source leaves the
destination as it is, and an invalid destination takes the source — whatever the rule the field name selects
(sum, max, min, avg, fill), for every width. -/
theorem C20_agg_invalid_neutral (op : Fit.Agg.Op) (w d s : Nat) :
    Fit.Agg.aggU op w d (Fit.Agg.invU w) = d ∧ Fit.Agg.aggU op w (Fit.Agg.invU w) s = s := by
  constructor
  · unfold Fit.Agg.aggU
    split
    · split <;> simp_all
    · simp
  · unfold Fit.Agg.aggU
    split
    · simp
    · simp; intro h; exact h.symm

/-! ## non-vacuity -/

def demo : List Message := [mkRec 10 1 2 0, mkRec 20 3 4 100, mkRec 30 5 6 100, mkRec 40 7 8 250]

example : recDists demo = [0, 100, 100, 250] := by decide
example : (recDists demo).Pairwise (· ≤ ·) := by decide
example : ((conceal 100 100 demo).map posFree) = [true, false, false, true] := by decide
example : (reduceByDistance 150 demo).map dist = [0, 250] := by decide


/-- two activities, the second created later, each with distances 0, 100 (and the first ending at 100): combined, the
second one's records read 100, 200 -/
def demoFile (t d0 d1 : Nat) : List Message :=
  [{ num := mnFileId, devFields := [], fields := [{ base := some { num := fnFileIdTimeCreated, baseType := btUint32 }, value := .uint32 t }] },
   mkRec t 1 2 d0, mkRec (t + 10) 3 4 d1,
   { num := mnSession, devFields := [], fields := [{ base := some { num := fnSessionStartTime, baseType := btUint32 }, value := .uint32 t }] }]

example : (match combine [demoFile 5000 0 100, demoFile 1000 0 100] with
    | .ok body _ => (body.filter isRecord).map dist
    | _ => []) = [0, 100, 100, 200] := by decide +kernel

end Fit.C20
