import FitModel.Bits
import FitModel.Generated.Go_decoderbits
import FitProps.Go2LeanLemmas
/-!
Agreement of `(*bits).Pull` GENERATED from decoder/bits.go (`Go.decoderbits.bits.Pull`: the in-place loop over the 32 words with
index arithmetic, `continue`, and explicit panics for every index) with the hand-written model `Fit.Bits.pull` (a stream
over the words) that the theorems of C05 are about — for every store of 32 words and every bit size (a byte).
-/
set_option linter.unusedSimpArgs false
namespace Fit.Go2Lean
open Fit.Bits

theorem idxI_mid {α} (done : List α) (x : α) (rest : List α) : Go.idxI (done ++ x :: rest) (done.length : Int) = some x := by
  simp [Go.idxI]

theorem setIdxI_mid {α} (done : List α) (x y : α) (rest : List α) :
    Go.setIdxI (done ++ x :: rest) (done.length : Int) y = some (done ++ y :: rest) := by
  simp [Go.setIdxI, Go.setIdx]

theorem upI_cons (a b : Int) (h : a < b) : Go.upI a b = a :: Go.upI (a + 1) b := by
  unfold Go.upI
  have e : (b - a).toNat = (b - (a + 1)).toNat + 1 := by omega
  rw [e, List.range_succ_eq_map, List.map_cons, List.map_map]
  simp only [Int.ofNat_eq_natCast, Int.cast_ofNat_Int, Int.add_zero, List.cons.injEq, true_and]
  apply List.map_congr_left
  intro k _
  simp only [Function.comp_apply, Nat.succ_eq_add_one, Int.natCast_add, Int.cast_ofNat_Int]
  omega

theorem upI_nil (a : Int) : Go.upI a a = [] := by simp [Go.upI]

theorem mask_eq (n : Nat) : ((1 <<< n) % 2 ^ 64 + 2 ^ 64 - 1) % 2 ^ 64 = mask n := by
  unfold mask W
  rw [Nat.shiftLeft_eq, Nat.one_mul]
  by_cases h : n ≥ 64
  · have : 2 ^ n % 2 ^ 64 = 0 := Nat.mod_eq_zero_of_dvd (Nat.pow_dvd_pow 2 h)
    simp [h, this]
  · have h1 : 2 ^ n < 2 ^ 64 := Nat.pow_lt_pow_right (by decide) (by omega)
    have h2 : 1 ≤ 2 ^ n := Nat.one_le_two_pow
    rw [Nat.mod_eq_of_lt h1]
    simp only [h, if_false]
    omega

theorem shlTop_eq_go (hi n : Nat) (hn : n < 256) : (hi <<< ((64 + 2 ^ 8 - n) % 2 ^ 8)) % 2 ^ 64 = shlTop hi n := by
  unfold shlTop W
  have e : (64 + 256 - n % 256) % 256 = (64 + 2 ^ 8 - n) % 2 ^ 8 := by rw [Nat.mod_eq_of_lt hn]
  simp only [e]
  split
  · rename_i h
    rw [Nat.shiftLeft_eq]
    exact Nat.mod_eq_zero_of_dvd (Nat.dvd_trans (Nat.pow_dvd_pow 2 h) (Nat.dvd_mul_left _ _))
  · rfl

/-- the loop invariant: entering iteration `i = done.length + 1` the store is `done ++ prev :: tail` — `done` the finished
cells, `prev` cell `i-1` after its own right shift, `tail` the cells not yet touched — and the loop leaves
`done ++ pullLoop n prev tail` -/
theorem pull_loop (n : Nat) (f : Int → Go.decoderbits.bits → Option (ForInStep Go.decoderbits.bits))
    (hf : ∀ (done : List Nat) (prev w : Nat) (rest : List Nat), done.length + 2 + rest.length ≤ 64 →
      f ((done.length : Int) + 1) ⟨done ++ prev :: w :: rest⟩ = some (ForInStep.yield ⟨done ++
        (if w = 0 then prev :: 0 :: rest else (prev ||| shlTop (w &&& mask n) n) :: (w >>> n) :: rest)⟩)) :
    ∀ (tail done : List Nat) (prev : Nat), done.length + 1 + tail.length ≤ 64 →
      forIn (Go.upI ((done.length : Int) + 1) ((done.length : Int) + 1 + (tail.length : Int))) (⟨done ++ prev :: tail⟩ : Go.decoderbits.bits) f
        = some ⟨done ++ pullLoop n prev tail⟩ := by
  intro tail
  induction tail with
  | nil => intro done prev _; simp [upI_nil, pullLoop]
  | cons w rest ih =>
    intro done prev hlen
    simp only [List.length_cons] at hlen
    rw [upI_cons _ _ (by simp only [List.length_cons]; omega), List.forIn_cons, hf done prev w rest (by omega)]
    simp only [Option.bind_eq_bind, Option.bind_some]
    have e1 : (done.length : Int) + 1 + 1 = ((done ++ [if w = 0 then prev else prev ||| shlTop (w &&& mask n) n]).length : Int) + 1 := by
      simp
    have e2 : (done.length : Int) + 1 + ((w :: rest).length : Int)
        = ((done ++ [if w = 0 then prev else prev ||| shlTop (w &&& mask n) n]).length : Int) + 1 + (rest.length : Int) := by
      simp; omega
    rw [e1, e2]
    by_cases hw : w = 0
    · have := ih (done ++ [prev]) 0 (by simp; omega)
      simp only [hw, if_true, List.append_assoc, List.cons_append, List.nil_append] at this ⊢
      rw [this]; simp [pullLoop]
    · have := ih (done ++ [prev ||| shlTop (w &&& mask n) n]) (w >>> n) (by simp; omega)
      simp only [hw, if_false, List.append_assoc, List.cons_append, List.nil_append] at this ⊢
      rw [this]; simp [pullLoop, hw]

theorem pull_loop32 (n : Nat) (f : Int → Go.decoderbits.bits → Option (ForInStep Go.decoderbits.bits))
    (hf : ∀ (done : List Nat) (prev w : Nat) (rest : List Nat), done.length + 2 + rest.length ≤ 64 →
      f ((done.length : Int) + 1) ⟨done ++ prev :: w :: rest⟩ = some (ForInStep.yield ⟨done ++
        (if w = 0 then prev :: 0 :: rest else (prev ||| shlTop (w &&& mask n) n) :: (w >>> n) :: rest)⟩))
    (tail : List Nat) (ht : tail.length = 31) (prev : Nat) :
    forIn (Go.upI 1 32) (⟨prev :: tail⟩ : Go.decoderbits.bits) f = some ⟨pullLoop n prev tail⟩ := by
  have key := pull_loop n f hf tail [] prev (by simp [ht])
  simp only [List.length_nil, Int.natCast_zero, Int.zero_add, ht, List.nil_append] at key
  rw [show ((1 : Int) + ((31 : Nat) : Int)) = 32 by decide] at key
  exact key

/-- `(*bits).Pull(bitsize)` on a 32-word store never panics and is the model's `pull`: value and new store -/
theorem bits_pull (ws : List Nat) (hl : ws.length = 32) (n : Nat) (hn : n < 256) :
    Go.decoderbits.bits.Pull ⟨ws⟩ n = some (⟨(pull ws n).2⟩, (pull ws n).1) := by
  match ws, hl with
  | w0 :: tail, hl =>
    have ht : tail.length = 31 := by simpa using hl
    unfold Go.decoderbits.bits.Pull
    have i0 : ∀ (x : Nat) (l : List Nat), Go.idxI (x :: l) 0 = some x := fun x l => idxI_mid [] x l
    have s0 : ∀ (x y : Nat) (l : List Nat), Go.setIdxI (x :: l) 0 y = some (y :: l) := fun x y l => setIdxI_mid [] x y l
    simp only [i0, s0, Option.bind_eq_bind, Option.bind_some, Option.pure_def, mask_eq]
    rw [pull_loop32 n _ ?_ tail ht]
    · simp [pull]
    · intro done prev w rest hlen
      have a1 : Go.wrapI 64 ((done.length : Int) + 1 - 1) = (done.length : Int) := by
        unfold Go.wrapI; omega
      have g1 : ∀ (x y : Nat) (r : List Nat), Go.idxI (done ++ x :: y :: r) ((done.length : Int) + 1) = some y := by
        intro x y r
        have := idxI_mid (done ++ [x]) y r
        simpa using this
      have g2 : ∀ (x y z : Nat) (r : List Nat), Go.setIdxI (done ++ x :: y :: r) ((done.length : Int) + 1) z = some (done ++ x :: z :: r) := by
        intro x y z r
        have := setIdxI_mid (done ++ [x]) y z r
        simpa using this
      simp only [g1, g2, a1, idxI_mid, setIdxI_mid, Option.bind_eq_bind, Option.bind_some, Option.pure_def, shlTop_eq_go _ n hn]
      by_cases hw : w = 0 <;> simp [hw]

end Fit.Go2Lean
