import FitProps.WireLemmas
/-!
# C01 — Encode then decode returns the messages that were written (wire level)

The theorems below are about `Fit.Wire` (FitModel/Wire.lean): the encoder's record stream (definitions under
the LRU of local message numbers, normal and compressed-timestamp headers, both byte orders, developer
fields, file header, CRC, chained files) and the decoder's framing with its timestamp tracking.
A field value is the byte string it marshals to; that `unmarshal ∘ marshal` is the identity up to the
documented normal form is C06 (`FitProps/C06.lean`), what validation retains is C10.

PROPERTY THEOREMS: C01_wire_records, C01_wire_sequence, C01_wire_chain, C01_ts_nonmonotone_witness,
C01_wire_records_full_fails
-/
namespace Fit.C01
open Fit.Wire

/-- RECORDS. For every message list, every option combination (byte order, header option, 1..16 local
message types — hence every eviction pattern of the LRU), from any related encoder/decoder state:
decoding the record bytes the encoder writes returns, message by message, the same message number,
byte order, developer fields and fields in order — a compressed timestamp comes back as the original
full timestamp. In compressed-header mode the message timestamps must be valid and non-decreasing
(`TsMono`; the pinned tree violates the property otherwise: `C01_ts_nonmonotone_witness`). -/
theorem C01_wire_records (tsKnown : Nat → Bool) (o : Opts) (ho : OptsOK o) (ms : List WMsg)
    (hok : ∀ m ∈ ms, MsgOK m) (hts : o.compress = true → TsMono o.arch 0 ms) (tail : Bytes) :
    ∃ items, decodeRecords tsKnown ((encodeMsgs o (freshEnc o) ms).length + tail.length) DecState.fresh
        (encodeMsgs o (freshEnc o) ms).length (encodeMsgs o (freshEnc o) ms ++ tail) = (items, .ok tail) ∧
      AllMatch (RecMatches o.arch) ms (dataOf items) :=
  encodeMsgs_roundtrip tsKnown o ho.arch ms (freshEnc o) DecState.fresh 0 hok
    (DefInv.fresh o.arch o.lruCap ho.capPos ho.cap16 _) ho.cap4
    (fun hc => ⟨⟨rfl, rfl, Nat.le_refl _, by simp [freshEnc], by decide⟩, hts hc⟩) tail _ (by omega)

/-- ONE FIT SEQUENCE (header, records, CRC), with or without checksum verification: `Decode` succeeds,
consumes exactly the sequence, returns the header the encoder wrote (size, versions, data size = exact
number of record bytes), the CRC, and matching messages. -/
theorem C01_wire_sequence (tsKnown : Nat → Bool) (checksum : Bool) (o : Opts) (ho : OptsOK o) (h : Hdr)
    (ms : List WMsg) (hf : FitOK o h ms) (tail : Bytes) :
    ∃ f, decodeFit tsKnown checksum (encodeFit o h ms ++ tail) = (f.items, .ok (f, tail)) ∧ FitMatches o (h, ms) f :=
  decodeFit_encodeFit tsKnown checksum o ho h ms hf tail

/-- CHAINED FILES: the `for dec.Next() { dec.Decode() }` loop over the bytes of any chain returns exactly one
matching sequence per encoded sequence, in order, and ends without error. -/
theorem C01_wire_chain (tsKnown : Nat → Bool) (checksum : Bool) (o : Opts) (ho : OptsOK o)
    (fits : List (Hdr × List WMsg)) (hne : fits ≠ []) (hall : ∀ f ∈ fits, FitOK o f.1 f.2) :
    ∃ evs, decodeStream tsKnown checksum (fits.length + 1) true (encodeChain o fits) = (evs, none) ∧
      AllMatch (FitMatches o) fits (seqsOf evs) :=
  decodeStream_encodeChain tsKnown checksum o ho fits hall true (fun _ => hne) _ (by omega)

/-! ### non-vacuity: a concrete chain with compressed timestamps, developer fields, big-endian, LRU of 2 -/

def exOpts : Opts := ⟨1, true, 2⟩
def exTs (t : Nat) : WField := ⟨253, 0x86, 7, [t / 16777216 % 256, t / 65536 % 256, t / 256 % 256, t % 256]⟩
def exMsgs : List WMsg :=
  [ ⟨0, [⟨0, 0x00, 3, [4]⟩], []⟩,
    ⟨20, [exTs 1000000000, ⟨3, 0x02, 3, [70]⟩], []⟩,
    ⟨20, [⟨3, 0x02, 3, [71]⟩, exTs 1000000005], [⟨0, 0, [1, 2]⟩]⟩,
    ⟨21, [exTs 1000000005, ⟨0, 0x00, 3, [0]⟩], []⟩,
    ⟨20, [exTs 1000000031, ⟨3, 0x02, 3, [72]⟩], []⟩,
    ⟨20, [exTs 1000000040, ⟨3, 0x02, 3, [73]⟩], []⟩ ]

/-- the example decodes to its own messages (executed by the kernel): six data records, timestamps
1000000005 (compressed), 1000000031 (compressed) and 1000000040 (roll-over, written in full) included -/
example : (decodeStream (fun n => n == 20 || n == 21) true 3 true (encodeChain exOpts [(⟨14, 32, 2158⟩, exMsgs)])).2 = none ∧
    ((seqsOf (decodeStream (fun n => n == 20 || n == 21) true 3 true (encodeChain exOpts [(⟨14, 32, 2158⟩, exMsgs)])).1).map
      (fun f => (dataOf f.items).map (·.ts))) = [[none, none, some 1000000005, some 1000000005, some 1000000031, none]] := by
  decide +kernel

/-! ### the pinned tree violates the full property for non-monotonic timestamps (finding KF-C01-ts) -/

/-- timestamps t, t+20, t+5 under compressed headers -/
def kfMsgs : List WMsg :=
  [ ⟨20, [exTs 1000000000, ⟨3, 0x02, 3, [70]⟩], []⟩,
    ⟨20, [exTs 1000000020, ⟨3, 0x02, 3, [71]⟩], []⟩,
    ⟨20, [exTs 1000000005, ⟨3, 0x02, 3, [72]⟩], []⟩ ]

/-- …decode as t, t+20, t+37: the third message comes back with a timestamp it never had. The encoder
compares with a reference that moves only on roll-over, the decoder with the last timestamp it saw. -/
theorem C01_ts_nonmonotone_witness :
    ((seqsOf (decodeStream (fun n => n == 20) true 3 true (encodeChain exOpts [(⟨14, 32, 2158⟩, kfMsgs)])).1).map
      (fun f => (dataOf f.items).map (·.ts))) = [[none, some 1000000020, some 1000000037]] ∧
    kfMsgs.map (tsOf 1) = [1000000000, 1000000020, 1000000005] := by
  decide +kernel

/-- the full statement (no hypothesis on timestamps) is therefore false of the model — and of the code it is tied to -/
def C01_wire_records_full : Prop :=
  ∀ (tsKnown : Nat → Bool) (o : Opts), OptsOK o → ∀ ms : List WMsg, (∀ m ∈ ms, MsgOK m) → ∀ tail,
    ∃ items, decodeRecords tsKnown ((encodeMsgs o (freshEnc o) ms).length + tail.length) DecState.fresh
        (encodeMsgs o (freshEnc o) ms).length (encodeMsgs o (freshEnc o) ms ++ tail) = (items, .ok tail) ∧
      AllMatch (RecMatches o.arch) ms (dataOf items)

theorem kf_ok : ∀ m ∈ kfMsgs, MsgOK m := by
  intro m hm
  simp only [kfMsgs, List.mem_cons, List.not_mem_nil, or_false] at hm
  rcases hm with rfl | rfl | rfl <;>
  exact ⟨by decide, by decide, by decide, by intro f hf; simp [exTs] at hf; rcases hf with rfl | rfl <;> decide, by intro d hd; cases hd⟩

theorem exOpts_ok : OptsOK exOpts := ⟨Or.inr rfl, by decide, by decide, fun _ => by decide⟩

theorem kf_decoded : (dataOf (decodeRecords (fun n => n == 20) ((encodeMsgs exOpts (freshEnc exOpts) kfMsgs).length + 0) DecState.fresh
      (encodeMsgs exOpts (freshEnc exOpts) kfMsgs).length (encodeMsgs exOpts (freshEnc exOpts) kfMsgs ++ [])).1).map (·.ts)
        = [none, some 1000000020, some 1000000037] := by decide +kernel

theorem kf_ts3 : tsOf 1 ⟨20, [exTs 1000000005, ⟨3, 0x02, 3, [72]⟩], []⟩ = 1000000005 := by decide +kernel

/-- the full statement (no hypothesis on timestamps) is false of the model, and — through the correspondence
and the replay of the same three messages on the real encoder and decoder — of the pinned code -/
theorem C01_wire_records_full_fails : ¬ C01_wire_records_full := by
  intro h
  obtain ⟨items, hdec, hall⟩ := h (fun n => n == 20) exOpts exOpts_ok kfMsgs kf_ok []
  have hk := kf_decoded
  simp only [List.length_nil] at hdec
  rw [hdec] at hk
  generalize dataOf items = D at hall hk
  simp only [kfMsgs] at hall
  cases hall with
  | cons _ h2 =>
    cases h2 with
    | cons _ h3 =>
      cases h3 with
      | cons hm3 h4 =>
        cases h4
        simp only [List.map_cons, List.map_nil, List.cons.injEq, and_true] at hk
        obtain ⟨_, _, _, hts | ⟨hts, _⟩⟩ := hm3
        · rw [hts.1] at hk; exact absurd hk.2.2 (by simp)
        · rw [hts] at hk
          have e : exOpts.arch = 1 := rfl
          rw [e, kf_ts3] at hk; exact absurd hk.2.2 (by simp)

end Fit.C01
