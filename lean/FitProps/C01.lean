import FitProps.WireLemmas
/-!
# C01 — Encode then decode returns the messages that were written (wire level)

The theorems below are about `Fit.Wire` (FitModel/Wire.lean): the encoder's record stream (definitions under
the LRU of local message numbers, normal and compressed-timestamp headers, both byte orders, developer
fields, file header, CRC, chained files) and the decoder's framing with its timestamp tracking.
A field value is the byte string it marshals to; that `unmarshal ∘ marshal` is the identity up to the
documented normal form is C06 (`FitProps/C06.lean`), what validation retains is C10.

PROPERTY THEOREMS: C01_wire_records, C01_wire_sequence, C01_wire_chain, C01_wire_descs_needed, C01_ts_nonmonotone_roundtrip,
C01_ts_wild_roundtrip, C01_fix_conservative

FIELD DESCRIPTIONS (disagreement D1 of notes/links.md, repaired in the model). The decoder keeps the `field_description`
messages of the sequence (`DecState.descs`: developer data index, field definition number, fit base type id — first byte
of the LAST field 0 / 1 / 2 of non-zero size, 255 if none; recorded after the fields of the message are decoded, before its
developer fields; dropped at the end of the sequence) and refuses a developer field whose description — the FIRST one with
its (index, number) — carries an invalid base type (`decodeDeveloperFields`: `errInvalidBaseType`). The round trip therefore
holds under one more hypothesis than typing, explicit and decidable:

    msgsDescOK [] ms = true      -- no developer field of `ms` is written under a field description (first match among the
                                 -- `field_description` messages written before it in the sequence, its own message
                                 -- included, read as the decoder reads them) whose base type is invalid

It is NECESSARY (`C01_wire_descs_needed`: without it the decoder rejects the encoder's own output) and it is what the
encoder's MESSAGE VALIDATOR guarantees: `C01_e2e_validator_descs` (FitProps/C01E2E.lean) proves it for everything
`messageValidator.Validate` lets through, under every validator option, and `C01_e2e_wire_chain` states the chain round trip
of this file with the hypothesis discharged. STATUS OF A PASS-THROUGH VALIDATOR: the property quantifies over "validator
options" — the options of the library's message validator; a custom `MessageValidator` that lets everything through is not
one of them. A message list the standard validator would not let through as it is (here: a developer field under a
description with an invalid base type — dropped with the default options, rejected with "preserve invalid values") is
outside C01's domain; family `rtw` (real encoder with a pass-through validator) answers `n/a` on exactly the lines where
`msgsDescOK` fails, and the correspondence of the model is still checked on them (model and code both: `err:basetype`).

History: on the pinned tree the compressed-timestamp part held for valid, unique, non-decreasing timestamps
only (finding KF-C01-ts: t, t+20, t+5 came back as t, t+20, t+37). Repaired in /repo by the `fix:` commit
recorded in known_findings.jsonl (the encoder tracks the last timestamp a decoder has seen); the model follows
the repaired code and the hypothesis `TsMono` is gone: the theorems quantify over ALL message lists.
-/
namespace Fit.C01
open Fit.Wire

/-- RECORDS. For every message list, every option combination (byte order, header option, 1..16 local
message types — hence every eviction pattern of the LRU), whatever factory the decoder has (`tsKnown`):
decoding the record bytes the encoder writes returns, message by message, the same message number,
byte order, developer fields and fields in order — a compressed timestamp comes back as the original
full timestamp. No hypothesis on timestamps: they may go backwards, repeat, be invalid, lie below
`DateTimeMin`, occur several times in a message or be of any type and size (`MsgOK` is typing only: counts
and sizes fit a byte, base types are valid, data are bytes). `hdesc`: see the header (guaranteed by the message validator). -/
theorem C01_wire_records (tsKnown : Nat → Bool) (o : Opts) (ho : OptsOK o) (ms : List WMsg)
    (hok : ∀ m ∈ ms, MsgOK m) (hdesc : msgsDescOK [] ms = true) (tail : Bytes) :
    ∃ items, decodeRecords tsKnown ((encodeMsgs o (freshEnc o) ms).length + tail.length) DecState.fresh
        (encodeMsgs o (freshEnc o) ms).length (encodeMsgs o (freshEnc o) ms ++ tail) = (items, .ok tail) ∧
      AllMatch (RecMatches o.arch) ms (dataOf items) :=
  encodeMsgs_roundtrip tsKnown o ho.arch ms (freshEnc o) DecState.fresh hok
    (DefInv.fresh o.arch o.lruCap ho.capPos ho.cap16 _) ho.cap4
    (fun _ => Or.inl rfl) hdesc tail _ (by omega)

/-- ONE FIT SEQUENCE (header, records, CRC), with or without checksum verification: `Decode` succeeds,
consumes exactly the sequence, returns the header the encoder wrote (size, versions, data size = exact
number of record bytes), the CRC, and matching messages. -/
theorem C01_wire_sequence (tsKnown : Nat → Bool) (checksum : Bool) (o : Opts) (ho : OptsOK o) (h : Hdr)
    (ms : List WMsg) (hf : FitOK o h ms) (hdesc : msgsDescOK [] ms = true) (tail : Bytes) :
    ∃ f, decodeFit tsKnown checksum (encodeFit o h ms ++ tail) = (f.items, .ok (f, tail)) ∧ FitMatches o (h, ms) f :=
  decodeFit_encodeFit tsKnown checksum o ho h ms hf hdesc tail

/-- CHAINED FILES: the `for dec.Next() { dec.Decode() }` loop over the bytes of any chain returns exactly one
matching sequence per encoded sequence, in order, and ends without error. -/
theorem C01_wire_chain (tsKnown : Nat → Bool) (checksum : Bool) (o : Opts) (ho : OptsOK o)
    (fits : List (Hdr × List WMsg)) (hne : fits ≠ []) (hall : ∀ f ∈ fits, FitOK o f.1 f.2)
    (hdesc : ∀ f ∈ fits, msgsDescOK [] f.2 = true) :
    ∃ evs, decodeStream tsKnown checksum (fits.length + 1) true (encodeChain o fits) = (evs, none) ∧
      AllMatch (FitMatches o) fits (seqsOf evs) :=
  decodeStream_encodeChain tsKnown checksum o ho fits hall hdesc true (fun _ => hne) _ (by omega)

/-! ### non-vacuity: a concrete chain with compressed timestamps, developer fields, big-endian, LRU of 2 -/

def exOpts : Opts := ⟨1, true, 2⟩
def exTs (t : Nat) : WField := ⟨253, 0x86, 7, [t / 16777216 % 256, t / 65536 % 256, t / 256 % 256, t % 256]⟩
def exMsgs : List WMsg :=
  [ ⟨0, [⟨0, 0x00, 3, [4]⟩], []⟩,
    ⟨20, [exTs 1000000000, ⟨3, 0x02, 3, [70]⟩], []⟩,
    ⟨20, [⟨3, 0x02, 3, [71]⟩, exTs 1000000005], [⟨0, 0, [1, 2]⟩]⟩,
    ⟨21, [exTs 1000000005, ⟨0, 0x00, 3, [0]⟩], []⟩,
    ⟨20, [exTs 1000000031, ⟨3, 0x02, 3, [72]⟩], []⟩,
    ⟨20, [exTs 1000000040, ⟨3, 0x02, 3, [73]⟩], []⟩ ]

/-- the example decodes to its own messages (executed by the kernel): six data records, timestamps
1000000005 (compressed), 1000000031 (compressed) and 1000000040 (roll-over, written in full) included -/
example : (decodeStream (fun n => n == 20 || n == 21) true 3 true (encodeChain exOpts [(⟨14, 32, 2158⟩, exMsgs)])).2 = none ∧
    ((seqsOf (decodeStream (fun n => n == 20 || n == 21) true 3 true (encodeChain exOpts [(⟨14, 32, 2158⟩, exMsgs)])).1).map
      (fun f => (dataOf f.items).map (·.ts))) = [[none, none, some 1000000005, some 1000000005, some 1000000031, none]] := by
  decide +kernel

/-! ### field descriptions: non-vacuity and necessity of `msgsDescOK` -/

def exDesc (idx num bt : Nat) : WMsg := ⟨206, [⟨0, 0x02, 3, [idx]⟩, ⟨1, 0x02, 3, [num]⟩, ⟨2, 0x02, 3, [bt]⟩], []⟩

/-- developer data: (0, 1) described twice (uint16 first, then — never looked at — an invalid base type), (0, 2) described
after its first use; a `field_description` message that carries a developer field of its own key -/
def devMsgs : List WMsg :=
  [ exDesc 0 1 0x84, exDesc 0 1 0x55,
    ⟨20, [exTs 1000000000, ⟨3, 0x02, 3, [70]⟩], [⟨1, 0, [1, 2]⟩, ⟨2, 0, [9]⟩]⟩,
    ⟨206, [⟨0, 0x02, 3, [0]⟩, ⟨1, 0x02, 3, [2]⟩, ⟨2, 0x02, 3, [0x02]⟩], [⟨2, 0, [7]⟩]⟩,
    ⟨20, [exTs 1000000004, ⟨3, 0x02, 3, [71]⟩], [⟨1, 0, [3, 4]⟩, ⟨2, 0, [8]⟩]⟩ ]

/-- the example meets the hypotheses of `C01_wire_chain` (typing is `fitOKB`, decidable), `msgsDescOK` included … -/
example : optsOKB exOpts = true ∧ fitOKB exOpts ⟨14, 32, 2158⟩ devMsgs = true ∧ msgsDescOK [] devMsgs = true := by decide +kernel

/-- … and decodes to itself (evaluated by the kernel): five data records in one sequence, no error -/
example : (decodeStream (fun n => n == 20) true 3 true (encodeChain exOpts [(⟨14, 32, 2158⟩, devMsgs)])).2 = none ∧
    ((seqsOf (decodeStream (fun n => n == 20) true 3 true (encodeChain exOpts [(⟨14, 32, 2158⟩, devMsgs)])).1).map
      (fun f => (dataOf f.items).map (fun r => (r.num, r.devs.length)))) = [[(206, 0), (206, 0), (20, 2), (206, 1), (20, 2)]] := by
  decide +kernel

/-- the witness of D1 as messages: a description with base type 0x55 and a developer field that refers to it -/
def d1Msgs : List WMsg := [exDesc 0 0 0x55, ⟨20, [⟨3, 0x02, 3, [0x50]⟩], [⟨0, 0, [7]⟩]⟩]

/-- **`msgsDescOK` IS NEEDED.** The witness is well-typed (`fitOKB`) and fails `msgsDescOK`; the decoder ends the
encoder's own output with `invalidBaseType` (as the real decoder does on the output of the real encoder with a
pass-through validator: corpus/rtw.txt) — the statement of `C01_wire_chain` without the hypothesis is false. With the
description's base type valid (0x02) the same messages round-trip. -/
theorem C01_wire_descs_needed :
    fitOKB ⟨0, false, 1⟩ ⟨14, 32, 2158⟩ d1Msgs = true ∧ msgsDescOK [] d1Msgs = false ∧
    (decodeStream (fun _ => true) true 2 true (encodeChain ⟨0, false, 1⟩ [(⟨14, 32, 2158⟩, d1Msgs)])).2 = some .invalidBaseType ∧
    msgsDescOK [] [exDesc 0 0 0x02, ⟨20, [⟨3, 0x02, 3, [0x50]⟩], [⟨0, 0, [7]⟩]⟩] = true ∧
    (decodeStream (fun _ => true) true 2 true
      (encodeChain ⟨0, false, 1⟩ [(⟨14, 32, 2158⟩, [exDesc 0 0 0x02, ⟨20, [⟨3, 0x02, 3, [0x50]⟩], [⟨0, 0, [7]⟩]⟩])])).2 = none := by
  decide +kernel

/-- a simple sufficient condition for `msgsDescOK`: every `field_description` message written carries a valid base type
(`allDescsValid`, FitProps/WireLemmas.lean) -/
example : allDescsValid [exDesc 0 1 0x84, ⟨20, [⟨3, 0x02, 3, [70]⟩], [⟨1, 0, [1, 2]⟩]⟩] = true ∧
    msgsDescOK [] [exDesc 0 1 0x84, ⟨20, [⟨3, 0x02, 3, [70]⟩], [⟨1, 0, [1, 2]⟩]⟩] = true :=
  ⟨by decide, msgsDescOK_of_allValid _ [] (fun _ h => by cases h) (by decide)⟩

/-! ### the former finding KF-C01-ts: non-monotonic timestamps now round-trip -/

/-- timestamps t, t+20, t+5 under compressed headers (the witness of KF-C01-ts) -/
def kfMsgs : List WMsg :=
  [ ⟨20, [exTs 1000000000, ⟨3, 0x02, 3, [70]⟩], []⟩,
    ⟨20, [exTs 1000000020, ⟨3, 0x02, 3, [71]⟩], []⟩,
    ⟨20, [exTs 1000000005, ⟨3, 0x02, 3, [72]⟩], []⟩ ]

theorem exOpts_ok : OptsOK exOpts := ⟨Or.inr rfl, by decide, by decide, fun _ => by decide⟩

theorem kf_ok : ∀ m ∈ kfMsgs, MsgOK m := by
  intro m hm
  simp only [kfMsgs, List.mem_cons, List.not_mem_nil, or_false] at hm
  rcases hm with rfl | rfl | rfl <;>
  exact ⟨by decide, by decide, by decide, (by intro f hf; simp [exTs] at hf; rcases hf with rfl | rfl <;> decide),
    (by intro d hd; cases hd), (by intro f hf; simp [exTs] at hf; rcases hf with rfl | rfl <;> decide)⟩

/-- the witness meets the hypotheses of `C01_wire_records` (non-vacuity on the formerly failing input) -/
example : ∃ items, decodeRecords (fun n => n == 20) ((encodeMsgs exOpts (freshEnc exOpts) kfMsgs).length + 0) DecState.fresh
      (encodeMsgs exOpts (freshEnc exOpts) kfMsgs).length (encodeMsgs exOpts (freshEnc exOpts) kfMsgs ++ []) = (items, .ok []) ∧
    AllMatch (RecMatches exOpts.arch) kfMsgs (dataOf items) :=
  C01_wire_records (fun n => n == 20) exOpts exOpts_ok kfMsgs kf_ok (by decide) []

/-- …the third message (t+5, 15 s before the last timestamp the decoder saw) is written with its full timestamp:
the records come back as t (full), t+20 (from the header), t+5 (full) — on the pinned tree the third one was
compressed and came back as t+37. -/
theorem C01_ts_nonmonotone_roundtrip :
    ((seqsOf (decodeStream (fun n => n == 20) true 3 true (encodeChain exOpts [(⟨14, 32, 2158⟩, kfMsgs)])).1).map
      (fun f => (dataOf f.items).map (fun r => (r.ts, r.fields.length)))) = [[(none, 2), (some 1000000020, 1), (none, 2)]] ∧
    kfMsgs.map (tsOf 1) = [1000000000, 1000000020, 1000000005] := by
  decide +kernel

/-- a wilder history in one sequence: backwards inside the window (full), forward again (compressed against the
NEW reference), an invalid timestamp kept in the message (full; the decoder's timestamp becomes 0xFFFFFFFF, so
the next one is full), a one-byte field 253 (decoders disagree on it: next one full), two fields 253 in one
message (the first travels in the header, the second stays and becomes the decoder's last timestamp, so the
next message is full), a timestamp below DateTimeMin (full, then full again). Every compressed record carries
its message's own first timestamp. -/
def wildMsgs : List WMsg :=
  let r (fs : List WField) : WMsg := ⟨20, fs ++ [⟨3, 0x02, 3, [70]⟩], []⟩
  [ r [exTs 1000000000], r [exTs 1000000020], r [exTs 1000000005], r [exTs 1000000025],
    r [exTs 0xFFFFFFFF], r [exTs 1000000026], r [exTs 1000000027],
    r [⟨253, 0x02, 3, [9]⟩], r [exTs 1000000028], r [exTs 1000000029],
    r [exTs 1000000030, exTs 1000000100], r [exTs 1000000031], r [exTs 1000000032],
    r [exTs 5], r [exTs 1000000033], r [exTs 1000000034] ]

theorem C01_ts_wild_roundtrip :
    ((seqsOf (decodeStream (fun n => n == 20) true 3 true (encodeChain exOpts [(⟨14, 32, 2158⟩, wildMsgs)])).1).map
      (fun f => (dataOf f.items).map (·.ts))) =
      [[none, some 1000000020, none, some 1000000025, none, none, some 1000000027, none, none, some 1000000029,
        some 1000000030, none, some 1000000032, none, none, some 1000000034]] ∧
    (seqsOf (decodeStream (fun n => n == 20) false 3 true (encodeChain exOpts [(⟨14, 32, 2158⟩, wildMsgs)])).1).map
      (fun f => (dataOf f.items).map (·.ts)) =
    (seqsOf (decodeStream (fun _ => false) true 3 true (encodeChain exOpts [(⟨14, 32, 2158⟩, wildMsgs)])).1).map
      (fun f => (dataOf f.items).map (·.ts)) := by
  decide +kernel

/-! ### what the repair leaves unchanged -/

theorem fix_conservative_aux (o : Opts) (ms : List WMsg) :
    ∀ (e : EncState) (lo : Nat), TsMono o.arch lo ms →
      (o.compress = true → e.tsLast = lo ∧ e.tsRef ≤ lo ∧ lo - e.tsRef ≤ 31) →
      encodeMsgs o e ms = encodeMsgsOld o (e.lru, e.tsRef) ms := by
  induction ms with
  | nil => intro _ _ _ _; rfl
  | cons m ms ih =>
    intro e lo hm hinv
    obtain ⟨hok, hlo, hrest⟩ := hm
    obtain ⟨h1, h2, h3, h4⟩ := step_conservative o e lo m hok hlo hinv
    have := ih (encodeMsg o e m).1 _ hrest h4
    simp only [encodeMsgs, encodeMsgsOld]
    rw [h1, this, h2, h3]


/-- BYTE-IDENTICAL WHERE THE OLD ENCODER WAS RIGHT. For message lists whose timestamps are valid date-times, at
most one per message, and never go backwards — the inputs on which the pinned tree already met the property —
the repaired encoder writes exactly the bytes the pinned tree's encoder wrote (same compression decisions,
same definitions, same local message numbers). -/
theorem C01_fix_conservative (o : Opts) (ms : List WMsg) (h : TsMono o.arch 0 ms) :
    encodeMsgs o (freshEnc o) ms = encodeMsgsOld o (Lru.empty o.lruCap, 0) ms :=
  fix_conservative_aux o ms (freshEnc o) 0 h (fun _ => ⟨rfl, Nat.le_refl _, by simp [freshEnc]⟩)

/-- non-vacuity: the example chain of above has valid, unique, non-decreasing timestamps -/
example : TsMono exOpts.arch 0 exMsgs := by
  refine TsMono.cons_none (by unfold noTs; decide) ?_
  refine TsMono.cons_ts [] [⟨3, 0x02, 3, [70]⟩] (exTs 1000000000) 1000000000 rfl (by unfold noTs; decide) (by unfold noTs; decide) rfl rfl (Or.inl rfl) (by decide) (by decide) (by decide) (by decide) ?_
  refine TsMono.cons_ts [⟨3, 0x02, 3, [71]⟩] [] (exTs 1000000005) 1000000005 rfl (by unfold noTs; decide) (by unfold noTs; decide) rfl rfl (Or.inl rfl) (by decide) (by decide) (by decide) (by decide) ?_
  refine TsMono.cons_ts [] [⟨0, 0x00, 3, [0]⟩] (exTs 1000000005) 1000000005 rfl (by unfold noTs; decide) (by unfold noTs; decide) rfl rfl (Or.inl rfl) (by decide) (by decide) (by decide) (by decide) ?_
  refine TsMono.cons_ts [] [⟨3, 0x02, 3, [72]⟩] (exTs 1000000031) 1000000031 rfl (by unfold noTs; decide) (by unfold noTs; decide) rfl rfl (Or.inl rfl) (by decide) (by decide) (by decide) (by decide) ?_
  refine TsMono.cons_ts [] [⟨3, 0x02, 3, [73]⟩] (exTs 1000000040) 1000000040 rfl (by unfold noTs; decide) (by unfold noTs; decide) rfl rfl (Or.inl rfl) (by decide) (by decide) (by decide) (by decide) ?_
  trivial


end Fit.C01
