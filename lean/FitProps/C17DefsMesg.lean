import FitProps.C17DefsBt
import FitModel.Generated.Xlsx
import FitModel.Generated.ProfileTables
import FitModel.Typed
import FitModel.Generated.Mesgdef
/-! C17: definitions of the statements about the factory tables and the typed structs (shard "Mesg"). -/
namespace Fit.C17
open Fit.ProfileSpec Fit.Gen

/-- the full statement: the factory's tables are the spreadsheet's rows -/
def C17_factory_eq_xlsx_full : Prop := Prof.mesgs = Xlsx.mesgs

/-! ### the typed messages (profile/mesgdef) against the spreadsheet -/

/-- the field numbers of a message that a component (of a field or of a sub-field) expands into -/
def componentTargets (m : Mesg) : List Nat :=
  m.fields.flatMap fun f => f.comps.map (·.num) ++ f.subs.flatMap fun s => s.comps.map (·.num)

def isTimeType (p : Nat) : Bool :=
  p == 0x1646174655f74696d65 /- "date_time" -/ || p == 0x16c6f63616c5f646174655f74696d65 /- "local_date_time" -/

def isBoolType (p : Nat) : Bool := p == 0x1626f6f6c /- "bool" -/

/-- One slot of a typed struct (as probed from the compiled code) is what the spreadsheet row of that field prescribes:
same base type; eligible for the expanded bitmap iff some component of the message expands into it; a `time.Time` iff the
type is date_time / local_date_time; a `typedef.Bool` iff the type is bool; a string iff the base type is string; a slice
iff the Array cell is `[N]`; an array of n iff it is `[n]`; a scalar otherwise. -/
def slotMatches (m : Mesg) (fl : FixedLens) (s : Fit.Typed.Slot) : Bool :=
  match m.fields.find? (·.num == s.num) with
  | none => false
  | some f =>
    s.baseType == f.baseType && (s.canExpand == (componentTargets m).contains s.num) &&
    match s.kind with
    | .time => isTimeType f.ptype && !f.array
    | .bool => isBoolType f.ptype && !f.array
    | .str => f.baseType == 7 && !f.array
    | .scalar => !f.array && f.baseType != 7 && !isBoolType f.ptype && !isTimeType f.ptype
    | .slice => f.array && fixedLenOf fl m.num f.num == 0
    | .fixed n => f.array && fixedLenOf fl m.num f.num == n && n != 0

/-- a typed struct against its message: same name (up to case / underscores), one slot per field and vice versa, each
slot as prescribed, and ToMesg emits the fields in the order of the sheet rows -/
def tableMatchesXlsx (ms : List Mesg) (fl : FixedLens) (order : List (Nat × List Nat)) (T : Fit.Typed.MesgTable) : Bool :=
  match ms.find? (·.num == T.num) with
  | none => false
  | some m =>
    normIdent T.name == normIdent m.name && T.slots.all (slotMatches m fl) &&
    (match order.find? (·.1 == T.num) with
     | some o => T.slots.map (·.num) == o.2
     | none => false)

end Fit.C17
