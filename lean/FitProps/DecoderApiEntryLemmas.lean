import FitProps.RawLemmas
import FitProps.DecProgLemmas
import FitModel.Listener
/-! Lemmas behind the clauses of C03 about the entry points other than `decoder.Decoder`'s own API model:

* the raw decoder (`FitModel/Raw.lean`): the explicit `.panic` outcome (a data record longer than the fixed
  `BytesArray`) is unreachable on byte streams (`nopanic_decode`), and the bound on the number of sequences is never what
  stops it (`decode_fuel`: with more fuel than bytes the outcome does not depend on the fuel);
* the read buffer under the decoder's programs (`FitModel/DecProg.lean`): over ANY reader — failing ones included —
  no `ReadN` of a run panics (`runRB_no_panic`). -/
namespace Fit.Raw
open Fit.ReadBuffer Fit.Gen.Reader

/-! ### the raw decoder never reaches its panic branch -/

/-- a client none of whose runs on byte streams ends in `.panic` -/
inductive NoPanic : P → Prop
  | ret (a : Out) : a.status ≠ some .panic → NoPanic (.ret a)
  | read (n : Nat) (k : Except RErr Bytes → P) :
      (∀ bs, bs.length = n → IsBytes bs → NoPanic (k (.ok bs))) → (∀ e, NoPanic (k (.error e))) → NoPanic (.read n k)

theorem isBytes_take {l : Bytes} (h : IsBytes l) (n : Nat) : IsBytes (l.take n) :=
  fun b hb => h b (List.mem_of_mem_take hb)

theorem isBytes_drop {l : Bytes} (h : IsBytes l) (n : Nat) : IsBytes (l.drop n) :=
  fun b hb => h b (List.mem_of_mem_drop hb)

/-- over the exact-n reader -/
theorem nopanic_exact (p : P) (hp : NoPanic p) : ∀ rest, IsBytes rest → (runExact p rest).status ≠ some .panic := by
  induction hp with
  | ret a ha => intro rest _; exact ha
  | read n k _ _ ihok iherr =>
    intro rest hb
    simp only [runExact, exactRead]
    split
    · rename_i hn
      exact ihok (rest.take n) (by simp [hn]) (isBytes_take hb n) _ (isBytes_drop hb n)
    · split
      · exact iherr _ _ (by intro b hb'; cases hb')
      · exact iherr _ _ (by intro b hb'; cases hb')

/-- over any reader, however it fragments the stream and wherever it fails (`io.ReadFull` on the reader itself) -/
theorem nopanic_full (p : P) (hp : NoPanic p) : ∀ s : Sched, IsBytes (bytesOf s) → (runFull p s).status ≠ some .panic := by
  induction hp with
  | ret a ha => intro s _; exact ha
  | read n k _ _ ihok iherr =>
    intro s hb
    simp only [runFull]
    obtain ⟨d, e, s', hr, hcat, hdl, hmin⟩ := readAtLeast_gen n n (Nat.le_refl n) s
    have hr' : readFull n s = (d, e, s') := hr
    rw [hr']
    have hb2 : IsBytes (d ++ bytesOf s') := hcat ▸ hb
    have hd : IsBytes d := fun b hb' => hb2 b (List.mem_append_left _ hb')
    have hs' : IsBytes (bytesOf s') := fun b hb' => hb2 b (List.mem_append_right _ hb')
    cases e with
    | none => exact ihok d (by have := hmin rfl; omega) hd s' hs'
    | some e' => exact iherr e' s' hs'

/-- every recorded record length fits the fixed array -/
def LensOK (lens : Lens) : Prop := ∀ p ∈ lens, p.2 ≤ rawBytesArrayLen

theorem lensOK_get {lens : Lens} (h : LensOK lens) (i : Nat) : lens.get i ≤ rawBytesArrayLen := by
  unfold Lens.get
  cases hf : lens.find? (fun p => p.1 == i) with
  | none => simp
  | some p => simpa using h p (List.mem_of_find?_eq_some hf)

theorem lensOK_cons {lens : Lens} (h : LensOK lens) (i v : Nat) (hv : v ≤ rawBytesArrayLen) : LensOK ((i, v) :: lens) := by
  intro p hp
  rcases List.mem_cons.mp hp with rfl | hp
  · exact hv
  · exact h p hp

theorem nopanic_fail_read (n : Nat) (st : St) (k : Bytes → P) (hk : ∀ b, b.length = n → IsBytes b → NoPanic (k b)) :
    NoPanic (.read n fun | .error e => .ret (fail st (.io e)) | .ok b => k b) :=
  NoPanic.read n _ (fun bs h1 h2 => hk bs h1 h2) (fun e => NoPanic.ret _ (by simp [fail]))

theorem nopanic_emit (failAt : Option Nat) (st : St) (flag : Nat) (bytes : Bytes) (k : St → P) (hk : ∀ st', NoPanic (k st')) :
    NoPanic (emit failAt st flag bytes k) := by
  unfold emit
  simp only
  split
  · exact hk _
  · split
    · exact NoPanic.ret _ (by simp [fail])
    · exact hk _

theorem headD_lt {b : Bytes} (h : IsBytes b) : b.headD 0 < 256 := by
  cases b with
  | nil => simp
  | cons x xs => exact h x (by simp)

theorem nopanic_msgs (failAt : Option Nat) (ds : Nat) (fuel : Nat) : ∀ (used : Nat) (lens : Lens) (st : St) (k : St → P),
    LensOK lens → (∀ st', NoPanic (k st')) → NoPanic (msgs failAt ds fuel used lens st k) := by
  induction fuel with
  | zero => intro used lens st k _ hk; exact hk st
  | succ fuel ih =>
    intro used lens st k hl hk
    simp only [msgs]
    split
    · refine nopanic_fail_read 1 st _ (fun hb _ _ => ?_)
      split
      · refine nopanic_fail_read 5 st _ (fun b5 h5 hb5 => ?_)
        have hnf : (b5.drop 4).headD 0 < 256 := headD_lt (isBytes_drop hb5 4)
        refine nopanic_fail_read _ st _ (fun fb hfl hfb => ?_)
        split
        · refine nopanic_fail_read 1 st _ (fun nb _ hnb => ?_)
          have hnd : nb.headD 0 < 256 := headD_lt hnb
          refine nopanic_fail_read _ st _ (fun db hdl hdb => ?_)
          refine nopanic_emit _ _ _ _ _ (fun st' => ih _ _ _ _ (lensOK_cons hl _ _ ?_) hk)
          exact lenMesg_fits fb db hfb hdb (by rw [hfl]; omega) (by rw [hdl]; omega)
        · refine nopanic_emit _ _ _ _ _ (fun st' => ih _ _ _ _ (lensOK_cons hl _ _ ?_) hk)
          have := lenMesg_fits fb [] hfb (by intro b hb'; cases hb') (by rw [hfl]; omega) (by simp)
          simpa [sizeSum] using this
      · split
        · exact NoPanic.ret _ (by simp [fail])
        · split
          · rename_i hlt
            exact absurd (lensOK_get hl (localMesgNum (hb.headD 0))) (by omega)
          · refine nopanic_fail_read _ st _ (fun pb _ _ => ?_)
            exact nopanic_emit _ _ _ _ _ (fun st' => ih _ _ _ _ hl hk)
    · exact hk st

/-- the raw decoder, whatever the callback does and however many sequences it is allowed: no run on a byte stream ends in
the panic branch (`BytesArray[1:lenMesg]` out of range) -/
theorem nopanic_decode (failAt : Option Nat) (fuel : Nat) : ∀ (st : St), NoPanic (decode failAt fuel st) := by
  induction fuel with
  | zero => intro st; exact NoPanic.ret _ (by simp [done])
  | succ fuel ih =>
    intro st
    simp only [decode]
    refine NoPanic.read 1 _ (fun b0 _ _ => ?_) (fun e => ?_)
    · simp only
      split
      · exact NoPanic.ret _ (by simp [fail])
      · refine nopanic_fail_read _ st _ (fun b _ _ => ?_)
        split
        · exact NoPanic.ret _ (by simp [fail])
        · refine nopanic_emit _ _ _ _ _ (fun st' => ?_)
          refine nopanic_msgs _ _ _ _ _ _ _ (by intro p hp; cases hp) (fun st2 => ?_)
          refine nopanic_fail_read 2 st2 _ (fun c _ _ => ?_)
          exact nopanic_emit _ _ _ _ _ (fun st3 => ih _)
    · simp only
      split
      · exact NoPanic.ret _ (by simp [done])
      · exact NoPanic.ret _ (by simp [fail])

/-! ### the bound on the number of sequences never stops the raw decoder -/

/-- two clients that give the same result on every stream of at most `n` bytes -/
def SimN (n : Nat) (p q : P) : Prop := ∀ bs : Bytes, bs.length ≤ n → runExact p bs = runExact q bs

theorem SimN.rfl' (n : Nat) (p : P) : SimN n p p := fun _ _ => rfl

theorem simN_read (n m : Nat) (k k' : Except RErr Bytes → P) (h : ∀ r, SimN n (k r) (k' r)) :
    SimN n (.read m k) (.read m k') := by
  intro bs hbs
  simp only [runExact]
  exact h _ _ (Nat.le_trans (exactRead_len bs m) hbs)

theorem simN_fail_read (n m : Nat) (st : St) (k k' : Bytes → P) (h : ∀ b, SimN n (k b) (k' b)) :
    SimN n (.read m fun | .error e => .ret (fail st (.io e)) | .ok b => k b)
           (.read m fun | .error e => .ret (fail st (.io e)) | .ok b => k' b) :=
  simN_read n m _ _ (fun r => by cases r with | error e => exact SimN.rfl' _ _ | ok b => exact h b)

theorem simN_emit (n : Nat) (failAt : Option Nat) (st : St) (flag : Nat) (bytes : Bytes) (k k' : St → P)
    (h : ∀ st', SimN n (k st') (k' st')) : SimN n (emit failAt st flag bytes k) (emit failAt st flag bytes k') := by
  unfold emit
  simp only
  split
  · exact h _
  · split
    · exact SimN.rfl' _ _
    · exact h _

theorem simN_msgs (n : Nat) (failAt : Option Nat) (ds : Nat) (fuel : Nat) : ∀ (used : Nat) (lens : Lens) (st : St) (k k' : St → P),
    (∀ st', SimN n (k st') (k' st')) → SimN n (msgs failAt ds fuel used lens st k) (msgs failAt ds fuel used lens st k') := by
  induction fuel with
  | zero => intro used lens st k k' h; exact h st
  | succ fuel ih =>
    intro used lens st k k' h
    simp only [msgs]
    split
    · refine simN_fail_read n 1 st _ _ (fun hb => ?_)
      split
      · refine simN_fail_read n 5 st _ _ (fun b5 => ?_)
        refine simN_fail_read n _ st _ _ (fun fb => ?_)
        split
        · refine simN_fail_read n 1 st _ _ (fun nb => ?_)
          refine simN_fail_read n _ st _ _ (fun db => ?_)
          exact simN_emit n _ _ _ _ _ _ (fun st' => ih _ _ _ _ _ h)
        · exact simN_emit n _ _ _ _ _ _ (fun st' => ih _ _ _ _ _ h)
      · split
        · exact SimN.rfl' _ _
        · split
          · exact SimN.rfl' _ _
          · refine simN_fail_read n _ st _ _ (fun pb => ?_)
            exact simN_emit n _ _ _ _ _ _ (fun st' => ih _ _ _ _ _ h)
    · exact h st

/-- every sequence consumes at least its first byte: on a stream of `n` bytes any two bounds above `n` give the same run -/
theorem decode_simN (failAt : Option Nat) : ∀ (n f1 f2 : Nat) (st : St), n < f1 → n < f2 →
    SimN n (decode failAt f1 st) (decode failAt f2 st) := by
  intro n
  induction n with
  | zero =>
    intro f1 f2 st h1 h2
    obtain ⟨g1, rfl⟩ : ∃ g, f1 = g + 1 := ⟨f1 - 1, by omega⟩
    obtain ⟨g2, rfl⟩ : ∃ g, f2 = g + 1 := ⟨f2 - 1, by omega⟩
    intro bs hbs
    have : bs = [] := List.length_eq_zero_iff.mp (by omega)
    subst this
    simp [decode, runExact, exactRead]
  | succ n ih =>
    intro f1 f2 st h1 h2
    obtain ⟨g1, rfl⟩ : ∃ g, f1 = g + 1 := ⟨f1 - 1, by omega⟩
    obtain ⟨g2, rfl⟩ : ∃ g, f2 = g + 1 := ⟨f2 - 1, by omega⟩
    intro bs hbs
    simp only [decode, runExact]
    by_cases h1b : 1 ≤ bs.length
    · have he : exactRead bs 1 = (.ok (bs.take 1), bs.drop 1) := by simp [exactRead, h1b]
      rw [he]
      simp only
      have hrest : (bs.drop 1).length ≤ n := by simp; omega
      split
      · rfl
      · refine simN_fail_read n _ st _ _ (fun b => ?_) _ hrest
        split
        · exact SimN.rfl' _ _
        · refine simN_emit n _ _ _ _ _ _ (fun st' => ?_)
          refine simN_msgs n _ _ _ _ _ _ _ _ (fun st2 => ?_)
          refine simN_fail_read n 2 st2 _ _ (fun c => ?_)
          exact simN_emit n _ _ _ _ _ _ (fun st3 => ih g1 g2 _ (by omega) (by omega))
    · have : bs = [] := List.length_eq_zero_iff.mp (by omega)
      subst this
      simp [exactRead]

end Fit.Raw

namespace Fit.DecProg
open Fit.ReadBuffer Fit.Gen.Reader

/-- a client of the read buffer whose requests are all at most `reservedbuf` bytes and that stops at the first error it is
handed (the decoder's programs: `C08_request_bound`, `keeps_decodeLoop`) never makes `ReadN` panic — over ANY reader
(any fragmentation, any failure at any point) delivering bytes, from any state of the buffer that `Reset` can leave -/
theorem runRB_no_panic {β : Type} {μ : Out → β} {Q : RErr → Out → Prop} (p : P)
    (hg : Good μ reservedbuf p) (hk : Keeps Q p) :
    ∀ (b : RB) (rest : Bytes), Inv b rest → IsBytes rest → runRB p b ≠ .panic := by
  induction hg with
  | ret a => intro b rest _ _; simp [runRB]
  | read n k hn _ _ _ ihok _ =>
    intro b rest hinv hb
    cases hk with
    | read _ _ hkok hkerr =>
      simp only [runRB]
      rcases readN_sound hinv n hn with ⟨b', hr, hlen, hinv'⟩ | ⟨e, b', hr⟩
      · rw [hr]
        simp only
        exact ihok (rest.take n) (by simp [hlen]) (Fit.Raw.isBytes_take hb n) (hkok _) b' _ hinv' (Fit.Raw.isBytes_drop hb n)
      · rw [hr]
        simp only
        obtain ⟨a, ha, _⟩ := hkerr e
        rw [ha]
        simp [runRB]

end Fit.DecProg

namespace Fit.Listener
/-! ### the listener's transition system has no infinite run

Every step either consumes a call of the script, or moves the producer's / the worker's program counter forward, or
takes a message out of the queue: the pair (calls left, rank of the two program counters + 3 · queue length) decreases
lexicographically. Together with deadlock freedom (C14) this is termination: every run ends, and it ends with the
producer finished. -/
section
variable {M σ : Type} (proc : σ → M → σ) (init : σ)

def rankP (P : Nat) : PC M → Nat
  | .fin => 0
  | .idle => 1
  | .closeWait _ => 3
  | .onSend _ _ => 6
  | .onTake _ => 7
  | .closingPut k _ _ => 4 + 2 * (P - k)
  | .closing k _ => 5 + 2 * (P - k)

def rankC : WC → Nat
  | .exited => 0
  | .recv => 1
  | .ret _ => 2
  | .proc _ => 3

/-- the termination measure -/
def mu (s : St M σ) : Nat × Nat := (s.script.length, rankP s.P s.p + 3 * s.queue.length + rankC s.c)

def muLt (a b : Nat × Nat) : Prop := a.1 < b.1 ∨ (a.1 = b.1 ∧ a.2 < b.2)

theorem rankC_le (c : WC) : rankC c ≤ 3 := by cases c <;> simp [rankC]

theorem stepC_decreases (s s' : St M σ) (h : stepC proc s = some s') : muLt (mu s') (mu s) := by
  unfold stepC at h
  cases hc : s.c with
  | recv =>
    rw [hc] at h
    simp only at h
    cases hq : s.queue with
    | nil =>
      rw [hq] at h
      simp only at h
      split at h
      · cases h
        right
        simp [mu, rankC, hc, hq]
      · cases h
    | cons t q =>
      rw [hq] at h
      cases h
      right
      simp [mu, rankC, hc, hq]
      omega
  | proc t =>
    rw [hc] at h
    cases h
    right
    simp [mu, rankC, hc]
  | ret t =>
    rw [hc] at h
    simp only at h
    split at h
    · cases h
      right
      simp [mu, rankC, hc]
    · cases h
  | exited => rw [hc] at h; cases h

theorem finishClose_mu (a : After) (s : St M σ) :
    (finishClose init a s).script = s.script ∧ (finishClose init a s).p = .idle ∧
    (finishClose init a s).queue.length ≤ s.queue.length ∧
    (rankC (finishClose init a s).c ≤ 1 ∨ (finishClose init a s).c = s.c) := by
  cases a with
  | file => exact ⟨rfl, rfl, Nat.le_refl _, Or.inr rfl⟩
  | close => exact ⟨rfl, rfl, Nat.le_refl _, Or.inr rfl⟩
  | reset n =>
    refine ⟨?_, rfl, ?_, Or.inl ?_⟩
    · simp only [finishClose, respawn, resize]; split <;> rfl
    · simp [finishClose, respawn]
    · simp [finishClose, respawn, rankC]

theorem stepP_decreases (s s' : St M σ) (h : stepP init s = some s') : muLt (mu s') (mu s) := by
  unfold stepP at h
  cases hp : s.p with
  | idle =>
    rw [hp] at h
    simp only at h
    cases hs : s.script with
    | nil =>
      rw [hs] at h
      cases h
      right
      simp [mu, rankP, hp, hs]
    | cons c cs =>
      rw [hs] at h
      left
      cases c with
      | onMesg m => cases h; simp [mu, hs]
      | file =>
        cases h
        simp only [mu, hs, List.length_cons]
        unfold startClose
        split
        · simp
        · rw [(finishClose_mu init _ _).1]; simp
      | close =>
        cases h
        simp only [mu, hs, List.length_cons]
        unfold startClose
        split
        · simp
        · rw [(finishClose_mu init _ _).1]; simp
      | reset n =>
        cases h
        simp only [mu, hs, List.length_cons]
        unfold startClose
        split
        · simp
        · rw [(finishClose_mu init _ _).1]; simp
  | onTake m =>
    rw [hp] at h
    simp only at h
    cases hpool : s.pool with
    | nil => rw [hpool] at h; cases h
    | cons t pool' =>
      rw [hpool] at h
      cases h
      right
      simp [mu, rankP, hp]
  | onSend m t =>
    rw [hp] at h
    simp only at h
    split at h
    · cases h
      right
      simp [mu, rankP, hp]
      omega
    · split at h
      · rename_i hc
        cases h
        right
        simp [mu, rankP, rankC, hp, hc.2]
        omega
      · cases h
  | closing k a =>
    rw [hp] at h
    simp only at h
    cases hpool : s.pool with
    | nil => rw [hpool] at h; cases h
    | cons t pool' =>
      rw [hpool] at h
      cases h
      right
      simp [mu, rankP, hp]
  | closingPut k t a =>
    rw [hp] at h
    simp only at h
    split at h
    · cases h
      right
      simp only [mu, true_and]
      split
      · rename_i hk
        simp [rankP, hp]
        omega
      · simp [rankP, hp]
        omega
    · cases h
  | closeWait a =>
    rw [hp] at h
    simp only at h
    split at h
    · cases h
      have hf := finishClose_mu init a s
      right
      refine ⟨by simp [mu, hf.1], ?_⟩
      simp only [mu]
      have hP : rankP (finishClose init a s).P (finishClose init a s).p = 1 := by rw [hf.2.1]; rfl
      rw [hP, hp]
      simp only [rankP]
      rcases hf.2.2.2 with h1 | h1
      · have := hf.2.2.1; omega
      · rw [h1]; have := hf.2.2.1; omega
    · cases h
  | fin => rw [hp] at h; cases h

theorem step_decreases (s s' : St M σ) (h : Step proc init s s') : muLt (mu s') (mu s) := by
  rcases h with h | h
  · exact stepP_decreases init s s' h
  · exact stepC_decreases proc s s' h

theorem muLt_wf : WellFounded muLt := by
  have h : WellFounded (Prod.Lex (· < · : Nat → Nat → Prop) (· < · : Nat → Nat → Prop)) :=
    (Prod.lex ⟨_, Nat.lt_wfRel.wf⟩ ⟨_, Nat.lt_wfRel.wf⟩).wf
  refine Subrelation.wf ?_ h
  intro a b hab
  obtain ⟨a1, a2⟩ := a
  obtain ⟨b1, b2⟩ := b
  rcases hab with h1 | ⟨h1, h2⟩
  · exact Prod.Lex.left _ _ h1
  · simp only at h1 h2; subst h1; exact Prod.Lex.right _ h2

/-- **No infinite run**: whatever the state (reachable or not), whatever the interleaving, the listener's transition
system cannot step forever -/
theorem no_infinite_run (f : Nat → St M σ) : ¬ ∀ i, Step proc init (f i) (f (i + 1)) := by
  intro hall
  have key : ∀ x : Nat × Nat, ∀ i, mu (f i) = x → False := by
    intro x
    induction x using muLt_wf.induction with
    | _ x ih =>
      intro i hi
      exact ih (mu (f (i + 1))) (hi ▸ step_decreases proc init _ _ (hall i)) (i + 1) rfl
  exact key _ 0 rfl

end
end Fit.Listener
