import FitProps.C17DefsMesg
/-! Kernel evaluations for `FitProps/C17.lean` (the statements and what they mean are documented there). -/
namespace Fit.C17.Lemmas
open Fit.ProfileSpec Fit.Gen Fit.C17

theorem factory_eq_xlsx_partial : Prof.mesgs = Xlsx.mesgs.map (Mesg.fix f14) := by
  decide +kernel

theorem factory_eq_xlsx_outside_class :
    Prof.mesgs.length = Xlsx.mesgs.length ∧
    ∀ p ∈ Prof.mesgs.zip Xlsx.mesgs, p.1.num = p.2.num ∧ p.1.fields.length = p.2.fields.length ∧
      ∀ q ∈ p.1.fields.zip p.2.fields, q.2.mentions f14 = false → q.1 = q.2 := by
  decide +kernel

theorem KF1_witness : ¬ C17_factory_eq_xlsx_full := by
  unfold C17_factory_eq_xlsx_full
  decide +kernel

theorem refs_resolve : ∀ m ∈ Prof.mesgs, m.numsOk = true ∧ m.refsResolve = true := by
  decide +kernel

theorem bitwidth_fit : ∀ m ∈ Prof.mesgs, m.bitsFit btSize Xlsx.fixedLens = true := by
  decide +kernel

theorem mesgdef_matches_xlsx :
    Mesgdef.tables.map (·.num) = Xlsx.mesgs.map (·.num) ∧
    ∀ T ∈ Mesgdef.tables, tableMatchesXlsx (Xlsx.mesgs.map (Mesg.fix f14)) Xlsx.fixedLens Xlsx.fieldOrder T = true := by
  decide +kernel

end Fit.C17.Lemmas
